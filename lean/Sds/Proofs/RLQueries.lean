/-
Proofs/RLQueries: property C03 — the queries of the run-length encoded bitvector
(`get`, `rank`, `rank_zero`, `select`, `select_zero`, `predecessor`, `successor`) return the defined
answers on every vector produced by `From<RLBuilder>`.
-/
import Sds.Proofs.RL
import Sds.Proofs.Iter

namespace Sds
open Outcome

namespace RLQ
open RunIter RLBuilder SampleIndex

/-! ## 1. well-formed vectors -/

abbrev Blocks := List (List (Nat × Nat))

/-- ones before block `i` -/
def cumL (bl : Blocks) (i : Nat) : Nat := lens (bl.take i).flatten
/-- end of the last run before block `i` -/
def cumS (bl : Blocks) (i : Nat) : Nat := span (bl.take i).flatten

def bitsCol (bl : Blocks) : List Nat := (List.range bl.length).map (cumS bl)
def onesCol (bl : Blocks) : List Nat := (List.range bl.length).map (cumL bl)
def zerosCol (bl : Blocks) : List Nat := (List.range bl.length).map (fun i => cumS bl i - cumL bl i)

/-- the index `SampleIndex::new` returns for no values or an empty universe -/
def TrivialIdx (s : SampleIndex) : Prop :=
  s.numValues = 0 ∧ s.divisor = U64 - 1 ∧ s.samples.len = 1 ∧ (s.samples.getRaw 0).toNat = 0

/-- `GoodB v bl`: `v` is laid out as the blocks `bl` of runs `(gap, len)` (relative to the preceding run). -/
structure GoodB (v : RL) (bl : Blocks) : Prop where
  len_lt : v.len < U64
  samples_len : v.samples.len = 2 * bl.length
  blk_ok : ∀ blk ∈ bl, blk ≠ [] ∧ BlockOK blk
  data : ∀ i (h : i < bl.length), ∃ tail, v.data.items.drop (64 * i) = unitsOf bl[i] ++ tail
  data_len : v.data.len ≤ 64 * bl.length
  ones_smp : ∀ i, i < bl.length → (v.samples.getRaw (2 * i)).toNat = cumL bl i
  bits_smp : ∀ i, i < bl.length → (v.samples.getRaw (2 * i + 1)).toNat = cumS bl i
  ones : v.ones = lens bl.flatten
  span_le : span bl.flatten ≤ v.len
  rank_idx : bl ≠ [] → v.rankIndex.Valid (bitsCol bl) v.len
  sel_idx : bl ≠ [] → v.selectIndex.Valid (onesCol bl) v.ones
  zero_idx : bl ≠ [] → 0 < v.len - v.ones → v.selectZeroIndex.Valid (zerosCol bl) (v.len - v.ones)
  triv : bl = [] → TrivialIdx v.rankIndex ∧ TrivialIdx v.selectZeroIndex

/-- `Good v R`: `v` is a well-formed vector whose runs of ones are `R` (absolute `(start, len)`) -/
def Good (v : RL) (R : List (Nat × Nat)) : Prop := ∃ bl, GoodB v bl ∧ R = absRuns 0 bl.flatten

/-! ### cumulative sums -/

theorem cumL_zero (bl : Blocks) : cumL bl 0 = 0 := rfl
theorem cumS_zero (bl : Blocks) : cumS bl 0 = 0 := rfl

theorem cumL_succ (bl : Blocks) (i : Nat) (h : i < bl.length) : cumL bl (i + 1) = cumL bl i + lens bl[i] :=
  RL.cum_succ bl i h

theorem cumS_succ (bl : Blocks) (i : Nat) (h : i < bl.length) : cumS bl (i + 1) = cumS bl i + span bl[i] := by
  unfold cumS
  rw [List.take_add_one, List.getElem?_eq_getElem h]
  rw [Option.toList_some, List.flatten_append, span_append]
  simp only [List.flatten_cons, List.flatten_nil, List.append_nil]

theorem cumL_length (bl : Blocks) : cumL bl bl.length = lens bl.flatten := by
  unfold cumL; rw [List.take_length]

theorem cumS_length (bl : Blocks) : cumS bl bl.length = span bl.flatten := by
  unfold cumS; rw [List.take_length]

theorem take_split (bl : Blocks) (j k : Nat) (h : j ≤ k) : bl.take k = bl.take j ++ (bl.take k).drop j := by
  have := List.take_append_drop j (bl.take k)
  rw [List.take_take, Nat.min_eq_left h] at this
  exact this.symm

theorem cumS_mono (bl : Blocks) (j k : Nat) (h : j ≤ k) : cumS bl j ≤ cumS bl k :=
  RL.span_take_mono bl j k h

theorem cumL_mono (bl : Blocks) (j k : Nat) (h : j ≤ k) : cumL bl j ≤ cumL bl k := by
  unfold cumL; rw [take_split bl j k h, List.flatten_append, lens_append]; omega

theorem cumL_le_cumS (bl : Blocks) (j : Nat) : cumL bl j ≤ cumS bl j := lens_le_span _

theorem cumZ_mono (bl : Blocks) (j k : Nat) (h : j ≤ k) : cumS bl j - cumL bl j ≤ cumS bl k - cumL bl k := by
  unfold cumS cumL; rw [take_split bl j k h, List.flatten_append, lens_append, span_append]
  have := lens_le_span ((bl.take k).drop j).flatten
  have := lens_le_span (bl.take j).flatten
  omega

theorem cumL_le (bl : Blocks) (j : Nat) : cumL bl j ≤ lens bl.flatten := by
  rcases Nat.le_total j bl.length with h | h
  · rw [← cumL_length]; exact cumL_mono bl j _ h
  · unfold cumL; rw [List.take_of_length_le h]; exact Nat.le_refl _

theorem cumS_le (bl : Blocks) (j : Nat) : cumS bl j ≤ span bl.flatten := by
  rcases Nat.le_total j bl.length with h | h
  · rw [← cumS_length]; exact cumS_mono bl j _ h
  · unfold cumS; rw [List.take_of_length_le h]; exact Nat.le_refl _

/-! ### the block layout and the iterator at a block start -/

theorem GoodB.blocks {v : RL} {bl : Blocks} (g : GoodB v bl) : v.blocks = bl.length := by
  unfold RL.blocks; rw [g.samples_len]; omega

theorem GoodB.get_ones {v : RL} {bl : Blocks} (g : GoodB v bl) (i : Nat) (h : i < bl.length) :
    v.samples.get (2 * i) = ok (v.samples.getRaw (2 * i)) :=
  IntVec.get_ok_rl (by rw [g.samples_len]; omega)

theorem GoodB.get_bits {v : RL} {bl : Blocks} (g : GoodB v bl) (i : Nat) (h : i < bl.length) :
    v.samples.get (2 * i + 1) = ok (v.samples.getRaw (2 * i + 1)) :=
  IntVec.get_ok_rl (by rw [g.samples_len]; omega)

theorem GoodB.onesAfter {v : RL} {bl : Blocks} (g : GoodB v bl) (i : Nat) (h : i < bl.length) :
    v.onesAfter i = ok (cumL bl (i + 1)) := by
  unfold RL.onesAfter
  rw [g.blocks]
  by_cases hl : i + 1 < bl.length
  · rw [if_pos hl, g.get_ones (i + 1) hl]
    simp only [bind_ok, pure_eq]
    rw [g.ones_smp (i + 1) hl]
  · rw [if_neg hl, g.ones, ← cumL_length]
    rw [show i + 1 = bl.length by omega]

theorem GoodB.layout {v : RL} {bl : Blocks} (g : GoodB v bl) (b : Nat) (hb : b ≤ bl.length) :
    Layout v b (cumL bl b) (bl.drop b) := by
  have := RL.layout_of_blocks v bl (cumL bl) g.blocks (by rw [g.ones, cumL_length]) g.data_len
    (by
      intro i h
      have hm := g.blk_ok bl[i] (List.getElem_mem h)
      exact ⟨hm.1, hm.2, g.data i h, by rw [g.onesAfter i h, cumL_succ bl i h], cumL_succ bl i h⟩)
    (bl.length - b) (by omega)
  rw [show bl.length - (bl.length - b) = b by omega] at this
  exact this

theorem GoodB.iterForBlock {v : RL} {bl : Blocks} (g : GoodB v bl) (b : Nat) (hb : b < bl.length) :
    v.iterForBlock b = ok ⟨b * 64, (cumL bl b, cumS bl b), cumL bl (b + 1)⟩ := by
  unfold RL.iterForBlock
  rw [if_neg (by rw [g.samples_len]; omega), g.get_ones b hb, bind_ok, g.get_bits b hb]
  simp only [bind_ok, pure_eq]
  rw [g.onesAfter b hb, g.ones_smp b hb, g.bits_smp b hb]
  rfl

/-! ### inversion of `collect` -/

theorem collect_nil_inv {m : Mode} {v : RL} {fuel : Nat} {it e : RunIter}
    (h : collect m v fuel it = ok ([], e)) : ∃ f, fuel = f + 1 ∧ nextQ m v it = ok (none, e) := by
  cases fuel with
  | zero => cases h
  | succ f =>
    refine ⟨f, rfl, ?_⟩
    rw [collect] at h
    obtain ⟨⟨o, it'⟩, h1, h2⟩ := Outcome.bind_eq_ok h
    cases o with
    | none =>
      simp only [pure_eq] at h2
      injection h2 with h2; injection h2 with _ h2; rw [h1, h2]
    | some r =>
      simp only [] at h2
      obtain ⟨⟨rs, e'⟩, h3, h4⟩ := Outcome.bind_eq_ok h2
      simp only [pure_eq] at h4
      injection h4 with h4; injection h4 with h4 _; cases h4

theorem collect_cons_inv {m : Mode} {v : RL} {fuel : Nat} {it e : RunIter} {x : (Nat × Nat) × (Nat × Nat)}
    {L : List ((Nat × Nat) × (Nat × Nat))}
    (h : collect m v fuel it = ok (x :: L, e)) :
    ∃ f it', fuel = f + 1 ∧ nextQ m v it = ok (some x.1, it') ∧ it'.pos = x.2 ∧
      collect m v f it' = ok (L, e) := by
  cases fuel with
  | zero => cases h
  | succ f =>
    rw [collect] at h
    obtain ⟨⟨o, it'⟩, h1, h2⟩ := Outcome.bind_eq_ok h
    cases o with
    | none =>
      simp only [pure_eq] at h2
      injection h2 with h2; injection h2 with h2 _; cases h2
    | some r =>
      simp only [] at h2
      obtain ⟨⟨rs, e'⟩, h3, h4⟩ := Outcome.bind_eq_ok h2
      simp only [pure_eq] at h4
      injection h4 with h4; injection h4 with h4 h5
      injection h4 with h6 h7
      subst h5 h7
      refine ⟨f, it', rfl, ?_, ?_, h3⟩
      · rw [h1, ← h6]
      · rw [← h6]

/-! ### `collect` from the start of a block -/

theorem drop_cum (bl : Blocks) (b : Nat) :
    cumL bl b + lens (bl.drop b).flatten = lens bl.flatten ∧
    cumS bl b + span (bl.drop b).flatten = span bl.flatten := by
  have h := List.take_append_drop b bl
  constructor
  · unfold cumL; rw [← lens_append, ← List.flatten_append, h]
  · unfold cumS; rw [← span_append, ← List.flatten_append, h]

theorem length_le_units : ∀ (blk : List (Nat × Nat)), (∀ p ∈ blk, p.1 < 2 ^ 64 ∧ 1 ≤ p.2) →
    blk.length ≤ (unitsOf blk).length := by
  intro blk
  induction blk with
  | nil => intro _; simp
  | cons p rs ih2 =>
    intro hp
    have := runUnits_length_pos p.1 p.2 (hp p (by simp)).1
    have := ih2 (fun q hq => hp q (by simp [hq]))
    simp only [unitsOf, List.length_append, List.length_cons]; omega

theorem layout_runs_le {v : RL} : ∀ (bl' : Blocks) (b rank : Nat), Layout v b rank bl' → bl' ≠ [] →
    64 * b + bl'.flatten.length ≤ v.data.len := by
  intro bl'
  induction bl' with
  | nil => intro b rank _ h; exact absurd rfl h
  | cons blk more ih =>
    intro b rank hL _
    have hgt := Layout.data_len_gt hL
    obtain ⟨hne, hp, h64, _, _, hmore⟩ := hL
    have hlen : blk.length ≤ (unitsOf blk).length := length_le_units blk hp
    by_cases hm : more = []
    · subst hm; simp; omega
    · have := ih (b + 1) _ hmore hm
      simp only [List.flatten_cons, List.length_append]; omega

/-- the iterator `iter_for_block(b)` returns -/
def blockIter (bl : Blocks) (b : Nat) : RunIter := ⟨b * 64, (cumL bl b, cumS bl b), cumL bl (b + 1)⟩

theorem GoodB.collect_block (m : Mode) {v : RL} {bl : Blocks} (g : GoodB v bl) (b : Nat) (hb : b < bl.length) :
    ∃ fuel e, fuel ≤ v.data.len + 2 ∧
      collect m v fuel (blockIter bl b) =
        ok (withPos (cumL bl b) (absRuns (cumS bl b) (bl.drop b).flatten), e) ∧
      e.pos = (lens bl.flatten, span bl.flatten) := by
  have hL := g.layout b (Nat.le_of_lt hb)
  have hdrop : bl.drop b = bl[b] :: bl.drop (b + 1) := List.drop_eq_getElem_cons hb
  obtain ⟨c1, c2⟩ := drop_cum bl b
  have hsp := g.span_le
  have hll := lens_le_span bl.flatten
  have hlt := g.len_lt
  have hfuel := layout_runs_le _ _ _ hL (by
    intro h; have := congrArg List.length h; simp at this; omega)
  have hE : Entry m v (blockIter bl b) b (cumL bl b) (bl.drop b) := by
    rw [hdrop]
    show peek m v _ = readRun m v _ (64 * b) (cumL bl b + lens bl[b])
    have hgt : 64 * b + (unitsOf bl[b]).length ≤ v.data.len := by
      rw [hdrop] at hL; exact Layout.data_len_gt hL
    have hup := unitsOf_length_pos (g.blk_ok _ (List.getElem_mem hb)).1 (g.blk_ok _ (List.getElem_mem hb)).2.1
    have hlp := lens_pos (g.blk_ok _ (List.getElem_mem hb)).1 (g.blk_ok _ (List.getElem_mem hb)).2.1
    rw [peek_inBlock m v _ (by show b * 64 < v.data.len; omega)
      (by show cumL bl b < cumL bl (b + 1); rw [cumL_succ bl b hb]; omega)]
    show readRun m v _ (b * 64) (cumL bl (b + 1)) = _
    rw [cumL_succ bl b hb, Nat.mul_comm]
  obtain ⟨e, h1, h2⟩ := collect_layout m v (bl.drop b) b (cumL bl b) (cumS bl b) (blockIter bl b) hL rfl hE
    (by omega) (by omega)
  exact ⟨_, e, by omega, h1, by rw [h2, c1, c2]⟩

/-! ## 2. block location -/

theorem bitsCol_length (bl : Blocks) : (bitsCol bl).length = bl.length := by simp [bitsCol]
theorem onesCol_length (bl : Blocks) : (onesCol bl).length = bl.length := by simp [onesCol]
theorem zerosCol_length (bl : Blocks) : (zerosCol bl).length = bl.length := by simp [zerosCol]

theorem bitsCol_get (bl : Blocks) (i : Nat) (h : i < (bitsCol bl).length) : (bitsCol bl)[i] = cumS bl i := by
  simp [bitsCol]
theorem onesCol_get (bl : Blocks) (i : Nat) (h : i < (onesCol bl).length) : (onesCol bl)[i] = cumL bl i := by
  simp [onesCol]
theorem zerosCol_get (bl : Blocks) (i : Nat) (h : i < (zerosCol bl).length) :
    (zerosCol bl)[i] = cumS bl i - cumL bl i := by
  simp [zerosCol]

/-- generic block search: a valid sample index over the column `col = map g (range n)` followed by
`block_for` over a reader `f` of that column finds the **last** block `b` with `g b ≤ x` -/
theorem locate {s : SampleIndex} {n : Nat} {g : Nat → Nat} {f : Nat → Outcome Nat} {univ : Nat}
    (hv : s.Valid ((List.range n).map g) univ) (hf : ∀ i, i < n → f i = ok (g i))
    (hmono : ∀ i j, i ≤ j → j < n → g i ≤ g j) (x : Nat) (hx : x < univ) :
    ∃ lo hi b, s.range x = ok (lo, hi) ∧ RL.blockFor f x 70 lo hi = ok b ∧ b < n ∧ g b ≤ x ∧
      ∀ j, b < j → j < n → x < g j := by
  have hlen : ((List.range n).map g).length = n := by simp
  obtain ⟨lo, hi, h1, h2, h3, ⟨h4, h5⟩, h6⟩ := range_spec hv x hx
  rw [hlen] at h3
  have hnlt := hv.numValues_lt
  rw [hlen, U64_eq] at hnlt
  have h5' : g lo ≤ x := by simpa using h5
  obtain ⟨b, e, b1, b2, b3, b4⟩ := RL.blockFor_70 f g x lo hi h2 (by omega)
    (fun i _ hi' => hf i (by omega)) (fun i j _ hij hj => hmono i j hij (by omega)) h5'
  refine ⟨lo, hi, b, h1, e, by omega, b3, ?_⟩
  intro j hbj hjn
  by_cases hjh : j < hi
  · exact b4 j hbj hjh
  · rcases h6 with h6 | ⟨h7, h8⟩
    · rw [hlen] at h6; omega
    · have h8' : x < g hi := by simpa using h8
      have := hmono hi j (by omega) hjn
      omega

/-- **block location for `iter_for_bit`**: for `index < len` the iterator stands at the start of the last
block whose first position (end of the last run before it) is `≤ index` -/
theorem GoodB.iterForBit {v : RL} {bl : Blocks} (g : GoodB v bl) (hne : bl ≠ []) (index : Nat)
    (hi : index < v.len) :
    ∃ b, b < bl.length ∧ v.iterForBit index = ok (blockIter bl b) ∧ cumS bl b ≤ index ∧
      ∀ j, b < j → j < bl.length → index < cumS bl j := by
  obtain ⟨lo, hi', b, h1, h2, h3, h4, h5⟩ := locate (g := cumS bl)
    (f := fun i => do let x ← v.samples.get (2 * i + 1); return x.toNat) (g.rank_idx hne)
    (fun i hi => by
      show (v.samples.get (2 * i + 1) >>= fun x => pure x.toNat) = _
      rw [g.get_bits i hi, bind_ok, pure_eq, g.bits_smp i hi])
    (fun i j hij _ => cumS_mono bl i j hij) index hi
  refine ⟨b, h3, ?_, h4, h5⟩
  unfold RL.iterForBit
  rw [if_neg (by omega), h1]
  simp only [bind_ok]
  rw [h2, bind_ok, g.iterForBlock b h3]; rfl

/-- **block location for `iter_for_one`**: the last block with at most `rank` ones before it -/
theorem GoodB.iterForOne {v : RL} {bl : Blocks} (g : GoodB v bl) (hne : bl ≠ []) (rank : Nat)
    (hi : rank < v.ones) :
    ∃ b, b < bl.length ∧ v.iterForOne rank = ok (blockIter bl b) ∧ cumL bl b ≤ rank ∧
      ∀ j, b < j → j < bl.length → rank < cumL bl j := by
  obtain ⟨lo, hi', b, h1, h2, h3, h4, h5⟩ := locate (g := cumL bl)
    (f := fun i => do let x ← v.samples.get (2 * i); return x.toNat) (g.sel_idx hne)
    (fun i hi => by
      show (v.samples.get (2 * i) >>= fun x => pure x.toNat) = _
      rw [g.get_ones i hi, bind_ok, pure_eq, g.ones_smp i hi])
    (fun i j hij _ => cumL_mono bl i j hij) rank hi
  refine ⟨b, h3, ?_, h4, h5⟩
  unfold RL.iterForOne
  rw [if_neg (by omega), h1]
  simp only [bind_ok]
  rw [h2, bind_ok, g.iterForBlock b h3]; rfl

/-- **block location for `iter_for_zero`**: the last block with at most `rank` zeros before it (the
number of zeros before a block may repeat — e.g. 0 for blocks 0 and 1 when the vector starts with a run
that fills block 0 —, and the *last* such block is the right one) -/
theorem GoodB.iterForZero (m : Mode) {v : RL} {bl : Blocks} (g : GoodB v bl) (hne : bl ≠ []) (rank : Nat)
    (hi : rank < v.len - v.ones) :
    ∃ b, b < bl.length ∧ v.iterForZero m rank = ok (blockIter bl b) ∧ cumS bl b - cumL bl b ≤ rank ∧
      ∀ j, b < j → j < bl.length → rank < cumS bl j - cumL bl j := by
  obtain ⟨lo, hi', b, h1, h2, h3, h4, h5⟩ := locate (g := fun i => cumS bl i - cumL bl i)
    (f := fun i => do
      let a ← v.samples.get (2 * i + 1); let b ← v.samples.get (2 * i); subM m a.toNat b.toNat)
    (g.zero_idx hne (by omega))
    (fun i hi => by
      show (v.samples.get (2 * i + 1) >>= fun a => v.samples.get (2 * i) >>= fun b => subM m a.toNat b.toNat) = _
      rw [g.get_bits i hi, bind_ok, g.get_ones i hi, bind_ok, g.bits_smp i hi, g.ones_smp i hi,
        subM_ok (cumL_le_cumS bl i)])
    (fun i j hij _ => cumZ_mono bl i j hij) rank hi
  refine ⟨b, h3, ?_, h4, h5⟩
  unfold RL.iterForZero RL.countZeros
  rw [if_neg (by omega), h1]
  simp only [bind_ok]
  rw [h2, bind_ok, g.iterForBlock b h3]; rfl

/-! ### the vector without runs -/

theorem TrivialIdx.range {s : SampleIndex} (h : TrivialIdx s) (x : Nat) (hx : x < U64 - 1) :
    s.range x = ok (0, 0) := by
  obtain ⟨h1, h2, h3, h4⟩ := h
  unfold SampleIndex.range
  rw [h2, if_neg (by decide), Nat.div_eq_of_lt hx]
  simp only [IntVec.getOr_def, h3, h1, Nat.zero_add]
  rw [if_pos (by omega), if_neg (by omega), h4]
  rfl

/-- the iterator every `iter_for_*` returns on a vector without runs -/
def nilIter (v : RL) : RunIter := ⟨0, (0, 0), v.ones⟩

theorem GoodB.iterForBlock_nil {v : RL} (g : GoodB v []) : v.iterForBlock 0 = ok (nilIter v) := by
  unfold RL.iterForBlock RL.onesAfter
  rw [if_pos (by rw [g.samples_len]; rfl), g.blocks, if_neg (by simp)]
  rfl

theorem GoodB.iterForBit_nil {v : RL} (g : GoodB v []) (i : Nat) (hi : i < v.len) :
    v.iterForBit i = ok (nilIter v) := by
  have := g.len_lt
  unfold RL.iterForBit
  rw [if_neg (by omega), (g.triv rfl).1.range i (by omega)]
  simp only [bind_ok]
  rw [show RL.blockFor _ i 70 0 0 = ok 0 from rfl, bind_ok, g.iterForBlock_nil]

theorem GoodB.iterForZero_nil (m : Mode) {v : RL} (g : GoodB v []) (r : Nat) (hr : r < v.len - v.ones) :
    v.iterForZero m r = ok (nilIter v) := by
  have := g.len_lt
  unfold RL.iterForZero RL.countZeros
  rw [if_neg (by omega), (g.triv rfl).2.range r (by omega)]
  simp only [bind_ok]
  rw [show RL.blockFor _ r 70 0 0 = ok 0 from rfl, bind_ok, g.iterForBlock_nil]

theorem GoodB.nextQ_nil (m : Mode) {v : RL} (g : GoodB v []) : nextQ m v (nilIter v) = ok (none, nilIter v) :=
  nextQ_atEnd m v _ (by have := g.data_len; simp at this; show v.data.len ≤ 0; omega)

/-! ## 3. reference answers on run lists -/

/-- number of set positions below `i` (runs as absolute `(start, len)`) -/
def rankR : List (Nat × Nat) → Nat → Nat
  | [], _ => 0
  | p :: rs, i => min p.2 (i - p.1) + rankR rs i

def getR : List (Nat × Nat) → Nat → Bool
  | [], _ => false
  | p :: rs, i => (decide (p.1 ≤ i) && decide (i < p.1 + p.2)) || getR rs i

/-- position of the set bit of rank `r` -/
def selectR : List (Nat × Nat) → Nat → Option Nat
  | [], _ => none
  | p :: rs, r => if r < p.2 then some (p.1 + r) else selectR rs (r - p.2)

/-- position of the unset bit of rank `r` in a vector of length `len`; `prev` = end of the previous run -/
def selectZeroFrom (len : Nat) : Nat → List (Nat × Nat) → Nat → Option Nat
  | prev, [], r => if prev + r < len then some (prev + r) else none
  | prev, p :: rs, r => if prev + r < p.1 then some (prev + r) else selectZeroFrom len (p.1 + p.2) rs (r - (p.1 - prev))

def selectZeroR (len : Nat) (R : List (Nat × Nat)) (r : Nat) : Option Nat := selectZeroFrom len 0 R r

/-- nearest set bit at or after `x`, with its rank -/
def succR (R : List (Nat × Nat)) (x : Nat) : Option (Nat × Nat) :=
  (selectR R (rankR R x)).map fun p => (rankR R x, p)

/-- nearest set bit at or before `x`, with its rank -/
def predR (R : List (Nat × Nat)) (x : Nat) : Option (Nat × Nat) :=
  if rankR R (x + 1) = 0 then none
  else (selectR R (rankR R (x + 1) - 1)).map fun p => (rankR R (x + 1) - 1, p)

theorem rankR_append (a b : List (Nat × Nat)) (i : Nat) : rankR (a ++ b) i = rankR a i + rankR b i := by
  induction a with
  | nil => simp [rankR]
  | cons p a ih => simp only [List.cons_append, rankR, ih]; omega

theorem rankR_abs_le (rs : List (Nat × Nat)) : ∀ (p0 i : Nat), i ≤ p0 → rankR (absRuns p0 rs) i = 0 := by
  induction rs with
  | nil => intro p0 i _; rfl
  | cons p rs ih =>
    intro p0 i h
    simp only [absRuns, rankR]
    rw [ih (p0 + p.1 + p.2) i (by omega)]
    omega

theorem rankR_abs_ge (rs : List (Nat × Nat)) : ∀ (p0 i : Nat), p0 + span rs ≤ i →
    rankR (absRuns p0 rs) i = lens rs := by
  induction rs with
  | nil => intro p0 i _; rfl
  | cons p rs ih =>
    intro p0 i h
    simp only [span] at h
    simp only [absRuns, rankR, lens]
    rw [ih (p0 + p.1 + p.2) i (by omega)]
    omega

/-! ## 4. `rank` -/

theorem rankLoop_walk (m : Mode) (v : RL) (index : Nat) :
    ∀ (rs : List (Nat × Nat)) (p0 r0 fuel F : Nat) (it e : RunIter),
      collect m v fuel it = ok (withPos r0 (absRuns p0 rs), e) → e.pos.1 = r0 + lens rs → fuel ≤ F →
      RL.rankLoop m v index F it = ok (r0 + rankR (absRuns p0 rs) index) := by
  intro rs
  induction rs with
  | nil =>
    intro p0 r0 fuel F it e hc he hF
    obtain ⟨f, hf, hn⟩ := collect_nil_inv hc
    obtain ⟨F', rfl⟩ : ∃ F', F = F' + 1 := ⟨F - 1, by omega⟩
    rw [RL.rankLoop, hn]
    simp only [bind_ok, pure_eq, RunIter.rank, he, lens, absRuns, rankR]
  | cons p rs ih =>
    intro p0 r0 fuel F it e hc he hF
    simp only [absRuns, withPos] at hc
    obtain ⟨f, it', hf, hn, hp, hc'⟩ := collect_cons_inv hc
    obtain ⟨F', rfl⟩ : ∃ F', F = F' + 1 := ⟨F - 1, by omega⟩
    obtain ⟨o', ⟨r', p'⟩, lim'⟩ := it'
    simp only [Prod.mk.injEq] at hp
    obtain ⟨rfl, rfl⟩ := hp
    simp only [lens] at he
    rw [RL.rankLoop, hn]
    show (if p0 + p.1 ≥ index then subM m (r0 + p.2) p.2
      else if p0 + p.1 + p.2 ≥ index then
        (subM m (p0 + p.1 + p.2) index >>= fun d => subM m (r0 + p.2) d)
      else RL.rankLoop m v index F' ⟨o', (r0 + p.2, p0 + p.1 + p.2), lim'⟩) = _
    simp only [absRuns, rankR]
    by_cases c1 : p0 + p.1 ≥ index
    · rw [if_pos c1, subM_ok (by omega), rankR_abs_le rs _ _ (by omega)]
      congr 1; omega
    · rw [if_neg c1]
      by_cases c2 : p0 + p.1 + p.2 ≥ index
      · rw [if_pos c2, subM_ok c2, bind_ok, subM_ok (by omega), rankR_abs_le rs _ _ c2]
        congr 1; omega
      · rw [if_neg c2, ih (p0 + p.1 + p.2) (r0 + p.2) f F' _ e hc' (by omega) (by omega)]
        congr 1; omega

theorem nextQ_emptyIter (m : Mode) (v : RL) : nextQ m v (emptyIter v) = ok (none, emptyIter v) :=
  nextQ_atEnd m v _ (Nat.le_refl _)

/-- the runs before block `b` are below `cumS bl b`; they contribute all their ones -/
theorem rankR_split (bl : Blocks) (b i : Nat) (h : cumS bl b ≤ i) :
    rankR (absRuns 0 bl.flatten) i = cumL bl b + rankR (absRuns (cumS bl b) (bl.drop b).flatten) i := by
  have hsplit : bl.flatten = (bl.take b).flatten ++ (bl.drop b).flatten := by
    rw [← List.flatten_append, List.take_append_drop]
  rw [hsplit, absRuns_append, rankR_append, rankR_abs_ge _ 0 i (by unfold cumS at h; omega)]
  unfold cumL cumS
  rw [Nat.zero_add]

/-- **rank**: for every argument (`i ≥ len` gives the number of ones) -/
theorem GoodB.rank (m : Mode) {v : RL} {bl : Blocks} (g : GoodB v bl) (i : Nat) :
    v.rank m i = ok (rankR (absRuns 0 bl.flatten) i) := by
  unfold RL.rank
  have hsp := g.span_le
  by_cases hi : i < v.len
  · by_cases hne : bl = []
    · subst hne
      rw [g.iterForBit_nil i hi, bind_ok, RL.rankLoop, g.nextQ_nil m]
      rfl
    · obtain ⟨b, hb, e1, h1, _⟩ := g.iterForBit hne i hi
      obtain ⟨fuel, e, hf, hc, he⟩ := g.collect_block m b hb
      rw [e1, bind_ok, rankLoop_walk m v i _ _ _ fuel _ _ e hc (by rw [he]; exact (drop_cum bl b).1.symm) hf,
        rankR_split bl b i h1]
  · have : v.iterForBit i = ok (emptyIter v) := by unfold RL.iterForBit; rw [if_pos (by omega)]
    rw [this, bind_ok, RL.rankLoop, nextQ_emptyIter]
    simp only [bind_ok, pure_eq]
    rw [rankR_abs_ge _ 0 i (by omega), ← g.ones]; rfl

theorem rankR_abs_le_index (rs : List (Nat × Nat)) : ∀ (p0 i : Nat), rankR (absRuns p0 rs) i ≤ i - p0 := by
  induction rs with
  | nil => intro p0 i; simp [absRuns, rankR]
  | cons p rs ih =>
    intro p0 i
    simp only [absRuns, rankR]
    have := ih (p0 + p.1 + p.2) i
    omega

/-- **rank_zero** is `index - rank(index)` for every argument: the number of unset positions below `i`
for `i ≤ len`, and `i - ones` beyond the length (the value is *not* clamped to `len - ones`) -/
theorem GoodB.rankZero (m : Mode) {v : RL} {bl : Blocks} (g : GoodB v bl) (i : Nat) :
    v.rankZero m i = ok (i - rankR (absRuns 0 bl.flatten) i) := by
  unfold RL.rankZero
  rw [g.rank m i, bind_ok, subM_ok (by have := rankR_abs_le_index bl.flatten 0 i; omega)]

/-! ## 5. `get` -/

theorem getR_append (a b : List (Nat × Nat)) (i : Nat) : getR (a ++ b) i = (getR a i || getR b i) := by
  induction a with
  | nil => simp [getR]
  | cons p a ih => simp only [List.cons_append, getR, ih, Bool.or_assoc]

theorem getR_abs_lt (rs : List (Nat × Nat)) : ∀ (p0 i : Nat), i < p0 → getR (absRuns p0 rs) i = false := by
  induction rs with
  | nil => intro p0 i _; rfl
  | cons p rs ih =>
    intro p0 i h
    simp only [absRuns, getR]
    rw [ih (p0 + p.1 + p.2) i (by omega)]
    simp; omega

theorem getR_abs_ge (rs : List (Nat × Nat)) : ∀ (p0 i : Nat), p0 + span rs ≤ i →
    getR (absRuns p0 rs) i = false := by
  induction rs with
  | nil => intro p0 i _; rfl
  | cons p rs ih =>
    intro p0 i h
    simp only [span] at h
    simp only [absRuns, getR]
    rw [ih (p0 + p.1 + p.2) i (by omega)]
    simp; omega

theorem getLoop_walk (m : Mode) (v : RL) (index : Nat) :
    ∀ (rs : List (Nat × Nat)) (p0 r0 fuel F : Nat) (it e : RunIter),
      collect m v fuel it = ok (withPos r0 (absRuns p0 rs), e) → fuel ≤ F →
      RL.getLoop m v index F it = ok (getR (absRuns p0 rs) index) := by
  intro rs
  induction rs with
  | nil =>
    intro p0 r0 fuel F it e hc hF
    obtain ⟨f, hf, hn⟩ := collect_nil_inv hc
    obtain ⟨F', rfl⟩ : ∃ F', F = F' + 1 := ⟨F - 1, by omega⟩
    rw [RL.getLoop, hn]; rfl
  | cons p rs ih =>
    intro p0 r0 fuel F it e hc hF
    simp only [absRuns, withPos] at hc
    obtain ⟨f, it', hf, hn, hp, hc'⟩ := collect_cons_inv hc
    obtain ⟨F', rfl⟩ : ∃ F', F = F' + 1 := ⟨F - 1, by omega⟩
    obtain ⟨o', ⟨r', p'⟩, lim'⟩ := it'
    simp only [Prod.mk.injEq] at hp
    obtain ⟨rfl, rfl⟩ := hp
    rw [RL.getLoop, hn]
    show (if p0 + p.1 > index then ok false
      else if index < p0 + p.1 + p.2 then ok true
      else RL.getLoop m v index F' ⟨o', (r0 + p.2, p0 + p.1 + p.2), lim'⟩) = _
    simp only [absRuns, getR]
    by_cases c1 : p0 + p.1 > index
    · rw [if_pos c1, getR_abs_lt rs _ _ (by omega)]
      simp; omega
    · rw [if_neg c1]
      by_cases c2 : index < p0 + p.1 + p.2
      · rw [if_pos c2]; simp; omega
      · rw [if_neg c2, ih (p0 + p.1 + p.2) (r0 + p.2) f F' _ e hc' (by omega)]
        simp; omega

theorem getR_split (bl : Blocks) (b i : Nat) (h : cumS bl b ≤ i) :
    getR (absRuns 0 bl.flatten) i = getR (absRuns (cumS bl b) (bl.drop b).flatten) i := by
  have hsplit : bl.flatten = (bl.take b).flatten ++ (bl.drop b).flatten := by
    rw [← List.flatten_append, List.take_append_drop]
  rw [hsplit, absRuns_append, getR_append, getR_abs_ge _ 0 i (by unfold cumS at h; omega)]
  unfold cumS
  rw [Nat.zero_add, Bool.false_or]

/-- **get**: for every argument (`false` at and beyond the length) -/
theorem GoodB.get (m : Mode) {v : RL} {bl : Blocks} (g : GoodB v bl) (i : Nat) :
    v.get m i = ok (getR (absRuns 0 bl.flatten) i) := by
  unfold RL.get
  have hsp := g.span_le
  by_cases hi : i < v.len
  · by_cases hne : bl = []
    · subst hne
      rw [g.iterForBit_nil i hi, bind_ok, RL.getLoop, g.nextQ_nil m]
      rfl
    · obtain ⟨b, hb, e1, h1, _⟩ := g.iterForBit hne i hi
      obtain ⟨fuel, e, hf, hc, he⟩ := g.collect_block m b hb
      rw [e1, bind_ok, getLoop_walk m v i _ _ _ fuel _ _ e hc hf, getR_split bl b i h1]
  · have : v.iterForBit i = ok (emptyIter v) := by unfold RL.iterForBit; rw [if_pos (by omega)]
    rw [this, bind_ok, RL.getLoop, nextQ_emptyIter]
    simp only [bind_ok, pure_eq]
    rw [getR_abs_ge _ 0 i (by omega)]

/-! ## 6. `select` -/

theorem selectR_abs_ge (rs : List (Nat × Nat)) : ∀ (p0 r : Nat), lens rs ≤ r → selectR (absRuns p0 rs) r = none := by
  induction rs with
  | nil => intro p0 r _; rfl
  | cons p rs ih =>
    intro p0 r h
    simp only [lens] at h
    simp only [absRuns, selectR]
    rw [if_neg (by omega), ih _ _ (by omega)]

theorem selectR_append_ge (a b : List (Nat × Nat)) : ∀ (r : Nat), lensAbs a ≤ r →
    selectR (a ++ b) r = selectR b (r - lensAbs a) := by
  induction a with
  | nil => intro r _; simp [lensAbs]
  | cons p a ih =>
    intro r h
    simp only [lensAbs] at h
    simp only [List.cons_append, selectR, lensAbs]
    rw [if_neg (by omega), ih _ (by omega)]
    congr 1; omega

theorem selectR_split (bl : Blocks) (b r : Nat) (h : cumL bl b ≤ r) :
    selectR (absRuns 0 bl.flatten) r = selectR (absRuns (cumS bl b) (bl.drop b).flatten) (r - cumL bl b) := by
  have hsplit : bl.flatten = (bl.take b).flatten ++ (bl.drop b).flatten := by
    rw [← List.flatten_append, List.take_append_drop]
  rw [hsplit, absRuns_append, selectR_append_ge _ _ r (by rw [lensAbs_absRuns]; exact h), lensAbs_absRuns]
  unfold cumS cumL
  rw [Nat.zero_add]

/-- `advance_to(rank)` (non-strict) from an iterator with at most `rank` ones before it stops right after
the run that contains the one of that rank -/
theorem advanceTo_walk (m : Mode) (v : RL) (rank : Nat) :
    ∀ (rs : List (Nat × Nat)) (p0 r0 fuel F : Nat) (it e : RunIter),
      collect m v fuel it = ok (withPos r0 (absRuns p0 rs), e) → it.pos.1 = r0 → fuel ≤ F →
      r0 ≤ rank → rank < r0 + lens rs →
      ∃ it', RL.advanceTo m v rank false F it = ok it' ∧ rank < it'.pos.1 ∧ it'.pos.1 - rank ≤ it'.pos.2 ∧
        selectR (absRuns p0 rs) (rank - r0) = some (it'.pos.2 - (it'.pos.1 - rank)) := by
  intro rs
  induction rs with
  | nil =>
    intro p0 r0 fuel F it e hc hit hF h1 h2
    simp only [lens] at h2; omega
  | cons p rs ih =>
    intro p0 r0 fuel F it e hc hit hF h1 h2
    simp only [absRuns, withPos] at hc
    obtain ⟨f, it', hf, hn, hp, hc'⟩ := collect_cons_inv hc
    obtain ⟨F', rfl⟩ : ∃ F', F = F' + 1 := ⟨F - 1, by omega⟩
    simp only [lens] at h2
    rw [RL.advanceTo]
    simp only [Bool.false_eq_true, if_false]
    rw [if_pos (by show it.pos.1 ≤ rank; omega), hn]
    simp only [bind_ok]
    by_cases c : r0 + p.2 ≤ rank
    · obtain ⟨it'', a1, a2, a3, a4⟩ := ih (p0 + p.1 + p.2) (r0 + p.2) f F' it' e hc' (by rw [hp]) (by omega) c
        (by omega)
      refine ⟨it'', a1, a2, a3, ?_⟩
      simp only [absRuns, selectR]
      rw [if_neg (by omega), ← a4]
      congr 1; omega
    · have hf1 : 1 ≤ f := by
        rcases Nat.eq_zero_or_pos f with h | h
        · subst h; cases hc'
        · exact h
      obtain ⟨F'', rfl⟩ : ∃ F'', F' = F'' + 1 := ⟨F' - 1, by omega⟩
      refine ⟨it', ?_, by rw [hp]; show rank < r0 + p.2; omega, by rw [hp]; show r0 + p.2 - rank ≤ p0 + p.1 + p.2; omega, ?_⟩
      · rw [RL.advanceTo]
        simp only [Bool.false_eq_true, if_false]
        rw [if_neg (by show ¬ it'.pos.1 ≤ rank; rw [hp]; exact c)]; rfl
      · simp only [absRuns, selectR]
        rw [if_pos (by omega), hp]
        congr 1; show p0 + p.1 + (rank - r0) = p0 + p.1 + p.2 - (r0 + p.2 - rank); omega

/-- **select**: for every argument (`none` iff `r ≥ ones`) -/
theorem GoodB.select (m : Mode) {v : RL} {bl : Blocks} (g : GoodB v bl) (r : Nat) :
    v.select m r = ok (selectR (absRuns 0 bl.flatten) r) := by
  unfold RL.select
  by_cases hr : r ≥ v.ones
  · rw [if_pos hr, selectR_abs_ge _ 0 r (by rw [← g.ones]; exact hr)]
  · rw [if_neg hr]
    have hne : bl ≠ [] := by
      intro h; subst h; have := g.ones; simp [lens] at this; omega
    obtain ⟨b, hb, e1, h1, _⟩ := g.iterForOne hne r (by omega)
    obtain ⟨fuel, e, hf, hc, he⟩ := g.collect_block m b hb
    obtain ⟨it', a1, a2, a3, a4⟩ := advanceTo_walk m v r _ _ _ fuel _ _ e hc rfl hf h1
      (by rw [(drop_cum bl b).1, ← g.ones]; omega)
    rw [e1, bind_ok, a1, bind_ok]
    unfold RunIter.offsetFor
    rw [show it'.rank = it'.pos.1 from rfl, show it'.offsetBits = it'.pos.2 from rfl,
      subM_ok (by omega), bind_ok, subM_ok a3, bind_ok, selectR_split bl b r h1, a4]
    rfl

/-! ## 7. `select_zero` -/

theorem selectZeroFrom_none (len : Nat) (rs : List (Nat × Nat)) : ∀ (p0 r : Nat), p0 + span rs ≤ len →
    len - p0 - lens rs ≤ r → selectZeroFrom len p0 (absRuns p0 rs) r = none := by
  induction rs with
  | nil =>
    intro p0 r h1 h2
    simp only [lens] at h2
    simp only [absRuns, selectZeroFrom]
    rw [if_neg (by omega)]
  | cons p rs ih =>
    intro p0 r h1 h2
    simp only [lens] at h2
    simp only [span] at h1
    have := lens_le_span rs
    simp only [absRuns, selectZeroFrom]
    rw [if_neg (by omega), ih _ _ (by omega) (by omega)]

theorem selectZeroFrom_append (len : Nat) (rest : List (Nat × Nat)) (a : List (Nat × Nat)) :
    ∀ (p0 r : Nat), span a - lens a ≤ r →
    selectZeroFrom len p0 (absRuns p0 a ++ rest) r =
      selectZeroFrom len (p0 + span a) rest (r - (span a - lens a)) := by
  induction a with
  | nil => intro p0 r _; simp [absRuns, span, lens]
  | cons p a ih =>
    intro p0 r h
    simp only [span, lens] at h
    have := lens_le_span a
    simp only [absRuns, List.cons_append, selectZeroFrom, span, lens]
    rw [if_neg (by omega), ih _ _ (by omega)]
    congr 1 <;> omega

theorem selectZero_split (len : Nat) (bl : Blocks) (b r : Nat) (h : cumS bl b - cumL bl b ≤ r) :
    selectZeroFrom len 0 (absRuns 0 bl.flatten) r =
      selectZeroFrom len (cumS bl b) (absRuns (cumS bl b) (bl.drop b).flatten) (r - (cumS bl b - cumL bl b)) := by
  have hsplit : bl.flatten = (bl.take b).flatten ++ (bl.drop b).flatten := by
    rw [← List.flatten_append, List.take_append_drop]
  rw [hsplit, absRuns_append, selectZeroFrom_append len _ _ 0 r h]
  unfold cumS cumL
  rw [Nat.zero_add]

theorem selectZeroLoop_walk (m : Mode) (v : RL) (rank len : Nat) (hlen : len < U64) :
    ∀ (rs : List (Nat × Nat)) (p0 r0 fuel F : Nat) (it e : RunIter),
      collect m v fuel it = ok (withPos r0 (absRuns p0 rs), e) → fuel ≤ F →
      r0 ≤ p0 → p0 - r0 ≤ rank → rank + (r0 + lens rs) < len →
      ∃ q it' gn, RL.selectZeroLoop m v rank F it r0 = ok (q, it', gn) ∧
        selectZeroFrom len p0 (absRuns p0 rs) (rank - (p0 - r0)) = some q := by
  intro rs
  induction rs with
  | nil =>
    intro p0 r0 fuel F it e hc hF h1 h2 h3
    obtain ⟨f, hf, hn⟩ := collect_nil_inv hc
    obtain ⟨F', rfl⟩ : ∃ F', F = F' + 1 := ⟨F - 1, by omega⟩
    simp only [lens] at h3
    refine ⟨rank + r0, e, true, ?_, ?_⟩
    · rw [RL.selectZeroLoop, hn]
      simp only [bind_ok]
      rw [addM_ok (by omega)]; rfl
    · simp only [absRuns, selectZeroFrom]
      rw [if_pos (by omega)]
      congr 1; omega
  | cons p rs ih =>
    intro p0 r0 fuel F it e hc hF h1 h2 h3
    simp only [absRuns, withPos] at hc
    obtain ⟨f, it', hf, hn, hp, hc'⟩ := collect_cons_inv hc
    obtain ⟨F', rfl⟩ : ∃ F', F = F' + 1 := ⟨F - 1, by omega⟩
    obtain ⟨o', ⟨r', p'⟩, lim'⟩ := it'
    simp only [Prod.mk.injEq] at hp
    obtain ⟨rfl, rfl⟩ := hp
    simp only [lens] at h3
    have hloop : RL.selectZeroLoop m v rank (F' + 1) it r0 =
        (if p0 + p.1 + p.2 - (r0 + p.2) > rank then
          ok (rank + r0, (⟨o', (r0 + p.2, p0 + p.1 + p.2), lim'⟩ : RunIter), false)
        else RL.selectZeroLoop m v rank F' ⟨o', (r0 + p.2, p0 + p.1 + p.2), lim'⟩ (r0 + p.2)) := by
      rw [RL.selectZeroLoop, hn]
      show (RunIter.rankZero m ⟨o', (r0 + p.2, p0 + p.1 + p.2), lim'⟩ >>= fun rz =>
          if rz > rank then (addM m rank r0 >>= fun r => pure (r, ⟨o', (r0 + p.2, p0 + p.1 + p.2), lim'⟩, false))
          else RL.selectZeroLoop m v rank F' ⟨o', (r0 + p.2, p0 + p.1 + p.2), lim'⟩ (r0 + p.2)) = _
      unfold RunIter.rankZero
      rw [show (⟨o', (r0 + p.2, p0 + p.1 + p.2), lim'⟩ : RunIter).offsetBits = p0 + p.1 + p.2 from rfl,
        show (⟨o', (r0 + p.2, p0 + p.1 + p.2), lim'⟩ : RunIter).rank = r0 + p.2 from rfl,
        subM_ok (by omega), bind_ok]
      by_cases c : p0 + p.1 + p.2 - (r0 + p.2) > rank
      · rw [if_pos c, if_pos c, addM_ok (by omega), bind_ok]; rfl
      · rw [if_neg c, if_neg c]
    rw [hloop]
    simp only [absRuns, selectZeroFrom]
    by_cases c : p0 + p.1 + p.2 - (r0 + p.2) > rank
    · rw [if_pos c, if_pos (by omega)]
      exact ⟨_, _, _, rfl, by congr 1; omega⟩
    · rw [if_neg c, if_neg (by omega)]
      obtain ⟨q, it'', gn, a1, a2⟩ := ih (p0 + p.1 + p.2) (r0 + p.2) f F' _ e hc' (by omega) (by omega)
        (by omega) (by omega)
      refine ⟨q, it'', gn, a1, ?_⟩
      rw [← a2]
      congr 1; omega

/-- **select_zero**: for every argument (`none` iff `r ≥ len - ones`) -/
theorem GoodB.selectZero (m : Mode) {v : RL} {bl : Blocks} (g : GoodB v bl) (r : Nat) :
    v.selectZero m r = ok (selectZeroR v.len (absRuns 0 bl.flatten) r) := by
  unfold RL.selectZero RL.countZeros selectZeroR
  have hsp := g.span_le
  have hlen := g.len_lt
  by_cases hr : r ≥ v.len - v.ones
  · rw [if_pos hr, selectZeroFrom_none _ _ 0 r (by omega) (by rw [← g.ones]; omega)]
  · rw [if_neg hr]
    by_cases hne : bl = []
    · subst hne
      rw [g.iterForZero_nil m r (by omega), bind_ok, RL.selectZeroLoop, g.nextQ_nil m]
      simp only [bind_ok]
      rw [show (nilIter v).rank = 0 from rfl, addM_ok (by omega)]
      simp only [bind_ok, pure_eq, List.flatten_nil, absRuns, selectZeroFrom]
      rw [if_pos (by omega), Nat.add_comm]
    · obtain ⟨b, hb, e1, h1, _⟩ := g.iterForZero m hne r (by omega)
      obtain ⟨fuel, e, hf, hc, he⟩ := g.collect_block m b hb
      obtain ⟨q, it', gn, a1, a2⟩ := selectZeroLoop_walk m v r v.len hlen _ _ _ fuel _ _ e hc hf
        (cumL_le_cumS bl b) h1 (by rw [(drop_cum bl b).1, ← g.ones]; omega)
      rw [e1, bind_ok, show (blockIter bl b).rank = cumL bl b from rfl, a1]
      simp only [bind_ok, pure_eq]
      rw [selectZero_split v.len bl b r h1, a2]

/-! ## 8. `successor` -/

theorem oneIter_nextQ_stay (m : Mode) (v : RL) (it : RunIter) (r : Nat) (h1 : r < it.pos.1)
    (h2 : it.pos.1 - r ≤ it.pos.2) :
    RLOneIter.nextQ m v ⟨it, false, r⟩ = ok (some (r, it.pos.2 - (it.pos.1 - r)), ⟨it, false, r + 1⟩) := by
  unfold RLOneIter.nextQ
  have hc : ¬ ((!false && decide (r ≥ it.rank)) = true) := by
    simp only [Bool.not_false, Bool.true_and, decide_eq_true_eq]
    show ¬ r ≥ it.pos.1; omega
  simp only [if_neg hc, pure_eq, bind_ok, Bool.false_eq_true, if_false]
  unfold RunIter.offsetFor
  rw [show it.rank = it.pos.1 from rfl, show it.offsetBits = it.pos.2 from rfl, subM_ok (by omega), bind_ok,
    subM_ok h2, bind_ok]

theorem oneIter_nextQ_empty (m : Mode) (v : RL) :
    RLOneIter.nextQ m v (RLOneIter.emptyIter v) = ok (none, RLOneIter.emptyIter v) := by
  unfold RLOneIter.nextQ RLOneIter.emptyIter
  simp

theorem succLoop_walk (m : Mode) (v : RL) (value : Nat) :
    ∀ (rs : List (Nat × Nat)) (p0 r0 fuel F : Nat) (it e : RunIter),
      collect m v fuel it = ok (withPos r0 (absRuns p0 rs), e) → fuel ≤ F → (∀ p ∈ rs, 1 ≤ p.2) →
      ∃ res, RL.succLoop m v value F it = ok res ∧
        (res = none → selectR (absRuns p0 rs) (rankR (absRuns p0 rs) value) = none) ∧
        (∀ it' r, res = some (it', r) → r = r0 + rankR (absRuns p0 rs) value ∧ r < it'.pos.1 ∧
          it'.pos.1 - r ≤ it'.pos.2 ∧
          selectR (absRuns p0 rs) (rankR (absRuns p0 rs) value) = some (it'.pos.2 - (it'.pos.1 - r))) := by
  intro rs
  induction rs with
  | nil =>
    intro p0 r0 fuel F it e hc hF _
    obtain ⟨f, hf, hn⟩ := collect_nil_inv hc
    obtain ⟨F', rfl⟩ : ∃ F', F = F' + 1 := ⟨F - 1, by omega⟩
    refine ⟨none, by rw [RL.succLoop, hn]; rfl, fun _ => rfl, fun it' r h => by cases h⟩
  | cons p rs ih =>
    intro p0 r0 fuel F it e hc hF hpos
    have hp2 := hpos p (by simp)
    simp only [absRuns, withPos] at hc
    obtain ⟨f, it', hf, hn, hp, hc'⟩ := collect_cons_inv hc
    obtain ⟨F', rfl⟩ : ∃ F', F = F' + 1 := ⟨F - 1, by omega⟩
    obtain ⟨o', ⟨r', p'⟩, lim'⟩ := it'
    simp only [Prod.mk.injEq] at hp
    obtain ⟨rfl, rfl⟩ := hp
    have hloop : RL.succLoop m v value (F' + 1) it =
        (if p0 + p.1 > value then
          ok (some ((⟨o', (r0 + p.2, p0 + p.1 + p.2), lim'⟩ : RunIter), r0))
        else if p0 + p.1 + p.2 > value then
          ok (some ((⟨o', (r0 + p.2, p0 + p.1 + p.2), lim'⟩ : RunIter), r0 + p.2 - (p0 + p.1 + p.2 - value)))
        else RL.succLoop m v value F' ⟨o', (r0 + p.2, p0 + p.1 + p.2), lim'⟩) := by
      rw [RL.succLoop, hn]
      show (if p0 + p.1 > value then
          (subM m (r0 + p.2) p.2 >>= fun r => pure (some ((⟨o', (r0 + p.2, p0 + p.1 + p.2), lim'⟩ : RunIter), r)))
        else if p0 + p.1 + p.2 > value then
          ((subM m (p0 + p.1 + p.2) value >>= fun d => subM m (r0 + p.2) d) >>= fun r =>
            pure (some ((⟨o', (r0 + p.2, p0 + p.1 + p.2), lim'⟩ : RunIter), r)))
        else RL.succLoop m v value F' ⟨o', (r0 + p.2, p0 + p.1 + p.2), lim'⟩) = _
      by_cases c1 : p0 + p.1 > value
      · rw [if_pos c1, if_pos c1, subM_ok (by omega), bind_ok, Nat.add_sub_cancel]; rfl
      · rw [if_neg c1, if_neg c1]
        by_cases c2 : p0 + p.1 + p.2 > value
        · rw [if_pos c2, if_pos c2, subM_ok (by omega), bind_ok, subM_ok (by omega), bind_ok]; rfl
        · rw [if_neg c2, if_neg c2]
    rw [hloop]
    simp only [absRuns, rankR, selectR]
    by_cases c1 : p0 + p.1 > value
    · rw [if_pos c1, rankR_abs_le rs _ _ (by omega)]
      have hk : min p.2 (value - (p0 + p.1)) + 0 = 0 := by omega
      rw [hk]
      refine ⟨_, rfl, (fun h => by cases h), ?_⟩
      intro it' r h
      injection h with h; injection h with h1 h2
      subst h1 h2
      refine ⟨rfl, by show r0 < r0 + p.2; omega, by show r0 + p.2 - r0 ≤ p0 + p.1 + p.2; omega, ?_⟩
      rw [if_pos (by omega)]
      congr 1; show p0 + p.1 + 0 = p0 + p.1 + p.2 - (r0 + p.2 - r0); omega
    · rw [if_neg c1]
      by_cases c2 : p0 + p.1 + p.2 > value
      · rw [if_pos c2, rankR_abs_le rs _ _ (by omega)]
        have hk : min p.2 (value - (p0 + p.1)) + 0 = value - (p0 + p.1) := by omega
        rw [hk]
        refine ⟨_, rfl, (fun h => by cases h), ?_⟩
        intro it' r h
        injection h with h; injection h with h1 h2
        subst h1 h2
        refine ⟨by omega, by show _ < r0 + p.2; omega, by show r0 + p.2 - _ ≤ p0 + p.1 + p.2; omega, ?_⟩
        rw [if_pos (by omega)]
        congr 1
        show p0 + p.1 + (value - (p0 + p.1)) = p0 + p.1 + p.2 - (r0 + p.2 - (r0 + p.2 - (p0 + p.1 + p.2 - value)))
        omega
      · rw [if_neg c2]
        obtain ⟨res, a1, a2, a3⟩ := ih (p0 + p.1 + p.2) (r0 + p.2) f F' _ e hc' (by omega)
          (fun q hq => hpos q (by simp [hq]))
        have hk : min p.2 (value - (p0 + p.1)) = p.2 := by omega
        rw [hk, if_neg (by omega), Nat.add_sub_cancel_left]
        refine ⟨res, a1, a2, ?_⟩
        intro it' r h
        obtain ⟨b1, b2, b3, b4⟩ := a3 it' r h
        exact ⟨by omega, b2, b3, b4⟩

theorem GoodB.len_pos_of_blk {bl : Blocks} {v : RL} (g : GoodB v bl) (b : Nat) :
    ∀ p ∈ (bl.drop b).flatten, 1 ≤ p.2 := by
  intro p hp
  obtain ⟨blk, h1, h2⟩ := List.mem_flatten.mp hp
  exact ((g.blk_ok blk (List.mem_of_mem_drop h1)).2.1 p h2).2

/-- **successor**: the returned iterator's first item is the nearest set bit at or after `x` with its
rank; the iterator is empty when there is none (in particular for `x ≥ len`) -/
theorem GoodB.successor (m : Mode) {v : RL} {bl : Blocks} (g : GoodB v bl) (x : Nat) :
    ∃ oi oi', v.successor m x = ok oi ∧ oi.nextQ m v = ok (succR (absRuns 0 bl.flatten) x, oi') := by
  unfold RL.successor succR
  have hsp := g.span_le
  by_cases hx : x ≥ v.len
  · rw [if_pos hx]
    refine ⟨_, RLOneIter.emptyIter v, rfl, ?_⟩
    rw [oneIter_nextQ_empty, rankR_abs_ge _ 0 x (by omega), selectR_abs_ge _ 0 _ (Nat.le_refl _)]
    rfl
  · rw [if_neg hx]
    by_cases hne : bl = []
    · subst hne
      rw [g.iterForBit_nil x (by omega), bind_ok, RL.succLoop, g.nextQ_nil m]
      exact ⟨_, _, rfl, oneIter_nextQ_empty m v⟩
    · obtain ⟨b, hb, e1, h1, _⟩ := g.iterForBit hne x (by omega)
      obtain ⟨fuel, e, hf, hc, he⟩ := g.collect_block m b hb
      obtain ⟨res, a1, a2, a3⟩ := succLoop_walk m v x _ _ _ fuel _ _ e hc hf (g.len_pos_of_blk b)
      rw [e1, bind_ok, a1, bind_ok, rankR_split bl b x h1, selectR_split bl b _ (Nat.le_add_right _ _),
        Nat.add_sub_cancel_left]
      cases res with
      | none =>
        refine ⟨_, RLOneIter.emptyIter v, rfl, ?_⟩
        rw [a2 rfl]; exact oneIter_nextQ_empty m v
      | some q =>
        obtain ⟨it', r⟩ := q
        obtain ⟨b1, b2, b3, b4⟩ := a3 it' r rfl
        refine ⟨_, ⟨it', false, r + 1⟩, rfl, ?_⟩
        show RLOneIter.nextQ m v ⟨it', false, r⟩ = _
        rw [oneIter_nextQ_stay m v it' r b2 b3, b4, ← b1]
        rfl

/-! ## 9. `predecessor` -/

theorem peek_of_nextQ_some {m : Mode} {v : RL} {it adv : RunIter} {r : Nat × Nat}
    (h : nextQ m v it = ok (some r, adv)) : peek m v it = ok (.run r.1 r.2 adv) := by
  unfold nextQ at h
  obtain ⟨pk, h1, h2⟩ := Outcome.bind_eq_ok h
  cases pk with
  | atEnd => simp only [pure_eq] at h2; injection h2 with h2; injection h2 with h2 _; cases h2
  | noMoreBlocks o => simp only [pure_eq] at h2; injection h2 with h2; injection h2 with h2 _; cases h2
  | run s l a =>
    simp only [pure_eq] at h2
    injection h2 with h2; injection h2 with h2 h3
    injection h2 with h2
    subst h2 h3
    exact h1

theorem peek_of_nextQ_none {m : Mode} {v : RL} {it e : RunIter}
    (h : nextQ m v it = ok (none, e)) : peek m v it = ok .atEnd ∨ ∃ o, peek m v it = ok (.noMoreBlocks o) := by
  unfold nextQ at h
  obtain ⟨pk, h1, h2⟩ := Outcome.bind_eq_ok h
  cases pk with
  | atEnd => exact Or.inl h1
  | noMoreBlocks o => exact Or.inr ⟨o, h1⟩
  | run s l a => simp only [pure_eq] at h2; injection h2 with h2; injection h2 with h2 _; cases h2

theorem lensAbs_append (a b : List (Nat × Nat)) : lensAbs (a ++ b) = lensAbs a + lensAbs b := by
  induction a with
  | nil => simp [lensAbs]
  | cons p a ih => simp only [List.cons_append, lensAbs, ih]; omega

theorem selectR_append_lt (a b : List (Nat × Nat)) : ∀ (r : Nat), r < lensAbs a →
    selectR (a ++ b) r = selectR a r := by
  induction a with
  | nil => intro r h; simp [lensAbs] at h
  | cons p a ih =>
    intro r h
    simp only [lensAbs] at h
    simp only [List.cons_append, selectR]
    by_cases c : r < p.2
    · rw [if_pos c, if_pos c]
    · rw [if_neg c, if_neg c, ih _ (by omega)]

/-- what the `predecessor` loop knows about an iterator position `(r, p)` relative to the runs `R` whose
start is `≤ value`: either the position is past `value` (then `value` lies in the last run) or not -/
def PredAt (R : List (Nat × Nat)) (value r p : Nat) : Prop :=
  r ≤ p ∧
  (p > value → p - value ≤ r ∧ rankR R (value + 1) = r - (p - value) + 1 ∧
    selectR R (r - (p - value)) = some value) ∧
  (p ≤ value → rankR R (value + 1) = r ∧ (r > 0 → selectR R (r - 1) = some (p - 1)))

theorem predLoop_walk (m : Mode) (v : RL) (value : Nat) :
    ∀ (rs : List (Nat × Nat)) (pre : List (Nat × Nat)) (p0 r0 fuel F : Nat) (it e : RunIter),
      collect m v fuel it = ok (withPos r0 (absRuns p0 rs), e) → it.pos = (r0, p0) → fuel ≤ F →
      (∀ p ∈ rs, 1 ≤ p.2) → lensAbs pre = r0 → PredAt pre value r0 p0 →
      ∃ it', RL.predLoop m v value F it = ok it' ∧
        PredAt (pre ++ absRuns p0 rs) value it'.pos.1 it'.pos.2 := by
  intro rs
  induction rs with
  | nil =>
    intro pre p0 r0 fuel F it e hc hit hF _ hl hP
    obtain ⟨f, hf, hn⟩ := collect_nil_inv hc
    obtain ⟨F', rfl⟩ : ∃ F', F = F' + 1 := ⟨F - 1, by omega⟩
    refine ⟨it, ?_, by rw [hit]; simpa [absRuns] using hP⟩
    rw [RL.predLoop]
    rcases peek_of_nextQ_none hn with h | ⟨o, h⟩ <;> rw [h] <;> rfl
  | cons p rs ih =>
    intro pre p0 r0 fuel F it e hc hit hF hpos hl hP
    have hp2 := hpos p (by simp)
    simp only [absRuns, withPos] at hc
    obtain ⟨f, it', hf, hn, hp, hc'⟩ := collect_cons_inv hc
    obtain ⟨F', rfl⟩ : ∃ F', F = F' + 1 := ⟨F - 1, by omega⟩
    have hpk := peek_of_nextQ_some hn
    simp only [] at hpk hp
    obtain ⟨q0, q1, q2⟩ := hP
    rw [RL.predLoop, hpk]
    simp only [bind_ok]
    by_cases c : p0 + p.1 ≤ value
    · rw [if_pos c]
      have hp0 : p0 ≤ value := by omega
      obtain ⟨k1, k2⟩ := q2 hp0
      have hP' : PredAt (pre ++ [(p0 + p.1, p.2)]) value (r0 + p.2) (p0 + p.1 + p.2) := by
        refine ⟨by omega, ?_, ?_⟩
        · intro hgt
          refine ⟨by omega, ?_, ?_⟩
          · rw [rankR_append, k1]; simp only [rankR]; omega
          · rw [selectR_append_ge _ _ _ (by omega), hl]
            simp only [selectR]
            rw [if_pos (by omega)]
            congr 1; omega
        · intro hle
          refine ⟨?_, ?_⟩
          · rw [rankR_append, k1]; simp only [rankR]; omega
          · intro _
            rw [selectR_append_ge _ _ _ (by omega), hl]
            simp only [selectR]
            rw [if_pos (by omega)]
            congr 1; omega
      obtain ⟨it'', a1, a2⟩ := ih (pre ++ [(p0 + p.1, p.2)]) (p0 + p.1 + p.2) (r0 + p.2) f F' it' e hc' hp
        (by omega) (fun q hq => hpos q (by simp [hq])) (by rw [lensAbs_append, hl]; simp [lensAbs]) hP'
      refine ⟨it'', a1, ?_⟩
      rw [List.append_assoc] at a2
      exact a2
    · rw [if_neg c]
      refine ⟨it, rfl, ?_⟩
      rw [hit]
      have hz : rankR (absRuns p0 (p :: rs)) (value + 1) = 0 := by
        simp only [absRuns, rankR]
        rw [rankR_abs_le rs _ _ (by omega)]; omega
      refine ⟨q0, ?_, ?_⟩
      · intro hgt
        obtain ⟨k1, k2, k3⟩ := q1 hgt
        refine ⟨k1, by rw [rankR_append, hz, k2], ?_⟩
        rw [selectR_append_lt _ _ _ (by omega)]; exact k3
      · intro hle
        obtain ⟨k1, k2⟩ := q2 hle
        refine ⟨by rw [rankR_append, hz, k1]; rfl, ?_⟩
        intro hr
        rw [selectR_append_lt _ _ _ (by omega)]; exact k2 hr

theorem selectR_last (rs : List (Nat × Nat)) : ∀ (p0 : Nat), rs ≠ [] → (∀ p ∈ rs, 1 ≤ p.2) →
    selectR (absRuns p0 rs) (lens rs - 1) = some (p0 + span rs - 1) := by
  induction rs with
  | nil => intro p0 h; exact absurd rfl h
  | cons p rs ih =>
    intro p0 _ hpos
    have hp2 := hpos p (by simp)
    cases rs with
    | nil =>
      simp only [absRuns, selectR, lens, span]
      rw [if_pos (by omega)]; congr 1; omega
    | cons q rs' =>
      have hq2 := hpos q (by simp)
      have hih := ih (p0 + p.1 + p.2) (by simp) (fun q hq => hpos q (by simp [hq]))
      have hl : 1 ≤ lens (q :: rs') := by simp only [lens]; omega
      have := lens_le_span (q :: rs')
      generalize q :: rs' = rs at *
      simp only [absRuns, selectR, lens, span]
      rw [if_neg (by omega), show p.2 + lens rs - 1 - p.2 = lens rs - 1 by omega, hih]
      congr 1
      omega

theorem GoodB.len_pos_of_take {bl : Blocks} {v : RL} (g : GoodB v bl) (b : Nat) :
    ∀ p ∈ (bl.take b).flatten, 1 ≤ p.2 := by
  intro p hp
  obtain ⟨blk, h1, h2⟩ := List.mem_flatten.mp hp
  exact ((g.blk_ok blk (List.mem_of_mem_take h1)).2.1 p h2).2

theorem absRuns_split (bl : Blocks) (b : Nat) :
    absRuns 0 (bl.take b).flatten ++ absRuns (cumS bl b) (bl.drop b).flatten = absRuns 0 bl.flatten := by
  have hsplit : bl.flatten = (bl.take b).flatten ++ (bl.drop b).flatten := by
    rw [← List.flatten_append, List.take_append_drop]
  rw [hsplit, absRuns_append, Nat.zero_add]; rfl

/-- the result of the `predecessor` loop, evaluated -/
theorem pred_finish (m : Mode) (v : RL) (R : List (Nat × Nat)) (value : Nat) (it : RunIter)
    (h : PredAt R value it.pos.1 it.pos.2) :
    ∃ oi oi', (if it.rank = 0 then (pure (RLOneIter.emptyIter v) : Outcome RLOneIter) else do
        let rank ← (if it.offsetBits > value then it.rankAt m value else subM m it.rank 1)
        return ⟨it, false, rank⟩) = ok oi ∧
      oi.nextQ m v = ok (predR R value, oi') := by
  obtain ⟨q0, q1, q2⟩ := h
  unfold predR
  rw [show it.rank = it.pos.1 from rfl, show it.offsetBits = it.pos.2 from rfl]
  unfold RunIter.rankAt
  rw [show it.rank = it.pos.1 from rfl, show it.offsetBits = it.pos.2 from rfl]
  generalize hr' : it.pos.1 = r at *
  generalize hp : it.pos.2 = p at *
  by_cases hr : r = 0
  · rw [if_pos hr]
    have hle : p ≤ value := by
      rcases Nat.lt_or_ge value p with h | h
      · have := (q1 h).1; omega
      · exact h
    rw [if_pos (by rw [(q2 hle).1]; exact hr)]
    exact ⟨_, RLOneIter.emptyIter v, rfl, oneIter_nextQ_empty m v⟩
  · rw [if_neg hr]
    by_cases hgt : p > value
    · obtain ⟨k1, k2, k3⟩ := q1 hgt
      rw [if_pos hgt, subM_ok (by omega), bind_ok, subM_ok k1, bind_ok, if_neg (by omega), k2,
        Nat.add_sub_cancel, k3]
      refine ⟨_, ⟨it, false, r - (p - value) + 1⟩, rfl, ?_⟩
      rw [oneIter_nextQ_stay m v it _ (by rw [hr']; omega) (by rw [hr', hp]; omega), hr', hp]
      simp only [Option.map_some]
      congr 4; omega
    · obtain ⟨k1, k2⟩ := q2 (by omega)
      rw [if_neg hgt, subM_ok (by omega), bind_ok, if_neg (by omega), k1, k2 (by omega)]
      refine ⟨_, ⟨it, false, r - 1 + 1⟩, rfl, ?_⟩
      rw [oneIter_nextQ_stay m v it _ (by rw [hr']; omega) (by rw [hr', hp]; omega), hr', hp]
      simp only [Option.map_some]
      congr 4; omega

theorem predR_congr (R : List (Nat × Nat)) (x y : Nat) (h : rankR R (x + 1) = rankR R (y + 1)) :
    predR R x = predR R y := by
  unfold predR; rw [h]

/-- **predecessor**: the returned iterator's first item is the nearest set bit at or before `x` with its
rank; the iterator is empty when there is none; arguments `x ≥ len` behave like `len - 1` -/
theorem GoodB.predecessor (m : Mode) {v : RL} {bl : Blocks} (g : GoodB v bl) (x : Nat) :
    ∃ oi oi', v.predecessor m x = ok oi ∧ oi.nextQ m v = ok (predR (absRuns 0 bl.flatten) x, oi') := by
  unfold RL.predecessor
  have hsp := g.span_le
  have hll := lens_le_span bl.flatten
  by_cases h0 : v.len = 0
  · rw [if_pos h0]
    refine ⟨_, RLOneIter.emptyIter v, rfl, ?_⟩
    unfold predR
    rw [rankR_abs_ge _ 0 (x + 1) (by omega), if_pos (by omega)]
    exact oneIter_nextQ_empty m v
  · rw [if_neg h0]
    have hcongr : predR (absRuns 0 bl.flatten) x = predR (absRuns 0 bl.flatten) (min x (v.len - 1)) := by
      apply predR_congr
      by_cases hx : x < v.len
      · rw [Nat.min_eq_left (by omega)]
      · rw [Nat.min_eq_right (by omega), rankR_abs_ge _ 0 _ (by omega), rankR_abs_ge _ 0 _ (by omega)]
    rw [hcongr]
    have hv : min x (v.len - 1) < v.len := by
      have := Nat.min_le_right x (v.len - 1); omega
    generalize min x (v.len - 1) = value at *
    simp only []
    by_cases hne : bl = []
    · subst hne
      rw [g.iterForBit_nil value hv, bind_ok, RL.predLoop,
        peek_atEnd m v _ (by have := g.data_len; simp at this; show v.data.len ≤ 0; omega)]
      simp only [bind_ok, pure_eq]
      refine ⟨_, RLOneIter.emptyIter v, rfl, ?_⟩
      rw [oneIter_nextQ_empty]; rfl
    · obtain ⟨b, hb, e1, h1, _⟩ := g.iterForBit hne value hv
      obtain ⟨fuel, e, hf, hc, he⟩ := g.collect_block m b hb
      have hP : PredAt (absRuns 0 (bl.take b).flatten) value (cumL bl b) (cumS bl b) := by
        refine ⟨cumL_le_cumS bl b, fun h => by omega, fun _ => ⟨?_, ?_⟩⟩
        · rw [rankR_abs_ge _ 0 _ (by unfold cumS at h1; omega)]; rfl
        · intro hr
          have hne' : (bl.take b).flatten ≠ [] := by
            intro h; unfold cumL at hr; rw [h] at hr; simp [lens] at hr
          have := selectR_last _ 0 hne' (g.len_pos_of_take b)
          rw [Nat.zero_add] at this
          exact this
      obtain ⟨it', a1, a2⟩ := predLoop_walk m v value _ _ _ _ fuel _ _ e hc rfl hf (g.len_pos_of_blk b)
        (lensAbs_absRuns 0 _) hP
      rw [absRuns_split] at a2
      rw [e1, bind_ok, a1, bind_ok]
      exact pred_finish m v _ value it' a2

/-! ## 10. `From<RLBuilder>` establishes `Good` -/

theorem mapM_loop_ok {α β} (f : α → Outcome β) (g : α → β) : ∀ (l : List α) (acc : List β),
    (∀ a ∈ l, f a = ok (g a)) → List.mapM.loop f l acc = ok (acc.reverse ++ l.map g) := by
  intro l
  induction l with
  | nil => intro acc _; simp [List.mapM.loop]
  | cons a l ih =>
    intro acc h
    rw [List.mapM.loop, h a (by simp), bind_ok, ih _ (fun x hx => h x (by simp [hx]))]
    simp

theorem mapM_ok {α β} (f : α → Outcome β) (g : α → β) (l : List α)
    (h : ∀ a ∈ l, f a = ok (g a)) : l.mapM f = ok (l.map g) := by
  unfold List.mapM; rw [mapM_loop_ok f g l [] h]; rfl

/-- runs separated by at least one position, the first starting at or after `lo` -/
def Sep : Nat → List (Nat × Nat) → Prop
  | _, [] => True
  | lo, r :: rs => lo ≤ r.1 ∧ Sep (r.1 + r.2 + 1) rs

theorem Sep.mono {lo lo' : Nat} {l : List (Nat × Nat)} (h : lo' ≤ lo) (hs : Sep lo l) : Sep lo' l := by
  cases l with
  | nil => trivial
  | cons r rs => exact ⟨Nat.le_trans h hs.1, hs.2⟩

theorem runsOf_sep : ∀ (bs : List Bool) (i : Nat), Sep i (runsOf bs i none) ∧
    ∀ s l, s + l = i → ∃ l' rest, runsOf bs i (some (s, l)) = (s, l') :: rest ∧ Sep (s + l' + 1) rest := by
  intro bs
  induction bs with
  | nil =>
    intro i
    exact ⟨trivial, fun s l _ => ⟨l, [], rfl, trivial⟩⟩
  | cons b bs ih =>
    intro i
    cases b with
    | true =>
      constructor
      · obtain ⟨l', rest, e, hs⟩ := (ih (i + 1)).2 i 1 rfl
        show Sep i (runsOf bs (i + 1) (some (i, 1)))
        rw [e]; exact ⟨Nat.le_refl _, hs⟩
      · intro s l h
        obtain ⟨l', rest, e, hs⟩ := (ih (i + 1)).2 s (l + 1) (by omega)
        exact ⟨l', rest, e, hs⟩
    | false =>
      constructor
      · exact Sep.mono (Nat.le_succ i) (ih (i + 1)).1
      · intro s l h
        refine ⟨l, runsOf bs (i + 1) none, rfl, ?_⟩
        rw [h]; exact (ih (i + 1)).1

theorem maximalRuns_sep (B : List Bool) : Sep 0 (maximalRuns B) := (runsOf_sep B 0).1

theorem sep_abs_gap : ∀ (rs : List (Nat × Nat)) (pos : Nat), Sep (pos + 1) (absRuns pos rs) →
    ∀ p ∈ rs, 1 ≤ p.1 := by
  intro rs
  induction rs with
  | nil => intro pos _ p hp; cases hp
  | cons q rs ih =>
    intro pos hs p hp
    simp only [absRuns] at hs
    obtain ⟨h1, h2⟩ := hs
    rcases List.mem_cons.mp hp with h | h
    · subst h; show 1 ≤ p.1; simp only [] at h1; omega
    · exact ih (pos + q.1 + q.2) h2 p h

/-- in the relative encoding of separated runs every run but the first has a positive gap -/
theorem sep_gap_tail {p : Nat × Nat} {rest : List (Nat × Nat)} (h : Sep 0 (absRuns 0 (p :: rest))) :
    ∀ q ∈ rest, 1 ≤ q.1 := by
  simp only [absRuns] at h
  exact sep_abs_gap rest _ h.2

/-! ### columns -/

theorem nonDec_map_range (n : Nat) (f : Nat → Nat) (hmono : ∀ i j, i ≤ j → f i ≤ f j) :
    NonDec ((List.range n).map f) := by
  intro i j hij hj
  simp only [List.getElem_map, List.getElem_range]
  exact hmono i j hij

theorem col_head (n : Nat) (f : Nat → Nat) (h0 : f 0 = 0) (hn : 0 < n) :
    ∃ rest, (List.range n).map f = 0 :: rest := by
  cases n with
  | zero => omega
  | succ n => exact ⟨_, by rw [List.range_succ_eq_map, List.map_cons, h0]⟩

/-- `SampleIndex::new` on a monotone column that starts with 0 and stays below the universe -/
theorem new_valid_col (m : Mode) (n : Nat) (f : Nat → Nat) (univ : Nat) (hn : 0 < n) (h0 : f 0 = 0)
    (hmono : ∀ i j, i ≤ j → f i ≤ f j) (hall : ∀ i, i < n → f i < univ) (hno : n + 8 < U64)
    (hu : univ < U64) {s : SampleIndex} (hnew : SampleIndex.new m ((List.range n).map f) univ = ok s) :
    s.Valid ((List.range n).map f) univ := by
  obtain ⟨rest, hr⟩ := col_head n f h0 hn
  have hnd := nonDec_map_range n f hmono
  have hall' : ∀ x ∈ (List.range n).map f, x < univ := by
    intro x hx
    obtain ⟨i, hi, rfl⟩ := List.mem_map.mp hx
    exact hall i (List.mem_range.mp hi)
  have hlen : ((List.range n).map f).length = n := by simp
  rw [hr] at hnd hall' hnew hlen ⊢
  obtain ⟨s', e, hv, _⟩ := new_valid m rest univ hnd hall' (by unfold NoOverflow; rw [hlen]; exact hno) hu
  rw [e] at hnew; injection hnew with hnew; subst hnew; exact hv

theorem new_nil_trivial (m : Mode) (univ : Nat) {s : SampleIndex} (h : SampleIndex.new m [] univ = ok s) :
    TrivialIdx s := by
  obtain ⟨d, e, _, d2, d3, d4⟩ := IntVec.withLen_spec_rl 1 1 0 (by omega) (by omega)
  unfold SampleIndex.new at h
  simp only [e, bind_ok, pure_eq] at h
  injection h with h; subst h
  exact ⟨rfl, rfl, d2, IntVec.getRaw_of_items (d := d) (by rw [d2]; omega) (by rw [d4, d2]; rfl)⟩

/-- reading the bits-sample of block `j` back from the packed sample vector (cf. `RL.samples_read`) -/
theorem samples_read2 {sl : List (Nat × Nat)} {w : Nat} (h1 : 1 ≤ w) (h2 : w ≤ 64) :
    let s := sl.foldl (fun s p => (s.push (BitVec.ofNat 64 p.1)).push (BitVec.ofNat 64 p.2))
      (⟨0, w, RawVec.empty⟩ : IntVec)
    ∀ j (h : j < sl.length), sl[j].2 < 2 ^ w → (s.getRaw (2 * j + 1)).toNat = sl[j].2 := by
  have h0 : (⟨0, w, RawVec.empty⟩ : IntVec).WF := ⟨h1, h2, by simp [RawVec.empty], RawVec.empty_WF⟩
  obtain ⟨a, b, c, e⟩ := IntVec.push2_spec sl h0
  intro s j hj hlt
  have c' : s.len = 2 * sl.length := by rw [c]; simp
  have hidx : 2 * j + 1 < s.len := by omega
  have hl : 2 * j + 1 < s.items.length := by rw [IntVec.items_length_rl]; exact hidx
  rw [← IntVec.items_getElem_rl s (2 * j + 1) hl]
  have he : s.items = IntVec.pairsFlat w sl := by rw [e]; simp [IntVec.items]
  have := (IntVec.pairsFlat_getElem? w sl j hj).2
  rw [← he, List.getElem?_eq_getElem hl] at this
  injection this with this
  rw [this, BitVec.toNat_ofNat]
  have hpw : 2 ^ w ≤ 2 ^ 64 := Nat.pow_le_pow_right (by omega) h2
  rw [Nat.mod_eq_of_lt (show sl[j].2 < 2 ^ 64 by omega), Nat.mod_eq_of_lt hlt]

/-- the three sample indexes of the vector produced by `From<RLBuilder>` -/
theorem ofBuilder_inv (m : Mode) {b : RLBuilder} {v : RL} (h : RL.ofBuilder m b = ok v) :
    ∃ b' zeros zs, b.flush m = ok b' ∧
      SampleIndex.new m (b'.samples.toList.map (·.2)) b'.len = ok v.rankIndex ∧
      SampleIndex.new m (b'.samples.toList.map (·.1)) b'.ones = ok v.selectIndex ∧
      b'.countZeros m = ok zeros ∧
      b'.samples.toList.mapM (fun p => subM m p.2 p.1) = ok zs ∧
      SampleIndex.new m zs zeros = ok v.selectZeroIndex := by
  unfold RL.ofBuilder at h
  obtain ⟨b', hb', h⟩ := Outcome.bind_eq_ok h
  obtain ⟨ri, h1, h⟩ := Outcome.bind_eq_ok h
  obtain ⟨si, h2, h⟩ := Outcome.bind_eq_ok h
  obtain ⟨zeros, h3, h⟩ := Outcome.bind_eq_ok h
  obtain ⟨zs, h4, h⟩ := Outcome.bind_eq_ok h
  obtain ⟨zi, h5, h⟩ := Outcome.bind_eq_ok h
  obtain ⟨smp0, h0, h⟩ := Outcome.bind_eq_ok h
  simp only [pure_eq] at h
  injection h with h; subst h
  exact ⟨b', zeros, zs, hb', h1, h2, h3, h4, h5⟩

theorem cols_eq (sl : List (Nat × Nat)) (bl : Blocks) (hlen : sl.length = bl.length)
    (hget : ∀ j (h : j < sl.length), sl[j] = (cumL bl j, cumS bl j)) :
    sl.map (·.2) = bitsCol bl ∧ sl.map (·.1) = onesCol bl ∧ sl.map (fun p => p.2 - p.1) = zerosCol bl := by
  refine ⟨?_, ?_, ?_⟩
  · apply List.ext_getElem
    · simp [bitsCol, hlen]
    · intro i h1 h2
      simp only [List.length_map] at h1
      simp [bitsCol, hget i h1]
  · apply List.ext_getElem
    · simp [onesCol, hlen]
    · intro i h1 h2
      simp only [List.length_map] at h1
      simp [onesCol, hget i h1]
  · apply List.ext_getElem
    · simp [zerosCol, hlen]
    · intro i h1 h2
      simp only [List.length_map] at h1
      simp [zerosCol, hget i h1]

theorem cumS_lt (bl : Blocks) (hblk : ∀ blk ∈ bl, blk ≠ [] ∧ BlockOK blk) (i : Nat) (h : i < bl.length) :
    cumL bl i < lens bl.flatten ∧ cumS bl i < span bl.flatten := by
  have hm := hblk bl[i] (List.getElem_mem h)
  have h1 := lens_pos hm.1 hm.2.1
  have h2 := lens_le_span bl[i]
  have := cumL_succ bl i h
  have := cumS_succ bl i h
  have := cumL_le bl (i + 1)
  have := cumS_le bl (i + 1)
  omega

/-- with positive gaps after the first run, strictly fewer zeros precede a block than the vector has -/
theorem cumZ_lt (bl : Blocks) (hblk : ∀ blk ∈ bl, blk ≠ [] ∧ BlockOK blk) {p : Nat × Nat}
    {rest : List (Nat × Nat)} (hfl : bl.flatten = p :: rest) (hgap : ∀ q ∈ rest, 1 ≤ q.1)
    (i : Nat) (h1 : 1 ≤ i) (h : i < bl.length) :
    cumS bl i - cumL bl i + 1 ≤ span bl.flatten - lens bl.flatten := by
  have hsplit : bl.flatten = (bl.take i).flatten ++ (bl.drop i).flatten := by
    rw [← List.flatten_append, List.take_append_drop]
  have hdrop : bl.drop i = bl[i] :: bl.drop (i + 1) := List.drop_eq_getElem_cons h
  have hA : 1 ≤ lens (bl.take i).flatten := by
    have h0 : 0 < bl.length := by omega
    have hm := hblk bl[0] (List.getElem_mem h0)
    have := lens_pos hm.1 hm.2.1
    have hs := cumL_succ bl 0 h0
    rw [Nat.zero_add] at hs
    have := cumL_mono bl 1 i h1
    have : cumL bl 0 = 0 := rfl
    show 1 ≤ cumL bl i
    omega
  have hne := (hblk bl[i] (List.getElem_mem h)).1
  cases hAe : (bl.take i).flatten with
  | nil => rw [hAe] at hA; simp [lens] at hA
  | cons a A' =>
    cases hBe : bl[i] with
    | nil => exact absurd hBe hne
    | cons d D' =>
      have hd : d ∈ rest := by
        rw [hsplit, hAe, hdrop, hBe] at hfl
        simp only [List.flatten_cons, List.cons_append] at hfl
        injection hfl with _ hfl
        rw [← hfl]; simp
      have hd1 := hgap d hd
      have e1 : span bl.flatten = cumS bl i + span (bl.drop i).flatten := (drop_cum bl i).2.symm
      have e2 : lens bl.flatten = cumL bl i + lens (bl.drop i).flatten := (drop_cum bl i).1.symm
      have e3 : span (bl.drop i).flatten = d.1 + d.2 + span (D' ++ (bl.drop (i + 1)).flatten) := by
        rw [hdrop, hBe]; rfl
      have e4 : lens (bl.drop i).flatten = d.2 + lens (D' ++ (bl.drop (i + 1)).flatten) := by
        rw [hdrop, hBe]; rfl
      have := lens_le_span (D' ++ (bl.drop (i + 1)).flatten)
      have := cumL_le_cumS bl i
      omega

/-- the pending run of a builder in the relative encoding -/
def pendRel (b : RLBuilder) : List (Nat × Nat) :=
  if b.run.2 = 0 then [] else [(b.run.1 - b.tail, b.run.2)]

/-- **`From<RLBuilder>` establishes `GoodB`** (both modes), whenever the conversion succeeds, the number of
blocks is below `2^64 - 8`, and every run but the first is separated from its predecessor -/
theorem ofBuilder_goodB (m : Mode) {b : RLBuilder} {v : RL} {done : List (List (Nat × Nat))}
    {cur : List (Nat × Nat)} (hi : b.Inv) (hd : DInv b done cur) (hsz : v.blocks + 8 < U64)
    (hgap : ∀ p rest, done.flatten ++ cur ++ pendRel b = p :: rest → ∀ q ∈ rest, 1 ≤ q.1)
    (h : RL.ofBuilder m b = ok v) :
    ∃ bl, GoodB v bl ∧ bl.flatten = done.flatten ++ cur ++ pendRel b ∧ v.len = b.len ∧ v.ones = b.ones := by
  obtain ⟨b', w, e', f1, f2, f3, w1, w2, wdef, f4⟩ := RL.ofBuilder_fields m h
  obtain ⟨b1, done', cur', e, hd1, l1, l2, l3, hfl0⟩ := flush_dinv m hi hd
  have hfl : done'.flatten ++ cur' = done.flatten ++ cur ++ pendRel b := hfl0
  clear hfl0
  obtain ⟨b'', zeros, zs, e'', n1, n2, n3, n4, n5⟩ := ofBuilder_inv m h
  rw [e] at e' e''
  injection e' with e'; subst e'
  injection e'' with e''; subst e''
  have hi1 := flush_inv m hi e
  have hr2 : b1.run.2 = 0 := by rw [l3]
  have hr1 : b1.run.1 = b.len := by rw [l3]
  have hol := hi1.ones_le
  obtain ⟨d1, d2, d3, d4, d5, d6, d7, d8, d9, d10⟩ := hd1
  obtain ⟨sl1, sl2⟩ := RL.samples_read (sl := b1.samples.toList) w1 w2
  have sr2 := samples_read2 (sl := b1.samples.toList) w1 w2
  rw [← f4] at sl1 sl2 sr2
  have hslen : b1.samples.toList.length = b1.samples.size := Array.length_toList
  have hones : b1.ones = lens done'.flatten + lens cur' := by rw [hr2] at d9; omega
  have htl := hi1.tail_le
  have hlt := hi1.len_lt
  have hsp : span (done'.flatten ++ cur') ≤ b.len := by rw [span_append, ← d10]; omega
  have hzeros : zeros = b1.len - b1.ones := by
    unfold RLBuilder.countZeros at n3
    rw [subM_ok hol] at n3; injection n3 with n3; exact n3.symm
  subst hzeros
  by_cases hcur : cur' = []
  · have hdn := d3 hcur
    subst hcur; subst hdn
    simp only [if_true, List.length_nil, Nat.add_zero] at d4
    have hsl : b1.samples.toList = [] := List.eq_nil_of_length_eq_zero (by rw [hslen, d4])
    rw [hsl] at n1 n4
    have hzs : zs = [] := by
      have : ([] : List (Nat × Nat)).mapM (fun p => subM m p.2 p.1) = ok [] := rfl
      rw [this] at n4; injection n4 with n4; exact n4.symm
    subst hzs
    refine ⟨[], ⟨by rw [f1]; exact hlt, by rw [sl1, hslen, d4]; rfl, by simp, by simp, ?_, by simp, by simp,
      by rw [f2, hones]; rfl, by simp [span], by simp, by simp, by simp,
      fun _ => ⟨new_nil_trivial m _ n1, new_nil_trivial m _ n5⟩⟩, by rw [← hfl]; rfl, by rw [f1, l1],
      by rw [f2, l2]⟩
    rw [f3, d7]; simp [unitsOf]
  · rw [if_neg hcur] at d4
    have hbl : (done' ++ [cur']).length = done'.length + 1 := by simp
    have htake : ∀ j, j ≤ done'.length → (done' ++ [cur']).take j = done'.take j :=
      fun j hj => List.take_append_of_le_length hj
    have hmv : (b1.samples.toList.getLast?.map (·.2)).getD 0 = span done'.flatten := by
      rw [List.getLast?_eq_getElem?, hslen, d4, Nat.add_sub_cancel,
        List.getElem?_eq_getElem (by rw [hslen, d4]; omega), Array.getElem_toList]
      rw [d8 _ (by omega)]
      simp [List.take_length]
    have hmvlt : span done'.flatten < 2 ^ 64 := by
      rw [← U64_eq]; rw [span_append] at hsp; rw [l1] at hlt; omega
    obtain ⟨_, _, hmvw, _⟩ := bitLen_spec_rl _ hmvlt
    rw [← hmv, ← wdef, hmv] at hmvw
    generalize hbldef : done' ++ [cur'] = bl at *
    have hslbl : b1.samples.toList.length = bl.length := by rw [hslen, d4, hbl]
    have hslget : ∀ j (hj : j < b1.samples.toList.length),
        b1.samples.toList[j] = (cumL bl j, cumS bl j) := by
      intro j hj
      rw [Array.getElem_toList, d8 j (by omega)]
      unfold cumL cumS
      rw [htake j (by omega)]
    have hflat : bl.flatten = done'.flatten ++ cur' := by rw [← hbldef]; simp [List.flatten_append]
    have hblk : ∀ blk ∈ bl, blk ≠ [] ∧ BlockOK blk := by
      intro blk hb
      rw [← hbldef] at hb
      rcases List.mem_append.mp hb with hb | hb
      · exact d1 blk hb
      · rw [List.mem_singleton.mp hb]; exact ⟨hcur, d2⟩
    have hbound : ∀ j, j < bl.length → cumL bl j < 2 ^ w ∧ cumS bl j < 2 ^ w := by
      intro j hj
      have a := cumL_le_cumS bl j
      have c := cumS_mono bl j done'.length (by omega)
      have : cumS bl done'.length = span done'.flatten := by
        unfold cumS; rw [htake _ (Nat.le_refl _), List.take_length]
      omega
    obtain ⟨c1, c2, c3⟩ := cols_eq _ bl hslbl hslget
    have hzs : zs = zerosCol bl := by
      have := mapM_ok (fun p : Nat × Nat => subM m p.2 p.1) (fun p => p.2 - p.1) b1.samples.toList (by
        intro p hp
        obtain ⟨j, hj, rfl⟩ := List.getElem_of_mem hp
        rw [hslget j hj]
        exact subM_ok (cumL_le_cumS bl j))
      rw [this] at n4; injection n4 with n4; rw [← n4, c3]
    subst hzs
    rw [c1] at n1
    rw [c2] at n2
    have hblen : bl.length + 8 < U64 := by
      have : v.blocks = bl.length := by show v.samples.len / 2 = _; rw [sl1, hslbl]; omega
      omega
    have hbpos : 0 < bl.length := by omega
    have hlens : lens bl.flatten = b1.ones := by rw [hflat, lens_append, hones]
    have hspan : span bl.flatten ≤ b1.len := by rw [hflat, l1]; exact hsp
    refine ⟨bl, ⟨by rw [f1]; exact hlt, by rw [sl1, hslbl], hblk, ?_, ?_, ?_, ?_, by rw [f2, hlens], by rw [f1]; exact hspan,
      ?_, ?_, ?_, fun hnil => by rw [hnil] at hbpos; simp at hbpos⟩,
      by rw [hflat, hfl], by rw [f1, l1], by rw [f2, l2]⟩
    · intro i hib
      by_cases hid : i < done'.length
      · obtain ⟨tail, ht⟩ := d5 i hid
        have hget : bl[i] = done'[i] := by
          simp only [← hbldef]; exact List.getElem_append_left hid
        exact ⟨tail, by rw [hget, f3]; exact ht⟩
      · have hie : i = done'.length := by omega
        subst hie
        have hget : bl[done'.length] = cur' := by
          simp only [← hbldef]; exact List.getElem_concat_length rfl _
        exact ⟨[], by rw [hget, f3, d6, List.append_nil]⟩
    · rw [f3, d7, hbl]; have := d2.2; omega
    · intro i hib
      have hj' : i < b1.samples.toList.length := by omega
      have := (sl2 i hj' (by rw [hslget i hj']; exact (hbound i hib).1)).2
      rw [this, hslget i hj']
    · intro i hib
      have hj' : i < b1.samples.toList.length := by omega
      have := sr2 i hj' (by rw [hslget i hj']; exact (hbound i hib).2)
      rw [this, hslget i hj']
    · intro _
      rw [f1]
      exact new_valid_col m bl.length (cumS bl) b1.len hbpos rfl (cumS_mono bl)
        (fun i hi => by have := (cumS_lt bl hblk i hi).2; omega) hblen hlt n1
    · intro _
      rw [f2]
      exact new_valid_col m bl.length (cumL bl) b1.ones hbpos rfl (cumL_mono bl)
        (fun i hi => by have := (cumS_lt bl hblk i hi).1; omega) hblen (by omega) n2
    · intro _ hz
      rw [f1, f2] at hz ⊢
      refine new_valid_col m bl.length (fun i => cumS bl i - cumL bl i) (b1.len - b1.ones) hbpos rfl
        (cumZ_mono bl) ?_ hblen (by omega) n5
      intro i hi
      by_cases hi0 : i = 0
      · subst hi0; show cumS bl 0 - cumL bl 0 < _; rw [cumS_zero, cumL_zero]; omega
      · cases hfe : bl.flatten with
        | nil =>
          have := (cumS_lt bl hblk i hi).1
          rw [hfe] at this; simp [lens] at this
        | cons p rest =>
          have hg := hgap p rest (by rw [← hfl, ← hflat, hfe])
          have := cumZ_lt bl hblk hfe hg i (by omega) hi
          show cumS bl i - cumL bl i < _
          omega

theorem abs_runs_eq {b : RLBuilder} {B : List Bool} {done : List (List (Nat × Nat))} {cur : List (Nat × Nat)}
    (ha : Abs b B done cur) : absRuns 0 (done.flatten ++ cur ++ pendRel b) = maximalRuns B := by
  obtain ⟨hi, hd, hl, hcnt, hrn⟩ := ha
  have htl := hi.tail_le
  have := hrn []
  rw [List.append_nil] at this
  unfold maximalRuns
  rw [this]
  unfold pend pendRel
  by_cases hr0 : b.run.2 = 0
  · rw [if_pos hr0, if_pos hr0, List.append_nil]; simp [runsOf]
  · have ht : span (done.flatten ++ cur) = b.tail := by rw [span_append, hd.tail]
    rw [if_neg hr0, if_neg hr0, absRuns_append, ht]
    simp only [absRuns, runsOf]
    rw [show 0 + b.tail + (b.run.1 - b.tail) = b.run.1 by omega]

theorem count_true_false (B : List Bool) : B.length = B.count true + B.count false := by
  induction B with
  | nil => rfl
  | cons x xs ih => cases x <;> simp <;> omega

/-- **`From<RLBuilder>` establishes `Good`**: if `B` is the bit sequence described by the builder and the
conversion succeeds (with fewer than `2^64 - 8` blocks), the vector is well formed with the maximal runs
of `B`, and `len` / `count_ones` / `count_zeros` are those of `B` -/
theorem ofBuilder_good (m : Mode) {b : RLBuilder} {v : RL} {B : List Bool}
    {done : List (List (Nat × Nat))} {cur : List (Nat × Nat)}
    (ha : Abs b B done cur) (hsz : v.blocks + 8 < U64) (h : RL.ofBuilder m b = ok v) :
    Good v (maximalRuns B) ∧ v.len = B.length ∧ v.ones = B.count true ∧
      v.countZeros = B.count false := by
  have hruns := abs_runs_eq ha
  have hsep := maximalRuns_sep B
  obtain ⟨bl, g, hfl, e1, e2⟩ := ofBuilder_goodB m ha.inv ha.dinv hsz (by
    intro p rest hpr
    rw [← hruns, hpr] at hsep
    exact sep_gap_tail hsep) h
  have hc := count_true_false B
  refine ⟨⟨bl, g, by rw [hfl, hruns]⟩, by rw [e1, ha.len], by rw [e2, ha.ones], ?_⟩
  unfold RL.countZeros
  rw [e1, e2, ← ha.len, ← ha.ones]; omega

/-- **every vector built by accepted builder calls is `Good`** (the success of the conversion and the block
count bound are hypotheses) -/
theorem build_good (m : Mode) (calls : List RL.BCall) (hc : ∀ c ∈ calls, RL.callArgsOk c)
    (b : RLBuilder) (hb : RL.runBCalls m calls {} = ok b) (v : RL) (hv : RL.ofBuilder m b = ok v)
    (hsz : v.blocks + 8 < U64) :
    let B := calls.foldl RL.specCall []
    Good v (maximalRuns B) ∧ v.len = B.length ∧ v.ones = B.count true ∧ v.countZeros = B.count false := by
  obtain ⟨done, cur, ha⟩ := RL.runBCalls_abs m calls {} b [] [] [] hc abs_empty hb
  exact ofBuilder_good m ha hsz hv

/-! ## 11. the queries on `Good` vectors -/

section
variable (m : Mode) {v : RL} {R : List (Nat × Nat)} (g : Good v R)
include g

theorem Good.rank (i : Nat) : v.rank m i = ok (rankR R i) := by
  obtain ⟨bl, gb, rfl⟩ := g; exact gb.rank m i

theorem Good.rankZero (i : Nat) : v.rankZero m i = ok (i - rankR R i) := by
  obtain ⟨bl, gb, rfl⟩ := g; exact gb.rankZero m i

theorem Good.get (i : Nat) : v.get m i = ok (getR R i) := by
  obtain ⟨bl, gb, rfl⟩ := g; exact gb.get m i

theorem Good.select (r : Nat) : v.select m r = ok (selectR R r) := by
  obtain ⟨bl, gb, rfl⟩ := g; exact gb.select m r

theorem Good.selectZero (r : Nat) : v.selectZero m r = ok (selectZeroR v.len R r) := by
  obtain ⟨bl, gb, rfl⟩ := g; exact gb.selectZero m r

theorem Good.successor (x : Nat) :
    ∃ oi oi', v.successor m x = ok oi ∧ oi.nextQ m v = ok (succR R x, oi') := by
  obtain ⟨bl, gb, rfl⟩ := g; exact gb.successor m x

theorem Good.predecessor (x : Nat) :
    ∃ oi oi', v.predecessor m x = ok oi ∧ oi.nextQ m v = ok (predR R x, oi') := by
  obtain ⟨bl, gb, rfl⟩ := g; exact gb.predecessor m x

end

/-- ascending runs of positive length, the first starting at or after `lo` -/
def Asc : Nat → List (Nat × Nat) → Prop
  | _, [] => True
  | lo, r :: rs => lo ≤ r.1 ∧ 1 ≤ r.2 ∧ Asc (r.1 + r.2) rs

theorem asc_abs : ∀ (rs : List (Nat × Nat)) (pos : Nat), (∀ p ∈ rs, 1 ≤ p.2) → Asc pos (absRuns pos rs) := by
  intro rs
  induction rs with
  | nil => intro _ _; trivial
  | cons p rs ih =>
    intro pos h
    exact ⟨Nat.le_add_right _ _, h p (by simp), ih _ (fun q hq => h q (by simp [hq]))⟩

theorem abs_inside : ∀ (rs : List (Nat × Nat)) (pos : Nat), ∀ r ∈ absRuns pos rs, r.1 + r.2 ≤ pos + span rs := by
  intro rs
  induction rs with
  | nil => intro pos r hr; cases hr
  | cons p rs ih =>
    intro pos r hr
    simp only [absRuns] at hr
    simp only [span]
    rcases List.mem_cons.mp hr with h | h
    · subst h; show pos + p.1 + p.2 ≤ _; omega
    · have := ih _ r h; omega

/-- what `Good v R` says about `R`: ascending runs of positive length inside `0 .. len`, `len < 2^64`,
and `ones` is their total length -/
theorem Good.facts {v : RL} {R : List (Nat × Nat)} (g : Good v R) :
    v.len < U64 ∧ v.ones = lensAbs R ∧ Asc 0 R ∧ ∀ r ∈ R, r.1 + r.2 ≤ v.len := by
  obtain ⟨bl, gb, rfl⟩ := g
  have hpos : ∀ p ∈ bl.flatten, 1 ≤ p.2 := by
    have := gb.len_pos_of_blk 0; rwa [List.drop_zero] at this
  refine ⟨gb.len_lt, by rw [lensAbs_absRuns]; exact gb.ones, asc_abs _ 0 hpos, ?_⟩
  intro r hr
  have := abs_inside _ 0 r hr
  have := gb.span_le
  omega

/-! ## 12. the reference answers are those of the bit sequence -/

theorem rankSpec_zero (B : List Bool) : rankSpec B 0 = 0 := by simp [rankSpec]
theorem rankSpec_nil (n : Nat) : rankSpec [] n = 0 := by simp [rankSpec]
theorem rankSpec_cons (b : Bool) (bs : List Bool) (n : Nat) :
    rankSpec (b :: bs) (n + 1) = (if b then 1 else 0) + rankSpec bs n := by
  cases b <;> simp [rankSpec, List.take_succ_cons] <;> omega

theorem rankR_runsOf : ∀ (bs : List Bool) (i x : Nat),
    rankR (runsOf bs i none) x = rankSpec bs (x - i) ∧
    ∀ s l, s + l = i → rankR (runsOf bs i (some (s, l))) x = min l (x - s) + rankSpec bs (x - i) := by
  intro bs
  induction bs with
  | nil =>
    intro i x
    exact ⟨by simp [runsOf, rankR, rankSpec_nil], fun s l _ => by simp [runsOf, rankR, rankSpec_nil]⟩
  | cons b bs ih =>
    intro i x
    obtain ⟨ih1, ih2⟩ := ih (i + 1) x
    rcases Nat.lt_or_ge i x with hx | hx
    · obtain ⟨k, hk⟩ : ∃ k, x - i = k + 1 := ⟨x - i - 1, by omega⟩
      have hk' : x - (i + 1) = k := by omega
      rw [hk, rankSpec_cons]
      rw [hk'] at ih1 ih2
      cases b with
      | true =>
        refine ⟨?_, ?_⟩
        · show rankR (runsOf bs (i + 1) (some (i, 1))) x = _
          rw [ih2 i 1 rfl]; simp; omega
        · intro s l h
          show rankR (runsOf bs (i + 1) (some (s, l + 1))) x = _
          rw [ih2 s (l + 1) (by omega)]; simp; omega
      | false =>
        refine ⟨?_, ?_⟩
        · show rankR (runsOf bs (i + 1) none) x = _
          rw [ih1]; simp
        · intro s l h
          show rankR ((s, l) :: runsOf bs (i + 1) none) x = _
          simp only [rankR, ih1]; simp
    · have h0 : x - i = 0 := by omega
      have h0' : x - (i + 1) = 0 := by omega
      rw [h0, rankSpec_zero]
      rw [h0', rankSpec_zero] at ih1 ih2
      cases b with
      | true =>
        refine ⟨?_, ?_⟩
        · show rankR (runsOf bs (i + 1) (some (i, 1))) x = _
          rw [ih2 i 1 rfl]; omega
        · intro s l h
          show rankR (runsOf bs (i + 1) (some (s, l + 1))) x = _
          rw [ih2 s (l + 1) (by omega)]; omega
      | false =>
        refine ⟨?_, ?_⟩
        · show rankR (runsOf bs (i + 1) none) x = _
          rw [ih1]
        · intro s l h
          show rankR ((s, l) :: runsOf bs (i + 1) none) x = _
          simp only [rankR, ih1]

theorem rankR_maximalRuns (B : List Bool) (i : Nat) : rankR (maximalRuns B) i = rankSpec B i :=
  (rankR_runsOf B 0 i).1

/-- the bit at position `i` (`false` beyond the end) -/
def getSpec (B : List Bool) (i : Nat) : Bool := B.getD i false

theorem getR_runsOf : ∀ (bs : List Bool) (i x : Nat),
    getR (runsOf bs i none) x = (decide (i ≤ x) && getSpec bs (x - i)) ∧
    ∀ s l, s + l = i → getR (runsOf bs i (some (s, l))) x =
      ((decide (s ≤ x) && decide (x < s + l)) || (decide (i ≤ x) && getSpec bs (x - i))) := by
  intro bs
  induction bs with
  | nil =>
    intro i x
    exact ⟨by simp [runsOf, getR, getSpec], fun s l _ => by simp [runsOf, getR, getSpec]⟩
  | cons b bs ih =>
    intro i x
    obtain ⟨ih1, ih2⟩ := ih (i + 1) x
    rcases Nat.lt_or_ge i x with hx | hx
    · obtain ⟨k, hk⟩ : ∃ k, x - i = k + 1 := ⟨x - i - 1, by omega⟩
      have hk' : x - (i + 1) = k := by omega
      have hg : getSpec (b :: bs) (k + 1) = getSpec bs k := by simp [getSpec]
      rw [hk, hg]
      rw [hk'] at ih1 ih2
      have d1 : decide (i + 1 ≤ x) = true := by simp; omega
      have d2 : decide (i ≤ x) = true := by simp; omega
      rw [d1] at ih1 ih2
      rw [d2]
      cases b with
      | true =>
        refine ⟨?_, ?_⟩
        · show getR (runsOf bs (i + 1) (some (i, 1))) x = _
          rw [ih2 i 1 rfl]
          have : decide (x < i + 1) = false := by simp; omega
          simp [this]
        · intro s l h
          show getR (runsOf bs (i + 1) (some (s, l + 1))) x = _
          rw [ih2 s (l + 1) (by omega)]
          have e1 : decide (x < s + (l + 1)) = false := by simp; omega
          have e2 : decide (x < s + l) = false := by simp; omega
          rw [e1, e2]
      | false =>
        refine ⟨?_, ?_⟩
        · show getR (runsOf bs (i + 1) none) x = _
          rw [ih1]
        · intro s l h
          show getR ((s, l) :: runsOf bs (i + 1) none) x = _
          simp only [getR, ih1]
    · have d1 : decide (i + 1 ≤ x) = false := by simp; omega
      rw [d1] at ih1 ih2
      simp only [Bool.false_and, Bool.or_false] at ih1 ih2
      rcases Nat.lt_or_ge x i with hlt | hge
      · have d2 : decide (i ≤ x) = false := by simp; omega
        rw [d2]
        simp only [Bool.false_and, Bool.or_false]
        cases b with
        | true =>
          refine ⟨?_, ?_⟩
          · show getR (runsOf bs (i + 1) (some (i, 1))) x = _
            rw [ih2 i 1 rfl]; simp; omega
          · intro s l h
            show getR (runsOf bs (i + 1) (some (s, l + 1))) x = _
            rw [ih2 s (l + 1) (by omega)]
            have : (x < s + (l + 1)) ↔ (x < s + l) := by omega
            simp [this]
        | false =>
          refine ⟨?_, ?_⟩
          · show getR (runsOf bs (i + 1) none) x = _
            rw [ih1]
          · intro s l h
            show getR ((s, l) :: runsOf bs (i + 1) none) x = _
            simp only [getR, ih1, Bool.or_false]
      · have hxi : x = i := by omega
        subst hxi
        have d2 : decide (x ≤ x) = true := by simp
        rw [d2, Nat.sub_self]
        cases b with
        | true =>
          refine ⟨?_, ?_⟩
          · show getR (runsOf bs (x + 1) (some (x, 1))) x = _
            rw [ih2 x 1 rfl]; simp [getSpec]
          · intro s l h
            show getR (runsOf bs (x + 1) (some (s, l + 1))) x = _
            rw [ih2 s (l + 1) (by omega)]
            have e1 : decide (s ≤ x) = true := by simp; omega
            have e2 : decide (x < s + (l + 1)) = true := by simp; omega
            simp [e1, e2, getSpec]
        | false =>
          refine ⟨?_, ?_⟩
          · show getR (runsOf bs (x + 1) none) x = _
            rw [ih1]; simp [getSpec]
          · intro s l h
            show getR ((s, l) :: runsOf bs (x + 1) none) x = _
            simp only [getR, ih1, Bool.or_false]
            have e2 : decide (x < s + l) = false := by simp; omega
            simp [e2, getSpec]

theorem getR_maximalRuns (B : List Bool) (i : Nat) : getR (maximalRuns B) i = getSpec B i := by
  have := (getR_runsOf B 0 i).1
  unfold maximalRuns
  simpa using this

theorem map_add_add (o : Option Nat) (a b : Nat) : (o.map (· + a)).map (· + b) = o.map (· + (b + a)) := by
  cases o <;> simp; omega

theorem selectR_runsOf : ∀ (bs : List Bool) (i r : Nat),
    selectR (runsOf bs i none) r = (selectBits bs r).map (· + i) ∧
    ∀ s l, s + l = i → selectR (runsOf bs i (some (s, l))) r =
      if r < l then some (s + r) else (selectBits bs (r - l)).map (· + i) := by
  intro bs
  induction bs with
  | nil =>
    intro i r
    exact ⟨by simp [runsOf, selectR, selectBits], fun s l _ => by simp [runsOf, selectR, selectBits]⟩
  | cons b bs ih =>
    intro i r
    cases b with
    | true =>
      refine ⟨?_, ?_⟩
      · show selectR (runsOf bs (i + 1) (some (i, 1))) r = _
        rw [((ih (i + 1) r).2 i 1 rfl)]
        cases r with
        | zero => simp [selectBits]
        | succ r =>
          rw [if_neg (by omega)]
          simp only [selectBits, Nat.add_sub_cancel, map_add_add]
      · intro s l h
        show selectR (runsOf bs (i + 1) (some (s, l + 1))) r = _
        rw [((ih (i + 1) r).2 s (l + 1) (by omega))]
        by_cases c : r < l
        · rw [if_pos c, if_pos (by omega)]
        · rw [if_neg c]
          obtain ⟨k, hk⟩ : ∃ k, r = l + k := ⟨r - l, by omega⟩
          subst hk
          cases k with
          | zero => rw [if_pos (by omega)]; simp [selectBits]; omega
          | succ k =>
            rw [if_neg (by omega), show l + (k + 1) - (l + 1) = k by omega,
              show l + (k + 1) - l = k + 1 by omega]
            simp only [selectBits, map_add_add]
    | false =>
      refine ⟨?_, ?_⟩
      · show selectR (runsOf bs (i + 1) none) r = _
        rw [(ih (i + 1) r).1]
        simp only [selectBits, map_add_add]
      · intro s l h
        show selectR ((s, l) :: runsOf bs (i + 1) none) r = _
        simp only [selectR]
        by_cases c : r < l
        · rw [if_pos c, if_pos c]
        · rw [if_neg c, if_neg c, (ih (i + 1) (r - l)).1]
          simp only [selectBits, map_add_add]

theorem selectR_maximalRuns (B : List Bool) (r : Nat) : selectR (maximalRuns B) r = selectSpec B r := by
  have := (selectR_runsOf B 0 r).1
  unfold maximalRuns selectSpec
  rw [this]
  cases selectBits B r <;> simp

theorem selectZero_runsOf : ∀ (bs : List Bool) (i prev r : Nat), prev ≤ i →
    (selectZeroFrom (i + bs.length) prev (runsOf bs i none) r =
      if r < i - prev then some (prev + r) else (selectBits (bs.map not) (r - (i - prev))).map (· + i)) ∧
    ∀ s l, s + l = i → prev ≤ s →
      selectZeroFrom (i + bs.length) prev (runsOf bs i (some (s, l))) r =
        if r < s - prev then some (prev + r) else (selectBits (bs.map not) (r - (s - prev))).map (· + i) := by
  intro bs
  induction bs with
  | nil =>
    intro i prev r hp
    refine ⟨?_, ?_⟩
    · simp only [runsOf, selectZeroFrom, List.length_nil, Nat.add_zero, List.map_nil, selectBits, Option.map_none]
      by_cases c : r < i - prev
      · rw [if_pos c, if_pos (by omega)]
      · rw [if_neg c, if_neg (by omega)]
    · intro s l h hps
      simp only [runsOf, selectZeroFrom, List.length_nil, Nat.add_zero, List.map_nil, selectBits, Option.map_none]
      by_cases c : r < s - prev
      · rw [if_pos c, if_pos (by omega)]
      · rw [if_neg c, if_neg (by omega), if_neg (by omega)]
  | cons b bs ih =>
    intro i prev r hp
    have hlen : i + (b :: bs).length = i + 1 + bs.length := by simp; omega
    rw [hlen]
    cases b with
    | true =>
      refine ⟨?_, ?_⟩
      · show selectZeroFrom _ prev (runsOf bs (i + 1) (some (i, 1))) r = _
        rw [(ih (i + 1) prev r (by omega)).2 i 1 rfl hp]
        by_cases c : r < i - prev
        · rw [if_pos c, if_pos c]
        · rw [if_neg c, if_neg c]
          simp only [List.map_cons, Bool.not_true, selectBits, map_add_add]
      · intro s l h hps
        show selectZeroFrom _ prev (runsOf bs (i + 1) (some (s, l + 1))) r = _
        rw [(ih (i + 1) prev r (by omega)).2 s (l + 1) (by omega) hps]
        by_cases c : r < s - prev
        · rw [if_pos c, if_pos c]
        · rw [if_neg c, if_neg c]
          simp only [List.map_cons, Bool.not_true, selectBits, map_add_add]
    | false =>
      refine ⟨?_, ?_⟩
      · show selectZeroFrom _ prev (runsOf bs (i + 1) none) r = _
        rw [(ih (i + 1) prev r (by omega)).1]
        by_cases c : r < i - prev
        · rw [if_pos c, if_pos (by omega)]
        · rw [if_neg c]
          obtain ⟨k, hk⟩ : ∃ k, r = (i - prev) + k := ⟨r - (i - prev), by omega⟩
          subst hk
          rw [Nat.add_sub_cancel_left]
          cases k with
          | zero =>
            rw [if_pos (by omega)]
            simp only [List.map_cons, Bool.not_false, selectBits, Option.map_some]
            congr 1; omega
          | succ k =>
            rw [if_neg (by omega), show i - prev + (k + 1) - (i + 1 - prev) = k by omega]
            simp only [List.map_cons, Bool.not_false, selectBits, map_add_add]
      · intro s l h hps
        show selectZeroFrom _ prev ((s, l) :: runsOf bs (i + 1) none) r = _
        simp only [selectZeroFrom]
        by_cases c : r < s - prev
        · rw [if_pos c, if_pos (by omega)]
        · rw [if_neg c, if_neg (by omega), h, (ih (i + 1) i (r - (s - prev)) (by omega)).1]
          generalize r - (s - prev) = k
          cases k with
          | zero =>
            rw [if_pos (by omega)]
            simp only [List.map_cons, Bool.not_false, selectBits, Option.map_some]
            congr 1; omega
          | succ k =>
            rw [if_neg (by omega), show k + 1 - (i + 1 - i) = k by omega]
            simp only [List.map_cons, Bool.not_false, selectBits, map_add_add]

theorem selectZeroR_maximalRuns (B : List Bool) (r : Nat) :
    selectZeroR B.length (maximalRuns B) r = selectZeroSpec B r := by
  have := (selectZero_runsOf B 0 0 r (Nat.le_refl _)).1
  unfold maximalRuns selectZeroSpec selectZeroR
  rw [Nat.zero_add] at this
  rw [this, if_neg (by omega)]
  cases selectBits (B.map not) (r - (0 - 0)) <;> simp

theorem succR_maximalRuns (B : List Bool) (x : Nat) : succR (maximalRuns B) x = succSpec B x := by
  unfold succR
  rw [IterProofs.succSpec_eq, rankR_maximalRuns, selectR_maximalRuns, selectSpec_eq_onesPos]
  cases (onesPos B)[rankSpec B x]? <;> rfl

theorem predR_maximalRuns (B : List Bool) (x : Nat) : predR (maximalRuns B) x = predSpec B x := by
  have h := IterProofs.predSpec_eq .ident (RawVec.ofBits B) x
  rw [RawVec.bits_ofBits, IterProofs.bitsT_ident] at h
  unfold predR
  rw [h, rankR_maximalRuns, selectR_maximalRuns, selectSpec_eq_onesPos]
  by_cases c : rankSpec B (x + 1) = 0
  · rw [if_pos c, if_pos c]
  · rw [if_neg c, if_neg c]
    have hlt : rankSpec B (x + 1) - 1 < (onesPos B).length := by
      have := IterProofs.rankSpec_le_P B (x + 1); omega
    rw [List.getElem?_eq_getElem hlt]
    rfl

/-! ## 13. property C03 for built vectors -/

/-- **C03**: a vector built by accepted builder calls describing the bit sequence `B` answers `len`,
`count_ones`, `count_zeros`, `get`, `rank`, `rank_zero`, `select`, `select_zero`, `successor` and
`predecessor` as defined by `B`, for every argument, in both arithmetic modes -/
theorem build_queries (m : Mode) (calls : List RL.BCall) (hc : ∀ c ∈ calls, RL.callArgsOk c)
    (b : RLBuilder) (hb : RL.runBCalls m calls {} = ok b) (v : RL) (hv : RL.ofBuilder m b = ok v)
    (hsz : v.blocks + 8 < U64) :
    let B := calls.foldl RL.specCall []
    v.len = B.length ∧ v.ones = B.count true ∧ v.countZeros = B.count false ∧
    (∀ i, v.get m i = ok (getSpec B i)) ∧
    (∀ i, v.rank m i = ok (rankSpec B i)) ∧
    (∀ i, v.rankZero m i = ok (i - rankSpec B i)) ∧
    (∀ i, i ≤ B.length → v.rankZero m i = ok (rankZeroSpec B i)) ∧
    (∀ r, v.select m r = ok (selectSpec B r)) ∧
    (∀ r, v.selectZero m r = ok (selectZeroSpec B r)) ∧
    (∀ x, ∃ oi oi', v.successor m x = ok oi ∧ oi.nextQ m v = ok (succSpec B x, oi')) ∧
    (∀ x, ∃ oi oi', v.predecessor m x = ok oi ∧ oi.nextQ m v = ok (predSpec B x, oi')) := by
  intro B
  obtain ⟨g, e1, e2, e3⟩ := build_good m calls hc b hb v hv hsz
  refine ⟨e1, e2, e3, ?_, ?_, ?_, ?_, ?_, ?_, ?_, ?_⟩
  · intro i; rw [g.get m i, getR_maximalRuns]
  · intro i; rw [g.rank m i, rankR_maximalRuns]
  · intro i; rw [g.rankZero m i, rankR_maximalRuns]
  · intro i hi; rw [g.rankZero m i, rankR_maximalRuns, sub_rankSpec_eq_rankZeroSpec B i hi]
  · intro r; rw [g.select m r, selectR_maximalRuns]
  · intro r; rw [g.selectZero m r, e1, selectZeroR_maximalRuns]
  · intro x; rw [← succR_maximalRuns]; exact g.successor m x
  · intro x; rw [← predR_maximalRuns]; exact g.predecessor m x

/-! ## 14. iterators -/

/-- call `next()` until `None`, collecting the items -/
def drainOne (m : Mode) (v : RL) : Nat → RLOneIter → Outcome (List (Nat × Nat))
  | 0, _ => fault .fuel
  | f + 1, st => do
    let (o, st') ← st.nextQ m v
    match o with
    | none => return []
    | some x => do
      let xs ← drainOne m v f st'
      return x :: xs

/-- the items `(rank, position)` of the set bits with ranks `k, k+1, …, k+n-1` -/
def oneItems (R : List (Nat × Nat)) : Nat → Nat → List (Nat × Nat)
  | _, 0 => []
  | k, n + 1 => (k, (selectR R k).getD 0) :: oneItems R (k + 1) n

theorem oneItems_append (R : List (Nat × Nat)) : ∀ (a k b : Nat),
    oneItems R k (a + b) = oneItems R k a ++ oneItems R (k + a) b := by
  intro a
  induction a with
  | zero => intro k b; simp [oneItems]
  | succ a ih =>
    intro k b
    rw [show a + 1 + b = (a + b) + 1 by omega]
    simp only [oneItems, List.cons_append]
    rw [ih (k + 1) b, show k + 1 + a = k + (a + 1) by omega]

theorem drainOne_some (m : Mode) (v : RL) (f : Nat) (st st' : RLOneIter) (x : Nat × Nat)
    (out : List (Nat × Nat)) (h : st.nextQ m v = ok (some x, st')) (hd : drainOne m v f st' = ok out) :
    drainOne m v (f + 1) st = ok (x :: out) := by
  rw [drainOne, h]; simp only [bind_ok]; rw [hd]; rfl

theorem drainOne_none (m : Mode) (v : RL) (f : Nat) (st st' : RLOneIter)
    (h : st.nextQ m v = ok (none, st')) : drainOne m v (f + 1) st = ok [] := by
  rw [drainOne, h]; rfl

/-- the items inside the current run: the iterator does not move -/
theorem drain_stay (m : Mode) (v : RL) (R : List (Nat × Nat)) (it : RunIter) (F : Nat) (out : List (Nat × Nat))
    (hout : drainOne m v F ⟨it, false, it.pos.1⟩ = ok out) :
    ∀ (n k : Nat), k + n = it.pos.1 →
      (∀ j, k ≤ j → j < it.pos.1 → selectR R j = some (it.pos.2 - (it.pos.1 - j)) ∧ it.pos.1 - j ≤ it.pos.2) →
      drainOne m v (n + F) ⟨it, false, k⟩ = ok (oneItems R k n ++ out) := by
  intro n
  induction n with
  | zero =>
    intro k hk _
    have : k = it.pos.1 := by omega
    subst this
    simpa [oneItems] using hout
  | succ n ih =>
    intro k hk hsel
    obtain ⟨s1, s2⟩ := hsel k (Nat.le_refl _) (by omega)
    have hstep := oneIter_nextQ_stay m v it k (by omega) s2
    have := ih (k + 1) (by omega) (fun j h1 h2 => hsel j (by omega) h2)
    rw [show n + 1 + F = (n + F) + 1 by omega, drainOne_some m v _ _ _ _ _ hstep this]
    simp only [oneItems, List.cons_append, s1, Option.getD_some]

theorem oneIter_nextQ_step (m : Mode) (v : RL) (it it' : RunIter) (s l : Nat)
    (h : nextQ m v it = ok (some (s, l), it')) (hp : it'.pos = (it.pos.1 + l, s + l)) (hl : 1 ≤ l) :
    RLOneIter.nextQ m v ⟨it, false, it.pos.1⟩ = ok (some (it.pos.1, s), ⟨it', false, it.pos.1 + 1⟩) := by
  unfold RLOneIter.nextQ
  have hc : ((!false && decide (it.pos.1 ≥ it.rank)) = true) := by
    simp only [Bool.not_false, Bool.true_and, decide_eq_true_eq]
    exact Nat.le_refl _
  simp only [if_pos hc, h, pure_eq, bind_ok, Option.isNone_some, Bool.false_eq_true, if_false]
  unfold RunIter.offsetFor
  rw [show it'.rank = it'.pos.1 from rfl, show it'.offsetBits = it'.pos.2 from rfl, hp]
  simp only []
  rw [subM_ok (by omega), bind_ok, subM_ok (by omega), bind_ok]
  congr 4; omega

theorem oneIter_nextQ_end (m : Mode) (v : RL) (it e : RunIter) (h : nextQ m v it = ok (none, e)) :
    RLOneIter.nextQ m v ⟨it, false, it.pos.1⟩ = ok (none, ⟨e, true, it.pos.1⟩) := by
  unfold RLOneIter.nextQ
  have hc : ((!false && decide (it.pos.1 ≥ it.rank)) = true) := by
    simp only [Bool.not_false, Bool.true_and, decide_eq_true_eq]
    exact Nat.le_refl _
  simp only [if_pos hc, h, pure_eq, bind_ok, Option.isNone_none, if_true]

/-- draining a one-iterator that stands at rank `k` inside or at the end of the run before `it` -/
theorem drain_walk (m : Mode) (v : RL) :
    ∀ (rs pre : List (Nat × Nat)) (p0 r0 fuel F k : Nat) (it e : RunIter),
      collect m v fuel it = ok (withPos r0 (absRuns p0 rs), e) → it.pos = (r0, p0) →
      lensAbs pre = r0 → k ≤ r0 → r0 ≤ p0 →
      (∀ j, k ≤ j → j < r0 → selectR pre j = some (p0 - (r0 - j)) ∧ r0 - j ≤ p0) →
      (∀ p ∈ rs, 1 ≤ p.2) → r0 + lens rs - k + 1 ≤ F →
      drainOne m v F ⟨it, false, k⟩ = ok (oneItems (pre ++ absRuns p0 rs) k (r0 + lens rs - k)) := by
  intro rs
  induction rs with
  | nil =>
    intro pre p0 r0 fuel F k it e hc hit hl hk hrp hsel _ hF
    obtain ⟨f, hf, hn⟩ := collect_nil_inv hc
    simp only [lens, Nat.add_zero] at hF ⊢
    obtain ⟨F2, rfl⟩ : ∃ F2, F = (r0 - k) + (F2 + 1) := ⟨F - (r0 - k) - 1, by omega⟩
    have hr : it.pos.1 = r0 := by rw [hit]
    have hp2 : it.pos.2 = p0 := by rw [hit]
    have hend := oneIter_nextQ_end m v it e hn
    have hout := drainOne_none m v F2 _ _ hend
    have := drain_stay m v (pre ++ absRuns p0 []) it (F2 + 1) [] hout (r0 - k) k (by omega) (by
      intro j h1 h2
      rw [hr] at h2
      rw [hr, hp2, absRuns, List.append_nil]
      exact hsel j h1 h2)
    rw [this, List.append_nil]
  | cons p rs ih =>
    intro pre p0 r0 fuel F k it e hc hit hl hk hrp hsel hpos hF
    have hp2 := hpos p (by simp)
    simp only [absRuns, withPos] at hc
    obtain ⟨f, it', hf, hn, hp, hc'⟩ := collect_cons_inv hc
    simp only [lens] at hF ⊢
    simp only [] at hn hp
    obtain ⟨F2, rfl⟩ : ∃ F2, F = (r0 - k) + (F2 + 1) := ⟨F - (r0 - k) - 1, by omega⟩
    have hr : it.pos.1 = r0 := by rw [hit]
    have hpp : it.pos.2 = p0 := by rw [hit]
    have hR : pre ++ absRuns p0 (p :: rs) = (pre ++ [(p0 + p.1, p.2)]) ++ absRuns (p0 + p.1 + p.2) rs := by
      simp [absRuns]
    have hstep := oneIter_nextQ_step m v it it' (p0 + p.1) p.2 hn (by rw [hp, hr]) hp2
    have hrest := ih (pre ++ [(p0 + p.1, p.2)]) (p0 + p.1 + p.2) (r0 + p.2) f F2 (r0 + 1) it' e hc' hp
      (by rw [lensAbs_append, hl]; simp [lensAbs]) (by omega) (by omega) (by
        intro j h1 h2
        rw [selectR_append_ge _ _ _ (by omega), hl]
        simp only [selectR]
        rw [if_pos (by omega)]
        exact ⟨by congr 1; omega, by omega⟩)
      (fun q hq => hpos q (by simp [hq])) (by omega)
    rw [← hR] at hrest
    rw [hr] at hstep
    have hout := drainOne_some m v F2 _ _ _ _ hstep hrest
    have := drain_stay m v (pre ++ absRuns p0 (p :: rs)) it (F2 + 1) _ (by rw [hr]; exact hout) (r0 - k) k
      (by omega) (by
        intro j h1 h2
        rw [hr] at h2
        rw [hr, hpp, selectR_append_lt _ _ _ (by omega)]
        exact hsel j h1 h2)
    rw [this]
    have hsel0 : selectR (pre ++ absRuns p0 (p :: rs)) r0 = some (p0 + p.1) := by
      rw [selectR_append_ge _ _ _ (by omega), hl, Nat.sub_self]
      simp only [absRuns, selectR]
      rw [if_pos (by omega)]; rfl
    rw [show r0 + (p.2 + lens rs) - k = (r0 - k) + ((r0 + p.2 + lens rs - (r0 + 1)) + 1) by omega,
      oneItems_append, show k + (r0 - k) = r0 by omega]
    simp only [oneItems, hsel0, Option.getD_some]

theorem blockIter_zero (bl : Blocks) : blockIter bl 0 = ⟨0, (0, 0), cumL bl 1⟩ := rfl

theorem GoodB.runIter {v : RL} {bl : Blocks} (g : GoodB v bl) :
    v.runIter = ok (if bl = [] then nilIter v else blockIter bl 0) := by
  unfold RL.runIter
  by_cases hne : bl = []
  · subst hne
    unfold RL.onesAfter
    rw [g.blocks, if_neg (by simp)]; rfl
  · have hb : 0 < bl.length := List.length_pos_iff.mpr hne
    rw [g.onesAfter 0 hb, if_neg hne]; rfl

/-- **`one_iter()`** enumerates the set bits in order, each with its rank, then returns `None` -/
theorem GoodB.oneIter_drain (m : Mode) {v : RL} {bl : Blocks} (g : GoodB v bl) (F : Nat) (hF : v.ones + 1 ≤ F) :
    ∃ st, v.oneIter = ok st ∧ drainOne m v F st = ok (oneItems (absRuns 0 bl.flatten) 0 v.ones) := by
  unfold RL.oneIter
  rw [g.runIter, bind_ok]
  by_cases hne : bl = []
  · subst hne
    rw [if_pos rfl]
    refine ⟨_, rfl, ?_⟩
    obtain ⟨F', rfl⟩ : ∃ F', F = F' + 1 := ⟨F - 1, by omega⟩
    have h0 : v.ones = 0 := g.ones
    rw [h0]
    exact drainOne_none m v F' _ _ (oneIter_nextQ_end m v (nilIter v) _ (g.nextQ_nil m))
  · rw [if_neg hne]
    refine ⟨_, rfl, ?_⟩
    have hb : 0 < bl.length := List.length_pos_iff.mpr hne
    obtain ⟨fuel, e, hf, hc, he⟩ := g.collect_block m 0 hb
    have hsp := g.span_le
    have := drain_walk m v (bl.drop 0).flatten [] (cumS bl 0) (cumL bl 0) fuel F 0 (blockIter bl 0) e hc rfl rfl
      (Nat.zero_le _) (cumL_le_cumS bl 0) (fun j _ h2 => by rw [cumL_zero] at h2; omega) (g.len_pos_of_blk 0)
      (by rw [(drop_cum bl 0).1, ← g.ones]; omega)
    rw [(drop_cum bl 0).1, ← g.ones, cumS_zero] at this
    simpa using this

theorem collect_fuel_pos {m : Mode} {v : RL} {fuel : Nat} {it : RunIter}
    {r : List ((Nat × Nat) × (Nat × Nat)) × RunIter} (h : collect m v fuel it = ok r) : 1 ≤ fuel := by
  rcases Nat.eq_zero_or_pos fuel with h0 | h0
  · subst h0; cases h
  · exact h0

/-- `advance_to(rank)` (strict) followed by draining the one-iterator `⟨it', false, rank⟩` -/
theorem selectIter_walk (m : Mode) (v : RL) (rank : Nat) :
    ∀ (rs pre : List (Nat × Nat)) (p0 r0 fuel F1 F : Nat) (it e : RunIter),
      collect m v fuel it = ok (withPos r0 (absRuns p0 rs), e) → it.pos = (r0, p0) →
      lensAbs pre = r0 → r0 ≤ p0 →
      (∀ j, rank ≤ j → j < r0 → selectR pre j = some (p0 - (r0 - j)) ∧ r0 - j ≤ p0) →
      (∀ p ∈ rs, 1 ≤ p.2) → rank < r0 + lens rs → fuel ≤ F1 → r0 + lens rs - rank + 1 ≤ F →
      ∃ it', RL.advanceTo m v rank true F1 it = ok it' ∧
        drainOne m v F ⟨it', false, rank⟩ = ok (oneItems (pre ++ absRuns p0 rs) rank (r0 + lens rs - rank)) := by
  intro rs
  induction rs with
  | nil =>
    intro pre p0 r0 fuel F1 F it e hc hit hl hrp hsel hpos hlt hF1 hF
    have hf1 := collect_fuel_pos hc
    obtain ⟨F1', rfl⟩ : ∃ F1', F1 = F1' + 1 := ⟨F1 - 1, by omega⟩
    simp only [lens, Nat.add_zero] at hlt
    refine ⟨it, ?_, drain_walk m v [] pre p0 r0 fuel F rank it e hc hit hl (by omega) hrp hsel hpos hF⟩
    rw [RL.advanceTo]
    simp only [if_true]
    rw [if_neg (by show ¬ it.pos.1 < rank; rw [hit]; show ¬ r0 < rank; omega)]; rfl
  | cons p rs ih =>
    intro pre p0 r0 fuel F1 F it e hc hit hl hrp hsel hpos hlt hF1 hF
    have hf1 := collect_fuel_pos hc
    obtain ⟨F1', rfl⟩ : ∃ F1', F1 = F1' + 1 := ⟨F1 - 1, by omega⟩
    by_cases c : rank ≤ r0
    · refine ⟨it, ?_, drain_walk m v (p :: rs) pre p0 r0 fuel F rank it e hc hit hl c hrp hsel hpos hF⟩
      rw [RL.advanceTo]
      simp only [if_true]
      rw [if_neg (by show ¬ it.pos.1 < rank; rw [hit]; show ¬ r0 < rank; omega)]; rfl
    · have hp2 := hpos p (by simp)
      have hc0 := hc
      simp only [absRuns, withPos] at hc
      obtain ⟨f, it', hf, hn, hp, hc'⟩ := collect_cons_inv hc
      simp only [lens] at hlt hF ⊢
      simp only [] at hn hp
      have hR : pre ++ absRuns p0 (p :: rs) = (pre ++ [(p0 + p.1, p.2)]) ++ absRuns (p0 + p.1 + p.2) rs := by
        simp [absRuns]
      obtain ⟨it'', a1, a2⟩ := ih (pre ++ [(p0 + p.1, p.2)]) (p0 + p.1 + p.2) (r0 + p.2) f F1' F it' e hc' hp
        (by rw [lensAbs_append, hl]; simp [lensAbs]) (by omega) (by
          intro j h1 h2
          rw [selectR_append_ge _ _ _ (by omega), hl]
          simp only [selectR]
          rw [if_pos (by omega)]
          exact ⟨by congr 1; omega, by omega⟩)
        (fun q hq => hpos q (by simp [hq])) (by omega) (by omega) (by omega)
      refine ⟨it'', ?_, ?_⟩
      · rw [RL.advanceTo]
        simp only [if_true]
        rw [if_pos (by show it.pos.1 < rank; rw [hit]; show r0 < rank; omega), hn]
        exact a1
      · rw [hR, a2]
        congr 2; omega

/-- **`select_iter(rank)`** enumerates the set bits of rank `rank, rank+1, …` in order, then `None` -/
theorem GoodB.selectIter_drain (m : Mode) {v : RL} {bl : Blocks} (g : GoodB v bl) (rank F : Nat)
    (hF : v.ones - rank + 1 ≤ F) :
    ∃ st, v.selectIter m rank = ok st ∧
      drainOne m v F st = ok (oneItems (absRuns 0 bl.flatten) rank (v.ones - rank)) := by
  unfold RL.selectIter
  by_cases hr : rank ≥ v.ones
  · rw [if_pos hr]
    refine ⟨_, rfl, ?_⟩
    obtain ⟨F', rfl⟩ : ∃ F', F = F' + 1 := ⟨F - 1, by omega⟩
    rw [show v.ones - rank = 0 by omega]
    exact drainOne_none m v F' _ _ (oneIter_nextQ_empty m v)
  · rw [if_neg hr]
    have hne : bl ≠ [] := by
      intro h; subst h; have := g.ones; simp [lens] at this; omega
    obtain ⟨b, hb, e1, h1, _⟩ := g.iterForOne hne rank (by omega)
    obtain ⟨fuel, e, hf, hc, he⟩ := g.collect_block m b hb
    have htot := (drop_cum bl b).1
    obtain ⟨it', a1, a2⟩ := selectIter_walk m v rank (bl.drop b).flatten (absRuns 0 (bl.take b).flatten)
      (cumS bl b) (cumL bl b) fuel (v.data.len + 2) F (blockIter bl b) e hc rfl (lensAbs_absRuns 0 _)
      (cumL_le_cumS bl b) (fun j h1' h2 => by omega) (g.len_pos_of_blk b)
      (by rw [htot, ← g.ones]; omega) hf (by rw [htot, ← g.ones]; exact hF)
    rw [absRuns_split, htot, ← g.ones] at a2
    rw [e1, bind_ok, a1, bind_ok]
    exact ⟨_, rfl, a2⟩

theorem oneItems_fst (R : List (Nat × Nat)) : ∀ (n k : Nat), (oneItems R k n).map (·.1) = List.range' k n := by
  intro n
  induction n with
  | zero => intro k; rfl
  | succ n ih => intro k; simp only [oneItems, List.map_cons, ih, List.range'_succ]

/-- the positions enumerated by the one-iterators are the set positions of the bit sequence, in order -/
theorem oneItems_snd (B : List Bool) : ∀ (n k : Nat), k + n ≤ B.count true →
    (oneItems (maximalRuns B) k n).map (·.2) = ((onesPos B).drop k).take n := by
  intro n
  induction n with
  | zero => intro k _; simp [oneItems]
  | succ n ih =>
    intro k h
    have hk : k < (onesPos B).length := by rw [length_onesPos]; omega
    simp only [oneItems, List.map_cons, ih (k + 1) (by omega)]
    rw [selectR_maximalRuns, selectSpec_eq_onesPos, List.getElem?_eq_getElem hk, Option.getD_some,
      List.drop_eq_getElem_cons hk, List.take_succ_cons]

theorem oneItems_all (B : List Bool) :
    (oneItems (maximalRuns B) 0 (B.count true)).map (·.2) = onesPos B := by
  rw [oneItems_snd B _ 0 (by omega), List.drop_zero, ← length_onesPos, List.take_length]

/-- **one_iter on built vectors**: the items are the set positions of `B` in order, ranked `0, 1, …` -/
theorem build_oneIter (m : Mode) (calls : List RL.BCall) (hc : ∀ c ∈ calls, RL.callArgsOk c)
    (b : RLBuilder) (hb : RL.runBCalls m calls {} = ok b) (v : RL) (hv : RL.ofBuilder m b = ok v)
    (hsz : v.blocks + 8 < U64) (F : Nat) (hF : v.ones + 1 ≤ F) :
    let B := calls.foldl RL.specCall []
    ∃ st items, v.oneIter = ok st ∧ drainOne m v F st = ok items ∧
      items.map (·.2) = onesPos B ∧ items.map (·.1) = List.range (B.count true) := by
  intro B
  obtain ⟨⟨bl, g, hR⟩, e1, e2, e3⟩ := build_good m calls hc b hb v hv hsz
  obtain ⟨st, h1, h2⟩ := g.oneIter_drain m F hF
  rw [← hR, e2] at h2
  exact ⟨st, _, h1, h2, oneItems_all B, by rw [oneItems_fst, List.range_eq_range']⟩

/-! ### `iter()` : all bits -/

def drainBits (m : Mode) (v : RL) : Nat → RLIter → Outcome (List Bool)
  | 0, _ => fault .fuel
  | f + 1, st => do
    let (o, st') ← st.nextQ m v
    match o with
    | none => return []
    | some x => do
      let xs ← drainBits m v f st'
      return x :: xs

/-- the bits at positions `x, x+1, …, x+n-1` -/
def bitItems (R : List (Nat × Nat)) : Nat → Nat → List Bool
  | _, 0 => []
  | x, n + 1 => getR R x :: bitItems R (x + 1) n

theorem bitItems_append (R : List (Nat × Nat)) : ∀ (a x b : Nat),
    bitItems R x (a + b) = bitItems R x a ++ bitItems R (x + a) b := by
  intro a
  induction a with
  | zero => intro x b; simp [bitItems]
  | succ a ih =>
    intro x b
    rw [show a + 1 + b = (a + b) + 1 by omega]
    simp only [bitItems, List.cons_append]
    rw [ih (x + 1) b, show x + 1 + a = x + (a + 1) by omega]

theorem bitItems_congr (R R' : List (Nat × Nat)) : ∀ (n x : Nat), (∀ y, x ≤ y → getR R y = getR R' y) →
    bitItems R x n = bitItems R' x n := by
  intro n
  induction n with
  | zero => intro x _; rfl
  | succ n ih =>
    intro x h
    simp only [bitItems]
    rw [h x (Nat.le_refl _), ih (x + 1) (fun y hy => h y (by omega))]

theorem drainBits_some (m : Mode) (v : RL) (f : Nat) (st st' : RLIter) (x : Bool)
    (out : List Bool) (h : st.nextQ m v = ok (some x, st')) (hd : drainBits m v f st' = ok out) :
    drainBits m v (f + 1) st = ok (x :: out) := by
  rw [drainBits, h]; simp only [bind_ok]; rw [hd]; rfl

theorem drainBits_none (m : Mode) (v : RL) (f : Nat) (st st' : RLIter)
    (h : st.nextQ m v = ok (none, st')) : drainBits m v (f + 1) st = ok [] := by
  rw [drainBits, h]; rfl

theorem iter_nextQ_stay (m : Mode) (v : RL) (it : RunIter) (s l x : Nat) (h : x < s + l) :
    RLIter.nextQ m v ⟨it, some (s, l), x⟩ = ok (some (decide (x + 1 > s)), ⟨it, some (s, l), x + 1⟩) := by
  unfold RLIter.nextQ
  simp only [if_neg (show ¬ x ≥ s + l by omega), pure_eq, bind_ok]

theorem iter_nextQ_fetch (m : Mode) (v : RL) (it it' : RunIter) (s l s' l' x : Nat) (h : x ≥ s + l)
    (hn : nextQ m v it = ok (some (s', l'), it')) :
    RLIter.nextQ m v ⟨it, some (s, l), x⟩ = ok (some (decide (x + 1 > s')), ⟨it', some (s', l'), x + 1⟩) := by
  unfold RLIter.nextQ
  simp only [if_pos h, hn, pure_eq, bind_ok]

theorem iter_nextQ_fetch_none (m : Mode) (v : RL) (it e : RunIter) (s l x : Nat) (h : x ≥ s + l)
    (hn : nextQ m v it = ok (none, e)) :
    RLIter.nextQ m v ⟨it, some (s, l), x⟩ =
      if x ≥ v.len then ok (none, ⟨e, none, x⟩) else ok (some false, ⟨e, none, x + 1⟩) := by
  unfold RLIter.nextQ
  simp only [if_pos h, hn, pure_eq, bind_ok]

theorem iter_nextQ_tail (m : Mode) (v : RL) (it : RunIter) (x : Nat) :
    RLIter.nextQ m v ⟨it, none, x⟩ =
      if x ≥ v.len then ok (none, ⟨it, none, x⟩) else ok (some false, ⟨it, none, x + 1⟩) := by
  unfold RLIter.nextQ
  simp only [pure_eq, bind_ok]

/-- after the last run: zeros up to `len`, then `None` -/
theorem drain_tail (m : Mode) (v : RL) (R : List (Nat × Nat)) (it : RunIter) :
    ∀ (n x F : Nat), x + n = v.len → n + 1 ≤ F → (∀ y, x ≤ y → getR R y = false) →
      drainBits m v F ⟨it, none, x⟩ = ok (bitItems R x n) := by
  intro n
  induction n with
  | zero =>
    intro x F hx hF _
    obtain ⟨F', rfl⟩ : ∃ F', F = F' + 1 := ⟨F - 1, by omega⟩
    exact drainBits_none m v F' _ _ (by rw [iter_nextQ_tail, if_pos (by omega)])
  | succ n ih =>
    intro x F hx hF hz
    obtain ⟨F', rfl⟩ : ∃ F', F = F' + 1 := ⟨F - 1, by omega⟩
    have := ih (x + 1) F' (by omega) (by omega) (fun y hy => hz y (by omega))
    rw [drainBits_some m v F' _ _ false _ (by rw [iter_nextQ_tail, if_neg (by omega)]) this]
    simp only [bitItems, hz x (Nat.le_refl _)]

/-- inside the current run or the gap before it: no fetch -/
theorem bits_stay (m : Mode) (v : RL) (R : List (Nat × Nat)) (it : RunIter) (s l F : Nat) (out : List Bool)
    (hout : drainBits m v F ⟨it, some (s, l), s + l⟩ = ok out) :
    ∀ (n x : Nat), x + n = s + l → (∀ y, x ≤ y → y < s + l → getR R y = decide (s ≤ y)) →
      drainBits m v (n + F) ⟨it, some (s, l), x⟩ = ok (bitItems R x n ++ out) := by
  intro n
  induction n with
  | zero =>
    intro x hx _
    have : x = s + l := by omega
    subst this
    simpa [bitItems] using hout
  | succ n ih =>
    intro x hx hg
    have hstep := iter_nextQ_stay m v it s l x (by omega)
    have := ih (x + 1) (by omega) (fun y h1 h2 => hg y (by omega) h2)
    rw [show n + 1 + F = (n + F) + 1 by omega, drainBits_some m v _ _ _ _ _ hstep this]
    simp only [bitItems, List.cons_append, hg x (Nat.le_refl _) (by omega)]
    congr 2
    simp; omega

theorem bits_walk (m : Mode) (v : RL) :
    ∀ (rs : List (Nat × Nat)) (s l r0 fuel F : Nat) (it e : RunIter),
      collect m v fuel it = ok (withPos r0 (absRuns (s + l) rs), e) → (∀ p ∈ rs, 1 ≤ p.2) →
      s + l + span rs ≤ v.len → v.len - (s + l) + 1 ≤ F →
      drainBits m v F ⟨it, some (s, l), s + l⟩ =
        ok (bitItems ((s, l) :: absRuns (s + l) rs) (s + l) (v.len - (s + l))) := by
  intro rs
  induction rs with
  | nil =>
    intro s l r0 fuel F it e hc _ hsp hF
    obtain ⟨f, hf, hn⟩ := collect_nil_inv hc
    simp only [span, Nat.add_zero] at hsp
    obtain ⟨F', rfl⟩ : ∃ F', F = F' + 1 := ⟨F - 1, by omega⟩
    have hz : ∀ y, s + l ≤ y → getR ((s, l) :: absRuns (s + l) []) y = false := by
      intro y hy; simp [absRuns, getR]; omega
    have hstep := iter_nextQ_fetch_none m v it e s l (s + l) (Nat.le_refl _) hn
    cases hN : v.len - (s + l) with
    | zero =>
      rw [if_pos (by omega)] at hstep
      exact drainBits_none m v F' _ _ hstep
    | succ n =>
      rw [if_neg (by omega)] at hstep
      have := drain_tail m v ((s, l) :: absRuns (s + l) []) e n (s + l + 1) F' (by omega) (by omega)
        (fun y hy => hz y (by omega))
      rw [drainBits_some m v F' _ _ false _ hstep this]
      simp only [bitItems, hz (s + l) (Nat.le_refl _)]
  | cons p rs ih =>
    intro s l r0 fuel F it e hc hpos hsp hF
    have hp2 := hpos p (by simp)
    simp only [absRuns, withPos] at hc
    obtain ⟨f, it', hf, hn, hp, hc'⟩ := collect_cons_inv hc
    simp only [] at hn
    simp only [span] at hsp
    have hrest := getR_abs_lt rs (s + l + p.1 + p.2)
    generalize hR : (s, l) :: absRuns (s + l) (p :: rs) = R
    have hR' : R = (s, l) :: (s + l + p.1, p.2) :: absRuns (s + l + p.1 + p.2) rs := by rw [← hR]; rfl
    have hg : ∀ y, s + l ≤ y → y < s + l + p.1 + p.2 → getR R y = decide (s + l + p.1 ≤ y) := by
      intro y h1 h2
      rw [hR']
      simp only [getR, hrest y h2, Bool.or_false]
      have : decide (y < s + l) = false := by simp; omega
      have h3 : decide (y < s + l + p.1 + p.2) = true := by simp; omega
      simp [this, h3]
    have hih := ih (s + l + p.1) p.2 (r0 + p.2) f (F - (p.1 + p.2)) it' e hc' (fun q hq => hpos q (by simp [hq]))
      (by omega) (by omega)
    have hcongr : bitItems ((s + l + p.1, p.2) :: absRuns (s + l + p.1 + p.2) rs) (s + l + p.1 + p.2)
        (v.len - (s + l + p.1 + p.2)) = bitItems R (s + l + p.1 + p.2) (v.len - (s + l + p.1 + p.2)) := by
      apply bitItems_congr
      intro y hy
      rw [hR']
      simp only [getR]
      have : decide (y < s + l) = false := by simp; omega
      simp [this]
    rw [hcongr] at hih
    have hstay := bits_stay m v R it' (s + l + p.1) p.2 (F - (p.1 + p.2)) _ hih (p.1 + p.2 - 1) (s + l + 1)
      (by omega) (fun y h1 h2 => hg y (by omega) h2)
    have hstep := iter_nextQ_fetch m v it it' s l (s + l + p.1) p.2 (s + l) (Nat.le_refl _) hn
    rw [show F = (p.1 + p.2 - 1 + (F - (p.1 + p.2))) + 1 by omega, drainBits_some m v _ _ _ _ _ hstep hstay]
    rw [show v.len - (s + l) = (1 + (p.1 + p.2 - 1)) + (v.len - (s + l + p.1 + p.2)) by omega,
      bitItems_append, bitItems_append]
    simp only [bitItems, List.cons_append, List.nil_append, hg (s + l) (Nat.le_refl _) (by omega)]
    rw [show s + l + (1 + (p.1 + p.2 - 1)) = s + l + p.1 + p.2 by omega]
    congr 2
    simp; omega

/-- **`iter()`** enumerates the bits at positions `0 … len-1` in order, then returns `None` -/
theorem GoodB.iter_drain (m : Mode) {v : RL} {bl : Blocks} (g : GoodB v bl) (F : Nat) (hF : v.len + 1 ≤ F) :
    ∃ st, v.iter = ok st ∧ drainBits m v F st = ok (bitItems (absRuns 0 bl.flatten) 0 v.len) := by
  unfold RL.iter
  rw [g.runIter, bind_ok]
  refine ⟨_, rfl, ?_⟩
  have hsp := g.span_le
  have hconv : ∀ rs : List (Nat × Nat),
      bitItems ((0, 0) :: absRuns (0 + 0) rs) (0 + 0) (v.len - (0 + 0)) = bitItems (absRuns 0 rs) 0 v.len := by
    intro rs
    apply bitItems_congr
    intro y _
    simp [getR]
  by_cases hne : bl = []
  · subst hne
    rw [if_pos rfl]
    have hc : collect m v 1 (nilIter v) = ok (withPos 0 (absRuns (0 + 0) []), nilIter v) :=
      collect_none m v 0 _ _ (g.nextQ_nil m)
    have := bits_walk m v [] 0 0 0 1 F (nilIter v) (nilIter v) hc (by simp) (by simp [span]) (by omega)
    rw [hconv] at this
    exact this
  · rw [if_neg hne]
    have hb : 0 < bl.length := List.length_pos_iff.mpr hne
    obtain ⟨fuel, e, hf, hc, he⟩ := g.collect_block m 0 hb
    have := bits_walk m v (bl.drop 0).flatten 0 0 (cumL bl 0) fuel F (blockIter bl 0) e hc (g.len_pos_of_blk 0)
      (by have := (drop_cum bl 0).2; rw [cumS_zero] at this; omega) (by omega)
    rw [hconv] at this
    simpa using this

theorem bitItems_eq_map (R : List (Nat × Nat)) : ∀ (n x : Nat),
    bitItems R x n = (List.range' x n).map (getR R) := by
  intro n
  induction n with
  | zero => intro x; rfl
  | succ n ih => intro x; simp only [bitItems, List.range'_succ, List.map_cons, ih]

theorem bitItems_all (B : List Bool) : bitItems (maximalRuns B) 0 B.length = B := by
  rw [bitItems_eq_map]
  apply List.ext_getElem
  · simp
  · intro i h1 h2
    simp only [List.getElem_map, List.getElem_range', getR_maximalRuns, getSpec]
    simp [List.getD_eq_getElem?_getD, h2]

/-- **iter on built vectors**: the iterator yields exactly the bit sequence `B`, then `None` -/
theorem build_iter (m : Mode) (calls : List RL.BCall) (hc : ∀ c ∈ calls, RL.callArgsOk c)
    (b : RLBuilder) (hb : RL.runBCalls m calls {} = ok b) (v : RL) (hv : RL.ofBuilder m b = ok v)
    (hsz : v.blocks + 8 < U64) (F : Nat) (hF : v.len + 1 ≤ F) :
    ∃ st, v.iter = ok st ∧ drainBits m v F st = ok (calls.foldl RL.specCall []) := by
  obtain ⟨⟨bl, g, hR⟩, e1, e2, e3⟩ := build_good m calls hc b hb v hv hsz
  obtain ⟨st, h1, h2⟩ := g.iter_drain m F hF
  rw [← hR, e1, bitItems_all] at h2
  exact ⟨st, h1, h2⟩

/-! ### `zero_iter()` : the unset bits -/

def drainZero (m : Mode) (v : RL) : Nat → RLZeroIter → Outcome (List (Nat × Nat))
  | 0, _ => fault .fuel
  | f + 1, st => do
    let (o, st') ← st.nextQ m v
    match o with
    | none => return []
    | some x => do
      let xs ← drainZero m v f st'
      return x :: xs

/-- the items `(rank, position)` for ranks `k, …, k+n-1` of a select function -/
def selItems (sel : Nat → Option Nat) : Nat → Nat → List (Nat × Nat)
  | _, 0 => []
  | k, n + 1 => (k, (sel k).getD 0) :: selItems sel (k + 1) n

theorem selItems_append (sel : Nat → Option Nat) : ∀ (a k b : Nat),
    selItems sel k (a + b) = selItems sel k a ++ selItems sel (k + a) b := by
  intro a
  induction a with
  | zero => intro k b; simp [selItems]
  | succ a ih =>
    intro k b
    rw [show a + 1 + b = (a + b) + 1 by omega]
    simp only [selItems, List.cons_append]
    rw [ih (k + 1) b, show k + 1 + a = k + (a + 1) by omega]

theorem drainZero_some (m : Mode) (v : RL) (f : Nat) (st st' : RLZeroIter) (x : Nat × Nat)
    (out : List (Nat × Nat)) (h : st.nextQ m v = ok (some x, st')) (hd : drainZero m v f st' = ok out) :
    drainZero m v (f + 1) st = ok (x :: out) := by
  rw [drainZero, h]; simp only [bind_ok]; rw [hd]; rfl

theorem drainZero_none (m : Mode) (v : RL) (f : Nat) (st st' : RLZeroIter)
    (h : st.nextQ m v = ok (none, st')) : drainZero m v (f + 1) st = ok [] := by
  rw [drainZero, h]; rfl

theorem zero_nextQ_stay (m : Mode) (v : RL) (it : RunIter) (k x : Nat) (hrq : it.pos.1 ≤ it.pos.2)
    (hk : k < it.pos.2 - it.pos.1) (hcz : k < v.countZeros) :
    RLZeroIter.nextQ m v ⟨it, false, (k, x)⟩ = ok (some (k, x), ⟨it, false, (k + 1, x + 1)⟩) := by
  unfold RLZeroIter.nextQ RunIter.rankZero
  rw [show it.rank = it.pos.1 from rfl, show it.offsetBits = it.pos.2 from rfl, subM_ok hrq, bind_ok]
  have hc : ¬ ((!false && decide (k ≥ it.pos.2 - it.pos.1)) = true) := by
    simp only [Bool.not_false, Bool.true_and, decide_eq_true_eq]; omega
  simp only [if_neg hc, pure_eq, bind_ok, if_neg (show ¬ k ≥ v.countZeros by omega)]

theorem zero_nextQ_fetch (m : Mode) (v : RL) (it it' : RunIter) (o : Option (Nat × Nat)) (k x : Nat)
    (hrq : it.pos.1 ≤ it.pos.2) (hk : k ≥ it.pos.2 - it.pos.1) (hn : nextQ m v it = ok (o, it')) :
    RLZeroIter.nextQ m v ⟨it, false, (k, x)⟩ =
      if k ≥ v.countZeros then ok (none, ⟨it', o.isNone, (k, it.pos.2)⟩)
      else ok (some (k, it.pos.2), ⟨it', o.isNone, (k + 1, it.pos.2 + 1)⟩) := by
  unfold RLZeroIter.nextQ RunIter.rankZero
  rw [show it.rank = it.pos.1 from rfl, show it.offsetBits = it.pos.2 from rfl, subM_ok hrq, bind_ok]
  have hc : ((!false && decide (k ≥ it.pos.2 - it.pos.1)) = true) := by
    simp only [Bool.not_false, Bool.true_and, decide_eq_true_eq]; omega
  simp only [if_pos hc, hn, pure_eq, bind_ok]

theorem zero_nextQ_tail (m : Mode) (v : RL) (it : RunIter) (k x : Nat) (hrq : it.pos.1 ≤ it.pos.2) :
    RLZeroIter.nextQ m v ⟨it, true, (k, x)⟩ =
      if k ≥ v.countZeros then ok (none, ⟨it, true, (k, x)⟩)
      else ok (some (k, x), ⟨it, true, (k + 1, x + 1)⟩) := by
  unfold RLZeroIter.nextQ RunIter.rankZero
  rw [show it.rank = it.pos.1 from rfl, show it.offsetBits = it.pos.2 from rfl, subM_ok hrq, bind_ok]
  simp only [Bool.not_true, Bool.false_and, Bool.false_eq_true, if_false, pure_eq, bind_ok]

/-- after the last run: the remaining zeros are consecutive -/
theorem zero_tail (m : Mode) (v : RL) (sel : Nat → Option Nat) (it : RunIter) (hrq : it.pos.1 ≤ it.pos.2) :
    ∀ (n k x F : Nat), k + n = v.countZeros → n + 1 ≤ F →
      (∀ j, j < n → sel (k + j) = some (x + j)) →
      drainZero m v F ⟨it, true, (k, x)⟩ = ok (selItems sel k n) := by
  intro n
  induction n with
  | zero =>
    intro k x F hk hF _
    obtain ⟨F', rfl⟩ : ∃ F', F = F' + 1 := ⟨F - 1, by omega⟩
    exact drainZero_none m v F' _ _ (by rw [zero_nextQ_tail m v it k x hrq, if_pos (by omega)])
  | succ n ih =>
    intro k x F hk hF hs
    obtain ⟨F', rfl⟩ : ∃ F', F = F' + 1 := ⟨F - 1, by omega⟩
    have := ih (k + 1) (x + 1) F' (by omega) (by omega) (fun j hj => by
      have := hs (j + 1) (by omega)
      rw [show k + 1 + j = k + (j + 1) by omega, show x + 1 + j = x + (j + 1) by omega]; exact this)
    rw [drainZero_some m v F' _ _ (k, x) _ (by rw [zero_nextQ_tail m v it k x hrq, if_neg (by omega)]) this]
    have h0 := hs 0 (by omega)
    simp only [Nat.add_zero] at h0
    simp only [selItems, h0, Option.getD_some]

/-- the zeros in the gap before the current run: no fetch -/
theorem zero_stay (m : Mode) (v : RL) (sel : Nat → Option Nat) (it : RunIter) (hrq : it.pos.1 ≤ it.pos.2)
    (hcz : it.pos.2 - it.pos.1 ≤ v.countZeros) (F xe : Nat) (out : List (Nat × Nat))
    (hout : drainZero m v F ⟨it, false, (it.pos.2 - it.pos.1, xe)⟩ = ok out) :
    ∀ (n k x : Nat), k + n = it.pos.2 - it.pos.1 → x + n = xe →
      (∀ j, j < n → sel (k + j) = some (x + j)) →
      drainZero m v (n + F) ⟨it, false, (k, x)⟩ = ok (selItems sel k n ++ out) := by
  intro n
  induction n with
  | zero =>
    intro k x hk hx _
    have h1 : k = it.pos.2 - it.pos.1 := by omega
    have h2 : x = xe := by omega
    subst h1 h2
    simpa [selItems] using hout
  | succ n ih =>
    intro k x hk hx hs
    have hstep := zero_nextQ_stay m v it k x hrq (by omega) (by omega)
    have := ih (k + 1) (x + 1) (by omega) (by omega) (fun j hj => by
      have := hs (j + 1) (by omega)
      rw [show k + 1 + j = k + (j + 1) by omega, show x + 1 + j = x + (j + 1) by omega]; exact this)
    rw [show n + 1 + F = (n + F) + 1 by omega, drainZero_some m v _ _ _ _ _ hstep this]
    have h0 := hs 0 (by omega)
    simp only [Nat.add_zero] at h0
    simp only [selItems, List.cons_append, h0, Option.getD_some]

theorem zero_walk (m : Mode) (v : RL) (sel : Nat → Option Nat) :
    ∀ (rs : List (Nat × Nat)) (r q fuel F x : Nat) (it e : RunIter),
      collect m v fuel it = ok (withPos r (absRuns q rs), e) → it.pos = (r, q) →
      e.pos = (r + lens rs, q + span rs) → r ≤ q → q + span rs ≤ v.len →
      v.countZeros = v.len - (r + lens rs) → (∀ p ∈ rs, 1 ≤ p.1 ∧ 1 ≤ p.2) →
      (∀ j, sel (q - r + j) = selectZeroFrom v.len q (absRuns q rs) j) →
      v.countZeros - (q - r) + 1 ≤ F →
      drainZero m v F ⟨it, false, (q - r, x)⟩ = ok (selItems sel (q - r) (v.countZeros - (q - r))) := by
  intro rs
  induction rs with
  | nil =>
    intro r q fuel F x it e hc hit he hrq hsp hcz _ hstar hF
    obtain ⟨f, hf, hn⟩ := collect_nil_inv hc
    simp only [lens, span, Nat.add_zero] at he hsp hcz
    obtain ⟨F', rfl⟩ : ∃ F', F = F' + 1 := ⟨F - 1, by omega⟩
    have hstep := zero_nextQ_fetch m v it e none (q - r) x (by rw [hit]; exact hrq) (by rw [hit]; exact Nat.le_refl _) hn
    rw [hit] at hstep
    simp only [Option.isNone_none] at hstep
    cases hN : v.countZeros - (q - r) with
    | zero =>
      rw [if_pos (by omega)] at hstep
      exact drainZero_none m v F' _ _ hstep
    | succ n =>
      rw [if_neg (by omega)] at hstep
      have hsel : ∀ j, j < n + 1 → sel (q - r + j) = some (q + j) := by
        intro j hj
        rw [hstar j]
        simp only [absRuns, selectZeroFrom]
        rw [if_pos (by omega)]
      have := zero_tail m v sel e (by rw [he]; exact hrq) n (q - r + 1) (q + 1) F' (by omega) (by omega)
        (fun j hj => by
          have := hsel (j + 1) (by omega)
          rw [show q - r + 1 + j = q - r + (j + 1) by omega, show q + 1 + j = q + (j + 1) by omega]; exact this)
      rw [drainZero_some m v F' _ _ _ _ hstep this]
      have h0 := hsel 0 (by omega)
      simp only [Nat.add_zero] at h0
      simp only [selItems, h0, Option.getD_some]
  | cons p rs ih =>
    intro r q fuel F x it e hc hit he hrq hsp hcz hpos hstar hF
    obtain ⟨hp1, hp2⟩ := hpos p (by simp)
    simp only [absRuns, withPos] at hc
    obtain ⟨f, it', hf, hn, hp, hc'⟩ := collect_cons_inv hc
    simp only [] at hn hp
    simp only [lens, span] at he hsp hcz
    have hls := lens_le_span rs
    obtain ⟨F', rfl⟩ : ∃ F', F = F' + 1 := ⟨F - 1, by omega⟩
    have hstep := zero_nextQ_fetch m v it it' _ (q - r) x (by rw [hit]; exact hrq) (by rw [hit]; exact Nat.le_refl _) hn
    rw [hit] at hstep
    simp only [Option.isNone_some] at hstep
    rw [if_neg (by omega)] at hstep
    have hsel : ∀ j, j < p.1 → sel (q - r + j) = some (q + j) := by
      intro j hj
      rw [hstar j]
      simp only [absRuns, selectZeroFrom]
      rw [if_pos (by omega)]
    have hrz' : q + p.1 + p.2 - (r + p.2) = q - r + p.1 := by omega
    have hih := ih (r + p.2) (q + p.1 + p.2) f (F' - (p.1 - 1)) (q + p.1) it' e hc' hp
      (by rw [he]; congr 1 <;> omega) (by omega) (by omega) (by rw [hcz]; congr 1; omega)
      (fun t ht => hpos t (by simp [ht])) (by
        intro j
        rw [hrz', show q - r + p.1 + j = q - r + (p.1 + j) by omega, hstar (p.1 + j)]
        simp only [absRuns, selectZeroFrom]
        rw [if_neg (by omega)]
        congr 1; omega) (by omega)
    have hstay := zero_stay m v sel it' (by rw [hp]; show r + p.2 ≤ q + p.1 + p.2; omega)
      (by rw [hp]; show q + p.1 + p.2 - (r + p.2) ≤ _; omega) (F' - (p.1 - 1)) (q + p.1) _
      (by rw [hp]; exact hih) (p.1 - 1) (q - r + 1) (q + 1) (by rw [hp]; show _ = q + p.1 + p.2 - (r + p.2); omega)
      (by omega) (fun j hj => by
          have := hsel (j + 1) (by omega)
          rw [show q - r + 1 + j = q - r + (j + 1) by omega, show q + 1 + j = q + (j + 1) by omega]; exact this)
    rw [show F' = p.1 - 1 + (F' - (p.1 - 1)) by omega, drainZero_some m v _ _ _ _ _ hstep hstay]
    have h0 := hsel 0 (by omega)
    simp only [Nat.add_zero] at h0
    rw [show v.countZeros - (q - r) = (1 + (p.1 - 1)) + (v.countZeros - (q + p.1 + p.2 - (r + p.2))) by omega,
      selItems_append, selItems_append]
    simp only [selItems, h0, Option.getD_some, List.cons_append, List.nil_append]
    rw [show q - r + (1 + (p.1 - 1)) = q + p.1 + p.2 - (r + p.2) by omega]

/-- **`zero_iter()`** enumerates the unset bits in order, each with its rank, then returns `None`
(this needs every run but the first to be separated from its predecessor, as maximal runs are) -/
theorem GoodB.zeroIter_drain (m : Mode) {v : RL} {bl : Blocks} (g : GoodB v bl)
    (hgap : ∀ p rest, bl.flatten = p :: rest → ∀ q ∈ rest, 1 ≤ q.1) (F : Nat) (hF : v.countZeros + 1 ≤ F) :
    ∃ st, v.zeroIter m = ok st ∧
      drainZero m v F st = ok (selItems (selectZeroR v.len (absRuns 0 bl.flatten)) 0 v.countZeros) := by
  unfold RL.zeroIter
  rw [g.runIter, bind_ok]
  have hsp := g.span_le
  have hones := g.ones
  have hczdef : v.countZeros = v.len - v.ones := rfl
  by_cases hne : bl = []
  · subst hne
    rw [if_pos rfl, g.nextQ_nil m]
    refine ⟨_, rfl, ?_⟩
    simp only [Option.isNone_none]
    have h0 : v.ones = 0 := hones
    exact zero_tail m v _ (nilIter v) (Nat.le_refl _) v.countZeros 0 0 F (by omega) hF (fun j hj => by
      simp only [selectZeroR, List.flatten_nil, absRuns, selectZeroFrom]
      rw [if_pos (by omega), Nat.zero_add])
  · rw [if_neg hne]
    have hb : 0 < bl.length := List.length_pos_iff.mpr hne
    obtain ⟨fuel, e, hf, hc, he⟩ := g.collect_block m 0 hb
    rw [List.drop_zero, cumL_zero, cumS_zero] at hc
    cases hfl : bl.flatten with
    | nil =>
      have := (cumS_lt bl g.blk_ok 0 hb).1
      rw [hfl] at this; simp [lens] at this
    | cons p rest =>
      have hg := hgap p rest hfl
      have hpos : ∀ t ∈ rest, 1 ≤ t.1 ∧ 1 ≤ t.2 := by
        intro t ht
        have := g.len_pos_of_blk 0 t (by rw [List.drop_zero, hfl]; simp [ht])
        exact ⟨hg t ht, this⟩
      have hp2 : 1 ≤ p.2 := g.len_pos_of_blk 0 p (by rw [List.drop_zero, hfl]; simp)
      rw [hfl] at hc he hsp hones
      simp only [absRuns, withPos, Nat.zero_add] at hc
      obtain ⟨f, it1, hf', hn, hp, hc'⟩ := collect_cons_inv hc
      simp only [] at hn hp
      simp only [lens, span] at he hsp hones
      have hls := lens_le_span rest
      rw [hn]
      simp only [bind_ok, pure_eq, Option.isNone_some]
      refine ⟨_, rfl, ?_⟩
      generalize hsel : selectZeroR v.len (absRuns 0 (p :: rest)) = sel
      have hsel1 : ∀ j, j < p.1 → sel (0 + j) = some (0 + j) := by
        intro j hj
        rw [← hsel]
        simp only [selectZeroR, absRuns, selectZeroFrom, Nat.zero_add]
        rw [if_pos hj]
      have hq : p.1 + p.2 - p.2 = p.1 := by omega
      have hwalk := zero_walk m v sel rest p.2 (p.1 + p.2) f (F - p.1) p.1 it1 e hc' hp
        (by rw [he]) (by omega) (by omega) (by rw [hczdef, hones])
        hpos (by
          intro j
          rw [hq, ← hsel]
          simp only [selectZeroR, absRuns, selectZeroFrom, Nat.zero_add]
          rw [if_neg (by omega)]
          congr 1; omega) (by omega)
      rw [hq] at hwalk
      have hstay := zero_stay m v sel it1 (by rw [hp]; show p.2 ≤ p.1 + p.2; omega)
        (by rw [hp]; show p.1 + p.2 - p.2 ≤ _; omega) (F - p.1) p.1 _
        (by rw [hp]; show drainZero m v _ ⟨it1, false, (p.1 + p.2 - p.2, p.1)⟩ = _; rw [hq]; exact hwalk)
        p.1 0 0 (by rw [hp]; show 0 + p.1 = p.1 + p.2 - p.2; omega) (by omega) hsel1
      rw [show p.1 + (F - p.1) = F by omega] at hstay
      rw [hstay, show v.countZeros = p.1 + (v.countZeros - p.1) by omega, selItems_append, Nat.zero_add]
      rw [show p.1 + (v.countZeros - p.1) - p.1 = v.countZeros - p.1 by omega]

theorem selItems_fst (sel : Nat → Option Nat) : ∀ (n k : Nat),
    (selItems sel k n).map (·.1) = List.range' k n := by
  intro n
  induction n with
  | zero => intro k; rfl
  | succ n ih => intro k; simp only [selItems, List.map_cons, ih, List.range'_succ]

theorem selItems_snd (sel : Nat → Option Nat) (P : List Nat) (hsel : ∀ j, sel j = P[j]?) :
    ∀ (n k : Nat), k + n ≤ P.length → (selItems sel k n).map (·.2) = (P.drop k).take n := by
  intro n
  induction n with
  | zero => intro k _; simp [selItems]
  | succ n ih =>
    intro k h
    have hk : k < P.length := by omega
    simp only [selItems, List.map_cons, ih (k + 1) (by omega)]
    rw [hsel, List.getElem?_eq_getElem hk, Option.getD_some, List.drop_eq_getElem_cons hk, List.take_succ_cons]

theorem count_map_not (B : List Bool) : (B.map not).count true = B.count false := by
  induction B with
  | nil => rfl
  | cons x xs ih => cases x <;> simp [ih]

theorem zeroIter_spec (m : Mode) {v : RL} (B : List Bool) (hg : Good v (maximalRuns B)) (e1 : v.len = B.length)
    (e3 : v.countZeros = B.count false) (F : Nat) (hF : v.countZeros + 1 ≤ F) :
    ∃ st items, v.zeroIter m = ok st ∧ drainZero m v F st = ok items ∧
      items.map (·.2) = zerosPos B ∧ items.map (·.1) = List.range (B.count false) := by
  obtain ⟨bl, g, hR⟩ := hg
  have hsep := maximalRuns_sep B
  obtain ⟨st, h1, h2⟩ := g.zeroIter_drain m (by
    intro p rest hpr
    rw [hR, hpr] at hsep
    exact sep_gap_tail hsep) F hF
  rw [← hR, e1, e3] at h2
  have hlenz : (zerosPos B).length = B.count false := by
    unfold zerosPos
    rw [length_onesFrom, count_map_not]
  refine ⟨st, _, h1, h2, ?_, by rw [selItems_fst, List.range_eq_range']⟩
  rw [selItems_snd _ (zerosPos B) (fun j => by
    rw [selectZeroR_maximalRuns]; unfold selectZeroSpec zerosPos
    exact selectSpec_eq_onesPos (B.map not) j) _ 0 (by omega), List.drop_zero, ← hlenz, List.take_length]

/-- **zero_iter on built vectors**: the items are the unset positions of `B` in order, ranked `0, 1, …` -/
theorem build_zeroIter (m : Mode) (calls : List RL.BCall) (hc : ∀ c ∈ calls, RL.callArgsOk c)
    (b : RLBuilder) (hb : RL.runBCalls m calls {} = ok b) (v : RL) (hv : RL.ofBuilder m b = ok v)
    (hsz : v.blocks + 8 < U64) (F : Nat) (hF : v.countZeros + 1 ≤ F) :
    let B := calls.foldl RL.specCall []
    ∃ st items, v.zeroIter m = ok st ∧ drainZero m v F st = ok items ∧
      items.map (·.2) = zerosPos B ∧ items.map (·.1) = List.range (B.count false) := by
  intro B
  obtain ⟨hg, e1, e2, e3⟩ := build_good m calls hc b hb v hv hsz
  exact zeroIter_spec m B hg e1 e3 F hF

end RLQ
end Sds
