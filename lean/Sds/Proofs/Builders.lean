/-
Proofs/Builders: the two builders (`SparseBuilder`, `RLBuilder`) reject invalid steps without side
effects and build what was accepted.

In the model a rejected `try_*` call is `.fault (.err _)` and the caller keeps the old builder, so
"a rejected call leaves the builder unchanged" holds by construction.  What is proven here is *when*
calls are rejected / accepted and *what* accepted calls do to the observables.
-/
import Sds.Model.RL
import Sds.Proofs.IntVec
import Sds.Proofs.RawVec
import Sds.Proofs.Select
import Sds.Proofs.Sparse
set_option linter.unusedSimpArgs false
set_option linter.unusedVariables false

namespace Sds.BuildersProofs
open Sds Outcome

/-! ## 1. SparseBuilder -/

/-- every value below the universe size falls into one of the `getBuckets` buckets
(for width 64 the universe has to be a `usize`) -/
theorem shr_lt_getBuckets' {n w p : Nat} (hw : w < 64 ∨ n < U64) (hw64 : w ≤ 64) (hp : p < n) :
    p >>> w < Sparse.getBuckets n w := by
  unfold Sparse.getBuckets
  have hd : 0 < 2 ^ w := Nat.two_pow_pos w
  by_cases hw' : w < 64
  · simp only [if_pos hw', Nat.shiftRight_eq_div_pow]
    by_cases hm : n % 2 ^ w = 0
    · simp only [hm, ne_eq, not_true_eq_false, if_false]
      rw [Nat.div_lt_iff_lt_mul hd]
      have := Nat.div_add_mod' n (2 ^ w)
      omega
    · simp only [hm, ne_eq, not_false_eq_true, if_true]
      have := Nat.div_le_div_right (c := 2 ^ w) (Nat.le_of_lt hp)
      omega
  · have hw2 : w = 64 := by omega
    have hn : n < U64 := by rcases hw with h | h; exact absurd h hw'; exact h
    subst hw2
    rw [U64_eq] at hn
    have h1 : n % 2 ^ 64 = n := Nat.mod_eq_of_lt hn
    have h2 : p >>> 64 = 0 := by
      rw [Nat.shiftRight_eq_div_pow]; exact Nat.div_eq_of_lt (by omega)
    simp only [h1, h2]
    have : n ≠ 0 := by omega
    simp [this]

/-- The builder invariant.  `capacity = low.len`; `high` has one bit per value plus one per bucket. -/
structure SbInv (b : SparseBuilder) : Prop where
  len_le : b.len ≤ b.capacity
  low_wf : b.low.WF
  high_wf : b.high.WF
  high_len : b.high.len = b.capacity + Sparse.getBuckets b.univ b.low.width
  univ_ok : b.low.width < 64 ∨ b.univ < U64

theorem SbInv.w1 {b} (h : SbInv b) : 1 ≤ b.low.width := h.low_wf.1
theorem SbInv.w64 {b} (h : SbInv b) : b.low.width ≤ 64 := h.low_wf.2.1

theorem isFull_iff (b : SparseBuilder) : b.isFull = true ↔ b.len = b.capacity := by
  simp [SparseBuilder.isFull]

theorem not_isFull_iff {b : SparseBuilder} (h : SbInv b) : b.isFull = false ↔ b.len < b.capacity := by
  have := h.len_le
  rw [← Bool.not_eq_true, isFull_iff]; omega

/-! ### constructors -/

theorem new_reject (w univ ones : Nat) (h : ones > univ) :
    SparseBuilder.new w univ ones = fault (.err .other) := by
  unfold SparseBuilder.new; rw [if_pos h]

/-- the width is validated as well (by `IntVector::with_len`) -/
theorem new_reject_width (w univ ones : Nat) (h : w = 0 ∨ 64 < w) :
    SparseBuilder.new w univ ones = fault (.err .other) := by
  unfold SparseBuilder.new
  split
  · rfl
  · rw [IntVec.withLen_reject _ _ _ h]; rfl

theorem multiset_reject_width (w univ ones : Nat) (h : w = 0 ∨ 64 < w) :
    SparseBuilder.multiset w univ ones = fault (.err .other) := by
  unfold SparseBuilder.multiset
  rw [IntVec.withLen_reject _ _ _ h]; rfl

theorem new_ok (w univ ones : Nat) (h1 : 1 ≤ w) (h2 : w ≤ 64) (ho : ones ≤ univ)
    (hu : w < 64 ∨ univ < U64) :
    ∃ b, SparseBuilder.new w univ ones = ok b ∧ SbInv b ∧ b.capacity = ones ∧ b.univ = univ ∧
      b.low.width = w ∧ b.len = 0 ∧ b.next = 0 ∧ b.increment = 1 := by
  obtain ⟨v, hv, hwf, hwd, hl, _⟩ := IntVec.withLen_spec ones w 0 h1 h2
  refine ⟨⟨univ, v, RawVec.withLen (ones + Sparse.getBuckets univ w) false, 0, 0, 1⟩, ?_, ?_,
    hl, rfl, hwd, rfl, rfl, rfl⟩
  · unfold SparseBuilder.new; rw [if_neg (by omega), hv]; rfl
  · exact ⟨Nat.zero_le _, hwf, RawVec.withLen_WF _ _,
      by simp [SparseBuilder.capacity, hl, hwd], by simpa [hwd] using hu⟩

theorem multiset_ok (w univ ones : Nat) (h1 : 1 ≤ w) (h2 : w ≤ 64) (hu : w < 64 ∨ univ < U64) :
    ∃ b, SparseBuilder.multiset w univ ones = ok b ∧ SbInv b ∧ b.capacity = ones ∧ b.univ = univ ∧
      b.low.width = w ∧ b.len = 0 ∧ b.next = 0 ∧ b.increment = 0 := by
  obtain ⟨v, hv, hwf, hwd, hl, _⟩ := IntVec.withLen_spec ones w 0 h1 h2
  refine ⟨⟨univ, v, RawVec.withLen (ones + Sparse.getBuckets univ w) false, 0, 0, 0⟩, ?_, ?_,
    hl, rfl, hwd, rfl, rfl, rfl⟩
  · unfold SparseBuilder.multiset; rw [hv]; rfl
  · exact ⟨Nat.zero_le _, hwf, RawVec.withLen_WF _ _,
      by simp [SparseBuilder.capacity, hl, hwd], by simpa [hwd] using hu⟩

/-- `new` is rejected exactly when there are more ones than positions (valid width) -/
theorem new_reject_iff (w univ ones : Nat) (h1 : 1 ≤ w) (h2 : w ≤ 64) :
    SparseBuilder.new w univ ones = fault (.err .other) ↔ ones > univ := by
  constructor
  · intro h
    by_cases ho : ones > univ
    · exact ho
    · exfalso
      obtain ⟨v, hv, _⟩ := IntVec.withLen_spec ones w 0 h1 h2
      unfold SparseBuilder.new at h
      rw [if_neg ho, hv] at h
      cases h
  · exact new_reject w univ ones

/-! ### `try_set` -/

/-- the successor state of an accepted call -/
def setResult (b : SparseBuilder) (i : Nat) : SparseBuilder :=
  ⟨b.univ,
   ⟨b.low.len, b.low.width,
     b.low.data.setInt (b.len * b.low.width) (BitVec.ofNat 64 (i % 2 ^ b.low.width)) b.low.width⟩,
   b.high.setBit (i >>> b.low.width + b.len) true, b.len + 1, i + b.increment, b.increment⟩

theorem hi_lt_high_len {b : SparseBuilder} (h : SbInv b) {i : Nat} (hi : i < b.univ)
    (hl : b.len < b.capacity) : i >>> b.low.width + b.len < b.high.len := by
  have := shr_lt_getBuckets' h.univ_ok h.w64 hi
  rw [h.high_len]; omega

/-- with the invariant, the unchecked setter neither asserts nor hits the checked word index -/
theorem setUnchecked_ok {b : SparseBuilder} (h : SbInv b) {i : Nat} (hi : i < b.univ)
    (hl : b.len < b.capacity) : b.setUnchecked i = ok (setResult b i) := by
  have hlt := hi_lt_high_len h hi hl
  have hidx : (i >>> b.low.width + b.len) / 64 < b.high.data.size := by
    rw [h.high_wf.1]; omega
  unfold SparseBuilder.setUnchecked
  simp only []
  rw [IntVec.set_ok _ _ _ hl]
  simp only [bind_ok]
  rw [if_pos hidx]
  rfl

theorem setResult_inv {b : SparseBuilder} (h : SbInv b) {i : Nat} (hi : i < b.univ)
    (hl : b.len < b.capacity) : SbInv (setResult b i) := by
  have hlt := hi_lt_high_len h hi hl
  refine ⟨?_, IntVec.set_WF h.low_wf _ hl _, RawVec.setBit_WF h.high_wf _ hlt _, ?_, h.univ_ok⟩
  · show b.len + 1 ≤ b.low.len
    exact hl
  · exact h.high_len

/-- **when `try_set` is rejected** (no invariant needed) -/
theorem trySet_reject_of (b : SparseBuilder) (i : Nat)
    (h : b.isFull = true ∨ i < b.next ∨ i ≥ b.univ) : b.trySet i = fault (.err .other) := by
  unfold SparseBuilder.trySet
  by_cases h1 : b.isFull = true
  · rw [if_pos h1]
  · rw [if_neg h1]
    by_cases h2 : i < b.next
    · rw [if_pos h2]
    · rw [if_neg h2]
      have h3 : i ≥ b.univ := by
        rcases h with h | h | h
        · exact absurd h h1
        · exact absurd h h2
        · exact h
      rw [if_pos h3]

/-- **an accepted `try_set`** runs the setter to completion -/
theorem trySet_accept {b : SparseBuilder} (h : SbInv b) {i : Nat}
    (hf : b.isFull = false) (hn : b.next ≤ i) (hi : i < b.univ) :
    b.trySet i = ok (setResult b i) := by
  unfold SparseBuilder.trySet
  rw [if_neg (by simp [hf]), if_neg (by omega), if_neg (by omega)]
  exact setUnchecked_ok h hi ((not_isFull_iff h).mp hf)

/-- **rejection is exact**: `try_set` reports an error iff the builder is full, the index is below
`next`, or the index is outside the universe. -/
theorem trySet_reject_iff {b : SparseBuilder} (h : SbInv b) (i : Nat) :
    b.trySet i = fault (.err .other) ↔ (b.isFull = true ∨ i < b.next ∨ i ≥ b.univ) := by
  constructor
  · intro hr
    by_cases h1 : b.isFull = true
    · exact Or.inl h1
    · by_cases h2 : i < b.next
      · exact Or.inr (Or.inl h2)
      · by_cases h3 : i ≥ b.univ
        · exact Or.inr (Or.inr h3)
        · exfalso
          rw [trySet_accept h (by simpa using h1) (by omega) (by omega)] at hr
          cases hr
  · exact trySet_reject_of b i

/-- the two cases of `try_set`, with the effect of an accepted call on all observables -/
theorem trySet_cases {b : SparseBuilder} (h : SbInv b) (i : Nat) :
    (b.trySet i = fault (.err .other) ∧ (b.isFull = true ∨ i < b.next ∨ i ≥ b.univ)) ∨
    (∃ b', b.trySet i = ok b' ∧ ¬ (b.isFull = true ∨ i < b.next ∨ i ≥ b.univ) ∧
      b'.len = b.len + 1 ∧ b'.next = i + b.increment ∧ b'.capacity = b.capacity ∧
      b'.univ = b.univ ∧ b'.increment = b.increment ∧ b'.low.width = b.low.width ∧ SbInv b') := by
  by_cases hc : b.isFull = true ∨ i < b.next ∨ i ≥ b.univ
  · exact Or.inl ⟨trySet_reject_of b i hc, hc⟩
  · right
    have h1 : b.isFull = false := by
      cases hb : b.isFull
      · rfl
      · exact absurd (Or.inl hb) hc
    have h2 : b.next ≤ i := by
      apply Nat.le_of_not_lt; intro hlt; exact hc (Or.inr (Or.inl hlt))
    have h3 : i < b.univ := by
      apply Nat.lt_of_not_le; intro hge; exact hc (Or.inr (Or.inr hge))
    exact ⟨setResult b i, trySet_accept h h1 h2 h3, hc, rfl, rfl, rfl, rfl, rfl, rfl,
      setResult_inv h h3 ((not_isFull_iff h).mp h1)⟩

/-- `try_set` never panics and never reads out of bounds: it is an `Err` or a new builder -/
theorem trySet_total {b : SparseBuilder} (h : SbInv b) (i : Nat) :
    b.trySet i = fault (.err .other) ∨ ∃ b', b.trySet i = ok b' := by
  rcases trySet_cases h i with ⟨hr, _⟩ | ⟨b', hb, _⟩
  · exact Or.inl hr
  · exact Or.inr ⟨b', hb⟩

/-! ### `build` -/

theorem build_reject_iff (b : SparseBuilder) :
    b.build = fault (.err .other) ↔ b.isFull = false := by
  unfold SparseBuilder.build
  cases hb : b.isFull <;> simp

theorem build_ok_of_full (b : SparseBuilder) (h : b.isFull = true) :
    b.build = ok ⟨b.univ, (BitVector.ofRaw b.high).enableSelect.enableSelectZero, b.low⟩ := by
  unfold SparseBuilder.build
  simp [h]

/-! ### call histories

The caller of a `try_*` function keeps the old builder when the call is rejected; `step` is that
protocol, `run` a whole history of calls.  The list-level reference `accepted` keeps the accepted
indices and the lower bound for the next one. -/

/-- one `try_set` call by a caller that ignores rejections -/
def step (b : SparseBuilder) (i : Nat) : SparseBuilder :=
  match b.trySet i with
  | ok b' => b'
  | fault _ => b

/-- a history of `try_set` calls -/
def run (b : SparseBuilder) (calls : List Nat) : SparseBuilder := calls.foldl step b

/-- reference state: the accepted indices (in call order) and the lower bound for the next index -/
structure RefState where
  acc : List Nat
  next : Nat
  deriving DecidableEq, Repr

/-- a call `i` is accepted iff fewer than `cap` calls were accepted so far, `i ≥ next` and `i < univ`;
then `next := i + inc` (`inc = 1`: set, `inc = 0`: multiset) -/
def refStep (cap univ inc : Nat) (s : RefState) (i : Nat) : RefState :=
  if s.acc.length < cap ∧ s.next ≤ i ∧ i < univ then ⟨s.acc ++ [i], i + inc⟩ else s

def acceptedFrom (cap univ inc : Nat) (s : RefState) (calls : List Nat) : RefState :=
  calls.foldl (refStep cap univ inc) s

/-- the list-level reference for a fresh builder -/
def accepted (cap univ inc : Nat) (calls : List Nat) : RefState :=
  acceptedFrom cap univ inc ⟨[], 0⟩ calls

/-- the builder `b` is in the reference state `s` -/
structure Agrees (cap univ inc : Nat) (b : SparseBuilder) (s : RefState) : Prop where
  inv : SbInv b
  len_eq : b.len = s.acc.length
  next_eq : b.next = s.next
  cap_eq : b.capacity = cap
  univ_eq : b.univ = univ
  inc_eq : b.increment = inc

theorem step_of_reject {b : SparseBuilder} {i : Nat} (h : b.trySet i = fault (.err .other)) :
    step b i = b := by
  unfold step; rw [h]

theorem step_of_accept {b b' : SparseBuilder} {i : Nat} (h : b.trySet i = ok b') :
    step b i = b' := by
  unfold step; rw [h]

theorem Agrees.step {cap univ inc : Nat} {b : SparseBuilder} {s : RefState}
    (h : Agrees cap univ inc b s) (i : Nat) :
    Agrees cap univ inc (step b i) (refStep cap univ inc s i) := by
  obtain ⟨hinv, hl, hn, hc, hu, hi⟩ := h
  have hfull : b.isFull = true ↔ ¬ s.acc.length < cap := by
    rw [isFull_iff, ← hl, ← hc]; have := hinv.len_le; omega
  rcases trySet_cases hinv i with ⟨hr, hcond⟩ | ⟨b', hb, hcond, h1, h2, h3, h4, h5, _, h7⟩
  · rw [step_of_reject hr]
    have : ¬ (s.acc.length < cap ∧ s.next ≤ i ∧ i < univ) := by
      rw [hfull, hn, hu] at hcond; omega
    unfold refStep; rw [if_neg this]
    exact ⟨hinv, hl, hn, hc, hu, hi⟩
  · rw [step_of_accept hb]
    have : s.acc.length < cap ∧ s.next ≤ i ∧ i < univ := by
      rw [hfull, hn, hu] at hcond; omega
    unfold refStep; rw [if_pos this]
    exact ⟨h7, by simp [h1, hl], by rw [h2, hi], by rw [h3, hc], by rw [h4, hu], by rw [h5, hi]⟩

theorem Agrees.run {cap univ inc : Nat} (calls : List Nat) : ∀ {b : SparseBuilder} {s : RefState},
    Agrees cap univ inc b s → Agrees cap univ inc (run b calls) (acceptedFrom cap univ inc s calls) := by
  induction calls with
  | nil => intro b s h; exact h
  | cons i rest ih =>
    intro b s h
    exact ih (h.step i)

theorem Agrees.isFull {cap univ inc : Nat} {b : SparseBuilder} {s : RefState}
    (h : Agrees cap univ inc b s) : b.isFull = (s.acc.length == cap) := by
  unfold SparseBuilder.isFull; rw [h.len_eq, h.cap_eq]

/-- **histories, general form**: from any builder satisfying the invariant, any finite list of
`try_set` calls (valid or not, rejected ones ignored) leaves the builder in the state predicted by the
list-level reference started at `(len, next)`. -/
theorem run_agrees {b : SparseBuilder} (h : SbInv b) (acc0 : List Nat) (h0 : acc0.length = b.len)
    (calls : List Nat) :
    let r := acceptedFrom b.capacity b.univ b.increment ⟨acc0, b.next⟩ calls
    (run b calls).len = r.acc.length ∧ (run b calls).next = r.next ∧
    (run b calls).isFull = (r.acc.length == b.capacity) ∧
    (run b calls).capacity = b.capacity ∧ (run b calls).univ = b.univ ∧
    (run b calls).increment = b.increment ∧ SbInv (run b calls) := by
  have ha : Agrees b.capacity b.univ b.increment b ⟨acc0, b.next⟩ :=
    ⟨h, h0.symm, rfl, rfl, rfl, rfl⟩
  have hr := ha.run calls
  exact ⟨hr.len_eq, hr.next_eq, hr.isFull, hr.cap_eq, hr.univ_eq, hr.inc_eq, hr.inv⟩

/-- **histories, set mode**: `SparseBuilder::new` followed by any list of `try_set` calls -/
theorem run_new (w univ ones : Nat) (h1 : 1 ≤ w) (h2 : w ≤ 64) (ho : ones ≤ univ)
    (hu : w < 64 ∨ univ < U64) (calls : List Nat) :
    ∃ b, SparseBuilder.new w univ ones = ok b ∧
      let r := accepted ones univ 1 calls
      (run b calls).len = r.acc.length ∧ (run b calls).next = r.next ∧
      (run b calls).isFull = (r.acc.length == ones) ∧ SbInv (run b calls) := by
  obtain ⟨b, hb, hinv, hc, hun, _, hl, hn, hi⟩ := new_ok w univ ones h1 h2 ho hu
  refine ⟨b, hb, ?_⟩
  have ha : Agrees ones univ 1 b ⟨[], 0⟩ := ⟨hinv, hl, hn, hc, hun, hi⟩
  have hr := ha.run calls
  exact ⟨hr.len_eq, hr.next_eq, hr.isFull, hr.inv⟩

/-- **histories, multiset mode** -/
theorem run_multiset (w univ ones : Nat) (h1 : 1 ≤ w) (h2 : w ≤ 64)
    (hu : w < 64 ∨ univ < U64) (calls : List Nat) :
    ∃ b, SparseBuilder.multiset w univ ones = ok b ∧
      let r := accepted ones univ 0 calls
      (run b calls).len = r.acc.length ∧ (run b calls).next = r.next ∧
      (run b calls).isFull = (r.acc.length == ones) ∧ SbInv (run b calls) := by
  obtain ⟨b, hb, hinv, hc, hun, _, hl, hn, hi⟩ := multiset_ok w univ ones h1 h2 hu
  refine ⟨b, hb, ?_⟩
  have ha : Agrees ones univ 0 b ⟨[], 0⟩ := ⟨hinv, hl, hn, hc, hun, hi⟩
  have hr := ha.run calls
  exact ⟨hr.len_eq, hr.next_eq, hr.isFull, hr.inv⟩

/-- `build` after a history succeeds exactly when the reference accepted `ones` calls -/
theorem build_after_run {cap univ inc : Nat} {b : SparseBuilder} {s : RefState}
    (h : Agrees cap univ inc b s) (calls : List Nat) :
    (run b calls).build = fault (.err .other) ↔
      (acceptedFrom cap univ inc s calls).acc.length ≠ cap := by
  rw [build_reject_iff, (h.run calls).isFull]
  simp

/-! facts about the reference itself -/

/-- what the reference maintains: at most `cap` accepted, all below `univ`, consecutive accepted
indices differ by at least `inc`, and `next` is the last accepted index plus `inc` -/
structure RefOk (cap univ inc : Nat) (s : RefState) : Prop where
  len_le : s.acc.length ≤ cap
  bound : ∀ x ∈ s.acc, x < univ
  sorted : s.acc.Pairwise (fun a c => a + inc ≤ c)
  next_ge : ∀ x ∈ s.acc, x + inc ≤ s.next

theorem RefOk.step {cap univ inc : Nat} {s : RefState} (h : RefOk cap univ inc s) (i : Nat) :
    RefOk cap univ inc (refStep cap univ inc s i) := by
  unfold refStep
  split
  · next hc =>
    refine ⟨by simp; omega, ?_, ?_, ?_⟩
    · intro x hx
      rcases List.mem_append.mp hx with hx | hx
      · exact h.bound x hx
      · simp at hx; omega
    · rw [List.pairwise_append]
      refine ⟨h.sorted, List.pairwise_singleton _ _, ?_⟩
      intro a ha c hc'
      simp at hc'; subst hc'
      have := h.next_ge a ha; omega
    · intro x hx
      rcases List.mem_append.mp hx with hx | hx
      · have := h.next_ge x hx; show x + inc ≤ i + inc; omega
      · simp at hx; subst hx; exact Nat.le_refl _
  · exact h

theorem RefOk.run {cap univ inc : Nat} (calls : List Nat) : ∀ {s : RefState},
    RefOk cap univ inc s → RefOk cap univ inc (acceptedFrom cap univ inc s calls) := by
  induction calls with
  | nil => intro s h; exact h
  | cons i rest ih => intro s h; exact ih (h.step i)

theorem accepted_ok (cap univ inc : Nat) (calls : List Nat) :
    RefOk cap univ inc (accepted cap univ inc calls) :=
  RefOk.run calls ⟨Nat.zero_le _, by simp, List.Pairwise.nil, by simp⟩

/-- set mode: the accepted indices are strictly increasing -/
theorem accepted_strict (cap univ : Nat) (calls : List Nat) :
    (accepted cap univ 1 calls).acc.Pairwise (· < ·) :=
  (accepted_ok cap univ 1 calls).sorted.imp (fun h => by omega)

/-- multiset mode: the accepted indices are non-decreasing -/
theorem accepted_mono (cap univ : Nat) (calls : List Nat) :
    (accepted cap univ 0 calls).acc.Pairwise (· ≤ ·) :=
  (accepted_ok cap univ 0 calls).sorted.imp (fun h => by omega)

/-- a valid history (enough room, all indices in the universe, spaced by `inc`, starting at or after
`next`) is accepted entirely -/
theorem acceptedFrom_valid (cap univ inc : Nat) : ∀ (calls : List Nat) (s : RefState),
    s.acc.length + calls.length ≤ cap → (∀ x ∈ calls, x < univ) →
    calls.Pairwise (fun a c => a + inc ≤ c) → (∀ x ∈ calls, s.next ≤ x) →
    (acceptedFrom cap univ inc s calls).acc = s.acc ++ calls := by
  intro calls
  induction calls with
  | nil => intro s _ _ _ _; simp [acceptedFrom]
  | cons i rest ih =>
    intro s hlen hb hp hn
    have hc : s.acc.length < cap ∧ s.next ≤ i ∧ i < univ := by
      refine ⟨?_, hn i (by simp), hb i (by simp)⟩
      simp at hlen; omega
    have hs : refStep cap univ inc s i = ⟨s.acc ++ [i], i + inc⟩ := by
      unfold refStep; rw [if_pos hc]
    show (acceptedFrom cap univ inc (refStep cap univ inc s i) rest).acc = _
    rw [hs, ih]
    · simp
    · simp at hlen ⊢; omega
    · intro x hx; exact hb x (List.mem_cons_of_mem _ hx)
    · exact (List.pairwise_cons.mp hp).2
    · intro x hx; exact (List.pairwise_cons.mp hp).1 x hx

/-! ## 2. RLBuilder -/

section RL

theorem addM_not_err (m : Mode) (a c : Nat) (k : ErrKind) : addM m a c ≠ fault (.err k) := by
  unfold addM; split
  · intro h; cases h
  · cases m <;> intro h <;> cases h

theorem subM_not_err (m : Mode) (a c : Nat) (k : ErrKind) : subM m a c ≠ fault (.err k) := by
  unfold subM; split
  · intro h; cases h
  · cases m <;> intro h <;> cases h

/-- `addM` when it returns: the sum modulo 2^64 -/
theorem addM_eq_ok {m : Mode} {a c r : Nat} (h : addM m a c = ok r) : r = (a + c) % U64 := by
  unfold addM at h
  split at h
  · next hlt => cases h; exact (Nat.mod_eq_of_lt hlt).symm
  · cases m
    · cases h
    · cases h; rfl

/-- the state after `flush` when there is a pending run -/
def flushResult (b : RLBuilder) : RLBuilder :=
  let gap := b.run.1 - b.tail
  let units := RLBuilder.codeLen gap + RLBuilder.codeLen (b.run.2 - 1)
  let b1 : RLBuilder :=
    if b.data.len + units > b.samples.size * 64 then
      { b with data := b.data.resize (b.samples.size * 64) 0,
               samples := b.samples.push (b.ones - b.run.2, b.tail) }
    else b
  let d := RLBuilder.encode (RLBuilder.encode b1.data gap) (b.run.2 - 1)
  { b1 with data := d, tail := b.run.1 + b.run.2, run := (b.len, 0) }

theorem flushResult_len (b : RLBuilder) : (flushResult b).len = b.len := by
  unfold flushResult; simp only []; split <;> rfl
theorem flushResult_ones (b : RLBuilder) : (flushResult b).ones = b.ones := by
  unfold flushResult; simp only []; split <;> rfl
theorem flushResult_run (b : RLBuilder) : (flushResult b).run = (b.len, 0) := rfl
theorem flushResult_tail (b : RLBuilder) : (flushResult b).tail = b.run.1 + b.run.2 := rfl

theorem flush_noop (m : Mode) (b : RLBuilder) (h : b.run.2 = 0) : b.flush m = ok b := by
  unfold RLBuilder.flush; rw [if_pos h]

theorem flush_pending (m : Mode) (b : RLBuilder) (h : b.run.2 ≠ 0) (ht : b.tail ≤ b.run.1) :
    b.flush m = ok (flushResult b) := by
  unfold RLBuilder.flush; rw [if_neg h, subM_ok ht]; rfl

theorem bind_not_err {α β : Type} {x : Outcome α} {f : α → Outcome β} {k : ErrKind}
    (hx : x ≠ fault (.err k)) (hf : ∀ a, f a ≠ fault (.err k)) : (x >>= f) ≠ fault (.err k) := by
  cases x with
  | ok a => exact hf a
  | fault e => intro h; rw [bind_fault] at h; injection h with h; exact hx (by rw [h])

theorem flush_not_err (m : Mode) (b : RLBuilder) (k : ErrKind) : b.flush m ≠ fault (.err k) := by
  unfold RLBuilder.flush
  split
  · intro h; cases h
  · exact bind_not_err (subM_not_err m _ _ k) fun _ => by intro h; cases h

/-- `flush` never changes `len` or `ones` -/
theorem flush_len_ones {m : Mode} {b b' : RLBuilder} (h : b.flush m = ok b') :
    b'.len = b.len ∧ b'.ones = b.ones := by
  unfold RLBuilder.flush at h
  split at h
  · cases h; exact ⟨rfl, rfl⟩
  · cases hs : subM m b.run.1 b.tail with
    | fault f => rw [hs] at h; cases h
    | ok g =>
      rw [hs] at h
      simp only [bind_ok, pure_eq] at h
      injection h with h
      subst h
      constructor <;> (simp only []; split <;> rfl)

theorem setRunUnchecked_not_err (m : Mode) (b : RLBuilder) (s l : Nat) (k : ErrKind) :
    b.setRunUnchecked m s l ≠ fault (.err k) := by
  unfold RLBuilder.setRunUnchecked
  split
  · intro h; cases h
  · split
    · exact bind_not_err (addM_not_err m _ _ k) fun _ =>
        bind_not_err (addM_not_err m _ _ k) fun _ =>
        bind_not_err (addM_not_err m _ _ k) fun _ => by intro h; cases h
    · exact bind_not_err (flush_not_err m b k) fun _ =>
        bind_not_err (addM_not_err m _ _ k) fun _ =>
        bind_not_err (addM_not_err m _ _ k) fun _ => by intro h; cases h

/-- **when `try_set` is rejected**: exactly when the run starts before the current length or its end
does not fit a `usize` — in both arithmetic modes and for every builder state. -/
theorem rl_trySet_reject_iff (m : Mode) (b : RLBuilder) (start len : Nat) :
    b.trySet m start len = fault (.err .other) ↔ (start < b.len ∨ U64 - 1 - len < start) := by
  unfold RLBuilder.trySet
  constructor
  · intro h
    by_cases h1 : start < b.len
    · exact Or.inl h1
    · by_cases h2 : U64 - 1 - len < start
      · exact Or.inr h2
      · rw [if_neg h1, if_neg h2] at h
        exact absurd h (setRunUnchecked_not_err m b start len .other)
  · intro h
    by_cases h1 : start < b.len
    · rw [if_pos h1]
    · rw [if_neg h1, if_pos (by omega)]

theorem rl_trySet_accept (m : Mode) (b : RLBuilder) (start len : Nat)
    (h1 : b.len ≤ start) (h2 : start ≤ U64 - 1 - len) :
    b.trySet m start len = b.setRunUnchecked m start len := by
  unfold RLBuilder.trySet
  rw [if_neg (by omega), if_neg (by omega)]

/-- an accepted call with an empty run does nothing -/
theorem rl_trySet_zero (m : Mode) (b : RLBuilder) (start : Nat)
    (h1 : b.len ≤ start) (h2 : start ≤ U64 - 1) : b.trySet m start 0 = ok b := by
  rw [rl_trySet_accept m b start 0 h1 (by omega)]
  unfold RLBuilder.setRunUnchecked; rw [if_pos rfl]

/-- **effect of an accepted call on `len`** (no invariant needed; `len` is a `usize`) -/
theorem rl_trySet_len {m : Mode} {b b' : RLBuilder} {start len : Nat} (hl : 0 < len) (hu : len < U64)
    (h : b.trySet m start len = ok b') : b'.len = start + len ∧ b.len ≤ start := by
  have hacc : ¬ (start < b.len ∨ U64 - 1 - len < start) := by
    rw [← rl_trySet_reject_iff m]; rw [h]; intro h'; cases h'
  have h1 : b.len ≤ start := by omega
  have h2 : start + len < U64 := by omega
  refine ⟨?_, h1⟩
  rw [rl_trySet_accept m b start len h1 (by omega)] at h
  unfold RLBuilder.setRunUnchecked at h
  rw [if_neg (by omega)] at h
  split at h
  · next he =>
    rw [← he, addM_ok h2] at h
    simp only [bind_ok] at h
    cases h2' : addM m b.ones len with
    | fault f => rw [h2'] at h; cases h
    | ok a2 =>
      cases h3 : addM m b.run.2 len with
      | fault f => rw [h2', h3] at h; cases h
      | ok a3 => rw [h2', h3] at h; cases h; rfl
  · cases h0 : b.flush m with
    | fault f => rw [h0] at h; cases h
    | ok b0 =>
      rw [h0] at h; simp only [bind_ok] at h
      rw [addM_ok h2] at h; simp only [bind_ok] at h
      cases h2' : addM m b0.ones len with
      | fault f => rw [h2'] at h; cases h
      | ok a2 => rw [h2'] at h; cases h; rfl

/-- **effect of an accepted call on `ones`** (no invariant: modulo 2^64; see `rl_trySet_spec` for the
exact value under the invariant) -/
theorem rl_trySet_ones {m : Mode} {b b' : RLBuilder} {start len : Nat} (hl : 0 < len)
    (h : b.trySet m start len = ok b') : b'.ones = (b.ones + len) % U64 := by
  have hacc : ¬ (start < b.len ∨ U64 - 1 - len < start) := by
    rw [← rl_trySet_reject_iff m]; rw [h]; intro h'; cases h'
  rw [rl_trySet_accept m b start len (by omega) (by omega)] at h
  unfold RLBuilder.setRunUnchecked at h
  rw [if_neg (by omega)] at h
  split at h
  · cases h1 : addM m b.len len with
    | fault f => rw [h1] at h; cases h
    | ok a1 =>
      cases h2' : addM m b.ones len with
      | fault f => rw [h1, h2'] at h; cases h
      | ok a2 =>
        cases h3 : addM m b.run.2 len with
        | fault f => rw [h1, h2', h3] at h; cases h
        | ok a3 => rw [h1, h2', h3] at h; cases h; exact addM_eq_ok h2'
  · cases h0 : b.flush m with
    | fault f => rw [h0] at h; cases h
    | ok b0 =>
      rw [h0] at h; simp only [bind_ok] at h
      cases h1 : addM m start len with
      | fault f => rw [h1] at h; cases h
      | ok a1 =>
        cases h2' : addM m b0.ones len with
        | fault f => rw [h1, h2'] at h; cases h
        | ok a2 =>
          rw [h1, h2'] at h; cases h
          show a2 = _
          rw [← (flush_len_ones h0).2]; exact addM_eq_ok h2'

/-- **`set_len` never decreases `len`** -/
theorem setLen_len_ge {m : Mode} {b b' : RLBuilder} {n : Nat} (h : b.setLen m n = ok b') :
    b.len ≤ b'.len ∧ b'.len = max b.len n ∧ b'.ones = b.ones := by
  unfold RLBuilder.setLen at h
  split at h
  · next hn =>
    cases h0 : b.flush m with
    | fault f => rw [h0] at h; cases h
    | ok b0 =>
      rw [h0] at h; cases h
      have := flush_len_ones h0
      refine ⟨?_, ?_, this.2⟩
      · show b.len ≤ n; omega
      · show n = max b.len n; omega
  · next hn =>
    cases h
    exact ⟨Nat.le_refl _, by omega, rfl⟩

/-- The builder invariant: the counters are `usize` values, the pending run `run = (start, length)`
ends at `len` (also when it is empty: then it *starts* at `len`, which is what the `start == len`
fast path of `set_run_unchecked` relies on), it starts at or after the encoded prefix `tail`, and its
bits are counted in `ones`. -/
structure RlInv (b : RLBuilder) : Prop where
  len_lt : b.len < U64
  ones_le : b.ones ≤ b.len
  run_le : b.run.2 ≤ b.ones
  run_end : b.run.1 + b.run.2 = b.len
  tail_le : b.tail ≤ b.run.1

theorem rlInv_default : RlInv ({} : RLBuilder) := by
  refine ⟨by decide, ?_, ?_, ?_, ?_⟩ <;> decide

/-- under the invariant `flush` succeeds in both modes, keeps `len`/`ones`, and leaves the empty run
`(len, 0)` -/
theorem flush_spec (m : Mode) {b : RLBuilder} (h : RlInv b) :
    ∃ b', b.flush m = ok b' ∧ b'.len = b.len ∧ b'.ones = b.ones ∧ b'.run = (b.len, 0) ∧
      b'.tail ≤ b.len ∧ RlInv b' := by
  by_cases hr : b.run.2 = 0
  · have he := h.run_end
    have hrun : b.run = (b.len, 0) := by
      rw [hr, Nat.add_zero] at he
      exact Prod.ext he hr
    exact ⟨b, flush_noop m b hr, rfl, rfl, hrun, by have := h.tail_le; omega, h⟩
  · refine ⟨flushResult b, flush_pending m b hr h.tail_le, flushResult_len b, flushResult_ones b,
      flushResult_run b, ?_, ?_⟩
    · rw [flushResult_tail]; exact Nat.le_of_eq h.run_end
    · refine ⟨?_, ?_, ?_, ?_, ?_⟩
      · rw [flushResult_len]; exact h.len_lt
      · rw [flushResult_len, flushResult_ones]; exact h.ones_le
      · rw [flushResult_run]; exact Nat.zero_le _
      · rw [flushResult_run, flushResult_len]; rfl
      · rw [flushResult_run, flushResult_tail]; exact Nat.le_of_eq h.run_end

/-- **accepted `try_set` under the invariant**: never faults (in either arithmetic mode), has the
expected effect on the observables and preserves the invariant. -/
theorem rl_trySet_spec (m : Mode) {b : RLBuilder} (h : RlInv b) (start len : Nat) (hu : len < U64)
    (h1 : b.len ≤ start) (h2 : start ≤ U64 - 1 - len) :
    ∃ b', b.trySet m start len = ok b' ∧ RlInv b' ∧ b'.ones = b.ones + len ∧
      (0 < len → b'.len = start + len ∧ b'.run.1 + b'.run.2 = start + len ∧ len ≤ b'.run.2) ∧
      (len = 0 → b' = b) := by
  rw [rl_trySet_accept m b start len h1 h2]
  by_cases hl : len = 0
  · subst hl
    refine ⟨b, ?_, h, rfl, fun h0 => absurd h0 (Nat.lt_irrefl 0), fun _ => rfl⟩
    unfold RLBuilder.setRunUnchecked; rw [if_pos rfl]
  · have hlen := h.len_lt
    have hones := h.ones_le
    have hrun := h.run_le
    have hend := h.run_end
    have htail := h.tail_le
    have hs : start + len < U64 := by omega
    unfold RLBuilder.setRunUnchecked
    rw [if_neg hl]
    by_cases he : start = b.len
    · rw [if_pos he, ← he, addM_ok hs, addM_ok (by omega), addM_ok (by omega)]
      simp only [bind_ok, pure_eq]
      refine ⟨_, rfl, ⟨?_, ?_, ?_, ?_, ?_⟩, rfl, fun _ => ⟨rfl, ?_, ?_⟩, fun h0 => absurd h0 hl⟩
      · exact hs
      · show b.ones + len ≤ start + len; omega
      · show b.run.2 + len ≤ b.ones + len; omega
      · show b.run.1 + (b.run.2 + len) = start + len; omega
      · exact htail
      · show b.run.1 + (b.run.2 + len) = start + len; omega
      · show len ≤ b.run.2 + len; omega
    · rw [if_neg he]
      obtain ⟨b0, hb0, f1, f2, f3, f4, f5⟩ := flush_spec m h
      rw [hb0]
      simp only [bind_ok]
      rw [addM_ok hs, addM_ok (by omega)]
      simp only [bind_ok, pure_eq]
      refine ⟨_, rfl, ⟨?_, ?_, ?_, ?_, ?_⟩, ?_, fun _ => ⟨rfl, rfl, Nat.le_refl _⟩,
        fun h0 => absurd h0 hl⟩
      · exact hs
      · show b0.ones + len ≤ start + len; omega
      · show len ≤ b0.ones + len; omega
      · rfl
      · show b0.tail ≤ start; omega
      · show b0.ones + len = b.ones + len; omega

/-- `try_set` under the invariant is total: an `Err` (exactly in the two documented cases) or a new
builder — never a panic, in checked and in wrapping arithmetic -/
theorem rl_trySet_total (m : Mode) {b : RLBuilder} (h : RlInv b) (start len : Nat) (hu : len < U64) :
    (b.trySet m start len = fault (.err .other) ∧ (start < b.len ∨ U64 - 1 - len < start)) ∨
    (∃ b', b.trySet m start len = ok b' ∧ RlInv b' ∧ b.len ≤ start ∧ start + len < U64) := by
  by_cases hc : start < b.len ∨ U64 - 1 - len < start
  · exact Or.inl ⟨(rl_trySet_reject_iff m b start len).mpr hc, hc⟩
  · obtain ⟨b', hb, hi, _⟩ := rl_trySet_spec m h start len hu (by omega) (by omega)
    exact Or.inr ⟨b', hb, hi, by omega, by omega⟩

/-! ### F9: `set_len` as first written forgot to move the (empty) pending run

The model keeps the original code as `RLBuilder.setLenOld`; `RLBuilder.setLen` is the repaired
function (it resets the pending run to `(len, 0)`). -/

/-- `set_len` as first written never decreases `len` either -/
theorem setLenOld_len_ge {m : Mode} {b b' : RLBuilder} {n : Nat} (h : b.setLenOld m n = ok b') :
    b.len ≤ b'.len ∧ b'.len = max b.len n ∧ b'.ones = b.ones := by
  unfold RLBuilder.setLenOld at h
  split at h
  · next hn =>
    cases h0 : b.flush m with
    | fault f => rw [h0] at h; cases h
    | ok b0 =>
      rw [h0] at h; cases h
      have := flush_len_ones h0
      refine ⟨?_, ?_, this.2⟩
      · show b.len ≤ n; omega
      · show n = max b.len n; omega
  · next hn =>
    cases h
    exact ⟨Nat.le_refl _, by omega, rfl⟩

/-- the original `set_len` does keep the counter part of the invariant … -/
theorem setLen_weak (m : Mode) {b : RLBuilder} (h : RlInv b) (n : Nat) (hn : n < U64) :
    ∃ b', b.setLenOld m n = ok b' ∧ b'.len = max b.len n ∧ b'.ones = b.ones ∧
      b'.len < U64 ∧ b'.ones ≤ b'.len ∧ b'.run.2 ≤ b'.ones ∧ b'.tail ≤ b'.run.1 ∧
      (b.len < n → b'.run = (b.len, 0)) := by
  unfold RLBuilder.setLenOld
  by_cases hc : n > b.len
  · rw [if_pos hc]
    obtain ⟨b0, hb0, f1, f2, f3, f4, f5⟩ := flush_spec m h
    rw [hb0]
    simp only [bind_ok, pure_eq]
    have := h.ones_le
    refine ⟨_, rfl, ?_, f2, hn, ?_, f5.run_le, f5.tail_le, fun _ => f3⟩
    · show n = max b.len n; omega
    · show b0.ones ≤ n; omega
  · rw [if_neg hc]
    have := h.len_lt
    exact ⟨b, rfl, by omega, rfl, h.len_lt, h.ones_le, h.run_le, h.tail_le, fun h' => absurd h' hc⟩

/-- … but whenever it really extends the vector it breaks `run.1 + run.2 = len`:
the empty pending run stays at the old length. -/
theorem setLen_breaks_inv (m : Mode) {b b' : RLBuilder} (h : RlInv b) (n : Nat) (hn : n < U64)
    (hlt : b.len < n) (hb : b.setLenOld m n = ok b') : ¬ RlInv b' := by
  obtain ⟨b1, hb1, f1, _, _, _, _, _, f7⟩ := setLen_weak m h n hn
  rw [hb] at hb1; cases hb1
  intro hi
  have := hi.run_end
  rw [f7 hlt, f1] at this
  simp at this; omega

/-- F9, concrete witness: after the original `set_len(10)` on a fresh builder, the run `[10, 15)` is
recorded as starting at position 0. -/
theorem f9_witness :
    ∃ b1 b2, ({} : RLBuilder).setLenOld .checked 10 = ok b1 ∧ b1.trySet .checked 10 5 = ok b2 ∧
      b2.run = (0, 5) ∧ b2.len = 15 ∧ b2.ones = 5 ∧ ¬ RlInv b2 := by
  refine ⟨{ len := 10 }, { len := 15, ones := 5, run := (0, 5) }, by decide, by decide, rfl, rfl, rfl, ?_⟩
  intro h; have := h.run_end; revert this; decide

/-- the same in wrapping arithmetic -/
theorem f9_witness_wrapping :
    ∃ b1 b2, ({} : RLBuilder).setLenOld .wrapping 10 = ok b1 ∧ b1.trySet .wrapping 10 5 = ok b2 ∧
      b2.run = (0, 5) ∧ b2.len = 15 := by
  refine ⟨{ len := 10 }, { len := 15, ones := 5, run := (0, 5) }, by decide, by decide, rfl, rfl⟩

/-- the repaired `set_len` differs from the original one only in the pending run -/
theorem setLen_eq_setLenOld (m : Mode) (b : RLBuilder) (n : Nat) :
    b.setLen m n = (do let b' ← b.setLenOld m n
                       return (if n > b.len then { b' with run := (n, 0) } else b')) := by
  unfold RLBuilder.setLen RLBuilder.setLenOld
  by_cases hc : n > b.len
  · simp only [if_pos hc]
    cases b.flush m with
    | ok b0 => rfl
    | fault f => rfl
  · simp only [if_neg hc]; rfl

/-- with the repaired `set_len` (the model's `RLBuilder.setLen`) the same history records the run at
position 10 -/
theorem f9_fixed_witness :
    ∃ b1 b2, ({} : RLBuilder).setLen .checked 10 = ok b1 ∧ b1.trySet .checked 10 5 = ok b2 ∧
      b2.run = (10, 5) ∧ b2.len = 15 ∧ b2.ones = 5 ∧ RlInv b2 := by
  refine ⟨{ len := 10, run := (10, 0) }, { len := 15, ones := 5, run := (10, 5) },
    by decide, by decide, rfl, rfl, rfl, ?_⟩
  refine ⟨by decide, ?_, ?_, ?_, ?_⟩ <;> decide

/-- … in wrapping arithmetic as well -/
theorem f9_fixed_witness_wrapping :
    ∃ b1 b2, ({} : RLBuilder).setLen .wrapping 10 = ok b1 ∧ b1.trySet .wrapping 10 5 = ok b2 ∧
      b2.run = (10, 5) ∧ b2.len = 15 ∧ b2.ones = 5 := by
  refine ⟨{ len := 10, run := (10, 0) }, { len := 15, ones := 5, run := (10, 5) },
    by decide, by decide, rfl, rfl, rfl⟩

/-- the repaired `set_len` preserves the invariant, never faults (in either arithmetic mode), never
decreases `len`, keeps `ones`, and parks the empty pending run at the new length -/
theorem setLenFixed_spec (m : Mode) {b : RLBuilder} (h : RlInv b) (n : Nat) (hn : n < U64) :
    ∃ b', b.setLen m n = ok b' ∧ RlInv b' ∧ b'.len = max b.len n ∧ b'.ones = b.ones ∧
      (b.len < n → b'.run = (n, 0)) := by
  unfold RLBuilder.setLen
  by_cases hc : n > b.len
  · rw [if_pos hc]
    obtain ⟨b0, hb0, f1, f2, f3, f4, f5⟩ := flush_spec m h
    rw [hb0]
    simp only [bind_ok, pure_eq]
    have := h.ones_le
    refine ⟨_, rfl, ⟨hn, ?_, Nat.zero_le _, rfl, ?_⟩, ?_, f2, fun _ => rfl⟩
    · show b0.ones ≤ n; omega
    · show b0.tail ≤ n; omega
    · show n = max b.len n; omega
  · rw [if_neg hc]
    have := h.len_lt
    exact ⟨b, rfl, h, by omega, rfl, fun h' => absurd h' hc⟩

/-- the repaired `set_len` preserves the invariant -/
theorem setLen_inv (m : Mode) {b b' : RLBuilder} (h : RlInv b) (n : Nat) (hn : n < U64)
    (hb : b.setLen m n = ok b') : RlInv b' := by
  obtain ⟨b1, hb1, hi, _⟩ := setLenFixed_spec m h n hn
  rw [hb] at hb1; cases hb1; exact hi

end RL

end Sds.BuildersProofs

/-! ### RLBuilder call histories -/

namespace Sds.BuildersProofs
open Sds Outcome

/-- one builder call under the model's current definitions (`bit i` is `try_set(i, 1)`) -/
def applyCall (m : Mode) (b : RLBuilder) : RL.BCall → Outcome RLBuilder
  | .set start len => b.trySet m start len
  | .setLen n => b.setLen m n
  | .bit i => b.trySet m i 1

/-- the same with `set_len` as first written (F9) -/
def applyCallOld (m : Mode) (b : RLBuilder) : RL.BCall → Outcome RLBuilder
  | .set start len => b.trySet m start len
  | .setLen n => b.setLenOld m n
  | .bit i => b.trySet m i 1

/-- a history of calls by a caller that ignores `Err` results (keeping the old builder); any other
fault (a panic) aborts the history -/
def rlRunWith (ap : RLBuilder → RL.BCall → Outcome RLBuilder) : List RL.BCall → RLBuilder → Outcome RLBuilder
  | [], b => ok b
  | c :: cs, b =>
    match ap b c with
    | ok b' => rlRunWith ap cs b'
    | fault (.err _) => rlRunWith ap cs b
    | fault f => fault f

/-- histories under the model's current definitions -/
def rlRun (m : Mode) : List RL.BCall → RLBuilder → Outcome RLBuilder := rlRunWith (applyCall m)

/-- histories with the original `set_len` -/
def rlRunOld (m : Mode) : List RL.BCall → RLBuilder → Outcome RLBuilder := rlRunWith (applyCallOld m)

theorem rlRun_cons (m : Mode) (c : RL.BCall) (cs : List RL.BCall) (b : RLBuilder) :
    rlRun m (c :: cs) b = (match applyCall m b c with
      | ok b' => rlRun m cs b'
      | fault (.err _) => rlRun m cs b
      | fault f => fault f) := rfl

/-- the arguments are `usize` values -/
def argsOk : RL.BCall → Prop
  | .set _ len => len < U64
  | .setLen n => n < U64
  | .bit _ => True

/-- **histories**: under the model's current definitions (repaired `set_len`) any finite list of
builder calls `try_set` / `set_len` / `set_bit` with `usize` arguments (valid or not) runs to completion
in both arithmetic modes, keeps the invariant, and never shortens the vector or loses ones. -/
theorem rlRun_fixed (m : Mode) : ∀ (cs : List RL.BCall) {b : RLBuilder}, RlInv b →
    (∀ c ∈ cs, argsOk c) →
    ∃ b', rlRun m cs b = ok b' ∧ RlInv b' ∧ b.len ≤ b'.len ∧ b.ones ≤ b'.ones := by
  intro cs
  induction cs with
  | nil => intro b h _; exact ⟨b, rfl, h, Nat.le_refl _, Nat.le_refl _⟩
  | cons c cs ih =>
    intro b h hargs
    have hrest : ∀ c ∈ cs, argsOk c := fun c hc => hargs c (List.mem_cons_of_mem _ hc)
    have hc := hargs c (by simp)
    have hset : ∀ start len, len < U64 →
        (∃ k, b.trySet m start len = fault (.err k)) ∨
        (∃ b1, b.trySet m start len = ok b1 ∧ RlInv b1 ∧ b.len ≤ b1.len ∧ b.ones ≤ b1.ones) := by
      intro start len hl
      rcases rl_trySet_total m h start len hl with ⟨hr, _⟩ | ⟨b1, hb1, hi1, h1, h2⟩
      · exact Or.inl ⟨_, hr⟩
      · right
        obtain ⟨b2, hb2, _, ho, hlen, hz⟩ := rl_trySet_spec m h start len hl h1 (by omega)
        rw [hb1] at hb2; cases hb2
        refine ⟨b1, hb1, hi1, ?_, by omega⟩
        by_cases h0 : len = 0
        · rw [hz h0]; exact Nat.le_refl _
        · have := (hlen (by omega)).1; omega
    have hstep : (∃ k, applyCall m b c = fault (.err k)) ∨
        (∃ b1, applyCall m b c = ok b1 ∧ RlInv b1 ∧ b.len ≤ b1.len ∧ b.ones ≤ b1.ones) := by
      cases c with
      | set start len => exact hset start len hc
      | bit i => exact hset i 1 (by decide)
      | setLen n =>
        right
        obtain ⟨b1, hb1, hi1, hl1, ho1, _⟩ := setLenFixed_spec m h n hc
        exact ⟨b1, hb1, hi1, by omega, by omega⟩
    rcases hstep with ⟨k, hk⟩ | ⟨b1, hb1, hi1, hl1, ho1⟩
    · obtain ⟨b', hb', hi', hl', ho'⟩ := ih h hrest
      refine ⟨b', ?_, hi', hl', ho'⟩
      rw [rlRun_cons, hk]; exact hb'
    · obtain ⟨b', hb', hi', hl', ho'⟩ := ih hi1 hrest
      refine ⟨b', ?_, hi', by omega, by omega⟩
      rw [rlRun_cons, hb1]; exact hb'

/-- the headline statement for a fresh builder -/
theorem rlRun_fixed_default (m : Mode) (cs : List RL.BCall) (hargs : ∀ c ∈ cs, argsOk c) :
    ∃ b', rlRun m cs {} = ok b' ∧ RlInv b' := by
  obtain ⟨b', hb', hi', _⟩ := rlRun_fixed m cs rlInv_default hargs
  exact ⟨b', hb', hi'⟩

/-- with the original `set_len` (`setLenOld`) the same statement is false: a two-call history from the
empty builder leaves the invariant (F9) -/
theorem rlRun_original_breaks :
    ∃ b', rlRunOld .checked [.setLen 10, .set 10 5] {} = ok b' ∧ ¬ RlInv b' ∧ b'.run = (0, 5) := by
  refine ⟨{ len := 15, ones := 5, run := (0, 5) }, by decide, ?_, rfl⟩
  intro h; have := h.run_end; revert this; decide

/-- the same history under the model's current definitions -/
theorem rlRun_fixed_same_history :
    ∃ b', rlRun .checked [.setLen 10, .set 10 5] {} = ok b' ∧ RlInv b' ∧ b'.run = (10, 5) := by
  obtain ⟨b', hb', hi', _⟩ := rlRun_fixed .checked [.setLen 10, .set 10 5] rlInv_default
    (by intro c hc; simp at hc; rcases hc with rfl | rfl <;> (show _ < U64; decide))
  refine ⟨b', hb', hi', ?_⟩
  have : rlRun .checked [.setLen 10, .set 10 5] {} =
      ok { len := 15, ones := 5, run := (10, 5) } := by decide
  rw [this] at hb'; cases hb'; rfl

end Sds.BuildersProofs

/-! ## 3. SparseBuilder: `build` returns the encoding of what was accepted

The content of the builder is tracked along a history: the low parts of the accepted indices are in
`low`, and bit `(p >>> w) + k` of `high` is set for the `k`-th accepted index `p` (and no other bit).
At `build` time this is exactly the relation `Sparse.Encodes` of `Proofs/Sparse`, from which all
query theorems there follow. -/

namespace Sds.BuildersProofs
open Sds Outcome

/-- the content of the builder is the Elias–Fano image of the list `P` of accepted indices -/
structure Content (b : SparseBuilder) (P : List Nat) : Prop where
  len_eq : b.len = P.length
  low_val : ∀ k p, P[k]? = some p → (b.low.getRaw k).toNat = p % 2 ^ b.low.width
  high_bit : ∀ q, b.high.bits[q]? = some true ↔ ∃ j p, P[j]? = some p ∧ q = p >>> b.low.width + j

theorem getElem?_append_singleton (P : List Nat) (i j p : Nat) :
    (P ++ [i])[j]? = some p ↔ (P[j]? = some p ∨ (j = P.length ∧ p = i)) := by
  by_cases hj : j < P.length
  · rw [List.getElem?_append_left hj]
    constructor
    · exact Or.inl
    · rintro (h | ⟨h, _⟩)
      · exact h
      · omega
  · rw [List.getElem?_append_right (by omega)]
    have hn : P[j]? = none := List.getElem?_eq_none (by omega)
    rw [hn]
    by_cases he : j = P.length
    · subst he; simp [eq_comm]
    · have : j - P.length ≠ 0 := by omega
      have h2 : ([i] : List Nat)[j - P.length]? = none := by
        apply List.getElem?_eq_none; simp; omega
      rw [h2]; simp [he]

theorem content_of_new {w univ ones : Nat} {b : SparseBuilder}
    (h : SparseBuilder.new w univ ones = ok b) : Content b [] := by
  unfold SparseBuilder.new at h
  split at h
  · cases h
  · cases hv : IntVec.withLen ones w 0 with
    | fault f => rw [hv] at h; cases h
    | ok v =>
      rw [hv] at h; cases h
      refine ⟨rfl, fun k p e => by simp at e, fun q => ?_⟩
      show (RawVec.withLen _ false).bits[q]? = some true ↔ _
      rw [RawVec.bits_withLen]
      simp [List.getElem?_replicate]

theorem content_of_multiset {w univ ones : Nat} {b : SparseBuilder}
    (h : SparseBuilder.multiset w univ ones = ok b) : Content b [] := by
  unfold SparseBuilder.multiset at h
  cases hv : IntVec.withLen ones w 0 with
  | fault f => rw [hv] at h; cases h
  | ok v =>
    rw [hv] at h; cases h
    refine ⟨rfl, fun k p e => by simp at e, fun q => ?_⟩
    show (RawVec.withLen _ false).bits[q]? = some true ↔ _
    rw [RawVec.bits_withLen]
    simp [List.getElem?_replicate]

/-- an accepted call appends its index to the content -/
theorem content_setResult {b : SparseBuilder} (h : SbInv b) {P : List Nat} (hc : Content b P)
    {i : Nat} (hi : i < b.univ) (hl : b.len < b.capacity) : Content (setResult b i) (P ++ [i]) := by
  have hpos := hi_lt_high_len h hi hl
  have hw64 := h.w64
  refine ⟨by simp [setResult, hc.len_eq], ?_, ?_⟩
  · intro k p e
    show ((⟨b.low.len, b.low.width, b.low.data.setInt (b.len * b.low.width)
      (BitVec.ofNat 64 (i % 2 ^ b.low.width)) b.low.width⟩ : IntVec).getRaw k).toNat =
        p % 2 ^ b.low.width
    rw [IntVec.getRaw_set h.low_wf b.len hl]
    rcases (getElem?_append_singleton P i k p).mp e with e' | ⟨e1, e2⟩
    · have hk : k < P.length := (List.getElem?_eq_some_iff.mp e').1
      rw [if_neg (by rw [hc.len_eq]; omega)]
      exact hc.low_val k p e'
    · rw [if_pos (by rw [hc.len_eq]; exact e1), toNat_and_lowSet _ _ hw64, BitVec.toNat_ofNat, e2]
      have h1 : i % 2 ^ b.low.width < 2 ^ b.low.width := Nat.mod_lt _ (Nat.two_pow_pos _)
      have h2 : 2 ^ b.low.width ≤ 2 ^ 64 := Nat.pow_le_pow_right (by decide) hw64
      rw [Nat.mod_eq_of_lt (show i % 2 ^ b.low.width < 2 ^ 64 by omega), Nat.mod_mod]
  · intro q
    show (b.high.setBit (i >>> b.low.width + b.len) true).bits[q]? = some true ↔
      ∃ j p, (P ++ [i])[j]? = some p ∧ q = p >>> b.low.width + j
    rw [RawVec.bits_setBit h.high_wf _ hpos, List.getElem?_set]
    constructor
    · intro hq
      by_cases he : i >>> b.low.width + b.len = q
      · exact ⟨P.length, i, (getElem?_append_singleton P i _ i).mpr (Or.inr ⟨rfl, rfl⟩),
          by rw [← he, hc.len_eq]⟩
      · rw [if_neg he] at hq
        obtain ⟨j, p, e, rfl⟩ := (hc.high_bit q).mp hq
        exact ⟨j, p, (getElem?_append_singleton P i j p).mpr (Or.inl e), rfl⟩
    · rintro ⟨j, p, e, rfl⟩
      rcases (getElem?_append_singleton P i j p).mp e with e' | ⟨e1, e2⟩
      · by_cases he : i >>> b.low.width + b.len = p >>> b.low.width + j
        · rw [if_pos he, if_pos (by rw [RawVec.bits_length]; exact hpos)]
        · rw [if_neg he]; exact (hc.high_bit _).mpr ⟨j, p, e', rfl⟩
      · subst e1; subst e2
        rw [if_pos (by rw [hc.len_eq]), if_pos (by rw [RawVec.bits_length]; exact hpos)]

/-- the content follows the list-level reference along any history -/
theorem Content.step {cap univ inc : Nat} {b : SparseBuilder} {s : RefState}
    (h : Agrees cap univ inc b s) (hc : Content b s.acc) (i : Nat) :
    Content (step b i) (refStep cap univ inc s i).acc := by
  have hfull : b.isFull = true ↔ ¬ s.acc.length < cap := by
    rw [isFull_iff, ← h.len_eq, ← h.cap_eq]; have := h.inv.len_le; omega
  unfold refStep
  by_cases hcnd : s.acc.length < cap ∧ s.next ≤ i ∧ i < univ
  · rw [if_pos hcnd]
    have hf : b.isFull = false := by
      cases hb : b.isFull
      · rfl
      · exact absurd hcnd.1 (hfull.mp hb)
    have hi : i < b.univ := by rw [h.univ_eq]; exact hcnd.2.2
    rw [step_of_accept (trySet_accept h.inv hf (by rw [h.next_eq]; exact hcnd.2.1) hi)]
    exact content_setResult h.inv hc hi ((not_isFull_iff h.inv).mp hf)
  · rw [if_neg hcnd]
    have : b.isFull = true ∨ i < b.next ∨ i ≥ b.univ := by
      rw [hfull, h.next_eq, h.univ_eq]; omega
    rw [step_of_reject (trySet_reject_of b i this)]
    exact hc

theorem Content.run {cap univ inc : Nat} (calls : List Nat) : ∀ {b : SparseBuilder} {s : RefState},
    Agrees cap univ inc b s → Content b s.acc →
    Content (run b calls) (acceptedFrom cap univ inc s calls).acc := by
  induction calls with
  | nil => intro b s _ hc; exact hc
  | cons i rest ih =>
    intro b s h hc
    exact ih (h.step i) (hc.step h i)

/-- the low width never changes along a history -/
theorem run_width : ∀ (cs : List Nat) {b : SparseBuilder}, SbInv b →
    (run b cs).low.width = b.low.width := by
  intro cs
  induction cs with
  | nil => intro b _; rfl
  | cons i rest ih =>
    intro b hb
    rcases trySet_cases hb i with ⟨hr, _⟩ | ⟨b', hb', _, _, _, _, _, _, hw', hi'⟩
    · show (run (step b i) rest).low.width = _
      rw [step_of_reject hr]; exact ih hb
    · show (run (step b i) rest).low.width = _
      rw [step_of_accept hb', ih hi', hw']

theorem sortedLe_of_pairwise : ∀ (P : List Nat), P.Pairwise (· ≤ ·) → sortedLe P = true
  | [], _ => rfl
  | [_], _ => rfl
  | a :: c :: t, h => by
    have h1 := List.pairwise_cons.mp h
    simp only [sortedLe, Bool.and_eq_true, decide_eq_true_eq]
    exact ⟨h1.1 c (by simp), sortedLe_of_pairwise (c :: t) h1.2⟩

/-- **`build` returns the encoding of the content**: a full builder whose content is the sorted list
`P` of values below the universe builds a sparse vector that `Encodes` `P` — the hypothesis of all
query theorems of `Proofs/Sparse` (get, rank, select, select_zero, predecessor, successor,
iterators). -/
theorem build_encodes {b : SparseBuilder} {P : List Nat} (h : SbInv b) (hc : Content b P)
    (hfull : b.isFull = true) (hw : b.low.width ≤ 63) (hu : b.univ < 2 ^ 64)
    (hm : P.length < 2 ^ 63) (hs : P.Pairwise (· ≤ ·)) (hb : ∀ p ∈ P, p < b.univ) :
    ∃ s, b.build = ok s ∧ s.Encodes b.univ b.low.width P := by
  refine ⟨_, build_ok_of_full b hfull, ?_⟩
  have hcap : b.low.len = P.length := by
    have := (isFull_iff b).mp hfull
    rw [← hc.len_eq, this]; rfl
  have hbk : ∀ p ∈ P, p >>> b.low.width < Sparse.getBuckets b.univ b.low.width :=
    fun p hp => shr_lt_getBuckets hw (hb p hp)
  have hbuckets := getBuckets_le h.w1 hu
  have hhl : b.high.len = P.length + Sparse.getBuckets b.univ b.low.width := by
    rw [h.high_len]; show b.low.len + _ = _; rw [hcap]
  have hlen64 : b.high.len < 2 ^ 64 := by omega
  have hbits : b.high.bits = highBits b.low.width (Sparse.getBuckets b.univ b.low.width) P := by
    apply highBits_unique hs hbk
    · rw [RawVec.bits_length]; exact hhl
    · intro q
      rw [hc.high_bit q]
      constructor
      · rintro ⟨j, p, e, rfl⟩
        obtain ⟨hj, e'⟩ := List.getElem?_eq_some_iff.mp e
        exact ⟨j, hj, by rw [e']⟩
      · rintro ⟨j, hj, rfl⟩
        exact ⟨j, P[j], List.getElem?_eq_getElem hj, rfl⟩
  refine ⟨rfl, h.w1, hw, hu, rfl, hcap, ?_, sortedLe_of_pairwise P hs, hb, hm, hhl, ?_, ?_, ?_⟩
  · intro i hi
    exact hc.low_val i P[i] (List.getElem?_eq_getElem hi)
  · intro i hi
    have hi' : i < b.high.len := hi
    show b.high.bitM i = _
    unfold RawVec.bitM
    rw [if_pos (by rw [h.high_wf.1]; omega), ← hbits, RawVec.bits_getElem?, if_pos hi']
    rfl
  · intro m r
    rw [← hbits]
    exact selectQ_build h.high_wf hlen64 rfl (countOnes_eq _ h.high_wf) rfl m r
  · intro m r
    rw [← hbits]
    exact selectZeroQ_build h.high_wf hlen64 rfl (countOnes_eq _ h.high_wf) rfl m r

/-- **build what was accepted**, for a whole history: `new` / `multiset`, then any list of `try_set`
calls (rejected ones ignored); if the reference accepted `ones` of them, `build` succeeds and the
result encodes exactly the accepted indices; otherwise `build` is an `Err`. -/
theorem history_build (multi : Bool) (w univ ones : Nat) (h1 : 1 ≤ w) (h2 : w ≤ 63)
    (hu : univ < 2 ^ 64) (ho : ones < 2 ^ 63) (hou : multi = false → ones ≤ univ)
    (calls : List Nat) :
    ∃ b, (if multi then SparseBuilder.multiset w univ ones else SparseBuilder.new w univ ones) = ok b ∧
      let P := (accepted ones univ (if multi then 0 else 1) calls).acc
      (P.length = ones → ∃ s, (run b calls).build = ok s ∧ s.Encodes univ w P) ∧
      (P.length ≠ ones → (run b calls).build = fault (.err .other)) := by
  have key : ∀ (inc : Nat) (b : SparseBuilder), SbInv b → b.capacity = ones → b.univ = univ →
      b.low.width = w → b.len = 0 → b.next = 0 → b.increment = inc → Content b [] →
      let P := (accepted ones univ inc calls).acc
      (P.length = ones → ∃ s, (run b calls).build = ok s ∧ s.Encodes univ w P) ∧
      (P.length ≠ ones → (run b calls).build = fault (.err .other)) := by
    intro inc b hinv hc hun hwd hl hn hi hcont
    have ha : Agrees ones univ inc b ⟨[], 0⟩ := ⟨hinv, hl, hn, hc, hun, hi⟩
    have hr := ha.run calls
    have hcr := Content.run calls ha hcont
    have hok : RefOk ones univ inc (acceptedFrom ones univ inc ⟨[], 0⟩ calls) :=
      accepted_ok ones univ inc calls
    have hwr : (run b calls).low.width = w := by rw [run_width calls hinv, hwd]
    refine ⟨fun hfull => ?_, fun hne => (build_after_run ha calls).mpr hne⟩
    change (acceptedFrom ones univ inc ⟨[], 0⟩ calls).acc.length = ones at hfull
    change ∃ s, (run b calls).build = ok s ∧
      s.Encodes univ w (acceptedFrom ones univ inc ⟨[], 0⟩ calls).acc
    have hf : (run b calls).isFull = true := by rw [hr.isFull]; simpa using hfull
    have := build_encodes hr.inv hcr hf (by rw [hwr]; exact h2) (by rw [hr.univ_eq]; exact hu)
      (by rw [hfull]; exact ho) (hok.sorted.imp (fun h => by omega))
      (by rw [hr.univ_eq]; exact hok.bound)
    rw [hr.univ_eq, hwr] at this
    exact this
  cases multi with
  | false =>
    obtain ⟨b, hb, hinv, hc, hun, hwd, hl, hn, hi⟩ :=
      new_ok w univ ones h1 (by omega) (hou rfl) (Or.inl (by omega))
    exact ⟨b, hb, key 1 b hinv hc hun hwd hl hn hi (content_of_new hb)⟩
  | true =>
    obtain ⟨b, hb, hinv, hc, hun, hwd, hl, hn, hi⟩ :=
      multiset_ok w univ ones h1 (by omega) (Or.inl (by omega))
    exact ⟨b, hb, key 0 b hinv hc hun hwd hl hn hi (content_of_multiset hb)⟩

/-- a valid history run through the `?` protocol of `Sparse.ofValues` (stop at the first `Err`) never
stops: it is the same as `run` -/
theorem foldlM_eq_run {cap univ inc : Nat} : ∀ (calls : List Nat) {b : SparseBuilder} {s : RefState},
    Agrees cap univ inc b s → s.acc.length + calls.length ≤ cap → (∀ x ∈ calls, x < univ) →
    calls.Pairwise (fun a c => a + inc ≤ c) → (∀ x ∈ calls, s.next ≤ x) →
    calls.foldlM (fun b v => b.trySet v) b = ok (run b calls) := by
  intro calls
  induction calls with
  | nil => intro b s _ _ _ _ _; rfl
  | cons i rest ih =>
    intro b s h hlen hb hp hn
    have hfull : b.isFull = true ↔ ¬ s.acc.length < cap := by
      rw [isFull_iff, ← h.len_eq, ← h.cap_eq]; have := h.inv.len_le; omega
    have hl : s.acc.length < cap := by simp at hlen; omega
    have hf : b.isFull = false := by
      cases hb' : b.isFull
      · rfl
      · exact absurd hl (hfull.mp hb')
    have hi : i < b.univ := by rw [h.univ_eq]; exact hb i (by simp)
    have hacc := trySet_accept h.inv hf (by rw [h.next_eq]; exact hn i (by simp)) hi
    have hstep : step b i = setResult b i := step_of_accept hacc
    have hs : refStep cap univ inc s i = ⟨s.acc ++ [i], i + inc⟩ := by
      unfold refStep; rw [if_pos ⟨hl, hn i (by simp), hb i (by simp)⟩]
    have hnext := h.step i
    rw [hs] at hnext
    rw [List.foldlM_cons, hacc, bind_ok, ← hstep]
    exact ih hnext (by simp at hlen ⊢; omega) (fun x hx => hb x (List.mem_cons_of_mem _ hx))
      (List.pairwise_cons.mp hp).2 (fun x hx => (List.pairwise_cons.mp hp).1 x hx)

/-- **`Sparse.ofValues` builds the encoding of its argument**: for a sorted list of values below the
universe size (strictly sorted in set mode), with a low width in `1..63`, the builder pipeline
`new`/`multiset` → `try_set`* → `build` succeeds, and the result `Encodes` the list.  This discharges
the hypothesis of every query theorem of `Proofs/Sparse`. -/
theorem ofValues_encodes (w univ : Nat) (multi : Bool) (vals : List Nat) (h1 : 1 ≤ w) (h2 : w ≤ 63)
    (hu : univ < 2 ^ 64) (hm : vals.length < 2 ^ 63) (hb : ∀ x ∈ vals, x < univ)
    (hs : vals.Pairwise (fun a c => a + (if multi then 0 else 1) ≤ c)) :
    ∃ s, Sparse.ofValues w univ multi vals = ok s ∧ s.Encodes univ w vals := by
  have hlen : multi = false → vals.length ≤ univ := by
    intro hmf
    subst hmf
    exact sorted_length_le (hs.imp (fun h => by simp at h; omega)) univ hb
  have key : ∀ (inc : Nat) (b : SparseBuilder), inc = (if multi then 0 else 1) → SbInv b →
      b.capacity = vals.length → b.univ = univ → b.low.width = w → b.len = 0 → b.next = 0 →
      b.increment = inc → Content b [] →
      ∃ s, (do let b ← vals.foldlM (fun b v => b.trySet v) b; b.build) = ok s ∧
        s.Encodes univ w vals := by
    intro inc b hinc hinv hc hun hwd hl hn hi hcont
    have hs' : vals.Pairwise (fun a c => a + inc ≤ c) := by rw [hinc]; exact hs
    have ha : Agrees vals.length univ inc b ⟨[], 0⟩ := ⟨hinv, hl, hn, hc, hun, hi⟩
    rw [foldlM_eq_run vals ha (by simp) hb hs' (fun _ _ => Nat.zero_le _)]
    simp only [bind_ok]
    have hr := ha.run vals
    have hcr := Content.run vals ha hcont
    have hacc := acceptedFrom_valid vals.length univ inc vals ⟨[], 0⟩ (by simp) hb hs'
      (fun _ _ => Nat.zero_le _)
    simp only [List.nil_append] at hacc
    rw [hacc] at hcr
    have hwr : (run b vals).low.width = w := by rw [run_width vals hinv, hwd]
    have hf : (run b vals).isFull = true := by rw [hr.isFull, hacc]; simp
    have := build_encodes hr.inv hcr hf (by rw [hwr]; exact h2) (by rw [hr.univ_eq]; exact hu)
      hm (hs'.imp (fun h => by omega)) (by rw [hr.univ_eq]; exact hb)
    rw [hr.univ_eq, hwr] at this
    exact this
  unfold Sparse.ofValues
  cases multi with
  | false =>
    obtain ⟨b, hb', hinv, hc, hun, hwd, hl, hn, hi⟩ :=
      new_ok w univ vals.length h1 (by omega) (hlen rfl) (Or.inl (by omega))
    simp only [Bool.false_eq_true, if_false, hb', bind_ok]
    exact key 1 b rfl hinv hc hun hwd hl hn hi (content_of_new hb')
  | true =>
    obtain ⟨b, hb', hinv, hc, hun, hwd, hl, hn, hi⟩ :=
      multiset_ok w univ vals.length h1 (by omega) (Or.inl (by omega))
    simp only [if_true, hb', bind_ok]
    exact key 0 b rfl hinv hc hun hwd hl hn hi (content_of_multiset hb')

end Sds.BuildersProofs
