/-
Proofs/GenEqEnable: `supports_*` / `enable_*` of `bit_vector.rs` as TRANSLATED from the source
(Generated/FnsEnable.lean) are equal to the model's `BitVector.enableRank / enableSelect / enableSelectZero`
(Model/BitVector.lean).  `enable_pred_succ` is `enable_rank` followed by `enable_select`.  No hypotheses.
-/
import Sds.Generated.FnsEnable

namespace Sds.GenEq
open Sds Outcome Generated

theorem supports_rank_eq (m : Mode) (b : BitVector) : gen_BitVector_supports_rank m b = ok b.rank.isSome := rfl
theorem supports_select_eq (m : Mode) (b : BitVector) : gen_BitVector_supports_select m b = ok b.select.isSome := rfl
theorem supports_select_zero_eq (m : Mode) (b : BitVector) :
    gen_BitVector_supports_select_zero m b = ok b.selectZero.isSome := rfl
theorem supports_pred_succ_eq (m : Mode) (b : BitVector) :
    gen_BitVector_supports_pred_succ m b = ok (b.rank.isSome && b.select.isSome) := rfl

theorem enable_rank_eq (m : Mode) (b : BitVector) : gen_BitVector_enable_rank m b = ok b.enableRank := by
  obtain ⟨o, d, r, s, z⟩ := b
  cases r <;> rfl

theorem enable_select_eq (m : Mode) (b : BitVector) : gen_BitVector_enable_select m b = ok b.enableSelect := by
  obtain ⟨o, d, r, s, z⟩ := b
  cases s <;> rfl

theorem enable_select_zero_eq (m : Mode) (b : BitVector) :
    gen_BitVector_enable_select_zero m b = ok b.enableSelectZero := by
  obtain ⟨o, d, r, s, z⟩ := b
  cases z <;> rfl

theorem enable_pred_succ_eq (m : Mode) (b : BitVector) :
    gen_BitVector_enable_pred_succ m b = ok b.enableRank.enableSelect := by
  obtain ⟨o, d, r, s, z⟩ := b
  cases r <;> cases s <;> rfl

/-- `enable_pred_succ` is the composition of the two translated functions as well -/
theorem enable_pred_succ_eq_bind (m : Mode) (b : BitVector) :
    gen_BitVector_enable_pred_succ m b = (gen_BitVector_enable_rank m b).bind (gen_BitVector_enable_select m) := by
  rw [enable_pred_succ_eq, enable_rank_eq]
  show _ = gen_BitVector_enable_select m b.enableRank
  rw [enable_select_eq]

/-- afterwards the supports are present -/
theorem supports_rank_enable_rank (m : Mode) (b : BitVector) :
    gen_BitVector_supports_rank m b.enableRank = ok true := by
  obtain ⟨o, d, r, s, z⟩ := b
  cases r <;> rfl

theorem supports_pred_succ_enable (m : Mode) (b : BitVector) :
    gen_BitVector_supports_pred_succ m b.enableRank.enableSelect = ok true := by
  obtain ⟨o, d, r, s, z⟩ := b
  cases r <;> cases s <;> rfl

end Sds.GenEq
