/-
Proofs/Codec2: the codecs of the composite structures (`sparseC`, `wmCoreC`, `wmC`, `rlC m`) are lawful —
loading a serialization followed by anything returns the value and exactly the rest, and every strict prefix
of a serialization is refused with `eof`.
-/
import Sds.Proofs.Codec
import Sds.Proofs.Supports
import Sds.Proofs.Glue2
import Sds.Proofs.RL

namespace Sds.Codec2
open Sds Outcome SupportProofs

/-! ### 1. the sparse vector -/

/-- the serialization invariant of a sparse vector.  The first clause says that `high` already carries the
select and select_zero supports that `load` enables (re-enabling is the identity); it is *necessary* for a
round trip since every loaded value has this form. -/
def sparseWF (s : Sparse) : Prop :=
  s.high.enableSelect.enableSelectZero = s.high ∧ bitVectorWF s.high ∧ intVecWF s.low ∧
  s.low.len = s.high.countOnes ∧ s.high.len = s.low.len + Sparse.getBuckets s.len s.low.width ∧
  s.len < 2 ^ 64

theorem enableSelSelz_idem (h : BitVector) :
    h.enableSelect.enableSelectZero.enableSelect.enableSelectZero = h.enableSelect.enableSelectZero := by
  rcases h with ⟨o, d, r, s, z⟩; cases s <;> cases z <;> rfl

/-- the simpler sufficient form of the first clause -/
theorem sparseWF_of_enabled {s : Sparse} (h : BitVector) (hh : s.high = h.enableSelect.enableSelectZero)
    (h1 : bitVectorWF s.high) (h2 : intVecWF s.low) (h3 : s.low.len = s.high.countOnes)
    (h4 : s.high.len = s.low.len + Sparse.getBuckets s.len s.low.width) (h5 : s.len < 2 ^ 64) :
    sparseWF s :=
  ⟨by rw [hh]; exact enableSelSelz_idem h, h1, h2, h3, h4, h5⟩

theorem sparseC_loads {P} (hP : P (.err .eof)) {s : Sparse} (h : sparseWF s) :
    Loads P sparseC.load (sparseC.ser s) s := by
  obtain ⟨hen, hh, hl, h1, h2, hlen⟩ := h
  refine Loads.cast (s := [BitVec.ofNat 64 s.len] ++ (bitVectorC.ser s.high ++ (intVecC.ser s.low ++ [])))
    ?_ (by simp [sparseC]) rfl
  refine Loads.bind (usizeC_loads hP hlen) ?_
  refine Loads.bind (bitVectorC_loads hP hh) ?_
  refine Loads.bind (intVecC_loads hP hl) ?_
  refine Loads.ite_neg (by rw [hen]; exact fun hne => hne h1) ?_
  refine Loads.ite_neg (by rw [hen]; exact fun hne => hne h2) ?_
  refine Loads.ret' ?_
  rw [hen]

theorem sparseC_lawfulEof : LawfulP IsEof sparseC sparseWF := ⟨fun _ h => sparseC_loads isEof_eof h⟩
theorem sparseC_lawful : Lawful sparseC sparseWF := sparseC_lawfulEof.lawful

/-- whatever `SparseVector::load` returns has the shape required by `sparseWF`: clauses 1, 4 and 5 of `sparseWF`
are necessary for a round trip -/
theorem sparseC_load_shape {es r : Elems} {s : Sparse} (h : sparseC.load es = ok (s, r)) :
    s.high.enableSelect.enableSelectZero = s.high ∧ s.low.len = s.high.countOnes ∧
    s.high.len = s.low.len + Sparse.getBuckets s.len s.low.width := by
  have h' : (do
      let (len, r) ← usizeC.load es
      let (high, r) ← bitVectorC.load r
      let (low, r) ← intVecC.load r
      let high := high.enableSelect.enableSelectZero
      if low.len ≠ high.countOnes then fault (.err .invalid)
      else if high.len ≠ low.len + Sparse.getBuckets len low.width then fault (.err .invalid)
      else return ((⟨len, high, low⟩ : Sparse), r)) = ok (s, r) := h
  obtain ⟨⟨len, r1⟩, _, h'⟩ := Outcome.bind_eq_ok h'
  obtain ⟨⟨high, r2⟩, _, h'⟩ := Outcome.bind_eq_ok h'
  obtain ⟨⟨low, r3⟩, _, h'⟩ := Outcome.bind_eq_ok h'
  dsimp only at h'
  by_cases c1 : low.len ≠ high.enableSelect.enableSelectZero.countOnes
  · rw [if_pos c1] at h'; cases h'
  · rw [if_neg c1] at h'
    by_cases c2 : high.enableSelect.enableSelectZero.len ≠ low.len + Sparse.getBuckets len low.width
    · rw [if_pos c2] at h'; cases h'
    · rw [if_neg c2] at h'
      injection h' with h'
      injection h' with h1 h2
      subst h1
      exact ⟨enableSelSelz_idem high, Decidable.of_not_not c1, Decidable.of_not_not c2⟩

/-- **what the builder returns is serializable** (set and multiset mode), under the size side conditions of
`sparse_load_any_supports`: the high part has fewer than 2^63 bits, the low part fewer than 2^64 -/
theorem ofValues_sparseWF (w n : Nat) (multi : Bool) (P : List Nat) (hw1 : 1 ≤ w) (hw : w ≤ 63)
    (hn : n < 2 ^ 64) (hm : P.length < 2 ^ 63)
    (hsorted : if multi then sortedLe P = true else sortedStrict P = true) (hbound : ∀ p ∈ P, p < n)
    (hhigh : P.length + Sparse.getBuckets n w < 2 ^ 63) (hlow : P.length * w < 2 ^ 64) :
    ∃ s, Sparse.ofValues w n multi P = ok s ∧ s.Encodes n w P ∧ sparseWF s := by
  obtain ⟨s, raw, h1, he, hwf, hrl, hones, hhi, hlwf⟩ := ofValues_shape w n multi P hw1 hw hn hm hsorted hbound
  refine ⟨s, h1, he, ?_⟩
  have hl63 : raw.len < 2 ^ 63 := by omega
  have hs0 := ofRaw_sound hwf hl63
  have hbwf : bitVectorWF s.high := by
    rw [hhi]; exact enableSome_wf false true true hs0 (ofRaw_wf hwf hl63)
  have hiwf : intVecWF s.low := by
    obtain ⟨a, b, c, d⟩ := hlwf
    refine ⟨⟨a, b, c, d⟩, ?_, ?_, ?_⟩
    · rw [he.low_len]; omega
    · omega
    · rw [c, he.low_len, he.width_eq]; exact hlow
  refine sparseWF_of_enabled _ hhi hbwf hiwf ?_ ?_ (by rw [he.len_eq]; exact hn)
  · rw [hhi, he.low_len]; exact hones.symm
  · rw [hhi, he.low_len, he.len_eq, he.width_eq]; exact hrl

theorem ofValues_set_sparseWF {w n : Nat} {P : List Nat} {s : Sparse} (hw1 : 1 ≤ w) (hw : w ≤ 63)
    (hn : n < 2 ^ 64) (hm : P.length < 2 ^ 63) (hsorted : sortedStrict P = true)
    (hbound : ∀ p ∈ P, p < n) (hhigh : P.length + Sparse.getBuckets n w < 2 ^ 63)
    (hlow : P.length * w < 2 ^ 64) (h : Sparse.ofValues w n false P = ok s) : sparseWF s := by
  obtain ⟨s', h1, _, hs⟩ := ofValues_sparseWF w n false P hw1 hw hn hm (by simpa using hsorted) hbound hhigh hlow
  rw [h] at h1; cases h1; exact hs

theorem ofValues_multi_sparseWF {w n : Nat} {P : List Nat} {s : Sparse} (hw1 : 1 ≤ w) (hw : w ≤ 63)
    (hn : n < 2 ^ 64) (hm : P.length < 2 ^ 63) (hsorted : sortedLe P = true)
    (hbound : ∀ p ∈ P, p < n) (hhigh : P.length + Sparse.getBuckets n w < 2 ^ 63)
    (hlow : P.length * w < 2 ^ 64) (h : Sparse.ofValues w n true P = ok s) : sparseWF s := by
  obtain ⟨s', h1, _, hs⟩ := ofValues_sparseWF w n true P hw1 hw hn hm (by simpa using hsorted) hbound hhigh hlow
  rw [h] at h1; cases h1; exact hs

/-! ### 2. the wavelet matrix -/

theorem Loads.congr {α} {P} {L L' : Elems → Outcome (α × Elems)} {s x} (h : ∀ r, L r = L' r)
    (h' : Loads P L' s x) : Loads P L s x := by
  have : L = L' := funext h
  rw [this]; exact h'

/-- a step that reads nothing: a computation that succeeds with `n` -/
theorem Loads.pure_bind {α β} {P} {o : Outcome β} {n : β} {g : β → Elems → Outcome (α × Elems)} {s x}
    (ho : o = ok n) (h : Loads P (g n) s x) : Loads P (fun r => o >>= fun n => g n r) s x := by
  subst ho; exact h

/-- one step of the level loop of `WMCore::load` -/
def lvlStep (acc : Array BitVector × Elems) (_ : Nat) : Outcome (Array BitVector × Elems) := do
  let (b, r) ← bitVectorC.load acc.2
  match acc.1[0]? with
  | some b0 => if b.len ≠ b0.len then fault (.err .invalid) else return (acc.1.push b, r)
  | none => return (acc.1.push b, r)

theorem lvlStep_loads {P} (hP : P (.err .eof)) (acc : Array BitVector) (b : BitVector) (i : Nat) (len0 : Nat)
    (hb : bitVectorWF b) (hlen : b.len = len0) (hacc : ∀ b0, acc[0]? = some b0 → b0.len = len0) :
    Loads P (fun r => lvlStep (acc, r) i) (bitVectorC.ser b) (acc.push b) := by
  refine Loads.cast (s := bitVectorC.ser b ++ []) ?_ (by simp) rfl
  refine Loads.congr (L' := fun r => bitVectorC.load r >>= fun p => match acc[0]? with
    | some b0 => if p.1.len ≠ b0.len then fault (.err .invalid) else pure (acc.push p.1, p.2)
    | none => pure (acc.push p.1, p.2)) (fun r => rfl) ?_
  refine Loads.bind (bitVectorC_loads hP hb) ?_
  show Loads P (fun r => match acc[0]? with
    | some b0 => if b.len ≠ b0.len then fault (.err .invalid) else pure (acc.push b, r)
    | none => pure (acc.push b, r)) [] (acc.push b)
  cases h0 : acc[0]? with
  | none => exact Loads.ret _
  | some b0 =>
    have := hacc b0 h0
    exact Loads.ite_neg (by omega) (Loads.ret _)

theorem push_head_len (acc : Array BitVector) (b : BitVector) (len0 : Nat) (hlen : b.len = len0)
    (hacc : ∀ b0, acc[0]? = some b0 → b0.len = len0) : ∀ b0, (acc.push b)[0]? = some b0 → b0.len = len0 := by
  intro b0 h0
  by_cases hs : acc.size = 0
  · have : acc = #[] := by simpa using hs
    subst this
    simp at h0
    subst h0; exact hlen
  · have : (acc.push b)[0]? = acc[0]? := by
      rw [Array.getElem?_push_lt (by omega), Array.getElem?_eq_getElem (by omega)]
    rw [this] at h0
    exact hacc b0 h0

/-- the level loop reads a concatenation of serialized bitvectors of equal length -/
theorem levels_loads {P} (hP : P (.err .eof)) (len0 : Nat) :
    ∀ (L : List BitVector) (idx : List Nat) (acc : Array BitVector), idx.length = L.length →
    (∀ b, b ∈ L → bitVectorWF b ∧ b.len = len0) → (∀ b0, acc[0]? = some b0 → b0.len = len0) →
    Loads P (fun r => idx.foldlM lvlStep (acc, r)) (L.flatMap bitVectorC.ser) (acc ++ L.toArray) := by
  intro L
  induction L with
  | nil =>
    intro idx acc hl _ _
    have : idx = [] := List.eq_nil_of_length_eq_zero (by simpa using hl)
    subst this
    exact Loads.cast (Loads.ret acc) (by simp) (by simp)
  | cons b L ih =>
    intro idx acc hl hL hacc
    cases idx with
    | nil => simp at hl
    | cons i idx =>
      have hb := hL b (by simp)
      refine Loads.congr (fun r => List.foldlM_cons) ?_
      refine Loads.cast (s := bitVectorC.ser b ++ L.flatMap bitVectorC.ser) (x := acc.push b ++ L.toArray)
        ?_ (by simp) ?_
      · exact Loads.bind (lvlStep_loads hP acc b i len0 hb.1 hb.2 hacc)
          (ih idx (acc.push b) (by simpa using hl) (fun b' hb' => hL b' (by simp [hb']))
            (push_head_len acc b len0 hb.2 hacc))
      · simp

/-- the serialization invariant of the core of a wavelet matrix: between 1 and 64 levels, each a serializable
bitvector that already carries all three supports (so that `init_support` on load is the identity), all of the
same length -/
def wmCoreWF (c : WMCore) : Prop :=
  1 ≤ c.width ∧ c.width ≤ 64 ∧ (∀ b, b ∈ c.levels.toList → bitVectorWF b ∧ b.enableAll = b) ∧
  (∀ b b', b ∈ c.levels.toList → b' ∈ c.levels.toList → b.len = b'.len)

theorem wmCoreWF_len {c : WMCore} (h : wmCoreWF c) : ∃ n, c.len = ok n ∧ ∀ b, b ∈ c.levels.toList → b.len = n := by
  obtain ⟨h1, _, _, heq⟩ := h
  rcases c with ⟨lv⟩
  rcases lv with ⟨l⟩
  cases l with
  | nil => simp [WMCore.width] at h1
  | cons b0 l =>
    refine ⟨b0.len, by simp [WMCore.len], fun b hb => heq b b0 hb (by simp)⟩

theorem wmCoreC_load_eq (es : Elems) : wmCoreC.load es = (do
    let (width, r) ← usizeC.load es
    if width = 0 ∨ width > 64 then fault (.err .invalid) else do
    let (levels, r) ← (List.range width).foldlM lvlStep (#[], r)
    return (WMCore.initSupport ⟨levels⟩, r)) := rfl

theorem wmCoreC_loads {P} (hP : P (.err .eof)) {c : WMCore} (h : wmCoreWF c) :
    Loads P wmCoreC.load (wmCoreC.ser c) c := by
  obtain ⟨n, _, hn⟩ := wmCoreWF_len h
  obtain ⟨h1, h64, hlv, _⟩ := h
  refine Loads.congr wmCoreC_load_eq ?_
  refine Loads.cast (s := [BitVec.ofNat 64 c.width] ++ (c.levels.toList.flatMap bitVectorC.ser ++ []))
    ?_ (by simp [wmCoreC]) rfl
  refine Loads.bind (usizeC_loads hP (by omega)) ?_
  refine Loads.ite_neg (by omega) ?_
  refine Loads.bind (levels_loads hP n c.levels.toList (List.range c.width) #[] (by simp [WMCore.width])
    (fun b hb => ⟨(hlv b hb).1, hn b hb⟩) (by simp)) ?_
  refine Loads.ret' ?_
  rcases c with ⟨lv⟩
  simp only [WMCore.initSupport, Array.toArray_toList, Array.empty_append]
  congr 1
  apply Array.ext'
  rw [Array.toList_map]
  calc lv.toList.map BitVector.enableAll = lv.toList.map id :=
        List.map_congr_left (fun b hb => (hlv b hb).2)
    _ = lv.toList := List.map_id _

theorem wmCoreC_lawfulEof : LawfulP IsEof wmCoreC wmCoreWF := ⟨fun _ h => wmCoreC_loads isEof_eof h⟩
theorem wmCoreC_lawful : Lawful wmCoreC wmCoreWF := wmCoreC_lawfulEof.lawful

/-- whatever `WMCore::load` returns carries all supports on every level -/
theorem wmCoreC_load_shape {es r : Elems} {c : WMCore} (h : wmCoreC.load es = ok (c, r)) :
    ∀ b, b ∈ c.levels.toList → b.enableAll = b := by
  rw [wmCoreC_load_eq] at h
  obtain ⟨⟨width, r1⟩, _, h⟩ := Outcome.bind_eq_ok h
  dsimp only at h
  by_cases c1 : width = 0 ∨ width > 64
  · rw [if_pos c1] at h; cases h
  · rw [if_neg c1] at h
    obtain ⟨⟨levels, r2⟩, _, h⟩ := Outcome.bind_eq_ok h
    injection h with h
    injection h with h1 h2
    subst h1
    intro b hb
    simp only [WMCore.initSupport, Array.toList_map, List.mem_map] at hb
    obtain ⟨b0, _, rfl⟩ := hb
    exact enableAll_idem b0

/-- the serialization invariant of a wavelet matrix -/
def wmWF (w : WM) : Prop :=
  wmCoreWF w.data ∧ w.data.len = ok w.len ∧ w.len < 2 ^ 64 ∧ intVecWF w.first

theorem wmC_loads {P} (hP : P (.err .eof)) {w : WM} (h : wmWF w) : Loads P wmC.load (wmC.ser w) w := by
  obtain ⟨hc, hl, hlen, hf⟩ := h
  refine Loads.cast (s := [BitVec.ofNat 64 w.len] ++ (wmCoreC.ser w.data ++ (intVecC.ser w.first ++ [])))
    ?_ (by simp [wmC]) rfl
  refine Loads.bind (usizeC_loads hP hlen) ?_
  refine Loads.bind (wmCoreC_loads hP hc) ?_
  refine Loads.pure_bind hl ?_
  refine Loads.ite_neg (fun hne => hne rfl) ?_
  refine Loads.bind (intVecC_loads hP hf) ?_
  exact Loads.ret' rfl

theorem wmC_lawfulEof : LawfulP IsEof wmC wmWF := ⟨fun _ h => wmC_loads isEof_eof h⟩
theorem wmC_lawful : Lawful wmC wmWF := wmC_lawfulEof.lawful

/-- the levels of a built core -/
theorem ofValues_levels (V : List Nat) : (WMCore.ofValues V).levels.toList =
    (List.range (widthOf V)).map fun l =>
      enableSome true true true (BitVector.ofRaw (RawVec.ofBits (col (widthOf V) V l))) := by
  rw [ofValues_eq]; rfl

/-- **the core built by `WaveletMatrix::from` is serializable** -/
theorem ofValues_wmCoreWF (V : List Nat) (hlen : V.length < 2 ^ 63) : wmCoreWF (WMCore.ofValues V) := by
  have hw : (WMCore.ofValues V).width = widthOf V := by
    unfold WMCore.width; rw [← Array.length_toList, ofValues_levels]; simp
  have hl := wm_levels_wf V hlen (fun _ => (true, true, true))
  refine ⟨by rw [hw]; exact widthOf_pos V, by rw [hw]; exact widthOf_le V, ?_, ?_⟩
  · intro b hb
    rw [ofValues_levels] at hb
    refine ⟨(hl b hb).1, ?_⟩
    obtain ⟨l, _, rfl⟩ := List.mem_map.mp hb
    exact enableAll_idem (BitVector.ofRaw (RawVec.ofBits (col (widthOf V) V l)))
  · intro b b' hb hb'
    rw [ofValues_levels] at hb hb'
    rw [(hl b hb).2, (hl b' hb').2]

/-- **the wavelet matrix built by `WaveletMatrix::from` is serializable**, under the side conditions of
`wm_roundtrip` -/
theorem ofValues_wmWF (V : List Nat) (hV : ∀ v, v ∈ V → v < 2 ^ 64) (hlen : V.length < 2 ^ 63)
    (hfirst : (V.foldl max 0 + 1) * 64 < 2 ^ 64) : wmWF (WM.ofValues V) := by
  have hc := ofValues_wmCoreWF V hlen
  refine ⟨hc, ?_, ?_, wm_first_wf V hV hfirst⟩
  · obtain ⟨n, h1, h2⟩ := wmCoreWF_len hc
    show (WMCore.ofValues V).len = ok V.length
    rw [h1]
    have hl := wm_levels_wf V hlen (fun _ => (true, true, true))
    have hpos := widthOf_pos V
    have hmem : enableSome true true true (BitVector.ofRaw (RawVec.ofBits (col (widthOf V) V 0))) ∈
        (WMCore.ofValues V).levels.toList := by
      rw [ofValues_levels]
      exact List.mem_map.mpr ⟨0, List.mem_range.mpr (by omega), rfl⟩
    rw [← h2 _ hmem, (hl _ (by rw [← ofValues_levels]; exact hmem)).2]
  · show V.length < 2 ^ 64
    omega

/-! ### 3. the run-length encoded vector -/

instance : LawfulMonad Outcome := LawfulMonad.mk'
  (id_map := fun x => by cases x <;> rfl)
  (pure_bind := fun _ _ => rfl)
  (bind_assoc := fun x _ _ => by cases x <;> rfl)

theorem mapM_ok_of {α β} (f : α → Outcome β) (g : α → β) : ∀ (l : List α), (∀ x, x ∈ l → f x = ok (g x)) →
    l.mapM f = ok (l.map g) := by
  intro l
  induction l with
  | nil => intro _; rfl
  | cons a l ih =>
    intro h
    rw [List.mapM_cons, h a (by simp), ih (fun x hx => h x (by simp [hx]))]
    rfl

/-- the three sample columns as `RLVector::load` reads them back from the stored `samples` vector
(`sb` = number of blocks): bits before the block, ones before the block, zeros before the block -/
def bitsColQ (s : IntVec) (sb : Nat) : Outcome (List Nat) :=
  (List.range sb).mapM (fun b => do let x ← s.get (2 * b + 1); return x.toNat)
def onesColQ (s : IntVec) (sb : Nat) : Outcome (List Nat) :=
  (List.range sb).mapM (fun b => do let x ← s.get (2 * b); return x.toNat)
def zerosColQ (m : Mode) (s : IntVec) (sb : Nat) : Outcome (List Nat) :=
  (List.range sb).mapM (fun b => do
    let a ← s.get (2 * b + 1); let c ← s.get (2 * b); subM m a.toNat c.toNat)

/-- the same columns as plain lists -/
def bitsCol (s : IntVec) : List Nat := (List.range (s.len / 2)).map fun b => (s.getRaw (2 * b + 1)).toNat
def onesCol (s : IntVec) : List Nat := (List.range (s.len / 2)).map fun b => (s.getRaw (2 * b)).toNat
def zerosCol (s : IntVec) : List Nat :=
  (List.range (s.len / 2)).map fun b => (s.getRaw (2 * b + 1)).toNat - (s.getRaw (2 * b)).toNat

/-- all reads of the columns are in range: `2 * b + 1 < 2 * (len / 2) ≤ len` -/
theorem bitsColQ_eq (s : IntVec) : bitsColQ s (s.len / 2) = ok (bitsCol s) := by
  refine mapM_ok_of _ _ _ (fun b hb => ?_)
  have hb' := List.mem_range.mp hb
  rw [IntVec.get_ok_rl (by omega)]; rfl

theorem onesColQ_eq (s : IntVec) : onesColQ s (s.len / 2) = ok (onesCol s) := by
  refine mapM_ok_of _ _ _ (fun b hb => ?_)
  have hb' := List.mem_range.mp hb
  rw [IntVec.get_ok_rl (by omega)]; rfl

theorem zerosColQ_eq (m : Mode) (s : IntVec)
    (hle : ∀ b, b < s.len / 2 → (s.getRaw (2 * b)).toNat ≤ (s.getRaw (2 * b + 1)).toNat) :
    zerosColQ m s (s.len / 2) = ok (zerosCol s) := by
  refine mapM_ok_of _ _ _ (fun b hb => ?_)
  have hb' := List.mem_range.mp hb
  rw [IntVec.get_ok_rl (by omega), IntVec.get_ok_rl (by omega)]
  exact subM_ok (hle b hb')

theorem rlC_load_eq (m : Mode) (es : Elems) : (rlC m).load es = (do
    let (len, r) ← usizeC.load es
    let (ones, r) ← usizeC.load r
    let (samples, r) ← intVecC.load r
    let (data, r) ← intVecC.load r
    if samples.len / 2 ≠ (data.len + 63) / 64 then fault (.err .invalid) else do
    let bitsCol ← bitsColQ samples (samples.len / 2)
    let onesCol ← onesColQ samples (samples.len / 2)
    let zerosCol ← zerosColQ m samples (samples.len / 2)
    let ri ← SampleIndex.new m bitsCol len
    let si ← SampleIndex.new m onesCol ones
    let z ← subM m len ones
    let zi ← SampleIndex.new m zerosCol z
    return (⟨len, ones, ri, si, zi, samples, data⟩, r)) := rfl

/-- the serialization invariant of a run-length encoded vector, general form.  The three sample indexes are not
stored: `load` rebuilds them from the stored samples, so a round trip needs the indexes of the value to be
exactly what `SampleIndex::new` returns on the three columns read back from `samples` (the zero column and the
zero count are computed with the mode's subtraction).  This form is necessary and sufficient for
`load (ser v ++ r) = ok (v, r)` given that the two integer vectors are serializable. -/
def rlWFg (m : Mode) (v : RL) : Prop :=
  intVecWF v.samples ∧ intVecWF v.data ∧ v.samples.len / 2 = (v.data.len + 63) / 64 ∧
  v.len < 2 ^ 64 ∧ v.ones < 2 ^ 64 ∧
  SampleIndex.new m (bitsCol v.samples) v.len = ok v.rankIndex ∧
  SampleIndex.new m (onesCol v.samples) v.ones = ok v.selectIndex ∧
  ∃ Z z, zerosColQ m v.samples (v.samples.len / 2) = ok Z ∧ subM m v.len v.ones = ok z ∧
    SampleIndex.new m Z z = ok v.selectZeroIndex

/-- the serialization invariant of a run-length encoded vector: no subtraction wraps (`ones ≤ len`, and at
every block start the ones so far are at most the bits so far), and the three indexes are what
`SampleIndex::new` builds from the stored samples -/
def rlWF (m : Mode) (v : RL) : Prop :=
  intVecWF v.samples ∧ intVecWF v.data ∧ v.samples.len / 2 = (v.data.len + 63) / 64 ∧
  v.len < 2 ^ 64 ∧ v.ones < 2 ^ 64 ∧ v.ones ≤ v.len ∧
  (∀ b, b < v.samples.len / 2 → (v.samples.getRaw (2 * b)).toNat ≤ (v.samples.getRaw (2 * b + 1)).toNat) ∧
  SampleIndex.new m (bitsCol v.samples) v.len = ok v.rankIndex ∧
  SampleIndex.new m (onesCol v.samples) v.ones = ok v.selectIndex ∧
  SampleIndex.new m (zerosCol v.samples) (v.len - v.ones) = ok v.selectZeroIndex

theorem rlWF.general {m : Mode} {v : RL} (h : rlWF m v) : rlWFg m v := by
  obtain ⟨h1, h2, h3, h4, h5, h6, h7, h8, h9, h10⟩ := h
  exact ⟨h1, h2, h3, h4, h5, h8, h9, _, _, zerosColQ_eq m _ h7, subM_ok h6, h10⟩

theorem rlC_loads_g {P} (hP : P (.err .eof)) (m : Mode) {v : RL} (h : rlWFg m v) :
    Loads P (rlC m).load ((rlC m).ser v) v := by
  obtain ⟨hs, hd, hsb, hlen, hones, hri, hsi, Z, z, hZ, hz, hzi⟩ := h
  refine Loads.congr (rlC_load_eq m) ?_
  refine Loads.cast (s := [BitVec.ofNat 64 v.len] ++ ([BitVec.ofNat 64 v.ones] ++
    (intVecC.ser v.samples ++ (intVecC.ser v.data ++ [])))) ?_ (by simp [rlC]) rfl
  refine Loads.bind (usizeC_loads hP hlen) ?_
  refine Loads.bind (usizeC_loads hP hones) ?_
  refine Loads.bind (intVecC_loads hP hs) ?_
  refine Loads.bind (intVecC_loads hP hd) ?_
  refine Loads.ite_neg (fun hne => hne hsb) ?_
  refine Loads.pure_bind (bitsColQ_eq v.samples) ?_
  refine Loads.pure_bind (onesColQ_eq v.samples) ?_
  refine Loads.pure_bind hZ ?_
  refine Loads.pure_bind hri ?_
  refine Loads.pure_bind hsi ?_
  refine Loads.pure_bind hz ?_
  refine Loads.pure_bind hzi ?_
  exact Loads.ret' rfl

theorem rlC_loads {P} (hP : P (.err .eof)) (m : Mode) {v : RL} (h : rlWF m v) :
    Loads P (rlC m).load ((rlC m).ser v) v := rlC_loads_g hP m h.general

theorem rlC_lawfulEof_g (m : Mode) : LawfulP IsEof (rlC m) (rlWFg m) := ⟨fun _ h => rlC_loads_g isEof_eof m h⟩
theorem rlC_lawfulEof (m : Mode) : LawfulP IsEof (rlC m) (rlWF m) := ⟨fun _ h => rlC_loads isEof_eof m h⟩
theorem rlC_lawful_g (m : Mode) : Lawful (rlC m) (rlWFg m) := (rlC_lawfulEof_g m).lawful
theorem rlC_lawful (m : Mode) : Lawful (rlC m) (rlWF m) := (rlC_lawfulEof m).lawful

/-- `rlWFg` is also necessary: a vector whose integer vectors and counters are serializable round-trips only if
it satisfies `rlWFg` -/
theorem rlWFg_of_roundtrip (m : Mode) {v : RL} {r : Elems} (hs : intVecWF v.samples) (hd : intVecWF v.data)
    (hlen : v.len < 2 ^ 64) (hones : v.ones < 2 ^ 64)
    (h : (rlC m).load ((rlC m).ser v ++ r) = ok (v, r)) : rlWFg m v := by
  rw [rlC_load_eq] at h
  have e : (rlC m).ser v ++ r = [BitVec.ofNat 64 v.len] ++ ([BitVec.ofNat 64 v.ones] ++
      (intVecC.ser v.samples ++ (intVecC.ser v.data ++ r))) := by simp [rlC]
  rw [e, (usizeC_loads isEof_eof hlen).1, bind_ok] at h
  dsimp only at h
  rw [(usizeC_loads isEof_eof hones).1, bind_ok] at h
  dsimp only at h
  rw [(intVecC_loads isEof_eof hs).1, bind_ok] at h
  dsimp only at h
  rw [(intVecC_loads isEof_eof hd).1, bind_ok] at h
  dsimp only at h
  by_cases c : v.samples.len / 2 ≠ (v.data.len + 63) / 64
  · rw [if_pos c] at h; cases h
  · rw [if_neg c, bitsColQ_eq, bind_ok, onesColQ_eq, bind_ok] at h
    obtain ⟨Z, hZ, h⟩ := Outcome.bind_eq_ok h
    obtain ⟨ri, hri, h⟩ := Outcome.bind_eq_ok h
    obtain ⟨si, hsi, h⟩ := Outcome.bind_eq_ok h
    obtain ⟨z, hz, h⟩ := Outcome.bind_eq_ok h
    obtain ⟨zi, hzi, h⟩ := Outcome.bind_eq_ok h
    injection h with h
    injection h with h1 h2
    have e1 : ri = v.rankIndex := by rw [← h1]
    have e2 : si = v.selectIndex := by rw [← h1]
    have e3 : zi = v.selectZeroIndex := by rw [← h1]
    subst e1; subst e2; subst e3
    exact ⟨hs, hd, Decidable.of_not_not c, hlen, hones, hri, hsi, Z, z, hZ, hz, hzi⟩

/-! ### 3b. what `From<RLBuilder>` produces is serializable -/

section FromBuilder
open RL RunIter RLBuilder

theorem range_map_eq {α β} (sl : List α) (f : Nat → β) (g : α → β)
    (h : ∀ j (hj : j < sl.length), f j = g sl[j]) : (List.range sl.length).map f = sl.map g := by
  apply List.ext_getElem
  · simp
  · intro i h1 h2
    simp only [List.getElem_map, List.getElem_range]
    exact h i (by simpa using h2)

/-- the samples vector written by `From<RLBuilder>` reads back the builder's sample columns, provided every
entry fits the chosen width -/
theorem samples_cols {sl : List (Nat × Nat)} {w : Nat} (h1 : 1 ≤ w) (h2 : w ≤ 64)
    (hfit : ∀ p, p ∈ sl → p.1 < 2 ^ w ∧ p.2 < 2 ^ w) :
    let s := sl.foldl (fun s p => (s.push (BitVec.ofNat 64 p.1)).push (BitVec.ofNat 64 p.2))
      (⟨0, w, RawVec.empty⟩ : IntVec)
    s.WF ∧ s.width = w ∧ s.len = 2 * sl.length ∧
    (∀ j (hj : j < sl.length),
      (s.getRaw (2 * j)).toNat = sl[j].1 ∧ (s.getRaw (2 * j + 1)).toNat = sl[j].2) ∧
    bitsCol s = sl.map (·.2) ∧ onesCol s = sl.map (·.1) ∧ zerosCol s = sl.map (fun p => p.2 - p.1) := by
  have h0 : (⟨0, w, RawVec.empty⟩ : IntVec).WF := ⟨h1, h2, by simp [RawVec.empty], RawVec.empty_WF⟩
  obtain ⟨a, b, c, e⟩ := IntVec.push2_spec sl h0
  intro s
  have c' : s.len = 2 * sl.length := by rw [c]; simp
  have he : s.items = IntVec.pairsFlat w sl := by rw [e]; simp [IntVec.items]
  have hpw : 2 ^ w ≤ 2 ^ 64 := Nat.pow_le_pow_right (by omega) h2
  have hrd : ∀ j (hj : j < sl.length),
      (s.getRaw (2 * j)).toNat = sl[j].1 ∧ (s.getRaw (2 * j + 1)).toNat = sl[j].2 := by
    intro j hj
    obtain ⟨f1, f2⟩ := hfit _ (List.getElem_mem hj)
    have hl0 : 2 * j < s.items.length := by rw [IntVec.items_length_rl]; omega
    have hl1 : 2 * j + 1 < s.items.length := by rw [IntVec.items_length_rl]; omega
    obtain ⟨p0, p1⟩ := IntVec.pairsFlat_getElem? w sl j hj
    rw [← he, List.getElem?_eq_getElem hl0] at p0
    rw [← he, List.getElem?_eq_getElem hl1] at p1
    injection p0 with p0
    injection p1 with p1
    rw [← IntVec.items_getElem_rl s _ hl0, ← IntVec.items_getElem_rl s _ hl1, p0, p1,
      BitVec.toNat_ofNat, BitVec.toNat_ofNat,
      Nat.mod_eq_of_lt (show sl[j].1 < 2 ^ 64 by omega), Nat.mod_eq_of_lt (show sl[j].2 < 2 ^ 64 by omega),
      Nat.mod_eq_of_lt f1, Nat.mod_eq_of_lt f2]
    exact ⟨rfl, rfl⟩
  have hl2 : s.len / 2 = sl.length := by omega
  refine ⟨a, b, c', hrd, ?_, ?_, ?_⟩
  · unfold bitsCol; rw [hl2]; exact range_map_eq sl _ _ (fun j hj => (hrd j hj).2)
  · unfold onesCol; rw [hl2]; exact range_map_eq sl _ _ (fun j hj => (hrd j hj).1)
  · unfold zerosCol; rw [hl2]
    exact range_map_eq sl _ _ (fun j hj => by rw [(hrd j hj).1, (hrd j hj).2])

/-- everything `From<RLBuilder>` computes, whenever it succeeds -/
theorem ofBuilder_parts (m : Mode) {b : RLBuilder} {v : RL} (h : ofBuilder m b = ok v) :
    ∃ b' w zs zeros, b.flush m = ok b' ∧ v.len = b'.len ∧ v.ones = b'.ones ∧ v.data = b'.data ∧
      1 ≤ w ∧ w ≤ 64 ∧
      w = bitLen (BitVec.ofNat 64 ((b'.samples.toList.getLast?.map (·.2)).getD 0)) ∧
      v.samples = b'.samples.toList.foldl
        (fun s p => (s.push (BitVec.ofNat 64 p.1)).push (BitVec.ofNat 64 p.2)) ⟨0, w, RawVec.empty⟩ ∧
      SampleIndex.new m (b'.samples.toList.map (·.2)) b'.len = ok v.rankIndex ∧
      SampleIndex.new m (b'.samples.toList.map (·.1)) b'.ones = ok v.selectIndex ∧
      subM m b'.len b'.ones = ok zeros ∧
      b'.samples.toList.mapM (fun p => subM m p.2 p.1) = ok zs ∧
      SampleIndex.new m zs zeros = ok v.selectZeroIndex := by
  unfold ofBuilder at h
  obtain ⟨b', hb', h⟩ := Outcome.bind_eq_ok h
  obtain ⟨ri, hri, h⟩ := Outcome.bind_eq_ok h
  obtain ⟨si, hsi, h⟩ := Outcome.bind_eq_ok h
  obtain ⟨zeros, hz, h⟩ := Outcome.bind_eq_ok h
  obtain ⟨zs, hzs, h⟩ := Outcome.bind_eq_ok h
  obtain ⟨zi, hzi, h⟩ := Outcome.bind_eq_ok h
  obtain ⟨smp0, h0, h⟩ := Outcome.bind_eq_ok h
  unfold IntVec.withCapacity IntVec.new at h0
  cases hgl : b'.samples.toList.getLast? with
  | none =>
    simp only [hgl] at h0 h
    by_cases hw : bitLen (BitVec.ofNat 64 0) = 0 ∨ bitLen (BitVec.ofNat 64 0) > 64
    · rw [if_pos hw] at h0; cases h0
    · rw [if_neg hw] at h0
      injection h0 with h0; subst h0
      injection h with h; subst h
      exact ⟨b', _, zs, zeros, hb', rfl, rfl, rfl, by omega, by omega, by rw [hgl]; rfl, rfl, hri, hsi, hz, hzs, hzi⟩
  | some p =>
    simp only [hgl] at h0 h
    by_cases hw : bitLen (BitVec.ofNat 64 p.2) = 0 ∨ bitLen (BitVec.ofNat 64 p.2) > 64
    · rw [if_pos hw] at h0; cases h0
    · rw [if_neg hw] at h0
      injection h0 with h0; subst h0
      injection h with h; subst h
      exact ⟨b', _, zs, zeros, hb', rfl, rfl, rfl, by omega, by omega, by rw [hgl]; rfl, rfl, hri, hsi, hz, hzs, hzi⟩

/-- **what `From<RLBuilder>` produces is serializable**: for a builder satisfying the representation invariant
`Inv` and the data-level invariant `DInv` (both hold after any accepted sequence of calls, see `runCalls_abs`),
whenever the conversion succeeds the vector satisfies `rlWF` — the stored samples read back the builder's
sample columns, so the three indexes are exactly what `load` rebuilds.  `hsize` says that the two integer
vectors fit a `usize`-addressed file (256 data bits and 2 samples of at most 64 bits per block). -/
theorem ofBuilder_rlWF (m : Mode) {b : RLBuilder} {v : RL} {done : List (List (Nat × Nat))}
    {cur : List (Nat × Nat)} (hi : b.Inv) (hd : DInv b done cur) (h : ofBuilder m b = ok v)
    (hsize : 128 * v.samples.len < 2 ^ 64) : rlWF m v := by
  obtain ⟨b', w, zs, zeros, e', f1, f2, f3, w1, w2, wdef, f4, hri, hsi, hz, hzs, hzi⟩ := ofBuilder_parts m h
  obtain ⟨b1, done', cur', e, hd1, l1, l2, l3, hfl⟩ := flush_dinv m hi hd
  rw [e] at e'; injection e' with e'; subst e'
  have hi1 := flush_inv m hi e
  obtain ⟨d1, d2, d3, d4, d5, d6, d7, d8, d9, d10⟩ := hd1
  have hslen : b1.samples.toList.length = b1.samples.size := Array.length_toList
  have hent : ∀ j (hj : j < b1.samples.toList.length),
      b1.samples.toList[j] = (lens (done'.take j).flatten, span (done'.take j).flatten) := by
    intro j hj; rw [Array.getElem_toList, d8 j (by omega)]
  have hlt := hi1.len_lt
  have htl := hi1.tail_le
  have hre := hi1.run_end
  have hol := hi1.ones_le
  have hspan : span done'.flatten < 2 ^ 64 := by rw [← U64_eq]; omega
  -- the number of blocks
  have hblocks : b1.samples.size = (b1.data.len + 63) / 64 ∧
      ∀ j, j < b1.samples.size → j ≤ done'.length ∧
        (b1.samples.toList.getLast?.map (·.2)).getD 0 = span done'.flatten := by
    by_cases hcur : cur' = []
    · have hdn := d3 hcur
      subst hcur; subst hdn
      simp only [if_true, List.length_nil, Nat.add_zero] at d4
      refine ⟨by rw [d4, d7]; simp [unitsOf], fun j hj => by omega⟩
    · rw [if_neg hcur] at d4
      have hu1 := unitsOf_length_pos hcur d2.1
      have hu2 := d2.2
      refine ⟨by rw [d4, d7]; omega, fun j hj => ⟨by omega, ?_⟩⟩
      rw [List.getLast?_eq_getElem?, hslen, d4, Nat.add_sub_cancel,
        List.getElem?_eq_getElem (by rw [hslen, d4]; omega), Array.getElem_toList]
      rw [d8 _ (by omega)]
      simp [List.take_length]
  obtain ⟨hbk, hlast⟩ := hblocks
  have hfit : ∀ p, p ∈ b1.samples.toList → p.1 < 2 ^ w ∧ p.2 < 2 ^ w := by
    intro p hp
    obtain ⟨j, hj, rfl⟩ := List.getElem_of_mem hp
    obtain ⟨hjd, hmv⟩ := hlast j (by omega)
    obtain ⟨_, _, hmvw, _⟩ := bitLen_spec_rl _ hspan
    rw [← hmv, ← wdef, hmv] at hmvw
    rw [hent j hj]
    have a := lens_le_span (done'.take j).flatten
    have c := span_take_mono done' j done'.length hjd
    rw [List.take_length] at c
    exact ⟨by show lens _ < 2 ^ w; omega, by show span _ < 2 ^ w; omega⟩
  have hle : ∀ p, p ∈ b1.samples.toList → p.1 ≤ p.2 := by
    intro p hp
    obtain ⟨j, hj, rfl⟩ := List.getElem_of_mem hp
    rw [hent j hj]
    exact lens_le_span _
  obtain ⟨s1, s2, s3, s4, s5, s6, s7⟩ := samples_cols (sl := b1.samples.toList) w1 w2 hfit
  rw [← f4] at s1 s2 s3 s4 s5 s6 s7
  have hzs' : zs = b1.samples.toList.map (fun p => p.2 - p.1) := by
    have := mapM_ok_of (fun p : Nat × Nat => subM m p.2 p.1) (fun p => p.2 - p.1) b1.samples.toList
      (fun p hp => subM_ok (hle p hp))
    rw [this] at hzs; injection hzs with hzs; exact hzs.symm
  have hzeros : zeros = b1.len - b1.ones := by
    rw [subM_ok hol] at hz; injection hz with hz; exact hz.symm
  have hsl2 : v.samples.len / 2 = b1.samples.size := by rw [s3, hslen]; omega
  have hdl := hi1.data_le
  obtain ⟨q1, q2, q3, q4⟩ := hi1.data_wf
  have hdw := hi1.data_w
  rw [U64_eq] at hlt
  refine ⟨⟨s1, by omega, by omega, ?_⟩, ⟨?_, ?_, ?_, ?_⟩, ?_, by omega, by omega, by omega, ?_, ?_, ?_, ?_⟩
  · obtain ⟨_, _, t3, _⟩ := s1
    rw [t3, s2]
    have : v.samples.len * w ≤ v.samples.len * 64 := Nat.mul_le_mul_left _ w2
    omega
  · rw [f3]; exact ⟨q1, q2, q3, q4⟩
  · rw [f3]; omega
  · rw [f3]; omega
  · rw [f3, q3, hdw]; omega
  · rw [hsl2, f3]; exact hbk
  · intro j hj
    obtain ⟨g1, g2⟩ := s4 j (by omega)
    rw [g1, g2]
    exact hle _ (List.getElem_mem _)
  · rw [s5, f1]; exact hri
  · rw [s6, f2]; exact hsi
  · rw [s7, f1, f2, ← hzs', ← hzeros]; exact hzi

theorem flush_samples_size (m : Mode) {b b' : RLBuilder} (h : b.flush m = ok b') :
    b'.samples.size ≤ b.samples.size + 1 := by
  unfold flush at h
  by_cases hr : b.run.2 = 0
  · rw [if_pos hr] at h; injection h with h; subst h; omega
  · rw [if_neg hr] at h
    obtain ⟨gap, _, h⟩ := Outcome.bind_eq_ok h
    injection h with h
    subst h
    dsimp only
    split
    · simp
    · omega

/-- the size side condition of `ofBuilder_rlWF`, stated on the builder: at most one block is added by the final
`flush`, and each block takes 256 data bits and two samples -/
theorem ofBuilder_size (m : Mode) {b : RLBuilder} {v : RL} (h : ofBuilder m b = ok v)
    (hsize : 256 * (b.samples.size + 1) < 2 ^ 64) : 128 * v.samples.len < 2 ^ 64 := by
  obtain ⟨b', w, _, _, e, _, _, _, w1, w2, _, f4, _⟩ := ofBuilder_parts m h
  have := flush_samples_size m e
  obtain ⟨sl1, _⟩ := samples_read (sl := b'.samples.toList) w1 w2
  rw [← f4] at sl1
  rw [sl1, Array.length_toList]
  omega

/-- `ofBuilder_rlWF` with the size condition stated on the builder -/
theorem ofBuilder_rlWF' (m : Mode) {b : RLBuilder} {v : RL} {done : List (List (Nat × Nat))}
    {cur : List (Nat × Nat)} (hi : b.Inv) (hd : DInv b done cur) (h : ofBuilder m b = ok v)
    (hsize : 256 * (b.samples.size + 1) < 2 ^ 64) : rlWF m v :=
  ofBuilder_rlWF m hi hd h (ofBuilder_size m h hsize)

/-- in terms of the full abstraction `Abs` of `Proofs/RL` -/
theorem ofBuilder_rlWF_abs (m : Mode) {b : RLBuilder} {v : RL} {B : List Bool}
    {done : List (List (Nat × Nat))} {cur : List (Nat × Nat)} (ha : Abs b B done cur)
    (h : ofBuilder m b = ok v) (hsize : 128 * v.samples.len < 2 ^ 64) : rlWF m v :=
  ofBuilder_rlWF m ha.inv ha.dinv h hsize

/-- **every vector built by an accepted history of `try_set` / `set_len` / `set_bit` calls is serializable** -/
theorem build_rlWF (m : Mode) (calls : List BCall) (hc : ∀ c ∈ calls, callArgsOk c)
    (b : RLBuilder) (hb : runBCalls m calls {} = ok b) (v : RL) (hv : ofBuilder m b = ok v)
    (hsize : 128 * v.samples.len < 2 ^ 64) : rlWF m v := by
  obtain ⟨done, cur, ha⟩ := runBCalls_abs m calls {} b [] [] [] hc abs_empty hb
  exact ofBuilder_rlWF_abs m ha hv hsize

/-- ... hence it loads back from its serialization, followed by anything -/
theorem build_roundtrip (m : Mode) (calls : List BCall) (hc : ∀ c ∈ calls, callArgsOk c)
    (b : RLBuilder) (hb : runBCalls m calls {} = ok b) (v : RL) (hv : ofBuilder m b = ok v)
    (hsize : 128 * v.samples.len < 2 ^ 64) (rest : Elems) :
    (rlC m).load ((rlC m).ser v ++ rest) = ok (v, rest) :=
  (rlC_lawful m).roundtrip v rest (build_rlWF m calls hc b hb v hv hsize)

end FromBuilder

/-! ### 4. corollaries: sizes, concatenation, the byte view -/

theorem sparseC_size (s : Sparse) :
    (sparseC.ser s).length = 1 + (bitVectorC.ser s.high).length + (intVecC.ser s.low).length := by
  simp [sparseC]; omega

theorem wmCoreC_size (c : WMCore) :
    (wmCoreC.ser c).length = 1 + (c.levels.toList.map fun b => (bitVectorC.ser b).length).sum := by
  simp [wmCoreC, List.length_flatMap]; omega

theorem wmC_size (w : WM) :
    (wmC.ser w).length = 1 + (wmCoreC.ser w.data).length + (intVecC.ser w.first).length := by
  simp [wmC]; omega

theorem rlC_size (m : Mode) (v : RL) :
    ((rlC m).ser v).length = 2 + (intVecC.ser v.samples).length + (intVecC.ser v.data).length := by
  simp [rlC]; omega

/-- in elements: two counters, two integer-vector headers of 4 elements, and the words of both -/
theorem rlC_size_words (m : Mode) (v : RL) :
    ((rlC m).ser v).length = 10 + v.samples.data.data.size + v.data.data.data.size := by
  rw [rlC_size, intVecC_ser_length, intVecC_ser_length]; omega

/-- exactly `8 * size` bytes are written -/
theorem bytes_written {α} (c : Codec α) (x : α) : (toBytes (c.ser x)).length = 8 * c.size x :=
  length_toBytes _

/-- ... and exactly these are consumed: what is left after loading is the rest, byte for byte -/
theorem bytes_consumed {α} {c : Codec α} {W : α → Prop} (h : Lawful c W) (x : α) (hx : W x) (r : Elems) :
    ∃ y rest, c.load (ofBytes (toBytes (c.ser x) ++ toBytes r)) = ok (y, rest) ∧ y = x ∧
      toBytes rest = (toBytes (c.ser x) ++ toBytes r).drop (8 * c.size x) := by
  have e : toBytes (c.ser x) ++ toBytes r = toBytes (c.ser x ++ r) := by simp [toBytes]
  refine ⟨x, r, by rw [e]; exact roundtrip_bytes h x hx r, rfl, ?_⟩
  rw [← bytes_written, List.drop_left]

/-- a sparse vector, a run-length vector and a wavelet matrix written back to back: the first loads and leaves
exactly the serializations of the other two -/
theorem composite_load_concat (m : Mode) (s : Sparse) (v : RL) (w : WM) (r : Elems) (hs : sparseWF s) :
    sparseC.load (sparseC.ser s ++ (rlC m).ser v ++ wmC.ser w ++ r) = ok (s, (rlC m).ser v ++ wmC.ser w ++ r) := by
  rw [List.append_assoc, List.append_assoc, ← List.append_assoc ((rlC m).ser v)]
  exact sparseC_lawful.roundtrip s _ hs

/-- ... and loading the three in sequence returns the three values and the rest -/
theorem composite_load_seq (m : Mode) (s : Sparse) (v : RL) (w : WM) (r : Elems)
    (hs : sparseWF s) (hv : rlWF m v) (hw : wmWF w) :
    (do let (a, r1) ← sparseC.load (sparseC.ser s ++ (rlC m).ser v ++ wmC.ser w ++ r)
        let (b, r2) ← (rlC m).load r1
        let (c, r3) ← wmC.load r2
        pure ((a, b, c), r3)) = ok ((s, v, w), r) := by
  rw [composite_load_concat m s v w r hs, bind_ok]
  show ((rlC m).load ((rlC m).ser v ++ wmC.ser w ++ r) >>= _) = _
  rw [List.append_assoc, (rlC_lawful m).roundtrip v _ hv, bind_ok]
  show (wmC.load (wmC.ser w ++ r) >>= _) = _
  rw [wmC_lawful.roundtrip w r hw]; rfl

/-- the three structures as one record: lawful, with the strong prefix law — every strict prefix of the
concatenation is refused with `eof` by the sequential loader -/
theorem composite_lawfulEof (m : Mode) :
    LawfulP IsEof (seqC sparseC (seqC (rlC m) wmC)) (fun p => sparseWF p.1 ∧ rlWF m p.2.1 ∧ wmWF p.2.2) :=
  seqC_lawfulP sparseC_lawfulEof (seqC_lawfulP (rlC_lawfulEof m) wmC_lawfulEof)

theorem composite_lawful (m : Mode) :
    Lawful (seqC sparseC (seqC (rlC m) wmC)) (fun p => sparseWF p.1 ∧ rlWF m p.2.1 ∧ wmWF p.2.2) :=
  (composite_lawfulEof m).lawful

/-! byte-level instances -/

theorem sparse_roundtrip_bytes (s : Sparse) (hs : sparseWF s) (r : Elems) :
    sparseC.load (ofBytes (toBytes (sparseC.ser s ++ r))) = ok (s, r) := roundtrip_bytes sparseC_lawful s hs r

theorem sparse_pfx_bytes_eof (s : Sparse) (hs : sparseWF s) (k : Nat) (hk : k < 8 * (sparseC.ser s).length) :
    sparseC.load (ofBytes ((toBytes (sparseC.ser s)).take k)) = fault (.err .eof) :=
  pfx_bytes_eof sparseC_lawfulEof s hs k hk

theorem wmCore_roundtrip_bytes (c : WMCore) (hc : wmCoreWF c) (r : Elems) :
    wmCoreC.load (ofBytes (toBytes (wmCoreC.ser c ++ r))) = ok (c, r) := roundtrip_bytes wmCoreC_lawful c hc r

theorem wmCore_pfx_bytes_eof (c : WMCore) (hc : wmCoreWF c) (k : Nat) (hk : k < 8 * (wmCoreC.ser c).length) :
    wmCoreC.load (ofBytes ((toBytes (wmCoreC.ser c)).take k)) = fault (.err .eof) :=
  pfx_bytes_eof wmCoreC_lawfulEof c hc k hk

theorem wm_roundtrip_bytes (w : WM) (hw : wmWF w) (r : Elems) :
    wmC.load (ofBytes (toBytes (wmC.ser w ++ r))) = ok (w, r) := roundtrip_bytes wmC_lawful w hw r

theorem wm_pfx_bytes_eof (w : WM) (hw : wmWF w) (k : Nat) (hk : k < 8 * (wmC.ser w).length) :
    wmC.load (ofBytes ((toBytes (wmC.ser w)).take k)) = fault (.err .eof) :=
  pfx_bytes_eof wmC_lawfulEof w hw k hk

theorem rl_roundtrip_bytes (m : Mode) (v : RL) (hv : rlWF m v) (r : Elems) :
    (rlC m).load (ofBytes (toBytes ((rlC m).ser v ++ r))) = ok (v, r) := roundtrip_bytes (rlC_lawful m) v hv r

theorem rl_pfx_bytes_eof (m : Mode) (v : RL) (hv : rlWF m v) (k : Nat) (hk : k < 8 * ((rlC m).ser v).length) :
    (rlC m).load (ofBytes ((toBytes ((rlC m).ser v)).take k)) = fault (.err .eof) :=
  pfx_bytes_eof (rlC_lawfulEof m) v hv k hk

/-- the strong prefix law of the three structures written back to back, at the byte level -/
theorem composite_pfx_bytes_eof (m : Mode) (s : Sparse) (v : RL) (w : WM)
    (hs : sparseWF s) (hv : rlWF m v) (hw : wmWF w) (k : Nat)
    (hk : k < 8 * (sparseC.ser s ++ ((rlC m).ser v ++ wmC.ser w)).length) :
    (seqC sparseC (seqC (rlC m) wmC)).load
      (ofBytes ((toBytes (sparseC.ser s ++ ((rlC m).ser v ++ wmC.ser w))).take k)) = fault (.err .eof) :=
  pfx_bytes_eof (composite_lawfulEof m) (s, v, w) ⟨hs, hv, hw⟩ k hk

/-! built values, end to end -/

/-- **a built sparse vector (set or multiset mode) round-trips**, and every strict prefix of its file is
refused with `eof` -/
theorem sparse_ofValues_lawful (w n : Nat) (multi : Bool) (P : List Nat) (hw1 : 1 ≤ w) (hw : w ≤ 63)
    (hn : n < 2 ^ 64) (hm : P.length < 2 ^ 63)
    (hsorted : if multi then sortedLe P = true else sortedStrict P = true) (hbound : ∀ p ∈ P, p < n)
    (hhigh : P.length + Sparse.getBuckets n w < 2 ^ 63) (hlow : P.length * w < 2 ^ 64) :
    ∃ s, Sparse.ofValues w n multi P = ok s ∧ s.Encodes n w P ∧
      (∀ rest, sparseC.load (sparseC.ser s ++ rest) = ok (s, rest)) ∧
      (∀ k, k < (sparseC.ser s).length → sparseC.load ((sparseC.ser s).take k) = fault (.err .eof)) := by
  obtain ⟨s, h1, he, hwf⟩ := ofValues_sparseWF w n multi P hw1 hw hn hm hsorted hbound hhigh hlow
  exact ⟨s, h1, he, fun rest => sparseC_lawful.roundtrip s rest hwf,
    fun k hk => sparseC_lawfulEof.pfx_eof s k hwf hk⟩

/-- **a built wavelet matrix round-trips**, and every strict prefix of its file is refused with `eof` -/
theorem wm_ofValues_lawful (V : List Nat) (hV : ∀ v, v ∈ V → v < 2 ^ 64) (hlen : V.length < 2 ^ 63)
    (hfirst : (V.foldl max 0 + 1) * 64 < 2 ^ 64) :
    (∀ rest, wmC.load (wmC.ser (WM.ofValues V) ++ rest) = ok (WM.ofValues V, rest)) ∧
    (∀ k, k < (wmC.ser (WM.ofValues V)).length →
      wmC.load ((wmC.ser (WM.ofValues V)).take k) = fault (.err .eof)) :=
  ⟨fun rest => wmC_lawful.roundtrip _ rest (ofValues_wmWF V hV hlen hfirst),
   fun k hk => wmC_lawfulEof.pfx_eof _ k (ofValues_wmWF V hV hlen hfirst) hk⟩

end Sds.Codec2
