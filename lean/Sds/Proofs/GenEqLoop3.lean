/-
Proofs/GenEqLoop3: the internals of `rl_vector.rs` (`blocks`, `ones_after`, `decode`, `run_iter`, `iter_for_block`,
`block_for`) as TRANSLATED statement by statement from the source (Generated/FnsLoop.lean; loops are
`loopM fuel step init` over the control type `Ctl`) are equal to the hand-written model definitions of Model/RL.lean
(`RL.blocks`, `RL.onesAfter`, `RL.decode` = `decodeLoop … 23 …`, `RL.runIter`, `RL.iterForBlock`, `RL.blockFor`).

Method: the lambda of each generated loop is named (`stepDecode`, `stepBlockFor`; the unfolding equations
`gen_decode_unfold`, `gen_block_for_unfold` hold by `rfl`), a lemma relates `loopM fuel step s` to the model recursion by
induction on the fuel (`decode_loop`, `block_for_loop`).

Results and hypotheses:
* `rl_blocks_eq`, `rl_run_iter_eq`: unconditional.
* `rl_ones_after_eq`: `block + 1 < 2^64` and `samples.len ≤ 2^64`.  The first is SHARP on a representable input
  (`rl_ones_after_ne`: `block = usize::MAX`: the code computes `block + 1` in `usize`: panic / wrap to 0 and a read of
  `samples[0]`; the model compares in `Nat` and answers `ones`); every caller passes `block < blocks`, so this is not
  reachable through the public API.
* `rl_iter_for_block_eq`: `block * 64 < 2^64` (sharp, `rl_iter_for_block_ne`; implied by `block < blocks` and
  `blocks = ⌈data.len / 64⌉`, `data.len < 2^64`: `rl_iter_for_block_eq_of_lt`).
* `rl_block_for_eq`: `low ≤ high` (needed, `rl_block_for_ne`: a `usize` subtraction; preserved by the loop since
  `low ≤ mid ≤ high`) and `high < 2^64` (representation bound; the midpoint is `≤ high`; `rl_block_for_high_ne`).
* `rl_decode_eq`: `data.len < 2^64` (representation bound: `offset + 1` after a successful read; `rl_decode_len_ne`) and,
  IN WRAPPING MODE ONLY, "the code at `offset` is not a 23-unit code" (`¬ units23 v offset`).  This is a GENUINE
  DIVERGENCE between the model and the code: at the 23rd unit the shift is 66; with overflow checks both sides panic
  (`overflow`), without them the model has an explicit `fault (.panic .other)` while the real code (`x << shift` in a
  release build) takes the shift modulo 64 and goes on.  `rl_decode_eq_iff` shows that this is the ONLY difference
  (`rl_decode_eq'`: the equation holds iff the model does not answer `panic other`; `decode_wrapping_other_iff`:
  it does exactly on 23-unit codes; `rl_decode_wrapping_ne_other`: the code never does), `rl_decode_ne_23` is a
  concrete witness.  The builder never writes such a code (`rl_decode_encode`: at most 22 units for a 64-bit value),
  `load` does not validate `data`, so the input is reachable from a crafted file in a release build.
  The order of `offset + 1` (before the shift in the code, at the end in the model) is immaterial: the read succeeded,
  so `offset < data.len < 2^64`.
-/
import Sds.Generated.FnsLoop
import Sds.Proofs.GenFns
import Sds.Proofs.GenEqIdx
import Sds.Proofs.GenEqVec
import Sds.Proofs.RL

namespace Sds.GenEq
open Sds Outcome Generated

/-! ### vocabulary -/

private theorem loopM_succ3 {σ ρ : Type} (n : Nat) (step : σ → Outcome (Ctl σ ρ)) (s : σ) :
    loopM (n + 1) step s = (step s).bind (fun c => match c with | .next s' => loopM n step s' | r => ok r) := rfl

private theorem loopM_congr3 {σ ρ : Type} {step step' : σ → Outcome (Ctl σ ρ)} (h : ∀ s, step s = step' s)
    (fuel : Nat) (s : σ) : loopM fuel step s = loopM fuel step' s := by
  rw [show step = step' from funext h]

/-! ### `blocks`, `ones_after`, `run_iter`, `iter_for_block` -/

/-- `RLVector::blocks` -/
theorem rl_blocks_eq (m : Mode) (v : RL) : gen_RLVector_blocks m v = ok v.blocks := by
  unfold gen_RLVector_blocks RL.blocks
  rw [GenFns.gDiv_pos _ _ (by decide)]

theorem rl_ones_after_eq' (m : Mode) (v : RL) (block : Nat) (hb : block + 1 < U64)
    (hs : block + 1 < v.blocks → 2 * (block + 1) < U64) :
    gen_RLVector_ones_after m v block = v.onesAfter block := by
  unfold gen_RLVector_ones_after RL.onesAfter
  rw [rl_blocks_eq]
  simp only [Bind.bind, Outcome.bind, addM_ok hb]
  by_cases h : block + 1 < v.blocks
  · simp only [h, decide_true, if_true, mulM_ok (hs h)]
  · simp only [h, decide_false, Bool.false_eq_true, if_false]; rfl

/-- `RLVector::ones_after` -/
theorem rl_ones_after_eq (m : Mode) (v : RL) (block : Nat) (hb : block + 1 < U64) (hs : v.samples.len ≤ U64) :
    gen_RLVector_ones_after m v block = v.onesAfter block :=
  rl_ones_after_eq' m v block hb (fun h => by unfold RL.blocks at h; omega)

/-- `RLVector::run_iter`: unconditionally equal to the model -/
theorem rl_run_iter_eq (m : Mode) (v : RL) : gen_RLVector_run_iter m v = v.runIter := by
  unfold gen_RLVector_run_iter RL.runIter
  rw [rl_ones_after_eq' m v 0 (by decide) (fun _ => by decide)]

/-- `RLVector::iter_for_block` -/
theorem rl_iter_for_block_eq (m : Mode) (v : RL) (block : Nat) (hb : block * 64 < U64) :
    gen_RLVector_iter_for_block m v block = v.iterForBlock block := by
  have hU := U64_eq
  unfold gen_RLVector_iter_for_block RL.iterForBlock
  have h1 : 2 * block < U64 := by omega
  have h2 : 2 * block + 1 < U64 := by omega
  rw [rl_ones_after_eq' m v block (by omega) (fun _ => by omega)]
  simp only [Bind.bind, Outcome.bind, mulM_ok h1, addM_ok h2, mulM_ok hb]
  by_cases h0 : v.samples.len = 0
  · simp only [h0, decide_true, if_true]
  · simp only [h0, decide_false, Bool.false_eq_true, if_false]

/-- `ones_after` for a block of the vector (what every caller passes) -/
theorem rl_ones_after_eq_of_lt (m : Mode) (v : RL) (block : Nat) (hs : v.samples.len ≤ U64) (hb : block < v.blocks) :
    gen_RLVector_ones_after m v block = v.onesAfter block := by
  have hU := U64_eq
  exact rl_ones_after_eq m v block (by unfold RL.blocks at hb; omega) hs

/-- `iter_for_block` for a block of a vector whose samples cover the data (`blocks = ⌈data.len / 64⌉`, checked by `load`) -/
theorem rl_iter_for_block_eq_of_lt (m : Mode) (v : RL) (block : Nat) (hd : v.data.len ≤ U64)
    (hbl : v.blocks = (v.data.len + 63) / 64) (hb : block < v.blocks) :
    gen_RLVector_iter_for_block m v block = v.iterForBlock block :=
  rl_iter_for_block_eq m v block (by rw [hbl] at hb; omega)

/-! ### `block_for` -/

/-- the body of the loop of `block_for` (the lambda of the generated code, by `rfl`) -/
def stepBlockFor (m : Mode) (value : Nat) (f : Nat → Outcome Nat) :
    Nat × Nat → Outcome (Ctl (Nat × Nat) Nat) := fun (high, low) => do
  let t1 ← subM m high low
  if (decide (t1 > 1)) then do
    let t2 ← subM m high low
    let t3 ← gDiv t2 2
    let t4 ← addM m low t3
    let mid := t4
    let t5 ← f mid
    let candidate := t5
    let (high, low) ← (if (decide (candidate ≤ value)) then do
        let low := mid
        pure (high, low)
      else do
        let high := mid
        pure (high, low))
    pure (Ctl.next (high, low))
  else do
    pure (Ctl.brk (high, low))

def finBlockFor : Ctl (Nat × Nat) Nat → Outcome Nat
  | .ret _ => fault .fuel
  | .next _ => fault .fuel
  | .brk (_, low) => pure low

theorem gen_block_for_unfold (m : Mode) (low high value : Nat) (f : Nat → Outcome Nat) :
    gen_RLVector_block_for m low high value f =
      (loopM (high + 1) (stepBlockFor m value f) (high, low) >>= finBlockFor) := rfl

/-- one iteration, under the invariant `low ≤ high < 2^64` -/
theorem stepBlockFor_eq (m : Mode) (value : Nat) (f : Nat → Outcome Nat) (high low : Nat) (hl : low ≤ high)
    (hh : high < U64) :
    stepBlockFor m value f (high, low) =
      if high - low > 1 then
        (f (low + (high - low) / 2)).bind (fun c =>
          if c ≤ value then ok (Ctl.next (high, low + (high - low) / 2))
          else ok (Ctl.next (low + (high - low) / 2, low)))
      else ok (Ctl.brk (high, low)) := by
  have h2 : low + (high - low) / 2 < U64 := by omega
  unfold stepBlockFor
  simp only [subM_ok hl, bind_ok, GenFns.gDiv_pos _ 2 (by decide), addM_ok h2]
  by_cases hgt : high - low > 1
  · simp only [hgt, decide_true, if_true]
    cases f (low + (high - low) / 2) with
    | fault e => rfl
    | ok c => by_cases hc : c ≤ value <;> simp [hc, Outcome.bind]
  · simp only [hgt, decide_false, Bool.false_eq_true, if_false, pure_eq]

theorem block_for_loop (m : Mode) (f : Nat → Outcome Nat) (value : Nat) :
    ∀ fuel low high, low ≤ high → high < U64 →
      (loopM fuel (stepBlockFor m value f) (high, low) >>= finBlockFor) = RL.blockFor f value fuel low high := by
  intro fuel
  induction fuel with
  | zero => intro low high _ _; rfl
  | succ n ih =>
    intro low high hl hh
    rw [loopM_succ3, stepBlockFor_eq m value f high low hl hh, RL.blockFor]
    by_cases hgt : high - low > 1
    · simp only [hgt, if_true]
      cases hf : f (low + (high - low) / 2) with
      | fault e => rfl
      | ok c =>
        simp only [bind_ok, Outcome.bind]
        by_cases hc : c ≤ value
        · simp only [hc, if_true]
          exact ih (low + (high - low) / 2) high (by omega) hh
        · simp only [hc, if_false]
          exact ih low (low + (high - low) / 2) (by omega) (by omega)
    · simp only [hgt, if_false]
      rfl

/-- `RLVector::block_for` (the binary search over the samples) -/
theorem rl_block_for_eq (m : Mode) (low high value : Nat) (f : Nat → Outcome Nat) (hl : low ≤ high) (hh : high < U64) :
    gen_RLVector_block_for m low high value f = RL.blockFor f value (high + 1) low high := by
  rw [gen_block_for_unfold]
  exact block_for_loop m f value (high + 1) low high hl hh

/-! ### `decode` -/

/-- the body of the loop of `decode` (the lambda of the generated code, by `rfl`) -/
def stepDecode (m : Mode) (v : RL) : Nat × Nat × Nat → Outcome (Ctl (Nat × Nat × Nat) (Nat × Nat)) :=
  fun (offset, shift, value) => do
    if true then do
      let t1 ← IntVec.get v.data offset
      let code := t1
      let t2 ← addM m offset 1
      let offset := t2
      let t3 ← shlW m (code &&& (7 : Word)) shift
      let t4 ← addM m value (t3).toNat
      let value := t4
      let t5 ← addM m shift 3
      let shift := t5
      if (decide ((code &&& (8 : Word)) = (0 : Word))) then do
        pure (Ctl.ret (value, offset))
      else do
        pure (Ctl.next (offset, shift, value))
    else do
      pure (Ctl.brk (offset, shift, value))

def finDecode : Ctl (Nat × Nat × Nat) (Nat × Nat) → Outcome (Nat × Nat)
  | .ret r => pure r
  | .next _ => fault .fuel
  | .brk _ => fault .fuel

theorem gen_decode_unfold (m : Mode) (v : RL) (offset : Nat) :
    gen_RLVector_decode m v offset = (loopM 23 (stepDecode m v) (offset, 0, 0) >>= finDecode) := rfl

theorem decodeLoop_succ (m : Mode) (v : RL) (n offset value shift : Nat) :
    RL.decodeLoop m v (n + 1) offset value shift =
      (v.data.get offset).bind (fun code =>
        if shift ≥ 64 then (match m with | .checked => fault (.panic .overflow) | .wrapping => fault (.panic .other))
        else (addM m value (((code.toNat % 8) <<< shift) % U64)).bind (fun value' =>
          if code.toNat / 8 % 2 = 0 then ok (value', offset + 1)
          else RL.decodeLoop m v n (offset + 1) value' (shift + 3))) := rfl

theorem word_and7_shl (c : Word) (s : Nat) : ((c &&& (7 : Word)) <<< s).toNat = ((c.toNat % 8) <<< s) % U64 := by
  rw [BitVec.toNat_shiftLeft, BitVec.toNat_and, U64_eq]
  show (c.toNat &&& 7) <<< s % 2 ^ 64 = _
  rw [and_7]

private theorem nat_and8 (x : Nat) : x &&& 8 = 0 ↔ x / 8 % 2 = 0 := by
  have h8 : (8 : Nat) = 2 ^ 3 := rfl
  have ht : x.testBit 3 = decide (x / 8 % 2 = 1) := by rw [Nat.testBit_eq_decide_div_mod_eq]
  constructor
  · intro h
    have := congrArg (fun y => Nat.testBit y 3) h
    simp only [Nat.testBit_and, h8, Nat.testBit_two_pow, Nat.zero_testBit, decide_true, Bool.and_true] at this
    rw [this] at ht
    simp at ht; omega
  · intro h
    apply Nat.eq_of_testBit_eq
    intro i
    rw [Nat.testBit_and, h8, Nat.testBit_two_pow, Nat.zero_testBit]
    by_cases hi : 3 = i
    · subst hi; rw [ht]; simp; omega
    · simp [hi]

theorem word_and8 (c : Word) : (c &&& (8 : Word)) = (0 : Word) ↔ c.toNat / 8 % 2 = 0 := by
  rw [← BitVec.toNat_inj, BitVec.toNat_and]
  exact nat_and8 c.toNat

/-- one iteration of the generated loop where the shift is in range -/
theorem stepDecode_lt (m : Mode) (v : RL) (offset shift value : Nat) (ho : offset + 1 < U64) (hs : shift < 64) :
    stepDecode m v (offset, shift, value) =
      (v.data.get offset).bind (fun code =>
        (addM m value (((code.toNat % 8) <<< shift) % U64)).bind (fun value' =>
          if code.toNat / 8 % 2 = 0 then ok (Ctl.ret (value', offset + 1))
          else ok (Ctl.next (offset + 1, shift + 3, value')))) := by
  have h3 : shift + 3 < U64 := by rw [U64_eq]; omega
  unfold stepDecode
  simp only [if_true, addM_ok ho, shlW_lt m _ hs, bind_ok, word_and7_shl, addM_ok h3, word_and8]
  simp only [Bind.bind, Outcome.bind]
  cases v.data.get offset with
  | fault e => rfl
  | ok code =>
    simp only []
    cases addM m value (((code.toNat % 8) <<< shift) % U64) with
    | fault e => rfl
    | ok value' =>
      by_cases hc : code.toNat / 8 % 2 = 0 <;> simp [hc, Pure.pure]

/-- one iteration of the generated loop with overflow checks where the shift is out of range -/
theorem stepDecode_ge_checked (v : RL) (offset shift value : Nat) (ho : offset + 1 < U64) (hs : shift ≥ 64) :
    stepDecode .checked v (offset, shift, value) =
      (v.data.get offset).bind (fun _ => fault (.panic .overflow)) := by
  unfold stepDecode
  have hs' : ¬ shift < 64 := by omega
  simp only [if_true, addM_ok ho, shlW, shAmt, hs', if_false, bind_ok, bind_fault]
  cases v.data.get offset <;> rfl

/-- the loop of `decode`: the generated loop and the model recursion agree from any state whenever the model does
not take its `fault (.panic .other)` branch (wrapping mode, `shift ≥ 64`) -/
theorem decode_loop (m : Mode) (v : RL) (hd : v.data.len < U64) :
    ∀ fuel offset value shift,
      (m = .wrapping → RL.decodeLoop m v fuel offset value shift ≠ fault (.panic .other)) →
      (loopM fuel (stepDecode m v) (offset, shift, value) >>= finDecode) =
        RL.decodeLoop m v fuel offset value shift := by
  intro fuel
  induction fuel with
  | zero => intro offset value shift _; rfl
  | succ n ih =>
    intro offset value shift hne
    rw [decodeLoop_succ] at hne ⊢
    rw [loopM_succ3]
    by_cases hoff : offset < v.data.len
    · have ho : offset + 1 < U64 := by omega
      have hg : v.data.get offset = ok (v.data.getRaw offset) := IntVec.get_ok_rl hoff
      by_cases hs : shift ≥ 64
      · cases m with
        | checked =>
          rw [stepDecode_ge_checked v offset shift value ho hs, hg]
          simp only [Outcome.bind, hs, if_true]
          rfl
        | wrapping =>
          exfalso
          apply hne rfl
          rw [hg]
          simp only [Outcome.bind, hs, if_true]
      · have hs' : shift < 64 := by omega
        rw [stepDecode_lt m v offset shift value ho hs']
        rw [hg] at hne ⊢
        simp only [Outcome.bind, hs, if_false] at hne ⊢
        cases ha : addM m value ((((v.data.getRaw offset).toNat % 8) <<< shift) % U64) with
        | fault e => rfl
        | ok value' =>
          rw [ha] at hne
          simp only [] at hne ⊢
          by_cases hc : (v.data.getRaw offset).toNat / 8 % 2 = 0
          · simp only [hc, if_true]; rfl
          · simp only [hc, if_false] at hne ⊢
            exact ih (offset + 1) value' (shift + 3) hne
    · have hg : v.data.get offset = fault (.panic .assert) := by simp [IntVec.get, hoff]
      have hstep : stepDecode m v (offset, shift, value) = fault (.panic .assert) := by
        unfold stepDecode
        simp only [if_true, hg, bind_fault]
      rw [hstep, hg]
      rfl

/-- `RLVector::decode`, sharpest form: with overflow checks the generated code IS the model; without them it is the
model unless the model takes its `shift ≥ 64` branch (`fault (.panic .other)`), which the code does not have. -/
theorem rl_decode_eq' (m : Mode) (v : RL) (offset : Nat) (hd : v.data.len < U64)
    (h : m = .wrapping → v.decode m offset ≠ fault (.panic .other)) :
    gen_RLVector_decode m v offset = v.decode m offset := by
  rw [gen_decode_unfold]
  exact decode_loop m v hd 23 offset 0 0 h

theorem rl_decode_eq_checked (v : RL) (offset : Nat) (hd : v.data.len < U64) :
    gen_RLVector_decode .checked v offset = v.decode .checked offset :=
  rl_decode_eq' .checked v offset hd (fun h => by cases h)

/-- the unit stream at `offset` holds a 23rd code unit after 22 continuation units (flag `8` set): an encoding that
`RLBuilder.encode` never produces for a 64-bit value (at most 22 units) -/
def units23 (v : RL) (offset : Nat) : Prop :=
  offset + 22 < v.data.len ∧ ∀ j, j < 22 → (v.data.getRaw (offset + j)).toNat / 8 % 2 = 1

instance (v : RL) (offset : Nat) : Decidable (units23 v offset) := by unfold units23; exact inferInstance

private theorem addM_wrapping_ok3 (a b : Nat) : ∃ s, addM .wrapping a b = ok s := by
  unfold addM; by_cases h : a + b < U64 <;> simp [h]

/-- in wrapping mode the model's `panic other` can only come from the `shift ≥ 64` test -/
theorem decodeLoop_other (v : RL) : ∀ fuel offset value shift,
    RL.decodeLoop .wrapping v fuel offset value shift = fault (.panic .other) →
    ∃ k, k < fuel ∧ 64 ≤ shift + 3 * k ∧ offset + k < v.data.len ∧
      ∀ j, j < k → (v.data.getRaw (offset + j)).toNat / 8 % 2 = 1 := by
  intro fuel
  induction fuel with
  | zero => intro offset value shift h; cases h
  | succ n ih =>
    intro offset value shift h
    rw [decodeLoop_succ] at h
    by_cases hoff : offset < v.data.len
    · rw [IntVec.get_ok_rl hoff] at h
      simp only [Outcome.bind] at h
      by_cases hs : shift ≥ 64
      · exact ⟨0, by omega, by omega, by omega, fun j hj => by omega⟩
      · simp only [hs, if_false] at h
        obtain ⟨value', ha⟩ := addM_wrapping_ok3 value ((((v.data.getRaw offset).toNat % 8) <<< shift) % U64)
        rw [ha] at h
        simp only [] at h
        by_cases hc : (v.data.getRaw offset).toNat / 8 % 2 = 0
        · simp only [hc, if_true] at h; cases h
        · simp only [hc, if_false] at h
          obtain ⟨k, h1, h2, h3, h4⟩ := ih _ _ _ h
          refine ⟨k + 1, by omega, by omega, by omega, fun j hj => ?_⟩
          cases j with
          | zero => simp only [Nat.add_zero]; omega
          | succ j =>
            have := h4 j (by omega)
            rw [show offset + (j + 1) = offset + 1 + j by omega]; exact this
    · have hg : v.data.get offset = fault (.panic .assert) := by simp [IntVec.get, hoff]
      rw [hg] at h
      cases h

/-- … and it does come once `k` continuation units lead to a readable unit at a shift `≥ 64` -/
theorem decodeLoop_other_of (v : RL) : ∀ k fuel offset value shift,
    k < fuel → 64 ≤ shift + 3 * k → shift + 3 * k < 67 → offset + k < v.data.len →
    (∀ j, j < k → (v.data.getRaw (offset + j)).toNat / 8 % 2 = 1) →
    RL.decodeLoop .wrapping v fuel offset value shift = fault (.panic .other) := by
  intro k
  induction k with
  | zero =>
    intro fuel offset value shift hf h1 _ h3 _
    obtain ⟨n, rfl⟩ : ∃ n, fuel = n + 1 := ⟨fuel - 1, by omega⟩
    rw [decodeLoop_succ, IntVec.get_ok_rl (by omega)]
    simp only [Outcome.bind, show shift ≥ 64 by omega, if_true]
  | succ k ih =>
    intro fuel offset value shift hf h1 h2 h3 h4
    obtain ⟨n, rfl⟩ : ∃ n, fuel = n + 1 := ⟨fuel - 1, by omega⟩
    rw [decodeLoop_succ, IntVec.get_ok_rl (by omega)]
    obtain ⟨value', ha⟩ := addM_wrapping_ok3 value ((((v.data.getRaw offset).toNat % 8) <<< shift) % U64)
    have hc := h4 0 (by omega)
    rw [Nat.add_zero] at hc
    simp only [Outcome.bind, show ¬ shift ≥ 64 by omega, if_false, ha, hc]
    simp only [show ¬ (1 = 0) by decide, if_false]
    exact ih n (offset + 1) value' (shift + 3) (by omega) (by omega) (by omega) (by omega) (fun j hj => by
      have := h4 (j + 1) (by omega)
      rw [show offset + 1 + j = offset + (j + 1) by omega]; exact this)

/-- the model's extra panic (wrapping mode) is exactly the 23-unit situation -/
theorem decode_wrapping_other_iff (v : RL) (offset : Nat) :
    v.decode .wrapping offset = fault (.panic .other) ↔ units23 v offset := by
  constructor
  · intro h
    obtain ⟨k, h1, h2, h3, h4⟩ := decodeLoop_other v 23 offset 0 0 h
    have hk : k = 22 := by omega
    subst hk
    exact ⟨h3, h4⟩
  · intro ⟨h3, h4⟩
    exact decodeLoop_other_of v 22 23 offset 0 0 (by omega) (by omega) (by omega) h3 h4

/-- `RLVector::decode`: the generated code is the model whenever, in wrapping mode, the code at `offset` is not a
23-unit code.  (With overflow checks no hypothesis on the stream is needed.) -/
theorem rl_decode_eq (m : Mode) (v : RL) (offset : Nat) (hd : v.data.len < U64)
    (h : m = .wrapping → ¬ units23 v offset) :
    gen_RLVector_decode m v offset = v.decode m offset :=
  rl_decode_eq' m v offset hd (fun hm => by subst hm; rw [Ne, decode_wrapping_other_iff]; exact h rfl)

/-- a stored code of a 64-bit value (at most 22 units) is decoded by the generated code as by the model, in both modes -/
theorem rl_decode_encode (m : Mode) (v : RL) (o x : Nat) (rest : List Nat) (hd : v.data.len < U64) (hx : x < 2 ^ 64)
    (h : v.data.items.drop o = RLBuilder.encodeUnits 23 x ++ rest) :
    gen_RLVector_decode m v o = ok (x, o + RLBuilder.codeLen x) := by
  have hm := RL.decode_encode m v o x rest hx h
  rw [rl_decode_eq' m v o hd (fun _ => by rw [hm]; intro hc; cases hc), hm]

/-! #### the divergence on 23-unit codes (wrapping mode) -/

/-- without overflow checks every operation of the generated loop body succeeds except the bounds assertion of `get` -/
theorem stepDecode_wrapping (v : RL) (s : Nat × Nat × Nat) :
    stepDecode .wrapping v s = fault (.panic .assert) ∨ ∃ c, stepDecode .wrapping v s = ok c := by
  obtain ⟨offset, shift, value⟩ := s
  unfold stepDecode
  by_cases hoff : offset < v.data.len
  · right
    obtain ⟨o', h1⟩ := addM_wrapping_ok3 offset 1
    have h2 : ∃ w, shlW .wrapping (v.data.getRaw offset &&& 7) shift = ok w := by
      unfold shlW shAmt; by_cases hs : shift < 64 <;> simp [hs]
    obtain ⟨w, h2⟩ := h2
    obtain ⟨v', h3⟩ := addM_wrapping_ok3 value w.toNat
    obtain ⟨s', h4⟩ := addM_wrapping_ok3 shift 3
    simp only [if_true, IntVec.get_ok_rl hoff, bind_ok, h1, h2, h3, h4, pure_eq]
    by_cases hc : v.data.getRaw offset &&& 8 = 0
    · exact ⟨Ctl.ret (v', o'), by simp only [hc, decide_true, if_true]⟩
    · exact ⟨Ctl.next (o', s', v'), by simp only [hc, decide_false, Bool.false_eq_true, if_false]⟩
  · left
    have hg : v.data.get offset = fault (.panic .assert) := by simp [IntVec.get, hoff]
    simp only [if_true, hg, bind_fault]

theorem decode_loop_wrapping_ne (v : RL) : ∀ fuel s,
    (loopM fuel (stepDecode .wrapping v) s >>= finDecode) ≠ fault (.panic .other) := by
  intro fuel
  induction fuel with
  | zero => intro s h; cases h
  | succ n ih =>
    intro s h
    rw [loopM_succ3] at h
    rcases stepDecode_wrapping v s with hs | ⟨c, hs⟩
    · rw [hs] at h; cases h
    · rw [hs] at h
      cases c with
      | next s' => exact ih s' h
      | brk s' => cases h
      | ret r => cases h

/-- the real code never panics with the model's `other`: in wrapping mode `x << shift` masks the shift -/
theorem rl_decode_wrapping_ne_other (v : RL) (offset : Nat) :
    gen_RLVector_decode .wrapping v offset ≠ fault (.panic .other) := by
  rw [gen_decode_unfold]; exact decode_loop_wrapping_ne v 23 _

/-- DIVERGENCE, sharpness of the hypothesis of `rl_decode_eq`: on a 23-unit code in wrapping mode the model panics
(`other`), the generated (= real) code goes on with the shift taken modulo 64. -/
theorem rl_decode_ne (v : RL) (offset : Nat) (h : units23 v offset) :
    v.decode .wrapping offset = fault (.panic .other) ∧
    gen_RLVector_decode .wrapping v offset ≠ v.decode .wrapping offset := by
  have hm := (decode_wrapping_other_iff v offset).2 h
  exact ⟨hm, by rw [hm]; exact rl_decode_wrapping_ne_other v offset⟩

/-- hence, for `data.len < 2^64`: generated = model  ⟺  checked mode or no 23-unit code at `offset` -/
theorem rl_decode_eq_iff (m : Mode) (v : RL) (offset : Nat) (hd : v.data.len < U64) :
    gen_RLVector_decode m v offset = v.decode m offset ↔ (m = .wrapping → ¬ units23 v offset) := by
  constructor
  · intro he hm hu
    subst hm
    exact (rl_decode_ne v offset hu).2 he
  · exact rl_decode_eq m v offset hd

/-! ### the hypotheses are needed: concrete witnesses -/

/-- 22 continuation units `0xF` and a final unit `1` (a 23-unit code; `RLBuilder.encode` emits at most 22 units for a
64-bit value, but `load` does not validate `data`) -/
def rl23 : RL := { (default : RL) with data := IntVec.ofList 4 (List.replicate 22 15 ++ [1]) }

/-- 23 continuation units -/
def rl23c : RL := { (default : RL) with data := IntVec.ofList 4 (List.replicate 23 15) }

/-- DIVERGENCE (wrapping mode, 23-unit code): the model panics at the 23rd unit (`shift = 66 ≥ 64`); the code shifts by
`66 % 64 = 2`, adds `1 <<< 2` to `2^64 - 1` with wrap-around and returns `(3, 23)`.  With 23 continuation units the
code reads on (here: past the fuel of the translated loop; the real loop runs to the end of the data and panics in
`get`).  With overflow checks both sides panic with `overflow`. -/
theorem rl_decode_ne_23 :
    units23 rl23 0 ∧
    gen_RLVector_decode .wrapping rl23 0 = ok (3, 23) ∧
    rl23.decode .wrapping 0 = fault (.panic .other) ∧
    gen_RLVector_decode .checked rl23 0 = fault (.panic .overflow) ∧
    rl23.decode .checked 0 = fault (.panic .overflow) ∧
    gen_RLVector_decode .wrapping rl23c 0 = fault .fuel ∧
    rl23c.decode .wrapping 0 = fault (.panic .other) := by
  decide +kernel

/-- `hd` of `rl_decode_eq` is sharp, but only outside the representable range: an `IntVec` header claiming
`len = 2^64 + 1` (no such `Vec` exists) lets `offset + 1` overflow after a successful read at `offset = 2^64 - 1`. -/
theorem rl_decode_len_ne :
    let v : RL := { (default : RL) with data := ⟨U64 + 1, 4, ⟨0, #[]⟩⟩ }
    gen_RLVector_decode .checked v (U64 - 1) = fault (.panic .overflow) ∧
    gen_RLVector_decode .wrapping v (U64 - 1) = ok (0, 0) ∧
    v.decode .checked (U64 - 1) = ok (0, U64) := by
  decide

/-- `hb` of `rl_ones_after_eq` is sharp: for `block = usize::MAX` the code computes `block + 1` as a `usize` (panic with
overflow checks, `0` without, and then reads `samples[0]`), the model compares `2^64 < blocks` in `Nat` and returns
`ones`.  All callers pass `block < blocks`. -/
theorem rl_ones_after_ne :
    let v : RL := { (default : RL) with ones := 7, samples := IntVec.ofList 8 [5, 0, 9, 0] }
    gen_RLVector_ones_after .checked v (U64 - 1) = fault (.panic .overflow) ∧
    gen_RLVector_ones_after .wrapping v (U64 - 1) = ok 5 ∧
    v.onesAfter (U64 - 1) = ok 7 := by
  decide

/-- `hb` of `rl_iter_for_block_eq` is sharp: `block * 64` is a `usize` product in the code, a `Nat` product in the
model (`block = 2^58`). -/
theorem rl_iter_for_block_ne :
    let v : RL := default
    gen_RLVector_iter_for_block .checked v (2 ^ 58) = fault (.panic .overflow) ∧
    gen_RLVector_iter_for_block .wrapping v (2 ^ 58) = ok ⟨0, (0, 0), 0⟩ ∧
    v.iterForBlock (2 ^ 58) = ok ⟨U64, (0, 0), 0⟩ := by
  decide

/-- `hl` of `rl_block_for_eq` is needed: `high - low` is a `usize` subtraction in the code (panic / wrap-around and a
midpoint `2^63` for `low = 1`, `high = 0`), a truncated one in the model (which returns `low`). -/
theorem rl_block_for_ne :
    let f : Nat → Outcome Nat := fun _ => ok 0
    gen_RLVector_block_for .checked 1 0 0 f = fault (.panic .overflow) ∧
    gen_RLVector_block_for .wrapping 1 0 0 f = fault .fuel ∧
    RL.blockFor f 0 1 1 0 = ok 1 := by
  decide

/-- `hh` of `rl_block_for_eq` is sharp, but only outside the representable range (`high = 2^65`): the midpoint
`low + (high - low) / 2 = 2^64` is a `usize` sum in the code. -/
theorem rl_block_for_high_ne :
    let f : Nat → Outcome Nat := fun _ => ok 1
    gen_RLVector_block_for .checked 0 (2 * U64) 0 f = fault (.panic .overflow) ∧
    gen_RLVector_block_for .wrapping 0 (2 * U64) 0 f = ok 0 ∧
    RL.blockFor f 0 (2 * U64 + 1) 0 (2 * U64) = ok 0 := by
  decide +kernel

end Sds.GenEq
