/-
Proofs/GenEqRL2: the second part of Generated/FnsRL.lean (`rl_vector.rs`, translated statement by statement) is equal to
the hand-written model of Model/RL.lean.  Hypothesis bundles of part 1 (GenEqRL1): `RLBounds m v`, `RangeOK`.
All twelve functions call the run iterator through `next()` only (closure `|_| true`), so `run_next_eq` applies and no
`AdvAgree` hypothesis is needed.

* `select`, `select_iter` (`rl_select_eq`, `rl_select_iter_eq`): `RLBounds`, `ones < 2^64`, `RangeOK selectIndex rank`
  (the hypotheses of `iter_for_one`); the loop `while rank() <= rank { next() }` is `RL.advanceTo` (`adv_loop`).
* `zero_iter` (`rl_zero_iter_eq`): `RLBounds`.
* `select_zero`, `select_zero_iter` (`rl_select_zero_eq`, `rl_select_zero_iter_eq`): `RLBounds`, `len < 2^64`,
  `ones ≤ len` (`count_zeros`; needed: `rl_select_zero_ne`), `RangeOK selectZeroIndex rank`; the loop is
  `RL.selectZeroLoop` (`sz_loop`).
* `successor` (`rl_successor_eq`): `RLBounds`, `len < 2^64`, `RangeOK rankIndex value`; the loop is `RL.succLoop`.
* `OneIter::next` (`rl_one_next_eq'`): `RLBounds` and "when a value is returned, `rank + 1 < 2^64`" (the code adds in
  `usize`, the model in `Nat`; needed: `rl_one_next_ne`, an unreachable state).  `rl_one_next_eq`: `rank + 1 < 2^64`.
* `OneIter::size_hint` (`rl_one_size_hint_eq`): `rank ≤ ones` (needed: `rl_one_size_hint_ne`).
* `ZeroIter::next` (`rl_zero_next_eq'`): `RLBounds`, `len < 2^64`, `ones ≤ len`, "when a position is returned it is
  `< 2^64 - 1`", and `hgn`: with overflow checks on, an exhausted iterator has `rank ≤ index` in its run iterator: the
  model evaluates `rank_zero()` before `got_none`, the code short-circuits (`rl_zero_next_ne`: a model artefact on an
  unreachable state).
* `ZeroIter::size_hint` (`rl_zero_size_hint_eq`): `ones ≤ len`, `pos.0 ≤ count_zeros`.
* `Iter::next` (`rl_iter_next_eq'`): `RLBounds`, the end `start + len` of the current run is `< 2^64` (`hrun`), and "when
  a bit is returned, `pos + 1 < 2^64`".  `hrun` is needed, and `rl_iter_next_ne` is a DIVERGENCE between the code and
  the model reachable through `iter()` and `next()` in release builds on crafted data (a run ending at `2^64`): the code
  reports bit 1 of `rlBig` unset, the model reports it set.
* `Iter::size_hint` (`rl_iter_size_hint_eq`): `pos ≤ len`.
* `…_good`: on a well-formed vector (`RLQ.GoodB`).
-/
import Sds.Proofs.GenEqRL1

namespace Sds.GenEq
open Sds Outcome Generated

private theorem loopM_succR2 {σ ρ : Type} (n : Nat) (step : σ → Outcome (Ctl σ ρ)) (s : σ) :
    loopM (n + 1) step s = (step s).bind (fun c => match c with | .next s' => loopM n step s' | r => ok r) := rfl

/-! ### `select`, `select_iter`: the loop `while iter.rank() <= rank { iter.next(); }` -/

/-- the body of the loops of `select` (`c = rank() <= rank`) and `select_iter` (`c = rank() < rank`) -/
def stepWhile (ρ : Type) (m : Mode) (v : RL) (c : RunIter → Bool) : RunIter → Outcome (Ctl RunIter ρ) := fun iter => do
  if c iter then do
    let t2 ← gen_RunIter_next m v iter
    let iter := t2.2
    let _ := t2.1
    pure (Ctl.next iter)
  else do
    pure (Ctl.brk iter)

/-- what follows the loop of `select` -/
def finSel (m : Mode) (v : RL) (rank : Nat) : Ctl RunIter (Option Nat) → Outcome (Option Nat)
  | .ret _ => fault .fuel
  | .next _ => fault .fuel
  | .brk iter => do
    let t3 ← gen_RunIter_offset_for m v iter rank
    return (some t3)

/-- what follows the loop of `select_iter` -/
def finSelIter (rank : Nat) : Ctl RunIter RLOneIter → Outcome RLOneIter
  | .ret _ => fault .fuel
  | .next _ => fault .fuel
  | .brk iter => do
    return (⟨iter, false, rank⟩ : RLOneIter)

theorem gen_select_unfold (m : Mode) (v : RL) (rank : Nat) :
    gen_RLVector_select m v rank =
      if decide (rank ≥ v.ones) then ok none else
        (gen_RLVector_iter_for_one m v rank >>= fun iter =>
          loopM (v.data.len + 2) (stepWhile (Option Nat) m v (fun it => decide (it.pos.1 ≤ rank))) iter >>=
            finSel m v rank) := rfl

theorem adv_loop {ρ : Type} {m : Mode} {v : RL} (hb : RLBounds m v) (rank : Nat) (strict : Bool) (c : RunIter → Bool)
    (hc : ∀ it, c it = true ↔ (if strict then it.rank < rank else it.rank ≤ rank)) (fin : Ctl RunIter ρ → Outcome ρ)
    (k : RunIter → Outcome ρ) (hk : ∀ it, fin (.brk it) = k it) :
    ∀ fuel it, (loopM fuel (stepWhile ρ m v c) it >>= fin) = (RL.advanceTo m v rank strict fuel it >>= k) := by
  intro fuel
  induction fuel with
  | zero => intro it; rfl
  | succ n ih =>
    intro it
    rw [loopM_succR2, RL.advanceTo]
    unfold stepWhile
    by_cases h : c it = true
    · rw [if_pos h, if_pos ((hc it).1 h), run_next_eq hb]
      cases it.nextQ m v with
      | fault e => rfl
      | ok r =>
        obtain ⟨o, it'⟩ := r
        exact ih it'
    · rw [if_neg h, if_neg (fun h' => h ((hc it).2 h'))]
      exact hk it

/-- `RLVector::select` -/
theorem rl_select_eq {m : Mode} {v : RL} (hb : RLBounds m v) (rank : Nat) (hones : v.ones < U64)
    (hr : rank < v.ones → RangeOK v.selectIndex rank) :
    gen_RLVector_select m v rank = v.select m rank := by
  rw [gen_select_unfold, rl_iter_for_one_eq m v rank hones hr]
  unfold RL.select
  by_cases h : rank ≥ v.ones
  · simp only [h, decide_true, if_true]
  · simp only [h, decide_false, Bool.false_eq_true, if_false]
    cases v.iterForOne rank with
    | fault e => rfl
    | ok it =>
      simp only [bind_ok]
      rw [adv_loop hb rank false _ (fun it => by simp [RunIter.rank]) (finSel m v rank)
        (fun it => it.offsetFor m rank >>= fun p => ok (some p)) (fun it => by
          show (gen_RunIter_offset_for m v it rank >>= _) = _
          rw [run_offset_for_eq]; rfl)]
      rfl

theorem gen_select_iter_unfold (m : Mode) (v : RL) (rank : Nat) :
    gen_RLVector_select_iter m v rank =
      if decide (rank ≥ v.ones) then ok (RLOneIter.emptyIter v) else
        (gen_RLVector_iter_for_one m v rank >>= fun iter =>
          loopM (v.data.len + 2) (stepWhile RLOneIter m v (fun it => decide (it.pos.1 < rank))) iter >>=
            finSelIter rank) := rfl

/-- `RLVector::select_iter` -/
theorem rl_select_iter_eq {m : Mode} {v : RL} (hb : RLBounds m v) (rank : Nat) (hones : v.ones < U64)
    (hr : rank < v.ones → RangeOK v.selectIndex rank) :
    gen_RLVector_select_iter m v rank = v.selectIter m rank := by
  rw [gen_select_iter_unfold, rl_iter_for_one_eq m v rank hones hr]
  unfold RL.selectIter
  by_cases h : rank ≥ v.ones
  · simp only [h, decide_true, if_true]
  · simp only [h, decide_false, Bool.false_eq_true, if_false]
    cases v.iterForOne rank with
    | fault e => rfl
    | ok it =>
      simp only [bind_ok]
      rw [adv_loop hb rank true _ (fun it => by simp [RunIter.rank]) (finSelIter rank)
        (fun it => ok ⟨it, false, rank⟩) (fun it => rfl)]
      rfl

/-! ### `zero_iter` -/

/-- `RLVector::zero_iter` -/
theorem rl_zero_iter_eq {m : Mode} {v : RL} (hb : RLBounds m v) : gen_RLVector_zero_iter m v = v.zeroIter m := by
  unfold gen_RLVector_zero_iter RL.zeroIter
  rw [rl_run_iter_eq]
  cases v.runIter with
  | fault e => rfl
  | ok r =>
    simp only [bind_ok, run_next_eq hb]

/-! ### `select_zero`, `select_zero_iter` -/

/-- the body of the loop of `select_zero` (`mk _ _ r = some r`) and `select_zero_iter` (`mk it gn r = ⟨it, gn, (rank, r)⟩`) -/
def stepSZ (ρ : Type) (m : Mode) (v : RL) (rank : Nat) (mk : RunIter → Bool → Nat → ρ) :
    RunIter × Nat → Outcome (Ctl (RunIter × Nat) ρ) := fun (iter, ones) => do
  if true then do
    let t3 ← gen_RunIter_next m v iter
    let iter := t3.2
    match t3.1 with
    | some _ => do
        let t4 ← gen_RunIter_rank_zero m v iter
        if (decide (t4 > rank)) then do
          let t5 ← addM m rank ones
          pure (Ctl.ret (mk iter false t5))
        else do
          let ones := (iter.pos.1)
          pure (Ctl.next (iter, ones))
    | none => do
        let t6 ← addM m rank ones
        pure (Ctl.ret (mk iter true t6))
  else do
    pure (Ctl.brk (iter, ones))

def finSZ : Ctl (RunIter × Nat) (Option Nat) → Outcome (Option Nat)
  | .ret r => pure r
  | .next _ => fault .fuel
  | .brk _ => fault .fuel

def finSZIter : Ctl (RunIter × Nat) RLZeroIter → Outcome RLZeroIter
  | .ret r => pure r
  | .next _ => fault .fuel
  | .brk _ => fault .fuel

theorem gen_select_zero_unfold (m : Mode) (v : RL) (rank : Nat) :
    gen_RLVector_select_zero m v rank =
      (gen_RLVector_count_zeros m v >>= fun t1 =>
        if decide (rank ≥ t1) then ok none else
          (gen_RLVector_iter_for_zero m v rank >>= fun iter =>
            loopM (v.data.len + 2) (stepSZ (Option Nat) m v rank (fun _ _ r => some r)) (iter, iter.pos.1) >>=
              finSZ)) := rfl

theorem gen_select_zero_iter_unfold (m : Mode) (v : RL) (rank : Nat) :
    gen_RLVector_select_zero_iter m v rank =
      (gen_RLVector_count_zeros m v >>= fun t1 =>
        if decide (rank ≥ t1) then
          (gen_RunIter_empty_iter m v v >>= fun t2 => gen_RLVector_count_zeros m v >>= fun t3 =>
            ok (⟨t2, true, (t3, v.len)⟩ : RLZeroIter))
        else
          (gen_RLVector_iter_for_zero m v rank >>= fun iter =>
            loopM (v.data.len + 2) (stepSZ RLZeroIter m v rank (fun it gn r => ⟨it, gn, (rank, r)⟩))
              (iter, iter.pos.1) >>= finSZIter)) := rfl

theorem sz_loop {ρ : Type} {m : Mode} {v : RL} (hb : RLBounds m v) (rank : Nat) (mk : RunIter → Bool → Nat → ρ)
    (fin : Ctl (RunIter × Nat) ρ → Outcome ρ) (hfin : ∀ r, fin (.ret r) = ok r) :
    ∀ fuel it ones, (loopM fuel (stepSZ ρ m v rank mk) (it, ones) >>= fin) =
      (RL.selectZeroLoop m v rank fuel it ones >>= fun r => ok (mk r.2.1 r.2.2 r.1)) := by
  intro fuel
  induction fuel with
  | zero => intro it ones; rfl
  | succ n ih =>
    intro it ones
    rw [loopM_succR2, RL.selectZeroLoop]
    unfold stepSZ
    simp only [if_true]
    rw [run_next_eq hb]
    cases it.nextQ m v with
    | fault e => rfl
    | ok r =>
      obtain ⟨o, it'⟩ := r
      cases o with
      | none =>
        simp only [bind_ok]
        cases addM m rank ones with
        | fault e => rfl
        | ok r => exact hfin _
      | some r =>
        simp only [bind_ok, run_rank_zero_eq]
        cases it'.rankZero m with
        | fault e => rfl
        | ok rz =>
          simp only [bind_ok]
          by_cases h : rz > rank
          · simp only [h, decide_true, if_true]
            cases addM m rank ones with
            | fault e => rfl
            | ok r => exact hfin _
          · simp only [h, decide_false, Bool.false_eq_true, if_false]
            exact ih it' _

/-- `RLVector::select_zero` -/
theorem rl_select_zero_eq {m : Mode} {v : RL} (hb : RLBounds m v) (rank : Nat) (hlen : v.len < U64)
    (hol : v.ones ≤ v.len) (hr : rank < v.countZeros → RangeOK v.selectZeroIndex rank) :
    gen_RLVector_select_zero m v rank = v.selectZero m rank := by
  rw [gen_select_zero_unfold, rl_count_zeros_eq_ok m v hol, rl_iter_for_zero_eq m v rank hlen hol hr]
  unfold RL.selectZero
  simp only [bind_ok]
  by_cases h : rank ≥ v.countZeros
  · simp only [h, decide_true, if_true]
  · simp only [h, decide_false, Bool.false_eq_true, if_false]
    cases v.iterForZero m rank with
    | fault e => rfl
    | ok it =>
      simp only [bind_ok]
      rw [sz_loop hb rank _ finSZ (fun _ => rfl)]
      rfl

/-- `RLVector::select_zero_iter` -/
theorem rl_select_zero_iter_eq {m : Mode} {v : RL} (hb : RLBounds m v) (rank : Nat) (hlen : v.len < U64)
    (hol : v.ones ≤ v.len) (hr : rank < v.countZeros → RangeOK v.selectZeroIndex rank) :
    gen_RLVector_select_zero_iter m v rank = v.selectZeroIter m rank := by
  rw [gen_select_zero_iter_unfold, rl_count_zeros_eq_ok m v hol, rl_iter_for_zero_eq m v rank hlen hol hr]
  unfold RL.selectZeroIter
  simp only [bind_ok]
  by_cases h : rank ≥ v.countZeros
  · simp only [h, decide_true, if_true, run_empty_iter_eq, bind_ok]
  · simp only [h, decide_false, Bool.false_eq_true, if_false]
    cases v.iterForZero m rank with
    | fault e => rfl
    | ok it =>
      simp only [bind_ok]
      rw [sz_loop hb rank _ finSZIter (fun _ => rfl)]
      rfl

/-! ### `successor` -/

/-- the body of the loop of `successor` (the lambda of the generated code, by `rfl`) -/
def stepSucc (m : Mode) (v : RL) (value : Nat) : RunIter × Nat → Outcome (Ctl (RunIter × Nat) RLOneIter) :=
  fun (iter, rank) => do
    if true then do
      let t2 ← gen_RunIter_next m v iter
      let iter := t2.2
      let result := t2.1
      if (result).isNone then do
        pure (Ctl.ret (RLOneIter.emptyIter v))
      else do
        let t3 ← unwrapM result
        let (start, len) := t3
        if (decide (start > value)) then do
          let t4 ← subM m (iter.pos.1) len
          let rank := t4
          pure (Ctl.brk (iter, rank))
        else do
          if (decide ((iter.pos.2) > value)) then do
            let t5 ← gen_RunIter_rank_at m v iter value
            let rank := t5
            pure (Ctl.brk (iter, rank))
          else do
            pure (Ctl.next (iter, rank))
    else do
      pure (Ctl.brk (iter, rank))

def finSucc : Ctl (RunIter × Nat) RLOneIter → Outcome RLOneIter
  | .ret r => pure r
  | .next _ => fault .fuel
  | .brk (iter, rank) => do
    return (⟨iter, false, rank⟩ : RLOneIter)

theorem gen_successor_unfold (m : Mode) (v : RL) (value : Nat) :
    gen_RLVector_successor m v value =
      if decide (value ≥ v.len) then ok (RLOneIter.emptyIter v) else
        (gen_RLVector_iter_for_bit m v value >>= fun iter =>
          loopM (v.data.len + 2) (stepSucc m v value) (iter, 0) >>= finSucc) := rfl

/-- what `successor` makes of the result of the loop -/
def succK (v : RL) : Option (RunIter × Nat) → Outcome RLOneIter
  | none => return RLOneIter.emptyIter v
  | some (it', r) => return ⟨it', false, r⟩

theorem succ_loop {m : Mode} {v : RL} (hb : RLBounds m v) (value : Nat) :
    ∀ fuel it rk, (loopM fuel (stepSucc m v value) (it, rk) >>= finSucc) =
      (RL.succLoop m v value fuel it >>= succK v) := by
  intro fuel
  induction fuel with
  | zero => intro it rk; rfl
  | succ n ih =>
    intro it rk
    rw [loopM_succR2, RL.succLoop]
    unfold stepSucc
    simp only [if_true]
    rw [run_next_eq hb]
    cases it.nextQ m v with
    | fault e => rfl
    | ok r =>
      obtain ⟨o, it'⟩ := r
      cases o with
      | none => rfl
      | some r =>
        obtain ⟨start, len⟩ := r
        simp only [bind_ok, Option.isNone_some, Bool.false_eq_true, if_false, unwrapM]
        by_cases h1 : start > value
        · simp only [h1, decide_true, if_true]
          show ((subM m it'.pos.1 len >>= _).bind _ >>= _) = (subM m it'.pos.1 len >>= _) >>= _
          cases subM m it'.pos.1 len <;> rfl
        · simp only [h1, decide_false, Bool.false_eq_true, if_false]
          by_cases h2 : it'.pos.2 > value
          · have h2' : it'.offsetBits > value := h2
            simp only [h2, h2', decide_true, if_true, run_rank_at_eq]
            cases it'.rankAt m value <;> rfl
          · have h2' : ¬ it'.offsetBits > value := h2
            simp only [h2, h2', decide_false, Bool.false_eq_true, if_false]
            exact ih it' rk

/-- `RLVector::successor` -/
theorem rl_successor_eq {m : Mode} {v : RL} (hb : RLBounds m v) (value : Nat) (hlen : v.len < U64)
    (hr : value < v.len → RangeOK v.rankIndex value) :
    gen_RLVector_successor m v value = v.successor m value := by
  rw [gen_successor_unfold, rl_iter_for_bit_eq m v value hlen hr]
  unfold RL.successor
  by_cases h : value ≥ v.len
  · simp only [h, decide_true, if_true]
  · simp only [h, decide_false, Bool.false_eq_true, if_false]
    cases v.iterForBit value with
    | fault e => rfl
    | ok it =>
      simp only [bind_ok]
      rw [succ_loop hb value]
      cases RL.succLoop m v value (v.data.len + 2) it with
      | fault e => rfl
      | ok o => cases o <;> rfl

/-! ### `OneIter::next`, `size_hint` -/

/-- first half of the model's `next`: fetch the next run when the current one is used up -/
def oneAdv (m : Mode) (v : RL) (it : RLOneIter) : Outcome RLOneIter :=
  if !it.gotNone && it.rank ≥ it.iter.rank then do
    let (o, ri) ← it.iter.nextQ m v
    return { it with iter := ri, gotNone := o.isNone }
  else return it

/-- second half of the model's `next` -/
def oneTail (m : Mode) (it : RLOneIter) : Outcome (Option (Nat × Nat) × RLOneIter) :=
  if it.gotNone then return (none, it) else do
    let p ← it.iter.offsetFor m it.rank
    return (some (it.rank, p), { it with rank := it.rank + 1 })

theorem one_nextQ_eq (m : Mode) (v : RL) (it : RLOneIter) : it.nextQ m v = oneAdv m v it >>= oneTail m := rfl

/-- first half of the generated `next` -/
def genOneAdv (m : Mode) (v : RL) (it : RLOneIter) : Outcome (Bool × RunIter) :=
  let self_iter := it.iter
  let self_got_none := it.gotNone
  let self_rank := it.rank
  (if ((!self_got_none) && (decide (self_rank ≥ (self_iter.pos.1)))) then do
      let t1 ← gen_RunIter_next m v self_iter
      let self_iter := t1.2
      let self_got_none := (t1.1).isNone
      pure (self_got_none, self_iter)
    else do
      pure (self_got_none, self_iter))

/-- second half of the generated `next` -/
def genOneTail (m : Mode) (v : RL) (self_rank : Nat) : Bool × RunIter → Outcome ((Option (Nat × Nat)) × RLOneIter) :=
  fun (self_got_none, self_iter) => do
  if self_got_none then do
    return (none, (⟨self_iter, self_got_none, self_rank⟩ : RLOneIter))
  else do
    let t2 ← gen_RunIter_offset_for m v self_iter self_rank
    let result := (self_rank, t2)
    let t3 ← addM m self_rank 1
    let self_rank := t3
    return ((some result), (⟨self_iter, self_got_none, self_rank⟩ : RLOneIter))

theorem gen_one_next_unfold (m : Mode) (v : RL) (it : RLOneIter) :
    gen_RLOneIter_next m v it = genOneAdv m v it >>= genOneTail m v it.rank := rfl

theorem genOneAdv_eq {m : Mode} {v : RL} (hb : RLBounds m v) (it : RLOneIter) :
    genOneAdv m v it = oneAdv m v it >>= fun it1 => ok (it1.gotNone, it1.iter) := by
  unfold genOneAdv oneAdv
  show (if (!it.gotNone && decide (it.rank ≥ it.iter.rank)) = true then _ else _) = _
  cases (!it.gotNone && decide (it.rank ≥ it.iter.rank)) with
  | false => rfl
  | true =>
    simp only [if_true, run_next_eq hb]
    cases it.iter.nextQ m v with
    | fault e => rfl
    | ok r => rfl

theorem oneAdv_rank {m : Mode} {v : RL} {it it1 : RLOneIter} (h : oneAdv m v it = ok it1) : it1.rank = it.rank := by
  unfold oneAdv at h
  cases hc : (!it.gotNone && decide (it.rank ≥ it.iter.rank)) with
  | false =>
    rw [hc] at h
    injection h with h; rw [← h]
  | true =>
    rw [hc] at h
    simp only [if_true] at h
    cases hn : it.iter.nextQ m v with
    | fault e => rw [hn] at h; cases h
    | ok r =>
      rw [hn] at h
      injection h with h; rw [← h]

theorem one_tail_eq (m : Mode) (v : RL) (it1 : RLOneIter)
    (h : ∀ p it', oneTail m it1 = ok (some p, it') → it1.rank + 1 < U64) :
    genOneTail m v it1.rank (it1.gotNone, it1.iter) = oneTail m it1 := by
  unfold genOneTail oneTail at *
  obtain ⟨iter, gn, rank⟩ := it1
  cases gn with
  | true => rfl
  | false =>
    simp only [Bool.false_eq_true, if_false, run_offset_for_eq] at h ⊢
    cases hp : iter.offsetFor m rank with
    | fault e => rfl
    | ok p =>
      rw [hp] at h
      simp only [bind_ok] at h ⊢
      rw [addM_ok (h _ _ rfl)]
      rfl

/-- `OneIter::next`.  The code adds `rank + 1` in `usize`, the model in `Nat`: equal provided the rank returned is
not `2^64 - 1` (`h`; see `rl_one_next_eq` for the usual form, `rl_one_next_ne` for the need). -/
theorem rl_one_next_eq' {m : Mode} {v : RL} (hb : RLBounds m v) (it : RLOneIter)
    (h : ∀ p it', it.nextQ m v = ok (some p, it') → it.rank + 1 < U64) :
    gen_RLOneIter_next m v it = it.nextQ m v := by
  rw [gen_one_next_unfold, genOneAdv_eq hb]
  rw [one_nextQ_eq] at h ⊢
  cases hadv : oneAdv m v it with
  | fault e => rfl
  | ok it1 =>
    rw [hadv] at h
    simp only [bind_ok] at h ⊢
    have hr := oneAdv_rank hadv
    rw [← hr] at h ⊢
    exact one_tail_eq m v it1 h

theorem rl_one_next_eq {m : Mode} {v : RL} (hb : RLBounds m v) (it : RLOneIter) (h : it.rank + 1 < U64) :
    gen_RLOneIter_next m v it = it.nextQ m v :=
  rl_one_next_eq' hb it (fun _ _ _ => h)

/-- `OneIter::size_hint`: the `usize` subtraction is exact under the invariant `rank ≤ ones` -/
theorem rl_one_size_hint_eq (m : Mode) (v : RL) (it : RLOneIter) (h : it.rank ≤ v.ones) :
    gen_RLOneIter_size_hint m v it = ok (it.remaining v, some (it.remaining v)) := by
  unfold gen_RLOneIter_size_hint RLOneIter.remaining
  rw [subM_ok h]; rfl

/-! ### `ZeroIter::next`, `size_hint` -/

theorem obind_assoc {α β γ : Type} (x : Outcome α) (f : α → Outcome β) (g : β → Outcome γ) :
    ((x >>= f) >>= g) = (x >>= fun a => f a >>= g) := by
  cases x <;> rfl

/-- first half of the model's `next`: fetch the next run when the zeros before it are used up -/
def zeroAdv (m : Mode) (v : RL) (z : RLZeroIter) : Outcome RLZeroIter := do
  let rz ← z.iter.rankZero m
  (if !z.gotNone && z.pos.1 ≥ rz then do
      let (o, ri) ← z.iter.nextQ m v
      return { z with pos := (z.pos.1, z.iter.offsetBits), iter := ri, gotNone := o.isNone }
    else return z : Outcome RLZeroIter)

/-- second half of the model's `next` -/
def zeroTail (v : RL) (z : RLZeroIter) : Outcome (Option (Nat × Nat) × RLZeroIter) :=
  if z.pos.1 ≥ v.countZeros then return (none, z)
  else return (some z.pos, { z with pos := (z.pos.1 + 1, z.pos.2 + 1) })

theorem zero_nextQ_eq (m : Mode) (v : RL) (z : RLZeroIter) : z.nextQ m v = zeroAdv m v z >>= zeroTail v := by
  unfold RLZeroIter.nextQ zeroAdv
  cases z.iter.rankZero m <;> rfl

/-- the condition of the generated `next`: `!got_none && pos.0 >= iter.rank_zero()` (short-circuit) -/
def genZeroCond (m : Mode) (v : RL) (z : RLZeroIter) : Outcome Bool :=
  let self_iter := z.iter
  let self_got_none := z.gotNone
  let self_pos := z.pos
  (if (!self_got_none) then do
      let t1 ← gen_RunIter_rank_zero m v self_iter
      pure (decide (self_pos.1 ≥ t1))
    else do
      pure false)

/-- first half of the generated `next` -/
def genZeroAdv (m : Mode) (v : RL) (z : RLZeroIter) (t2 : Bool) : Outcome (Bool × RunIter × (Nat × Nat)) :=
  let self_iter := z.iter
  let self_got_none := z.gotNone
  let self_pos := z.pos
  (if t2 then do
      let self_pos := (self_pos.1, (self_iter.pos.2))
      let t3 ← gen_RunIter_next m v self_iter
      let self_iter := t3.2
      let self_got_none := (t3.1).isNone
      pure (self_got_none, self_iter, self_pos)
    else do
      pure (self_got_none, self_iter, self_pos))

/-- second half of the generated `next` -/
def genZeroTail (m : Mode) (v : RL) : Bool × RunIter × (Nat × Nat) → Outcome ((Option (Nat × Nat)) × RLZeroIter) :=
  fun (self_got_none, self_iter, self_pos) => do
  let t4 ← gen_RLVector_count_zeros m v
  if (decide (self_pos.1 ≥ t4)) then do
    return (none, (⟨self_iter, self_got_none, self_pos⟩ : RLZeroIter))
  else do
    let result := self_pos
    let t5 ← addM m self_pos.1 1
    let self_pos := (t5, self_pos.2)
    let t6 ← addM m self_pos.2 1
    let self_pos := (self_pos.1, t6)
    return ((some result), (⟨self_iter, self_got_none, self_pos⟩ : RLZeroIter))

theorem gen_zero_next_unfold (m : Mode) (v : RL) (z : RLZeroIter) :
    gen_RLZeroIter_next m v z = (genZeroCond m v z >>= fun t2 => genZeroAdv m v z t2 >>= genZeroTail m v) := rfl

theorem subM_wrapping_ok (a b : Nat) : ∃ r, subM .wrapping a b = ok r := by
  unfold subM
  by_cases h : b ≤ a
  · exact ⟨_, if_pos h⟩
  · exact ⟨_, if_neg h⟩

/-- the model evaluates `rank_zero()` even when `got_none` is set, the code does not (`&&` short-circuits) -/
theorem genZeroAdv_eq {m : Mode} {v : RL} (hb : RLBounds m v) (z : RLZeroIter)
    (hgn : z.gotNone = true → m = .checked → z.iter.rank ≤ z.iter.offsetBits) :
    (genZeroCond m v z >>= genZeroAdv m v z) = zeroAdv m v z >>= fun z1 => ok (z1.gotNone, z1.iter, z1.pos) := by
  obtain ⟨iter, gn, pos⟩ := z
  unfold genZeroCond genZeroAdv zeroAdv
  cases gn with
  | true =>
    have hrz : ∃ rz, iter.rankZero m = ok rz := by
      cases m with
      | checked => exact ⟨_, subM_ok (hgn rfl rfl)⟩
      | wrapping => exact subM_wrapping_ok _ _
    obtain ⟨rz, hrz⟩ := hrz
    rw [hrz]
    rfl
  | false =>
    simp only [Bool.not_false, if_true, run_rank_zero_eq, Bool.true_and]
    cases iter.rankZero m with
    | fault e => rfl
    | ok rz =>
      simp only [bind_ok, pure_eq]
      cases decide (pos.1 ≥ rz) with
      | false => rfl
      | true =>
        simp only [if_true, run_next_eq hb]
        cases iter.nextQ m v with
        | fault e => rfl
        | ok r => rfl

theorem zero_tail_eq (m : Mode) (v : RL) (z1 : RLZeroIter) (hlen : v.len < U64) (hol : v.ones ≤ v.len)
    (h : ∀ p z', zeroTail v z1 = ok (some p, z') → p.2 + 1 < U64) :
    genZeroTail m v (z1.gotNone, z1.iter, z1.pos) = zeroTail v z1 := by
  unfold genZeroTail zeroTail at *
  obtain ⟨iter, gn, pos⟩ := z1
  simp only [rl_count_zeros_eq_ok m v hol, bind_ok] at h ⊢
  by_cases hc : pos.1 ≥ v.countZeros
  · simp only [hc, decide_true, if_true]
  · simp only [hc, decide_false, Bool.false_eq_true, if_false] at h ⊢
    have h1 : pos.1 + 1 < U64 := by
      have : v.countZeros ≤ v.len := Nat.sub_le _ _
      omega
    rw [addM_ok h1, bind_ok, addM_ok (h _ _ rfl)]
    rfl

/-- `ZeroIter::next`.  `ones ≤ len` (`count_zeros` is a `usize` subtraction), the position returned is not
`2^64 - 1` (`h`: the code adds `pos.1 + 1` in `usize`), and `hgn`: with overflow checks on, an exhausted iterator
(`got_none`) has `rank ≤ index` in its run iterator (the model evaluates `rank_zero()` unconditionally, the code only
when `got_none` is not set: `rl_zero_next_ne`). -/
theorem rl_zero_next_eq' {m : Mode} {v : RL} (hb : RLBounds m v) (z : RLZeroIter) (hlen : v.len < U64)
    (hol : v.ones ≤ v.len) (hgn : z.gotNone = true → m = .checked → z.iter.rank ≤ z.iter.offsetBits)
    (h : ∀ p z', z.nextQ m v = ok (some p, z') → p.2 + 1 < U64) :
    gen_RLZeroIter_next m v z = z.nextQ m v := by
  rw [gen_zero_next_unfold, ← obind_assoc, genZeroAdv_eq hb z hgn]
  rw [zero_nextQ_eq] at h ⊢
  cases hadv : zeroAdv m v z with
  | fault e => rfl
  | ok z1 =>
    rw [hadv] at h
    simp only [bind_ok] at h ⊢
    exact zero_tail_eq m v z1 hlen hol h

/-- the position of a zero after the step is one of the two positions in the state -/
theorem zeroAdv_pos {m : Mode} {v : RL} {z z1 : RLZeroIter} (h : zeroAdv m v z = ok z1) :
    z1.pos.2 = z.pos.2 ∨ z1.pos.2 = z.iter.offsetBits := by
  unfold zeroAdv at h
  cases hrz : z.iter.rankZero m with
  | fault e => rw [hrz] at h; cases h
  | ok rz =>
    rw [hrz] at h
    simp only [bind_ok] at h
    cases hc : (!z.gotNone && decide (z.pos.1 ≥ rz)) with
    | false =>
      rw [hc] at h
      injection h with h; rw [← h]; exact Or.inl rfl
    | true =>
      rw [hc] at h
      simp only [if_true] at h
      cases hn : z.iter.nextQ m v with
      | fault e => rw [hn] at h; cases h
      | ok r =>
        rw [hn] at h
        injection h with h; rw [← h]; exact Or.inr rfl

/-- `ZeroIter::next`, usual form: both candidate positions are below `2^64 - 1` -/
theorem rl_zero_next_eq {m : Mode} {v : RL} (hb : RLBounds m v) (z : RLZeroIter) (hlen : v.len < U64)
    (hol : v.ones ≤ v.len) (hgn : z.gotNone = true → m = .checked → z.iter.rank ≤ z.iter.offsetBits)
    (hp : z.pos.2 + 1 < U64) (hi : z.iter.offsetBits + 1 < U64) :
    gen_RLZeroIter_next m v z = z.nextQ m v := by
  refine rl_zero_next_eq' hb z hlen hol hgn (fun p z' h => ?_)
  rw [zero_nextQ_eq] at h
  cases hadv : zeroAdv m v z with
  | fault e => rw [hadv] at h; cases h
  | ok z1 =>
    rw [hadv] at h
    simp only [bind_ok] at h
    have hpos := zeroAdv_pos hadv
    unfold zeroTail at h
    by_cases hc : z1.pos.1 ≥ v.countZeros
    · rw [if_pos hc] at h; cases h
    · rw [if_neg hc] at h
      injection h with h; injection h with h1 h2; injection h1 with h1
      rw [← h1]
      cases hpos with
      | inl e => rw [e]; exact hp
      | inr e => rw [e]; exact hi

/-- `ZeroIter::size_hint`: the two `usize` subtractions are exact under `ones ≤ len` and the invariant
`pos.0 ≤ count_zeros` -/
theorem rl_zero_size_hint_eq (m : Mode) (v : RL) (z : RLZeroIter) (hol : v.ones ≤ v.len)
    (h : z.pos.1 ≤ v.countZeros) :
    gen_RLZeroIter_size_hint m v z = ok (z.remaining v, some (z.remaining v)) := by
  unfold gen_RLZeroIter_size_hint RLZeroIter.remaining
  rw [rl_count_zeros_eq_ok m v hol, bind_ok, subM_ok h]; rfl

/-! ### `Iter::next`, `size_hint` -/

/-- first half of the model's `next`: fetch the next run when the position has passed the current one -/
def iterAdv (m : Mode) (v : RL) (it : RLIter) : Outcome RLIter :=
  match it.run with
  | some (start, len) =>
    if it.pos ≥ start + len then do
      let (o, ri) ← it.iter.nextQ m v
      return { it with iter := ri, run := o }
    else return it
  | none => return it

/-- second half of the model's `next` -/
def iterTail (v : RL) (it : RLIter) : Outcome (Option Bool × RLIter) :=
  match it.run with
  | some (start, _) => return (some (decide (it.pos + 1 > start)), { it with pos := it.pos + 1 })
  | none => if it.pos ≥ v.len then return (none, it) else return (some false, { it with pos := it.pos + 1 })

theorem iter_nextQ_eq (m : Mode) (v : RL) (it : RLIter) : it.nextQ m v = iterAdv m v it >>= iterTail v := rfl

/-- first half of the generated `next` -/
def genIterAdv (m : Mode) (v : RL) (it : RLIter) : Outcome (RunIter × Option (Nat × Nat)) :=
  let self_iter := it.iter
  let self_run := it.run
  let self_pos := it.pos
  (match self_run with
    | some some1 => do
        let (start, len) := some1
        let t1 ← addM m start len
        let (self_iter, self_run) ← (if (decide (self_pos ≥ t1)) then do
            let t2 ← gen_RunIter_next m v self_iter
            let self_iter := t2.2
            let self_run := t2.1
            pure (self_iter, self_run)
          else do
            pure (self_iter, self_run))
        pure (self_iter, self_run)
    | none => do
        pure (self_iter, self_run))

/-- second half of the generated `next` -/
def genIterTail (m : Mode) (v : RL) (self_pos : Nat) : RunIter × Option (Nat × Nat) → Outcome ((Option Bool) × RLIter) :=
  fun (self_iter, self_run) => do
  match self_run with
  | some some2 => do
      let (start, _) := some2
      let t3 ← addM m self_pos 1
      let self_pos := t3
      return ((some (decide (self_pos > start))), (⟨self_iter, self_run, self_pos⟩ : RLIter))
  | none => do
      if (decide (self_pos ≥ (v.len))) then do
        return (none, (⟨self_iter, self_run, self_pos⟩ : RLIter))
      else do
        let t4 ← addM m self_pos 1
        let self_pos := t4
        return ((some false), (⟨self_iter, self_run, self_pos⟩ : RLIter))

theorem gen_iter_next_unfold (m : Mode) (v : RL) (it : RLIter) :
    gen_RLIter_next m v it = genIterAdv m v it >>= genIterTail m v it.pos := rfl

theorem genIterAdv_eq {m : Mode} {v : RL} (hb : RLBounds m v) (it : RLIter)
    (hrun : ∀ s l, it.run = some (s, l) → s + l < U64) :
    genIterAdv m v it = iterAdv m v it >>= fun it1 => ok (it1.iter, it1.run) := by
  obtain ⟨iter, run, pos⟩ := it
  unfold genIterAdv iterAdv
  cases run with
  | none => rfl
  | some r =>
    obtain ⟨s, l⟩ := r
    simp only [addM_ok (hrun s l rfl), bind_ok]
    by_cases hc : pos ≥ s + l
    · simp only [hc, decide_true, if_true, run_next_eq hb]
      cases iter.nextQ m v with
      | fault e => rfl
      | ok r => rfl
    · simp only [hc, decide_false, Bool.false_eq_true, if_false]
      rfl

theorem iterAdv_pos {m : Mode} {v : RL} {it it1 : RLIter} (h : iterAdv m v it = ok it1) : it1.pos = it.pos := by
  obtain ⟨iter, run, pos⟩ := it
  unfold iterAdv at h
  cases run with
  | none => injection h with h; rw [← h]
  | some r =>
    obtain ⟨s, l⟩ := r
    simp only at h
    by_cases hc : pos ≥ s + l
    · rw [if_pos hc] at h
      cases hn : iter.nextQ m v with
      | fault e => rw [hn] at h; cases h
      | ok r =>
        rw [hn] at h
        injection h with h; rw [← h]
    · rw [if_neg hc] at h
      injection h with h; rw [← h]

theorem iter_tail_eq (m : Mode) (v : RL) (it1 : RLIter)
    (h : ∀ b it', iterTail v it1 = ok (some b, it') → it1.pos + 1 < U64) :
    genIterTail m v it1.pos (it1.iter, it1.run) = iterTail v it1 := by
  unfold genIterTail iterTail at *
  obtain ⟨iter, run, pos⟩ := it1
  cases run with
  | some r =>
    obtain ⟨s, l⟩ := r
    simp only at h ⊢
    rw [addM_ok (h _ _ rfl)]
    rfl
  | none =>
    simp only at h ⊢
    by_cases hc : pos ≥ v.len
    · simp only [hc, decide_true, if_true]
    · simp only [hc, decide_false, Bool.false_eq_true, if_false] at h ⊢
      rw [addM_ok (h _ _ rfl)]
      rfl

/-- `Iter::next`.  The end `start + len` of the current run is representable (`hrun`: the code adds in `usize`, the
model in `Nat`; in release builds a crafted run ending at `2^64` makes them DIFFER: `rl_iter_next_ne`), and the
position is not `2^64 - 1` when a bit is returned (`h`). -/
theorem rl_iter_next_eq' {m : Mode} {v : RL} (hb : RLBounds m v) (it : RLIter)
    (hrun : ∀ s l, it.run = some (s, l) → s + l < U64)
    (h : ∀ b it', it.nextQ m v = ok (some b, it') → it.pos + 1 < U64) :
    gen_RLIter_next m v it = it.nextQ m v := by
  rw [gen_iter_next_unfold, genIterAdv_eq hb it hrun]
  rw [iter_nextQ_eq] at h ⊢
  cases hadv : iterAdv m v it with
  | fault e => rfl
  | ok it1 =>
    rw [hadv] at h
    simp only [bind_ok] at h ⊢
    have hr := iterAdv_pos hadv
    rw [← hr] at h ⊢
    exact iter_tail_eq m v it1 h

theorem rl_iter_next_eq {m : Mode} {v : RL} (hb : RLBounds m v) (it : RLIter)
    (hrun : ∀ s l, it.run = some (s, l) → s + l < U64) (hp : it.pos + 1 < U64) :
    gen_RLIter_next m v it = it.nextQ m v :=
  rl_iter_next_eq' hb it hrun (fun _ _ _ => hp)

/-- `Iter::size_hint`: the `usize` subtraction is exact under the invariant `pos ≤ len` -/
theorem rl_iter_size_hint_eq (m : Mode) (v : RL) (it : RLIter) (h : it.pos ≤ v.len) :
    gen_RLIter_size_hint m v it = ok (it.remaining v, some (it.remaining v)) := by
  unfold gen_RLIter_size_hint RLIter.remaining
  rw [subM_ok h]; rfl

/-! ### corollaries for well-formed vectors (`RLQ.GoodB`: what `From<RLBuilder>` produces) -/

section Good
open RLQ

theorem good_ones_lt {v : RL} {bl : Blocks} (g : GoodB v bl) : v.ones < U64 := by
  have := g.len_lt; have := good_ones_le g; omega

theorem rl_select_eq_good {m : Mode} {v : RL} {bl : Blocks} (g : GoodB v bl) (hd : v.data.len + 63 < U64)
    (hdec : m = .wrapping → ∀ o, ¬ units23 v o) (rank : Nat) : gen_RLVector_select m v rank = v.select m rank :=
  rl_select_eq (good_bounds g hd hdec) rank (good_ones_lt g) (good_select_range g hd rank)

theorem rl_select_iter_eq_good {m : Mode} {v : RL} {bl : Blocks} (g : GoodB v bl) (hd : v.data.len + 63 < U64)
    (hdec : m = .wrapping → ∀ o, ¬ units23 v o) (rank : Nat) :
    gen_RLVector_select_iter m v rank = v.selectIter m rank :=
  rl_select_iter_eq (good_bounds g hd hdec) rank (good_ones_lt g) (good_select_range g hd rank)

theorem rl_zero_iter_eq_good {m : Mode} {v : RL} {bl : Blocks} (g : GoodB v bl) (hd : v.data.len + 63 < U64)
    (hdec : m = .wrapping → ∀ o, ¬ units23 v o) : gen_RLVector_zero_iter m v = v.zeroIter m :=
  rl_zero_iter_eq (good_bounds g hd hdec)

theorem rl_select_zero_eq_good {m : Mode} {v : RL} {bl : Blocks} (g : GoodB v bl) (hd : v.data.len + 63 < U64)
    (hdec : m = .wrapping → ∀ o, ¬ units23 v o) (rank : Nat) :
    gen_RLVector_select_zero m v rank = v.selectZero m rank :=
  rl_select_zero_eq (good_bounds g hd hdec) rank g.len_lt (good_ones_le g) (good_zero_range g hd rank)

theorem rl_select_zero_iter_eq_good {m : Mode} {v : RL} {bl : Blocks} (g : GoodB v bl) (hd : v.data.len + 63 < U64)
    (hdec : m = .wrapping → ∀ o, ¬ units23 v o) (rank : Nat) :
    gen_RLVector_select_zero_iter m v rank = v.selectZeroIter m rank :=
  rl_select_zero_iter_eq (good_bounds g hd hdec) rank g.len_lt (good_ones_le g) (good_zero_range g hd rank)

theorem rl_successor_eq_good {m : Mode} {v : RL} {bl : Blocks} (g : GoodB v bl) (hd : v.data.len + 63 < U64)
    (hdec : m = .wrapping → ∀ o, ¬ units23 v o) (value : Nat) :
    gen_RLVector_successor m v value = v.successor m value :=
  rl_successor_eq (good_bounds g hd hdec) value g.len_lt (good_rank_range g hd value)

/-- `OneIter::next` on a well-formed vector, for an iterator with `rank < ones` -/
theorem rl_one_next_eq_good {m : Mode} {v : RL} {bl : Blocks} (g : GoodB v bl) (hd : v.data.len + 63 < U64)
    (hdec : m = .wrapping → ∀ o, ¬ units23 v o) (it : RLOneIter) (h : it.rank < v.ones) :
    gen_RLOneIter_next m v it = it.nextQ m v :=
  rl_one_next_eq (good_bounds g hd hdec) it (by have := good_ones_lt g; omega)

/-- `ZeroIter::next` on a well-formed vector -/
theorem rl_zero_next_eq_good {m : Mode} {v : RL} {bl : Blocks} (g : GoodB v bl) (hd : v.data.len + 63 < U64)
    (hdec : m = .wrapping → ∀ o, ¬ units23 v o) (z : RLZeroIter)
    (hgn : z.gotNone = true → m = .checked → z.iter.rank ≤ z.iter.offsetBits)
    (hp : z.pos.2 < v.len) (hi : z.iter.offsetBits < v.len) :
    gen_RLZeroIter_next m v z = z.nextQ m v := by
  have := g.len_lt
  exact rl_zero_next_eq (good_bounds g hd hdec) z g.len_lt (good_ones_le g) hgn (by omega) (by omega)

/-- `Iter::next` on a well-formed vector -/
theorem rl_iter_next_eq_good {m : Mode} {v : RL} {bl : Blocks} (g : GoodB v bl) (hd : v.data.len + 63 < U64)
    (hdec : m = .wrapping → ∀ o, ¬ units23 v o) (it : RLIter)
    (hrun : ∀ s l, it.run = some (s, l) → s + l ≤ v.len) (hp : it.pos < v.len) :
    gen_RLIter_next m v it = it.nextQ m v := by
  have := g.len_lt
  exact rl_iter_next_eq (good_bounds g hd hdec) it (fun s l h => by have := hrun s l h; omega) (by omega)

theorem rl_zero_size_hint_eq_good (m : Mode) {v : RL} {bl : Blocks} (g : GoodB v bl) (z : RLZeroIter)
    (h : z.pos.1 ≤ v.countZeros) :
    gen_RLZeroIter_size_hint m v z = ok (z.remaining v, some (z.remaining v)) :=
  rl_zero_size_hint_eq m v z (good_ones_le g) h

end Good

/-! ### the hypotheses are needed: concrete witnesses -/

/-- one run `(0, 2^64 - 1)` (code units `0`, then the 22 units of `2^64 - 2`) -/
def rlOnes : RL :=
  { (default : RL) with len := 100, ones := 5, data := IntVec.ofList 4 (0 :: RLBuilder.encodeUnits 23 (U64 - 2)) }

/-- one run `(0, 1)` -/
def rlShort : RL := { (default : RL) with len := 100, ones := 1, data := IntVec.ofList 4 [0, 0] }

/-- `OneIter::next`, `h` is needed: an iterator whose rank is `2^64 - 1` (NOT reachable: `select_iter`, `successor`,
`predecessor`, `one_iter` produce `rank ≤ ones ≤ len < 2^64`, and `next` returns `None` at `rank = ones`): the code
panics on `rank + 1` (wraps to 0 in release builds), the model counts on in `Nat`.  Not a divergence of real behaviour. -/
theorem rl_one_next_ne :
    let it : RLOneIter := ⟨⟨0, (0, 0), 5⟩, false, U64 - 1⟩
    let ri : RunIter := ⟨23, (U64 - 1, U64 - 1), 5⟩
    gen_RLOneIter_next .checked rlOnes it = fault (.panic .overflow) ∧
    gen_RLOneIter_next .wrapping rlOnes it = ok (some (U64 - 1, U64 - 1), ⟨ri, false, 0⟩) ∧
    it.nextQ .checked rlOnes = ok (some (U64 - 1, U64 - 1), ⟨ri, false, U64⟩) ∧
    it.nextQ .wrapping rlOnes = ok (some (U64 - 1, U64 - 1), ⟨ri, false, U64⟩) := by
  decide +kernel

/-- `OneIter::size_hint`: `rank ≤ ones` is needed (`usize` subtraction vs truncated subtraction) -/
theorem rl_one_size_hint_ne :
    let v : RL := { (default : RL) with ones := 3 }
    let it : RLOneIter := ⟨default, true, 5⟩
    gen_RLOneIter_size_hint .checked v it = fault (.panic .overflow) ∧
    gen_RLOneIter_size_hint .wrapping v it = ok (U64 - 2, some (U64 - 2)) ∧
    it.remaining v = 0 := by
  decide +kernel

/-- `ZeroIter::next`, `hgn` is needed: MODEL ARTEFACT: `RLZeroIter.nextQ` evaluates `iter.rank_zero()` before looking
at `got_none`; the code short-circuits (`!self.got_none && …`).  On an exhausted iterator whose run iterator has
`rank > index` (not reachable: every `RunIter` has `rank ≤ index`; the empty iterator has `(ones, len)`, so this needs
`ones > len`) the model panics with overflow checks on and the code returns `None`. -/
theorem rl_zero_next_ne :
    let z : RLZeroIter := ⟨⟨0, (1, 0), 0⟩, true, (0, 0)⟩
    gen_RLZeroIter_next .checked (default : RL) z = ok (none, z) ∧
    z.nextQ .checked (default : RL) = fault (.panic .overflow) ∧
    gen_RLZeroIter_next .wrapping (default : RL) z = ok (none, z) ∧
    z.nextQ .wrapping (default : RL) = ok (none, z) := by
  decide +kernel

/-- `ZeroIter::next`, `h` is needed: position `2^64 - 1` (not reachable: positions are `< len < 2^64`) -/
theorem rl_zero_next_ne_pos :
    let v : RL := { (default : RL) with len := 3 }
    let z : RLZeroIter := ⟨⟨0, (0, 0), 0⟩, true, (0, U64 - 1)⟩
    gen_RLZeroIter_next .checked v z = fault (.panic .overflow) ∧
    gen_RLZeroIter_next .wrapping v z = ok (some (0, U64 - 1), ⟨⟨0, (0, 0), 0⟩, true, (1, 0)⟩) ∧
    z.nextQ .checked v = ok (some (0, U64 - 1), ⟨⟨0, (0, 0), 0⟩, true, (1, U64)⟩) := by
  decide +kernel

/-- `ZeroIter::next`, `size_hint`: `ones ≤ len` is needed (`count_zeros`, see `rl_count_zeros_ne`: never built; `load`
rejects such a file with overflow checks on and accepts it without) -/
theorem rl_zero_next_ne_ones :
    let v : RL := { (default : RL) with len := 3, ones := 5 }
    let z : RLZeroIter := ⟨⟨0, (0, 0), 0⟩, true, (0, 0)⟩
    gen_RLZeroIter_next .checked v z = fault (.panic .overflow) ∧
    gen_RLZeroIter_next .wrapping v z = ok (some (0, 0), ⟨⟨0, (0, 0), 0⟩, true, (1, 1)⟩) ∧
    z.nextQ .wrapping v = ok (none, z) ∧
    gen_RLZeroIter_size_hint .checked v z = fault (.panic .overflow) ∧
    gen_RLZeroIter_size_hint .wrapping v z = ok (U64 - 2, some (U64 - 2)) ∧
    z.remaining v = 0 := by
  decide +kernel

/-- `select_zero`, `select_zero_iter`: `ones ≤ len` is needed (as for `iter_for_zero`) -/
theorem rl_select_zero_ne :
    let v : RL := { (default : RL) with len := 3, ones := 5 }
    gen_RLVector_select_zero .checked v 0 = fault (.panic .overflow) ∧
    gen_RLVector_select_zero .wrapping v 0 = fault (.panic .other) ∧
    v.selectZero .checked 0 = ok none ∧
    gen_RLVector_select_zero_iter .checked v 0 = fault (.panic .overflow) ∧
    v.selectZeroIter .checked 0 = ok ⟨RunIter.emptyIter v, true, (0, 3)⟩ := by
  decide +kernel

/-- `Iter::next`, `hrun` is needed, and in release builds this is a DIVERGENCE between the code and the model that is
reached through the public API on crafted data: on `rlBig` (part 1: one run `(1, 2^64 - 1)`, ending at `2^64`), `iter()`
followed by one `next()` gives the state `it1` in the code and in the model alike; the second `next()` compares the
position with the end of the run, `1 + (2^64 - 1)`, which the code computes in `usize` (`= 0`: the run is taken to be
over, the next run is fetched, bit 1 is reported UNSET) and the model in `Nat` (`= 2^64`: bit 1 is reported SET).
With overflow checks on, both panic already in the first `next()` (the run iterator adds `start + len`). -/
theorem rl_iter_next_ne :
    let it1 : RLIter := ⟨⟨23, (U64 - 1, 0), 5⟩, some (1, U64 - 1), 1⟩
    (gen_RLVector_iter .wrapping rlBig >>= gen_RLIter_next .wrapping rlBig) = ok (some false, it1) ∧
    (rlBig.iter >>= RLIter.nextQ .wrapping rlBig) = ok (some false, it1) ∧
    gen_RLIter_next .wrapping rlBig it1 = ok (some false, ⟨⟨23, (U64 - 1, 0), 5⟩, none, 2⟩) ∧
    it1.nextQ .wrapping rlBig = ok (some true, ⟨⟨23, (U64 - 1, 0), 5⟩, some (1, U64 - 1), 2⟩) ∧
    (gen_RLVector_iter .checked rlBig >>= gen_RLIter_next .checked rlBig) = fault (.panic .overflow) ∧
    (rlBig.iter >>= RLIter.nextQ .checked rlBig) = fault (.panic .overflow) := by
  decide +kernel

/-- `Iter::next`, with overflow checks on `hrun` is needed too (a state whose run ends at `2^64`; not reachable with
overflow checks on: the run iterator has panicked before, see above) -/
theorem rl_iter_next_ne_run :
    let it : RLIter := ⟨⟨0, (0, 0), 0⟩, some (U64 - 1, 1), 0⟩
    gen_RLIter_next .checked (default : RL) it = fault (.panic .overflow) ∧
    it.nextQ .checked (default : RL) = ok (some false, ⟨⟨0, (0, 0), 0⟩, some (U64 - 1, 1), 1⟩) := by
  decide +kernel

/-- `Iter::next`, `h` is needed: position `2^64 - 1` (not reachable: positions are `≤ len < 2^64`, and at `pos = len`
no run is left) -/
theorem rl_iter_next_ne_pos :
    let it : RLIter := ⟨⟨0, (0, 0), 1⟩, some (0, 0), U64 - 1⟩
    gen_RLIter_next .checked rlShort it = fault (.panic .overflow) ∧
    gen_RLIter_next .wrapping rlShort it = ok (some false, ⟨⟨2, (1, 1), 1⟩, some (0, 1), 0⟩) ∧
    it.nextQ .checked rlShort = ok (some true, ⟨⟨2, (1, 1), 1⟩, some (0, 1), U64⟩) := by
  decide +kernel

/-- `Iter::size_hint`: `pos ≤ len` is needed -/
theorem rl_iter_size_hint_ne :
    let v : RL := { (default : RL) with len := 3 }
    let it : RLIter := ⟨default, none, 5⟩
    gen_RLIter_size_hint .checked v it = fault (.panic .overflow) ∧
    gen_RLIter_size_hint .wrapping v it = ok (U64 - 2, some (U64 - 2)) ∧
    it.remaining v = 0 := by
  decide +kernel

end Sds.GenEq
