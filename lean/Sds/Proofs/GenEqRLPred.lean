/-
Proofs/GenEqRLPred: `RLVector::predecessor` of Generated/FnsRLPred.lean (`rl_vector.rs`, translated statement by
statement, with `advance_if` taking a STATE-PASSING closure and the closure of `predecessor` lambda-lifted) against
the hand-written model `RL.predecessor` / `RL.predLoop` of Model/RL.lean.

* `run_advance_if_st_eq` (unconditional): with a closure whose result `f nx` and new state `g st nx` are pure, the
  state-passing `advance_if` is `gen_RunIter_advance_if … f` (GenEqRL1) and the final state is `g cst` of the returned
  run (the closure is called exactly once, with the value that is returned).  `run_advance_if_st_eq_of_peek`: read off
  the model's `peek`.
* `rl_predecessor_closure_eq`: the closure returns `(r, r)`, `r = rlp_predF value nx`.
* `rlp_pred_loop`: the generated loop (state `(iter, iterate)`, one iteration more than the model to observe
  `iterate = false`) against `predLoop`.  Fuel: a decoded run consumes at least two code units (`rlp_prePeek_off`), so
  `(data.len - offset) / 2 + 1` iterations suffice for either loop; both are given `data.len + 2`, the surplus is
  never used and the extra iteration of the code costs nothing.
* `rl_predecessor_eq`: hypotheses of `rl_successor_eq` (for the clamped value) plus `hov`: with overflow checks on, the
  MODEL does not panic with an overflow.  Needed: the model's `peek` adds the end position of a run before the closure
  is asked, the code only when the closure accepts (`run_advance_if_ne` of GenEqRL1): `rl_predecessor_ne`,
  `rl_predecessor_not_unconditional` (crafted data: a run ending at `2^64`).  Corollaries without `hov`: release builds
  (`rl_predecessor_eq_wrapping`), wherever the model succeeds (`rl_predecessor_eq_of_ok`), every vector the builder
  produces (`rl_predecessor_eq_good`, through `RLPS.GoodB.predecessor_drain`: the model succeeds).
* `rl_predecessor_example`: non-vacuity.
-/
import Sds.Generated.FnsRLPred
import Sds.Proofs.GenEqRL1
import Sds.Proofs.GenEqRL2
import Sds.Proofs.RLPredSucc

set_option linter.unusedVariables false
namespace Sds.GenEq
open Sds Outcome Generated

private theorem rlp_loopM_succ {σ ρ : Type} (n : Nat) (step : σ → Outcome (Ctl σ ρ)) (s : σ) :
    loopM (n + 1) step s = (step s).bind (fun c => match c with | .next s' => loopM n step s' | r => ok r) := rfl

/-! ### `advance_if` with a state-passing closure -/

/-- the part of the state-passing `advance_if` after the block has been determined -/
private def rlp_genTailSt (m : Mode) (v : RL) (it : RunIter) {σ : Type}
    (advance : σ → Option (Nat × Nat) → Outcome (Bool × σ)) (cst : σ) (limit offset : Nat) :
    Outcome (((Option (Nat × Nat)) × RunIter) × σ) := do
  let self_offset := it.offset
  let self_pos := it.pos
  let self_limit := it.limit
  let t7 ← gen_RLVector_decode m v offset
  let (gap, offset) := t7
  let t8 ← addM m (self_pos.2) gap
  let start := t8
  let t9 ← gen_RLVector_decode m v offset
  let (len, offset) := t9
  let t10 ← addM m len 1
  let result := (some (start, t10))
  let (t11, cst) ← advance cst result
  let (self_limit, self_offset, self_pos) ← (if t11 then do
      let self_offset := offset
      let self_limit := limit
      let t12 ← addM m len 1
      let t13 ← addM m self_pos.1 t12
      let self_pos := (t13, self_pos.2)
      let t14 ← addM m start len
      let t15 ← addM m t14 1
      let self_pos := (self_pos.1, t15)
      pure (self_limit, self_offset, self_pos)
    else do
      pure (self_limit, self_offset, self_pos))
  return ((result, (⟨self_offset, self_pos, self_limit⟩ : RunIter)), cst)

private theorem rlp_genTailSt_eq (m : Mode) (v : RL) (it : RunIter) {σ : Type} (f : Option (Nat × Nat) → Bool)
    (g : σ → Option (Nat × Nat) → σ) (cst : σ) (limit offset : Nat) :
    rlp_genTailSt m v it (fun st nx => ok (f nx, g st nx)) cst limit offset =
      (genTail m v it f limit offset >>= fun r => ok (r, g cst r.1)) := by
  unfold rlp_genTailSt genTail
  cases gen_RLVector_decode m v offset with
  | fault e => rfl
  | ok r1 =>
    obtain ⟨gap, o1⟩ := r1
    simp only [bind_ok]
    cases addM m it.pos.2 gap with
    | fault e => rfl
    | ok start =>
      simp only [bind_ok]
      cases gen_RLVector_decode m v o1 with
      | fault e => rfl
      | ok r2 =>
        obtain ⟨len, o2⟩ := r2
        simp only [bind_ok]
        cases addM m len 1 with
        | fault e => rfl
        | ok len1 =>
          simp only [bind_ok]
          cases f (some (start, len1)) with
          | false => rfl
          | true =>
            simp only [if_true]
            cases addM m it.pos.1 len1 with
            | fault e => rfl
            | ok r =>
              simp only [bind_ok]
              cases addM m start len with
              | fault e => rfl
              | ok t =>
                simp only [bind_ok]
                cases addM m t 1 <;> rfl

/-- **bridge**: the state-passing translation of `advance_if`, called with a closure whose result `f nx` and new
state `g st nx` are pure, is the translation with the pure closure `f`; the closure is called exactly once, with
the value that `advance_if` returns, so the final state is `g cst` of the returned run.  Unconditional. -/
theorem run_advance_if_st_eq (m : Mode) (v : RL) (it : RunIter) {σ : Type} (f : Option (Nat × Nat) → Bool)
    (g : σ → Option (Nat × Nat) → σ) (cst : σ) :
    gen_RunIter_advance_if_st m v it (fun st nx => ok (f nx, g st nx)) cst =
      (gen_RunIter_advance_if m v it f >>= fun r => ok (r, g cst r.1)) := by
  unfold gen_RunIter_advance_if_st gen_RunIter_advance_if
  by_cases h0 : it.offset ≥ v.data.len
  · simp only [h0, decide_true, if_true]; rfl
  · simp only [h0, decide_false, Bool.false_eq_true, if_false]
    by_cases h1 : it.pos.1 ≥ it.limit
    · simp only [h1, decide_true, if_true]
      cases gen_div_round_up m it.offset 64 with
      | fault e => rfl
      | ok b =>
        simp only [bind_ok]
        cases mulM m b 64 with
        | fault e => rfl
        | ok o =>
          simp only [bind_ok]
          cases gen_RLVector_blocks m v with
          | fault e => rfl
          | ok nb =>
            simp only [bind_ok]
            by_cases h2 : b ≥ nb
            · simp only [h2, decide_true, if_true]
              cases f none <;> rfl
            · simp only [h2, decide_false, Bool.false_eq_true, if_false]
              cases gen_RLVector_ones_after m v b with
              | fault e => rfl
              | ok l =>
                simp only [bind_ok, pure_eq]
                exact rlp_genTailSt_eq m v it f g cst l o
    · simp only [h1, decide_false, Bool.false_eq_true, if_false, bind_ok, pure_eq]
      exact rlp_genTailSt_eq m v it f g cst it.limit it.offset

/-- read off the model's `peek`, as `run_advance_if_eq_of_peek` -/
theorem run_advance_if_st_eq_of_peek {m : Mode} {v : RL} (hb : RLBounds m v) (it : RunIter) {σ : Type}
    (f : Option (Nat × Nat) → Bool) (g : σ → Option (Nat × Nat) → σ) (cst : σ) (q : Peek) (h : it.peek m v = ok q) :
    gen_RunIter_advance_if_st m v it (fun st nx => ok (f nx, g st nx)) cst =
      ok (advApply it f q, g cst (advApply it f q).1) := by
  rw [run_advance_if_st_eq, run_advance_if_eq_of_peek hb it f q h]; rfl

/-! ### the closure of `predecessor` -/

/-- the closure of `predecessor`: continue while the peeked run starts at or before `value` -/
def rlp_predF (value : Nat) : Option (Nat × Nat) → Bool
  | none => false
  | some (start, _) => decide (start ≤ value)

/-- the lambda-lifted closure returns `(r, r)`: its result is also the new value of the captured flag `iterate` -/
theorem rl_predecessor_closure_eq (m : Mode) (st : Bool) (value : Nat) (nx : Option (Nat × Nat)) :
    gen_RLVector_predecessor_closure m st value nx = ok (rlp_predF value nx, rlp_predF value nx) := by
  cases nx with
  | none => rfl
  | some p => obtain ⟨s, l⟩ := p; rfl

/-! ### the loop -/

/-- the body of the loop of `predecessor` (the lambda of the generated code, by `rfl`) -/
def rlp_stepPred (m : Mode) (v : RL) (value : Nat) : RunIter × Bool → Outcome (Ctl (RunIter × Bool) RLOneIter) :=
  fun (iter, iterate) => do
    if iterate then do
      let t3 ← (do let r ← gen_RunIter_advance_if_st m v iter (fun st nx => gen_RLVector_predecessor_closure m st value nx) iterate; pure (r.1.2, r.2))
      let (iter_next, iterate_next) := t3
      let iter := iter_next
      let iterate := iterate_next
      pure (Ctl.next (iter, iterate))
    else do
      pure (Ctl.brk (iter, iterate))

def rlp_finPred (m : Mode) (v : RL) (value : Nat) : Ctl (RunIter × Bool) RLOneIter → Outcome RLOneIter
  | .ret _ => fault .fuel
  | .next _ => fault .fuel
  | .brk (iter, iterate) => do
    if (decide ((iter.pos.1) = 0)) then do
      return (RLOneIter.emptyIter v)
    else do
      let t6 ← (if (decide ((iter.pos.2) > value)) then do
          let t4 ← gen_RunIter_rank_at m v iter value
          pure t4
        else do
          let t5 ← subM m (iter.pos.1) 1
          pure t5)
      let rank := t6
      return (⟨iter, false, rank⟩ : RLOneIter)

theorem gen_predecessor_unfold (m : Mode) (v : RL) (value : Nat) :
    gen_RLVector_predecessor m v value =
      if decide (v.len = 0) then ok (RLOneIter.emptyIter v) else
        (subM m v.len 1 >>= fun t1 =>
          gen_RLVector_iter_for_bit m v (min value t1) >>= fun iter =>
            loopM (v.data.len + 2) (rlp_stepPred m v (min value t1)) (iter, true) >>=
              rlp_finPred m v (min value t1)) := rfl

/-- what the model's `predecessor` makes of the result of its loop -/
def rlp_predK (m : Mode) (v : RL) (value : Nat) (it : RunIter) : Outcome RLOneIter :=
  if it.rank = 0 then return RLOneIter.emptyIter v else do
    let rank ← (if it.offsetBits > value then it.rankAt m value else subM m it.rank 1)
    return ⟨it, false, rank⟩

theorem rlp_predecessor_unfold (m : Mode) (v : RL) (value : Nat) :
    RL.predecessor m v value =
      if v.len = 0 then ok (RLOneIter.emptyIter v) else
        (v.iterForBit (min value (v.len - 1)) >>= fun it =>
          RL.predLoop m v (min value (v.len - 1)) (v.data.len + 2) it >>= rlp_predK m v (min value (v.len - 1))) :=
  rfl

theorem rlp_fin_brk (m : Mode) (v : RL) (value : Nat) (it : RunIter) (b : Bool) :
    rlp_finPred m v value (.brk (it, b)) = rlp_predK m v value it := by
  unfold rlp_finPred rlp_predK
  show (if decide (it.pos.1 = 0) = true then _ else _) = (if it.pos.1 = 0 then _ else _)
  by_cases h0 : it.pos.1 = 0
  · simp only [h0, decide_true, if_true]
  · simp only [h0, decide_false, Bool.false_eq_true, if_false]
    by_cases h1 : it.pos.2 > value
    · have h1' : it.offsetBits > value := h1
      simp only [h1, h1', decide_true, if_true, run_rank_at_eq]
    · have h1' : ¬ it.offsetBits > value := h1
      simp only [h1, h1', decide_false, Bool.false_eq_true, if_false]
      rfl

/-- one iteration with `iterate = true`: `advance_if` with the pure closure, then the flag is the closure's answer -/
theorem rlp_step_true (m : Mode) (v : RL) (value : Nat) (it : RunIter) :
    rlp_stepPred m v value (it, true) =
      (gen_RunIter_advance_if m v it (rlp_predF value) >>= fun r =>
        ok (Ctl.next (r.2, rlp_predF value r.1))) := by
  have hcl : (fun (st : Bool) (nx : Option (Nat × Nat)) => gen_RLVector_predecessor_closure m st value nx) =
      (fun st nx => ok (rlp_predF value nx, (fun (_ : Bool) nx => rlp_predF value nx) st nx)) := by
    funext st nx; exact rl_predecessor_closure_eq m st value nx
  unfold rlp_stepPred
  simp only [if_true]
  rw [hcl, run_advance_if_st_eq]
  cases gen_RunIter_advance_if m v it (rlp_predF value) <;> rfl

/-- an iteration with `iterate = false` breaks -/
theorem rlp_loop_false (m : Mode) (v : RL) (value : Nat) (n : Nat) (it : RunIter) :
    (loopM (n + 1) (rlp_stepPred m v value) (it, false) >>= rlp_finPred m v value) = rlp_predK m v value it := by
  rw [rlp_loopM_succ]
  show rlp_finPred m v value (.brk (it, false)) = _
  exact rlp_fin_brk m v value it false

/-! ### progress of the offset: the loops terminate within `data.len / 2 + 1` iterations -/

theorem rlp_decodeLoop_off (m : Mode) (v : RL) :
    ∀ (fuel o val sh x o' : Nat), RL.decodeLoop m v fuel o val sh = ok (x, o') → o < o' ∧ o' ≤ v.data.len := by
  intro fuel
  induction fuel with
  | zero => intro o val sh x o' h; cases h
  | succ n ih =>
    intro o val sh x o' h
    rw [RL.decodeLoop.eq_def] at h
    simp only [] at h
    unfold IntVec.get at h
    by_cases hl : o < v.data.len
    · rw [if_pos hl] at h
      simp only [bind_ok] at h
      by_cases hs : sh ≥ 64
      · rw [if_pos hs] at h; cases m <;> cases h
      · rw [if_neg hs] at h
        cases ha : addM m val ((((v.data.getRaw o).toNat % 8) <<< sh) % U64) with
        | fault e => rw [ha] at h; cases h
        | ok val' =>
          rw [ha] at h
          simp only [bind_ok] at h
          by_cases hc : (v.data.getRaw o).toNat / 8 % 2 = 0
          · rw [if_pos hc] at h
            injection h with h; injection h with h1 h2
            omega
          · rw [if_neg hc] at h
            have := ih _ _ _ _ _ h
            omega
    · rw [if_neg hl] at h; cases h

theorem rlp_decode_off {m : Mode} {v : RL} {o x o' : Nat} (h : v.decode m o = ok (x, o')) :
    o < o' ∧ o' ≤ v.data.len := rlp_decodeLoop_off m v 23 o 0 0 x o' h

theorem rlp_peekHead_off {v : RL} {it : RunIter} {off l : Nat} {stop : Bool}
    (h : peekHead v it = ok (off, l, stop)) : it.offset ≤ off := by
  unfold peekHead at h
  by_cases h1 : it.rank ≥ it.limit
  · rw [if_pos h1] at h
    by_cases h2 : (it.offset + 63) / 64 ≥ v.blocks
    · simp only [h2, if_true, pure_eq] at h
      injection h with h; injection h with h
      omega
    · simp only [h2, if_false] at h
      cases ho : v.onesAfter ((it.offset + 63) / 64) with
      | fault e => rw [ho] at h; cases h
      | ok l' =>
        rw [ho] at h
        simp only [bind_ok, pure_eq] at h
        injection h with h; injection h with h
        omega
  · rw [if_neg h1] at h
    simp only [pure_eq] at h
    injection h with h; injection h with h
    omega

/-- a decoded run consumes at least two code units and ends inside the data -/
theorem rlp_prePeek_off {m : Mode} {v : RL} {it : RunIter} {s l o lim : Nat}
    (h : prePeek m v it = ok (.run s l o lim)) : it.offset + 2 ≤ o ∧ o ≤ v.data.len := by
  unfold prePeek at h
  by_cases h0 : it.offset ≥ v.data.len
  · rw [if_pos h0] at h; cases h
  · rw [if_neg h0] at h
    cases hp : peekHead v it with
    | fault e => rw [hp] at h; cases h
    | ok r =>
      obtain ⟨off, l0, stop⟩ := r
      have hoff := rlp_peekHead_off hp
      rw [hp] at h
      simp only [bind_ok] at h
      cases stop with
      | true => simp only [if_true, pure_eq] at h; cases h
      | false =>
        simp only [Bool.false_eq_true, if_false] at h
        cases hd1 : v.decode m off with
        | fault e => rw [hd1] at h; cases h
        | ok r1 =>
          obtain ⟨gap, o1⟩ := r1
          have h1 := rlp_decode_off hd1
          rw [hd1] at h
          simp only [bind_ok] at h
          cases ha : addM m it.offsetBits gap with
          | fault e => rw [ha] at h; cases h
          | ok start =>
            rw [ha] at h
            simp only [bind_ok] at h
            cases hd2 : v.decode m o1 with
            | fault e => rw [hd2] at h; cases h
            | ok r2 =>
              obtain ⟨len, o2⟩ := r2
              have h2 := rlp_decode_off hd2
              rw [hd2] at h
              simp only [bind_ok] at h
              cases hl : addM m len 1 with
              | fault e => rw [hl] at h; cases h
              | ok len1 =>
                rw [hl] at h
                simp only [bind_ok, pure_eq] at h
                injection h with h; injection h with _ _ h3 _
                omega


/-! ### the generated loop against `predLoop` -/

theorem rlp_addM_fault {m : Mode} {a b : Nat} {e : Fault} (h : addM m a b = fault e) :
    m = .checked ∧ e = .panic .overflow := by
  cases m with
  | wrapping => rw [addM_wrapping] at h; cases h
  | checked =>
    unfold addM at h
    by_cases hl : a + b < U64
    · rw [if_pos hl] at h; cases h
    · rw [if_neg hl] at h; injection h with h; exact ⟨rfl, h.symm⟩

/-- the continuation of the model's loop after `prePeek`: `peek` adds first, then the closure decides -/
def rlp_modelK (m : Mode) (v : RL) (value k : Nat) (it : RunIter) : PrePeek → Outcome RunIter
  | .atEnd => ok it
  | .noMoreBlocks _ => ok it
  | .run s l o lim =>
    addM m it.pos.1 l >>= fun r => addM m s l >>= fun e =>
      if s ≤ value then RL.predLoop m v value k ⟨o, (r, e), lim⟩ else ok it

theorem rlp_predLoop_succ (m : Mode) (v : RL) (value k : Nat) (it : RunIter) :
    RL.predLoop m v value (k + 1) it = (prePeek m v it >>= rlp_modelK m v value k it) := by
  rw [RL.predLoop, peek_eq_prePeek]
  cases prePeek m v it with
  | fault e => rfl
  | ok p =>
    cases p with
    | atEnd => rfl
    | noMoreBlocks o => rfl
    | run s l o lim =>
      show ((addM m it.pos.1 l >>= fun r => addM m s l >>= fun e => ok (Peek.run s l ⟨o, (r, e), lim⟩)) >>= _) = _
      unfold rlp_modelK
      simp only [bind_ok]
      cases addM m it.pos.1 l with
      | fault e => rfl
      | ok r =>
        simp only [bind_ok]
        cases addM m s l with
        | fault e => rfl
        | ok e => rfl

/-- **the loop of `predecessor`.**  The generated loop spends one iteration more than the model (it comes round
once more to see `iterate = false`), and both are given `data.len + 2`; a decoded run consumes at least two code
units, so `(data.len - offset) / 2 + 1` iterations are enough for either and the surplus is never used.  `hov`: the
model (`peek`) computes the end position of a run before the closure is asked, the code only when the closure
accepts; they differ only if that addition overflows (overflow checks on) on the run the closure declines. -/
theorem rlp_pred_loop {m : Mode} {v : RL} (hb : RLBounds m v) (value : Nat) :
    ∀ n k it, (v.data.len - it.offset) / 2 + 1 ≤ n → (v.data.len - it.offset) / 2 + 1 ≤ k →
      (m = .checked → RL.predLoop m v value k it ≠ fault (.panic .overflow)) →
      (loopM (n + 1) (rlp_stepPred m v value) (it, true) >>= rlp_finPred m v value) =
        (RL.predLoop m v value k it >>= rlp_predK m v value) := by
  intro n
  induction n with
  | zero => intro k it hn; omega
  | succ n ih =>
    intro k it hn hk hov
    obtain ⟨k, rfl⟩ : ∃ k', k = k' + 1 := ⟨k - 1, by omega⟩
    rw [rlp_predLoop_succ] at hov ⊢
    rw [rlp_loopM_succ, rlp_step_true, run_advance_if_lazy hb, advanceIfLazy_eq]
    cases hp : prePeek m v it with
    | fault e => rfl
    | ok p =>
      rw [hp] at hov
      simp only [bind_ok] at hov ⊢
      cases p with
      | atEnd => exact rlp_loop_false m v value n it
      | noMoreBlocks o => exact rlp_loop_false m v value n it
      | run s l o lim =>
        have hoff := rlp_prePeek_off hp
        unfold rlp_modelK at hov ⊢
        unfold lazyK
        by_cases c : s ≤ value
        · have hf : rlp_predF value (some (s, l)) = true := by simp only [rlp_predF, c, decide_true]
          simp only [hf, if_true, c] at hov ⊢
          cases h1 : addM m it.pos.1 l with
          | fault e => rfl
          | ok r =>
            rw [h1] at hov
            simp only [bind_ok] at hov ⊢
            cases h2 : addM m s l with
            | fault e => rfl
            | ok e =>
              rw [h2] at hov
              simp only [bind_ok, pure_eq] at hov ⊢
              rw [hf]
              exact ih k ⟨o, (r, e), lim⟩ (by show (v.data.len - o) / 2 + 1 ≤ n; omega)
                (by show (v.data.len - o) / 2 + 1 ≤ k; omega) hov
        · have hf : rlp_predF value (some (s, l)) = false := by simp only [rlp_predF, c, decide_false]
          simp only [hf, Bool.false_eq_true, if_false, c, bind_ok, pure_eq] at hov ⊢
          cases h1 : addM m it.pos.1 l with
          | fault e =>
            obtain ⟨hm, he⟩ := rlp_addM_fault h1
            subst he
            rw [h1] at hov
            exact absurd rfl (hov hm)
          | ok r =>
            rw [h1] at hov
            simp only [bind_ok] at hov ⊢
            cases h2 : addM m s l with
            | fault e =>
              obtain ⟨hm, he⟩ := rlp_addM_fault h2
              subst he
              rw [h2] at hov
              exact absurd rfl (hov hm)
            | ok e =>
              simp only [bind_ok]
              first | rw [hf] | skip
              exact rlp_loop_false m v value n it


/-! ### `predecessor` -/

/-- **`RLVector::predecessor`.**  The hypotheses of `successor` (`rl_successor_eq`) for the clamped value, and `hov`:
with overflow checks on, the model does not panic with an overflow (the model's `peek` adds the end position of a
run before the closure is asked, the code after: `rl_predecessor_ne`). -/
theorem rl_predecessor_eq {m : Mode} {v : RL} (hb : RLBounds m v) (value : Nat) (hlen : v.len < U64)
    (hr : min value (v.len - 1) < v.len → RangeOK v.rankIndex (min value (v.len - 1)))
    (hov : m = .checked → RL.predecessor m v value ≠ fault (.panic .overflow)) :
    gen_RLVector_predecessor m v value = RL.predecessor m v value := by
  rw [rlp_predecessor_unfold] at hov
  rw [gen_predecessor_unfold, rlp_predecessor_unfold]
  by_cases h : v.len = 0
  · simp only [h, decide_true, if_true]
  · simp only [h, decide_false, Bool.false_eq_true, if_false] at hov ⊢
    rw [subM_ok (by omega), bind_ok, rl_iter_for_bit_eq m v _ hlen hr]
    cases hi : v.iterForBit (min value (v.len - 1)) with
    | fault e => rfl
    | ok it =>
      rw [hi] at hov
      simp only [bind_ok] at hov ⊢
      exact rlp_pred_loop hb _ (v.data.len + 1) (v.data.len + 2) it (by omega) (by omega)
        (fun hm hf => hov hm (by rw [hf]; rfl))

/-- release builds: no extra hypothesis -/
theorem rl_predecessor_eq_wrapping {v : RL} (hb : RLBounds .wrapping v) (value : Nat) (hlen : v.len < U64)
    (hr : min value (v.len - 1) < v.len → RangeOK v.rankIndex (min value (v.len - 1))) :
    gen_RLVector_predecessor .wrapping v value = RL.predecessor .wrapping v value :=
  rl_predecessor_eq hb value hlen hr (fun h => by cases h)

/-- wherever the model succeeds the code returns the same iterator -/
theorem rl_predecessor_eq_of_ok {m : Mode} {v : RL} (hb : RLBounds m v) (value : Nat) (hlen : v.len < U64)
    (hr : min value (v.len - 1) < v.len → RangeOK v.rankIndex (min value (v.len - 1)))
    (r : RLOneIter) (h : RL.predecessor m v value = ok r) : gen_RLVector_predecessor m v value = ok r := by
  rw [← h]
  exact rl_predecessor_eq hb value hlen hr (fun _ hf => by rw [hf] at h; cases h)

/-- every vector the builder can produce (`RLQ.GoodB`): as for `successor` -/
theorem rl_predecessor_eq_good {m : Mode} {v : RL} {bl : RLQ.Blocks} (g : RLQ.GoodB v bl)
    (hd : v.data.len + 63 < U64) (hdec : m = .wrapping → ∀ o, ¬ units23 v o) (value : Nat) :
    gen_RLVector_predecessor m v value = RL.predecessor m v value := by
  obtain ⟨st, _, h, _⟩ := Sds.RLPS.GoodB.predecessor_drain m g value (v.ones + 1) (Nat.le_refl _)
  exact rl_predecessor_eq (good_bounds g hd hdec) value g.len_lt (good_rank_range g hd _)
    (fun _ hf => by rw [hf] at h; cases h)


/-! ### the hypothesis `hov` is needed; non-vacuity -/

/-- a rank index that sends every value below 100 to the block range `(0, 1)` -/
def rlp_idx : SampleIndex := ⟨100, 100, IntVec.ofList 8 [0, 0]⟩

/-- `rlBig` (GenEqRL1: one run `(1, 2^64 - 1)`, ending at `2^64`; crafted data) with a working rank index -/
def rlp_big : RL := { rlBig with rankIndex := rlp_idx }

/-- DIVERGENCE between the code and the model (overflow checks on, crafted data): `predecessor(0)` on `rlp_big`.
The code decodes the run `(1, 2^64 - 1)`, the closure declines it (`1 > 0`), the loop stops and the empty iterator is
returned (correct: no set bit at or before 0).  The model's `peek` has added `1 + (2^64 - 1)` before the closure is
asked and panics.  Without overflow checks both return the empty iterator. -/
theorem rl_predecessor_ne :
    gen_RLVector_predecessor .checked rlp_big 0 = ok (RLOneIter.emptyIter rlp_big) ∧
    RL.predecessor .checked rlp_big 0 = fault (.panic .overflow) ∧
    gen_RLVector_predecessor .wrapping rlp_big 0 = ok (RLOneIter.emptyIter rlp_big) ∧
    RL.predecessor .wrapping rlp_big 0 = ok (RLOneIter.emptyIter rlp_big) := by
  decide +kernel

theorem rlp_idx_range (x : Nat) (hx : rlp_idx.range x = ok (0, 1)) : RangeOK rlp_idx x := by
  refine ⟨by decide, fun lo hi h => ?_⟩
  rw [hx] at h
  injection h with h; injection h with h1 h2
  subst h1 h2
  exact ⟨by decide, by decide⟩

/-- hence the equation without `hov` is FALSE with overflow checks on, under all the other hypotheses -/
theorem rl_predecessor_not_unconditional :
    ¬ ∀ (v : RL) (value : Nat), RLBounds .checked v → v.len < U64 →
      (min value (v.len - 1) < v.len → RangeOK v.rankIndex (min value (v.len - 1))) →
      gen_RLVector_predecessor .checked v value = RL.predecessor .checked v value := by
  intro h
  have hb : RLBounds .checked rlp_big := RLBounds.checked (by decide +kernel) (by decide +kernel)
  have := h rlp_big 0 hb (by decide +kernel) (fun _ => rlp_idx_range 0 (by decide +kernel))
  rw [rl_predecessor_ne.1, rl_predecessor_ne.2.1] at this
  cases this

/-- two runs `(2, 3)` and `(9, 1)` (code units `2 2 4 0`), length 100 -/
def rlp_small : RL :=
  { (default : RL) with len := 100, ones := 4, rankIndex := rlp_idx, data := IntVec.ofList 4 [2, 2, 4, 0] }

/-- non-vacuity: `predecessor(7)` on `rlp_small` is the last bit of the first run (rank 2), both in the code and in
the model; the iterator returned is not the empty one.  `predecessor(1)`: none. -/
theorem rl_predecessor_example :
    gen_RLVector_predecessor .checked rlp_small 7 = RL.predecessor .checked rlp_small 7 ∧
    RL.predecessor .checked rlp_small 7 = ok ⟨⟨2, (3, 5), 4⟩, false, 2⟩ ∧
    gen_RLVector_predecessor .checked rlp_small 3 = ok ⟨⟨2, (3, 5), 4⟩, false, 1⟩ ∧
    gen_RLVector_predecessor .checked rlp_small 50 = ok ⟨⟨4, (4, 10), 4⟩, false, 3⟩ ∧
    gen_RLVector_predecessor .wrapping rlp_small 50 = RL.predecessor .wrapping rlp_small 50 ∧
    gen_RLVector_predecessor .checked rlp_small 1 = ok (RLOneIter.emptyIter rlp_small) ∧
    (⟨⟨2, (3, 5), 4⟩, false, 2⟩ : RLOneIter) ≠ RLOneIter.emptyIter rlp_small := by
  decide +kernel

/-- the same instance through the theorem: its hypotheses hold on `rlp_small` -/
example : gen_RLVector_predecessor .checked rlp_small 7 = RL.predecessor .checked rlp_small 7 :=
  rl_predecessor_eq (RLBounds.checked (by decide +kernel) (by decide +kernel)) 7 (by decide +kernel)
    (fun _ => rlp_idx_range _ (by decide +kernel)) (fun _ => by rw [rl_predecessor_example.2.1]; intro h; cases h)


end Sds.GenEq
