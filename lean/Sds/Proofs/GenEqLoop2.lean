/-
Proofs/GenEqLoop2: the loop-carrying functions of `bit_vector/select_support.rs` (`select_unchecked`) and of
`bit_vector.rs` (`OneIter::next / nth / size_hint / next_back`) as TRANSLATED statement by statement from the source
(Generated/FnsLoop.lean; loops are `loopM fuel step init` over the control type `Ctl`) are equal to the hand-written
model definitions of Model/BitVector.lean (fuel-indexed structural recursions `scan`, `fwd`, `fwdN`, `bwd`).

Method: for each loop a lemma `*_loop` relates `loopM fuel step s` to the model recursion by induction on the fuel,
for ANY `step` that satisfies the one-step equation `hstep` (discharged for the generated lambda by `simp`).

Hypotheses, all of them representation bounds ("the value is a `usize`"):
* `v.data.size < U64` (forward scans `fwd`, `fwdN`, `scan`): the code computes `index + 1` with `addM` BEFORE the
  unchecked word read, the model reads `wordT tr v (index + 1)` with the sum in `Nat`.  Every index that reaches the
  increment was read successfully, so `index < v.data.size` is an invariant of the loop and `index + 1 ≤ size < 2^64`
  cannot overflow.  Without the bound the two sides differ only for an array of at least `2^64` words (at
  `index = 2^64 - 1`: `panic overflow` / a wrapped read in the code, a read at `2^64` in the model) — no concrete
  (`decide`) witness exists for that, and no such `Vec<u64>` exists.
* `it.limit.1 ≤ U64` (`nth`; sharp, `one_nth_ne`): the model adds `next.0 + n` before the scan, the code after it, so
  the FAULT differs if the sum overflows and the scan faults.  For `usize` fields the sum is `< limit.0 < 2^64`.
* `rank < U64` (`select_unchecked`; `rank < 2^75` suffices and is sharp, `select_unchecked_ne`): `2 * superblock`.
* `next_back` needs no hypothesis (the model uses `subM` for `index - 1` as the code does); `relative_rank -= ones`
  is only executed when `ones ≤ relative_rank`; `ptr + offset`, `ptr + block` are `< 2^63 + 4096`.
None of the hypotheses indicates a divergence between the code and the model on representable inputs.
-/
import Sds.Generated.FnsLoop
import Sds.Proofs.GenFns
import Sds.Proofs.Tables
import Sds.Proofs.BitsMore
import Sds.Proofs.GenEqBits
import Sds.Proofs.GenEqVec
import Sds.Proofs.GenEqIdx

namespace Sds.GenEq
open Sds Outcome Generated

/-! ### vocabulary -/

private theorem wordT_ok_lt {tr : Tr} {v : RawVec} {i : Nat} {w : Word} (h : wordT tr v i = ok w) : i < v.data.size := by
  apply Classical.byContradiction
  intro hn
  cases tr <;> simp [wordT, getW, hn, Bind.bind, Outcome.bind] at h

private theorem loopM_succ {σ ρ : Type} (n : Nat) (step : σ → Outcome (Ctl σ ρ)) (s : σ) :
    loopM (n + 1) step s = (step s).bind (fun c => match c with | .next s' => loopM n step s' | r => ok r) := rfl

private theorem loopM_congr {σ ρ : Type} {step step' : σ → Outcome (Ctl σ ρ)} (h : ∀ s, step s = step' s) (fuel : Nat) (s : σ) :
    loopM fuel step s = loopM fuel step' s := by
  rw [show step = step' from funext h]

/-! ### `OneIter::next` -/

theorem fwd_loop {ρ : Type} (m : Mode) (tr : Tr) (v : RawVec) (hv : v.data.size < U64)
    (step : Nat × Word → Outcome (Ctl (Nat × Word) ρ))
    (hstep : ∀ i w, step (i, w) = if w = 0 then (addM m i 1).bind (fun i' => (wordT tr v i').bind (fun w' =>
      ok (Ctl.next (i', w')))) else ok (Ctl.brk (i, w))) :
    ∀ fuel i w, i < v.data.size →
      loopM fuel step (i, w) = (OneIterSt.fwd tr v fuel i w).bind (fun p => ok (Ctl.brk p)) := by
  intro fuel
  induction fuel with
  | zero => intro i w _; rfl
  | succ n ih =>
    intro i w hi
    rw [loopM_succ, hstep, OneIterSt.fwd]
    by_cases hw : w = 0
    · simp only [hw, if_true]
      rw [addM_ok (by omega)]
      simp only [Bind.bind, Outcome.bind]
      cases hr : wordT tr v (i + 1) with
      | fault f => rfl
      | ok w' =>
        simp only []
        exact ih (i + 1) w' (wordT_ok_lt hr)
    · simp only [hw, if_false]; rfl

/-- `OneIter::next` -/
theorem one_next_eq (m : Mode) (tr : Tr) (b : BitVector) (it : OneIterSt) (hv : b.data.data.size < U64) :
    gen_OneIter_next m tr b.data it = OneIterSt.nextQ tr m b it := by
  unfold gen_OneIter_next OneIterSt.nextQ
  by_cases h : it.next.1 ≥ it.limit.1
  · simp only [h, decide_true, if_true]; rfl
  · simp only [h, decide_false, Bool.false_eq_true, if_false]
    rw [vsplit_eq]
    simp only [Bind.bind, Outcome.bind]
    cases hr : wordT tr b.data (it.next.2 / 64) with
    | fault f => rfl
    | ok w0 =>
      simp only [low_set_unchecked_eq, lowSetU_eq (it.next.2 % 64) (by omega)]
      rw [fwd_loop m tr b.data hv _ (fun i w => by
        by_cases hw : w = 0 <;> simp [hw, Outcome.bind, Pure.pure]) _ _ _ (wordT_ok_lt hr)]
      cases hf : OneIterSt.fwd tr b.data (b.data.data.size + 1) (it.next.2 / 64) (w0 &&& ~~~ lowSet (it.next.2 % 64)) with
      | fault f => rfl
      | ok p =>
        obtain ⟨i, w⟩ := p
        simp only [Outcome.bind, GenFns.bit_offset_eq]


/-! ### `OneIter::nth` -/

theorem fwdN_loop {ρ : Type} (m : Mode) (tr : Tr) (v : RawVec) (hv : v.data.size < U64)
    (step : Nat × Nat × Nat × Word → Outcome (Ctl (Nat × Nat × Nat × Word) ρ))
    (hstep : ∀ i o r w, step (i, o, r, w) = if o ≤ r then (addM m i 1).bind (fun i' => (wordT tr v i').bind (fun w' =>
      (subM m r o).bind (fun r' => ok (Ctl.next (i', popcount w', r', w'))))) else ok (Ctl.brk (i, o, r, w))) :
    ∀ fuel i w r, i < v.data.size →
      loopM fuel step (i, popcount w, r, w) =
        (OneIterSt.fwdN tr v fuel i w r).bind (fun p => ok (Ctl.brk (p.1, popcount p.2.1, p.2.2, p.2.1))) := by
  intro fuel
  induction fuel with
  | zero => intro i w r _; rfl
  | succ n ih =>
    intro i w r hi
    rw [loopM_succ, hstep, OneIterSt.fwdN]
    by_cases hw : popcount w ≤ r
    · simp only [hw, if_true]
      rw [addM_ok (by omega), subM_ok hw]
      simp only [Bind.bind, Outcome.bind]
      cases hr : wordT tr v (i + 1) with
      | fault f => rfl
      | ok w' =>
        simp only []
        exact ih (i + 1) w' _ (wordT_ok_lt hr)
    · simp only [hw, if_false]; rfl

private theorem subM_checked_ok {a b t : Nat} (h : subM .checked a b = ok t) : b ≤ a ∧ t = a - b := by
  unfold subM at h
  by_cases hb : b ≤ a
  · simp [hb] at h; exact ⟨hb, h.symm⟩
  · simp [hb] at h

private theorem addM_wrapping_ok (a b : Nat) : ∃ s, addM .wrapping a b = ok s := by
  unfold addM; by_cases h : a + b < U64 <;> simp [h]

/-- `nth`: the model performs `next.0 + n` BEFORE the word scan, the code after it, so the two agree when that
addition cannot fault where it is reached (`hadd`). -/
theorem one_nth_eq' (m : Mode) (tr : Tr) (b : BitVector) (it : OneIterSt) (n : Nat) (hv : b.data.data.size < U64)
    (hadd : m = .checked → it.next.1 ≤ it.limit.1 → n < it.limit.1 - it.next.1 → it.next.1 + n < U64) :
    gen_OneIter_nth m tr b.data it n = OneIterSt.nthQ tr m b it n := by
  unfold gen_OneIter_nth OneIterSt.nthQ
  simp only [Bind.bind, Outcome.bind]
  cases hsub : subM m it.limit.1 it.next.1 with
  | fault f => rfl
  | ok t1 =>
    simp only []
    by_cases h : n ≥ t1
    · simp only [h, decide_true, if_true]
    · simp only [h, decide_false, Bool.false_eq_true, if_false]
      have hs : ∃ s, addM m it.next.1 n = ok s := by
        cases m with
        | wrapping => exact addM_wrapping_ok _ _
        | checked =>
          obtain ⟨h1, h2⟩ := subM_checked_ok hsub
          exact ⟨_, addM_ok (hadd rfl h1 (by omega))⟩
      obtain ⟨s, hs⟩ := hs
      rw [vsplit_eq, hs]
      simp only []
      cases hr : wordT tr b.data (it.next.2 / 64) with
      | fault f => rfl
      | ok w0 =>
        simp only [low_set_unchecked_eq, lowSetU_eq (it.next.2 % 64) (by omega)]
        rw [fwdN_loop m tr b.data hv _ (fun i o r w => by
          by_cases hw : o ≤ r <;> simp [hw, Outcome.bind, Pure.pure]) _ _ _ _ (wordT_ok_lt hr)]
        cases hf : OneIterSt.fwdN tr b.data (b.data.data.size + 1) (it.next.2 / 64)
            (w0 &&& ~~~ lowSet (it.next.2 % 64)) n with
        | fault f => rfl
        | ok p =>
          obtain ⟨i, w, r⟩ := p
          simp only [Outcome.bind, GenFns.bit_offset_eq]

/-- `OneIter::nth` for `usize` fields (`limit.0 ≤ 2^64`) -/
theorem one_nth_eq (m : Mode) (tr : Tr) (b : BitVector) (it : OneIterSt) (n : Nat) (hv : b.data.data.size < U64)
    (hl : it.limit.1 ≤ U64) :
    gen_OneIter_nth m tr b.data it n = OneIterSt.nthQ tr m b it n :=
  one_nth_eq' m tr b it n hv (fun _ _ _ => by omega)


/-! ### `OneIter::size_hint` -/

/-- `OneIter::size_hint` -/
theorem one_size_hint_eq (m : Mode) (tr : Tr) (b : BitVector) (it : OneIterSt) (h : it.next.1 ≤ it.limit.1) :
    gen_OneIter_size_hint m tr b.data it = ok (it.remaining, some it.remaining) := by
  unfold gen_OneIter_size_hint OneIterSt.remaining
  rw [subM_ok h]; rfl

/-! ### `OneIter::next_back` -/

theorem bwd_loop {ρ : Type} (m : Mode) (tr : Tr) (v : RawVec)
    (step : Nat × Word → Outcome (Ctl (Nat × Word) ρ))
    (hstep : ∀ i w, step (i, w) = if w = 0 then (subM m i 1).bind (fun i' => (wordT tr v i').bind (fun w' =>
      ok (Ctl.next (i', w')))) else ok (Ctl.brk (i, w))) :
    ∀ fuel i w,
      loopM fuel step (i, w) = (OneIterSt.bwd tr m v fuel i w).bind (fun p => ok (Ctl.brk p)) := by
  intro fuel
  induction fuel with
  | zero => intro i w; rfl
  | succ n ih =>
    intro i w
    rw [loopM_succ, hstep, OneIterSt.bwd]
    by_cases hw : w = 0
    · simp only [hw, if_true]
      simp only [Bind.bind, Outcome.bind]
      cases subM m i 1 with
      | fault f => rfl
      | ok i' =>
        simp only []
        cases hr : wordT tr v i' with
        | fault f => rfl
        | ok w' =>
          simp only []
          exact ih i' w'
    · simp only [hw, if_false]; rfl

theorem bwd_ne_zero (m : Mode) (tr : Tr) (v : RawVec) :
    ∀ fuel i w p, OneIterSt.bwd tr m v fuel i w = ok p → p.2 ≠ 0 := by
  intro fuel
  induction fuel with
  | zero => intro i w p h; cases h
  | succ n ih =>
    intro i w p h
    rw [OneIterSt.bwd] at h
    by_cases hw : w = 0
    · simp only [hw, if_true, Bind.bind, Outcome.bind] at h
      cases h1 : subM m i 1 with
      | fault f => rw [h1] at h; cases h
      | ok i' =>
        rw [h1] at h
        simp only [] at h
        cases h2 : wordT tr v i' with
        | fault f => rw [h2] at h; cases h
        | ok w' =>
          rw [h2] at h
          exact ih _ _ _ h
    · simp only [hw, if_false] at h
      cases h; exact hw

/-- `OneIter::next_back`: unconditionally equal to the model -/
theorem one_next_back_eq (m : Mode) (tr : Tr) (b : BitVector) (it : OneIterSt) :
    gen_OneIter_next_back m tr b.data it = OneIterSt.nextBackQ tr m b it := by
  unfold gen_OneIter_next_back OneIterSt.nextBackQ
  by_cases h : it.next.1 ≥ it.limit.1
  · simp only [h, decide_true, if_true]; rfl
  · simp only [h, decide_false, Bool.false_eq_true, if_false]
    simp only [Bind.bind, Outcome.bind]
    cases subM m it.limit.1 1 with
    | fault f => rfl
    | ok l0 =>
      simp only []
      cases subM m it.limit.2 1 with
      | fault f => rfl
      | ok l1 =>
        simp only []
        rw [vsplit_eq]
        simp only []
        cases hr : wordT tr b.data (l1 / 64) with
        | fault f => rfl
        | ok w0 =>
          have h64 : l1 % 64 + 1 < U64 := by rw [U64_eq]; omega
          simp only [addM_ok h64, low_set_unchecked_eq, lowSetU_eq (l1 % 64 + 1) (by omega)]
          rw [bwd_loop m tr b.data _ (fun i w => by
            by_cases hw : w = 0 <;> simp [hw, Outcome.bind, Pure.pure])]
          cases hf : OneIterSt.bwd tr m b.data (b.data.data.size + 1) (l1 / 64) (w0 &&& lowSet (l1 % 64 + 1)) with
          | fault f => rfl
          | ok p =>
            obtain ⟨i, w⟩ := p
            have hw : w ≠ 0 := bwd_ne_zero m tr b.data _ _ _ _ hf
            have hc := (clz_spec w hw).1
            simp only [Outcome.bind, GenFns.bit_offset_eq, subM_ok (show clz w ≤ 63 by omega)]


/-! ### `SelectSupport::select_unchecked` -/

theorem scan_loop {ρ : Type} (m : Mode) (tr : Tr) (v : RawVec) (hv : v.data.size < U64)
    (step : Nat × Nat × Word × Nat → Outcome (Ctl (Nat × Nat × Word × Nat) ρ))
    (hstep : ∀ rr res val w, step (rr, res, val, w) =
      if popcount val > rr then
        (selWord val rr).bind (fun p => (bitOffset m w p).bind (fun r => ok (Ctl.brk (rr, r, val, w))))
      else
        (subM m rr (popcount val)).bind (fun rr' => (addM m w 1).bind (fun w' => (wordT tr v w').bind (fun val' =>
          ok (Ctl.next (rr', res, val', w')))))) :
    ∀ fuel rr res val w, w < v.data.size →
      match SelSup.scan tr m v fuel w val rr with
      | ok r => ∃ rr' val' w', loopM fuel step (rr, res, val, w) = ok (Ctl.brk (rr', r, val', w'))
      | fault f => loopM fuel step (rr, res, val, w) = fault f := by
  intro fuel
  induction fuel with
  | zero => intro rr res val w _; rfl
  | succ n ih =>
    intro rr res val w hw
    rw [loopM_succ, hstep, SelSup.scan]
    by_cases ho : popcount val > rr
    · simp only [ho, if_true, Bind.bind, Outcome.bind]
      cases selWord val rr with
      | fault f => rfl
      | ok p =>
        simp only []
        cases bitOffset m w p with
        | fault f => rfl
        | ok r => exact ⟨rr, val, w, rfl⟩
    · simp only [ho, if_false, Bind.bind]
      rw [subM_ok (by omega), addM_ok (by omega)]
      simp only [Outcome.bind]
      cases hr : wordT tr v (w + 1) with
      | fault f => rfl
      | ok val' =>
        simp only []
        exact ih _ res val' (w + 1) (wordT_ok_lt hr)

/-- the body of the word scan of `select_unchecked` as generated, named -/
def scanStep {ρ : Type} (m : Mode) (tr : Tr) (v : RawVec) :
    Nat × Nat × Word × Nat → Outcome (Ctl (Nat × Nat × Word × Nat) ρ) := fun (rr, res, val, w) =>
  if popcount val > rr then
    (selWord val rr).bind (fun p => (bitOffset m w p).bind (fun r => ok (Ctl.brk (rr, r, val, w))))
  else
    (subM m rr (popcount val)).bind (fun rr' => (addM m w 1).bind (fun w' => (wordT tr v w').bind (fun val' =>
      ok (Ctl.next (rr', res, val', w')))))

private theorem and_4095 (x : Nat) : x &&& 4095 = x % 4096 := Nat.and_two_pow_sub_one_eq_mod x 12
private theorem and_1 (x : Nat) : x &&& 1 = x % 2 := Nat.and_two_pow_sub_one_eq_mod x 1

/-- `SelectSupport::select_unchecked`; `hr` is what `2 * superblock + 1 < 2^64` needs -/
theorem select_unchecked_eq' (m : Mode) (tr : Tr) (s : SelSup) (v : RawVec) (rank : Nat)
    (hr : rank < 2 ^ 75) (hv : v.data.size < U64) :
    gen_SelectSupport_select_unchecked m tr s v rank = s.selectU tr m v rank := by
  unfold gen_SelectSupport_select_unchecked SelSup.selectU
  have h2 : 2 * (rank / 4096) + 1 < U64 := by rw [U64_eq]; omega
  rw [GenFns.gDiv_pos _ _ (by decide), and_4095]
  simp only [Bind.bind, Outcome.bind, mulM_ok (show 2 * (rank / 4096) < U64 by omega), addM_ok h2]
  cases h0 : s.samples.get (2 * (rank / 4096)) with
  | fault f => rfl
  | ok r0 =>
    simp only []
    by_cases hoff : rank % 4096 = 0
    · simp only [hoff, decide_true, if_true]
    · simp only [hoff, decide_false, Bool.false_eq_true, if_false]
      cases h1 : s.samples.get (2 * (rank / 4096) + 1) with
      | fault f => rfl
      | ok p =>
        have hp : p.toNat < 2 ^ 64 := p.isLt
        simp only [GenFns.gDiv_pos _ _ (show (2 : Nat) ≠ 0 by decide), and_1]
        by_cases hsh : p.toNat % 2 = 0
        · simp only [hsh, decide_true, if_true]
          simp only [addM_ok (show p.toNat / 2 + rank % 4096 < U64 by rw [U64_eq]; omega)]
          cases s.long.get (p.toNat / 2 + rank % 4096) with
          | fault f => rfl
          | ok d =>
            simp only []
            cases addM m r0.toNat d.toNat <;> rfl
        · simp only [hsh, decide_false, Bool.false_eq_true, if_false]
          simp only [GenFns.gDiv_pos _ _ (show (64 : Nat) ≠ 0 by decide), and_63,
            addM_ok (show p.toNat / 2 + rank % 4096 / 64 < U64 by rw [U64_eq]; omega)]
          cases s.short.get (p.toNat / 2 + rank % 4096 / 64) with
          | fault f => rfl
          | ok d =>
            simp only []
            cases addM m r0.toNat d.toNat with
            | fault f => rfl
            | ok res =>
              simp only []
              by_cases hrr : rank % 4096 % 64 > 0
              · simp only [hrr, decide_true, if_true]
                rw [vsplit_eq]
                simp only []
                cases hw : wordT tr v (res / 64) with
                | fault f => rfl
                | ok w0 =>
                  simp only [low_set_unchecked_eq, lowSetU_eq (res % 64) (by omega)]
                  rw [loopM_congr (step' := scanStep (ρ := Nat) m tr v) (h := fun ⟨rr, res, val, w⟩ => by
                    by_cases ho : popcount val > rr <;> simp [scanStep, ho, Outcome.bind, GenFns.bit_offset_eq])]
                  have hl := scan_loop (ρ := Nat) m tr v hv (scanStep m tr v) (fun _ _ _ _ => rfl)
                    (v.data.size + 1) (rank % 4096 % 64) res (w0 &&& ~~~ lowSet (res % 64)) (res / 64) (wordT_ok_lt hw)
                  cases hs : SelSup.scan tr m v (v.data.size + 1) (res / 64) (w0 &&& ~~~ lowSet (res % 64))
                      (rank % 4096 % 64) with
                  | fault f => rw [hs] at hl; simp only [] at hl; rw [hl]
                  | ok r =>
                    rw [hs] at hl; simp only [] at hl
                    obtain ⟨rr', val', w', hl⟩ := hl
                    rw [hl]; rfl
              · simp only [hrr, decide_false, Bool.false_eq_true, if_false]; rfl

/-- `SelectSupport::select_unchecked` for a `usize` rank -/
theorem select_unchecked_eq (m : Mode) (tr : Tr) (s : SelSup) (v : RawVec) (rank : Nat)
    (hr : rank < U64) (hv : v.data.size < U64) :
    gen_SelectSupport_select_unchecked m tr s v rank = s.selectU tr m v rank :=
  select_unchecked_eq' m tr s v rank (by rw [U64_eq] at hr; omega) hv


/-! ### the hypotheses are needed -/

/-- `hl` of `one_nth_eq` is sharp: with `limit.0 = 2^64 + 1` (not a `usize`), `next.0 = 2^64 - 1`, `n = 1` the sum
`next.0 + n` overflows; the model (which adds first) panics, the code (which scans first) reads out of bounds. -/
theorem one_nth_ne :
    let b : BitVector := { ones := 0, data := ⟨0, #[]⟩ }
    let it : OneIterSt := ⟨(U64 - 1, 0), (U64 + 1, 0)⟩
    gen_OneIter_nth .checked .ident b.data it 1 = fault .oob ∧
    OneIterSt.nthQ .ident .checked b it 1 = fault (.panic .overflow) := by
  decide

/-- `hr` of `select_unchecked_eq'` is sharp: for `rank = 2^75` (not a `usize`) the code overflows in `2 * superblock`,
the model indexes `samples` at `2^64`. -/
theorem select_unchecked_ne :
    let s : SelSup := ⟨IntVec.default, IntVec.default, IntVec.default⟩
    let v : RawVec := ⟨0, #[]⟩
    gen_SelectSupport_select_unchecked .checked .ident s v (2 ^ 75) = fault (.panic .overflow) ∧
    s.selectU .ident .checked v (2 ^ 75) = fault (.panic .assert) := by
  decide

/-- `h` of `one_size_hint_eq` is needed: the subtraction `limit.0 - next.0` is a `usize` subtraction in the code. -/
theorem one_size_hint_ne :
    let it : OneIterSt := ⟨(1, 0), (0, 0)⟩
    gen_OneIter_size_hint .checked .ident ⟨0, #[]⟩ it = fault (.panic .overflow) ∧
    gen_OneIter_size_hint .wrapping .ident ⟨0, #[]⟩ it = ok (U64 - 1, some (U64 - 1)) ∧
    it.remaining = 0 := by
  decide

end Sds.GenEq
