/-
Proofs/GenEqIter: the two-cursor iterators `ops::AccessIter` and `bit_vector::Iter` as TRANSLATED statement by
statement from the source on every run (Generated/FnsIter.lean) perform exactly the step `cursorStep` of Model/Iter
that the deque-simulation theorems of C09 / C10 are about — for every cursor with `next ≤ limit < 2^64` (the invariant
of every iterator the library creates and of every state reached from one), every `n`, both arithmetic modes.
-/
import Sds.Model.Iter
import Sds.Generated.FnsIter

namespace Sds.GenEq
open Sds Outcome Generated

/-- the `Option` an iterator call returns -/
def outOpt {α} : IOut α → Option α
  | .item a => some a
  | _ => none

def stepPair {α} (get : Nat → α) (c : Cursor) (k : ICall) : Option α × Cursor :=
  (outOpt (cursorStep get c k).1, (cursorStep get c k).2)

theorem access_next_eq {α} (m : Mode) (get : Nat → α) (c : Cursor) (hl : c.limit < U64) :
    gen_AccessIter_next m get c = ok (stepPair get c .next) := by
  unfold gen_AccessIter_next stepPair cursorStep
  by_cases h : c.next ≥ c.limit
  · simp [h, outOpt]
  · have : c.next + 1 < U64 := by omega
    simp [h, outOpt, addM_ok this]

theorem access_next_back_eq {α} (m : Mode) (get : Nat → α) (c : Cursor) :
    gen_AccessIter_next_back m get c = ok (stepPair get c .nextBack) := by
  unfold gen_AccessIter_next_back stepPair cursorStep
  by_cases h : c.next ≥ c.limit
  · simp [h, outOpt]
  · have : 1 ≤ c.limit := by omega
    simp [h, outOpt, subM_ok this]

theorem access_nth_eq {α} (m : Mode) (get : Nat → α) (c : Cursor) (n : Nat) (hc : c.next ≤ c.limit) (hl : c.limit < U64) :
    gen_AccessIter_nth m get c n = ok (stepPair get c (.nth n)) := by
  unfold gen_AccessIter_nth
  have h1 : subM m c.limit c.next = ok (c.limit - c.next) := subM_ok hc
  have h2 : c.next + min n (c.limit - c.next) < U64 := by omega
  simp only [h1, addM_ok h2, Bind.bind, Outcome.bind]
  rw [access_next_eq m get _ (by simpa using hl)]
  unfold stepPair cursorStep
  by_cases h : c.next + min n (c.limit - c.next) ≥ c.limit
  · simp [h, outOpt]
  · simp [h, outOpt]

theorem access_nth_back_eq {α} (m : Mode) (get : Nat → α) (c : Cursor) (n : Nat) (hc : c.next ≤ c.limit) :
    gen_AccessIter_nth_back m get c n = ok (stepPair get c (.nthBack n)) := by
  unfold gen_AccessIter_nth_back
  have h1 : subM m c.limit c.next = ok (c.limit - c.next) := subM_ok hc
  have h2 : min n (c.limit - c.next) ≤ c.limit := by omega
  simp only [h1, subM_ok h2, Bind.bind, Outcome.bind]
  rw [access_next_back_eq m get _]
  unfold stepPair cursorStep
  by_cases h : c.next ≥ c.limit - min n (c.limit - c.next)
  · simp [h, outOpt]
  · simp [h, outOpt]

theorem access_size_hint_eq {α} (m : Mode) (get : Nat → α) (c : Cursor) (hc : c.next ≤ c.limit) :
    gen_AccessIter_size_hint m get c = ok (c.limit - c.next, some (c.limit - c.next)) := by
  unfold gen_AccessIter_size_hint
  simp [subM_ok hc]

/-- the step keeps the invariant, so the equations apply along every call history -/
theorem cursorStep_inv {α} (get : Nat → α) (c : Cursor) (k : ICall) (hc : c.next ≤ c.limit) :
    (cursorStep get c k).2.next ≤ (cursorStep get c k).2.limit ∧ (cursorStep get c k).2.limit ≤ c.limit := by
  cases k <;> simp only [cursorStep] <;> (try split) <;> simp <;> omega

/-! `bit_vector::Iter` has the same five bodies -/

theorem bit_next_eq {α} (m : Mode) (get : Nat → α) (c : Cursor) (hl : c.limit < U64) :
    gen_BitIter_next m get c = ok (stepPair get c .next) := by
  unfold gen_BitIter_next stepPair cursorStep
  by_cases h : c.next ≥ c.limit
  · simp [h, outOpt]
  · have : c.next + 1 < U64 := by omega
    simp [h, outOpt, addM_ok this]

theorem bit_next_back_eq {α} (m : Mode) (get : Nat → α) (c : Cursor) :
    gen_BitIter_next_back m get c = ok (stepPair get c .nextBack) := by
  unfold gen_BitIter_next_back stepPair cursorStep
  by_cases h : c.next ≥ c.limit
  · simp [h, outOpt]
  · have : 1 ≤ c.limit := by omega
    simp [h, outOpt, subM_ok this]

theorem bit_nth_eq {α} (m : Mode) (get : Nat → α) (c : Cursor) (n : Nat) (hc : c.next ≤ c.limit) (hl : c.limit < U64) :
    gen_BitIter_nth m get c n = ok (stepPair get c (.nth n)) := by
  unfold gen_BitIter_nth
  have h1 : subM m c.limit c.next = ok (c.limit - c.next) := subM_ok hc
  have h2 : c.next + min n (c.limit - c.next) < U64 := by omega
  simp only [h1, addM_ok h2, Bind.bind, Outcome.bind]
  rw [bit_next_eq m get _ (by simpa using hl)]
  unfold stepPair cursorStep
  by_cases h : c.next + min n (c.limit - c.next) ≥ c.limit
  · simp [h, outOpt]
  · simp [h, outOpt]

theorem bit_nth_back_eq {α} (m : Mode) (get : Nat → α) (c : Cursor) (n : Nat) (hc : c.next ≤ c.limit) :
    gen_BitIter_nth_back m get c n = ok (stepPair get c (.nthBack n)) := by
  unfold gen_BitIter_nth_back
  have h1 : subM m c.limit c.next = ok (c.limit - c.next) := subM_ok hc
  have h2 : min n (c.limit - c.next) ≤ c.limit := by omega
  simp only [h1, subM_ok h2, Bind.bind, Outcome.bind]
  rw [bit_next_back_eq m get _]
  unfold stepPair cursorStep
  by_cases h : c.next ≥ c.limit - min n (c.limit - c.next)
  · simp [h, outOpt]
  · simp [h, outOpt]

theorem bit_size_hint_eq {α} (m : Mode) (get : Nat → α) (c : Cursor) (hc : c.next ≤ c.limit) :
    gen_BitIter_size_hint m get c = ok (c.limit - c.next, some (c.limit - c.next)) := by
  unfold gen_BitIter_size_hint
  simp [subM_ok hc]

end Sds.GenEq
