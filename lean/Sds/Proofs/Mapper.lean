/-
Proofs/Mapper: the memory-mapped views over a file `pre ++ ser x ++ post`.
(a) each constructor accepts the serialization at `offset = pre.length`, exposes exactly the payload,
    and `offset + mapLen` is the offset of the next structure;
(b) each constructor refuses offsets at or past the end of the file (`View.int`, repaired, included;
    the F11 theorems are about the as-first-coded `View.intOld`, which evaluates `offset + 1` first);
(c) each constructor refuses a file that is cut short.
-/
import Sds.Model.Mapper

namespace Sds
open Outcome

/-! ### reading the file -/

theorem size_eq_of_toList {file : Array Word} {l : List Word} (hf : file.toList = l) :
    file.size = l.length := by
  rw [← hf]; simp

theorem fileAt_of_toList {file : Array Word} {pre : List Word} {w : Word} {rest : List Word}
    (hf : file.toList = pre ++ w :: rest) : fileAt file pre.length = ok w.toNat := by
  unfold fileAt
  have : file[pre.length]? = some w := by
    rw [← Array.getElem?_toList, hf]; simp
  rw [this]

theorem fileAt_oob {file : Array Word} {i : Nat} (h : file.size ≤ i) :
    fileAt file i = fault (.panic .index) := by
  unfold fileAt
  rw [Array.getElem?_eq_none h]

theorem toNat_ofNat64_map {n : Nat} (h : n < U64) : (BitVec.ofNat 64 n).toNat = n := by
  rw [BitVec.toNat_ofNat]; exact Nat.mod_eq_of_lt (by rw [← U64_eq]; exact h)

theorem drop_take_mid (pre : List Word) (w : Word) (body post : List Word) (n : Nat)
    (hn : n = body.length) :
    ((pre ++ w :: body ++ post).drop (pre.length + 1)).take n = body := by
  subst hn
  have : pre ++ w :: body ++ post = (pre ++ [w]) ++ (body ++ post) := by simp
  rw [this, List.drop_left' (by simp), List.take_left' rfl]

/-! ### (a) `View.slice` -/

/-- generic form: a length word `n` followed by `n * k` elements -/
theorem slice_ok (m : Mode) (k : Nat) (file : Array Word) (pre body post : List Word) (n : Nat)
    (hf : file.toList = pre ++ BitVec.ofNat 64 n :: body ++ post)
    (hn : n < U64) (hb : body.length = n * k) (hsz : file.size < U64) :
    View.slice m k file pre.length = ok ⟨pre.length, n * k + 1, n, body⟩ := by
  have hsize : file.size = pre.length + (1 + body.length) + post.length := by
    rw [size_eq_of_toList hf]; simp only [List.length_append, List.length_cons]; omega
  have hat : fileAt file pre.length = ok n := by
    rw [fileAt_of_toList (w := BitVec.ofNat 64 n) (rest := body ++ post) (by rw [hf]; simp),
      toNat_ofNat64_map hn]
  unfold View.slice
  have h1 : ¬ (pre.length ≥ file.size) := by omega
  rw [if_neg h1, hat]
  simp only [bind_ok]
  rw [addM_ok (by omega)]
  simp only [bind_ok]
  rw [mulM_ok (by omega)]
  simp only [bind_ok]
  rw [addM_ok (by omega)]
  simp only [bind_ok]
  have h2 : ¬ (pre.length + 1 + n * k > file.size) := by omega
  rw [if_neg h2, hf, drop_take_mid _ _ _ _ _ hb.symm]
  rfl

/-- the view tiles the file: the element after the view is the first element of `post` -/
theorem View.next_offset (v : View) (pre ser post : List Word)
    (ho : v.offset = pre.length) (hl : v.mapLen = ser.length) :
    (pre ++ ser ++ post).drop (v.offset + v.mapLen) = post := by
  rw [ho, hl, ← List.length_append, List.drop_left]

theorem vecU64C_ser_length (a : Array Word) : (vecU64C.ser a).length = a.size + 1 := by
  simp [vecU64C]

theorem flatMap_pair_length (l : List (Word × Word)) :
    (l.flatMap fun p => [p.1, p.2]).length = l.length * 2 := by
  induction l with
  | nil => rfl
  | cons a l ih => simp only [List.flatMap_cons, List.length_append, ih, List.length_cons,
      List.length_nil]; omega

theorem vecPairC_ser_length (a : Array (Word × Word)) : (vecPairC.ser a).length = a.size * 2 + 1 := by
  simp only [vecPairC, List.length_cons, flatMap_pair_length, Array.length_toList]

/-- `MappedSlice<u64>` over a serialized `Vec<u64>` -/
theorem slice_vecU64 (m : Mode) (pre post : List Word) (a : Array Word)
    (hsz : (pre ++ vecU64C.ser a ++ post).length < U64) :
    View.slice m 1 (pre ++ vecU64C.ser a ++ post).toArray pre.length =
      ok ⟨pre.length, (vecU64C.ser a).length, a.size, a.toList⟩ := by
  have hlen := hsz
  simp only [List.length_append, vecU64C_ser_length] at hlen
  rw [slice_ok m 1 _ pre a.toList post a.size (by simp [vecU64C]) (by omega) (by simp)
    (by simpa using hsz), vecU64C_ser_length, Nat.mul_one]

/-- `MappedSlice<(u64, u64)>` over a serialized `Vec<(u64, u64)>` -/
theorem slice_vecPair (m : Mode) (pre post : List Word) (a : Array (Word × Word))
    (hsz : (pre ++ vecPairC.ser a ++ post).length < U64) :
    View.slice m 2 (pre ++ vecPairC.ser a ++ post).toArray pre.length =
      ok ⟨pre.length, (vecPairC.ser a).length, a.size, a.toList.flatMap fun p => [p.1, p.2]⟩ := by
  have hlen := hsz
  simp only [List.length_append, vecPairC_ser_length] at hlen
  rw [slice_ok m 2 _ pre (a.toList.flatMap fun p => [p.1, p.2]) post a.size (by simp [vecPairC])
    (by omega) (by rw [flatMap_pair_length]; simp) (by simpa using hsz), vecPairC_ser_length]

/-! ### (a) `View.raw` -/

theorem raw_ok (m : Mode) (file : Array Word) (pre body post : List Word) (len n : Nat)
    (hf : file.toList = pre ++ BitVec.ofNat 64 len :: BitVec.ofNat 64 n :: body ++ post)
    (hlen : len < U64) (hb : body.length = n) (hsz : file.size < U64) :
    View.raw m file pre.length = ok ⟨pre.length, n + 2, len, body⟩ := by
  have hsize : file.size = pre.length + (2 + body.length) + post.length := by
    rw [size_eq_of_toList hf]; simp only [List.length_append, List.length_cons]; omega
  have hat : fileAt file pre.length = ok len := by
    rw [fileAt_of_toList (w := BitVec.ofNat 64 len) (rest := BitVec.ofNat 64 n :: body ++ post)
      (by rw [hf]; simp), toNat_ofNat64_map hlen]
  have hsl : View.slice m 1 file (pre.length + 1) = ok ⟨pre.length + 1, n * 1 + 1, n, body⟩ := by
    have := slice_ok m 1 file (pre ++ [BitVec.ofNat 64 len]) body post n (by rw [hf]; simp)
      (by omega) (by omega) hsz
    simpa using this
  unfold View.raw
  have h1 : ¬ (pre.length ≥ file.size) := by omega
  rw [if_neg h1, hat]
  simp only [bind_ok]
  rw [addM_ok (by omega)]
  simp only [bind_ok]
  rw [hsl]
  simp only [bind_ok]
  rw [subM_ok (by omega)]
  simp

theorem rawVecC_ser_length (v : RawVec) : (rawVecC.ser v).length = v.data.size + 2 := by
  simp [rawVecC, vecU64C]

/-- `RawVectorMapper` over a serialized `RawVector` -/
theorem raw_rawVec (m : Mode) (pre post : List Word) (v : RawVec) (hlen : v.len < U64)
    (hsz : (pre ++ rawVecC.ser v ++ post).length < U64) :
    View.raw m (pre ++ rawVecC.ser v ++ post).toArray pre.length =
      ok ⟨pre.length, (rawVecC.ser v).length, v.len, v.data.toList⟩ := by
  rw [raw_ok m _ pre v.data.toList post v.len v.data.size (by simp [rawVecC, vecU64C]) hlen (by simp)
    (by simpa using hsz), rawVecC_ser_length]

/-! ### (a) `View.int` -/

theorem int_ok (m : Mode) (file : Array Word) (pre body post : List Word) (len width rlen n : Nat)
    (hf : file.toList = pre ++ BitVec.ofNat 64 len :: BitVec.ofNat 64 width :: BitVec.ofNat 64 rlen ::
      BitVec.ofNat 64 n :: body ++ post)
    (hlen : len < U64) (hw : width < U64) (hrlen : rlen < U64) (hb : body.length = n)
    (hsz : file.size < U64) :
    View.int m file pre.length = ok (⟨pre.length, n + 4, len, body⟩, width) := by
  have hsize : file.size = pre.length + (4 + body.length) + post.length := by
    rw [size_eq_of_toList hf]; simp only [List.length_append, List.length_cons]; omega
  have hat : fileAt file pre.length = ok len := by
    rw [fileAt_of_toList (w := BitVec.ofNat 64 len) (rest := BitVec.ofNat 64 width ::
      BitVec.ofNat 64 rlen :: BitVec.ofNat 64 n :: body ++ post) (by rw [hf]; simp), toNat_ofNat64_map hlen]
  have hat1 : fileAt file (pre.length + 1) = ok width := by
    have := fileAt_of_toList (file := file) (pre := pre ++ [BitVec.ofNat 64 len])
      (w := BitVec.ofNat 64 width) (rest := BitVec.ofNat 64 rlen :: BitVec.ofNat 64 n :: body ++ post)
      (by rw [hf]; simp)
    rw [toNat_ofNat64_map hw] at this
    simpa using this
  have hraw : View.raw m file (pre.length + 2) = ok ⟨pre.length + 2, n + 2, rlen, body⟩ := by
    have := raw_ok m file (pre ++ [BitVec.ofNat 64 len, BitVec.ofNat 64 width]) body post rlen n
      (by rw [hf]; simp) hrlen hb hsz
    simpa using this
  unfold View.int
  have h0 : ¬ (pre.length ≥ file.size) := by omega
  rw [if_neg h0, addM_ok (by omega)]
  simp only [bind_ok]
  have h1 : ¬ (pre.length + 1 ≥ file.size) := by omega
  rw [if_neg h1, hat]
  simp only [bind_ok]
  rw [hat1]
  simp only [bind_ok]
  rw [addM_ok (by omega)]
  simp only [bind_ok]
  rw [hraw]
  simp only [bind_ok]
  rw [subM_ok (by omega)]
  simp

theorem intVecC_ser_length (v : IntVec) : (intVecC.ser v).length = v.data.data.size + 4 := by
  simp [intVecC, rawVecC, vecU64C]

/-- `IntVectorMapper` over a serialized `IntVector`; the second component is the width -/
theorem int_intVec (m : Mode) (pre post : List Word) (v : IntVec)
    (hlen : v.len < U64) (hw : v.width < U64) (hrlen : v.data.len < U64)
    (hsz : (pre ++ intVecC.ser v ++ post).length < U64) :
    View.int m (pre ++ intVecC.ser v ++ post).toArray pre.length =
      ok (⟨pre.length, (intVecC.ser v).length, v.len, v.data.data.toList⟩, v.width) := by
  rw [int_ok m _ pre v.data.data.toList post v.len v.width v.data.len v.data.data.size
    (by simp [intVecC, rawVecC, vecU64C]) hlen hw hrlen (by simp) (by simpa using hsz),
    intVecC_ser_length]

/-! ### (b) refusal at or past the end of the file -/

theorem slice_refuses (m : Mode) (k : Nat) (file : Array Word) (offset : Nat) (h : offset ≥ file.size) :
    View.slice m k file offset = fault (.err .eof) := by
  unfold View.slice; rw [if_pos h]

theorem bytes_refuses (m : Mode) (file : Array Word) (offset : Nat) (h : offset ≥ file.size) :
    View.bytes m file offset = fault (.err .eof) := by
  unfold View.bytes; rw [if_pos h]

theorem str_refuses (m : Mode) (valid : List UInt8 → Bool) (file : Array Word) (offset : Nat)
    (h : offset ≥ file.size) : View.str m valid file offset = fault (.err .eof) := by
  unfold View.str; rw [bytes_refuses m file offset h]; rfl

theorem raw_refuses (m : Mode) (file : Array Word) (offset : Nat) (h : offset ≥ file.size) :
    View.raw m file offset = fault (.err .eof) := by
  unfold View.raw; rw [if_pos h]

theorem option_refuses (m : Mode) (inner : Array Word → Nat → Outcome View) (file : Array Word)
    (offset : Nat) (h : offset ≥ file.size) : View.option m inner file offset = fault (.err .eof) := by
  unfold View.option; rw [if_pos h]

/-- `View.int` (repaired) refuses as soon as `offset` or `offset + 1` is not inside the file — every
offset, every mode, no overflow proviso -/
theorem int_refuses (m : Mode) (file : Array Word) (offset : Nat) (hsz : file.size < U64)
    (h : offset ≥ file.size ∨ offset + 1 ≥ file.size) : View.int m file offset = fault (.err .eof) := by
  unfold View.int
  by_cases h0 : offset ≥ file.size
  · rw [if_pos h0]
  · rw [if_neg h0, addM_ok (by omega)]
    simp only [bind_ok]
    rw [if_pos (by omega)]

theorem int_refuses_past_end (m : Mode) (file : Array Word) (offset : Nat)
    (h : offset ≥ file.size) : View.int m file offset = fault (.err .eof) := by
  unfold View.int; rw [if_pos h]

/-- the positive counterpart of F11: the repaired constructor returns the error at the last offset,
whatever the file and the build mode -/
theorem int_last_offset (m : Mode) (file : Array Word) (h : file.size < U64) :
    View.int m file (2 ^ 64 - 1) = fault (.err .eof) :=
  int_refuses_past_end m file _ (by rw [U64_eq] at h; omega)

/-- the as-first-coded constructor agrees with the repaired one whenever `offset + 1` does not overflow
and `offset` is inside the file -/
theorem intOld_eq_int (m : Mode) (file : Array Word) (offset : Nat) (h : offset < file.size) :
    View.intOld m file offset = View.int m file offset := by
  unfold View.int View.intOld
  rw [if_neg (by omega)]

/-- `View.intOld` refuses as soon as `offset + 1` is not inside the file, PROVIDED `offset + 1` does not
overflow -/
theorem intOld_refuses (m : Mode) (file : Array Word) (offset : Nat) (ho : offset + 1 < U64)
    (h : offset + 1 ≥ file.size) : View.intOld m file offset = fault (.err .eof) := by
  unfold View.intOld
  rw [addM_ok ho]
  simp only [bind_ok]
  rw [if_pos h]

/-- F11: at the last offset the as-first-coded `IntVectorMapper::new` panics (checked build) instead of
returning an error, whatever the file -/
theorem int_F11_checked (file : Array Word) :
    View.intOld .checked file (2 ^ 64 - 1) = fault (.panic .overflow) := by
  unfold View.intOld
  have : addM .checked (2 ^ 64 - 1) 1 = fault (.panic .overflow) := by decide
  rw [this]; rfl

theorem int_F11_wrapping_addM : addM .wrapping (2 ^ 64 - 1) 1 = ok 0 := by decide

/-- F11, release build: `offset + 1` wraps to 0; an empty file is refused … -/
theorem int_F11_wrapping_empty (file : Array Word) (h : file.size = 0) :
    View.intOld .wrapping file (2 ^ 64 - 1) = fault (.err .eof) := by
  unfold View.intOld
  rw [int_F11_wrapping_addM]
  simp only [bind_ok]
  rw [if_pos (by omega)]

/-- … and for every non-empty file the range test `0 ≥ file.size` passes and the constructor indexes
the file at `2^64 - 1`: an index panic whenever that is out of range -/
theorem int_F11_wrapping_nonempty (file : Array Word) (h0 : 0 < file.size) (h : file.size < U64) :
    View.intOld .wrapping file (2 ^ 64 - 1) = fault (.panic .index) := by
  unfold View.intOld
  rw [int_F11_wrapping_addM]
  simp only [bind_ok]
  rw [if_neg (by omega), fileAt_oob (by rw [U64_eq] at h; omega)]
  rfl

/-! ### (c) truncated files -/

/-- what can remain of `n :: body` (`body.length = n * k`) when the file is cut inside it;
`base` is the offset of the length word -/
def TruncSlice (k base : Nat) (rest : List Word) : Prop :=
  rest = [] ∨ ∃ n body', rest = BitVec.ofNat 64 n :: body' ∧ n < U64 ∧ body'.length < n * k ∧
    base + 1 + n * k < U64

theorem slice_trunc (m : Mode) (k : Nat) (file : Array Word) (pre rest : List Word)
    (hf : file.toList = pre ++ rest) (ht : TruncSlice k pre.length rest) :
    View.slice m k file pre.length = fault (.err .eof) := by
  rcases ht with rfl | ⟨n, body', rfl, hn, hb, hsz⟩
  · exact slice_refuses m k file _ (by rw [size_eq_of_toList hf]; simp)
  · have hsize : file.size = pre.length + (1 + body'.length) := by
      rw [size_eq_of_toList hf]; simp only [List.length_append, List.length_cons]; omega
    have hat : fileAt file pre.length = ok n := by
      rw [fileAt_of_toList hf, toNat_ofNat64_map hn]
    unfold View.slice
    have h1 : ¬ (pre.length ≥ file.size) := by omega
    rw [if_neg h1, hat]
    simp only [bind_ok]
    rw [addM_ok (by omega)]
    simp only [bind_ok]
    rw [mulM_ok (by omega)]
    simp only [bind_ok]
    rw [addM_ok (by omega)]
    simp only [bind_ok]
    rw [if_pos (by omega)]

def TruncRaw (base : Nat) (rest : List Word) : Prop :=
  rest = [] ∨ ∃ len r, rest = BitVec.ofNat 64 len :: r ∧ len < U64 ∧ TruncSlice 1 (base + 1) r

theorem raw_trunc (m : Mode) (file : Array Word) (pre rest : List Word)
    (hf : file.toList = pre ++ rest) (ht : TruncRaw pre.length rest) (hsz : file.size < U64) :
    View.raw m file pre.length = fault (.err .eof) := by
  rcases ht with rfl | ⟨len, r, rfl, hlen, hr⟩
  · exact raw_refuses m file _ (by rw [size_eq_of_toList hf]; simp)
  · have hsize : file.size = pre.length + (1 + r.length) := by
      rw [size_eq_of_toList hf]; simp only [List.length_append, List.length_cons]; omega
    have hat : fileAt file pre.length = ok len := by
      rw [fileAt_of_toList hf, toNat_ofNat64_map hlen]
    have hsl : View.slice m 1 file (pre.length + 1) = fault (.err .eof) := by
      have := slice_trunc m 1 file (pre ++ [BitVec.ofNat 64 len]) r (by rw [hf]; simp)
        (by simpa using hr)
      simpa using this
    have hlt : pre.length + 1 < U64 := by omega
    unfold View.raw
    have h1 : ¬ (pre.length ≥ file.size) := by omega
    rw [if_neg h1, hat]
    simp only [bind_ok]
    rw [addM_ok hlt]
    simp only [bind_ok]
    rw [hsl]
    rfl

/-- what can remain of an `IntVector` header-and-body when the file is cut inside it -/
def TruncInt (base : Nat) (rest : List Word) : Prop :=
  rest = [] ∨ (∃ len, rest = [BitVec.ofNat 64 len] ∧ len < U64) ∨
  ∃ len w r, rest = BitVec.ofNat 64 len :: BitVec.ofNat 64 w :: r ∧ len < U64 ∧ w < U64 ∧
    TruncRaw (base + 2) r

theorem int_trunc (m : Mode) (file : Array Word) (pre rest : List Word)
    (hf : file.toList = pre ++ rest) (ht : TruncInt pre.length rest) (hsz : file.size < U64) :
    View.int m file pre.length = fault (.err .eof) := by
  rcases ht with rfl | ⟨len, rfl, hlen⟩ | ⟨len, w, r, rfl, hlen, hw, hr⟩
  · exact int_refuses_past_end m file _ (by rw [size_eq_of_toList hf]; simp)
  · have hsize : file.size = pre.length + 1 := by rw [size_eq_of_toList hf]; simp
    exact int_refuses m file _ hsz (by omega)
  · have hsize : file.size = pre.length + (2 + r.length) := by
      rw [size_eq_of_toList hf]; simp only [List.length_append, List.length_cons]; omega
    have hat : fileAt file pre.length = ok len := by
      rw [fileAt_of_toList hf, toNat_ofNat64_map hlen]
    have hat1 : fileAt file (pre.length + 1) = ok w := by
      have := fileAt_of_toList (file := file) (pre := pre ++ [BitVec.ofNat 64 len])
        (w := BitVec.ofNat 64 w) (rest := r) (by rw [hf]; simp)
      rw [toNat_ofNat64_map hw] at this
      simpa using this
    have hraw : View.raw m file (pre.length + 2) = fault (.err .eof) := by
      have := raw_trunc m file (pre ++ [BitVec.ofNat 64 len, BitVec.ofNat 64 w]) r
        (by rw [hf]; simp) (by simpa using hr) hsz
      simpa using this
    unfold View.int
    have h0 : ¬ (pre.length ≥ file.size) := by omega
    rw [if_neg h0, addM_ok (by omega)]
    simp only [bind_ok]
    have h1 : ¬ (pre.length + 1 ≥ file.size) := by omega
    rw [if_neg h1, hat]
    simp only [bind_ok]
    rw [hat1]
    simp only [bind_ok]
    rw [addM_ok (by omega)]
    simp only [bind_ok]
    rw [hraw]
    rfl

theorem truncSlice_vecU64 (base : Nat) (a : Array Word) (j : Nat) (hj : j < (vecU64C.ser a).length)
    (hsz : base + (vecU64C.ser a).length < U64) : TruncSlice 1 base ((vecU64C.ser a).take j) := by
  rw [vecU64C_ser_length] at hj hsz
  cases j with
  | zero => left; rfl
  | succ j =>
    right
    refine ⟨a.size, a.toList.take j, by simp [vecU64C], by omega, ?_, by omega⟩
    simp only [List.length_take, Array.length_toList]; omega

theorem truncSlice_vecPair (base : Nat) (a : Array (Word × Word)) (j : Nat)
    (hj : j < (vecPairC.ser a).length) (hsz : base + (vecPairC.ser a).length < U64) :
    TruncSlice 2 base ((vecPairC.ser a).take j) := by
  rw [vecPairC_ser_length] at hj hsz
  cases j with
  | zero => left; rfl
  | succ j =>
    right
    refine ⟨a.size, (a.toList.flatMap fun p => [p.1, p.2]).take j, by simp [vecPairC], by omega, ?_,
      by omega⟩
    simp only [List.length_take, flatMap_pair_length, Array.length_toList]; omega

theorem truncRaw_rawVec (base : Nat) (v : RawVec) (j : Nat) (hj : j < (rawVecC.ser v).length)
    (hlen : v.len < U64) (hsz : base + (rawVecC.ser v).length < U64) :
    TruncRaw base ((rawVecC.ser v).take j) := by
  rw [rawVecC_ser_length] at hj hsz
  cases j with
  | zero => left; rfl
  | succ j =>
    right
    refine ⟨v.len, (vecU64C.ser v.data).take j, by simp [rawVecC], hlen, ?_⟩
    exact truncSlice_vecU64 _ _ _ (by rw [vecU64C_ser_length]; omega) (by rw [vecU64C_ser_length]; omega)

theorem truncInt_intVec (base : Nat) (v : IntVec) (j : Nat) (hj : j < (intVecC.ser v).length)
    (hlen : v.len < U64) (hw : v.width < U64) (hrlen : v.data.len < U64)
    (hsz : base + (intVecC.ser v).length < U64) :
    TruncInt base ((intVecC.ser v).take j) := by
  rw [intVecC_ser_length] at hj hsz
  match j with
  | 0 => left; rfl
  | 1 => right; left; exact ⟨v.len, by simp [intVecC], hlen⟩
  | j + 2 =>
    right; right
    refine ⟨v.len, v.width, (rawVecC.ser v.data).take j, by simp [intVecC], hlen, hw, ?_⟩
    exact truncRaw_rawVec _ _ _ (by rw [rawVecC_ser_length]; omega) hrlen
      (by rw [rawVecC_ser_length]; omega)

theorem length_pre_take_lt {pre ser : List Word} {j : Nat} (h : (pre ++ ser).length < U64) :
    (pre ++ ser.take j).toArray.size < U64 := by
  simp only [List.size_toArray, List.length_append, List.length_take] at h ⊢; omega

/-- (c) a file cut inside a serialized `Vec<u64>` is refused -/
theorem slice_vecU64_truncated (m : Mode) (pre : List Word) (a : Array Word) (j : Nat)
    (hj : j < (vecU64C.ser a).length) (hsz : (pre ++ vecU64C.ser a).length < U64) :
    View.slice m 1 (pre ++ (vecU64C.ser a).take j).toArray pre.length = fault (.err .eof) :=
  slice_trunc m 1 _ pre _ rfl (truncSlice_vecU64 _ a j hj (by simpa using hsz))

theorem slice_vecPair_truncated (m : Mode) (pre : List Word) (a : Array (Word × Word)) (j : Nat)
    (hj : j < (vecPairC.ser a).length) (hsz : (pre ++ vecPairC.ser a).length < U64) :
    View.slice m 2 (pre ++ (vecPairC.ser a).take j).toArray pre.length = fault (.err .eof) :=
  slice_trunc m 2 _ pre _ rfl (truncSlice_vecPair _ a j hj (by simpa using hsz))

theorem raw_rawVec_truncated (m : Mode) (pre : List Word) (v : RawVec) (j : Nat)
    (hj : j < (rawVecC.ser v).length) (hlen : v.len < U64)
    (hsz : (pre ++ rawVecC.ser v).length < U64) :
    View.raw m (pre ++ (rawVecC.ser v).take j).toArray pre.length = fault (.err .eof) :=
  raw_trunc m _ pre _ rfl (truncRaw_rawVec _ v j hj hlen (by simpa using hsz)) (length_pre_take_lt hsz)

theorem int_intVec_truncated (m : Mode) (pre : List Word) (v : IntVec) (j : Nat)
    (hj : j < (intVecC.ser v).length) (hlen : v.len < U64) (hw : v.width < U64)
    (hrlen : v.data.len < U64) (hsz : (pre ++ intVecC.ser v).length < U64) :
    View.int m (pre ++ (intVecC.ser v).take j).toArray pre.length = fault (.err .eof) :=
  int_trunc m _ pre _ rfl (truncInt_intVec _ v j hj hlen hw hrlen (by simpa using hsz))
    (length_pre_take_lt hsz)

/-! ### `View.bytes`, `View.str` -/

theorem packBytesAux_length (fuel : Nat) (bs : List UInt8) :
    (packBytesAux fuel bs).length = min fuel ((bs.length + 7) / 8) := by
  induction fuel generalizing bs with
  | zero => simp [packBytesAux]
  | succ fuel ih =>
    cases bs with
    | nil => simp [packBytesAux]
    | cons b bs =>
      rw [packBytesAux]
      · simp only [List.length_cons, ih, List.length_drop]; omega
      · intro h; cases h

theorem packBytes_length (bs : List UInt8) : (packBytes bs).length = (bs.length + 7) / 8 := by
  unfold packBytes; rw [packBytesAux_length]; omega

theorem bytesC_ser_length (bs : List UInt8) : (bytesC.ser bs).length = (bs.length + 7) / 8 + 1 := by
  simp [bytesC, packBytes_length]

/-! byte view of a packed byte vector -/

theorem bytesToNat_digit (bs : List UInt8) (i : Nat) :
    (bytesToNat bs >>> (8 * i)) % 256 = (bs.getD i 0).toNat := by
  induction bs generalizing i with
  | nil => simp [bytesToNat]
  | cons b bs ih =>
    have hb : b.toNat < 256 := b.toNat_lt
    cases i with
    | zero => simp only [bytesToNat, Nat.mul_zero, Nat.shiftRight_zero, List.getD_cons_zero]; omega
    | succ i =>
      rw [List.getD_cons_succ, ← ih i]
      congr 1
      simp only [bytesToNat, Nat.shiftRight_eq_div_pow]
      rw [show 8 * (i + 1) = 8 + 8 * i by omega, Nat.pow_add, ← Nat.div_div_eq_div_mul]
      congr 1
      omega

theorem bytesToNat_lt_map (bs : List UInt8) : bytesToNat bs < 256 ^ bs.length := by
  induction bs with
  | nil => simp [bytesToNat]
  | cons b bs ih =>
    have hb : b.toNat < 256 := b.toNat_lt
    simp only [bytesToNat, List.length_cons, Nat.pow_succ]
    omega

theorem wordToBytes_length (w : Word) : (wordToBytes w).length = 8 := by simp [wordToBytes]

theorem wordToBytes_bytesToNat_map (bs : List UInt8) (h : bs.length ≤ 8) :
    wordToBytes (BitVec.ofNat 64 (bytesToNat bs)) = (List.range 8).map fun i => bs.getD i 0 := by
  have hlt : bytesToNat bs < 2 ^ 64 := by
    have := bytesToNat_lt_map bs
    have h2 : 256 ^ bs.length ≤ 256 ^ 8 := Nat.pow_le_pow_right (by omega) h
    omega
  unfold wordToBytes
  rw [BitVec.toNat_ofNat, Nat.mod_eq_of_lt hlt]
  apply List.map_congr_left
  intro i _
  rw [bytesToNat_digit]
  simp

theorem wordToBytes_take (bs : List UInt8) (h : bs.length ≤ 8) :
    (wordToBytes (BitVec.ofNat 64 (bytesToNat bs))).take bs.length = bs := by
  rw [wordToBytes_bytesToNat_map bs h]
  apply List.ext_getElem
  · simp; omega
  · intro i h1 h2
    simp at h1
    simp [List.getD_eq_getElem?_getD, h2]

theorem toBytes_cons_map (w : Word) (ws : List Word) : toBytes (w :: ws) = wordToBytes w ++ toBytes ws := by
  simp [toBytes]

theorem toBytes_packBytesAux (fuel : Nat) (bs : List UInt8) (h : bs.length ≤ fuel) :
    (toBytes (packBytesAux fuel bs)).take bs.length = bs := by
  induction fuel generalizing bs with
  | zero =>
    have : bs = [] := List.length_eq_zero_iff.mp (by omega)
    subst this; rfl
  | succ fuel ih =>
    cases bs with
    | nil => rfl
    | cons b bs =>
      rw [packBytesAux]
      · rw [toBytes_cons_map, List.take_append, wordToBytes_length]
        have ih' := ih ((b :: bs).drop 8) (by simp only [List.length_drop, List.length_cons] at h ⊢; omega)
        have hw := wordToBytes_take ((b :: bs).take 8) (by simp only [List.length_take]; omega)
        by_cases hle : (b :: bs).length ≤ 8
        · have e1 : (b :: bs).take 8 = b :: bs := List.take_of_length_le hle
          rw [e1] at hw
          rw [e1, hw, show (b :: bs).length - 8 = 0 by omega, List.take_zero, List.append_nil]
        · have e1 : ((b :: bs).take 8).length = 8 := by simp only [List.length_take]; omega
          rw [e1] at hw
          have e2 : List.take (b :: bs).length (wordToBytes (BitVec.ofNat 64 (bytesToNat ((b :: bs).take 8)))) =
              (b :: bs).take 8 := by
            rw [List.take_of_length_le (by rw [wordToBytes_length]; omega)]
            rw [List.take_of_length_le (by rw [wordToBytes_length]; omega)] at hw
            exact hw
          rw [e2]
          rw [List.length_drop] at ih'
          rw [ih', List.take_append_drop]
      · intro h; cases h

/-- the first `len` bytes of the payload of a packed byte vector are the bytes -/
theorem toBytes_packBytes (bs : List UInt8) : (toBytes (packBytes bs)).take bs.length = bs :=
  toBytes_packBytesAux bs.length bs (Nat.le_refl _)

private theorem bytesToWords_ok' (m : Mode) (n : Nat) (h : n + 7 < U64) :
    bytesToWords m n = ok ((n + 7) / 8) := by
  unfold bytesToWords; rw [addM_ok h]; rfl

/-- generic form: a byte count `n` followed by `⌈n/8⌉` elements -/
theorem bytes_ok (m : Mode) (file : Array Word) (pre body post : List Word) (n : Nat)
    (hf : file.toList = pre ++ BitVec.ofNat 64 n :: body ++ post)
    (hn : n + 7 < U64) (hb : body.length = (n + 7) / 8) (hsz : file.size < U64) :
    View.bytes m file pre.length = ok ⟨pre.length, (n + 7) / 8 + 1, n, body⟩ := by
  have hsize : file.size = pre.length + (1 + body.length) + post.length := by
    rw [size_eq_of_toList hf]; simp only [List.length_append, List.length_cons]; omega
  have hat : fileAt file pre.length = ok n := by
    rw [fileAt_of_toList (w := BitVec.ofNat 64 n) (rest := body ++ post) (by rw [hf]; simp),
      toNat_ofNat64_map (by omega)]
  unfold View.bytes
  have h1 : ¬ (pre.length ≥ file.size) := by omega
  rw [if_neg h1, hat]
  simp only [bind_ok]
  rw [addM_ok (by omega)]
  simp only [bind_ok]
  rw [bytesToWords_ok' m n hn]
  simp only [bind_ok]
  rw [addM_ok (by omega)]
  simp only [bind_ok]
  have h2 : ¬ (pre.length + 1 + (n + 7) / 8 > file.size) := by omega
  rw [if_neg h2, hf, drop_take_mid _ _ _ _ _ hb.symm]
  rfl

/-- `MappedBytes` over a serialized `Vec<u8>` -/
theorem bytes_bytesC (m : Mode) (pre post : List Word) (bs : List UInt8) (hn : bs.length + 7 < U64)
    (hsz : (pre ++ bytesC.ser bs ++ post).length < U64) :
    View.bytes m (pre ++ bytesC.ser bs ++ post).toArray pre.length =
      ok ⟨pre.length, (bytesC.ser bs).length, bs.length, packBytes bs⟩ := by
  rw [bytes_ok m _ pre (packBytes bs) post bs.length (by simp [bytesC]) hn (packBytes_length bs)
    (by simpa using hsz), bytesC_ser_length]

/-- `MappedStr` over a serialized `String`: accepted iff the validity test accepts the bytes -/
theorem str_bytesC (m : Mode) (valid : List UInt8 → Bool) (pre post : List Word) (bs : List UInt8)
    (hn : bs.length + 7 < U64) (hsz : (pre ++ bytesC.ser bs ++ post).length < U64) :
    View.str m valid (pre ++ (stringC valid).ser bs ++ post).toArray pre.length =
      if valid bs then
        ok ⟨pre.length, (bytesC.ser bs).length, bs.length, packBytes bs⟩
      else fault (.err .invalid) := by
  unfold View.str
  show (View.bytes m (pre ++ bytesC.ser bs ++ post).toArray pre.length >>= _) = _
  rw [bytes_bytesC m pre post bs hn hsz]
  simp only [bind_ok, toBytes_packBytes]
  rfl

/-- the bytes a `MappedBytes` view exposes (first `len` bytes of its payload) are the serialized bytes -/
theorem bytes_bytesC_content (m : Mode) (pre post : List Word) (bs : List UInt8) (hn : bs.length + 7 < U64)
    (hsz : (pre ++ bytesC.ser bs ++ post).length < U64) :
    ∃ v, View.bytes m (pre ++ bytesC.ser bs ++ post).toArray pre.length = ok v ∧
      (toBytes v.payload).take v.len = bs :=
  ⟨_, bytes_bytesC m pre post bs hn hsz, toBytes_packBytes bs⟩

def TruncBytes (base : Nat) (rest : List Word) : Prop :=
  rest = [] ∨ ∃ n body', rest = BitVec.ofNat 64 n :: body' ∧ n + 7 < U64 ∧ body'.length < (n + 7) / 8 ∧
    base + 1 + (n + 7) / 8 < U64

theorem bytes_trunc (m : Mode) (file : Array Word) (pre rest : List Word)
    (hf : file.toList = pre ++ rest) (ht : TruncBytes pre.length rest) :
    View.bytes m file pre.length = fault (.err .eof) := by
  rcases ht with rfl | ⟨n, body', rfl, hn, hb, hsz⟩
  · exact bytes_refuses m file _ (by rw [size_eq_of_toList hf]; simp)
  · have hsize : file.size = pre.length + (1 + body'.length) := by
      rw [size_eq_of_toList hf]; simp only [List.length_append, List.length_cons]; omega
    have hat : fileAt file pre.length = ok n := by
      rw [fileAt_of_toList hf, toNat_ofNat64_map (by omega)]
    unfold View.bytes
    have h1 : ¬ (pre.length ≥ file.size) := by omega
    rw [if_neg h1, hat]
    simp only [bind_ok]
    rw [addM_ok (by omega)]
    simp only [bind_ok]
    rw [bytesToWords_ok' m n hn]
    simp only [bind_ok]
    rw [addM_ok (by omega)]
    simp only [bind_ok]
    rw [if_pos (by omega)]

theorem truncBytes_bytesC (base : Nat) (bs : List UInt8) (j : Nat) (hj : j < (bytesC.ser bs).length)
    (hn : bs.length + 7 < U64) (hsz : base + (bytesC.ser bs).length < U64) :
    TruncBytes base ((bytesC.ser bs).take j) := by
  rw [bytesC_ser_length] at hj hsz
  cases j with
  | zero => left; rfl
  | succ j =>
    right
    refine ⟨bs.length, (packBytes bs).take j, by simp [bytesC], hn, ?_, by omega⟩
    simp only [List.length_take, packBytes_length]; omega

theorem bytes_bytesC_truncated (m : Mode) (pre : List Word) (bs : List UInt8) (j : Nat)
    (hj : j < (bytesC.ser bs).length) (hn : bs.length + 7 < U64)
    (hsz : (pre ++ bytesC.ser bs).length < U64) :
    View.bytes m (pre ++ (bytesC.ser bs).take j).toArray pre.length = fault (.err .eof) :=
  bytes_trunc m _ pre _ rfl (truncBytes_bytesC _ bs j hj hn (by simpa using hsz))

theorem str_bytesC_truncated (m : Mode) (valid : List UInt8 → Bool) (pre : List Word) (bs : List UInt8)
    (j : Nat) (hj : j < (bytesC.ser bs).length) (hn : bs.length + 7 < U64)
    (hsz : (pre ++ bytesC.ser bs).length < U64) :
    View.str m valid (pre ++ (bytesC.ser bs).take j).toArray pre.length = fault (.err .eof) := by
  unfold View.str; rw [bytes_bytesC_truncated m pre bs j hj hn hsz]; rfl

/-! ### `View.option` -/

theorem optionC_ser_none {α} (c : Codec α) : (optionC c).ser none = [0] := rfl
theorem optionC_ser_some {α} (c : Codec α) (x : α) :
    (optionC c).ser (some x) = BitVec.ofNat 64 (c.ser x).length :: c.ser x := rfl

/-- absent value: one element, nothing exposed -/
theorem option_none (m : Mode) {α} (c : Codec α) (inner : Array Word → Nat → Outcome View)
    (pre post : List Word) :
    View.option m inner (pre ++ (optionC c).ser none ++ post).toArray pre.length =
      ok (⟨pre.length, ((optionC c).ser (none : Option α)).length, 0, []⟩, false) := by
  have hat : fileAt (pre ++ (optionC c).ser none ++ post).toArray pre.length = ok 0 := by
    rw [fileAt_of_toList (w := 0) (rest := post) (by simp [optionC_ser_none])]; rfl
  unfold View.option
  have h1 : ¬ (pre.length ≥ (pre ++ (optionC c).ser none ++ post).toArray.size) := by
    simp [optionC_ser_none]
  rw [if_neg h1, hat]
  rfl

/-- present value (non-empty serialization): the inner constructor is run at `offset + 1` and the
option view spans the length word plus the declared number of elements -/
theorem option_some (m : Mode) {α} (c : Codec α) (inner : Array Word → Nat → Outcome View)
    (pre post : List Word) (x : α) (hpos : 0 < (c.ser x).length)
    (hsz : (pre ++ (optionC c).ser (some x) ++ post).length < U64) :
    View.option m inner (pre ++ (optionC c).ser (some x) ++ post).toArray pre.length =
      (inner (pre ++ (optionC c).ser (some x) ++ post).toArray (pre.length + 1)).bind fun v =>
        ok (⟨pre.length, ((optionC c).ser (some x)).length, (c.ser x).length, v.payload⟩, true) := by
  have hlen := hsz
  simp only [List.length_append, optionC_ser_some, List.length_cons] at hlen
  have hat : fileAt (pre ++ (optionC c).ser (some x) ++ post).toArray pre.length = ok (c.ser x).length := by
    rw [fileAt_of_toList (w := BitVec.ofNat 64 (c.ser x).length) (rest := c.ser x ++ post)
      (by simp [optionC_ser_some]), toNat_ofNat64_map (by omega)]
  unfold View.option
  have h1 : ¬ (pre.length ≥ (pre ++ (optionC c).ser (some x) ++ post).toArray.size) := by
    simp [optionC_ser_some]
  rw [if_neg h1, hat]
  simp only [bind_ok]
  rw [if_pos hpos, addM_ok (by omega)]
  rfl

/-- the inner offset handed to the inner constructor is where the inner serialization starts, so the
acceptance theorems above apply with `pre ++ [length word]` as the prefix; instance: `Option<Vec<u64>>` -/
theorem option_some_vecU64 (m : Mode) (pre post : List Word) (a : Array Word)
    (hsz : (pre ++ (optionC vecU64C).ser (some a) ++ post).length < U64) :
    View.option m (View.slice m 1) (pre ++ (optionC vecU64C).ser (some a) ++ post).toArray pre.length =
      ok (⟨pre.length, ((optionC vecU64C).ser (some a)).length, (vecU64C.ser a).length, a.toList⟩, true) := by
  rw [option_some m vecU64C _ pre post a (by rw [vecU64C_ser_length]; omega) hsz]
  have e : pre ++ (optionC vecU64C).ser (some a) ++ post =
      (pre ++ [BitVec.ofNat 64 (vecU64C.ser a).length]) ++ vecU64C.ser a ++ post := by
    simp [optionC_ser_some]
  have := slice_vecU64 m (pre ++ [BitVec.ofNat 64 (vecU64C.ser a).length]) post a (by rw [← e]; exact hsz)
  rw [← e] at this
  simp only [List.length_append, List.length_cons, List.length_nil, Nat.zero_add] at this
  rw [this]
  rfl

/-! ### tiling: consecutive structures -/

/-- two serialized vectors in a row: the second view starts exactly where the first one ends -/
theorem slice_then_slice (m : Mode) (pre post : List Word) (a b : Array Word)
    (hsz : (pre ++ vecU64C.ser a ++ vecU64C.ser b ++ post).length < U64) :
    ∃ v1 v2, View.slice m 1 (pre ++ vecU64C.ser a ++ vecU64C.ser b ++ post).toArray pre.length = ok v1 ∧
      View.slice m 1 (pre ++ vecU64C.ser a ++ vecU64C.ser b ++ post).toArray (v1.offset + v1.mapLen) = ok v2 ∧
      v1.payload = a.toList ∧ v2.payload = b.toList ∧ v2.offset = v1.offset + v1.mapLen := by
  have h1 := slice_vecU64 m pre (vecU64C.ser b ++ post) a (by simpa [List.append_assoc] using hsz)
  have h2 := slice_vecU64 m (pre ++ vecU64C.ser a) post b hsz
  rw [← List.append_assoc] at h1
  rw [List.length_append] at h2
  exact ⟨_, _, h1, h2, rfl, rfl, rfl⟩

/-- a raw vector followed by an int vector (as inside the serialized bit-vector structures) -/
theorem raw_then_int (m : Mode) (pre post : List Word) (r : RawVec) (v : IntVec)
    (hr : r.len < U64) (hlen : v.len < U64) (hw : v.width < U64) (hrlen : v.data.len < U64)
    (hsz : (pre ++ rawVecC.ser r ++ intVecC.ser v ++ post).length < U64) :
    ∃ v1 v2, View.raw m (pre ++ rawVecC.ser r ++ intVecC.ser v ++ post).toArray pre.length = ok v1 ∧
      View.int m (pre ++ rawVecC.ser r ++ intVecC.ser v ++ post).toArray (v1.offset + v1.mapLen) =
        ok (v2, v.width) ∧
      v1.payload = r.data.toList ∧ v2.payload = v.data.data.toList ∧
      v2.offset + v2.mapLen = pre.length + (rawVecC.ser r).length + (intVecC.ser v).length := by
  have h1 := raw_rawVec m pre (intVecC.ser v ++ post) r hr (by simpa [List.append_assoc] using hsz)
  have h2 := int_intVec m (pre ++ rawVecC.ser r) post v hlen hw hrlen hsz
  rw [← List.append_assoc] at h1
  rw [List.length_append] at h2
  exact ⟨_, _, h1, h2, rfl, rfl, rfl⟩

end Sds
