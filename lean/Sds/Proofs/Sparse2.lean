/-
Proofs/Sparse2: the builder of the Elias–Fano vector establishes the encoding relation
(`Sparse.ofValues … = ok s ∧ s.Encodes n w P`), the two-ended iterator, `select_zero`.
-/
import Sds.Proofs.Sparse
import Sds.Proofs.Select
import Sds.Proofs.IntVec
set_option linter.unusedSimpArgs false
set_option linter.unusedVariables false

namespace Sds
open Outcome

namespace Sparse2

/-! ### 1. the builder -/

/-- the builder state after accepting the first `k` values of `P` -/
structure BInv (w n inc : Nat) (P : List Nat) (k : Nat) (b : SparseBuilder) : Prop where
  univ_eq : b.univ = n
  inc_eq : b.increment = inc
  len_eq : b.len = k
  k_le : k ≤ P.length
  next_zero : k = 0 → b.next = 0
  next_pos : ∀ (h : 0 < k), b.next = P[k - 1]'(by omega) + inc
  low_wf : b.low.WF
  low_width : b.low.width = w
  low_len : b.low.len = P.length
  low_val : ∀ i, i < P.length → (b.low.getRaw i).toNat = if i < k then P[i]?.getD 0 % 2 ^ w else 0
  high_wf : b.high.WF
  high_len : b.high.len = P.length + Sparse.getBuckets n w
  high_bits : ∀ q, getBit b.high.data q = true ↔ ∃ i, ∃ (hi : i < P.length), i < k ∧ q = P[i] >>> w + i

theorem getBit_withLen_false (len q : Nat) : getBit (RawVec.withLen len false).data q = false := by
  have hwf := RawVec.withLen_WF len false
  by_cases hq : q < len
  · have h1 := RawVec.bits_getElem? (RawVec.withLen len false) q
    rw [RawVec.bits_withLen, RawVec.len_withLen, if_pos hq] at h1
    rw [List.getElem?_replicate, if_pos hq] at h1
    exact (Option.some.inj h1).symm
  · exact hwf.tail_zero q (by rw [RawVec.len_withLen]; omega)

/-- the state built by `new` / `multiset` -/
theorem binv_init (w n inc : Nat) (P : List Nat) (hw1 : 1 ≤ w) (hw : w ≤ 63) :
    ∃ low, IntVec.withLen P.length w 0 = ok low ∧
      BInv w n inc P 0 ⟨n, low, RawVec.withLen (P.length + Sparse.getBuckets n w) false, 0, 0, inc⟩ := by
  obtain ⟨v, h1, h2, h3, h4, h5⟩ := IntVec.withLen_spec P.length w 0 hw1 (by omega)
  refine ⟨v, h1, ⟨rfl, rfl, rfl, Nat.zero_le _, fun _ => rfl, fun h => absurd h (by omega), h2, h3, h4, ?_,
    RawVec.withLen_WF _ _, RawVec.len_withLen _ _, ?_⟩⟩
  · intro i hi
    have := IntVec.items_getElem? v i
    rw [h5, h4, if_pos hi, List.getElem?_replicate, if_pos hi] at this
    have := Option.some.inj this
    simp at this
    simp [← this]
  · intro q
    simp only [getBit_withLen_false]
    constructor
    · intro h; cases h
    · rintro ⟨i, hi, h0, _⟩; omega

theorem toNat_ofNat_and_lowSet (x w : Nat) (hw : w ≤ 63) :
    ((BitVec.ofNat 64 (x % 2 ^ w)) &&& lowSet w).toNat = x % 2 ^ w := by
  rw [toNat_and_lowSet _ _ (by omega), BitVec.toNat_ofNat]
  have h1 : x % 2 ^ w < 2 ^ w := Nat.mod_lt _ (Nat.two_pow_pos w)
  have h2 : 2 ^ w ≤ 2 ^ 64 := Nat.pow_le_pow_right (by decide) (by omega)
  rw [Nat.mod_eq_of_lt (a := x % 2 ^ w) (b := 2 ^ 64) (by omega), Nat.mod_eq_of_lt h1]

/-- one accepted `try_set` -/
theorem trySet_ok {w n inc : Nat} {P : List Nat} {k : Nat} {b : SparseBuilder} (hw : w ≤ 63)
    (hb : BInv w n inc P k b) (hk : k < P.length) (hn : P[k] < n) (hs : b.next ≤ P[k]) :
    ∃ b', b.trySet P[k] = ok b' ∧ BInv w n inc P (k + 1) b' := by
  have hfull : b.isFull = false := by
    unfold SparseBuilder.isFull SparseBuilder.capacity
    rw [hb.len_eq, hb.low_len]
    simp; omega
  have hnext : ¬ (P[k] < b.next) := by omega
  have hbk : P[k] >>> w < Sparse.getBuckets n w := shr_lt_getBuckets hw hn
  have hpos : P[k] >>> w + k < b.high.len := by rw [hb.high_len]; omega
  have hidx : (P[k] >>> w + k) / 64 < b.high.data.size := by
    rw [hb.high_wf.size_eq]; omega
  have hset := IntVec.set_ok b.low k (BitVec.ofNat 64 (P[k] % 2 ^ w)) (by rw [hb.low_len]; exact hk)
  unfold SparseBuilder.trySet
  rw [hfull, if_neg (by simp), if_neg hnext, if_neg (by rw [hb.univ_eq]; omega)]
  unfold SparseBuilder.setUnchecked
  simp only []
  rw [hb.low_width, hb.len_eq, hset]
  simp only [bind_ok]
  rw [if_pos hidx]
  refine ⟨_, rfl, ⟨hb.univ_eq, hb.inc_eq, rfl, hk, fun h => absurd h (by omega), ?_, ?_, hb.low_width, hb.low_len,
    ?_, ?_, ?_, ?_⟩⟩
  · intro _
    show P[k] + b.increment = P[k + 1 - 1] + inc
    simp only [Nat.add_sub_cancel, hb.inc_eq]
  · exact IntVec.set_WF hb.low_wf k (by rw [hb.low_len]; exact hk) _
  · intro i hi
    show (IntVec.getRaw { b.low with data := _ } i).toNat = _
    rw [IntVec.getRaw_set hb.low_wf k (by rw [hb.low_len]; exact hk)]
    by_cases hik : i = k
    · subst hik
      rw [if_pos rfl, if_pos (by omega), hb.low_width, toNat_ofNat_and_lowSet _ _ hw]
      simp [hk]
    · rw [if_neg hik, hb.low_val i hi]
      by_cases hlt : i < k
      · rw [if_pos hlt, if_pos (by omega)]
      · rw [if_neg hlt, if_neg (by omega)]
  · exact RawVec.setBit_WF hb.high_wf _ hpos true
  · show (b.high.setBit _ true).len = _
    rw [RawVec.len_setBit]; exact hb.high_len
  · intro q
    show getBit (b.high.setBit _ true).data q = true ↔ _
    rw [RawVec.getBit_setBit hb.high_wf _ hpos]
    by_cases hq : q = P[k] >>> w + k
    · rw [if_pos hq]
      simp only [true_iff]
      exact ⟨k, hk, by omega, hq⟩
    · rw [if_neg hq, hb.high_bits q]
      constructor
      · rintro ⟨i, hi, h1, h2⟩; exact ⟨i, hi, by omega, h2⟩
      · rintro ⟨i, hi, h1, h2⟩
        by_cases hik : i = k
        · subst hik; exact absurd h2 hq
        · exact ⟨i, hi, by omega, h2⟩

/-- a rejected `try_set` -/
theorem trySet_reject {w n inc : Nat} {P : List Nat} {k : Nat} {b : SparseBuilder}
    (hb : BInv w n inc P k b) (hk : k < P.length)
    (hbad : P[k] < b.next ∨ n ≤ P[k]) :
    b.trySet P[k] = fault (.err .other) := by
  unfold SparseBuilder.trySet
  by_cases hfull : b.isFull = true
  · rw [if_pos hfull]
  · rw [if_neg hfull]
    by_cases hnext : P[k] < b.next
    · rw [if_pos hnext]
    · rw [if_neg hnext]
      rcases hbad with h | h
      · omega
      · rw [if_pos (by rw [hb.univ_eq]; omega)]

/-- the acceptance test of the builder run over a list: every value is at least `next` and below `n` -/
def accepts (n inc : Nat) : Nat → List Nat → Bool
  | _, [] => true
  | nxt, p :: ps => decide (nxt ≤ p) && decide (p < n) && accepts n inc (p + inc) ps

theorem foldlM_fault {α β} (f : β → α → Outcome β) (e : Fault) (l : List α) :
    (fault e >>= fun b => l.foldlM f b) = fault e := rfl

/-- running `try_set` over the remaining values: all accepted (and the invariant holds at the end), or an error -/
theorem fold_spec {w n inc : Nat} {P : List Nat} (hw : w ≤ 63) :
    ∀ (j k : Nat) (b : SparseBuilder), k + j = P.length → BInv w n inc P k b →
      if accepts n inc b.next (P.drop k) = true then
        ∃ b', (P.drop k).foldlM (fun b v => b.trySet v) b = ok b' ∧ BInv w n inc P P.length b'
      else (P.drop k).foldlM (fun b v => b.trySet v) b = fault (.err .other) := by
  intro j
  induction j with
  | zero =>
    intro k b hk hb
    have : k = P.length := by omega
    subst this
    rw [List.drop_length]
    simp only [accepts, if_true]
    exact ⟨b, rfl, hb⟩
  | succ j ih =>
    intro k b hk hb
    have hlt : k < P.length := by omega
    rw [List.drop_eq_getElem_cons hlt, List.foldlM_cons]
    simp only [accepts, Bool.and_eq_true, decide_eq_true_eq]
    by_cases h1 : b.next ≤ P[k] ∧ P[k] < n
    · obtain ⟨b', hb1, hb2⟩ := trySet_ok hw hb hlt h1.2 h1.1
      rw [hb1]
      simp only [bind_ok]
      have hn := hb2.next_pos (by omega)
      simp only [Nat.add_sub_cancel] at hn
      have := ih (k + 1) b' (by omega) hb2
      rw [hn] at this
      simp only [h1, true_and]
      exact this
    · rw [if_neg (by intro h; exact h1 h.1)]
      rw [trySet_reject hb hlt (by omega)]
      rfl

theorem accepts_strict (n : Nat) : ∀ (P : List Nat) (nxt : Nat),
    accepts n 1 nxt P = true ↔ sortedStrict P = true ∧ (∀ p ∈ P, p < n) ∧ (∀ p ∈ P.head?, nxt ≤ p)
  | [], nxt => by simp [accepts, sortedStrict]
  | [a], nxt => by simp [accepts, sortedStrict]; exact And.comm
  | a :: b :: t, nxt => by
    have ih := accepts_strict n (b :: t) (a + 1)
    rw [accepts, Bool.and_eq_true, Bool.and_eq_true, ih]
    simp [sortedStrict]
    constructor
    · rintro ⟨⟨h1, h2⟩, h3, ⟨h4, h5⟩, h6⟩; exact ⟨⟨by omega, h3⟩, ⟨h2, h4, h5⟩, h1⟩
    · rintro ⟨⟨h1, h3⟩, ⟨h2, h4, h5⟩, h6⟩; exact ⟨⟨h6, h2⟩, h3, ⟨h4, h5⟩, by omega⟩

theorem accepts_le (n : Nat) : ∀ (P : List Nat) (nxt : Nat),
    accepts n 0 nxt P = true ↔ sortedLe P = true ∧ (∀ p ∈ P, p < n) ∧ (∀ p ∈ P.head?, nxt ≤ p)
  | [], nxt => by simp [accepts, sortedLe]
  | [a], nxt => by simp [accepts, sortedLe]; exact And.comm
  | a :: b :: t, nxt => by
    have ih := accepts_le n (b :: t) (a + 0)
    rw [accepts, Bool.and_eq_true, Bool.and_eq_true, ih]
    simp [sortedLe]
    constructor
    · rintro ⟨⟨h1, h2⟩, h3, ⟨h4, h5⟩, h6⟩; exact ⟨⟨by omega, h3⟩, ⟨h2, h4, h5⟩, h1⟩
    · rintro ⟨⟨h1, h3⟩, ⟨h2, h4, h5⟩, h6⟩; exact ⟨⟨h6, h2⟩, h3, ⟨h4, h5⟩, by omega⟩

theorem sortedStrict_le : ∀ (P : List Nat), sortedStrict P = true → sortedLe P = true
  | [], _ => rfl
  | [_], _ => rfl
  | a :: b :: t, h => by
    simp only [sortedStrict, Bool.and_eq_true, decide_eq_true_eq] at h
    simp only [sortedLe, Bool.and_eq_true, decide_eq_true_eq]
    exact ⟨by omega, sortedStrict_le (b :: t) h.2⟩

/-- (b) the raw `high` of a full builder is the unary bucket sequence -/
theorem high_bits_eq {w n inc : Nat} {P : List Nat} {b : SparseBuilder} (hw : w ≤ 63)
    (hb : BInv w n inc P P.length b) (hsorted : sortedLe P = true) (hbound : ∀ p ∈ P, p < n) :
    b.high.bits = highBits w (Sparse.getBuckets n w) P := by
  have hpw := sortedLe_pairwise P hsorted
  have hbk : ∀ p ∈ P, p >>> w < Sparse.getBuckets n w := fun p hp => shr_lt_getBuckets hw (hbound p hp)
  apply highBits_unique hpw hbk
  · rw [RawVec.bits_length, hb.high_len]
  · intro q
    rw [RawVec.bits_getElem?]
    by_cases hq : q < b.high.len
    · rw [if_pos hq]
      simp only [Option.some.injEq]
      rw [hb.high_bits q]
      constructor
      · rintro ⟨i, hi, _, h2⟩; exact ⟨i, hi, h2⟩
      · rintro ⟨i, hi, h2⟩; exact ⟨i, hi, hi, h2⟩
    · rw [if_neg hq]
      constructor
      · intro h; cases h
      · rintro ⟨i, hi, h2⟩
        have := hbk P[i] (List.getElem_mem hi)
        rw [hb.high_len] at hq
        omega

/-- (c), (d) `build` on a full builder succeeds and the result encodes `P` -/
theorem build_encodes {w n inc : Nat} {P : List Nat} {b : SparseBuilder} (hw1 : 1 ≤ w) (hw : w ≤ 63)
    (hn : n < 2 ^ 64) (hm : P.length < 2 ^ 63)
    (hb : BInv w n inc P P.length b) (hsorted : sortedLe P = true) (hbound : ∀ p ∈ P, p < n) :
    ∃ s, b.build = ok s ∧ s.Encodes n w P := by
  have hfull : b.isFull = true := by
    unfold SparseBuilder.isFull SparseBuilder.capacity
    rw [hb.len_eq, hb.low_len]; simp
  have hbits := high_bits_eq hw hb hsorted hbound
  have hlen : b.high.len < 2 ^ 64 := by
    have := getBuckets_le hw1 hn
    rw [hb.high_len]; omega
  unfold SparseBuilder.build
  rw [hfull]
  refine ⟨_, rfl, ⟨hb.univ_eq, hw1, hw, hn, hb.low_width, hb.low_len, ?_, hsorted, hbound, hm, hb.high_len, ?_, ?_, ?_⟩⟩
  · intro i hi
    have := hb.low_val i hi
    rw [if_pos hi, List.getElem?_eq_getElem hi] at this
    exact this
  · intro i hi
    have hi' : i < b.high.len := hi
    show b.high.bitM i = _
    unfold RawVec.bitM
    rw [if_pos (by rw [hb.high_wf.size_eq]; omega), ← hbits, RawVec.bits_getElem?, if_pos hi']
    rfl
  · intro m r
    rw [← hbits]
    exact selectQ_build hb.high_wf hlen rfl (RawVec.countOnes_eq hb.high_wf) rfl m r
  · intro m r
    rw [← hbits]
    exact selectZeroQ_build hb.high_wf hlen rfl (RawVec.countOnes_eq hb.high_wf) rfl m r

theorem strict_length_le {P : List Nat} {n : Nat} (hs : sortedStrict P = true) (hb : ∀ p ∈ P, p < n) :
    P.length ≤ n := by
  by_cases h0 : P.length = 0
  · omega
  · have hj : P.length - 1 < P.length := by omega
    have h1 := strict_getElem_ge (sortedStrict_pairwise P hs) _ hj
    have h2 := hb _ (List.getElem_mem hj)
    omega

/-- `ofValues` as the fold from the initial state -/
theorem ofValues_eq_fold (w n : Nat) (multi : Bool) (P : List Nat) (hw1 : 1 ≤ w) (hw : w ≤ 63)
    (hlen : multi = false → P.length ≤ n) :
    ∃ b0, BInv w n (if multi then 0 else 1) P 0 b0 ∧ b0.next = 0 ∧
      Sparse.ofValues w n multi P = ((P.drop 0).foldlM (fun b v => b.trySet v) b0 >>= fun b => b.build) := by
  cases multi with
  | true =>
    obtain ⟨low, h1, h2⟩ := binv_init w n 0 P hw1 hw
    refine ⟨_, h2, rfl, ?_⟩
    unfold Sparse.ofValues SparseBuilder.multiset
    simp only [if_true, h1, bind_ok, pure_eq, List.drop_zero]
  | false =>
    obtain ⟨low, h1, h2⟩ := binv_init w n 1 P hw1 hw
    refine ⟨_, h2, rfl, ?_⟩
    unfold Sparse.ofValues SparseBuilder.new
    have hle : ¬ (P.length > n) := by have := hlen rfl; omega
    simp only [Bool.false_eq_true, if_false, if_neg hle, h1, bind_ok, pure_eq, List.drop_zero]

/-- the builder run on an acceptable list yields the encoding -/
theorem ofValues_of_accepts (w n : Nat) (multi : Bool) (P : List Nat) (hw1 : 1 ≤ w) (hw : w ≤ 63)
    (hn : n < 2 ^ 64) (hm : P.length < 2 ^ 63) (hlen : multi = false → P.length ≤ n)
    (hacc : accepts n (if multi then 0 else 1) 0 P = true) (hsorted : sortedLe P = true)
    (hbound : ∀ p ∈ P, p < n) :
    ∃ s, Sparse.ofValues w n multi P = ok s ∧ s.Encodes n w P := by
  obtain ⟨b0, hb0, hnx, heq⟩ := ofValues_eq_fold w n multi P hw1 hw hlen
  have := fold_spec hw P.length 0 b0 (by omega) hb0
  rw [hnx, List.drop_zero, if_pos hacc] at this
  obtain ⟨b', h1, h2⟩ := this
  rw [heq, List.drop_zero, h1]
  simp only [bind_ok]
  exact build_encodes hw1 hw hn hm h2 hsorted hbound

theorem ofValues_of_not_accepts (w n : Nat) (multi : Bool) (P : List Nat) (hw1 : 1 ≤ w) (hw : w ≤ 63)
    (hacc : ¬ accepts n (if multi then 0 else 1) 0 P = true) :
    Sparse.ofValues w n multi P = fault (.err .other) := by
  by_cases hlen : multi = false → P.length ≤ n
  · obtain ⟨b0, hb0, hnx, heq⟩ := ofValues_eq_fold w n multi P hw1 hw hlen
    have := fold_spec hw P.length 0 b0 (by omega) hb0
    rw [hnx, List.drop_zero, if_neg hacc] at this
    rw [heq, List.drop_zero, this]
    rfl
  · have hm : multi = false := by
      cases multi with
      | true => exact absurd (fun h => by cases h) hlen
      | false => rfl
    subst hm
    unfold Sparse.ofValues SparseBuilder.new
    simp only [Bool.false_eq_true, if_false]
    rw [if_pos (by simp at hlen; omega)]
    rfl

end Sparse2

/-! #### the headline statements -/

/-- **Set mode.** For a strictly increasing list below the universe size, `ofValues` succeeds and the result
encodes the list. -/
theorem ofValues_set_ok (w n : Nat) (P : List Nat) (hw1 : 1 ≤ w) (hw : w ≤ 63) (hn : n < 2 ^ 64)
    (hm : P.length < 2 ^ 63) (hsorted : sortedStrict P = true) (hbound : ∀ p ∈ P, p < n) :
    ∃ s, Sparse.ofValues w n false P = ok s ∧ s.Encodes n w P :=
  Sparse2.ofValues_of_accepts w n false P hw1 hw hn hm (fun _ => Sparse2.strict_length_le hsorted hbound)
    ((Sparse2.accepts_strict n P 0).mpr ⟨hsorted, hbound, fun _ _ => Nat.zero_le _⟩)
    (Sparse2.sortedStrict_le P hsorted) hbound

/-- **Multiset mode.** For a non-decreasing list below the universe size, `ofValues` succeeds and the result
encodes the list. -/
theorem ofValues_multi_ok (w n : Nat) (P : List Nat) (hw1 : 1 ≤ w) (hw : w ≤ 63) (hn : n < 2 ^ 64)
    (hm : P.length < 2 ^ 63) (hsorted : sortedLe P = true) (hbound : ∀ p ∈ P, p < n) :
    ∃ s, Sparse.ofValues w n true P = ok s ∧ s.Encodes n w P :=
  Sparse2.ofValues_of_accepts w n true P hw1 hw hn hm (fun h => by cases h)
    ((Sparse2.accepts_le n P 0).mpr ⟨hsorted, hbound, fun _ _ => Nat.zero_le _⟩) hsorted hbound

/-- **Rejection, set mode**: not strictly increasing, or a value `≥ n` (this covers `P.length > n`) -/
theorem ofValues_set_reject (w n : Nat) (P : List Nat) (hw1 : 1 ≤ w) (hw : w ≤ 63)
    (hbad : ¬ (sortedStrict P = true ∧ ∀ p ∈ P, p < n)) :
    Sparse.ofValues w n false P = fault (.err .other) := by
  apply Sparse2.ofValues_of_not_accepts w n false P hw1 hw
  intro h
  have := (Sparse2.accepts_strict n P 0).mp h
  exact hbad ⟨this.1, this.2.1⟩

theorem ofValues_set_reject_len (w n : Nat) (P : List Nat) (hw1 : 1 ≤ w) (hw : w ≤ 63)
    (hbad : n < P.length) : Sparse.ofValues w n false P = fault (.err .other) := by
  apply ofValues_set_reject w n P hw1 hw
  intro h
  have := Sparse2.strict_length_le h.1 h.2
  omega

/-- **Rejection, multiset mode**: not non-decreasing, or a value `≥ n` -/
theorem ofValues_multi_reject (w n : Nat) (P : List Nat) (hw1 : 1 ≤ w) (hw : w ≤ 63)
    (hbad : ¬ (sortedLe P = true ∧ ∀ p ∈ P, p < n)) :
    Sparse.ofValues w n true P = fault (.err .other) := by
  apply Sparse2.ofValues_of_not_accepts w n true P hw1 hw
  intro h
  have := (Sparse2.accepts_le n P 0).mp h
  exact hbad ⟨this.1, this.2.1⟩

/-- **Corollary: the queries of a built vector.**  (`multi = false`: `P` strictly increasing; `multi = true`:
non-decreasing.) -/
theorem ofValues_queries (w n : Nat) (multi : Bool) (P : List Nat) (hw1 : 1 ≤ w) (hw : w ≤ 63) (hn : n < 2 ^ 64)
    (hm : P.length < 2 ^ 63)
    (hsorted : if multi then sortedLe P = true else sortedStrict P = true) (hbound : ∀ p ∈ P, p < n) :
    ∃ s, Sparse.ofValues w n multi P = ok s ∧ s.Encodes n w P ∧
      (∀ m r, s.select m r = ok (P[r]?)) ∧
      (∀ m i, s.rank m i = ok (rankSet P i)) ∧
      (∀ m i, i < n → s.get m i = ok (getSet P i)) ∧
      (∀ m x, s.predecessor m x = ok (match predSet P x with
          | none => SpOneIter.emptyIter s
          | some kv => s.iterAt w P kv.1)) ∧
      (∀ m x, s.successor m x = ok (match succSet P x with
          | none => SpOneIter.emptyIter s
          | some kv => s.iterAt w P kv.1)) ∧
      (multi = false → ∀ m i, s.rankZero m i = ok (i - rankSet P i)) := by
  have h : ∃ s, Sparse.ofValues w n multi P = ok s ∧ s.Encodes n w P := by
    cases multi with
    | true => exact ofValues_multi_ok w n P hw1 hw hn hm (by simpa using hsorted) hbound
    | false => exact ofValues_set_ok w n P hw1 hw hn hm (by simpa using hsorted) hbound
  obtain ⟨s, h1, hs⟩ := h
  refine ⟨s, h1, hs, fun m r => select_ok hs m r, fun m i => rank_ok hs m i, fun m i hi => get_ok hs m i hi,
    fun m x => pred_ok hs m x, fun m x => succ_ok hs m x, ?_⟩
  intro hmulti m i
  subst hmulti
  exact rankZero_ok hs (by simpa using hsorted) m i

namespace Sparse2

/-! ### 2. the two-ended iterator -/

/-- `it` is a two-ended iterator state whose next item from the front is number `r` and whose next item from the
back is number `R - 1`: the `next` cursor lies between the ones of items `r - 1` and `r`, the `limit` cursor is
past the one of item `R - 1` and not past the one of item `R` -/
structure IterBetween (s : Sparse) (w : Nat) (P : List Nat) (r R : Nat) (it : SpOneIter) : Prop where
  low_eq : it.next.low = r
  lim_low : it.limit.low = R
  r_le : r ≤ R
  R_le : R ≤ P.length
  high_le : ∀ (hr : r < P.length), it.next.high ≤ P[r] >>> w + r
  high_gt : ∀ (h0 : 0 < r), P[r - 1]'(by omega) >>> w + (r - 1) < it.next.high
  lim_len : it.limit.high ≤ s.high.len
  lim_le : ∀ (hR : R < P.length), it.limit.high ≤ P[R] >>> w + R
  lim_gt : ∀ (h0 : 0 < R), P[R - 1]'(by omega) >>> w + (R - 1) < it.limit.high

theorem between_of_IterAt {s : Sparse} {n w : Nat} {P : List Nat} (hs : s.Encodes n w P) {r : Nat} {it : SpOneIter}
    (hit : IterAt s w P r it) : IterBetween s w P r P.length it := by
  refine ⟨hit.low_eq, by rw [hit.limit_eq]; exact hs.low_len, hit.r_le, Nat.le_refl _, hit.high_le, hit.high_gt,
    by rw [hit.limit_eq]; exact Nat.le_refl _, fun h => absurd h (by omega), ?_⟩
  intro h0
  rw [hit.limit_eq]
  exact hs.pos_lt (P.length - 1) (by omega)

theorem full_between {s : Sparse} {n w : Nat} {P : List Nat} (hs : s.Encodes n w P) :
    IterBetween s w P 0 P.length (SpOneIter.full s) := between_of_IterAt hs (full_IterAt hs)

/-- forward step of a two-ended state -/
theorem nextQ_between {s : Sparse} {n w : Nat} {P : List Nat} (hs : s.Encodes n w P) (m : Mode) (r R : Nat)
    (it : SpOneIter) (hit : IterBetween s w P r R it) (hr : r < R) :
    SpOneIter.nextQ m s it =
        ok (some (r, P[r]'(by have := hit.R_le; omega)),
          { it with next := ⟨P[r]'(by have := hit.R_le; omega) >>> w + r + 1, r + 1⟩ }) ∧
    IterBetween s w P (r + 1) R { it with next := ⟨P[r]'(by have := hit.R_le; omega) >>> w + r + 1, r + 1⟩ } := by
  have hRl := hit.R_le
  have hrP : r < P.length := by omega
  constructor
  · unfold SpOneIter.nextQ
    rw [hit.lim_low, hit.low_eq, if_neg (by omega)]
    have hsk := skipFwd_spec hs r hrP (s.high.len + 1) it.next.high (hit.high_le hrP) (by
      intro i hi
      by_cases hir : i < r
      · left
        have h1 := hit.high_gt (by omega)
        by_cases e : i = r - 1
        · subst e; exact h1
        · have := hs.pos_strict i (r - 1) (by omega) (by omega)
          omega
      · right
        by_cases e : i = r
        · subst e; exact Nat.le_refl _
        · exact Nat.le_of_lt (hs.pos_strict r i (by omega) hi)) (by
      have := hs.pos_lt r hrP
      omega)
    simp only [hsk, bind_ok, hs.combine_ok m r hrP, pure_eq]
  · refine ⟨rfl, hit.lim_low, by omega, hit.R_le, ?_, ?_, hit.lim_len, hit.lim_le, hit.lim_gt⟩
    · intro hr1
      have := hs.pos_strict r (r + 1) (by omega) hr1
      show P[r] >>> w + r + 1 ≤ _
      omega
    · intro _
      show P[r + 1 - 1] >>> w + (r + 1 - 1) < P[r] >>> w + r + 1
      simp only [Nat.add_sub_cancel]
      omega

/-- backward step of a two-ended state: item `R - 1` is `(R - 1, P[R - 1])`, the limit moves onto its one -/
theorem nextBackQ_between {s : Sparse} {n w : Nat} {P : List Nat} (hs : s.Encodes n w P) (m : Mode) (r R : Nat)
    (it : SpOneIter) (hit : IterBetween s w P r R it) (hr : r < R) :
    SpOneIter.nextBackQ m s it =
        ok (some (R - 1, P[R - 1]'(by have := hit.R_le; omega)),
          { it with limit := ⟨P[R - 1]'(by have := hit.R_le; omega) >>> w + (R - 1), R - 1⟩ }) ∧
    IterBetween s w P r (R - 1) { it with limit := ⟨P[R - 1]'(by have := hit.R_le; omega) >>> w + (R - 1), R - 1⟩ } := by
  have hRl := hit.R_le
  have hR1 : R - 1 < P.length := by omega
  have hgt := hit.lim_gt (by omega)
  have hnn := Nat.zero_le (P[R - 1] >>> w)
  constructor
  · unfold SpOneIter.nextBackQ
    rw [hit.lim_low, hit.low_eq, if_neg (by omega)]
    rw [subM_ok (show 1 ≤ it.limit.high by omega), subM_ok (show 1 ≤ R by omega)]
    simp only [bind_ok]
    have hsk := skipBwd_spec hs m (R - 1) hR1 (s.high.len + 1) (it.limit.high - 1) (by omega)
      (by have := hit.lim_len; omega) (by
        intro i hi
        by_cases hiR : i ≤ R - 1
        · left
          by_cases e : i = R - 1
          · subst e; exact Nat.le_refl _
          · exact Nat.le_of_lt (hs.pos_strict i (R - 1) (by omega) hR1)
        · right
          have hRP : R < P.length := by omega
          have h1 := hit.lim_le hRP
          by_cases e : i = R
          · subst e; omega
          · have := hs.pos_strict R i (by omega) hi
            omega) (by have := hit.lim_len; omega)
    simp only [hsk, bind_ok, hs.combine_ok m (R - 1) hR1, pure_eq]
  · refine ⟨hit.low_eq, rfl, by omega, by omega, hit.high_le, hit.high_gt, ?_, ?_, ?_⟩
    · exact Nat.le_of_lt (hs.pos_lt (R - 1) hR1)
    · intro _; exact Nat.le_refl _
    · intro h0
      exact hs.pos_strict (R - 1 - 1) (R - 1) (by omega) hR1

/-- an exhausted two-ended state answers `None` from both ends and does not move -/
theorem nextQ_between_none {s : Sparse} {w : Nat} {P : List Nat} (m : Mode) (r R : Nat)
    (it : SpOneIter) (hit : IterBetween s w P r R it) (h : R ≤ r) : SpOneIter.nextQ m s it = ok (none, it) := by
  unfold SpOneIter.nextQ
  rw [hit.lim_low, hit.low_eq, if_pos h]

theorem nextBackQ_between_none {s : Sparse} {w : Nat} {P : List Nat} (m : Mode) (r R : Nat)
    (it : SpOneIter) (hit : IterBetween s w P r R it) (h : R ≤ r) :
    SpOneIter.nextBackQ m s it = ok (none, it) := by
  unfold SpOneIter.nextBackQ
  rw [hit.lim_low, hit.low_eq, if_pos h]

theorem remaining_between {s : Sparse} {w : Nat} {P : List Nat} (r R : Nat)
    (it : SpOneIter) (hit : IterBetween s w P r R it) : it.remaining = R - r := by
  unfold SpOneIter.remaining
  rw [hit.lim_low, hit.low_eq]

/-! #### simulation against a deque -/

/-- which end of the iterator is called -/
inductive End | front | back
  deriving DecidableEq, Repr

/-- one call on the iterator (`next` or `next_back`) -/
def callIter (m : Mode) (s : Sparse) (e : End) (it : SpOneIter) : Outcome (Option (Nat × Nat) × SpOneIter) :=
  match e with
  | .front => SpOneIter.nextQ m s it
  | .back => SpOneIter.nextBackQ m s it

/-- a sequence of calls (proof-side driver): the answers in order and the final state -/
def runCalls (m : Mode) (s : Sparse) : List End → SpOneIter → Outcome (List (Option (Nat × Nat)) × SpOneIter)
  | [], it => ok ([], it)
  | e :: es, it =>
    match callIter m s e it with
    | .fault f => .fault f
    | .ok (o, it') =>
      match runCalls m s es it' with
      | .fault f => .fault f
      | .ok (os, it'') => ok (o :: os, it'')

/-- one call on a deque -/
def callDeque {α} (e : End) (D : List α) : Option α × List α :=
  match e with
  | .front => (D.head?, D.tail)
  | .back => (D.getLast?, D.dropLast)

def runDeque {α} : List End → List α → List (Option α) × List α
  | [], D => ([], D)
  | e :: es, D => ((callDeque e D).1 :: (runDeque es (callDeque e D).2).1, (runDeque es (callDeque e D).2).2)

/-- the pairs `(i, P[i])` for `r ≤ i < R` -/
def itemsBetween (P : List Nat) (r R : Nat) : List (Nat × Nat) :=
  (List.range (R - r)).map fun i => (r + i, P[r + i]?.getD 0)

theorem itemsBetween_eq_itemsFrom (P : List Nat) (r : Nat) : itemsBetween P r P.length = itemsFrom P r := rfl

theorem itemsBetween_nil (P : List Nat) (r R : Nat) (h : R ≤ r) : itemsBetween P r R = [] := by
  unfold itemsBetween
  have : R - r = 0 := by omega
  rw [this]; rfl

theorem itemsBetween_cons (P : List Nat) (r R : Nat) (hr : r < R) (hR : R ≤ P.length) :
    itemsBetween P r R = (r, P[r]'(by omega)) :: itemsBetween P (r + 1) R := by
  unfold itemsBetween
  have e : R - r = (R - (r + 1)) + 1 := by omega
  rw [e, List.range_succ_eq_map, List.map_cons, List.map_map]
  simp only [Nat.add_zero, List.getElem?_eq_getElem (show r < P.length by omega), Option.getD_some]
  congr 1
  apply List.map_congr_left
  intro i _
  simp only [Function.comp, Nat.succ_eq_add_one]
  have e2 : r + (i + 1) = r + 1 + i := by omega
  rw [e2]

theorem itemsBetween_snoc (P : List Nat) (r R : Nat) (hr : r < R) (hR : R ≤ P.length) :
    itemsBetween P r R = itemsBetween P r (R - 1) ++ [(R - 1, P[R - 1]'(by omega))] := by
  unfold itemsBetween
  have e : R - r = (R - 1 - r) + 1 := by omega
  rw [e, List.range_succ, List.map_append]
  congr 1
  have e2 : r + (R - 1 - r) = R - 1 := by omega
  simp only [List.map_cons, List.map_nil, e2, List.getElem?_eq_getElem (show R - 1 < P.length by omega),
    Option.getD_some]

theorem itemsBetween_length (P : List Nat) (r R : Nat) : (itemsBetween P r R).length = R - r := by
  simp [itemsBetween]

/-- **Two-ended simulation.**  Any interleaving of `next` / `next_back` calls on a two-ended state answers exactly
like the same calls on the deque of the pairs `(i, P[i])`, `r ≤ i < R`; no fault in either mode, and the final
state is again a two-ended state for what is left of the deque. -/
theorem runCalls_between {s : Sparse} {n w : Nat} {P : List Nat} (hs : s.Encodes n w P) (m : Mode) :
    ∀ (calls : List End) (r R : Nat) (it : SpOneIter), IterBetween s w P r R it →
      ∃ it' r' R', runCalls m s calls it = ok ((runDeque calls (itemsBetween P r R)).1, it') ∧
        (runDeque calls (itemsBetween P r R)).2 = itemsBetween P r' R' ∧ IterBetween s w P r' R' it' ∧
        r ≤ r' ∧ R' ≤ R := by
  intro calls
  induction calls with
  | nil =>
    intro r R it hit
    exact ⟨it, r, R, rfl, rfl, hit, Nat.le_refl _, Nat.le_refl _⟩
  | cons e es ih =>
    intro r R it hit
    have hRl := hit.R_le
    by_cases hr : r < R
    · cases e with
      | front =>
        obtain ⟨h1, h2⟩ := nextQ_between hs m r R it hit hr
        obtain ⟨it', r', R', h3, h4, h5, h6, h7⟩ := ih (r + 1) R _ h2
        refine ⟨it', r', R', ?_, ?_, h5, by omega, h7⟩
        · rw [runCalls]
          simp only [callIter, h1, h3]
          rw [runDeque, itemsBetween_cons P r R hr hRl]
          simp only [callDeque, List.head?_cons, List.tail_cons]
        · rw [runDeque, itemsBetween_cons P r R hr hRl]
          simp only [callDeque, List.tail_cons]
          exact h4
      | back =>
        obtain ⟨h1, h2⟩ := nextBackQ_between hs m r R it hit hr
        obtain ⟨it', r', R', h3, h4, h5, h6, h7⟩ := ih r (R - 1) _ h2
        refine ⟨it', r', R', ?_, ?_, h5, h6, by omega⟩
        · rw [runCalls]
          simp only [callIter, h1, h3]
          rw [runDeque, itemsBetween_snoc P r R hr hRl]
          simp only [callDeque, List.getLast?_append, List.getLast?_singleton, List.dropLast_concat,
            Option.some_or]
        · rw [runDeque, itemsBetween_snoc P r R hr hRl]
          simp only [callDeque, List.dropLast_concat]
          exact h4
    · have e0 : r = R := by have := hit.r_le; omega
      subst e0
      obtain ⟨it', r', R', h3, h4, h5, h6, h7⟩ := ih r r it hit
      have hnil := itemsBetween_nil P r r (Nat.le_refl _)
      refine ⟨it', r', R', ?_, ?_, h5, h6, h7⟩
      · rw [runCalls]
        cases e with
        | front =>
          simp only [callIter, nextQ_between_none m r r it hit (Nat.le_refl _), h3]
          rw [runDeque, hnil]
          simp only [callDeque, List.head?_nil, List.tail_nil]
        | back =>
          simp only [callIter, nextBackQ_between_none m r r it hit (Nat.le_refl _), h3]
          rw [runDeque, hnil]
          simp only [callDeque, List.getLast?_nil, List.dropLast_nil]
      · rw [runDeque, hnil]
        cases e <;> simp only [callDeque, List.tail_nil, List.dropLast_nil] <;> rw [← hnil] <;> exact h4

/-- from the full iterator: the deque is the whole list of pairs `(i, P[i])` -/
theorem runCalls_full {s : Sparse} {n w : Nat} {P : List Nat} (hs : s.Encodes n w P) (m : Mode)
    (calls : List End) :
    ∃ it' r' R', runCalls m s calls (SpOneIter.full s) = ok ((runDeque calls (itemsFrom P 0)).1, it') ∧
      (runDeque calls (itemsFrom P 0)).2 = itemsBetween P r' R' ∧ IterBetween s w P r' R' it' := by
  obtain ⟨it', r', R', h1, h2, h3, _, _⟩ := runCalls_between hs m calls 0 P.length _ (full_between hs)
  exact ⟨it', r', R', h1, h2, h3⟩

/-- the `Some` answers given to the calls on end `e`, in call order -/
def answersOf {α} (e : End) : List End → List (Option α) → List α
  | c :: cs, o :: os => (if c = e then o.toList else []) ++ answersOf e cs os
  | _, _ => []

/-- **Partition.**  On a deque, the answers from the front, what is left, and the reversed answers from the back
make up the original content: every item is delivered at most once, by exactly one end, in order. -/
theorem runDeque_partition {α} : ∀ (calls : List End) (D : List α),
    answersOf .front calls (runDeque calls D).1 ++ (runDeque calls D).2 ++
      (answersOf .back calls (runDeque calls D).1).reverse = D := by
  intro calls
  induction calls with
  | nil => intro D; simp [runDeque, answersOf]
  | cons e es ih =>
    intro D
    cases e with
    | front =>
      cases D with
      | nil =>
        have := ih ([] : List α)
        simpa [runDeque, callDeque, answersOf] using this
      | cons x D' =>
        have := ih D'
        simp only [runDeque, callDeque, answersOf, List.head?_cons, List.tail_cons, if_true, Option.toList_some,
          List.cons_append, List.nil_append, List.append_assoc] at this ⊢
        simp only [reduceCtorEq, if_false, List.nil_append]
        rw [this]
    | back =>
      rcases List.eq_nil_or_concat D with rfl | ⟨D', x, rfl⟩
      · have := ih ([] : List α)
        simpa [runDeque, callDeque, answersOf] using this
      · have := ih D'
        rw [List.concat_eq_append]
        simp only [runDeque, callDeque, answersOf, List.getLast?_concat,
          List.dropLast_concat, if_true, Option.toList_some, reduceCtorEq, if_false,
          List.nil_append, List.reverse_append, List.reverse_cons, List.reverse_nil, List.cons_append]
        rw [← List.append_assoc, this]

/-! ### 3. `select_zero` (set mode) -/

/-- in a strictly increasing list `P[i] - i` (the number of zeros before `P[i]`) is non-decreasing -/
theorem strict_gap_mono {P : List Nat} (h : P.Pairwise (· < ·)) (i j : Nat) (hij : i ≤ j) (hj : j < P.length) :
    P[i]'(by omega) + (j - i) ≤ P[j] := by
  induction j with
  | zero =>
    have : i = 0 := by omega
    subst this; simp
  | succ j ih =>
    by_cases e : i = j + 1
    · subst e; simp
    · have h1 := ih (by omega) (by omega)
      have h2 := pairwise_lt_getElem h j (j + 1) (by omega) hj
      omega

/-- at most `rank` zeros in front of item `k - 1` (vacuous for `k = 0`) -/
def ZerosLe (P : List Nat) (rank k : Nat) : Prop := ∀ j (hj : j < P.length), j + 1 = k → P[j] ≤ rank + j

/-- the binary-search phase: it returns a state `(k, it)` with `it` at item `k` and at most `rank` zeros in
front of item `k - 1` -/
theorem fzrSearch_spec {s : Sparse} {n w : Nat} {P : List Nat} (hs : s.Encodes n w P)
    (hst : P.Pairwise (· < ·)) (m : Mode) (rank : Nat) :
    ∀ (fuel low high : Nat) (it : SpOneIter), high - low < 2 ^ (fuel + 4) → low ≤ high → high ≤ P.length →
      IterAt s w P low it → ZerosLe P rank low →
      ∃ k it', Sparse.fzrSearch m s rank (fuel + 1) low high (low, it) = ok (k, it') ∧ IterAt s w P k it' ∧
        ZerosLe P rank k := by
  intro fuel
  induction fuel with
  | zero =>
    intro low high it hf hlh hhP hit hlow
    rw [Sparse.fzrSearch, if_neg (by omega)]
    exact ⟨low, it, rfl, hit, hlow⟩
  | succ fuel ih =>
    intro low high it hf hlh hhP hit hlow
    rw [Sparse.fzrSearch]
    by_cases hgt : high - low > 16
    · rw [if_pos hgt]
      have hmidlt : low + (high - low) / 2 < P.length := by omega
      have hml : low ≤ low + (high - low) / 2 := by omega
      have hmh : low + (high - low) / 2 < high := by omega
      have hpow : 2 ^ (fuel + 1 + 4) = 2 * 2 ^ (fuel + 4) := by rw [Nat.pow_succ]; omega
      have hm1 : high - (low + (high - low) / 2 + 1) < 2 ^ (fuel + 4) := by omega
      have hm2 : low + (high - low) / 2 - low < 2 ^ (fuel + 4) := by omega
      generalize low + (high - low) / 2 = mid at *
      have hge := strict_getElem_ge hst mid hmidlt
      have hnx := nextQ_ok hs m mid _ (by
        have := iterAt_IterAt hs mid
        rwa [show min mid P.length = mid by omega] at this) hmidlt
      simp only [selectIter_ok hs m mid, bind_ok, hnx.1, unwrapM]
      rw [subM_ok hge]
      simp only [bind_ok]
      by_cases hd : P[mid] - mid ≤ rank
      · rw [if_pos hd]
        exact ih (mid + 1) high _ hm1 (by omega) hhP hnx.2 (by
          intro j hj hjm
          have : j = mid := by omega
          subst this
          omega)
      · rw [if_neg hd]
        exact ih low mid it hm2 hml (by omega) hit hlow
    · rw [if_neg hgt]
      exact ⟨low, it, rfl, hit, hlow⟩

/-- the linear phase: it advances to the first item `K` with more than `rank` zeros in front of it -/
theorem fzrScan_spec {s : Sparse} {n w : Nat} {P : List Nat} (hs : s.Encodes n w P)
    (hst : P.Pairwise (· < ·)) (m : Mode) (rank : Nat) :
    ∀ (fuel k : Nat) (it : SpOneIter), P.length + 2 ≤ fuel + k → IterAt s w P k it → ZerosLe P rank k →
      ∃ K it', Sparse.fzrScan m s rank fuel it (k, it) = ok (K, it') ∧ IterAt s w P K it' ∧
        ZerosLe P rank K ∧ (∀ (h : K < P.length), rank + K < P[K]) := by
  intro fuel
  induction fuel with
  | zero =>
    intro k it hf hit; have := hit.r_le; omega
  | succ fuel ih =>
    intro k it hf hit hk
    have hkl := hit.r_le
    rw [Sparse.fzrScan]
    by_cases hlt : k < P.length
    · have hnx := nextQ_ok hs m k it hit hlt
      have hge := strict_getElem_ge hst k hlt
      simp only [hnx.1, bind_ok]
      rw [subM_ok hge]
      simp only [bind_ok]
      by_cases hd : P[k] - k ≤ rank
      · rw [if_pos hd]
        exact ih (k + 1) _ (by omega) hnx.2 (by
          intro j hj hjm
          have : j = k := by omega
          subst this
          omega)
      · rw [if_neg hd]
        exact ⟨k, it, rfl, hit, hk, fun _ => by omega⟩
    · have e : k = P.length := by omega
      subst e
      simp only [nextQ_none hs m it hit, bind_ok]
      exact ⟨P.length, it, rfl, hit, hk, fun h => absurd h (by omega)⟩

/-- `find_zero_run rank`: the number `K` of values with at most `rank` zeros in front of them, and the iterator
at item `K` -/
theorem findZeroRun_ok {s : Sparse} {n w : Nat} {P : List Nat} (hs : s.Encodes n w P)
    (hstrict : sortedStrict P = true) (m : Mode) (rank : Nat) :
    ∃ K it', s.findZeroRun m rank = ok (K, it') ∧ IterAt s w P K it' ∧ K ≤ P.length ∧
      (∀ j (hj : j < P.length), j < K → P[j] ≤ rank + j) ∧
      (∀ j (hj : j < P.length), K ≤ j → rank + j < P[j]) := by
  have hst := sortedStrict_pairwise P hstrict
  have hm := hs.m_lt
  unfold Sparse.findZeroRun Sparse.countOnes
  rw [hs.low_len]
  obtain ⟨k, it, h1, h2, h3⟩ := fzrSearch_spec hs hst m rank 69 0 P.length (SpOneIter.full s)
    (by
      have : (2 : Nat) ^ 63 ≤ 2 ^ (69 + 4) := Nat.pow_le_pow_right (by decide) (by decide)
      omega) (Nat.zero_le _) (Nat.le_refl _) (full_IterAt hs) (fun j hj h => absurd h (by omega))
  rw [h1]
  simp only [bind_ok]
  obtain ⟨K, it', h4, h5, h6, h7⟩ := fzrScan_spec hs hst m rank (P.length + 2) k it (by omega) h2 h3
  refine ⟨K, it', h4, h5, h5.r_le, ?_, ?_⟩
  · intro j hj hjK
    have hK1 : K - 1 < P.length := by have := h5.r_le; omega
    have h8 := h6 (K - 1) hK1 (by omega)
    have := strict_gap_mono hst j (K - 1) (by omega) hK1
    omega
  · intro j hj hKj
    have h8 := h7 (by omega)
    have := strict_gap_mono hst K j hKj hj
    omega

/-- **`select_zero`, set mode.**  For `r` below the number of zeros the answer is the position `z` of the zero
of rank `r`: `z < n`, `z ∉ P` and exactly `r` zeros lie in front of `z`; otherwise `None`.  No fault in either
mode. -/
theorem selectZero_ok {s : Sparse} {n w : Nat} {P : List Nat} (hs : s.Encodes n w P)
    (hstrict : sortedStrict P = true) (m : Mode) (r : Nat) :
    if r < n - P.length then
      ∃ z, s.selectZero m r = ok (some z) ∧ z < n ∧ getSet P z = false ∧ z - rankSet P z = r ∧ rankSet P z ≤ z
    else s.selectZero m r = ok none := by
  unfold Sparse.selectZero Sparse.countZeros Sparse.countOnes
  rw [hs.low_len, hs.len_eq]
  by_cases hr : r < n - P.length
  · rw [if_pos hr]
    have hc : ¬ (r ≥ if P.length ≥ n then 0 else n - P.length) := by split <;> omega
    rw [if_neg hc]
    obtain ⟨K, it', h1, h2, h3, h4, h5⟩ := findZeroRun_ok hs hstrict m r
    have hn := hs.n_lt
    simp only [h1, bind_ok]
    rw [addM_ok (by rw [U64_eq]; omega)]
    simp only [bind_ok, pure_eq]
    have hrk : rankSet P (K + r) = K := by
      apply rankSet_eq hs.pw (K + r) K h3
      · intro h; have := h4 (K - 1) (by omega) (by omega); omega
      · intro h; have := h5 K h (Nat.le_refl _); omega
    refine ⟨K + r, rfl, by omega, ?_, by rw [hrk]; omega, by rw [hrk]; omega⟩
    unfold getSet
    apply contains_false_of_split P (K + r) K
    · intro j hj hjK; have := h4 j hj hjK; omega
    · intro j hj hKj; have := h5 j hj hKj; omega
  · rw [if_neg hr]
    have hc : r ≥ if P.length ≥ n then 0 else n - P.length := by split <;> omega
    rw [if_pos hc]

/-! ### 4a. the iterator over the zeros (set mode) -/

/-- state of the zero iterator: the next zero has rank `q`, the candidate position is `q + k` where `k` ones have
been passed, `onePos` is the position of one number `k` (or `n`), the inner iterator is past that one -/
structure ZInv (s : Sparse) (w : Nat) (P : List Nat) (n q k : Nat) (z : SpZeroIter) : Prop where
  limit_eq : z.limit = (n - P.length, n)
  next_eq : z.next = (q, q + k)
  k_le : k ≤ P.length
  iter_at : IterAt s w P (min (k + 1) P.length) z.iter
  one_lt : ∀ (h : k < P.length), z.onePos = P[k]
  one_end : k = P.length → z.onePos = n
  cand_le : q + k ≤ z.onePos
  prev_lt : ∀ j (hj : j < P.length), j < k → P[j] < q + k
  q_le : q ≤ n - P.length

theorem zeroIter_ok {s : Sparse} {n w : Nat} {P : List Nat} (hs : s.Encodes n w P)
    (hstrict : sortedStrict P = true) (m : Mode) :
    ∃ z, s.zeroIter m = ok z ∧ ZInv s w P n 0 0 z := by
  unfold Sparse.zeroIter Sparse.countZeros Sparse.countOnes
  rw [hs.low_len, hs.len_eq]
  have hcz : (if P.length ≥ n then 0 else n - P.length) = n - P.length := by split <;> omega
  rw [hcz]
  by_cases h0 : 0 < P.length
  · obtain ⟨h1, h2⟩ := nextQ_ok hs m 0 _ (full_IterAt hs) h0
    simp only [h1, bind_ok, pure_eq]
    refine ⟨_, rfl, ⟨rfl, rfl, Nat.zero_le _, ?_, fun _ => rfl, fun h => absurd h (by omega), Nat.zero_le _,
      fun j hj h => absurd h (by omega), Nat.zero_le _⟩⟩
    have e : min (0 + 1) P.length = 0 + 1 := by omega
    rw [e]; exact h2
  · have hP : P.length = 0 := by omega
    have hit : IterAt s w P P.length (SpOneIter.full s) := by rw [hP]; exact full_IterAt hs
    simp only [nextQ_none hs m _ hit, bind_ok, pure_eq]
    refine ⟨_, rfl, ⟨rfl, rfl, Nat.zero_le _, ?_, fun h => absurd h (by omega), fun _ => rfl, Nat.zero_le _,
      fun j hj h => absurd h (by omega), Nat.zero_le _⟩⟩
    have e : min (0 + 1) P.length = 0 := by omega
    rw [e]; exact full_IterAt hs

/-- `next_run`: skip the ones sitting on the candidate position -/
theorem nextRun_spec {s : Sparse} {n w : Nat} {P : List Nat} (hs : s.Encodes n w P)
    (hst : P.Pairwise (· < ·)) (m : Mode) (q : Nat) (hq : q < n - P.length) :
    ∀ (fuel k : Nat) (z : SpZeroIter), ZInv s w P n q k z → P.length + 2 ≤ fuel + k →
      ∃ k' z', SpZeroIter.nextRun m s fuel z = ok z' ∧ ZInv s w P n q k' z' ∧ q + k' < z'.onePos := by
  have hn := hs.n_lt
  intro fuel
  induction fuel with
  | zero => intro k z hz hf; have := hz.k_le; omega
  | succ fuel ih =>
    intro k z hz hf
    have hkl := hz.k_le
    rw [SpZeroIter.nextRun, hz.next_eq]
    by_cases hge : q + k ≥ z.onePos
    · rw [if_pos hge]
      have hk : k < P.length := by
        apply Nat.lt_of_not_le
        intro h
        have := hz.one_end (by omega)
        omega
      have hone := hz.one_lt hk
      have hb := hs.bound P[k] (List.getElem_mem hk)
      have hc := hz.cand_le
      rw [hone] at hge hc ⊢
      rw [addM_ok (by rw [U64_eq]; omega)]
      simp only [bind_ok]
      by_cases hk1 : k + 1 < P.length
      · have hit := hz.iter_at
        rw [show min (k + 1) P.length = k + 1 by omega] at hit
        obtain ⟨h1, h2⟩ := nextQ_ok hs m (k + 1) _ hit hk1
        simp only [h1, bind_ok]
        have hlt := pairwise_lt_getElem hst k (k + 1) (by omega) hk1
        apply ih (k + 1) _ _ (by omega)
        refine ⟨hz.limit_eq, ?_, by omega, ?_, fun _ => rfl, fun h => absurd h (by omega), ?_, ?_, hz.q_le⟩
        · show (q, P[k] + 1) = (q, q + (k + 1))
          congr 1; omega
        · rw [show min (k + 1 + 1) P.length = k + 1 + 1 by omega]; exact h2
        · show q + (k + 1) ≤ P[k + 1]; omega
        · intro j hj hjk
          by_cases e : j = k
          · subst e; omega
          · have := hz.prev_lt j hj (by omega); omega
      · have hit := hz.iter_at
        rw [show min (k + 1) P.length = P.length by omega] at hit
        simp only [nextQ_none hs m _ hit, bind_ok]
        apply ih (k + 1) _ _ (by omega)
        refine ⟨hz.limit_eq, ?_, by omega, ?_, fun h => absurd h (by omega), ?_, ?_, ?_, hz.q_le⟩
        · show (q, P[k] + 1) = (q, q + (k + 1))
          congr 1; omega
        · rw [show min (k + 1 + 1) P.length = P.length by omega]; exact hit
        · intro _; show z.limit.2 = n; rw [hz.limit_eq]
        · show q + (k + 1) ≤ z.limit.2; rw [hz.limit_eq]; show q + (k + 1) ≤ n; omega
        · intro j hj hjk
          by_cases e : j = k
          · subst e; omega
          · have := hz.prev_lt j hj (by omega); omega
    · rw [if_neg hge]
      exact ⟨k, z, rfl, hz, by omega⟩

/-- **One step of the zero iterator.**  While `q` is below the number of zeros, the item is `(q, c)` with `c` the
zero of rank `q` (`c < n`, `c ∉ P`, `c - rank c = q`), and the state advances to rank `q + 1`. -/
theorem zero_nextQ_ok {s : Sparse} {n w : Nat} {P : List Nat} (hs : s.Encodes n w P)
    (hstrict : sortedStrict P = true) (m : Mode) (q k : Nat) (z : SpZeroIter) (hz : ZInv s w P n q k z)
    (hq : q < n - P.length) :
    ∃ c k' z', SpZeroIter.nextQ m s z = ok (some (q, c), z') ∧ ZInv s w P n (q + 1) k' z' ∧
      c < n ∧ getSet P c = false ∧ c - rankSet P c = q ∧ rankSet P c ≤ c := by
  have hst := sortedStrict_pairwise P hstrict
  unfold SpZeroIter.nextQ Sparse.countOnes
  rw [hz.limit_eq, hz.next_eq, hs.low_len]
  simp only []
  rw [if_neg (by omega)]
  obtain ⟨k', z', h1, h2, h3⟩ := nextRun_spec hs hst m q hq (P.length + 2) k z hz (by omega)
  simp only [h1, bind_ok, pure_eq, h2.next_eq]
  have hkl := h2.k_le
  have honen : z'.onePos ≤ n := by
    by_cases hk : k' < P.length
    · rw [h2.one_lt hk]; exact Nat.le_of_lt (hs.bound _ (List.getElem_mem hk))
    · rw [h2.one_end (by omega)]; exact Nat.le_refl _
  have hnext : ∀ j (hj : j < P.length), k' ≤ j → q + k' < P[j] := by
    intro j hj hkj
    have hk : k' < P.length := by omega
    have := h2.one_lt hk
    have := hs.mono k' j hkj hj
    omega
  have hrk : rankSet P (q + k') = k' := by
    apply rankSet_eq hs.pw (q + k') k' hkl
    · intro h; exact h2.prev_lt (k' - 1) (by omega) (by omega)
    · intro h; exact Nat.le_of_lt (hnext k' h (Nat.le_refl _))
  refine ⟨q + k', k', _, rfl, ?_, by omega, ?_, by rw [hrk]; omega, by rw [hrk]; omega⟩
  · refine ⟨h2.limit_eq, ?_, hkl, h2.iter_at, h2.one_lt, h2.one_end, ?_, ?_, by omega⟩
    · show (q + 1, q + k' + 1) = (q + 1, q + 1 + k'); congr 1; omega
    · show q + 1 + k' ≤ z'.onePos; omega
    · intro j hj hjk; have := h2.prev_lt j hj hjk; omega
  · unfold getSet
    exact contains_false_of_split P (q + k') k' h2.prev_lt hnext

/-- the exhausted zero iterator -/
theorem zero_nextQ_none {s : Sparse} {n w : Nat} {P : List Nat} (m : Mode) (k : Nat) (z : SpZeroIter)
    (hz : ZInv s w P n (n - P.length) k z) : SpZeroIter.nextQ m s z = ok (none, z) := by
  unfold SpZeroIter.nextQ
  rw [hz.limit_eq, hz.next_eq]
  simp only []
  rw [if_pos (Nat.le_refl _)]

/-- the zero of rank `q` is unique: two non-members with the same number of zeros in front coincide -/
theorem zero_rank_unique {P : List Nat} (hstrict : sortedStrict P = true) (a b : Nat)
    (ha : getSet P a = false) (hb : getSet P b = false)
    (h : a - rankSet P a = b - rankSet P b) : a = b := by
  have hst := sortedStrict_pairwise P hstrict
  have hle : P.Pairwise (· ≤ ·) := hst.imp (fun h => Nat.le_of_lt h)
  -- it suffices to show: x < y, x ∉ P → x - rank x < y - rank y
  have key : ∀ x y, x < y → getSet P x = false → x - rankSet P x < y - rankSet P y := by
    intro x y hxy hx
    have h1 := rankSet_le_of_strict hstrict x
    have h2 := rankSet_le_of_strict hstrict y
    have hf : ∀ i : Nat, (∀ a b : Nat, a ≤ b → (fun p : Nat => decide (p < i)) b = true →
        (fun p : Nat => decide (p < i)) a = true) := by
      intro i a b hab hb; simp at hb ⊢; omega
    by_cases hr : rankSet P x < rankSet P y
    · -- item number `rank x` is above `x`, item number `rank y - 1` is below `y`
      have hly : rankSet P y ≤ P.length := filter_length_le _ P
      have hjx : rankSet P x < P.length := by omega
      have hjy : rankSet P y - 1 < P.length := by omega
      have e1 : ¬ (P[rankSet P x] < x) := by
        intro hlt
        have := (lt_filter_length_iff hle (fun p => decide (p < x)) (hf x) _ hjx).mpr (by simpa using hlt)
        unfold rankSet at this
        omega
      have e2 : P[rankSet P x] ≠ x := by
        intro e
        have : P.contains x = true := contains_true_of_getElem P x _ hjx e
        unfold getSet at hx
        rw [hx] at this; cases this
      have e3 : P[rankSet P y - 1] < y := by
        have := (lt_filter_length_iff hle (fun p => decide (p < y)) (hf y) _ hjy).mp (by unfold rankSet at hr ⊢; omega)
        simpa using this
      have := strict_gap_mono hst (rankSet P x) (rankSet P y - 1) (by omega) hjy
      omega
    · omega
  rcases Nat.lt_trichotomy a b with hab | hab | hab
  · have := key a b hab ha; omega
  · exact hab
  · have := key b a hab hb; omega

/-- the item of the zero iterator at rank `q` is the answer of `select_zero q` -/
theorem zero_nextQ_eq_selectZero {s : Sparse} {n w : Nat} {P : List Nat} (hs : s.Encodes n w P)
    (hstrict : sortedStrict P = true) (m : Mode) (q k : Nat) (z : SpZeroIter) (hz : ZInv s w P n q k z)
    (hq : q < n - P.length) :
    ∃ c z', SpZeroIter.nextQ m s z = ok (some (q, c), z') ∧ s.selectZero m q = ok (some c) := by
  obtain ⟨c, k', z', h1, _, h3, h4, h5, _⟩ := zero_nextQ_ok hs hstrict m q k z hz hq
  have := selectZero_ok hs hstrict m q
  rw [if_pos hq] at this
  obtain ⟨c', g1, g2, g3, g4, _⟩ := this
  have e : c = c' := zero_rank_unique hstrict c c' h4 g3 (by omega)
  subst e
  exact ⟨c, z', h1, g1⟩

/-! #### `select_zero` against the list-level specification `selectZeroSet` -/

theorem filter_lt_succ (z : Nat) : ∀ (P : List Nat),
    (P.filter (· < z + 1)).length = (P.filter (· < z)).length + P.count z
  | [] => rfl
  | p :: ps => by
    have ih := filter_lt_succ z ps
    rcases Nat.lt_trichotomy p z with h | h | h
    · have h1 : decide (p < z + 1) = true := by simp; omega
      have h2 : decide (p < z) = true := by simp; omega
      have h3 : (p == z) = false := by simp; omega
      simp only [List.filter_cons, List.count_cons, h1, h2, h3, if_true, List.length_cons, Bool.false_eq_true,
        if_false]
      omega
    · subst h
      have h1 : decide (p < p + 1) = true := by simp
      have h2 : decide (p < p) = false := by simp
      have h3 : (p == p) = true := by simp
      simp only [List.filter_cons, List.count_cons, h1, h2, h3, if_true, List.length_cons, Bool.false_eq_true,
        if_false]
      omega
    · have h1 : decide (p < z + 1) = false := by simp; omega
      have h2 : decide (p < z) = false := by simp; omega
      have h3 : (p == z) = false := by simp; omega
      simp only [List.filter_cons, List.count_cons, h1, h2, h3, Bool.false_eq_true, if_false]
      omega

theorem strict_count (z : Nat) : ∀ (P : List Nat), P.Pairwise (· < ·) →
    P.count z = if P.contains z then 1 else 0
  | [], _ => by simp
  | p :: ps, h => by
    have h' := List.pairwise_cons.mp h
    have ih := strict_count z ps h'.2
    by_cases e : p = z
    · subst e
      have hz : List.count p ps = 0 := by
        apply List.count_eq_zero.mpr
        intro hm; have := h'.1 p hm; omega
      simp [List.count_cons, hz]
    · have h3 : (p == z) = false := by simp; exact e
      rw [List.count_cons, h3, ih]
      have : (p :: ps).contains z = ps.contains z := by
        simp [List.contains_cons]
        intro h; exact absurd h.symm e
      rw [this]; simp

/-- the number of non-members below `z` is `z - rank z` -/
theorem zeros_below {P : List Nat} (hstrict : sortedStrict P = true) : ∀ z,
    ((List.range z).filter (fun i => !P.contains i)).length = z - rankSet P z
  | 0 => by simp
  | z + 1 => by
    have ih := zeros_below hstrict z
    have h1 := rankSet_le_of_strict hstrict z
    have h2 := rankSet_le_of_strict hstrict (z + 1)
    have h3 : rankSet P (z + 1) = rankSet P z + P.count z := filter_lt_succ z P
    rw [strict_count z P (sortedStrict_pairwise P hstrict)] at h3
    rw [List.range_succ, List.filter_append, List.length_append, ih]
    cases hc : P.contains z with
    | true =>
      rw [hc] at h3
      simp only [if_true] at h3
      simp only [List.filter_cons, List.filter_nil, hc, Bool.not_true, Bool.false_eq_true, if_false,
        List.length_nil]
      omega
    | false =>
      rw [hc] at h3
      simp only [Bool.false_eq_true, if_false] at h3
      simp only [List.filter_cons, List.filter_nil, hc, Bool.not_false, if_true, List.length_cons,
        List.length_nil]
      omega

theorem selectZeroSet_some {P : List Nat} (hstrict : sortedStrict P = true) (n z : Nat) (hz : z < n)
    (hnot : getSet P z = false) : selectZeroSet P n (z - rankSet P z) = some z := by
  unfold selectZeroSet
  unfold getSet at hnot
  have hbase : ((List.range (z + 1)).filter (fun i => !P.contains i))[z - rankSet P z]? = some z := by
    rw [List.range_succ, List.filter_append]
    have hl := zeros_below hstrict z
    rw [List.getElem?_append_right (by omega), hl, Nat.sub_self]
    simp only [List.filter_cons, List.filter_nil, hnot, Bool.not_false, if_true]
    rfl
  obtain ⟨d, rfl⟩ : ∃ d, n = z + 1 + d := ⟨n - (z + 1), by omega⟩
  induction d with
  | zero => exact hbase
  | succ d ih =>
    have ih' := ih (by omega)
    rw [show z + 1 + (d + 1) = (z + 1 + d) + 1 by omega, List.range_succ, List.filter_append]
    have hlt : z - rankSet P z < ((List.range (z + 1 + d)).filter (fun i => !P.contains i)).length := by
      apply Nat.lt_of_not_le
      intro hle
      rw [List.getElem?_eq_none hle] at ih'
      cases ih'
    rw [List.getElem?_append_left hlt]
    exact ih'

/-- **`select_zero` meets the list-level specification**, set mode, every rank, both modes -/
theorem selectZero_spec {s : Sparse} {n w : Nat} {P : List Nat} (hs : s.Encodes n w P)
    (hstrict : sortedStrict P = true) (m : Mode) (r : Nat) :
    s.selectZero m r = ok (selectZeroSet P n r) := by
  have h := selectZero_ok hs hstrict m r
  by_cases hr : r < n - P.length
  · rw [if_pos hr] at h
    obtain ⟨z, h1, h2, h3, h4, _⟩ := h
    rw [h1, ← h4, selectZeroSet_some hstrict n z h2 h3]
  · rw [if_neg hr] at h
    rw [h]
    unfold selectZeroSet
    rw [List.getElem?_eq_none]
    rw [zeros_below hstrict n, rankSet_of_ge hs n (Nat.le_refl _)]
    omega

/-! ### 4b. the iterator over all bits (two-ended, duplicate-skipping; set and multiset mode) -/

/-- forward duplicate skip: it consumes the items `≤ cur` and stops after the first item `> cur`, or exhausts the
parent and hands back the fallback value -/
theorem skipDupFwd_spec {s : Sparse} {n w : Nat} {P : List Nat} (hs : s.Encodes n w P) (m : Mode)
    (cur R : Nat) (ns0 : Option Nat) :
    ∀ (fuel r : Nat) (it : SpOneIter), IterBetween s w P r R it → R + 1 ≤ fuel + r →
      (∃ j, ∃ (hj : j < P.length), r ≤ j ∧ j < R ∧ (∀ i (hi : i < P.length), r ≤ i → i < j → P[i] ≤ cur) ∧
          cur < P[j] ∧ ∃ it', SpIter.skipDupFwd m s cur fuel it ns0 = ok (it', some P[j]) ∧
            IterBetween s w P (j + 1) R it') ∨
      ((∀ i (hi : i < P.length), r ≤ i → i < R → P[i] ≤ cur) ∧
          ∃ it', SpIter.skipDupFwd m s cur fuel it ns0 = ok (it', ns0) ∧ IterBetween s w P R R it') := by
  intro fuel
  induction fuel with
  | zero => intro r it hit hf; have := hit.r_le; omega
  | succ fuel ih =>
    intro r it hit hf
    have hRl := hit.R_le
    rw [SpIter.skipDupFwd]
    by_cases hr : r < R
    · have hrP : r < P.length := by omega
      obtain ⟨h1, h2⟩ := nextQ_between hs m r R it hit hr
      simp only [h1, bind_ok]
      by_cases hgt : P[r] > cur
      · rw [if_pos hgt]
        left
        exact ⟨r, hrP, Nat.le_refl _, hr, fun i hi h3 h4 => absurd h4 (by omega), hgt, _, rfl, h2⟩
      · rw [if_neg hgt]
        rcases ih (r + 1) _ h2 (by omega) with ⟨j, hj, g1, g2, g3, g4, it', g5, g6⟩ | ⟨g1, it', g2, g3⟩
        · left
          refine ⟨j, hj, by omega, g2, ?_, g4, it', g5, g6⟩
          intro i hi h3 h4
          by_cases e : i = r
          · subst e; omega
          · exact g3 i hi (by omega) h4
        · right
          refine ⟨?_, it', g2, g3⟩
          intro i hi h3 h4
          by_cases e : i = r
          · subst e; omega
          · exact g1 i hi (by omega) h4
    · have e : r = R := by have := hit.r_le; omega
      subst e
      simp only [nextQ_between_none m r r it hit (Nat.le_refl _), bind_ok, pure_eq]
      right
      exact ⟨fun i hi h3 h4 => absurd h4 (by omega), it, rfl, hit⟩

/-- backward duplicate skip -/
theorem skipDupBwd_spec {s : Sparse} {n w : Nat} {P : List Nat} (hs : s.Encodes n w P) (m : Mode)
    (cur r : Nat) (ls0 : Option Nat) :
    ∀ (fuel R : Nat) (it : SpOneIter), IterBetween s w P r R it → R + 1 ≤ fuel + r →
      (∃ j, ∃ (hj : j < P.length), r ≤ j ∧ j < R ∧ (∀ i (hi : i < P.length), j < i → i < R → cur ≤ P[i]) ∧
          P[j] < cur ∧ ∃ it', SpIter.skipDupBwd m s cur fuel it ls0 = ok (it', some P[j]) ∧
            IterBetween s w P r j it') ∨
      ((∀ i (hi : i < P.length), r ≤ i → i < R → cur ≤ P[i]) ∧
          ∃ it', SpIter.skipDupBwd m s cur fuel it ls0 = ok (it', ls0) ∧ IterBetween s w P r r it') := by
  intro fuel
  induction fuel with
  | zero => intro R it hit hf; have := hit.r_le; omega
  | succ fuel ih =>
    intro R it hit hf
    have hRl := hit.R_le
    rw [SpIter.skipDupBwd]
    by_cases hr : r < R
    · have hR1 : R - 1 < P.length := by omega
      obtain ⟨h1, h2⟩ := nextBackQ_between hs m r R it hit hr
      simp only [h1, bind_ok]
      by_cases hlt : P[R - 1] < cur
      · rw [if_pos hlt]
        left
        exact ⟨R - 1, hR1, by omega, by omega, fun i hi h3 h4 => absurd h4 (by omega), hlt, _, rfl, h2⟩
      · rw [if_neg hlt]
        rcases ih (R - 1) _ h2 (by omega) with ⟨j, hj, g1, g2, g3, g4, it', g5, g6⟩ | ⟨g1, it', g2, g3⟩
        · left
          refine ⟨j, hj, g1, by omega, ?_, g4, it', g5, g6⟩
          intro i hi h3 h4
          by_cases e : i = R - 1
          · subst e; omega
          · exact g3 i hi h3 (by omega)
        · right
          refine ⟨?_, it', g2, g3⟩
          intro i hi h3 h4
          by_cases e : i = R - 1
          · subst e; omega
          · exact g1 i hi h3 (by omega)
    · have e : r = R := by have := hit.r_le; omega
      subst e
      simp only [nextBackQ_between_none m r r it hit (Nat.le_refl _), bind_ok, pure_eq]
      right
      exact ⟨fun i hi h3 h4 => absurd h4 (by omega), it, rfl, hit⟩

/-- State of the all-bits iterator: positions `a ≤ x < b` are still to be delivered; the parent iterator has
delivered the items below `r` to the front end and those from `R` on to the back end.  `nextSet` / `lastSet`
hold the value most recently taken at each end (it may be stale, i.e. outside the window, which is harmless). -/
structure SInv (s : Sparse) (w : Nat) (P : List Nat) (n a b r R : Nat) (it : SpIter) : Prop where
  next_eq : it.next = a
  limit_eq : it.limit = b
  a_le : a ≤ b
  b_le : b ≤ n
  parent : IterBetween s w P r R it.parent
  ns_mem : ∀ v, it.nextSet = some v → v ∈ P
  ls_mem : ∀ u, it.lastSet = some u → u ∈ P
  front : ∀ i (hi : i < P.length), i < r → P[i] < a ∨ it.nextSet = some P[i]
  back : ∀ i (hi : i < P.length), R ≤ i → b ≤ P[i] ∨ it.lastSet = some P[i]
  mid_front : r < R → ∃ i, ∃ (hi : i < P.length), i + 1 = r ∧ it.nextSet = some P[i] ∧ a ≤ P[i]
  mid_back : r < R → ∃ (hR : R < P.length), it.lastSet = some P[R] ∧ P[R] < b
  ex_front : r = R → ∀ u, it.lastSet = some u → a ≤ u → u < b → ∃ v, it.nextSet = some v ∧ a ≤ v ∧ v ≤ u
  ex_back : r = R → ∀ v, it.nextSet = some v → a ≤ v → v < b → ∃ u, it.lastSet = some u ∧ v ≤ u ∧ u < b

theorem getSet_true_of_mem {P : List Nat} {x : Nat} (h : x ∈ P) : getSet P x = true := by
  unfold getSet; simpa using h

/-- front end, position not held in `nextSet`: it is not a member -/
theorem front_false {s : Sparse} {n w : Nat} {P : List Nat} (hs : s.Encodes n w P) {a b r R : Nat} {it : SpIter}
    (hI : SInv s w P n a b r R it) (hab : a < b) (hne : it.nextSet ≠ some a) :
    getSet P a = false ∧ SInv s w P n (a + 1) b r R { it with next := it.next + 1 } := by
  constructor
  · unfold getSet
    cases hc : P.contains a with
    | false => rfl
    | true =>
      exfalso
      have hm : a ∈ P := by simpa using hc
      obtain ⟨i, hiP, e⟩ := List.mem_iff_getElem.mp hm
      by_cases h1 : i < r
      · rcases hI.front i hiP h1 with h | h
        · omega
        · rw [e] at h; exact hne h
      · by_cases hrR : r < R
        · obtain ⟨i0, hi0, e0, g1, g2⟩ := hI.mid_front hrR
          have := hs.mono i0 i (by omega) hiP
          have e1 : P[i0] = a := by omega
          rw [e1] at g1; exact hne g1
        · have hrR' : r = R := by have := hI.parent.r_le; omega
          rcases hI.back i hiP (by omega) with h | h
          · omega
          · rw [e] at h
            obtain ⟨v, g1, g2, g3⟩ := hI.ex_front hrR' a h (Nat.le_refl _) hab
            have e1 : v = a := by omega
            rw [e1] at g1; exact hne g1
  · refine ⟨by show it.next + 1 = a + 1; rw [hI.next_eq], hI.limit_eq, by omega, hI.b_le, hI.parent, hI.ns_mem,
      hI.ls_mem, ?_, hI.back, ?_, hI.mid_back, ?_, ?_⟩
    · intro i hi h
      rcases hI.front i hi h with g | g
      · left; omega
      · right; exact g
    · intro h
      obtain ⟨i0, hi0, e0, g1, g2⟩ := hI.mid_front h
      refine ⟨i0, hi0, e0, g1, ?_⟩
      by_cases e : P[i0] = a
      · rw [e] at g1; exact absurd g1 hne
      · omega
    · intro h u hu h1 h2
      obtain ⟨v, g1, g2, g3⟩ := hI.ex_front h u hu (by omega) h2
      refine ⟨v, g1, ?_, g3⟩
      by_cases e : v = a
      · subst e; exact absurd g1 hne
      · omega
    · intro h v hv h1 h2
      exact hI.ex_back h v hv (by omega) h2

/-- front end, position held in `nextSet`: it is a member; the duplicates are skipped and the next value loaded -/
theorem front_true {s : Sparse} {n w : Nat} {P : List Nat} (hs : s.Encodes n w P) (m : Mode) {a b r R : Nat}
    {it : SpIter} (hI : SInv s w P n a b r R it) (hab : a < b) (hns : it.nextSet = some a) :
    getSet P a = true ∧ ∃ p ns r', SpIter.skipDupFwd m s a (s.countOnes + 2) it.parent it.lastSet = ok (p, ns) ∧
      SInv s w P n (a + 1) b r' R { it with parent := p, nextSet := ns, next := it.next + 1 } := by
  refine ⟨getSet_true_of_mem (hI.ns_mem a hns), ?_⟩
  have hRl := hI.parent.R_le
  have hrR := hI.parent.r_le
  have hprev : ∀ i (hi : i < P.length), i < r → P[i] ≤ a := by
    intro i hi h
    rcases hI.front i hi h with g | g
    · omega
    · rw [hns] at g; have := Option.some.inj g; omega
  unfold Sparse.countOnes
  rw [hs.low_len]
  rcases skipDupFwd_spec hs m a R it.lastSet (P.length + 2) r it.parent hI.parent (by omega) with
    ⟨j, hj, g1, g2, g3, g4, it', g5, g6⟩ | ⟨g1, it', g2, g3⟩
  · refine ⟨it', some P[j], j + 1, g5, ⟨by show it.next + 1 = a + 1; rw [hI.next_eq], hI.limit_eq, by omega,
      hI.b_le, g6, ?_, hI.ls_mem, ?_, hI.back, ?_, ?_, ?_, ?_⟩⟩
    · intro v hv
      have := Option.some.inj hv
      subst this
      exact List.getElem_mem hj
    · intro i hi h
      by_cases e : i = j
      · subst e; right; rfl
      · left
        by_cases h1 : i < r
        · have := hprev i hi h1; omega
        · have := g3 i hi (by omega) (by omega); omega
    · intro _
      exact ⟨j, hj, rfl, rfl, by omega⟩
    · intro h
      exact hI.mid_back (by omega)
    · intro h u hu h1 h2
      obtain ⟨hR, k1, k2⟩ := hI.mid_back (by omega)
      have hu' : it.lastSet = some u := hu
      rw [k1] at hu'
      have e := Option.some.inj hu'
      subst e
      exact ⟨P[j], rfl, by omega, hs.mono j R (by omega) hR⟩
    · intro h v hv h1 h2
      obtain ⟨hR, k1, k2⟩ := hI.mid_back (by omega)
      have e : P[j] = v := Option.some.inj hv
      subst e
      exact ⟨P[R], k1, hs.mono j R (by omega) hR, k2⟩
  · refine ⟨it', it.lastSet, R, g2, ⟨by show it.next + 1 = a + 1; rw [hI.next_eq], hI.limit_eq, by omega,
      hI.b_le, g3, hI.ls_mem, hI.ls_mem, ?_, hI.back, fun h => absurd h (by omega), fun h => absurd h (by omega),
      fun _ u hu h1 h2 => ⟨u, hu, h1, Nat.le_refl _⟩, fun _ v hv h1 h2 => ⟨v, hv, Nat.le_refl _, h2⟩⟩⟩
    intro i hi h
    left
    by_cases h1 : i < r
    · have := hprev i hi h1; omega
    · have := g1 i hi (by omega) h; omega

/-- back end, position not held in `lastSet`: it is not a member -/
theorem back_false {s : Sparse} {n w : Nat} {P : List Nat} (hs : s.Encodes n w P) {a b r R : Nat} {it : SpIter}
    (hI : SInv s w P n a b r R it) (hab : a < b) (hne : it.lastSet ≠ some (b - 1)) :
    getSet P (b - 1) = false ∧ SInv s w P n a (b - 1) r R { it with limit := it.limit - 1 } := by
  constructor
  · unfold getSet
    cases hc : P.contains (b - 1) with
    | false => rfl
    | true =>
      exfalso
      have hm : b - 1 ∈ P := by simpa using hc
      obtain ⟨i, hiP, e⟩ := List.mem_iff_getElem.mp hm
      by_cases h1 : R ≤ i
      · rcases hI.back i hiP h1 with h | h
        · omega
        · rw [e] at h; exact hne h
      · by_cases hrR : r < R
        · obtain ⟨hR, g1, g2⟩ := hI.mid_back hrR
          have := hs.mono i R (by omega) hR
          have e1 : P[R] = b - 1 := by omega
          rw [e1] at g1; exact hne g1
        · have hrR' : r = R := by have := hI.parent.r_le; omega
          rcases hI.front i hiP (by omega) with h | h
          · omega
          · rw [e] at h
            obtain ⟨u, g1, g2, g3⟩ := hI.ex_back hrR' (b - 1) h (by omega) (by omega)
            have e1 : u = b - 1 := by omega
            rw [e1] at g1; exact hne g1
  · refine ⟨hI.next_eq, by show it.limit - 1 = b - 1; rw [hI.limit_eq], by omega, by have := hI.b_le; omega,
      hI.parent, hI.ns_mem, hI.ls_mem, hI.front, ?_, hI.mid_front, ?_, ?_, ?_⟩
    · intro i hi h
      rcases hI.back i hi h with g | g
      · left; omega
      · right; exact g
    · intro h
      obtain ⟨hR, g1, g2⟩ := hI.mid_back h
      refine ⟨hR, g1, ?_⟩
      by_cases e : P[R] = b - 1
      · rw [e] at g1; exact absurd g1 hne
      · omega
    · intro h u hu h1 h2
      exact hI.ex_front h u hu h1 (by omega)
    · intro h v hv h1 h2
      obtain ⟨u, g1, g2, g3⟩ := hI.ex_back h v hv h1 (by omega)
      refine ⟨u, g1, g2, ?_⟩
      by_cases e : u = b - 1
      · subst e; exact absurd g1 hne
      · omega

/-- back end, position held in `lastSet` -/
theorem back_true {s : Sparse} {n w : Nat} {P : List Nat} (hs : s.Encodes n w P) (m : Mode) {a b r R : Nat}
    {it : SpIter} (hI : SInv s w P n a b r R it) (hab : a < b) (hls : it.lastSet = some (b - 1)) :
    getSet P (b - 1) = true ∧
      ∃ p ls R', SpIter.skipDupBwd m s (b - 1) (s.countOnes + 2) it.parent it.nextSet = ok (p, ls) ∧
      SInv s w P n a (b - 1) r R' { it with parent := p, lastSet := ls, limit := it.limit - 1 } := by
  refine ⟨getSet_true_of_mem (hI.ls_mem _ hls), ?_⟩
  have hRl := hI.parent.R_le
  have hrR := hI.parent.r_le
  have hbn := hI.b_le
  have hnext : ∀ i (hi : i < P.length), R ≤ i → b - 1 ≤ P[i] := by
    intro i hi h
    rcases hI.back i hi h with g | g
    · omega
    · rw [hls] at g; have := Option.some.inj g; omega
  unfold Sparse.countOnes
  rw [hs.low_len]
  rcases skipDupBwd_spec hs m (b - 1) r it.nextSet (P.length + 2) R it.parent hI.parent (by omega) with
    ⟨j, hj, g1, g2, g3, g4, it', g5, g6⟩ | ⟨g1, it', g2, g3⟩
  · refine ⟨it', some P[j], j, g5, ⟨hI.next_eq, by show it.limit - 1 = b - 1; rw [hI.limit_eq], by omega, by omega,
      g6, hI.ns_mem, ?_, hI.front, ?_, ?_, ?_, ?_, ?_⟩⟩
    · intro v hv
      have := Option.some.inj hv
      subst this
      exact List.getElem_mem hj
    · intro i hi h
      by_cases e : i = j
      · subst e; right; rfl
      · left
        by_cases h1 : i < R
        · exact g3 i hi (by omega) h1
        · exact hnext i hi (by omega)
    · intro h
      exact hI.mid_front (by omega)
    · intro _
      exact ⟨hj, rfl, g4⟩
    · intro h u hu h1 h2
      obtain ⟨i0, hi0, e0, k1, k2⟩ := hI.mid_front (by omega)
      have e : P[j] = u := Option.some.inj hu
      subst e
      exact ⟨P[i0], k1, k2, hs.mono i0 j (by omega) hj⟩
    · intro h v hv h1 h2
      obtain ⟨i0, hi0, e0, k1, k2⟩ := hI.mid_front (by omega)
      have hv' : it.nextSet = some v := hv
      rw [k1] at hv'
      have e := Option.some.inj hv'
      subst e
      exact ⟨P[j], rfl, hs.mono i0 j (by omega) hj, g4⟩
  · refine ⟨it', it.nextSet, r, g2, ⟨hI.next_eq, by show it.limit - 1 = b - 1; rw [hI.limit_eq], by omega, by omega,
      g3, hI.ns_mem, hI.ns_mem, hI.front, ?_, fun h => absurd h (by omega), fun h => absurd h (by omega),
      fun _ u hu h1 h2 => ⟨u, hu, h1, Nat.le_refl _⟩, fun _ v hv h1 h2 => ⟨v, hv, Nat.le_refl _, h2⟩⟩⟩
    intro i hi h
    left
    by_cases h1 : i < R
    · exact g1 i hi h h1
    · exact hnext i hi (by omega)

/-- **`Iter::next`**: the bit at position `a` (membership of `a`), and the window shrinks from the front -/
theorem sp_nextQ_ok {s : Sparse} {n w : Nat} {P : List Nat} (hs : s.Encodes n w P) (m : Mode) {a b r R : Nat}
    {it : SpIter} (hI : SInv s w P n a b r R it) (hab : a < b) :
    ∃ it' r', SpIter.nextQ m s it = ok (some (getSet P a), it') ∧ SInv s w P n (a + 1) b r' R it' := by
  unfold SpIter.nextQ
  rw [hI.limit_eq, hI.next_eq, if_neg (by omega)]
  by_cases hns : it.nextSet = some a
  · obtain ⟨h1, p, ns, r', h2, h3⟩ := front_true hs m hI hab hns
    rw [hI.next_eq, hI.limit_eq] at h3
    rw [hns]
    simp only [if_true, h2, bind_ok, pure_eq, h1]
    exact ⟨_, r', rfl, h3⟩
  · obtain ⟨h1, h2⟩ := front_false hs hI hab hns
    rw [hI.next_eq, hI.limit_eq] at h2
    rw [h1]
    cases hv : it.nextSet with
    | none => rw [hv] at h2; exact ⟨_, r, rfl, h2⟩
    | some v =>
      have hva : ¬ (v = a) := by
        intro e; rw [hv, e] at hns; exact hns rfl
      simp only [if_neg hva, pure_eq]
      rw [hv] at h2
      exact ⟨_, r, rfl, h2⟩

/-- **`Iter::next_back`**: the bit at position `b - 1`, and the window shrinks from the back -/
theorem sp_nextBackQ_ok {s : Sparse} {n w : Nat} {P : List Nat} (hs : s.Encodes n w P) (m : Mode) {a b r R : Nat}
    {it : SpIter} (hI : SInv s w P n a b r R it) (hab : a < b) :
    ∃ it' R', SpIter.nextBackQ m s it = ok (some (getSet P (b - 1)), it') ∧ SInv s w P n a (b - 1) r R' it' := by
  unfold SpIter.nextBackQ
  rw [hI.limit_eq, hI.next_eq, if_neg (by omega)]
  simp only []
  by_cases hls : it.lastSet = some (b - 1)
  · obtain ⟨h1, p, ls, R', h2, h3⟩ := back_true hs m hI hab hls
    rw [hI.limit_eq, hI.next_eq] at h3
    rw [hls]
    simp only [if_true, h2, bind_ok, pure_eq, h1]
    exact ⟨_, R', rfl, h3⟩
  · obtain ⟨h1, h2⟩ := back_false hs hI hab hls
    rw [hI.limit_eq, hI.next_eq] at h2
    rw [h1]
    cases hv : it.lastSet with
    | none => rw [hv] at h2; exact ⟨_, R, rfl, h2⟩
    | some v =>
      have hva : ¬ (v = b - 1) := by
        intro e; rw [hv, e] at hls; exact hls rfl
      simp only [if_neg hva, pure_eq]
      rw [hv] at h2
      exact ⟨_, R, rfl, h2⟩

/-- the empty window answers `None` at both ends -/
theorem sp_nextQ_none {s : Sparse} {n w : Nat} {P : List Nat} (m : Mode) {a r R : Nat}
    {it : SpIter} (hI : SInv s w P n a a r R it) : SpIter.nextQ m s it = ok (none, it) := by
  unfold SpIter.nextQ
  rw [hI.limit_eq, hI.next_eq, if_pos (Nat.le_refl _)]

theorem sp_nextBackQ_none {s : Sparse} {n w : Nat} {P : List Nat} (m : Mode) {a r R : Nat}
    {it : SpIter} (hI : SInv s w P n a a r R it) : SpIter.nextBackQ m s it = ok (none, it) := by
  unfold SpIter.nextBackQ
  rw [hI.limit_eq, hI.next_eq, if_pos (Nat.le_refl _)]

theorem sp_remaining {s : Sparse} {n w : Nat} {P : List Nat} {a b r R : Nat}
    {it : SpIter} (hI : SInv s w P n a b r R it) : it.remaining = b - a := by
  unfold SpIter.remaining
  rw [hI.limit_eq, hI.next_eq]

/-- **`iter()`** builds a state whose window is the whole universe -/
theorem sp_iter_ok {s : Sparse} {n w : Nat} {P : List Nat} (hs : s.Encodes n w P) (m : Mode) :
    ∃ it r R, s.iter m = ok it ∧ SInv s w P n 0 n r R it := by
  unfold Sparse.iter
  rw [hs.len_eq]
  have hfull := full_between hs
  by_cases h0 : P.length = 0
  · have hP : P = [] := List.eq_nil_of_length_eq_zero h0
    rw [h0] at hfull
    simp only [nextQ_between_none m 0 0 _ hfull (Nat.le_refl _), nextBackQ_between_none m 0 0 _ hfull (Nat.le_refl _),
      bind_ok, pure_eq, Option.map_none]
    refine ⟨_, 0, 0, rfl, ⟨rfl, rfl, Nat.zero_le _, Nat.le_refl _, hfull, fun v hv => (by cases hv),
      fun v hv => (by cases hv), fun i hi h => absurd h (by omega), fun i hi h => absurd hi (by omega),
      fun h => absurd h (by omega), fun h => absurd h (by omega), fun _ u hu => (by cases hu),
      fun _ u hu => (by cases hu)⟩⟩
  · have hpos : 0 < P.length := by omega
    obtain ⟨h1, h2⟩ := nextQ_between hs m 0 P.length _ hfull hpos
    have hb0 := hs.bound P[0] (List.getElem_mem hpos)
    by_cases h1' : P.length = 1
    · simp only [h1, bind_ok, nextBackQ_between_none m (0 + 1) P.length _ h2 (by omega), pure_eq, Option.map_some]
      refine ⟨_, 0 + 1, P.length, rfl, ⟨rfl, rfl, Nat.zero_le _, Nat.le_refl _, h2, ?_, ?_, ?_, ?_,
        fun h => absurd h (by omega), fun h => absurd h (by omega), ?_, ?_⟩⟩
      · intro v hv; have := Option.some.inj hv; subst this; exact List.getElem_mem hpos
      · intro v hv; have := Option.some.inj hv; subst this; exact List.getElem_mem hpos
      · intro i hi h
        have : i = 0 := by omega
        subst this; right; rfl
      · intro i hi h; omega
      · intro _ u hu ha hb
        exact ⟨u, hu, ha, Nat.le_refl _⟩
      · intro _ v hv ha hb
        exact ⟨v, hv, Nat.le_refl _, hb⟩
    · have hlt : 1 < P.length := by omega
      obtain ⟨h3, h4⟩ := nextBackQ_between hs m (0 + 1) P.length _ h2 (by omega)
      have hL : P.length - 1 < P.length := by omega
      have hbL := hs.bound P[P.length - 1] (List.getElem_mem hL)
      simp only [h1, bind_ok, h3, pure_eq, Option.map_some]
      refine ⟨_, 0 + 1, P.length - 1, rfl, ⟨rfl, rfl, Nat.zero_le _, Nat.le_refl _, h4, ?_, ?_, ?_, ?_, ?_, ?_, ?_, ?_⟩⟩
      · intro v hv; have := Option.some.inj hv; subst this; exact List.getElem_mem hpos
      · intro v hv; have := Option.some.inj hv; subst this; exact List.getElem_mem hL
      · intro i hi h
        have : i = 0 := by omega
        subst this; right; rfl
      · intro i hi h
        have : i = P.length - 1 := by omega
        subst this; right; rfl
      · intro _
        exact ⟨0, hpos, rfl, rfl, Nat.zero_le _⟩
      · intro _
        exact ⟨hL, rfl, hbL⟩
      · intro h u hu ha hb
        have e : P[P.length - 1] = u := Option.some.inj hu
        subst e
        exact ⟨P[0], rfl, Nat.zero_le _, hs.mono 0 (P.length - 1) (Nat.zero_le _) hL⟩
      · intro h v hv ha hb
        have e : P[0] = v := Option.some.inj hv
        subst e
        exact ⟨P[P.length - 1], rfl, hs.mono 0 (P.length - 1) (Nat.zero_le _) hL, hbL⟩

/-! #### simulation of the all-bits iterator against the deque of bits -/

def callSpIter (m : Mode) (s : Sparse) (e : End) (it : SpIter) : Outcome (Option Bool × SpIter) :=
  match e with
  | .front => SpIter.nextQ m s it
  | .back => SpIter.nextBackQ m s it

def runSpCalls (m : Mode) (s : Sparse) : List End → SpIter → Outcome (List (Option Bool) × SpIter)
  | [], it => ok ([], it)
  | e :: es, it =>
    match callSpIter m s e it with
    | .fault f => .fault f
    | .ok (o, it') =>
      match runSpCalls m s es it' with
      | .fault f => .fault f
      | .ok (os, it'') => ok (o :: os, it'')

/-- the membership bits of the positions `a ≤ x < b` -/
def bitsBetween (P : List Nat) (a b : Nat) : List Bool := (List.range (b - a)).map fun i => getSet P (a + i)

theorem bitsBetween_full (P : List Nat) (n : Nat) : bitsBetween P 0 n = bitsOfSet P n := by
  unfold bitsBetween bitsOfSet getSet
  simp

theorem bitsBetween_nil (P : List Nat) (a b : Nat) (h : b ≤ a) : bitsBetween P a b = [] := by
  unfold bitsBetween
  have : b - a = 0 := by omega
  rw [this]; rfl

theorem bitsBetween_cons (P : List Nat) (a b : Nat) (h : a < b) :
    bitsBetween P a b = getSet P a :: bitsBetween P (a + 1) b := by
  unfold bitsBetween
  have e : b - a = (b - (a + 1)) + 1 := by omega
  rw [e, List.range_succ_eq_map, List.map_cons, List.map_map]
  simp only [Nat.add_zero]
  congr 1
  apply List.map_congr_left
  intro i _
  simp only [Function.comp, Nat.succ_eq_add_one]
  have e2 : a + (i + 1) = a + 1 + i := by omega
  rw [e2]

theorem bitsBetween_snoc (P : List Nat) (a b : Nat) (h : a < b) :
    bitsBetween P a b = bitsBetween P a (b - 1) ++ [getSet P (b - 1)] := by
  unfold bitsBetween
  have e : b - a = (b - 1 - a) + 1 := by omega
  rw [e, List.range_succ, List.map_append]
  congr 1
  have e2 : a + (b - 1 - a) = b - 1 := by omega
  simp only [List.map_cons, List.map_nil, e2]

/-- **Two-ended simulation of `Iter`.**  Any interleaving of `next` / `next_back` calls answers exactly like the
same calls on the deque of the membership bits of the window; no fault in either mode (set and multiset). -/
theorem runSpCalls_ok {s : Sparse} {n w : Nat} {P : List Nat} (hs : s.Encodes n w P) (m : Mode) :
    ∀ (calls : List End) (a b r R : Nat) (it : SpIter), SInv s w P n a b r R it →
      ∃ it' a' b' r' R', runSpCalls m s calls it = ok ((runDeque calls (bitsBetween P a b)).1, it') ∧
        (runDeque calls (bitsBetween P a b)).2 = bitsBetween P a' b' ∧ SInv s w P n a' b' r' R' it' := by
  intro calls
  induction calls with
  | nil =>
    intro a b r R it hI
    exact ⟨it, a, b, r, R, rfl, rfl, hI⟩
  | cons e es ih =>
    intro a b r R it hI
    by_cases hab : a < b
    · cases e with
      | front =>
        obtain ⟨it1, r1, h1, h2⟩ := sp_nextQ_ok hs m hI hab
        obtain ⟨it', a', b', r', R', h3, h4, h5⟩ := ih (a + 1) b r1 R it1 h2
        refine ⟨it', a', b', r', R', ?_, ?_, h5⟩
        · rw [runSpCalls]
          simp only [callSpIter, h1, h3]
          rw [runDeque, bitsBetween_cons P a b hab]
          simp only [callDeque, List.head?_cons, List.tail_cons]
        · rw [runDeque, bitsBetween_cons P a b hab]
          simp only [callDeque, List.tail_cons]
          exact h4
      | back =>
        obtain ⟨it1, R1, h1, h2⟩ := sp_nextBackQ_ok hs m hI hab
        obtain ⟨it', a', b', r', R', h3, h4, h5⟩ := ih a (b - 1) r R1 it1 h2
        refine ⟨it', a', b', r', R', ?_, ?_, h5⟩
        · rw [runSpCalls]
          simp only [callSpIter, h1, h3]
          rw [runDeque, bitsBetween_snoc P a b hab]
          simp only [callDeque, List.getLast?_concat, List.dropLast_concat]
        · rw [runDeque, bitsBetween_snoc P a b hab]
          simp only [callDeque, List.dropLast_concat]
          exact h4
    · have e0 : a = b := by have := hI.a_le; omega
      subst e0
      obtain ⟨it', a', b', r', R', h3, h4, h5⟩ := ih a a r R it hI
      have hnil := bitsBetween_nil P a a (Nat.le_refl _)
      refine ⟨it', a', b', r', R', ?_, ?_, h5⟩
      · rw [runSpCalls]
        cases e with
        | front =>
          simp only [callSpIter, sp_nextQ_none m hI, h3]
          rw [runDeque, hnil]
          simp only [callDeque, List.head?_nil, List.tail_nil]
        | back =>
          simp only [callSpIter, sp_nextBackQ_none m hI, h3]
          rw [runDeque, hnil]
          simp only [callDeque, List.getLast?_nil, List.dropLast_nil]
      · rw [runDeque, hnil]
        cases e <;> simp only [callDeque, List.tail_nil, List.dropLast_nil] <;> rw [← hnil] <;> exact h4

/-- from `iter()`: the deque is the whole bit sequence of the (multi)set -/
theorem iter_runSpCalls {s : Sparse} {n w : Nat} {P : List Nat} (hs : s.Encodes n w P) (m : Mode)
    (calls : List End) :
    ∃ it it', s.iter m = ok it ∧ runSpCalls m s calls it = ok ((runDeque calls (bitsOfSet P n)).1, it') := by
  obtain ⟨it, r, R, h1, h2⟩ := sp_iter_ok hs m
  obtain ⟨it', _, _, _, _, h3, _, _⟩ := runSpCalls_ok hs m calls 0 n r R it h2
  rw [bitsBetween_full] at h3
  exact ⟨it, it', h1, h3⟩

/-! #### running the zero iterator to the end -/

/-- drain a zero iterator (proof-side helper): at most `fuel` items -/
def drainZ (m : Mode) (s : Sparse) : Nat → SpZeroIter → Outcome (List (Nat × Nat))
  | 0, _ => ok []
  | fuel + 1, z =>
    match SpZeroIter.nextQ m s z with
    | .fault f => .fault f
    | .ok (none, _) => ok []
    | .ok (some x, z') =>
      match drainZ m s fuel z' with
      | .fault f => .fault f
      | .ok xs => ok (x :: xs)

/-- the pairs `(rank, position)` of the zeros of rank `≥ q`, read off the list-level specification -/
def zerosFrom (P : List Nat) (n q : Nat) : List (Nat × Nat) :=
  (List.range (n - P.length - q)).map fun i => (q + i, (selectZeroSet P n (q + i)).getD 0)

theorem zerosFrom_cons (P : List Nat) (n q : Nat) (hq : q < n - P.length) :
    zerosFrom P n q = (q, (selectZeroSet P n q).getD 0) :: zerosFrom P n (q + 1) := by
  unfold zerosFrom
  have e : n - P.length - q = (n - P.length - (q + 1)) + 1 := by omega
  rw [e, List.range_succ_eq_map, List.map_cons, List.map_map]
  simp only [Nat.add_zero]
  congr 1
  apply List.map_congr_left
  intro i _
  simp only [Function.comp, Nat.succ_eq_add_one]
  have e2 : q + (i + 1) = q + 1 + i := by omega
  rw [e2]

/-- **The zero iterator delivers the zeros in order with their ranks** (set mode): draining a state at rank `q`
yields `(i, select_zero i)` for `q ≤ i < n - |P|`, with no fault in either mode. -/
theorem drainZ_ok {s : Sparse} {n w : Nat} {P : List Nat} (hs : s.Encodes n w P)
    (hstrict : sortedStrict P = true) (m : Mode) :
    ∀ (fuel q k : Nat) (z : SpZeroIter), ZInv s w P n q k z → n - P.length - q < fuel →
      drainZ m s fuel z = ok (zerosFrom P n q) := by
  intro fuel
  induction fuel with
  | zero => intro q k z hz h; omega
  | succ fuel ih =>
    intro q k z hz hf
    rw [drainZ]
    by_cases hq : q < n - P.length
    · obtain ⟨c, k', z', h1, h2, h3, h4, h5, _⟩ := zero_nextQ_ok hs hstrict m q k z hz hq
      rw [h1]
      simp only []
      rw [ih (q + 1) k' z' h2 (by omega), zerosFrom_cons P n q hq]
      have := selectZeroSet_some hstrict n c h3 h4
      rw [h5] at this
      rw [this]; rfl
    · have e : q = n - P.length := by have := hz.q_le; omega
      subst e
      rw [zero_nextQ_none m k z hz]
      simp [zerosFrom]

theorem zeroIter_drain {s : Sparse} {n w : Nat} {P : List Nat} (hs : s.Encodes n w P)
    (hstrict : sortedStrict P = true) (m : Mode) :
    ∃ z, s.zeroIter m = ok z ∧ drainZ m s (n - P.length + 1) z = ok (zerosFrom P n 0) := by
  obtain ⟨z, h1, h2⟩ := zeroIter_ok hs hstrict m
  exact ⟨z, h1, drainZ_ok hs hstrict m _ 0 0 z h2 (by omega)⟩

end Sparse2
end Sds
