/-
Proofs/GenEqLoad3: `WMCore::load` (wavelet_matrix/wm_core.rs) as TRANSLATED from the source (Generated/FnsLoad3.lean:
`usize::load`, the check `width == 0 || width > 64`, a `for _ in 0..width` loop over `(counter, len, levels, reader)` that
loads one `BitVector` per level, compares its length with the remembered first length `len : Option<usize>`, pushes it,
then `init_support`) is equal to the `load` of the hand-written codec `wmCoreC` (Model/WM.lean: a `foldlM` over
`List.range width` that re-reads `acc.1[0]?`).

  `wm_core_load_eq : WmCoreOk es → gen_WMCore_load m es = wmCoreC.load es`

* `WmLevelsOk n acc es` follows the model's own fold (`lvlStep`, Codec2): with `n` levels to go from the accumulator
  `acc`, the stream `es` is `BvOk` (GenEqLoad: the hypothesis of `bv_load_eq`), and whenever the model's step succeeds
  the same holds of its result with `n - 1` levels to go.  Levels the model never loads (after a failed load, after a
  length mismatch) are not constrained.
* `WmCoreOk es`: for the width read, if it passes the check, `WmLevelsOk width #[]` of the rest.
  `WmCoreOk_iff`: equivalently, for every `k < width` the stream that remains after `(List.range k).foldlM lvlStep`
  succeeds is `BvOk`.
* Loop invariant (`wm_load_fold`): `len = levels[0]?.map (·.len)`.  Method: `for_loop_range` (GenEqLoop4) turns the
  counter loop into a `foldlM` of the code's body (`wmLoadBody`); one step of it is one step of the model's fold
  (`wm_load_step`, by `bv_load_eq`); `init_support` is `wm_init_support_eq` (GenEqConstr5, unconditional).
* `WmCoreOk_of_small`, `wm_core_load_eq_small`: every word below `2^32` suffices.
* The hypothesis is only the inherited one (no new divergence between the code and the model): `wm_core_load_ne_level0`
  is `raw_load_ne_overflow` / `bv_load_ne_raw` inside the first level (the checked build panics, the wrapping build
  ACCEPTS a level of `2^64 − 1` bits without a data word, the model refuses), `wm_core_load_ne_level1` shows that the
  later levels need it too (there the wrapping build refuses like the model, because the lengths differ; the checked
  build panics).
* `WaveletMatrix::load`: `gen_WaveletMatrix_load` calls the model's `wmCoreC.load`, and `WmOk` (GenEqLoad) says nothing
  about the levels (only `IntOk` of the stream behind them), so `WmOk` does NOT imply `WmCoreOk` of the tail; the
  statement over the translated core loader (`wmLoadT`, the same text with `gen_WMCore_load m` substituted) needs both:
  `wm_full_load_eq : WmFullOk es → wmLoadT m es = wmC.load es`, `wm_full_load_eq_small`; sharp: `wm_full_load_ne_level`.
-/
import Sds.Generated.FnsLoad3
import Sds.Proofs.GenEqLoad
import Sds.Proofs.GenEqConstr5
import Sds.Proofs.GenEqLoop4

set_option linter.unusedSimpArgs false
namespace Sds.GenEq
open Sds Outcome Generated
open Sds.Codec2 (lvlStep wmCoreC_load_eq)

private theorem l3_obind_ok {α β : Type} (a : α) (f : α → Outcome β) : (ok a).bind f = f a := rfl
private theorem l3_obind_fault {α β : Type} (e : Fault) (f : α → Outcome β) :
    (fault e : Outcome α).bind f = fault e := rfl

/-! ### the hypothesis -/

def WmLevelsOk : Nat → Array BitVector → Elems → Prop
  | 0, _, _ => True
  | k + 1, acc, es => BvOk es ∧ ∀ acc' r, lvlStep (acc, es) 0 = ok (acc', r) → WmLevelsOk k acc' r

def WmCoreOk (es : Elems) : Prop :=
  ∀ width r, usizeC.load es = ok (width, r) → ¬ (width = 0 ∨ width > 64) → WmLevelsOk width #[] r

/-! ### the loop -/

/-- the body of `for _ in 0..width` as translated -/
def wmLoadBody (m : Mode) (s : Option Nat × Array BitVector × Elems) (_ : Nat) :
    Outcome (Option Nat × Array BitVector × Elems) :=
  (gen_BitVector_load m s.2.2).bind fun p =>
    (match s.1 with
      | some len_in => if decide (BitVector.len p.1 ≠ len_in) then fault (.err .invalid) else ok s.1
      | none => ok (some (BitVector.len p.1))).bind fun len => ok (len, s.2.1.push p.1, p.2)

theorem wm_load_step (m : Mode) (acc : Array BitVector) (es : Elems) (i : Nat) (h : BvOk es) :
    wmLoadBody m (acc[0]?.map BitVector.len, acc, es) i =
      (lvlStep (acc, es) i).bind (fun p => ok (p.1[0]?.map BitVector.len, p.1, p.2)) := by
  unfold wmLoadBody lvlStep
  dsimp only
  rw [bv_load_eq m es h]
  simp only [Bind.bind]
  cases bitVectorC.load es with
  | fault f => rfl
  | ok p =>
    obtain ⟨b, r⟩ := p
    simp only [l3_obind_ok]
    cases h0 : acc[0]? with
    | none =>
      have : acc = #[] := by
        apply Array.eq_empty_of_size_eq_zero
        have := Array.getElem?_eq_none_iff.mp h0
        omega
      subst this
      simp [Pure.pure, Outcome.bind]
    | some b0 =>
      have hp : (acc.push b)[0]? = some b0 := by
        have hs : 0 < acc.size := by
          apply Nat.pos_of_ne_zero
          intro hz
          rw [Array.getElem?_eq_none (by omega)] at h0
          cases h0
        rw [Array.getElem?_push_lt hs, ← h0, Array.getElem?_eq_getElem hs]
      by_cases c : b.len = b0.len
      · simp only [c, ne_eq, not_true_eq_false, decide_false, Bool.false_eq_true, if_false, Pure.pure, l3_obind_ok,
          hp, Option.map]
      · simp [c, Pure.pure, Outcome.bind]

theorem wm_load_fold (m : Mode) : ∀ (idx : List Nat) (acc : Array BitVector) (es : Elems),
    WmLevelsOk idx.length acc es →
    idx.foldlM (wmLoadBody m) (acc[0]?.map BitVector.len, acc, es) =
      (idx.foldlM lvlStep (acc, es)).bind (fun p => ok (p.1[0]?.map BitVector.len, p.1, p.2)) := by
  intro idx
  induction idx with
  | nil => intro acc es _; rfl
  | cons i idx ih =>
    intro acc es h
    obtain ⟨hb, hn⟩ := h
    rw [List.foldlM_cons, List.foldlM_cons, wm_load_step m acc es i hb]
    simp only [Bind.bind]
    cases h1 : lvlStep (acc, es) i with
    | fault f => rfl
    | ok p =>
      obtain ⟨acc', r⟩ := p
      simp only [l3_obind_ok]
      exact ih acc' r (hn acc' r h1)

/-! ### `WMCore::load` -/

set_option maxRecDepth 4000 in
theorem wm_core_load_eq (m : Mode) (es : Elems) (h : WmCoreOk es) :
    gen_WMCore_load m es = wmCoreC.load es := by
  rw [wmCoreC_load_eq]
  unfold gen_WMCore_load
  dsimp only
  cases h1 : usizeC.load es with
  | fault f => simp only [bind_fault]
  | ok p =>
    obtain ⟨width, r⟩ := p
    simp only [bind_ok]
    by_cases c : width = 0 ∨ width > 64
    · have c' : (decide (width = 0) || decide (width > 64)) = true := by simpa using c
      rw [if_pos c', if_pos c]
    · have c' : ¬ (decide (width = 0) || decide (width > 64)) = true := by simpa using c
      rw [if_neg c', if_neg c]
      have hl := h width r h1 c
      simp only [Bind.bind]
      rw [for_loop_range (ρ := WMCore × Elems) width (wmLoadBody m) _
          (fun i s hi => by
            obtain ⟨len, lv, rd⟩ := s
            simp only [hi, decide_true, if_true]
            unfold wmLoadBody
            simp only [Bind.bind]
            cases gen_BitVector_load m rd with
            | fault f => rfl
            | ok p =>
              obtain ⟨bv, rd'⟩ := p
              cases len with
              | none => rfl
              | some l =>
                by_cases cl : bv.len = l
                · simp [cl, Pure.pure, Outcome.bind]
                · simp [cl, Pure.pure, Outcome.bind])
          (fun i s hi => by
            obtain ⟨len, lv, rd⟩ := s
            simp only [hi, decide_false, Bool.false_eq_true, if_false]; rfl)]
      have e : (List.range width).foldlM (wmLoadBody m) (none, #[], r) =
          ((List.range width).foldlM lvlStep (#[], r)).bind
            (fun p => ok (p.1[0]?.map BitVector.len, p.1, p.2)) :=
        wm_load_fold m (List.range width) #[] r (by rw [List.length_range]; exact hl)
      rw [e]
      cases (List.range width).foldlM lvlStep (#[], r) with
      | fault f => rfl
      | ok p =>
        obtain ⟨lv, r'⟩ := p
        simp only [l3_obind_ok, wm_init_support_eq]

/-! ### the hypothesis, restated and derived -/

/-- `WmLevelsOk` says: the stream that remains after any number `< n` of successful level loads is `BvOk` -/
theorem WmLevelsOk_iff : ∀ (n : Nat) (acc : Array BitVector) (es : Elems),
    WmLevelsOk n acc es ↔
      ∀ (idx : List Nat), idx.length < n → ∀ lv r, idx.foldlM lvlStep (acc, es) = ok (lv, r) → BvOk r := by
  intro n
  induction n with
  | zero => intro acc es; exact ⟨fun _ idx hi => by omega, fun _ => trivial⟩
  | succ n ih =>
    intro acc es
    constructor
    · intro h idx hi lv r hf
      cases idx with
      | nil =>
        injection hf with hf; injection hf with _ h2
        subst h2; exact h.1
      | cons i idx =>
        rw [List.foldlM_cons] at hf
        obtain ⟨⟨acc', r1⟩, h1, h2⟩ := Outcome.bind_eq_ok hf
        exact (ih acc' r1).mp (h.2 acc' r1 h1) idx (by simpa using hi) lv r h2
    · intro h
      refine ⟨h [] (by simp) acc es rfl, fun acc' r1 h1 => (ih acc' r1).mpr fun idx hi lv r hf => ?_⟩
      refine h (0 :: idx) (by simpa using hi) lv r ?_
      rw [List.foldlM_cons, bind_eq_of_ok h1]
      exact hf

/-- … in terms of the model's own fold over `List.range k` -/
theorem WmCoreOk_iff (es : Elems) :
    WmCoreOk es ↔ ∀ width r, usizeC.load es = ok (width, r) → ¬ (width = 0 ∨ width > 64) →
      ∀ k, k < width → ∀ lv r', (List.range k).foldlM lvlStep (#[], r) = ok (lv, r') → BvOk r' := by
  have hidx : ∀ (idx : List Nat) (s : Array BitVector × Elems),
      idx.foldlM lvlStep s = (List.range idx.length).foldlM lvlStep s := by
    have gen : ∀ (a b : List Nat), a.length = b.length → ∀ s, a.foldlM lvlStep s = b.foldlM lvlStep s := by
      intro a
      induction a with
      | nil => intro b hb s; cases b with | nil => rfl | cons _ _ => simp at hb
      | cons x a ih =>
        intro b hb s
        cases b with
        | nil => simp at hb
        | cons y b =>
          rw [List.foldlM_cons, List.foldlM_cons]
          have : lvlStep s x = lvlStep s y := rfl
          rw [this]
          congr 1
          funext s'
          exact ih b (by simpa using hb) s'
    intro idx s
    exact gen idx _ (by simp) s
  constructor
  · intro h width r h1 c k hk lv r' hf
    exact (WmLevelsOk_iff width #[] r).mp (h width r h1 c) (List.range k) (by simpa using hk) lv r' hf
  · intro h width r h1 c
    refine (WmLevelsOk_iff width #[] r).mpr fun idx hi lv r' hf => ?_
    rw [hidx] at hf
    exact h width r h1 c idx.length hi lv r' hf

/-- a successful step of the model's fold is a successful bitvector load -/
theorem lvlStep_load {acc acc' : Array BitVector} {es r : Elems} {i : Nat} (h : lvlStep (acc, es) i = ok (acc', r)) :
    ∃ b, bitVectorC.load es = ok (b, r) := by
  obtain ⟨b, hb, _, _⟩ := LoadWF.lvlStep_inv h
  exact ⟨b, hb⟩

theorem WmLevelsOk_of_small : ∀ (n : Nat) (acc : Array BitVector) {es : Elems}, Small es → WmLevelsOk n acc es := by
  intro n
  induction n with
  | zero => intro _ _ _; trivial
  | succ n ih =>
    intro acc es hs
    refine ⟨BvOk_of_small hs, fun acc' r h1 => ih acc' ?_⟩
    obtain ⟨b, hb⟩ := lvlStep_load h1
    exact hs.suffix (bitVectorC_suffix hb)

theorem WmCoreOk_of_small {es : Elems} (hs : Small es) : WmCoreOk es :=
  fun width _ h1 _ => WmLevelsOk_of_small width #[] (hs.suffix (usizeC_suffix h1))

theorem wm_core_load_eq_small (m : Mode) (es : Elems) (h : ∀ w ∈ es, w.toNat < 2 ^ 32) :
    gen_WMCore_load m es = wmCoreC.load es := wm_core_load_eq m es (WmCoreOk_of_small h)

/-! ### `WaveletMatrix::load` over the translated core loader

`gen_WaveletMatrix_load` (Generated/FnsLoad.lean) calls the model's `wmCoreC.load` for the field `data`; `WmOk` is
accordingly silent about the levels (it only asks `IntOk` of what follows them).  With the translated core loader in
that place the hypothesis is `WmOk` plus `WmCoreOk` of the stream behind the length word. -/

/-- `WaveletMatrix::load` with `WMCore::load` as translated -/
def wmLoadT (m : Mode) (reader : Elems) : Outcome (WM × Elems) := do
  let (t1, reader) ← usizeC.load reader
  let len := t1
  let (t2, reader) ← gen_WMCore_load m reader
  let data := t2
  let t3 ← WMCore.len data
  if (decide (t3 ≠ len)) then do
    fault (.err .invalid)
  else do
    let (t4, reader) ← gen_IntVector_load m reader
    let first := t4
    return ((⟨len, data, first⟩ : WM), reader)

def WmFullOk (es : Elems) : Prop :=
  (∀ len r, usizeC.load es = ok (len, r) → WmCoreOk r) ∧ WmOk es

theorem wmLoadT_eq_gen (m : Mode) (es : Elems) (h : ∀ len r, usizeC.load es = ok (len, r) → WmCoreOk r) :
    wmLoadT m es = gen_WaveletMatrix_load m es := by
  unfold wmLoadT gen_WaveletMatrix_load
  cases h1 : usizeC.load es with
  | fault f => simp only [bind_fault]
  | ok p =>
    obtain ⟨len, r⟩ := p
    simp only [bind_ok]
    rw [wm_core_load_eq m r (h len r h1)]

theorem wm_full_load_eq (m : Mode) (es : Elems) (h : WmFullOk es) : wmLoadT m es = wmC.load es :=
  (wmLoadT_eq_gen m es h.1).trans (wm_load_eq m es h.2)

theorem WmFullOk_of_small {es : Elems} (hs : Small es) : WmFullOk es :=
  ⟨fun _ _ h1 => WmCoreOk_of_small (hs.suffix (usizeC_suffix h1)), WmOk_of_small hs⟩

theorem wm_full_load_eq_small (m : Mode) (es : Elems) (h : ∀ w ∈ es, w.toNat < 2 ^ 32) :
    wmLoadT m es = wmC.load es := wm_full_load_eq m es (WmFullOk_of_small h)

/-! ### the hypothesis is needed -/

/-- a core loader over one level -/
theorem wm_core_load_one (m : Mode) (L r' : Elems) (b : BitVector) (hb : gen_BitVector_load m L = ok (b, r')) :
    gen_WMCore_load m (1#64 :: L) = ok (WMCore.initSupport ⟨#[b]⟩, r') := by
  unfold gen_WMCore_load
  rw [bind_eq_of_ok (usizeC_cons _ _)]
  have e1 : (1#64 : Word).toNat = 1 := rfl
  simp only [e1]
  simp [loopM, hb, wm_init_support_eq, Pure.pure]

/-- one level whose raw vector has the length word `2^64 − 1` and no data word (`bv_load_ne_raw`): the checked build
panics in `bits_to_words`, the wrapping build ACCEPTS (and goes on to `init_support`), the model refuses.  The recorded
`RawVector::load` observation, inherited; not a new divergence. -/
theorem wm_core_load_ne_level0 :
    gen_WMCore_load .checked [1#64, 0#64, 0xFFFFFFFFFFFFFFFF#64, 0#64, 0#64, 0#64, 0#64] = fault (.panic .overflow) ∧
    gen_WMCore_load .wrapping [1#64, 0#64, 0xFFFFFFFFFFFFFFFF#64, 0#64, 0#64, 0#64, 0#64] =
      ok (WMCore.initSupport ⟨#[{ ones := 0, data := ⟨18446744073709551615, #[]⟩ }]⟩, []) ∧
    wmCoreC.load [1#64, 0#64, 0xFFFFFFFFFFFFFFFF#64, 0#64, 0#64, 0#64, 0#64] = fault (.err .invalid) := by
  refine ⟨by decide +kernel, wm_core_load_one _ _ _ _ bv_load_ne_raw.2.1, by decide +kernel⟩

theorem wm_core_load_ne_checked :
    gen_WMCore_load .checked [1#64, 0#64, 0xFFFFFFFFFFFFFFFF#64, 0#64, 0#64, 0#64, 0#64] ≠
      wmCoreC.load [1#64, 0#64, 0xFFFFFFFFFFFFFFFF#64, 0#64, 0#64, 0#64, 0#64] := by
  rw [wm_core_load_ne_level0.1, wm_core_load_ne_level0.2.2]; decide

theorem wm_core_load_ne_wrapping :
    gen_WMCore_load .wrapping [1#64, 0#64, 0xFFFFFFFFFFFFFFFF#64, 0#64, 0#64, 0#64, 0#64] ≠
      wmCoreC.load [1#64, 0#64, 0xFFFFFFFFFFFFFFFF#64, 0#64, 0#64, 0#64, 0#64] := by
  rw [wm_core_load_ne_level0.2.1, wm_core_load_ne_level0.2.2]; intro h; cases h

/-- the same raw vector as the SECOND of two levels, behind an empty first level: the hypothesis is needed at every
level the model loads.  The checked build panics; the wrapping build loads the level and then refuses it like the
model, because its length is not the first level's. -/
theorem wm_core_load_ne_level1 :
    gen_WMCore_load .checked
      [2#64, 0#64, 0#64, 0#64, 0#64, 0#64, 0#64, 0#64, 0xFFFFFFFFFFFFFFFF#64, 0#64, 0#64, 0#64, 0#64] =
        fault (.panic .overflow) ∧
    gen_WMCore_load .wrapping
      [2#64, 0#64, 0#64, 0#64, 0#64, 0#64, 0#64, 0#64, 0xFFFFFFFFFFFFFFFF#64, 0#64, 0#64, 0#64, 0#64] =
        fault (.err .invalid) ∧
    wmCoreC.load [2#64, 0#64, 0#64, 0#64, 0#64, 0#64, 0#64, 0#64, 0xFFFFFFFFFFFFFFFF#64, 0#64, 0#64, 0#64, 0#64] =
      fault (.err .invalid) := by
  decide +kernel

/-- hence `WmCoreOk` fails on both streams -/
theorem not_WmCoreOk_level0 : ¬ WmCoreOk [1#64, 0#64, 0xFFFFFFFFFFFFFFFF#64, 0#64, 0#64, 0#64, 0#64] :=
  fun h => wm_core_load_ne_checked (wm_core_load_eq .checked _ h)

theorem not_WmCoreOk_level1 :
    ¬ WmCoreOk [2#64, 0#64, 0#64, 0#64, 0#64, 0#64, 0#64, 0#64, 0xFFFFFFFFFFFFFFFF#64, 0#64, 0#64, 0#64, 0#64] := by
  intro h
  have e := wm_core_load_eq .checked _ h
  rw [wm_core_load_ne_level1.1, wm_core_load_ne_level1.2.2] at e
  cases e

/-- `WmOk` does not cover the levels: on the level-0 stream behind a length word `WmOk` holds (the model's core loader
fails, so nothing is asked), `gen_WaveletMatrix_load` (over the model's core loader) agrees with the model, and the
loader over the translated core panics in the checked build -/
theorem wm_full_load_ne_level :
    WmOk [0#64, 1#64, 0#64, 0xFFFFFFFFFFFFFFFF#64, 0#64, 0#64, 0#64, 0#64] ∧
    wmLoadT .checked [0#64, 1#64, 0#64, 0xFFFFFFFFFFFFFFFF#64, 0#64, 0#64, 0#64, 0#64] = fault (.panic .overflow) ∧
    gen_WaveletMatrix_load .checked [0#64, 1#64, 0#64, 0xFFFFFFFFFFFFFFFF#64, 0#64, 0#64, 0#64, 0#64] =
      fault (.err .invalid) ∧
    wmC.load [0#64, 1#64, 0#64, 0xFFFFFFFFFFFFFFFF#64, 0#64, 0#64, 0#64, 0#64] = fault (.err .invalid) := by
  refine ⟨?_, by decide +kernel, by decide +kernel, by decide +kernel⟩
  intro len r h1 data r1 h2 _
  rw [usizeC_cons] at h1
  injection h1 with h1; injection h1 with _ h1
  subst h1
  rw [wm_core_load_ne_level0.2.2] at h2
  cases h2


/-- `WaveletMatrix::load` translated over the TRANSLATED core loader (`Generated/FnsLoad3.lean`) is the text `wmLoadT`… -/
theorem wm_load_full_eq_wmLoadT (m : Mode) (es : Elems) : gen_WaveletMatrix_load_full m es = wmLoadT m es := rfl

/-- … hence the model's loader, on every stream on which the level loads and the final integer-vector load stay inside
`usize` -/
theorem wm_load_full_eq (m : Mode) (es : Elems) (h : WmFullOk es) : gen_WaveletMatrix_load_full m es = wmC.load es :=
  (wm_load_full_eq_wmLoadT m es).trans (wm_full_load_eq m es h)

theorem wm_load_full_eq_small (m : Mode) (es : Elems) (h : ∀ w ∈ es, w.toNat < 2 ^ 32) :
    gen_WaveletMatrix_load_full m es = wmC.load es :=
  (wm_load_full_eq_wmLoadT m es).trans (wm_full_load_eq_small m es h)

end Sds.GenEq
