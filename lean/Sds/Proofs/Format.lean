/-
Proofs/Format: the format specification written from SERIALIZATION.md (`Spec/Format`, namespace `Doc`) against
the codecs of the model (`Model/Ser`, `Model/Sparse`, `Model/WM`, `Model/RL`).
(→) what the model serializes is a valid file of the document, and the document's reading of it is the content
    of the structure;
(←) what the document accepts, the model's loader accepts, and it loads a structure with that content.

Proven here
  raw bitvector      (→) `Doc.rawBits_ser`      (←) `Doc.rawBits_load`
  integer vector     (→) `Doc.intVector_ser`    (←) `Doc.intVector_load`
  optional           (→) `Doc.optionalSkip_ser`, `Doc.optional_ser`
  bitvector          (→) `Doc.bitVector_ser` (any subset of supports)
                     (←) `Doc.bitVector_load_plain` (the three optionals absent), `Doc.bitVector_eq_some`
  sparse bitvector   (→) `Doc.sparse_ser_of_facts`, `sparse_ser_set`, `sparse_ser_multi` (vectors built by `ofValues`)
  wavelet matrix     (→) `Doc.wmCore_ser`, `Doc.wm_ser_ofValues` (matrices built by `WM.ofValues`);
                         document-side: `Doc.levelMap_eq`, `Doc.wmPlaces_cols`, `Doc.wmItems_cols`, `Doc.wmFirst_cols`
  run-length vector  (→, relative to a conforming block layout) `Doc.rlBlocks_conf`, `Doc.rl_ser_of_conf`
Not proven: see the list at the end of the file.
-/
import Sds.Spec.Format
import Sds.Proofs.Codec
import Sds.Proofs.RawVec
import Sds.Proofs.IntVec
import Sds.Proofs.Sparse2
import Sds.Proofs.Supports
import Sds.Proofs.WM
import Sds.Model.RL
set_option linter.unusedSimpArgs false
set_option linter.unusedVariables false

namespace Sds
open Outcome

namespace Doc

/-! ### basic structures -/

@[simp] theorem elem_cons (w : Word) (r : File) : elem (w :: r) = some (w.toNat, r) := rfl
@[simp] theorem elem_nil : elem [] = none := rfl

theorem elem_eq_some {es : File} {n : Nat} {r : File} (h : elem es = some (n, r)) :
    ∃ w, es = w :: r ∧ w.toNat = n := by
  cases es with
  | nil => cases h
  | cons w t => simp only [elem_cons, Option.some.injEq, Prod.mk.injEq] at h; exact ⟨w, by rw [h.2], h.1⟩

theorem elemVector_cons (w : Word) (r : File) :
    elemVector (w :: r) = if w.toNat ≤ r.length then some ((r.take w.toNat).toArray, r.drop w.toNat) else none := rfl

theorem elemVector_ser {n : Nat} (hn : n < 2 ^ 64) (l : List Word) (hl : l.length = n) (rest : File) :
    elemVector (BitVec.ofNat 64 n :: (l ++ rest)) = some (l.toArray, rest) := by
  rw [elemVector_cons, toNat_ofNat64 hn, if_pos (by simp; omega)]
  subst hl
  simp

theorem elemVector_eq_some {es : File} {a : Array Word} {r : File} (h : elemVector es = some (a, r)) :
    ∃ w t, es = w :: t ∧ w.toNat ≤ t.length ∧ a = (t.take w.toNat).toArray ∧ r = t.drop w.toNat := by
  cases es with
  | nil => cases h
  | cons w t =>
    rw [elemVector_cons] at h
    by_cases hle : w.toNat ≤ t.length
    · rw [if_pos hle] at h
      simp only [Option.some.injEq, Prod.mk.injEq] at h
      exact ⟨w, t, rfl, hle, h.1.symm, h.2.symm⟩
    · rw [if_neg hle] at h; cases h

/-! ### raw bitvector -/

theorem unusedZero_iff (a : Array Word) (n : Nat) :
    unusedZero a n = true ↔ ∀ j, n ≤ j → getBit a j = false := by
  unfold unusedZero
  rw [List.all_eq_true]
  constructor
  · intro h j hj
    by_cases hjs : 64 * a.size ≤ j
    · exact getBit_of_size_le _ _ hjs
    · have := h (j - n) (List.mem_range.mpr (by omega))
      rw [show n + (j - n) = j by omega] at this
      simpa using this
  · intro h k _
    simp [h (n + k) (by omega)]

theorem rawBits_cons (w : Word) (r : File) :
    rawBits (w :: r) = (elemVector r).bind fun p =>
      if p.1.size = (w.toNat + 63) / 64 ∧ unusedZero p.1 w.toNat = true then
        some ((List.range w.toNat).map (getBit p.1), p.2) else none := rfl

/-- (→) the serialization of a well-formed `RawVector` is a raw bitvector of the document, with the same bits -/
theorem rawBits_ser {v : RawVec} (hwf : v.WF) (hlen : v.len < 2 ^ 64) (rest : File) :
    rawBits (rawVecC.ser v ++ rest) = some (v.bits, rest) := by
  have hsz : v.data.size < 2 ^ 64 := by rw [hwf.size_eq]; omega
  have hser : rawVecC.ser v ++ rest = BitVec.ofNat 64 v.len :: BitVec.ofNat 64 v.data.size :: (v.data.toList ++ rest) := by
    simp [rawVecC, vecU64C]
  rw [hser, rawBits_cons, elemVector_ser hsz _ (by simp), toNat_ofNat64 hlen]
  simp only [Option.bind_some, Array.toArray_toList]
  rw [if_pos ⟨hwf.size_eq, (unusedZero_iff _ _).mpr hwf.tail_zero⟩]
  rfl

/-- (←) a raw bitvector of the document is loaded by the model, into a well-formed vector with the same bits -/
theorem rawBits_load {es : File} {B : List Bool} {rest : File} (h : rawBits es = some (B, rest)) :
    ∃ v, rawVecC.load es = ok (v, rest) ∧ v.WF ∧ v.len < 2 ^ 64 ∧ v.bits = B := by
  cases es with
  | nil => cases h
  | cons w r =>
    rw [rawBits_cons] at h
    cases hv : elemVector r with
    | none => rw [hv] at h; cases h
    | some p =>
      obtain ⟨a, r'⟩ := p
      rw [hv] at h
      simp only [Option.bind_some] at h
      by_cases hc : a.size = (w.toNat + 63) / 64 ∧ unusedZero a w.toNat = true
      · rw [if_pos hc] at h
        simp only [Option.some.injEq, Prod.mk.injEq] at h
        obtain ⟨w2, t, rfl, hle, ha, hr⟩ := elemVector_eq_some hv
        refine ⟨⟨w.toNat, a⟩, ?_, ?_, w.isLt, h.1⟩
        · have hrn : readN w2.toNat t = ok (t.take w2.toNat, t.drop w2.toNat) := by
            unfold readN; rw [if_pos hle]
          simp only [rawVecC, usizeC, vecU64C, readElem, bind_ok, pure_eq, hrn]
          rw [if_neg (by rw [← ha]; exact fun hne => hne hc.1.symm), ← ha, ← hr, h.2]
        · exact RawVec.WF.of_tail_zero hc.1 ((unusedZero_iff _ _).mp hc.2)
      · rw [if_neg hc] at h; cases h

/-! ### integer vector -/

theorem natOfBits_eq (L : List Bool) : natOfBits L = bitsToNat L := by
  induction L with
  | nil => rfl
  | cons b bs ih => simp only [natOfBits, bitsToNat, ih]

theorem item_toArray (B : List Bool) (w i : Nat) :
    item B.toArray w i = bitsToNat ((B.drop (i * w)).take w) := by
  unfold item
  rw [natOfBits_eq, Array.toList_extract, List.extract_eq_take_drop]
  simp

/-- the items of a well-formed `IntVector`, read off its bits the way the document says -/
theorem items_of_bits {v : IntVec} (hwf : v.WF) :
    (List.range v.len).map (item v.data.bits.toArray v.width) = v.items := by
  unfold IntVec.items
  apply List.map_congr_left
  intro i hi
  have hi' : i < v.len := List.mem_range.mp hi
  rw [item_toArray, ← IntVec.item_eq_bitsToNat hwf i hi', IntVec.getRaw_eq_getD i hi']

theorem intVector_cons (w1 w2 : Word) (r : File) : intVector (w1 :: w2 :: r) =
    if w2.toNat < 1 ∨ 64 < w2.toNat then none else (rawBits r).bind fun p =>
      if p.1.length ≠ w1.toNat * w2.toNat then none else
        some ((w2.toNat, (List.range w1.toNat).map (item p.1.toArray w2.toNat)), p.2) := rfl

/-- (→) the serialization of a well-formed `IntVector` is an integer vector of the document, with the same
width and items -/
theorem intVector_ser {v : IntVec} (hwf : v.WF) (hlen : v.len < 2 ^ 64) (hdl : v.data.len < 2 ^ 64)
    (rest : File) : intVector (intVecC.ser v ++ rest) = some ((v.width, v.items), rest) := by
  obtain ⟨hw1, hw64, hdlen, hdwf⟩ := hwf
  have hser : intVecC.ser v ++ rest =
      BitVec.ofNat 64 v.len :: BitVec.ofNat 64 v.width :: (rawVecC.ser v.data ++ rest) := by
    simp [intVecC]
  rw [hser, intVector_cons, toNat_ofNat64 hlen, toNat_ofNat64 (by omega), if_neg (by omega),
    rawBits_ser hdwf hdl]
  simp only [Option.bind_some]
  rw [if_neg (by rw [RawVec.bits_length, hdlen]; simp), items_of_bits ⟨hw1, hw64, hdlen, hdwf⟩]

/-- (←) an integer vector of the document is loaded by the model, into a well-formed vector with that width
and those items -/
theorem intVector_load {es : File} {w : Nat} {items : List Nat} {rest : File}
    (h : intVector es = some ((w, items), rest)) :
    ∃ v, intVecC.load es = ok (v, rest) ∧ v.WF ∧ v.len < 2 ^ 64 ∧ v.data.len < 2 ^ 64 ∧
      v.width = w ∧ v.items = items := by
  match es, h with
  | [], h => cases h
  | [_], h => cases h
  | w1 :: w2 :: r, h =>
    rw [intVector_cons] at h
    by_cases hw : w2.toNat < 1 ∨ 64 < w2.toNat
    · rw [if_pos hw] at h; cases h
    · rw [if_neg hw] at h
      cases hb : rawBits r with
      | none => rw [hb] at h; cases h
      | some p =>
        obtain ⟨B, r'⟩ := p
        rw [hb] at h
        simp only [Option.bind_some] at h
        by_cases hl : B.length ≠ w1.toNat * w2.toNat
        · rw [if_pos hl] at h; cases h
        · rw [if_neg hl] at h
          simp only [Option.some.injEq, Prod.mk.injEq] at h
          obtain ⟨⟨hw', hitems⟩, hr⟩ := h
          obtain ⟨d, hload, hdwf, hdlt, hbits⟩ := rawBits_load hb
          have hdlen : d.len = w1.toNat * w2.toNat := by
            rw [← RawVec.bits_length, hbits]; exact Decidable.of_not_not hl
          have hwf : (⟨w1.toNat, w2.toNat, d⟩ : IntVec).WF :=
            ⟨show 1 ≤ w2.toNat by omega, show w2.toNat ≤ 64 by omega, hdlen, hdwf⟩
          refine ⟨⟨w1.toNat, w2.toNat, d⟩, ?_, hwf, w1.isLt, hdlt, hw', ?_⟩
          · simp only [intVecC, usizeC, readElem, bind_ok, pure_eq, hload]
            rw [if_neg (by rw [hdlen]; simp), hr]
          · rw [← hitems, ← hbits]; exact (items_of_bits hwf).symm

/-! ### optional structures -/

theorem optionalSkip_cons (w : Word) (r : File) :
    optionalSkip (w :: r) = if w.toNat ≤ r.length then some (r.drop w.toNat) else none := rfl

/-- (→) an optional structure written by the model, present or absent, is skipped by its length element -/
theorem optionalSkip_ser {α} (c : Codec α) (o : Option α)
    (ho : ∀ x, o = some x → (c.ser x).length < 2 ^ 64) (r : File) :
    optionalSkip ((optionC c).ser o ++ r) = some r := by
  cases o with
  | none =>
    show optionalSkip ((0 : Word) :: r) = some r
    rw [optionalSkip_cons]; simp
  | some x =>
    show optionalSkip (BitVec.ofNat 64 (c.ser x).length :: (c.ser x ++ r)) = some r
    rw [optionalSkip_cons, toNat_ofNat64 (ho x rfl), if_pos (by simp)]
    simp

/-- (→) `Doc.optional` with a decoder that reads back what the codec wrote -/
theorem optional_ser {α β} (c : Codec α) (dec : File → Option (β × File)) (f : α → β) (o : Option α)
    (ho : ∀ x, o = some x → 0 < (c.ser x).length ∧ (c.ser x).length < 2 ^ 64 ∧ dec (c.ser x) = some (f x, []))
    (r : File) : optional dec ((optionC c).ser o ++ r) = some (o.map f, r) := by
  cases o with
  | none => rfl
  | some x =>
    obtain ⟨hpos, hlt, hdec⟩ := ho x rfl
    show optional dec (BitVec.ofNat 64 (c.ser x).length :: (c.ser x ++ r)) = _
    simp only [optional, elem_cons, Option.bind_eq_bind, Option.bind_some, toNat_ofNat64 hlt]
    rw [if_neg (by omega), if_pos (by simp)]
    simp [hdec]

/-! ### bitvector -/

theorem bitVector_cons (w : Word) (r : File) : bitVector (w :: r) =
    (rawBits r).bind fun p => if p.1.count true ≠ w.toNat then none else
      (optionalSkip p.2).bind fun r1 => (optionalSkip r1).bind fun r2 => (optionalSkip r2).bind fun r3 =>
        some (p.1, r3) := rfl

/-- (→) the serialization of a `BitVector` — with whatever subset of its three support structures — is a
bitvector of the document with the same bits: the supports are skipped by their lengths -/
theorem bitVector_ser {b : BitVector} (hwf : bitVectorWF b) (hones : b.ones = b.data.bits.count true)
    (rest : File) : bitVector (bitVectorC.ser b ++ rest) = some (b.data.bits, rest) := by
  obtain ⟨⟨hdwf, hdlen⟩, hle, hlt, hr, hs, hz⟩ := hwf
  have hser : bitVectorC.ser b ++ rest = BitVec.ofNat 64 b.ones :: (rawVecC.ser b.data ++
      ((optionC rankSupC).ser b.rank ++ ((optionC selSupC).ser b.select ++
        ((optionC selSupC).ser b.selectZero ++ rest)))) := by
    simp [bitVectorC]
  rw [hser, bitVector_cons, rawBits_ser hdwf hdlen, toNat_ofNat64 hlt]
  simp only [Option.bind_some]
  rw [if_neg (by rw [hones]; simp),
    optionalSkip_ser rankSupC b.rank (fun x hx => (hr x hx).2.2),
    Option.bind_some, optionalSkip_ser selSupC b.select (fun x hx => (hs x hx).2.2),
    Option.bind_some, optionalSkip_ser selSupC b.selectZero (fun x hx => (hz x hx).2.2),
    Option.bind_some]

/-- what `Doc.bitVector` accepts: a number of set bits that is the actual count, a raw bitvector, and three
length-prefixed spans inside the file -/
theorem bitVector_eq_some {es : File} {B : List Bool} {rest : File} (h : bitVector es = some (B, rest)) :
    ∃ w r r0 r1 r2, es = w :: r ∧ rawBits r = some (B, r0) ∧ B.count true = w.toNat ∧
      optionalSkip r0 = some r1 ∧ optionalSkip r1 = some r2 ∧ optionalSkip r2 = some rest := by
  cases es with
  | nil => cases h
  | cons w r =>
    rw [bitVector_cons] at h
    cases hb : rawBits r with
    | none => rw [hb] at h; cases h
    | some p =>
      obtain ⟨B', r0⟩ := p
      rw [hb] at h
      simp only [Option.bind_some] at h
      by_cases hc : B'.count true ≠ w.toNat
      · rw [if_pos hc] at h; cases h
      · rw [if_neg hc] at h
        cases h1 : optionalSkip r0 with
        | none => rw [h1] at h; cases h
        | some r1 =>
          rw [h1] at h; simp only [Option.bind_some] at h
          cases h2 : optionalSkip r1 with
          | none => rw [h2] at h; cases h
          | some r2 =>
            rw [h2] at h; simp only [Option.bind_some] at h
            cases h3 : optionalSkip r2 with
            | none => rw [h3] at h; cases h
            | some r3 =>
              rw [h3] at h; simp only [Option.bind_some, Option.some.injEq, Prod.mk.injEq] at h
              obtain ⟨rfl, rfl⟩ := h
              exact ⟨w, r, r0, r1, r2, rfl, hb, Decidable.of_not_not hc, h1, h2, h3⟩

/-- (←) a bitvector of the document whose three optional structures are absent is loaded by the model, into a
bitvector without supports, with the same bits and the right number of set bits -/
theorem bitVector_load_plain {w : Word} {r : File} {B : List Bool} {rest : File}
    (hraw : rawBits r = some (B, 0 :: 0 :: 0 :: rest)) (hones : B.count true = w.toNat) :
    bitVector (w :: r) = some (B, rest) ∧
    ∃ b, bitVectorC.load (w :: r) = ok (b, rest) ∧ b.data.WF ∧ b.data.bits = B ∧ b.ones = B.count true ∧
      b.rank = none ∧ b.select = none ∧ b.selectZero = none ∧ bitVectorWF b := by
  constructor
  · rw [bitVector_cons, hraw]
    simp only [Option.bind_some]
    rw [if_neg (by rw [hones]; simp)]
    rfl
  · obtain ⟨d, hload, hdwf, hdlt, hbits⟩ := rawBits_load hraw
    have hle : w.toNat ≤ d.len := by
      rw [← hones, ← RawVec.bits_length, hbits]; exact List.count_le_length
    refine ⟨{ ones := w.toNat, data := d }, ?_, hdwf, hbits, hones.symm, rfl, rfl, rfl, ?_⟩
    · simp only [bitVectorC, usizeC, readElem, bind_ok, pure_eq, hload]
      rw [if_neg (by omega)]
      simp [optionC, readElem]
    · unfold bitVectorWF
      refine ⟨⟨hdwf, hdlt⟩, hle, w.isLt, ?_, ?_, ?_⟩ <;> intro s hs <;> cases hs

/-! ### sparse bitvector -/

/-- the number of buckets the code computes is the `⌈n / 2^w⌉` of the document -/
theorem getBuckets_eq_ceil (n w : Nat) (hw : w ≤ 63) :
    Sparse.getBuckets n w = (n + 2 ^ w - 1) / 2 ^ w := by
  unfold Sparse.getBuckets
  simp only [if_pos (show w < 64 by omega), Nat.shiftRight_eq_div_pow]
  have hd : 0 < 2 ^ w := Nat.two_pow_pos w
  generalize 2 ^ w = d at hd
  have hn := Nat.mod_add_div n d
  have hr := Nat.mod_lt n hd
  generalize n / d = q at hn ⊢
  generalize n % d = r at hn hr ⊢
  have hsucc : d * (q + 1) = d * q + d := Nat.mul_succ d q
  by_cases h0 : r = 0
  · rw [if_neg (by simp [h0])]
    have : n + d - 1 = (d - 1) + d * q := by omega
    rw [this, Nat.add_mul_div_left _ _ hd, Nat.div_eq_of_lt (by omega)]; omega
  · rw [if_pos h0]
    have : n + d - 1 = (r - 1) + d * (q + 1) := by omega
    rw [this, Nat.add_mul_div_left _ _ hd, Nat.div_eq_of_lt (by omega)]; omega

/-- "low[i] + ((high.select(i) - i) << w)" puts the two parts of every value back together -/
theorem sparseValues_eq (w : Nat) : ∀ (P sel low : List Nat) (i : Nat),
    sel.length = P.length → low.length = P.length →
    (∀ j (hj : j < P.length), sel[j]? = some (P[j] >>> w + (i + j))) →
    (∀ j (hj : j < P.length), low[j]? = some (P[j] % 2 ^ w)) →
    sparseValues w i sel low = P := by
  intro P
  induction P with
  | nil =>
    intro sel low i hs hl _ _
    cases sel with
    | nil => rfl
    | cons _ _ => simp at hs
  | cons p ps ih =>
    intro sel low i hs hl hsel hlow
    cases sel with
    | nil => simp at hs
    | cons q sel' =>
      cases low with
      | nil => simp at hl
      | cons l low' =>
        have h0 := hsel 0 (by simp)
        have l0 := hlow 0 (by simp)
        simp only [List.getElem?_cons_zero, List.getElem_cons_zero, Option.some.injEq, Nat.add_zero] at h0 l0
        rw [sparseValues, ih sel' low' (i + 1) (by simpa using hs) (by simpa using hl)]
        · congr 1
          rw [h0, l0, Nat.add_sub_cancel, Nat.shiftLeft_eq, Nat.shiftRight_eq_div_pow, Nat.mul_comm]
          exact Nat.mod_add_div p (2 ^ w)
        · intro j hj
          have := hsel (j + 1) (by simpa using hj)
          simp only [List.getElem?_cons_succ, List.getElem_cons_succ] at this
          rw [this]; congr 2; omega
        · intro j hj
          have := hlow (j + 1) (by simpa using hj)
          simpa only [List.getElem?_cons_succ, List.getElem_cons_succ] using this

/-- the positions of the ones of the unary bucket sequence -/
theorem onesPos_highBits {w buckets : Nat} {P : List Nat} (hP : P.Pairwise (· ≤ ·))
    (hb : ∀ p ∈ P, p >>> w < buckets) :
    (onesPos (highBits w buckets P)).length = P.length ∧
    ∀ j (hj : j < P.length), (onesPos (highBits w buckets P))[j]? = some (P[j] >>> w + (0 + j)) := by
  refine ⟨by rw [length_onesPos, highBits_count_true hP hb], fun j hj => ?_⟩
  rw [← selectSpec_eq_onesPos, highBits_select hP hb j hj, Nat.zero_add]

/-- the unary bucket sequence is a sequence of closed buckets: it does not end with a one -/
theorem highBits_getLast {w buckets : Nat} {P : List Nat} (hP : P.Pairwise (· ≤ ·))
    (hb : ∀ p ∈ P, p >>> w < buckets) : (highBits w buckets P).getLast? ≠ some true := by
  rw [List.getLast?_eq_getElem?, highBits_length hP hb]
  cases buckets with
  | zero =>
    have : P = [] := by
      cases P with
      | nil => rfl
      | cons p ps => exact absurd (hb p (List.mem_cons_self ..)) (Nat.not_lt_zero _)
    subst this
    rw [List.getElem?_eq_none (by rw [highBits_length hP hb]; simp)]
    simp
  | succ k =>
    have hall : (P.filter (fun p => p >>> w ≤ k)) = P := by
      rw [List.filter_eq_self]
      intro p hp
      have := hb p hp
      simp; omega
    have := highBits_zero_pos hP hb k (by omega)
    rw [hall] at this
    rw [show P.length + (k + 1) - 1 = k + P.length by omega, this]
    simp

/-- what the serialization of a sparse vector needs beyond the query interface `Sparse.Encodes`: the concrete
`high` is serializable, its counter is right and its bits are the unary bucket sequence; `low` is well formed -/
structure SparseFacts (s : Sparse) (n w : Nat) (P : List Nat) : Prop where
  high_wf : bitVectorWF s.high
  high_ones : s.high.ones = s.high.data.bits.count true
  high_bits : s.high.data.bits = highBits w (Sparse.getBuckets n w) P
  low_wf : s.low.WF
  low_bits_lt : s.low.data.len < 2 ^ 64

/-- (→) the serialization of a sparse vector encoding the sorted values `P` over the universe `n` is a sparse
bitvector of the document, and the document reads `(n, P)` from it -/
theorem sparse_ser_of_facts {s : Sparse} {n w : Nat} {P : List Nat} (hs : s.Encodes n w P)
    (hf : SparseFacts s n w P) (rest : File) :
    sparse (sparseC.ser s ++ rest) = some ((n, P), rest) := by
  have hpw := hs.pw
  have hbk := hs.hb
  have hser : sparseC.ser s ++ rest =
      BitVec.ofNat 64 s.len :: (bitVectorC.ser s.high ++ (intVecC.ser s.low ++ rest)) := by
    simp [sparseC]
  have hlowlen : s.low.len < 2 ^ 64 := by have := hs.m_lt; rw [hs.low_len]; omega
  obtain ⟨hsl, hsel⟩ := onesPos_highBits hpw hbk
  have hvals : sparseValues w 0 (onesPos (highBits w (Sparse.getBuckets n w) P)) s.low.items = P := by
    apply sparseValues_eq w P _ _ 0 hsl (by rw [IntVec.items_length, hs.low_len]) hsel
    intro j hj
    rw [IntVec.items_getElem?, if_pos (by rw [hs.low_len]; exact hj), hs.low_val j hj]
  have htn : (BitVec.ofNat 64 s.len).toNat = n := by rw [hs.len_eq]; exact toNat_ofNat64 hs.n_lt
  have hcond : (onesPos (highBits w (Sparse.getBuckets n w) P)).length = s.low.items.length ∧
      (highBits w (Sparse.getBuckets n w) P).count false = (n + 2 ^ w - 1) / 2 ^ w ∧
      (highBits w (Sparse.getBuckets n w) P).getLast? ≠ some true ∧
      P.all (· < n) = true ∧ sortedLe P = true := by
    refine ⟨by rw [hsl, IntVec.items_length, hs.low_len], ?_, highBits_getLast hpw hbk, ?_, hs.sorted⟩
    · rw [highBits_count_false hpw hbk, getBuckets_eq_ceil n w hs.w_lt]
    · rw [List.all_eq_true]
      intro p hp
      simpa using hs.bound p hp
  unfold sparse
  rw [hser]
  simp only [elem_cons, Option.bind_eq_bind, Option.bind_some, htn,
    bitVector_ser hf.high_wf hf.high_ones, intVector_ser hf.low_wf hlowlen hf.low_bits_lt, hf.high_bits,
    hs.width_eq, hvals]
  rw [if_pos hcond]

open SupportProofs in
/-- `build` on a full builder: besides the query interface (`Sparse2.build_encodes`), the facts the serialization
needs -/
theorem build_facts {w n inc : Nat} {P : List Nat} {b : SparseBuilder} (hw1 : 1 ≤ w) (hw : w ≤ 63)
    (hn : n < 2 ^ 64) (hhl : P.length + Sparse.getBuckets n w < 2 ^ 63) (hlw : P.length * w < 2 ^ 64)
    (hb : Sparse2.BInv w n inc P P.length b) (hsorted : sortedLe P = true) (hbound : ∀ p ∈ P, p < n) :
    ∃ s, b.build = ok s ∧ s.Encodes n w P ∧ SparseFacts s n w P := by
  obtain ⟨s, hbuild, henc⟩ := Sparse2.build_encodes hw1 hw hn (by omega) hb hsorted hbound
  refine ⟨s, hbuild, henc, ?_⟩
  have hfull : b.isFull = true := by
    unfold SparseBuilder.isFull SparseBuilder.capacity
    rw [hb.len_eq, hb.low_len]; simp
  have hs : s = ⟨b.univ, (BitVector.ofRaw b.high).enableSelect.enableSelectZero, b.low⟩ := by
    unfold SparseBuilder.build at hbuild
    rw [hfull] at hbuild
    simp only [Bool.not_true, Bool.false_eq_true, if_false] at hbuild
    exact (Outcome.ok.inj hbuild).symm
  have hlen : b.high.len < 2 ^ 63 := by rw [hb.high_len]; exact hhl
  have hsound := ofRaw_sound hb.high_wf hlen
  subst hs
  refine ⟨?_, ?_, ?_, hb.low_wf, ?_⟩
  · exact enableSelectZero_wf hsound.enableSelect (enableSelect_wf hsound (ofRaw_wf hb.high_wf hlen))
  · exact hsound.enableSelect.enableSelectZero.ones_eq
  · show (BitVector.ofRaw b.high).enableSelect.enableSelectZero.data.bits = _
    rw [enableSelectZero_data, enableSelect_data]
    exact Sparse2.high_bits_eq hw hb hsorted hbound
  · show b.low.data.len < 2 ^ 64
    rw [hb.low_wf.2.2.1, hb.low_len, hb.low_width]; exact hlw

/-- the builder run on an acceptable list: the result encodes the list and serializes to a sparse bitvector
of the document that reads back as `(n, P)` -/
theorem ofValues_sparse_ser (w n : Nat) (multi : Bool) (P : List Nat) (hw1 : 1 ≤ w) (hw : w ≤ 63)
    (hn : n < 2 ^ 64) (hhl : P.length + Sparse.getBuckets n w < 2 ^ 63) (hlw : P.length * w < 2 ^ 64)
    (hlen : multi = false → P.length ≤ n)
    (hacc : Sparse2.accepts n (if multi then 0 else 1) 0 P = true) (hsorted : sortedLe P = true)
    (hbound : ∀ p ∈ P, p < n) :
    ∃ s, Sparse.ofValues w n multi P = ok s ∧ s.Encodes n w P ∧
      ∀ rest, sparse (sparseC.ser s ++ rest) = some ((n, P), rest) := by
  obtain ⟨b0, hb0, hnx, heq⟩ := Sparse2.ofValues_eq_fold w n multi P hw1 hw hlen
  have := Sparse2.fold_spec hw P.length 0 b0 (by omega) hb0
  rw [hnx, List.drop_zero, if_pos hacc] at this
  obtain ⟨b', h1, h2⟩ := this
  obtain ⟨s, hbuild, henc, hfacts⟩ := build_facts hw1 hw hn hhl hlw h2 hsorted hbound
  refine ⟨s, ?_, henc, fun rest => sparse_ser_of_facts henc hfacts rest⟩
  rw [heq, List.drop_zero, h1]
  exact hbuild

end Doc

/-- **(→, sparse, set mode).** For a strictly increasing list `P` below the universe size `n`, `ofValues` succeeds,
the result encodes `P`, and its serialization is a sparse bitvector of the document that reads as `(n, P)`.
(`hhl`: the bucket sequence has fewer than 2^63 bits — needed for the select supports of `high` to be
serializable; `hlw`: the low parts fit a raw bitvector.) -/
theorem sparse_ser_set (w n : Nat) (P : List Nat) (hw1 : 1 ≤ w) (hw : w ≤ 63) (hn : n < 2 ^ 64)
    (hhl : P.length + Sparse.getBuckets n w < 2 ^ 63) (hlw : P.length * w < 2 ^ 64)
    (hsorted : sortedStrict P = true) (hbound : ∀ p ∈ P, p < n) :
    ∃ s, Sparse.ofValues w n false P = ok s ∧ s.Encodes n w P ∧
      ∀ rest, Doc.sparse (sparseC.ser s ++ rest) = some ((n, P), rest) :=
  Doc.ofValues_sparse_ser w n false P hw1 hw hn hhl hlw (fun _ => Sparse2.strict_length_le hsorted hbound)
    ((Sparse2.accepts_strict n P 0).mpr ⟨hsorted, hbound, fun _ _ => Nat.zero_le _⟩)
    (Sparse2.sortedStrict_le P hsorted) hbound

/-- **(→, sparse, multiset mode).** The same for a non-decreasing list. -/
theorem sparse_ser_multi (w n : Nat) (P : List Nat) (hw1 : 1 ≤ w) (hw : w ≤ 63) (hn : n < 2 ^ 64)
    (hhl : P.length + Sparse.getBuckets n w < 2 ^ 63) (hlw : P.length * w < 2 ^ 64)
    (hsorted : sortedLe P = true) (hbound : ∀ p ∈ P, p < n) :
    ∃ s, Sparse.ofValues w n true P = ok s ∧ s.Encodes n w P ∧
      ∀ rest, Doc.sparse (sparseC.ser s ++ rest) = some ((n, P), rest) :=
  Doc.ofValues_sparse_ser w n true P hw1 hw hn hhl hlw (fun h => by cases h)
    ((Sparse2.accepts_le n P 0).mpr ⟨hsorted, hbound, fun _ _ => Nat.zero_le _⟩) hsorted hbound

namespace Doc

/-! ### wavelet matrix: the document's walk on bit lists -/

theorem levelMapFrom_length (z : Nat) : ∀ (B : List Bool) (r0 r1 : Nat),
    (levelMapFrom z B r0 r1).length = B.length
  | [], _, _ => rfl
  | true :: bs, r0, r1 => by simp [levelMapFrom, levelMapFrom_length z bs]
  | false :: bs, r0, r1 => by simp [levelMapFrom, levelMapFrom_length z bs]

theorem levelMapFrom_getElem? (z : Nat) : ∀ (B : List Bool) (r0 r1 i : Nat), i < B.length →
    (levelMapFrom z B r0 r1)[i]? =
      some (if B.getD i false then z + (r1 + rankSpec B i) else r0 + rankZeroSpec B i)
  | [], _, _, i, h => by simp at h
  | b :: bs, r0, r1, 0, _ => by cases b <;> simp [levelMapFrom, rankSpec, rankZeroSpec]
  | b :: bs, r0, r1, i + 1, h => by
    have hi : i < bs.length := by simpa using h
    cases b
    · simp only [levelMapFrom, List.getElem?_cons_succ, levelMapFrom_getElem? z bs _ _ i hi]
      simp [rankSpec, rankZeroSpec, List.count_cons]; split <;> omega
    · simp only [levelMapFrom, List.getElem?_cons_succ, levelMapFrom_getElem? z bs _ _ i hi]
      simp [rankSpec, rankZeroSpec, List.count_cons]; split <;> omega

/-- the one-pass map of a level is the map of the document, position by position -/
theorem levelMap_eq (B : List Bool) (i : Nat) (hi : i < B.length) :
    (levelMap B)[i]?.getD 0 = mapDown B i := by
  unfold levelMap mapDown
  rw [List.getElem?_toArray, levelMapFrom_getElem? _ B 0 0 i hi]
  simp

/-- on a level holding the bits `p x` of a sequence `L`, the document's map is the stable partition of `L` -/
theorem mapDown_map {α : Type} (p : α → Bool) (L : List α) (i : Nat) (x : α) (hx : L[i]? = some x) :
    mapDown (L.map p) i = stepPos p L i (p x) := by
  unfold mapDown stepPos
  have hB : (L.map p).getD i false = p x := by
    rw [List.getD_eq_getElem?_getD, List.getElem?_map, hx]; rfl
  rw [hB, count_false_map, rankSpec_map]
  have : rankZeroSpec (L.map p) i = (L.take i).countP (fun x => !p x) := by
    unfold rankZeroSpec; rw [← List.map_take, count_false_map]
  rw [this]

/-- position and accumulated value of item `i` after `n` levels -/
def wmState (w : Nat) (V : List Nat) (n i : Nat) : Nat × Nat :=
  (vpos w V n i (V.getD i 0), V.getD i 0 / 2 ^ (w - n) * 2 ^ (w - n))

theorem wmWalk_cols (w : Nat) (V : List Nat) : ∀ (k n : Nat), n + k = w →
    wmWalk ((List.range' n k).map (col w V)) ((List.range V.length).map (wmState w V n)) =
      (List.range V.length).map (wmState w V w)
  | 0, n, h => by
    have : n = w := by omega
    subst this; rfl
  | k + 1, n, h => by
    rw [List.range'_succ, List.map_cons, wmWalk, List.map_map,
      ← wmWalk_cols w V k (n + 1) (by omega)]
    congr 1
    apply List.map_congr_left
    intro i hi
    have hi' : i < V.length := List.mem_range.mp hi
    have hx : V[i]? = some (V.getD i 0) := by
      rw [List.getD_eq_getElem?_getD, List.getElem?_eq_getElem hi']; rfl
    simp only [Function.comp, wmState, List.length_map, List.length_range']
    generalize V.getD i 0 = x at hx ⊢
    have hget := getElem?_S_vpos w V n i x hx
    have hlt : vpos w V n i x < (col w V n).length := by
      simp only [col, List.length_map]; exact (List.getElem?_eq_some_iff.mp hget).1
    have hB : (col w V n)[vpos w V n i x]? = some (bitAt w n x) := by
      simp only [col, List.getElem?_map, hget, Option.map_some]
    have hstep := valAcc_step x (w - 1 - n)
    rw [show w - 1 - n + 1 = w - n by omega] at hstep
    rw [levelMap_eq _ _ hlt, List.getElem?_toArray, hB]
    have hmd : mapDown (col w V n) (vpos w V n i x) = vpos w V (n + 1) i x := by
      unfold col; rw [mapDown_map _ _ _ x hget]; rfl
    rw [hmd, show w - (n + 1) = w - 1 - n by omega, ← hstep, show k = w - 1 - n by omega]
    cases hbit : bitAt w n x with
    | true =>
      have : x / 2 ^ (w - 1 - n) % 2 = 1 := by simpa [bitAt] using hbit
      simp [this]
    | false =>
      have : x / 2 ^ (w - 1 - n) % 2 = 0 := by
        have : ¬ x / 2 ^ (w - 1 - n) % 2 = 1 := by simpa [bitAt] using hbit
        omega
      simp [this]

/-- the closed form of the final position does not need the model -/
theorem vpos_final (w : Nat) (V : List Nat) (hV : ∀ v ∈ V, v < 2 ^ w) (i x : Nat) (hx : x < 2 ^ w) :
    vpos w V w i x = finalPos w V i x := by
  rw [vpos_eq]
  unfold finalPos firstPos
  congr 1
  rw [List.count_eq_countP]
  apply List.countP_congr
  intro u hu
  rw [keyEq_iff_of_lt w u x (hV u (List.mem_of_mem_take hu)), Nat.mod_eq_of_lt hx]
  simp

/-- **the walk of the document over the bit columns of `V` recovers `V`**: for every offset, the position in
the reordered vector and the item -/
theorem wmPlaces_cols (w : Nat) (V : List Nat) (hV : ∀ v ∈ V, v < 2 ^ w) :
    wmPlaces ((List.range w).map (col w V)) V.length =
      (List.range V.length).map fun i => (finalPos w V i (V.getD i 0), V.getD i 0) := by
  unfold wmPlaces
  have h0 : (List.range V.length).map (fun i => (i, 0)) = (List.range V.length).map (wmState w V 0) := by
    apply List.map_congr_left
    intro i hi
    have hi' : i < V.length := List.mem_range.mp hi
    have hx : V.getD i 0 < 2 ^ w := by
      rw [List.getD_eq_getElem?_getD, List.getElem?_eq_getElem hi']; exact hV _ (List.getElem_mem hi')
    simp only [wmState, vpos, Nat.sub_zero, Nat.div_eq_of_lt hx, Nat.zero_mul]
    rw [Nat.min_eq_left (Nat.le_of_lt hi')]
  rw [h0, List.range_eq_range', wmWalk_cols w V w 0 (by omega)]
  apply List.map_congr_left
  intro i hi
  have hi' : i < V.length := by simpa using hi
  have hx : V.getD i 0 < 2 ^ w := by
    rw [List.getD_eq_getElem?_getD, List.getElem?_eq_getElem hi']; exact hV _ (List.getElem_mem hi')
  simp only [wmState, Nat.sub_self, Nat.pow_zero, Nat.div_one, Nat.mul_one]
  rw [vpos_final w V hV i _ hx]

theorem wmItems_cols (w : Nat) (V : List Nat) (hV : ∀ v ∈ V, v < 2 ^ w) :
    wmItems ((List.range w).map (col w V)) V.length = V := by
  unfold wmItems
  rw [wmPlaces_cols w V hV, List.map_map]
  apply List.ext_getElem?
  intro i
  by_cases hi : i < V.length
  · simp [hi, List.getD_eq_getElem?_getD]
  · simp [hi, List.getElem?_eq_none (Nat.le_of_not_lt hi)]

/-! ### wavelet matrix: `first` -/

theorem foldMin_spec : ∀ (ps : List (Nat × Nat)) (a : Array Nat) (v : Nat), v < a.size →
    (ps.foldl (fun (a : Array Nat) (pv : Nat × Nat) => a.modify pv.2 (min pv.1)) a).size = a.size ∧
    ∃ m a0, (ps.foldl (fun (a : Array Nat) (pv : Nat × Nat) => a.modify pv.2 (min pv.1)) a)[v]? = some m ∧
      a[v]? = some a0 ∧ m ≤ a0 ∧ (∀ pv ∈ ps, pv.2 = v → m ≤ pv.1) ∧
      (m = a0 ∨ ∃ pv ∈ ps, pv.2 = v ∧ m = pv.1)
  | [], a, v, hv => ⟨rfl, a[v], a[v], by simp [hv], by simp [hv], Nat.le_refl _, by simp, Or.inl rfl⟩
  | (p, val) :: ps, a, v, hv => by
    have hsz : (a.modify val (min p)).size = a.size := Array.size_modify
    obtain ⟨h1, m, a0', h2, h3, h4, h5, h6⟩ := foldMin_spec ps (a.modify val (min p)) v (by rw [hsz]; exact hv)
    rw [List.foldl_cons]
    refine ⟨h1.trans hsz, m, a[v], h2, by simp [hv], ?_, ?_, ?_⟩
    · rw [Array.getElem?_modify] at h3
      by_cases hval : val = v
      · rw [if_pos hval, Array.getElem?_eq_getElem hv] at h3
        simp only [Option.map_some, Option.some.injEq] at h3
        omega
      · rw [if_neg hval, Array.getElem?_eq_getElem hv] at h3
        simp only [Option.some.injEq] at h3
        omega
    · intro pv hpv hpv2
      rcases List.mem_cons.mp hpv with rfl | hmem
      · rw [Array.getElem?_modify, if_pos hpv2, Array.getElem?_eq_getElem hv] at h3
        simp only [Option.map_some, Option.some.injEq] at h3
        show m ≤ p
        omega
      · exact h5 pv hmem hpv2
    · rw [Array.getElem?_modify] at h3
      by_cases hval : val = v
      · rw [if_pos hval, Array.getElem?_eq_getElem hv] at h3
        simp only [Option.map_some, Option.some.injEq] at h3
        rcases h6 with h6 | ⟨pv, hpv, e1, e2⟩
        · by_cases hle : p ≤ a[v]
          · exact Or.inr ⟨(p, val), List.mem_cons_self .., hval, by show m = p; omega⟩
          · exact Or.inl (by omega)
        · exact Or.inr ⟨pv, List.mem_cons_of_mem _ hpv, e1, e2⟩
      · rw [if_neg hval, Array.getElem?_eq_getElem hv] at h3
        simp only [Option.some.injEq] at h3
        rcases h6 with h6 | ⟨pv, hpv, e1, e2⟩
        · exact Or.inl (by omega)
        · exact Or.inr ⟨pv, List.mem_cons_of_mem _ hpv, e1, e2⟩

theorem exists_first_occurrence : ∀ (V : List Nat) (v : Nat), v ∈ V →
    ∃ i, V[i]? = some v ∧ (V.take i).count v = 0
  | a :: t, v, h => by
    by_cases hav : a = v
    · exact ⟨0, by simp [hav], by simp⟩
    · have ht : v ∈ t := by
        rcases List.mem_cons.mp h with rfl | h'
        · exact absurd rfl hav
        · exact h'
      obtain ⟨i, h1, h2⟩ := exists_first_occurrence t v ht
      refine ⟨i + 1, by simpa using h1, ?_⟩
      rw [List.take_succ_cons, List.count_cons, h2]
      simp [hav]

/-- **the `first` vector the document prescribes**, computed from the walk over the bit columns of `V`: over the
alphabet `0..=max V`, the position of the first occurrence in the reordered vector, or the length -/
theorem wmFirst_cols (w : Nat) (V : List Nat) (hV : ∀ v ∈ V, v < 2 ^ w) :
    wmFirst (wmPlaces ((List.range w).map (col w V)) V.length) V.length =
      (List.range (V.foldl max 0 + 1)).map fun v => if v ∈ V then firstPos w V v else V.length := by
  have hitems := wmItems_cols w V hV
  unfold wmItems at hitems
  have hplaces := wmPlaces_cols w V hV
  generalize wmPlaces ((List.range w).map (col w V)) V.length = places at hitems hplaces
  have hmax : places.foldl (fun m pv => max m pv.2) 0 = V.foldl max 0 := by
    rw [← hitems, List.foldl_map]
  unfold wmFirst
  simp only [hmax]
  generalize V.foldl max 0 = maxv
  apply List.ext_getElem?
  intro v
  by_cases hv : v < maxv + 1
  · obtain ⟨h1, m, a0, h2, h3, h4, h5, h6⟩ :=
      foldMin_spec places (Array.replicate (maxv + 1) V.length) v (by simpa using hv)
    rw [Array.getElem?_toList, h2, List.getElem?_map, List.getElem?_range hv]
    simp only [Option.map_some, Option.some.injEq]
    have ha0 : a0 = V.length := by
      rw [Array.getElem?_replicate, if_pos hv] at h3
      exact (Option.some.inj h3).symm
    subst ha0
    -- every entry of `places` carrying the value `v` sits at `firstPos v + (occurrences before)`
    have hentry : ∀ pv ∈ places, pv.2 = v → ∃ i, V[i]? = some v ∧ pv.1 = firstPos w V v + (V.take i).count v := by
      intro pv hpv hpv2
      rw [hplaces] at hpv
      obtain ⟨i, hi, rfl⟩ := List.mem_map.mp hpv
      have hi' : i < V.length := List.mem_range.mp hi
      simp only at hpv2
      refine ⟨i, ?_, ?_⟩
      · rw [← hpv2, List.getD_eq_getElem?_getD, List.getElem?_eq_getElem hi']; rfl
      · simp only [hpv2]; rfl
    by_cases hmem : v ∈ V
    · rw [if_pos hmem]
      obtain ⟨i0, hi0, hc0⟩ := exists_first_occurrence V v hmem
      have hi0' : i0 < V.length := (List.getElem?_eq_some_iff.mp hi0).1
      have hin : (finalPos w V i0 (V.getD i0 0), V.getD i0 0) ∈ places := by
        rw [hplaces]; exact List.mem_map.mpr ⟨i0, List.mem_range.mpr hi0', rfl⟩
      have hgd : V.getD i0 0 = v := by rw [List.getD_eq_getElem?_getD, hi0]; rfl
      have hle := h5 _ hin hgd
      simp only [hgd, finalPos, hc0, Nat.add_zero] at hle
      have hfl : firstPos w V v ≤ V.length := List.countP_le_length
      rcases h6 with h6 | ⟨pv, hpv, e1, e2⟩
      · omega
      · obtain ⟨i, _, hp⟩ := hentry pv hpv e1
        omega
    · rw [if_neg hmem]
      rcases h6 with h6 | ⟨pv, hpv, e1, e2⟩
      · exact h6
      · obtain ⟨i, hi, _⟩ := hentry pv hpv e1
        exact absurd (List.mem_of_getElem? hi) hmem
  · have hsz := (foldMin_spec places (Array.replicate (maxv + 1) V.length) 0 (by simp)).1
    rw [List.getElem?_eq_none (by simp only [Array.length_toList, hsz, Array.size_replicate]; omega),
      List.getElem?_eq_none (by simp; omega)]

/-! ### wavelet matrix: the model's serialization -/

/-- the document's "minimal width necessary" is the `bit_len` of the code -/
theorem bitLength_eq_bitLen (x : Nat) (hx : x < 2 ^ 64) : bitLength x = bitLen (BitVec.ofNat 64 x) := by
  unfold bitLength
  by_cases h0 : x = 0
  · subst h0; rw [if_pos rfl]; exact bitLen_zero_int.symm
  · rw [if_neg h0]
    obtain ⟨s1, _, s3, s4⟩ := bitLen_spec_int (BitVec.ofNat 64 x)
    have hx' : (BitVec.ofNat 64 x).toNat = x := toNat_ofNat64 hx
    rw [hx'] at s3 s4
    have s4 := s4 (by intro h; rw [h] at hx'; exact h0 (by simpa using hx'.symm))
    have l1 := Nat.log2_self_le h0
    have l2 := @Nat.lt_log2_self x
    generalize bitLen (BitVec.ofNat 64 x) = B at *
    generalize x.log2 = L at *
    have a : B - 1 < L + 1 := (Nat.pow_lt_pow_iff_right (a := 2) (by omega)).1 (Nat.lt_of_le_of_lt s4 l2)
    have c : L < B := (Nat.pow_lt_pow_iff_right (a := 2) (by omega)).1 (Nat.lt_of_le_of_lt l1 s3)
    omega

/-- a packed non-empty `IntVector` is "bit-packed with the minimal width necessary" -/
theorem minimalWidth_pack {v : IntVec} (h : v.WF) (h0 : v.len ≠ 0) :
    minimalWidth v.pack.width v.pack.items = true := by
  obtain ⟨_, hitems, hwidth⟩ := IntVec.pack_spec h
  unfold minimalWidth
  rw [hitems, hwidth h0, bitLength_eq_bitLen _ (show v.items.foldl max 0 < 2 ^ 64 from IntVec.maxItem_lt h)]
  simp

theorem wmLevels_ser : ∀ (bs : List BitVector),
    (∀ b ∈ bs, bitVectorWF b ∧ b.ones = b.data.bits.count true) → ∀ rest : File,
    wmLevels bs.length (bs.flatMap bitVectorC.ser ++ rest) = some (bs.map (·.data.bits), rest)
  | [], _, _ => rfl
  | b :: bs, h, rest => by
    have hb := h b (List.mem_cons_self ..)
    rw [List.length_cons, List.flatMap_cons, List.append_assoc]
    simp only [wmLevels, bitVector_ser hb.1 hb.2, Option.bind_eq_bind, Option.bind_some,
      wmLevels_ser bs (fun b' hb' => h b' (List.mem_cons_of_mem _ hb')) rest, List.map_cons]

/-- (→) the serialization of a wavelet matrix core with serializable levels of one length is a `WMCore` of the
document, with the same bits on every level -/
theorem wmCore_ser {c : WMCore} (hw1 : 1 ≤ c.width) (hw : c.width ≤ 64)
    (hwf : ∀ b ∈ c.levels.toList, bitVectorWF b ∧ b.ones = b.data.bits.count true)
    (n : Nat) (hlen : ∀ b ∈ c.levels.toList, b.data.bits.length = n) (rest : File) :
    wmCore (wmCoreC.ser c ++ rest) = some (c.levels.toList.map (·.data.bits), rest) := by
  have hser : wmCoreC.ser c ++ rest =
      BitVec.ofNat 64 c.width :: (c.levels.toList.flatMap bitVectorC.ser ++ rest) := by simp [wmCoreC]
  have hwl : c.width = c.levels.toList.length := by simp [WMCore.width]
  unfold wmCore
  rw [hser]
  simp only [elem_cons, Option.bind_eq_bind, Option.bind_some, toNat_ofNat64 (show c.width < 2 ^ 64 by omega)]
  rw [if_neg (by omega)]
  conv => lhs; rw [hwl]
  rw [wmLevels_ser _ hwf rest]
  simp only [Option.bind_some]
  cases hl : c.levels.toList with
  | nil => rw [hl] at hwl; simp at hwl; omega
  | cons b0 bs =>
    rw [hl] at hlen
    simp only [List.map_cons]
    rw [if_pos]
    rw [List.all_eq_true]
    intro B hB
    rw [← List.map_cons (f := fun b : BitVector => b.data.bits)] at hB
    obtain ⟨b, hb, rfl⟩ := List.mem_map.mp hB
    simp only [beq_iff_eq]
    rw [hlen b hb, hlen b0 (List.mem_cons_self ..)]

open SupportProofs in
/-- a level as the builder makes it: serializable, right counter, the bits it was built from -/
theorem level_facts (B : List Bool) (hlen : B.length < 2 ^ 63) :
    bitVectorWF (BitVector.ofRaw (RawVec.ofBits B)).enableAll ∧
    (BitVector.ofRaw (RawVec.ofBits B)).enableAll.ones =
      (BitVector.ofRaw (RawVec.ofBits B)).enableAll.data.bits.count true ∧
    (BitVector.ofRaw (RawVec.ofBits B)).enableAll.data.bits = B := by
  have hl : (RawVec.ofBits B).len < 2 ^ 63 := by
    rw [← RawVec.bits_length, RawVec.bits_ofBits]; exact hlen
  have hsound := ofRaw_sound (RawVec.ofBits_WF B) hl
  refine ⟨enableAll_wf hsound (ofRaw_wf (RawVec.ofBits_WF B) hl), ?_, ?_⟩
  · exact hsound.enableRank.enableSelect.enableSelectZero.ones_eq
  · rw [enableAll_data]; exact RawVec.bits_ofBits B

/-- **(→, wavelet matrix).** The serialization of the wavelet matrix built from `V` is a plain wavelet matrix of the
document, and the document reads the items `V` from it: the walk down the levels, the `first` vector (positions
of first occurrences in the reordered vector, `len` for absent values, over the alphabet `0..=max V`) and its
minimal width are all as the document prescribes.
(`hfirst`: the `first` vector, one entry per value of the alphabet, fits a raw bitvector.) -/
theorem wm_ser_ofValues (V : List Nat) (hV : ∀ v ∈ V, v < 2 ^ 64) (hlen : V.length < 2 ^ 63)
    (hfirst : (V.foldl max 0 + 1) * 64 < 2 ^ 64) (rest : File) :
    wm (wmC.ser (WM.ofValues V) ++ rest) = some (V, rest) := by
  have hVw := lt_two_pow_widthOf V hV
  have hW1 := widthOf_pos V
  have hW := widthOf_le V
  -- the core
  have hcols : (WMCore.ofValues V).levels.toList.map (·.data.bits) =
      (List.range (widthOf V)).map (col (widthOf V) V) := by
    rw [ofValues_eq]
    simp only [List.map_map]
    apply List.map_congr_left
    intro l _
    exact (level_facts _ (by simp only [col, List.length_map, length_S]; exact hlen)).2.2
  have hcw : (WMCore.ofValues V).width = widthOf V := by rw [ofValues_eq]; simp [WMCore.width]
  have hcore : ∀ r : File, wmCore (wmCoreC.ser (WMCore.ofValues V) ++ r) =
      some ((List.range (widthOf V)).map (col (widthOf V) V), r) := by
    intro r
    rw [← hcols]
    apply wmCore_ser (by rw [hcw]; exact hW1) (by rw [hcw]; exact hW) _ V.length
    · intro b hb
      rw [ofValues_eq] at hb
      obtain ⟨l, _, rfl⟩ := List.mem_map.mp hb
      rw [(level_facts _ (by simp only [col, List.length_map, length_S]; exact hlen)).2.2]
      simp only [col, List.length_map, length_S]
    · intro b hb
      rw [ofValues_eq] at hb
      obtain ⟨l, _, rfl⟩ := List.mem_map.mp hb
      have := level_facts (col (widthOf V) V l) (by simp only [col, List.length_map, length_S]; exact hlen)
      exact ⟨this.1, this.2.1⟩
  -- the `first` vector
  obtain ⟨hsize, hget⟩ := startOffsetsRaw_ok (widthOf V) V hW1 hW hVw
  generalize hoffs : (startOffsetsRaw V V.length (V.foldl max 0)).toList = offs at *
  have hol : offs.length = V.foldl max 0 + 1 := by rw [← hoffs, Array.length_toList, hsize]
  have hoffs_eq : offs = (List.range (V.foldl max 0 + 1)).map fun v =>
      if v ∈ V then firstPos (widthOf V) V v else V.length := by
    apply List.ext_getElem?
    intro v
    by_cases hv : v < V.foldl max 0 + 1
    · rw [← hoffs, Array.getElem?_toList, hget v (by omega), List.getElem?_map, List.getElem?_range hv]; rfl
    · rw [List.getElem?_eq_none (by omega), List.getElem?_eq_none (by simp; omega)]
  have hox : ∀ x ∈ offs, x < 2 ^ 64 := by
    intro x hx
    rw [hoffs_eq] at hx
    obtain ⟨v, _, rfl⟩ := List.mem_map.mp hx
    have : firstPos (widthOf V) V v ≤ V.length := List.countP_le_length
    split <;> omega
  obtain ⟨owf, owidth, _⟩ := IntVec.ofList_spec 64 offs (by decide) (by decide)
  have oitems := IntVec.ofList_items_of_lt 64 offs (by decide) (by decide) hox
  have olen : (IntVec.ofList 64 offs).len = offs.length := by rw [← IntVec.items_length, oitems]
  obtain ⟨pwf, pitems, _⟩ := IntVec.pack_spec owf
  have plen : (IntVec.ofList 64 offs).pack.len = offs.length := by rw [IntVec.pack_len, olen]
  have hmin := minimalWidth_pack owf (by rw [olen, hol]; omega)
  have hF : WM.startOffsets V V.length (V.foldl max 0) = (IntVec.ofList 64 offs).pack := by
    rw [startOffsets_eq, hoffs]
  have hfirstV : ∀ r : File, intVector (intVecC.ser (IntVec.ofList 64 offs).pack ++ r) =
      some (((IntVec.ofList 64 offs).pack.width, offs), r) := by
    intro r
    have := intVector_ser pwf (by rw [plen, hol]; omega)
      (by rw [pwf.2.2.1, plen, hol]
          exact Nat.lt_of_le_of_lt (Nat.mul_le_mul_left _ pwf.2.1) hfirst) r
    rw [this, pitems, oitems]
  -- put the file together
  have hser : wmC.ser (WM.ofValues V) ++ rest = BitVec.ofNat 64 V.length ::
      (wmCoreC.ser (WMCore.ofValues V) ++ (intVecC.ser (IntVec.ofList 64 offs).pack ++ rest)) := by
    rw [← hF]; simp [wmC, WM.ofValues]
  unfold wm
  rw [hser]
  simp only [elem_cons, Option.bind_eq_bind, Option.bind_some, toNat_ofNat64 (show V.length < 2 ^ 64 by omega),
    hcore, hfirstV]
  have hany : ((List.range (widthOf V)).map (col (widthOf V) V)).any (fun B => B.length != V.length) = false := by
    rw [List.any_eq_false]
    intro B hB
    obtain ⟨l, _, rfl⟩ := List.mem_map.mp hB
    simp [col, length_S]
  rw [hany]
  simp only [Bool.false_eq_true, if_false]
  rw [if_pos ⟨by rw [wmFirst_cols _ V hVw]; exact hoffs_eq, by rw [pitems, oitems] at hmin; exact hmin⟩]
  have := wmItems_cols (widthOf V) V hVw
  unfold wmItems at this
  rw [this]

/-! ### run-length encoded bitvector: the document's decoder on a conforming layout -/

open RLBuilder (encodeUnits)

theorem drop_cons_facts {l : List Nat} {p c : Nat} {tl : List Nat} (h : l.drop p = c :: tl) :
    l[p]? = some c ∧ l.drop (p + 1) = tl := by
  constructor
  · have := congrArg (fun x => x[0]?) h
    simpa [List.getElem?_drop] using this
  · have : l.drop (p + 1) = (l.drop p).drop 1 := by rw [List.drop_drop]
    rw [this, h]; rfl

theorem rlInt_encode (U : Array Nat) (stop : Nat) : ∀ (f v fuel pos shift acc : Nat) (rest : List Nat),
    v < 8 ^ (f + 1) → U.toList.drop pos = encodeUnits (f + 1) v ++ rest →
    pos + (encodeUnits (f + 1) v).length ≤ stop → (encodeUnits (f + 1) v).length ≤ fuel →
    rlInt U stop fuel pos shift acc = some (acc + v <<< shift, pos + (encodeUnits (f + 1) v).length) := by
  intro f
  induction f with
  | zero =>
    intro v fuel pos shift acc rest hv hd hs hf
    have hv7 : ¬ v > 7 := by omega
    have he : encodeUnits 1 v = [v] := by simp [encodeUnits, hv7]
    rw [he] at hd hs hf ⊢
    obtain ⟨h0, _⟩ := drop_cons_facts hd
    cases fuel with
    | zero => simp at hf
    | succ fuel =>
      simp only [List.length_cons, List.length_nil] at hs ⊢
      rw [rlInt, if_neg (by omega)]
      have hu : U[pos]?.getD 0 = v := by rw [← Array.getElem?_toList, h0]; rfl
      simp only [hu]
      rw [if_neg (by omega), Nat.mod_eq_of_lt (by omega)]
  | succ f ih =>
    intro v fuel pos shift acc rest hv hd hs hf
    by_cases hv7 : v > 7
    · have he : encodeUnits (f + 2) v = (v % 8 + 8) :: encodeUnits (f + 1) (v / 8) := by
        rw [encodeUnits, if_pos hv7]
      rw [he] at hd hs hf ⊢
      obtain ⟨h0, h1⟩ := drop_cons_facts hd
      cases fuel with
      | zero => simp at hf
      | succ fuel =>
        simp only [List.length_cons] at hs hf ⊢
        rw [rlInt, if_neg (by omega)]
        have hu : U[pos]?.getD 0 = v % 8 + 8 := by rw [← Array.getElem?_toList, h0]; rfl
        simp only [hu]
        rw [if_pos (by omega)]
        have hv' : v / 8 < 8 ^ (f + 1) := by
          rw [Nat.div_lt_iff_lt_mul (by decide)]; rw [Nat.pow_succ] at hv; exact hv
        rw [ih (v / 8) fuel (pos + 1) (shift + 3) _ rest hv' h1 (by omega) (by omega)]
        congr 2
        · rw [show (v % 8 + 8) % 8 = v % 8 by omega, Nat.add_assoc]
          congr 1
          simp only [Nat.shiftLeft_eq, Nat.pow_add]
          have := Nat.mod_add_div v 8
          generalize 2 ^ shift = s at *
          calc v % 8 * s + v / 8 * (s * 2 ^ 3) = (v % 8 + 8 * (v / 8)) * s := by
                rw [Nat.add_mul]; congr 1; rw [Nat.mul_comm s, ← Nat.mul_assoc, Nat.mul_comm (v/8)]
            _ = v * s := by rw [this]
        · omega
    · have he : encodeUnits (f + 2) v = [v] := by rw [encodeUnits, if_neg hv7]
      rw [he] at hd hs hf ⊢
      obtain ⟨h0, _⟩ := drop_cons_facts hd
      cases fuel with
      | zero => simp at hf
      | succ fuel =>
        simp only [List.length_cons, List.length_nil] at hs ⊢
        rw [rlInt, if_neg (by omega)]
        have hu : U[pos]?.getD 0 = v := by rw [← Array.getElem?_toList, h0]; rfl
        simp only [hu]
        rw [if_neg (by omega), Nat.mod_eq_of_lt (by omega)]

theorem encodeUnits_length_bounds : ∀ (f v : Nat),
    1 ≤ (encodeUnits (f + 1) v).length ∧ (encodeUnits (f + 1) v).length ≤ f + 1
  | 0, v => by
    rw [encodeUnits]; split <;> simp [encodeUnits]
  | f + 1, v => by
    rw [encodeUnits]; split
    · have := encodeUnits_length_bounds f (v / 8)
      simp only [List.length_cons]; omega
    · simp

/-- the code units of one run: `(n0, n1 - 1)` -/
def runUnits (g l : Nat) : List Nat := encodeUnits 23 g ++ encodeUnits 23 (l - 1)

theorem runUnits_length (g l : Nat) : 2 ≤ (runUnits g l).length ∧ (runUnits g l).length ≤ 46 := by
  have h1 : 1 ≤ (encodeUnits 23 g).length ∧ (encodeUnits 23 g).length ≤ 23 := encodeUnits_length_bounds 22 g
  have h2 : 1 ≤ (encodeUnits 23 (l - 1)).length ∧ (encodeUnits 23 (l - 1)).length ≤ 23 :=
    encodeUnits_length_bounds 22 (l - 1)
  unfold runUnits; rw [List.length_append]; omega

/-- the document's reading of one run written with the code of the model -/
theorem rlRun_units (U : Array Nat) (stop pos g l : Nat) (rest : List Nat) (hg : g < 2 ^ 64) (hl1 : 1 ≤ l)
    (hl : l - 1 < 2 ^ 64) (hd : U.toList.drop pos = runUnits g l ++ rest)
    (hs : pos + (runUnits g l).length ≤ stop) :
    rlRun U stop pos = some (g, l, pos + (runUnits g l).length) := by
  have h823 : (2 : Nat) ^ 64 ≤ 8 ^ 23 := by decide
  have b1 : 1 ≤ (encodeUnits 23 g).length ∧ (encodeUnits 23 g).length ≤ 23 := encodeUnits_length_bounds 22 g
  have b2 : 1 ≤ (encodeUnits 23 (l - 1)).length ∧ (encodeUnits 23 (l - 1)).length ≤ 23 :=
    encodeUnits_length_bounds 22 (l - 1)
  unfold runUnits at hd hs ⊢
  rw [List.length_append] at hs ⊢
  rw [List.append_assoc] at hd
  have e1 : rlInt U stop 64 pos 0 0 = some (0 + g <<< 0, pos + (encodeUnits 23 g).length) :=
    rlInt_encode U stop 22 g 64 pos 0 0 _ (by omega) hd (show pos + (encodeUnits 23 g).length ≤ stop by omega)
      (show (encodeUnits 23 g).length ≤ 64 by omega)
  have hd2 : U.toList.drop (pos + (encodeUnits 23 g).length) = encodeUnits 23 (l - 1) ++ rest := by
    rw [← List.drop_drop, hd, List.drop_left]
  have e2 : rlInt U stop 64 (pos + (encodeUnits 23 g).length) 0 0 =
      some (0 + (l - 1) <<< 0, pos + (encodeUnits 23 g).length + (encodeUnits 23 (l - 1)).length) :=
    rlInt_encode U stop 22 (l - 1) 64 (pos + (encodeUnits 23 g).length) 0 0 _ (by omega) hd2
      (show pos + (encodeUnits 23 g).length + (encodeUnits 23 (l - 1)).length ≤ stop by omega)
      (show (encodeUnits 23 (l - 1)).length ≤ 64 by omega)
  unfold rlRun
  simp only [e1, e2, Option.bind_eq_bind, Option.bind_some, Nat.shiftLeft_zero, Nat.zero_add]
  congr 3 <;> omega

/-- runs relative to their predecessor: `(n0, n1)` -/
def lens : List (Nat × Nat) → Nat
  | [] => 0
  | p :: rs => p.2 + lens rs

def span : List (Nat × Nat) → Nat
  | [] => 0
  | p :: rs => p.1 + p.2 + span rs

def unitsOf : List (Nat × Nat) → List Nat
  | [] => []
  | p :: rs => runUnits p.1 p.2 ++ unitsOf rs

/-- absolute `(start, length)` of relative runs, `n` bits being encoded before them -/
def absRuns : Nat → List (Nat × Nat) → List (Nat × Nat)
  | _, [] => []
  | n, p :: rs => (n + p.1, p.2) :: absRuns (n + p.1 + p.2) rs

/-- "maximal runs": only the very first run of the vector may follow zero unset bits -/
def GapsOk : Nat → List (Nat × Nat) → Prop
  | _, [] => True
  | n, p :: rs => (p.1 = 0 → n = 0) ∧ GapsOk (n + p.1 + p.2) rs

def RunsOk (blk : List (Nat × Nat)) : Prop := ∀ p ∈ blk, p.1 < 2 ^ 64 ∧ 1 ≤ p.2 ∧ p.2 - 1 < 2 ^ 64

/-- the document's reading of the runs of one block -/
theorem rlBlockRuns_units (U : Array Nat) (stop : Nat) : ∀ (blk : List (Nat × Nat)) (fuel pos n n1 : Nat)
    (rest : List Nat), RunsOk blk → GapsOk n blk → U.toList.drop pos = unitsOf blk ++ rest →
    pos + (unitsOf blk).length ≤ stop → blk.length < fuel →
    rlBlockRuns U stop (n1 + lens blk) fuel pos n n1 =
      some (absRuns n blk, pos + (unitsOf blk).length, n + span blk)
  | [], fuel, pos, n, n1, rest, _, _, _, _, hf => by
    cases fuel with
    | zero => simp at hf
    | succ fuel => simp [rlBlockRuns, lens, absRuns, unitsOf, span]
  | p :: rs, fuel, pos, n, n1, rest, hr, hg, hd, hs, hf => by
    cases fuel with
    | zero => simp at hf
    | succ fuel =>
      obtain ⟨h1, h2, h3⟩ := hr p (List.mem_cons_self ..)
      have hru := runUnits_length p.1 p.2
      simp only [unitsOf, List.length_append] at hs hd
      rw [List.append_assoc] at hd
      have hrun := rlRun_units U stop pos p.1 p.2 _ h1 h2 h3 hd (by omega)
      have hd' : U.toList.drop (pos + (runUnits p.1 p.2).length) = unitsOf rs ++ rest := by
        rw [← List.drop_drop, hd, List.drop_left]
      have ih := rlBlockRuns_units U stop rs fuel (pos + (runUnits p.1 p.2).length) (n + p.1 + p.2)
        (n1 + p.2) rest (fun q hq => hr q (List.mem_cons_of_mem _ hq)) hg.2 hd' (by omega)
        (by simpa using hf)
      have ht : n1 + lens (p :: rs) = n1 + p.2 + lens rs := by simp only [lens]; omega
      rw [rlBlockRuns, if_neg (by simp only [lens]; omega), if_neg (by simp only [lens]; omega)]
      simp only [hrun, Option.bind_eq_bind, Option.bind_some]
      rw [if_neg (by intro hc; have := hg.1 hc.1; exact hc.2 this), ht, ih]
      simp only [Option.bind_some, absRuns, unitsOf, span, List.length_append]
      congr 3 <;> omega

theorem lens_append (a b : List (Nat × Nat)) : lens (a ++ b) = lens a + lens b := by
  induction a with
  | nil => simp [lens]
  | cons p rs ih => simp only [List.cons_append, lens, ih]; omega

theorem span_append (a b : List (Nat × Nat)) : span (a ++ b) = span a + span b := by
  induction a with
  | nil => simp [span]
  | cons p rs ih => simp only [List.cons_append, span, ih]; omega

theorem absRuns_append (n : Nat) (a b : List (Nat × Nat)) :
    absRuns n (a ++ b) = absRuns n a ++ absRuns (n + span a) b := by
  induction a generalizing n with
  | nil => simp [absRuns, span]
  | cons p rs ih =>
    simp only [List.cons_append, absRuns, span, ih]
    congr 3; omega

theorem unitsOf_length_ge (blk : List (Nat × Nat)) : 2 * blk.length ≤ (unitsOf blk).length := by
  induction blk with
  | nil => simp [unitsOf]
  | cons p rs ih =>
    have := (runUnits_length p.1 p.2).1
    simp only [unitsOf, List.length_append, List.length_cons]; omega

/-- a layout of the code units `U` and the samples `S` in blocks `bl` (runs relative to their predecessor) that
conforms to the document: block `b` starts at unit `64 * b`, its sample is `(n1, n)`, its runs are maximal, it
consists of entire runs, it is padded with `0` units only when it is not the final block and the first run of
the next block does not fit, and the final block ends with its last run -/
def RLConf (U S : Array Nat) (ones nb : Nat) : Nat → Nat → Nat → List (List (Nat × Nat)) → Prop
  | b, _, _, [] => nb ≤ b
  | b, n, n1, blk :: more =>
    b < nb ∧ S[2 * b]?.getD 0 = n1 ∧ S[2 * b + 1]?.getD 0 = n ∧ RunsOk blk ∧ GapsOk n blk ∧
    (∃ rest, U.toList.drop (64 * b) = unitsOf blk ++ rest) ∧
    64 * b + (unitsOf blk).length ≤ min (64 * b + 64) U.size ∧
    (if b + 1 ≥ nb then
      ones = n1 + lens blk ∧ 64 * b + (unitsOf blk).length = min (64 * b + 64) U.size
     else
      S[2 * (b + 1)]?.getD 0 = n1 + lens blk ∧
      (∀ k, k < min (64 * b + 64) U.size - (64 * b + (unitsOf blk).length) →
        U[64 * b + (unitsOf blk).length + k]?.getD 0 = 0) ∧
      (64 * b + (unitsOf blk).length = min (64 * b + 64) U.size ∨
        ∃ p rs more', more = (p :: rs) :: more' ∧
          min (64 * b + 64) U.size - (64 * b + (unitsOf blk).length) < (runUnits p.1 p.2).length)) ∧
    RLConf U S ones nb (b + 1) (n + span blk) (n1 + lens blk) more

/-- **the document's decoder on a conforming layout** returns the runs, the number of bits and of set bits -/
theorem rlBlocks_conf (U S : Array Nat) (ones nb : Nat) : ∀ (bl : List (List (Nat × Nat))) (fuel b n n1 : Nat),
    RLConf U S ones nb b n n1 bl → bl.length < fuel →
    rlBlocks U S ones nb fuel b n n1 =
      some (absRuns n bl.flatten, n + span bl.flatten, n1 + lens bl.flatten)
  | [], fuel, b, n, n1, hc, hf => by
    cases fuel with
    | zero => simp at hf
    | succ fuel =>
      have : nb ≤ b := hc
      simp [rlBlocks, this, absRuns, span, lens]
  | blk :: more, fuel, b, n, n1, hc, hf => by
    cases fuel with
    | zero => simp at hf
    | succ fuel =>
      obtain ⟨hb, hs1, hs2, hro, hgo, ⟨rest, hd⟩, hle, hfin, hmore⟩ := hc
      have ih := rlBlocks_conf U S ones nb more fuel (b + 1) (n + span blk) (n1 + lens blk) hmore
        (by simpa using hf)
      have hlen := unitsOf_length_ge blk
      have htarget : (if decide (b + 1 ≥ nb) = true then ones else S[2 * (b + 1)]?.getD 0) = n1 + lens blk := by
        by_cases hfb : b + 1 ≥ nb
        · rw [if_pos hfb] at hfin; simp only [hfb, decide_true, if_true]; exact hfin.1
        · rw [if_neg hfb] at hfin; simp only [hfb, decide_false, Bool.false_eq_true, if_false]; exact hfin.1
      have hruns := rlBlockRuns_units U (min (64 * b + 64) U.size) blk 64 (64 * b) n n1 rest hro hgo hd hle
        (by omega)
      rw [rlBlocks, if_neg (by omega), if_neg (by rw [hs1, hs2]; simp)]
      simp only [htarget, hruns]
      rw [if_neg, ih]
      · simp only [List.flatten_cons, absRuns_append, span_append, lens_append]
        congr 3 <;> omega
      · rw [Bool.not_eq_true', Bool.not_eq_false]
        by_cases hfb : b + 1 ≥ nb
        · rw [if_pos hfb] at hfin
          simp only [hfb, decide_true, if_true, hfin.2]
        · rw [if_neg hfb] at hfin
          obtain ⟨_, hz, hfit⟩ := hfin
          simp only [hfb, decide_false, Bool.false_eq_true, if_false]
          rw [Bool.and_eq_true]
          constructor
          · rw [List.all_eq_true]
            intro k hk
            simp [hz k (List.mem_range.mp hk)]
          · rcases hfit with heq | ⟨p, rs, more', rfl, hlt⟩
            · simp [heq]
            · obtain ⟨_, _, _, hro', _, ⟨rest', hd'⟩, hle', _, _⟩ := hmore
              have hru := runUnits_length p.1 p.2
              simp only [unitsOf, List.length_append] at hle' hd'
              rw [List.append_assoc] at hd'
              have hstop : min (64 * b + 64) U.size = 64 * (b + 1) := by omega
              obtain ⟨q1, q2, q3⟩ := hro' p (List.mem_cons_self ..)
              have hrr := rlRun_units U (min (64 * (b + 1) + 64) U.size) (64 * (b + 1)) p.1 p.2 _ q1 q2 q3 hd'
                (by omega)
              rw [hstop] at hlt ⊢
              rw [hrr]
              simp only [Bool.or_eq_true, beq_iff_eq, decide_eq_true_eq]
              right; omega

/-- **(→, run-length encoded bitvector, relative to a conforming layout).**  If the two integer vectors of a
serialized `RLVector` are well formed, the samples have the minimal width, and the code units and samples are
laid out in blocks `bl` as the document says (`RLConf`), then the serialization is a run-length encoded
bitvector of the document and the document reads the length and the runs of `bl` from it. -/
theorem rl_ser_of_conf (m : Mode) (v : RL) (hlen : v.len < 2 ^ 64) (hones : v.ones < 2 ^ 64)
    (hs : intVecWF v.samples) (hd : intVecWF v.data) (hw : v.data.width = 4)
    (hsl : v.samples.len = 2 * ((v.data.len + 63) / 64))
    (hmin : minimalWidth v.samples.width v.samples.items = true)
    (bl : List (List (Nat × Nat)))
    (hconf : RLConf v.data.items.toArray v.samples.items.toArray v.ones ((v.data.len + 63) / 64) 0 0 0 bl)
    (hl : lens bl.flatten = v.ones) (hn : span bl.flatten ≤ v.len) (rest : File) :
    rl ((rlC m).ser v ++ rest) = some ((v.len, absRuns 0 bl.flatten), rest) := by
  have hser : (rlC m).ser v ++ rest = BitVec.ofNat 64 v.len :: BitVec.ofNat 64 v.ones ::
      (intVecC.ser v.samples ++ (intVecC.ser v.data ++ rest)) := by simp [rlC]
  have hblen : bl.length < (v.data.len + 63) / 64 + 1 := by
    -- every block of the layout has its own index below the number of blocks
    have : ∀ (bl : List (List (Nat × Nat))) (b n n1 : Nat),
        RLConf v.data.items.toArray v.samples.items.toArray v.ones ((v.data.len + 63) / 64) b n n1 bl →
        b + bl.length ≤ max b ((v.data.len + 63) / 64) := by
      intro bl
      induction bl with
      | nil => intro b n n1 _; simp only [List.length_nil]; omega
      | cons blk more ih =>
        intro b n n1 h
        have h1 := h.1
        have := ih _ _ _ h.2.2.2.2.2.2.2.2
        simp only [List.length_cons]; omega
    have := this bl 0 0 0 hconf
    omega
  have hb := rlBlocks_conf _ _ _ _ bl ((v.data.len + 63) / 64 + 1) 0 0 0 hconf hblen
  unfold rl
  rw [hser]
  simp only [elem_cons, Option.bind_eq_bind, Option.bind_some, toNat_ofNat64 hlen, toNat_ofNat64 hones,
    intVector_ser hs.1 hs.2.1 hs.2.2.2, intVector_ser hd.1 hd.2.1 hd.2.2.2, IntVec.items_length, hw]
  rw [if_neg (by rw [hsl, hmin]; simp)]
  simp only [hb, Option.bind_some, Nat.zero_add]
  rw [if_pos ⟨hl, hn⟩]


/-- sanity check of `RLConf`: the one-block layout of the vector `111` (units `0, 2`, sample `(0, 0)`) conforms -/
example : RLConf #[0, 2] #[0, 0] 3 1 0 0 0 [[(0, 3)]] := by
  refine ⟨by decide, by decide, by decide, ?_, ⟨fun _ => rfl, trivial⟩, ⟨[], by decide⟩, by decide, ?_, ?_⟩
  · intro p hp
    simp only [List.mem_cons, List.not_mem_nil, or_false] at hp
    subst hp
    decide
  · rw [if_pos (by decide)]
    exact ⟨by decide, by decide⟩
  · show 1 ≤ 1
    decide

end Doc

/-! ### not proven

1. (→, run-length encoded bitvector, unconditional)
     theorem rl_ser_ofBuilder (m : Mode) (calls …) (v : RL) (h : <v is `RL.ofBuilder m b` for a builder `b` reached from
       `{}` by accepted `try_set` calls, then `flush`>) (rest) :
       Doc.rl ((rlC m).ser v ++ rest) = some ((v.len, <the runs set>), rest)
   What is proven is the document side (`Doc.rl_ser_of_conf`): it suffices to exhibit a block layout `bl` with
   `Doc.RLConf v.data.items v.samples.items v.ones nb 0 0 0 bl`.  Missing is the model side, a builder invariant
   stronger than `RLBuilder.Inv` of Proofs/RL.lean saying that after `flush`
     * the data items are `unitsOf blk ++ zeros` block by block (the padding written by `IntVec.resize … 0` is `0`
       and is only written when `data.len + units > 64 * samples.size`, i.e. "the next run does not fit"),
     * the pushed sample of block `b` is `(ones, bits)` encoded before it, every flushed gap after the first is ≥ 1
       (`trySet` extends the pending run when `start = len`), the last block ends with its last run,
     * `intVecWF` of `samples` / `data`, `data.width = 4`, and `samples.width = bitLen (last sample)` is the bit
       length of the largest item (samples are monotone), hence `Doc.minimalWidth`.
   Proofs/RL.lean (which has `Inv`, `flush_spec`, `encode_spec`, `Layout`; its `Layout` deliberately says nothing
   about what follows the codes inside a block) does not compile in this copy of the project (a `decide` near
   its end fails), so it could not even be imported; `Doc.runUnits`/`unitsOf`/`absRuns` above are stated with
   the same shapes as `RunIter.runUnits`/`unitsOf`/`absRuns` there to make the connection a matter of `rfl`.

2. (←) for the compressed structures:
     Doc.sparse es = some ((n, P), rest) → (supports of `high` absent, `w ≤ 63`, `P.length < 2^63`) →
       ∃ s, sparseC.load es = ok (s, rest) ∧ s.Encodes n w P
     Doc.rl es = some ((len, runs), rest) → ∃ v, (rlC m).load es = ok (v, rest) ∧ <v answers per `runs`>
     Doc.wm es = some (V, rest) → (supports absent) → ∃ w, wmC.load es = ok (w, rest) ∧ w.Ok V width
   Missing for sparse: `highBits_unique` applied to the decoded `high` (from `H.count false = ⌈n/2^w⌉`, no trailing
   one and the values formula) and `selectQ_build`/`selectZeroQ_build` for the supports the loader enables.
   For rl the loader additionally builds three `SampleIndex`es whose `new` asserts (panics on) monotonicity —
   the document's validity rules imply these, but that needs `SampleIndex.new_valid`-style lemmas (Proofs/RL).

3. (←, bitvector) with supports present cannot hold as stated: `Doc.bitVector` skips the optional structures by
   their lengths, while `bitVectorC.load` parses and validates them; a file with garbage of the announced
   length is a valid file of the document and is refused by the loader.  `Doc.bitVector_eq_some` states exactly
   what the document-side acceptance gives.

4. (→, sparse) is stated for the vectors built by `Sparse.ofValues` (`SparseFacts` is what is needed beyond
   `Sparse.Encodes`, which by design constrains `high` only through its query interface and says nothing about
   the well-formedness of `low`), under `P.length + getBuckets n w < 2^63` (so that the select supports of `high`
   are serializable: `selBuild_wf` needs it) and `P.length * w < 2^64`.
-/

end Sds
