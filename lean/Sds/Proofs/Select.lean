/-
Proofs/Select: the select support (`SelSup`, Clark-style: superblocks of 4096 set bits, long / short
superblocks) answers `select` correctly on the transformed vector (`Tr.ident` = select on ones,
`Tr.compl` = select on zeros).

Contents: select in a bit list; the transformed vector bit by bit (`bitT`) and word by word (`wordT_ok`);
in-word select; the word scan (`scan_ok`); the validity predicate `SelSup.Valid` on the item lists of the three
integer vectors; correctness of the query for every valid support (`selectU_ok`); integer vectors as lists
(`items_push`, `pack_items`); validity of the built support (`build_valid`); the public wrappers.
-/
import Sds.Proofs.Rank
import Sds.Proofs.Round
set_option linter.unusedSimpArgs false
set_option linter.unusedVariables false

namespace Sds
open Outcome


/-! ### in-list select -/

theorem selectBits_spec_sel (B : List Bool) : ∀ (r p : Nat),
    selectBits B r = some p ↔ p < B.length ∧ B[p]? = some true ∧ (B.take p).count true = r := by
  induction B with
  | nil => intro r p; simp [selectBits]
  | cons b bs ih =>
    intro r p
    cases b with
    | true =>
      cases r with
      | zero =>
        cases p with
        | zero => simp [selectBits]
        | succ q => simp [selectBits, List.take_succ_cons, List.count_cons]
      | succ r =>
        cases p with
        | zero => simp [selectBits]
        | succ q =>
          simp only [selectBits, Option.map_eq_some_iff, List.length_cons, List.getElem?_cons_succ,
            List.take_succ_cons, List.count_cons, beq_self_eq_true, if_true]
          constructor
          · rintro ⟨a, ha, hq⟩
            have : a = q := by omega
            subst this
            obtain ⟨h1, h2, h3⟩ := (ih r a).mp ha
            exact ⟨by omega, h2, by omega⟩
          · rintro ⟨h1, h2, h3⟩
            exact ⟨q, (ih r q).mpr ⟨by omega, h2, by omega⟩, rfl⟩
    | false =>
      cases p with
      | zero => simp [selectBits]
      | succ q =>
        simp only [selectBits, Option.map_eq_some_iff, List.length_cons, List.getElem?_cons_succ,
          List.take_succ_cons, List.count_cons]
        constructor
        · rintro ⟨a, ha, hq⟩
          have : a = q := by omega
          subst this
          obtain ⟨h1, h2, h3⟩ := (ih r a).mp ha
          exact ⟨by omega, h2, by simpa using h3⟩
        · rintro ⟨h1, h2, h3⟩
          exact ⟨q, (ih r q).mpr ⟨by omega, h2, by simpa using h3⟩, rfl⟩

theorem selectBits_onesFrom (B : List Bool) : ∀ (s r : Nat),
    (selectBits B r).map (· + s) = (onesFrom B s)[r]? := by
  induction B with
  | nil => intro s r; simp [selectBits, onesFrom]
  | cons b bs ih =>
    intro s r
    cases b with
    | true =>
      cases r with
      | zero => simp [selectBits, onesFrom]
      | succ r =>
        simp only [selectBits, onesFrom, List.getElem?_cons_succ, ← ih (s + 1) r, Option.map_map]
        congr 1; funext x; simp only [Function.comp]; omega
    | false =>
      simp only [selectBits, onesFrom, ← ih (s + 1) r, Option.map_map]
      congr 1; funext x; simp only [Function.comp]; omega

theorem length_onesFrom (B : List Bool) : ∀ s, (onesFrom B s).length = B.count true := by
  induction B with
  | nil => intro s; rfl
  | cons b bs ih => intro s; cases b <;> simp [onesFrom, ih, List.count_cons]

theorem length_onesPos (B : List Bool) : (onesPos B).length = B.count true := length_onesFrom B 0

/-- `selectSpec` is indexing into the list of positions of the set bits -/
theorem selectSpec_eq_onesPos (B : List Bool) (r : Nat) : selectSpec B r = (onesPos B)[r]? := by
  have := selectBits_onesFrom B 0 r
  simpa [selectSpec, onesPos] using this

theorem selectSpec_isSome (B : List Bool) (r : Nat) (h : r < B.count true) : ∃ p, selectSpec B r = some p := by
  rw [selectSpec_eq_onesPos]
  exact ⟨(onesPos B)[r]'(by rw [length_onesPos]; exact h), List.getElem?_eq_getElem _⟩

theorem selectSpec_eq_none (B : List Bool) (r : Nat) (h : B.count true ≤ r) : selectSpec B r = none := by
  rw [selectSpec_eq_onesPos]
  exact List.getElem?_eq_none (by rw [length_onesPos]; exact h)

theorem selectBits_append (A B : List Bool) : ∀ r,
    selectBits (A ++ B) r =
      if r < A.count true then selectBits A r else (selectBits B (r - A.count true)).map (· + A.length) := by
  induction A with
  | nil => intro r; simp
  | cons a as ih =>
    intro r
    cases a with
    | true =>
      cases r with
      | zero => simp [selectBits]
      | succ r =>
        simp only [List.cons_append, selectBits, ih r, List.count_cons, beq_self_eq_true, if_true,
          List.length_cons, Nat.add_lt_add_iff_right, Nat.add_sub_add_right]
        split
        · rfl
        · rw [Option.map_map]; congr 1
    | false =>
      simp only [List.cons_append, selectBits, ih r, List.count_cons, List.length_cons]
      simp only [show (false == true) = false from rfl, Bool.false_eq_true, if_false, Nat.add_zero]
      split
      · rfl
      · rw [Option.map_map]; congr 1

theorem getElem?_map_range (f : Nat → Bool) (n p : Nat) :
    ((List.range n).map f)[p]? = if p < n then some (f p) else none := by
  by_cases h : p < n
  · simp [h]
  · simp [h]

/-- select in a bit list given by a function: position `p` has rank `r` among the set bits -/
theorem selectBits_map_range (f : Nat → Bool) (n r p : Nat) :
    selectBits ((List.range n).map f) r = some p ↔ p < n ∧ f p = true ∧ cnt f p = r := by
  rw [selectBits_spec_sel, getElem?_map_range]
  simp only [List.length_map, List.length_range]
  constructor
  · rintro ⟨h1, h2, h3⟩
    rw [if_pos h1] at h2
    rw [count_take_map_range _ _ _ (Nat.le_of_lt h1)] at h3
    exact ⟨h1, Option.some.inj h2, h3⟩
  · rintro ⟨h1, h2, h3⟩
    rw [if_pos h1, count_take_map_range _ _ _ (Nat.le_of_lt h1), h2]
    exact ⟨h1, rfl, h3⟩

/-! ### counting: monotonicity -/

theorem cnt_succ (f : Nat → Bool) (n : Nat) : cnt f (n + 1) = cnt f n + (if f n then 1 else 0) := by
  rw [cnt_add]
  congr 1
  unfold cnt
  cases h : f n <;> simp [h]

theorem cnt_mono (f : Nat → Bool) {a b : Nat} (h : a ≤ b) : cnt f a ≤ cnt f b := by
  obtain ⟨c, rfl⟩ : ∃ c, b = a + c := ⟨b - a, by omega⟩
  rw [cnt_add]; omega

theorem cnt_lt_of_true (f : Nat → Bool) {p q : Nat} (hp : f p = true) (h : p < q) : cnt f p < cnt f q := by
  have h1 := cnt_succ f p
  rw [hp] at h1
  have h2 := cnt_mono f (show p + 1 ≤ q from h)
  simp at h1
  omega

/-- a set position is determined by its rank -/
theorem pos_le_of_cnt_le (f : Nat → Bool) {p q : Nat} (hp : f p = true)
    (h : cnt f p ≤ cnt f q) (hq : f q = true) : p ≤ q := by
  by_cases hlt : q < p
  · have h1 := cnt_lt_of_true f hq hlt
    by_cases he : cnt f p = cnt f q
    · omega
    · omega
  · omega

/-! ### the transformed vector, bit by bit and word by word -/

/-- bit `j` of the transformed vector (false past the end) -/
def bitT (tr : Tr) (v : RawVec) (j : Nat) : Bool :=
  decide (j < v.len) && (getBit v.data j != (tr == Tr.compl))

theorem bitsT_eq (tr : Tr) (v : RawVec) : bitsT tr v.bits = (List.range v.len).map (bitT tr v) := by
  unfold bitsT RawVec.bits
  cases tr
  · apply List.map_congr_left
    intro i hi
    have := List.mem_range.mp hi
    simp [bitT, this, show (Tr.ident == Tr.compl) = false from rfl]
  · rw [List.map_map]
    apply List.map_congr_left
    intro i hi
    have := List.mem_range.mp hi
    simp [bitT, this, show (Tr.compl == Tr.compl) = true from rfl]

theorem length_bitsT (tr : Tr) (v : RawVec) : (bitsT tr v.bits).length = v.len := by
  rw [bitsT_eq]; simp

theorem bitsT_getD (tr : Tr) (v : RawVec) (j : Nat) : (bitsT tr v.bits)[j]?.getD false = bitT tr v j := by
  rw [bitsT_eq, getElem?_map_range]
  by_cases h : j < v.len
  · simp [h]
  · simp [h, bitT]

theorem bitT_lt {tr : Tr} {v : RawVec} {j : Nat} (h : bitT tr v j = true) : j < v.len := by
  unfold bitT at h
  simp only [Bool.and_eq_true, decide_eq_true_eq] at h
  exact h.1

theorem bitT_of_ge (tr : Tr) (v : RawVec) (j : Nat) (h : v.len ≤ j) : bitT tr v j = false := by
  have : ¬ j < v.len := by omega
  simp [bitT, this]

theorem rankSpec_bitsT (tr : Tr) (v : RawVec) (i : Nat) : rankSpec (bitsT tr v.bits) i = cnt (bitT tr v) i := by
  by_cases h : i ≤ v.len
  · unfold rankSpec
    rw [bitsT_eq, count_take_map_range _ _ _ h]
  · rw [rankSpec_of_ge _ _ (by rw [length_bitsT]; omega)]
    obtain ⟨c, rfl⟩ : ∃ c, i = v.len + c := ⟨i - v.len, by omega⟩
    rw [cnt_add, cnt_false (fun k => bitT tr v (v.len + k)) c (fun k _ => bitT_of_ge _ _ _ (by omega)),
      bitsT_eq]
    rfl

theorem count_bitsT (tr : Tr) (v : RawVec) : (bitsT tr v.bits).count true = cnt (bitT tr v) v.len := by
  rw [← rankSpec_bitsT, rankSpec_of_ge _ _ (by rw [length_bitsT]; exact Nat.le_refl _)]

/-- `select` on the transformed vector: `p` is a set position of rank `r` -/
theorem selectSpec_bitsT (tr : Tr) (v : RawVec) (r p : Nat) :
    selectSpec (bitsT tr v.bits) r = some p ↔ bitT tr v p = true ∧ cnt (bitT tr v) p = r := by
  unfold selectSpec
  rw [bitsT_eq, selectBits_map_range]
  constructor
  · rintro ⟨_, h2, h3⟩; exact ⟨h2, h3⟩
  · rintro ⟨h2, h3⟩; exact ⟨bitT_lt h2, h2, h3⟩

/-- a well-formed vector has no set bit at or past `len` in its words -/
theorem getBit_of_ge {v : RawVec} (hv : v.WF) (j : Nat) (h : v.len ≤ j) : getBit v.data j = false := by
  unfold getBit
  by_cases hk : j / 64 < v.data.size
  · rw [hv.1] at hk
    have h0 : v.len % 64 ≠ 0 := by omega
    have hk' : j / 64 = v.len / 64 := by omega
    have hz := hv.2 h0
    have hjl := Nat.mod_lt j (show 64 > 0 by decide)
    have := congrArg (fun x => BitVec.getLsbD x (j % 64)) hz
    simp only [BitVec.getLsbD_and, BitVec.getLsbD_not, lowSet_getLsbD _ _ hjl, BitVec.getLsbD_zero] at this
    have hge : ¬ (j % 64 < v.len % 64) := by omega
    rw [hk']
    simpa [hge, hjl] using this
  · rw [rd_of_ge _ _ (by omega)]; simp

/-- the value of `T::word_unchecked` -/
def wordTv (tr : Tr) (v : RawVec) (k : Nat) : Word :=
  match tr with
  | .ident => rd v.data k
  | .compl => if k ≥ v.len / 64 then (~~~ rd v.data k) &&& lowSet (v.len % 64) else ~~~ rd v.data k

theorem wordT_eq (tr : Tr) (v : RawVec) (k : Nat) (hk : k < v.data.size) : wordT tr v k = ok (wordTv tr v k) := by
  unfold wordT wordTv
  cases tr
  · exact getW_ok hk
  · simp only [getW_ok hk, bind_ok, pure_eq]
    split <;> rfl

theorem wordTv_bit {v : RawVec} (hv : v.WF) (tr : Tr) (k : Nat) (hk : k < v.data.size) (i : Nat) (hi : i < 64) :
    (wordTv tr v k).getLsbD i = bitT tr v (64 * k + i) := by
  unfold wordTv bitT
  rw [getBit_word _ _ _ hi]
  have hsz := hv.1
  cases tr
  · simp only [show (Tr.ident == Tr.compl) = false from rfl, Bool.bne_false]
    by_cases hlt : 64 * k + i < v.len
    · simp [hlt]
    · have := getBit_of_ge hv (64 * k + i) (by omega)
      rw [getBit_word _ _ _ hi] at this
      simp [hlt, this]
  · simp only [show (Tr.compl == Tr.compl) = true from rfl, Bool.bne_true]
    by_cases hge : k ≥ v.len / 64
    · rw [if_pos hge, BitVec.getLsbD_and, BitVec.getLsbD_not, lowSet_getLsbD _ _ hi]
      have hk' : k = v.len / 64 := by omega
      by_cases hlt : 64 * k + i < v.len
      · have : i < v.len % 64 := by omega
        simp [hlt, this, hi]
      · have : ¬ i < v.len % 64 := by omega
        simp [hlt, this]
    · rw [if_neg hge, BitVec.getLsbD_not]
      have hlt : 64 * k + i < v.len := by omega
      simp [hlt, hi]

/-- **Transformed words.**  For a well-formed vector, reading word `k < size` through the transformation
succeeds, and bit `i` of the result is bit `64*k+i` of the transformed bit sequence (false past the end). -/
theorem wordT_ok {v : RawVec} (hv : v.WF) (tr : Tr) (k : Nat) (hk : k < v.data.size) :
    ∃ w, wordT tr v k = ok w ∧ ∀ i, i < 64 → w.getLsbD i = (bitsT tr v.bits)[64 * k + i]?.getD false :=
  ⟨wordTv tr v k, wordT_eq tr v k hk, fun i hi => by rw [bitsT_getD, wordTv_bit hv tr k hk i hi]⟩

/-! ### in-word select -/

theorem selWord_iff (w : Word) (r p : Nat) : selWord w r = ok p ↔ selectBits (bitsOfWord w) r = some p := by
  unfold selWord
  cases h : selectBits (bitsOfWord w) r with
  | none => simp
  | some q => simp

/-- in-word select finds bit `p` iff it is a set bit with exactly `r` set bits below it -/
theorem selWord_ok_iff (w : Word) (r p : Nat) :
    selWord w r = ok p ↔ p < 64 ∧ w.getLsbD p = true ∧ cnt (fun i => w.getLsbD i) p = r := by
  rw [selWord_iff]
  unfold bitsOfWord
  exact selectBits_map_range _ 64 r p

theorem selWord_oob (w : Word) (r : Nat) (h : popcount w ≤ r) : selWord w r = fault .oob := by
  unfold selWord
  have := selectSpec_eq_none (bitsOfWord w) r h
  unfold selectSpec at this
  rw [this]

theorem selWord_isOk (w : Word) (r : Nat) (h : r < popcount w) : ∃ p, selWord w r = ok p := by
  obtain ⟨p, hp⟩ := selectSpec_isSome (bitsOfWord w) r h
  exact ⟨p, (selWord_iff w r p).mpr hp⟩

/-! ### the word scan -/

theorem lowSet_zero : lowSet 0 = 0 := by decide

/-- counting in a word whose bits below `wo` have been cleared -/
theorem cnt_masked {v : RawVec} (hv : v.WF) (tr : Tr) (k : Nat) (hk : k < v.data.size) (wo q : Nat)
    (hwo : wo ≤ q) (hq : q ≤ 64) :
    cnt (bitT tr v) (64 * k + q) =
      cnt (bitT tr v) (64 * k + wo) + cnt (fun i => (wordTv tr v k &&& ~~~ lowSet wo).getLsbD i) q := by
  obtain ⟨d, rfl⟩ : ∃ d, q = wo + d := ⟨q - wo, by omega⟩
  rw [← Nat.add_assoc, cnt_add (bitT tr v), cnt_add _ wo d]
  rw [cnt_false _ wo]
  · rw [Nat.zero_add]
    congr 1
    apply cnt_congr
    intro i hi
    have h1 : wo + i < 64 := by omega
    have h2 : ¬ (wo + i < wo) := by omega
    simp only [BitVec.getLsbD_and, BitVec.getLsbD_not, lowSet_getLsbD _ _ h1, wordTv_bit hv tr k hk _ h1]
    simp [h1, h2, Nat.add_assoc]
  · intro i hi
    have h1 : i < 64 := by omega
    simp only [BitVec.getLsbD_and, BitVec.getLsbD_not, lowSet_getLsbD _ _ h1]
    simp [hi, h1]

theorem scan_ok_cnt {v : RawVec} (hv : v.WF) (tr : Tr) (m : Mode) (p : Nat) (hp : bitT tr v p = true)
    (hp64 : p < 2 ^ 64) :
    ∀ (fuel word wo rr : Nat), wo ≤ 64 → word < v.data.size → v.data.size ≤ fuel + word →
      cnt (bitT tr v) p = cnt (bitT tr v) (64 * word + wo) + rr →
      SelSup.scan tr m v fuel word (wordTv tr v word &&& ~~~ lowSet wo) rr = ok p := by
  intro fuel
  induction fuel with
  | zero => intro word wo rr _ h1 h2; omega
  | succ fuel ih =>
    intro word wo rr hwo hword hfuel hc
    have hpop := cnt_masked hv tr word hword wo 64 hwo (Nat.le_refl _)
    rw [← popcount_eq_cnt] at hpop
    unfold SelSup.scan
    simp only []
    by_cases hones : popcount (wordTv tr v word &&& ~~~ lowSet wo) > rr
    · rw [if_pos hones]
      -- the answer is in this word
      have hlt : p < 64 * word + 64 := by
        by_cases h : p < 64 * word + 64
        · exact h
        · have := cnt_mono (bitT tr v) (show 64 * word + 64 ≤ p by omega)
          omega
      have hge : 64 * word + wo ≤ p := by
        by_cases h : 64 * word + wo ≤ p
        · exact h
        · have := cnt_lt_of_true (bitT tr v) hp (show p < 64 * word + wo by omega)
          omega
      obtain ⟨q, rfl⟩ : ∃ q, p = 64 * word + q := ⟨p - 64 * word, by omega⟩
      have hq : q < 64 := by omega
      have hwq : wo ≤ q := by omega
      have hsel : selWord (wordTv tr v word &&& ~~~ lowSet wo) rr = ok q := by
        rw [selWord_ok_iff]
        refine ⟨hq, ?_, ?_⟩
        · have h2 : ¬ (q < wo) := by omega
          simp only [BitVec.getLsbD_and, BitVec.getLsbD_not, lowSet_getLsbD _ _ hq,
            wordTv_bit hv tr word hword _ hq, hp]
          simp [h2, hq]
        · have := cnt_masked hv tr word hword wo q hwq (by omega)
          omega
      rw [hsel]
      simp only [bind_ok]
      have := bitOffset_ok m word q (by rw [U64_eq]; omega)
      rw [this]; congr 1; omega
    · rw [if_neg hones]
      have hge : 64 * word + 64 ≤ p := by
        by_cases h : 64 * word + 64 ≤ p
        · exact h
        · have := cnt_lt_of_true (bitT tr v) hp (show p < 64 * word + 64 by omega)
          omega
      have hplen := bitT_lt hp
      have hw1 : word + 1 < v.data.size := by rw [hv.1]; omega
      rw [wordT_eq tr v _ hw1]
      simp only [bind_ok]
      have := ih (word + 1) 0 (rr - popcount (wordTv tr v word &&& ~~~ lowSet wo)) (by omega) hw1 (by omega)
        (by rw [hc]; have e : 64 * (word + 1) + 0 = 64 * word + 64 := by omega
            rw [e]; omega)
      rw [lowSet_zero, show ~~~ (0 : Word) = BitVec.allOnes 64 from by decide, BitVec.and_allOnes] at this
      exact this

/-- **The scan lemma.**  Start at word `word` with the bits below `wo` cleared.  If the set bit of rank
`rank(64*word+wo) + rr` exists at position `p` (i.e. there are more than `rr` set bits at or after
`64*word+wo`, and `p` is the `rr`-th of them), `p < 2^64`, and the fuel covers the remaining words, the scan
returns `p` in both arithmetic modes, without reading outside the words. -/
theorem scan_ok {v : RawVec} (hv : v.WF) (tr : Tr) (m : Mode) (fuel word wo rr p : Nat) (w : Word)
    (hwo : wo ≤ 64) (hword : word < v.data.size) (hw : wordT tr v word = ok w)
    (hfuel : v.data.size ≤ fuel + word)
    (hsel : selectSpec (bitsT tr v.bits) (rankSpec (bitsT tr v.bits) (64 * word + wo) + rr) = some p)
    (hp64 : p < 2 ^ 64) :
    SelSup.scan tr m v fuel word (w &&& ~~~ lowSet wo) rr = ok p := by
  rw [wordT_eq tr v word hword] at hw
  cases hw
  rw [selectSpec_bitsT, rankSpec_bitsT] at hsel
  exact scan_ok_cnt hv tr m p hsel.1 hp64 fuel word wo rr hwo hword hfuel hsel.2

/-- The scan lemma in counting form: if more than `rr` set bits lie at or after position `64*word+wo`, the scan
finds the `rr`-th of them (0-based). -/
theorem scan_ok_count {v : RawVec} (hv : v.WF) (hlen : v.len < 2 ^ 64) (tr : Tr) (m : Mode)
    (fuel word wo rr : Nat) (w : Word)
    (hwo : wo ≤ 64) (hword : word < v.data.size) (hw : wordT tr v word = ok w)
    (hfuel : v.data.size ≤ fuel + word)
    (hcount : rankSpec (bitsT tr v.bits) (64 * word + wo) + rr < (bitsT tr v.bits).count true) :
    ∃ p, SelSup.scan tr m v fuel word (w &&& ~~~ lowSet wo) rr = ok p ∧
      selectSpec (bitsT tr v.bits) (rankSpec (bitsT tr v.bits) (64 * word + wo) + rr) = some p := by
  obtain ⟨p, hp⟩ := selectSpec_isSome _ _ hcount
  have hlt : p < v.len := bitT_lt ((selectSpec_bitsT tr v _ p).mp hp).1
  exact ⟨p, scan_ok hv tr m fuel word wo rr p w hwo hword hw hfuel hp (by omega), hp⟩

/-! ### integer vectors as lists -/

theorem IntVec.length_items (v : IntVec) : v.items.length = v.len := by simp [IntVec.items]

theorem IntVec.items_getElem?_sel (v : IntVec) (i : Nat) :
    v.items[i]? = if i < v.len then some (v.getRaw i).toNat else none := by
  unfold IntVec.items
  by_cases h : i < v.len
  · simp [h]
  · simp [h]

theorem IntVec.get_of_items {v : IntVec} {i x : Nat} (h : v.items[i]? = some x) :
    ∃ w, v.get i = ok w ∧ w.toNat = x := by
  rw [IntVec.items_getElem?_sel] at h
  by_cases hi : i < v.len
  · rw [if_pos hi] at h
    exact ⟨v.getRaw i, by simp [IntVec.get, hi], Option.some.inj h⟩
  · rw [if_neg hi] at h; cases h

/-! ### valid select supports -/

/-- Superblock `k` (set bits number `4096k .. 4096k+4095` of `P`) is described correctly by the three item
lists: `S[2k]` is the position of its first set bit, `S[2k+1] = 2*ptr + is_short`; a long superblock stores
every set bit relative to the start at `L[ptr + j]`; a short one stores every 64th set bit at `Sh[ptr + b]`. -/
def SbValid (P S L Sh : List Nat) (k : Nat) : Prop :=
  ∃ st q, S[2 * k]? = some st ∧ S[2 * k + 1]? = some q ∧ P[4096 * k]? = some st ∧
    (q % 2 = 0 → ∀ j, j < 4096 → 4096 * k + j < P.length →
      ∃ d, L[q / 2 + j]? = some d ∧ P[4096 * k + j]? = some (st + d)) ∧
    (q % 2 = 1 → ∀ b, b < 64 → 4096 * k + 64 * b < P.length →
      ∃ d, Sh[q / 2 + b]? = some d ∧ P[4096 * k + 64 * b]? = some (st + d))

structure SelValid (P S L Sh : List Nat) : Prop where
  size : S.length = 2 * ((P.length + 4095) / 4096)
  sb : ∀ k, 4096 * k < P.length → SbValid P S L Sh k

/-- validity of a select support for the transformed vector: the item lists of the three integer vectors
describe the positions of the set bits of `bitsT tr v.bits` -/
def SelSup.Valid (s : SelSup) (tr : Tr) (v : RawVec) : Prop :=
  SelValid (onesPos (bitsT tr v.bits)) s.samples.items s.long.items s.short.items

theorem onesPos_lt_len (tr : Tr) (v : RawVec) (r p : Nat) (h : (onesPos (bitsT tr v.bits))[r]? = some p) :
    p < v.len := by
  rw [← selectSpec_eq_onesPos, selectSpec_bitsT] at h
  exact bitT_lt h.1

/-- **Query correctness for every valid support** (also one loaded from a file): no out-of-bounds read, no
assertion failure, no overflow in either arithmetic mode, and the result is the specified position. -/
theorem selectU_ok {s : SelSup} {tr : Tr} {v : RawVec} (hv : v.WF) (hlen : v.len < 2 ^ 64)
    (hs : s.Valid tr v) (m : Mode) (r : Nat) (hr : r < (bitsT tr v.bits).count true) :
    ∃ p, s.selectU tr m v r = ok p ∧ selectSpec (bitsT tr v.bits) r = some p := by
  have hrP : r < (onesPos (bitsT tr v.bits)).length := by rw [length_onesPos]; exact hr
  have hk : 4096 * (r / 4096) < (onesPos (bitsT tr v.bits)).length := by omega
  obtain ⟨st, q, hS0, hS1, hP0, hlong, hshort⟩ := hs.sb (r / 4096) hk
  obtain ⟨r0, hr0, hr0v⟩ := IntVec.get_of_items hS0
  obtain ⟨pw, hpw, hpwv⟩ := IntVec.get_of_items hS1
  unfold SelSup.selectU
  simp only [hr0, bind_ok]
  by_cases hoff : r % 4096 = 0
  · rw [if_pos hoff]
    refine ⟨st, by rw [hr0v]; rfl, ?_⟩
    rw [selectSpec_eq_onesPos, ← hP0]; congr 1; omega
  · rw [if_neg hoff]
    simp only [hpw, bind_ok, hpwv, hr0v]
    by_cases hq : q % 2 = 0
    · rw [if_pos hq]
      obtain ⟨d, hd, hPd⟩ := hlong hq (r % 4096) (by omega) (by omega)
      obtain ⟨dw, hdw, hdwv⟩ := IntVec.get_of_items hd
      have e : 4096 * (r / 4096) + r % 4096 = r := by omega
      rw [e] at hPd
      have hlt := onesPos_lt_len tr v r _ hPd
      simp only [hdw, bind_ok, hdwv]
      refine ⟨st + d, addM_ok (by rw [U64_eq]; omega), ?_⟩
      rw [selectSpec_eq_onesPos]; exact hPd
    · rw [if_neg hq]
      obtain ⟨d, hd, hPd⟩ := hshort (by omega) (r % 4096 / 64) (by omega) (by omega)
      obtain ⟨dw, hdw, hdwv⟩ := IntVec.get_of_items hd
      have hlt := onesPos_lt_len tr v _ _ hPd
      simp only [hdw, bind_ok, hdwv, addM_ok (show st + d < U64 by rw [U64_eq]; omega)]
      by_cases hrr : r % 4096 % 64 > 0
      · rw [if_pos hrr]
        obtain ⟨p, hp⟩ := selectSpec_isSome _ r hr
        have hword : (st + d) / 64 < v.data.size := by rw [hv.1]; omega
        rw [wordT_eq tr v _ hword]
        simp only [bind_ok]
        refine ⟨p, ?_, hp⟩
        rw [← selectSpec_eq_onesPos, selectSpec_bitsT] at hPd
        have hp' := (selectSpec_bitsT tr v r p).mp hp
        have hplt := bitT_lt hp'.1
        apply scan_ok_cnt hv tr m p hp'.1 (by omega) _ _ _ _ (by omega) hword (by omega)
        have e : 64 * ((st + d) / 64) + (st + d) % 64 = st + d := by omega
        rw [e, hp'.2, hPd.2]; omega
      · rw [if_neg hrr]
        refine ⟨st + d, rfl, ?_⟩
        rw [selectSpec_eq_onesPos, ← hPd]; congr 1; omega


/-! ### `bit_len` -/

theorem clzBelow_le_of_set (w : Word) (j : Nat) (hj : w.getLsbD j = true) :
    ∀ k, j < k → clzBelow w k + j + 1 ≤ k := by
  intro k
  induction k with
  | zero => intro h; omega
  | succ k ih =>
    intro h
    unfold clzBelow
    by_cases hk : w.getLsbD k = true
    · rw [if_pos hk]; omega
    · rw [if_neg hk]
      have : j ≠ k := by intro e; subst e; exact hk hj
      have := ih (by omega)
      omega

theorem clzBelow_le_sel (w : Word) : ∀ k, clzBelow w k ≤ k := by
  intro k
  induction k with
  | zero => simp [clzBelow]
  | succ k ih => unfold clzBelow; split <;> omega

theorem clzBelow_clear_sel (w : Word) : ∀ k i, k - clzBelow w k ≤ i → i < k → w.getLsbD i = false := by
  intro k
  induction k with
  | zero => intro i _ h; omega
  | succ k ih =>
    intro i h1 h2
    unfold clzBelow at h1
    by_cases hk : w.getLsbD k = true
    · rw [if_pos hk] at h1; omega
    · rw [if_neg hk] at h1
      by_cases hik : i = k
      · subst hik; simpa using hk
      · have := clzBelow_le_sel w k
        exact ih i (by omega) (by omega)

theorem bitLen_pos (n : Word) : 1 ≤ bitLen n := by
  unfold bitLen clz
  have h : (n ||| 1).getLsbD 0 = true := by simp
  have := clzBelow_le_of_set (n ||| 1) 0 h 64 (by decide)
  omega

theorem bitLen_le (n : Word) : bitLen n ≤ 64 := by unfold bitLen; omega

theorem toNat_lt_bitLen (n : Word) : n.toNat < 2 ^ bitLen n := by
  apply Nat.lt_pow_two_of_testBit
  intro i hi
  by_cases h64 : i < 64
  · have h := clzBelow_clear_sel (n ||| 1) 64 i (by unfold bitLen clz at hi; exact hi) h64
    rw [BitVec.getLsbD_or] at h
    have : n.getLsbD i = false := by
      cases hn : n.getLsbD i
      · rfl
      · rw [hn] at h; simp at h
    rw [BitVec.testBit_toNat]; exact this
  · rw [BitVec.testBit_toNat]; exact BitVec.getLsbD_of_ge _ _ (by omega)

/-! ### `push_int` and the integer vector as a list -/

theorem rd_push_zero (a : Array Word) (k : Nat) : rd (a.push 0) k = rd a k := by
  rw [rd_push]
  split
  · rename_i h; rw [h, rd_of_ge _ _ (Nat.le_refl _)]
  · rfl

theorem readInt_congr (a b : Array Word) (h : ∀ k, rd a k = rd b k) (off w : Nat) :
    readInt a off w = readInt b off w := by
  unfold readInt
  simp only [h]

/-- the words of a raw vector cover exactly its bits -/
def RawVec.SizeOk (d : RawVec) : Prop := d.data.size = (d.len + 63) / 64

theorem pushInt_len (d : RawVec) (x : Word) (w : Nat) : (d.pushInt x w).len = d.len + w := by
  unfold RawVec.pushInt
  split
  · rename_i h; rw [h]; rfl
  · rfl

theorem pushInt_sizeOk (d : RawVec) (x : Word) (w : Nat) (hw : w ≤ 64) (hd : d.SizeOk) :
    (d.pushInt x w).SizeOk := by
  unfold RawVec.SizeOk at *
  unfold RawVec.pushInt
  split
  · exact hd
  · simp only [size_writeInt]
    split
    · simp only [Array.size_push]; omega
    · omega

theorem pushInt_read_old (d : RawVec) (x : Word) (w : Nat) (hw1 : 1 ≤ w) (hw : w ≤ 64) (hd : d.SizeOk)
    (off w' : Nat) (hw1' : 1 ≤ w') (hw' : w' ≤ 64) (h : off + w' ≤ d.len) :
    readInt (d.pushInt x w).data off w' = readInt d.data off w' := by
  unfold RawVec.SizeOk at hd
  unfold RawVec.pushInt
  rw [if_neg (by omega)]
  simp only []
  rw [readInt_writeInt_disjoint _ _ _ _ _ _ hw1 hw hw1' hw']
  · split
    · exact readInt_congr _ _ (rd_push_zero _) _ _
    · rfl
  · split
    · simp only [Array.size_push]; omega
    · omega
  · exact Or.inl h

theorem pushInt_read_new (d : RawVec) (x : Word) (w : Nat) (hw1 : 1 ≤ w) (hw : w ≤ 64) (hd : d.SizeOk) :
    readInt (d.pushInt x w).data d.len w = x &&& lowSet w := by
  unfold RawVec.SizeOk at hd
  unfold RawVec.pushInt
  rw [if_neg (by omega)]
  simp only []
  apply readInt_writeInt _ _ _ _ hw1 hw
  split
  · simp only [Array.size_push]; omega
  · omega

structure IntVec.Inv (v : IntVec) : Prop where
  w1 : 1 ≤ v.width
  w64 : v.width ≤ 64
  dlen : v.data.len = v.len * v.width
  dsize : v.data.SizeOk

theorem IntVec.inv_empty (w : Nat) (h1 : 1 ≤ w) (h64 : w ≤ 64) : (⟨0, w, RawVec.empty⟩ : IntVec).Inv :=
  ⟨h1, h64, by simp [RawVec.empty], by simp [RawVec.SizeOk, RawVec.empty]⟩

theorem IntVec.inv_default : IntVec.default.Inv := IntVec.inv_empty 64 (by decide) (by decide)

theorem IntVec.push_width (v : IntVec) (x : Word) : (v.push x).width = v.width := rfl
theorem IntVec.push_len (v : IntVec) (x : Word) : (v.push x).len = v.len + 1 := rfl

theorem IntVec.push_inv {v : IntVec} (hv : v.Inv) (x : Word) : (v.push x).Inv := by
  refine ⟨hv.w1, hv.w64, ?_, ?_⟩
  · show (v.data.pushInt x v.width).len = (v.len + 1) * v.width
    rw [pushInt_len, hv.dlen, Nat.add_mul]; omega
  · exact pushInt_sizeOk _ _ _ hv.w64 hv.dsize

theorem IntVec.getRaw_push_lt {v : IntVec} (hv : v.Inv) (x : Word) (i : Nat) (hi : i < v.len) :
    (v.push x).getRaw i = v.getRaw i := by
  unfold IntVec.getRaw RawVec.int
  have hw0 : v.width ≠ 0 := by have := hv.w1; omega
  show (if v.width = 0 then 0 else readInt (v.data.pushInt x v.width).data (i * v.width) v.width) =
    (if v.width = 0 then 0 else readInt v.data.data (i * v.width) v.width)
  rw [if_neg hw0, if_neg hw0]
  apply pushInt_read_old _ _ _ hv.w1 hv.w64 hv.dsize _ _ hv.w1 hv.w64
  rw [hv.dlen]
  have : (i + 1) * v.width ≤ v.len * v.width := Nat.mul_le_mul_right _ hi
  rw [Nat.add_mul] at this; omega

theorem IntVec.getRaw_push_eq {v : IntVec} (hv : v.Inv) (x : Word) :
    (v.push x).getRaw v.len = x &&& lowSet v.width := by
  unfold IntVec.getRaw RawVec.int
  have hw0 : v.width ≠ 0 := by have := hv.w1; omega
  show (if v.width = 0 then 0 else readInt (v.data.pushInt x v.width).data (v.len * v.width) v.width) = _
  rw [if_neg hw0, ← hv.dlen]
  exact pushInt_read_new _ _ _ hv.w1 hv.w64 hv.dsize

theorem IntVec.items_push_sel {v : IntVec} (hv : v.Inv) (x : Word) :
    (v.push x).items = v.items ++ [(x &&& lowSet v.width).toNat] := by
  unfold IntVec.items
  rw [IntVec.push_len, List.range_succ, List.map_append]
  congr 1
  · apply List.map_congr_left
    intro i hi
    rw [IntVec.getRaw_push_lt hv x i (List.mem_range.mp hi)]
  · simp [IntVec.getRaw_push_eq hv x]

theorem IntVec.foldl_push {xs : List Word} : ∀ {v : IntVec} (hv : v.Inv),
    (xs.foldl IntVec.push v).Inv ∧ (xs.foldl IntVec.push v).width = v.width ∧
    (xs.foldl IntVec.push v).items = v.items ++ xs.map (fun x => (x &&& lowSet v.width).toNat) := by
  induction xs with
  | nil => intro v hv; simp [hv]
  | cons x xs ih =>
    intro v hv
    obtain ⟨h1, h2, h3⟩ := ih (IntVec.push_inv hv x)
    simp only [List.foldl_cons]
    refine ⟨h1, h2, ?_⟩
    rw [h3, IntVec.items_push_sel hv, IntVec.push_width]
    simp

theorem and_lowSet_64 (x : Word) : x &&& lowSet 64 = x := by rw [lowSet_64, BitVec.and_allOnes]

theorem toNat_and_lowSet_of_lt (x w : Nat) (hw : w ≤ 64) (hx : x < 2 ^ w) :
    (BitVec.ofNat 64 x &&& lowSet w).toNat = x := by
  have h64 : x < 2 ^ 64 := Nat.lt_of_lt_of_le hx (Nat.pow_le_pow_right (by decide) hw)
  have e : BitVec.ofNat 64 x &&& lowSet w = BitVec.ofNat 64 x := by
    apply BitVec.eq_of_getLsbD_eq
    intro i hi
    rw [BitVec.getLsbD_and, lowSet_getLsbD _ _ hi, BitVec.getLsbD_ofNat]
    by_cases hiw : i < w
    · simp [hiw]
    · have : x < 2 ^ i := Nat.lt_of_lt_of_le hx (Nat.pow_le_pow_right (by decide) (by omega))
      simp [hiw, Nat.testBit_lt_two_pow this]
  rw [e, BitVec.toNat_ofNat]
  exact Nat.mod_eq_of_lt h64

theorem IntVec.foldl_push_struct (xs : List Word) : ∀ (u : IntVec),
    xs.foldl IntVec.push u =
      ⟨u.len + xs.length, u.width, xs.foldl (fun d x => d.pushInt x u.width) u.data⟩ := by
  induction xs with
  | nil => intro u; rfl
  | cons x xs ih =>
    intro u
    simp only [List.foldl_cons, ih (u.push x), IntVec.push_width, IntVec.push_len, List.length_cons]
    congr 1
    omega

theorem foldl_max_ge (l : List Nat) : ∀ a, a ≤ l.foldl max a ∧ ∀ x, x ∈ l → x ≤ l.foldl max a := by
  induction l with
  | nil => intro a; simp
  | cons y l ih =>
    intro a
    obtain ⟨h1, h2⟩ := ih (max a y)
    simp only [List.foldl_cons, List.mem_cons]
    refine ⟨by omega, ?_⟩
    rintro x (rfl | hx)
    · omega
    · exact h2 x hx

theorem foldl_max_lt_sel (l : List Nat) (B : Nat) : ∀ a, a < B → (∀ x, x ∈ l → x < B) → l.foldl max a < B := by
  induction l with
  | nil => intro a h _; exact h
  | cons y l ih =>
    intro a ha h
    simp only [List.foldl_cons]
    apply ih
    · have := h y (by simp); omega
    · intro x hx; exact h x (by simp [hx])

theorem IntVec.items_lt_sel (v : IntVec) : ∀ x, x ∈ v.items → x < 2 ^ 64 := by
  intro x hx
  unfold IntVec.items at hx
  rw [List.mem_map] at hx
  obtain ⟨i, _, rfl⟩ := hx
  exact (v.getRaw i).isLt

/-- **`pack` keeps the items** (for every integer vector: the new width is `bit_len` of the largest item, and
the vector is rebuilt from its items). -/
theorem IntVec.pack_items (v : IntVec) : v.pack.items = v.items := by
  unfold IntVec.pack
  split
  · rfl
  · simp only []
    split
    · rfl
    · have hmax : v.maxItem < 2 ^ 64 := foldl_max_lt_sel _ _ 0 (by decide) v.items_lt_sel
      have hnw1 := bitLen_pos (BitVec.ofNat 64 v.maxItem)
      have hnw64 := bitLen_le (BitVec.ofNat 64 v.maxItem)
      have hlt := toNat_lt_bitLen (BitVec.ofNat 64 v.maxItem)
      rw [BitVec.toNat_ofNat, Nat.mod_eq_of_lt hmax] at hlt
      generalize bitLen (BitVec.ofNat 64 v.maxItem) = nw at *
      have hstruct := IntVec.foldl_push_struct (v.items.map (BitVec.ofNat 64)) ⟨0, nw, RawVec.empty⟩
      simp only [List.length_map, IntVec.length_items, Nat.zero_add] at hstruct
      simp only [List.foldl_map] at hstruct
      rw [← hstruct]
      have := (IntVec.foldl_push (xs := v.items.map (BitVec.ofNat 64)) (IntVec.inv_empty nw hnw1 hnw64)).2.2
      rw [List.foldl_map] at this
      rw [this]
      simp only [List.map_map]
      have e : (⟨0, nw, RawVec.empty⟩ : IntVec).items = [] := rfl
      rw [e, List.nil_append]
      conv => rhs; rw [← List.map_id v.items]
      apply List.map_congr_left
      intro x hx
      simp only [Function.comp, id]
      apply toNat_and_lowSet_of_lt _ _ hnw64
      have := (foldl_max_ge v.items 0).2 x hx
      unfold IntVec.maxItem at hlt
      omega


/-! ### width-64 vectors under `push` -/

theorem IntVec.push64 {v : IntVec} (hv : v.Inv) (hw : v.width = 64) (x : Nat) (hx : x < 2 ^ 64) :
    (v.push (BitVec.ofNat 64 x)).Inv ∧ (v.push (BitVec.ofNat 64 x)).width = 64 ∧
    (v.push (BitVec.ofNat 64 x)).items = v.items ++ [x] := by
  refine ⟨IntVec.push_inv hv _, hw, ?_⟩
  rw [IntVec.items_push_sel hv, hw, toNat_and_lowSet_of_lt x 64 (Nat.le_refl _) hx]

theorem IntVec.foldl_push64 (g : Nat → Nat) (n : Nat) (hg : ∀ i, i < n → g i < 2 ^ 64)
    {v : IntVec} (hv : v.Inv) (hw : v.width = 64) :
    ((List.range n).foldl (fun (lv : IntVec) j => lv.push (BitVec.ofNat 64 (g j))) v).Inv ∧
    ((List.range n).foldl (fun (lv : IntVec) j => lv.push (BitVec.ofNat 64 (g j))) v).width = 64 ∧
    ((List.range n).foldl (fun (lv : IntVec) j => lv.push (BitVec.ofNat 64 (g j))) v).items =
      v.items ++ (List.range n).map g := by
  induction n with
  | zero => simp [hv, hw]
  | succ n ih =>
    obtain ⟨h1, h2, h3⟩ := ih (fun i hi => hg i (by omega))
    rw [List.range_succ, List.foldl_append]
    simp only [List.foldl_cons, List.foldl_nil]
    obtain ⟨k1, k2, k3⟩ := IntVec.push64 h1 h2 (g n) (hg n (by omega))
    refine ⟨k1, k2, ?_⟩
    rw [k3, h3]; simp

/-! ### the construction, one superblock at a time -/

/-- the loop body of `SelSup.build` -/
def SelSup.buildStep (len : Nat) (pos : Array Nat) (r : SelSup) (k : Nat) : SelSup :=
  let m := pos.size
  let l := bitLen (BitVec.ofNat 64 len)
  let log4 := (l * l) * (l * l)
  let start := pos[4096 * k]?.getD 0
  let cnt := min 4096 (m - 4096 * k)
  let limit := if 4096 * (k + 1) < m then pos[4096 * (k + 1)]?.getD 0 else len
  let samples := r.samples.push (BitVec.ofNat 64 start)
  if limit - start ≥ log4 then
    let samples := samples.push (BitVec.ofNat 64 (2 * r.long.len))
    let long := (List.range cnt).foldl (fun (lv : IntVec) j =>
      lv.push (BitVec.ofNat 64 ((pos[4096 * k + j]?.getD 0) - start))) r.long
    ⟨samples, long, r.short⟩
  else
    let samples := samples.push (BitVec.ofNat 64 (2 * r.short.len + 1))
    let blocks := (cnt + 63) / 64
    let short := (List.range blocks).foldl (fun (sv : IntVec) b =>
      sv.push (BitVec.ofNat 64 ((pos[4096 * k + 64 * b]?.getD 0) - start))) r.short
    ⟨samples, r.long, short⟩

def SelSup.buildLoop (len : Nat) (pos : Array Nat) (n : Nat) : SelSup :=
  (List.range n).foldl (SelSup.buildStep len pos) ⟨IntVec.default, IntVec.default, IntVec.default⟩

theorem SelSup.build_eq (len : Nat) (pos : Array Nat) :
    SelSup.build len pos =
      ⟨(SelSup.buildLoop len pos ((pos.size + 4095) / 4096)).samples.pack,
       (SelSup.buildLoop len pos ((pos.size + 4095) / 4096)).long.pack,
       (SelSup.buildLoop len pos ((pos.size + 4095) / 4096)).short.pack⟩ := rfl

theorem SelSup.buildLoop_succ (len : Nat) (pos : Array Nat) (n : Nat) :
    SelSup.buildLoop len pos (n + 1) = SelSup.buildStep len pos (SelSup.buildLoop len pos n) n := by
  unfold SelSup.buildLoop
  rw [List.range_succ, List.foldl_append]
  rfl

/-! ### list-level facts about superblocks -/

theorem sorted_get_le {P : List Nat} (hs : P.Pairwise (· < ·)) {i j a b : Nat}
    (hi : P[i]? = some a) (hj : P[j]? = some b) (hij : i ≤ j) : a ≤ b := by
  obtain ⟨hi', rfl⟩ := List.getElem?_eq_some_iff.mp hi
  obtain ⟨hj', rfl⟩ := List.getElem?_eq_some_iff.mp hj
  by_cases h : i = j
  · subst h; exact Nat.le_refl _
  · exact Nat.le_of_lt (List.pairwise_iff_getElem.mp hs i j hi' hj' (by omega))

theorem getElem?_getD_some {P : List Nat} {i : Nat} (h : i < P.length) : P[i]? = some (P[i]?.getD 0) := by
  rw [List.getElem?_eq_getElem h]; rfl

theorem SbValid_append {P S L Sh : List Nat} {k : Nat} (h : SbValid P S L Sh k) (S2 L2 Sh2 : List Nat) :
    SbValid P (S ++ S2) (L ++ L2) (Sh ++ Sh2) k := by
  obtain ⟨st, q, h1, h2, h3, h4, h5⟩ := h
  have lift : ∀ (A A2 : List Nat) (i x : Nat), A[i]? = some x → (A ++ A2)[i]? = some x := by
    intro A A2 i x hx
    have := (List.getElem?_eq_some_iff.mp hx).1
    rw [List.getElem?_append_left this]; exact hx
  refine ⟨st, q, lift _ _ _ _ h1, lift _ _ _ _ h2, h3, ?_, ?_⟩
  · intro hq j hj hjn
    obtain ⟨d, hd, hp⟩ := h4 hq j hj hjn
    exact ⟨d, lift _ _ _ _ hd, hp⟩
  · intro hq b hb hbn
    obtain ⟨d, hd, hp⟩ := h5 hq b hb hbn
    exact ⟨d, lift _ _ _ _ hd, hp⟩

theorem SbValid_new_long {P S L Sh : List Nat} {k st : Nat} (hs : P.Pairwise (· < ·))
    (hS : S.length = 2 * k) (hst : P[4096 * k]? = some st) :
    SbValid P (S ++ [st] ++ [2 * L.length])
      (L ++ (List.range (min 4096 (P.length - 4096 * k))).map (fun j => P[4096 * k + j]?.getD 0 - st)) Sh k := by
  refine ⟨st, 2 * L.length, ?_, ?_, hst, ?_, ?_⟩
  · rw [List.append_assoc, List.getElem?_append_right (by omega)]; simp [hS]
  · rw [List.append_assoc, List.getElem?_append_right (by omega)]; simp [hS]
  · intro _ j hj hjn
    refine ⟨P[4096 * k + j]?.getD 0 - st, ?_, ?_⟩
    · have e : 2 * L.length / 2 + j = L.length + j := by omega
      rw [e, List.getElem?_append_right (by omega)]
      have hj' : j < min 4096 (P.length - 4096 * k) := by omega
      simp [hj']
    · obtain ⟨x, h1⟩ : ∃ x, P[4096 * k + j]? = some x := ⟨_, getElem?_getD_some hjn⟩
      have := sorted_get_le hs hst h1 (by omega)
      rw [h1, Option.getD_some]; congr 1; omega
  · intro hq; omega

theorem SbValid_new_short {P S L Sh : List Nat} {k st : Nat} (hs : P.Pairwise (· < ·))
    (hS : S.length = 2 * k) (hst : P[4096 * k]? = some st) :
    SbValid P (S ++ [st] ++ [2 * Sh.length + 1]) L
      (Sh ++ (List.range ((min 4096 (P.length - 4096 * k) + 63) / 64)).map
        (fun b => P[4096 * k + 64 * b]?.getD 0 - st)) k := by
  refine ⟨st, 2 * Sh.length + 1, ?_, ?_, hst, ?_, ?_⟩
  · rw [List.append_assoc, List.getElem?_append_right (by omega)]; simp [hS]
  · rw [List.append_assoc, List.getElem?_append_right (by omega)]; simp [hS]
  · intro hq; omega
  · intro _ b hb hbn
    refine ⟨P[4096 * k + 64 * b]?.getD 0 - st, ?_, ?_⟩
    · have e : (2 * Sh.length + 1) / 2 + b = Sh.length + b := by omega
      rw [e, List.getElem?_append_right (by omega)]
      have hb' : b < (min 4096 (P.length - 4096 * k) + 63) / 64 := by omega
      simp [hb']
    · obtain ⟨x, h1⟩ : ∃ x, P[4096 * k + 64 * b]? = some x := ⟨_, getElem?_getD_some hbn⟩
      have := sorted_get_le hs hst h1 (by omega)
      rw [h1, Option.getD_some]; congr 1; omega

theorem sorted_ge_index {P : List Nat} (hs : P.Pairwise (· < ·)) : ∀ i (h : i < P.length), i ≤ P[i] := by
  intro i
  induction i with
  | zero => intro h; omega
  | succ i ih =>
    intro h
    have h1 := ih (by omega)
    have h2 := List.pairwise_iff_getElem.mp hs i (i + 1) (by omega) h (by omega)
    omega

theorem sorted_length_le {P : List Nat} (hs : P.Pairwise (· < ·)) (len : Nat) (hlt : ∀ x, x ∈ P → x < len) :
    P.length ≤ len := by
  by_cases h : P.length = 0
  · omega
  · have h1 := sorted_ge_index hs (P.length - 1) (by omega)
    have h2 := hlt (P[P.length - 1]'(by omega)) (List.getElem_mem _)
    omega

/-- `bit_len(len)^4`, the threshold between short and long superblocks -/
def log4 (len : Nat) : Nat :=
  (bitLen (BitVec.ofNat 64 len) * bitLen (BitVec.ofNat 64 len)) *
    (bitLen (BitVec.ofNat 64 len) * bitLen (BitVec.ofNat 64 len))

theorem log4_big (len : Nat) (h1 : 2 ^ 63 ≤ len) (h2 : len < 2 ^ 64) : log4 len = 16777216 := by
  have hb : bitLen (BitVec.ofNat 64 len) = 64 := by
    have a := bitLen_le (BitVec.ofNat 64 len)
    have b := toNat_lt_bitLen (BitVec.ofNat 64 len)
    rw [BitVec.toNat_ofNat, Nat.mod_eq_of_lt h2] at b
    by_cases h : bitLen (BitVec.ofNat 64 len) ≤ 63
    · have : 2 ^ bitLen (BitVec.ofNat 64 len) ≤ 2 ^ 63 := Nat.pow_le_pow_right (by decide) h
      omega
    · omega
  unfold log4; rw [hb]

/-- the position bounding superblocks `< k` from above: the start of superblock `k`, or `len` -/
def sbBound (len : Nat) (P : List Nat) (k : Nat) : Nat :=
  if 4096 * k < P.length then P[4096 * k]?.getD 0 else len

structure BuildInv (len : Nat) (P : List Nat) (r : SelSup) (k : Nat) : Prop where
  sInv : r.samples.Inv
  sW : r.samples.width = 64
  lInv : r.long.Inv
  lW : r.long.width = 64
  hInv : r.short.Inv
  hW : r.short.width = 64
  sLen : r.samples.items.length = 2 * k
  lLen : r.long.items.length ≤ min (4096 * k) P.length
  lSpan : r.long.items.length * log4 len ≤ 4096 * sbBound len P k
  hLen : r.short.items.length ≤ 64 * k
  sb : ∀ k', k' < k → SbValid P r.samples.items r.long.items r.short.items k'

theorem buildInv_zero (len : Nat) (P : List Nat) :
    BuildInv len P ⟨IntVec.default, IntVec.default, IntVec.default⟩ 0 := by
  refine ⟨IntVec.inv_default, rfl, IntVec.inv_default, rfl, IntVec.inv_default, rfl, rfl, ?_, ?_, ?_, ?_⟩
  · show 0 ≤ _; omega
  · show 0 * _ ≤ _; omega
  · show 0 ≤ _; omega
  · intro k' h; omega

theorem buildStep_inv (len : Nat) (pos : Array Nat) (hlen : len < 2 ^ 64)
    (hs : pos.toList.Pairwise (· < ·)) (hlt : ∀ x, x ∈ pos.toList → x < len)
    (r : SelSup) (k : Nat) (hk : 4096 * k < pos.size) (h : BuildInv len pos.toList r k) :
    BuildInv len pos.toList (SelSup.buildStep len pos r k) (k + 1) := by
  have hn : pos.toList.length = pos.size := Array.length_toList
  have hnle := sorted_length_le hs len hlt
  obtain ⟨st, hst⟩ : ∃ st, pos.toList[4096 * k]? = some st := ⟨_, getElem?_getD_some (by omega)⟩
  have hstlt : st < len := hlt st (List.mem_of_getElem? hst)
  have hbk : sbBound len pos.toList k = st := by
    unfold sbBound; rw [if_pos (by omega), hst]; rfl
  have hgetlt : ∀ i : Nat, pos.toList[i]?.getD 0 - st < 2 ^ 64 := by
    intro i
    cases hi : pos.toList[i]? with
    | none => simp
    | some x => have := hlt x (List.mem_of_getElem? hi); simp; omega
  have hllen : r.long.len = r.long.items.length := (IntVec.length_items _).symm
  have hhlen : r.short.len = r.short.items.length := (IntVec.length_items _).symm
  have two_long : 2 * r.long.items.length < 2 ^ 64 := by
    have a := h.lLen
    by_cases hbig : len < 2 ^ 63
    · omega
    · have b := h.lSpan
      rw [log4_big len (by omega) hlen, hbk] at b
      omega
  have two_short : 2 * r.short.items.length + 1 < 2 ^ 64 := by
    have a := h.hLen
    omega
  -- the start sample
  obtain ⟨s1Inv, s1W, s1I⟩ := IntVec.push64 h.sInv h.sW st (by omega)
  -- monotonicity of the bound
  have hbk1 : st ≤ sbBound len pos.toList (k + 1) := by
    unfold sbBound
    split
    · rename_i h1
      obtain ⟨x, hx⟩ : ∃ x, pos.toList[4096 * (k + 1)]? = some x := ⟨_, getElem?_getD_some h1⟩
      rw [hx]
      exact sorted_get_le hs hst hx (by omega)
    · omega
  unfold SelSup.buildStep
  simp only [← Array.getElem?_toList, hst, Option.getD_some, ← hn]
  have hlimit : (if 4096 * (k + 1) < pos.toList.length then pos.toList[4096 * (k + 1)]?.getD 0 else len) =
      sbBound len pos.toList (k + 1) := rfl
  rw [hlimit]
  have hlog : (bitLen (BitVec.ofNat 64 len) * bitLen (BitVec.ofNat 64 len)) *
    (bitLen (BitVec.ofNat 64 len) * bitLen (BitVec.ofNat 64 len)) = log4 len := rfl
  rw [hlog, hllen, hhlen]
  split
  · -- long superblock
    rename_i hspan
    obtain ⟨s2Inv, s2W, s2I⟩ := IntVec.push64 s1Inv s1W (2 * r.long.items.length) two_long
    obtain ⟨l1Inv, l1W, l1I⟩ := IntVec.foldl_push64
      (fun j => pos.toList[4096 * k + j]?.getD 0 - st) (min 4096 (pos.toList.length - 4096 * k))
      (fun i _ => hgetlt _) h.lInv h.lW
    rw [s1I] at s2I
    refine ⟨s2Inv, s2W, l1Inv, l1W, h.hInv, h.hW, ?_, ?_, ?_, ?_, ?_⟩
    · simp only []; rw [s2I]; simp [h.sLen]; omega
    · simp only []; rw [l1I]; have := h.lLen; simp; omega
    · simp only []; rw [l1I]
      have a := h.lSpan
      rw [hbk] at a
      simp only [List.length_append, List.length_map, List.length_range, Nat.add_mul]
      have b : min 4096 (pos.toList.length - 4096 * k) * log4 len ≤ 4096 * log4 len :=
        Nat.mul_le_mul_right _ (Nat.min_le_left _ _)
      omega
    · simp only []; have := h.hLen; omega
    · intro k' hk'
      simp only []
      rw [s2I, l1I]
      by_cases hlt' : k' < k
      · have := SbValid_append (h.sb k' hlt') ([st] ++ [2 * r.long.items.length])
          ((List.range (min 4096 (pos.toList.length - 4096 * k))).map
            (fun j => pos.toList[4096 * k + j]?.getD 0 - st)) []
        rw [List.append_nil, ← List.append_assoc] at this
        exact this
      · have : k' = k := by omega
        subst this
        exact SbValid_new_long hs h.sLen hst
  · -- short superblock
    rename_i hspan
    obtain ⟨s2Inv, s2W, s2I⟩ := IntVec.push64 s1Inv s1W (2 * r.short.items.length + 1) two_short
    obtain ⟨h1Inv, h1W, h1I⟩ := IntVec.foldl_push64
      (fun b => pos.toList[4096 * k + 64 * b]?.getD 0 - st)
      ((min 4096 (pos.toList.length - 4096 * k) + 63) / 64)
      (fun i _ => hgetlt _) h.hInv h.hW
    rw [s1I] at s2I
    refine ⟨s2Inv, s2W, h.lInv, h.lW, h1Inv, h1W, ?_, ?_, ?_, ?_, ?_⟩
    · simp only []; rw [s2I]; simp [h.sLen]; omega
    · simp only []; have := h.lLen; omega
    · simp only []
      have a := h.lSpan
      rw [hbk] at a
      omega
    · simp only []; rw [h1I]; have := h.hLen; simp; omega
    · intro k' hk'
      simp only []
      rw [s2I, h1I]
      by_cases hlt' : k' < k
      · have := SbValid_append (h.sb k' hlt') ([st] ++ [2 * r.short.items.length + 1]) []
          ((List.range ((min 4096 (pos.toList.length - 4096 * k) + 63) / 64)).map
            (fun b => pos.toList[4096 * k + 64 * b]?.getD 0 - st))
        rw [List.append_nil, ← List.append_assoc] at this
        exact this
      · have : k' = k := by omega
        subst this
        exact SbValid_new_short hs h.sLen hst

theorem buildLoop_inv (len : Nat) (pos : Array Nat) (hlen : len < 2 ^ 64)
    (hs : pos.toList.Pairwise (· < ·)) (hlt : ∀ x, x ∈ pos.toList → x < len) :
    ∀ n, 4096 * n < pos.size + 4096 → BuildInv len pos.toList (SelSup.buildLoop len pos n) n := by
  intro n
  induction n with
  | zero => intro _; exact buildInv_zero len pos.toList
  | succ n ih =>
    intro hn
    rw [SelSup.buildLoop_succ]
    exact buildStep_inv len pos hlen hs hlt _ n (by omega) (ih (by omega))

/-- **The construction is valid**, stated for any strictly ascending array of positions below `len`. -/
theorem build_selValid (len : Nat) (pos : Array Nat) (hlen : len < 2 ^ 64)
    (hs : pos.toList.Pairwise (· < ·)) (hlt : ∀ x, x ∈ pos.toList → x < len) :
    SelValid pos.toList (SelSup.build len pos).samples.items (SelSup.build len pos).long.items
      (SelSup.build len pos).short.items := by
  have hn : pos.toList.length = pos.size := Array.length_toList
  have h := buildLoop_inv len pos hlen hs hlt ((pos.size + 4095) / 4096) (by omega)
  rw [SelSup.build_eq]
  simp only [IntVec.pack_items]
  refine ⟨?_, ?_⟩
  · rw [h.sLen, hn]
  · intro k hk
    exact h.sb k (by omega)

/-! ### the positions computed from the words -/

theorem foldl_push_filter (g : Nat → Bool) (l : List Nat) : ∀ (acc : Array Nat),
    (l.foldl (fun acc i => if g i then acc.push i else acc) acc).toList = acc.toList ++ l.filter g := by
  induction l with
  | nil => intro acc; simp
  | cons a l ih =>
    intro acc
    simp only [List.foldl_cons, List.filter_cons]
    rw [ih]
    cases g a <;> simp

theorem onesFrom_map_range' (g : Nat → Bool) : ∀ (n s : Nat),
    onesFrom ((List.range' s n).map g) s = (List.range' s n).filter g := by
  intro n
  induction n with
  | zero => intro s; rfl
  | succ n ih =>
    intro s
    rw [List.range'_succ, List.map_cons, List.filter_cons]
    cases h : g s
    · simp only [onesFrom, ih (s + 1)]; simp
    · simp only [onesFrom, ih (s + 1)]; simp

theorem onesPos_bitsT (tr : Tr) (v : RawVec) :
    onesPos (bitsT tr v.bits) = (List.range v.len).filter (bitT tr v) := by
  unfold onesPos
  rw [bitsT_eq, List.range_eq_range', onesFrom_map_range']

theorem positionsT_toList (tr : Tr) (v : RawVec) : (positionsT tr v).toList = onesPos (bitsT tr v.bits) := by
  unfold positionsT
  rw [foldl_push_filter (fun i => getBit v.data i != (tr == Tr.compl)), onesPos_bitsT]
  simp only [List.nil_append, Array.toList_empty]
  apply List.filter_congr
  intro i hi
  have := List.mem_range.mp hi
  simp [bitT, this]

theorem onesPos_sorted (tr : Tr) (v : RawVec) : (onesPos (bitsT tr v.bits)).Pairwise (· < ·) := by
  rw [onesPos_bitsT]; exact List.pairwise_lt_range.filter _

theorem onesPos_mem_lt (tr : Tr) (v : RawVec) (x : Nat) (h : x ∈ onesPos (bitsT tr v.bits)) : x < v.len := by
  rw [onesPos_bitsT] at h
  exact List.mem_range.mp (List.mem_filter.mp h).1

/-- **The built support is valid** (for the plain and for the complemented vector). -/
theorem SelSup.build_valid {v : RawVec} (hv : v.WF) (hlen : v.len < 2 ^ 64) (tr : Tr) :
    (SelSup.build v.len (positionsT tr v)).Valid tr v := by
  unfold SelSup.Valid
  have := build_selValid v.len (positionsT tr v) hlen
    (by rw [positionsT_toList]; exact onesPos_sorted tr v)
    (by rw [positionsT_toList]; exact onesPos_mem_lt tr v)
  rw [positionsT_toList] at this
  exact this


/-! ### the public wrappers -/

theorem count_true_map_not (l : List Bool) : (l.map not).count true = l.length - l.count true := by
  induction l with
  | nil => rfl
  | cons a l ih =>
    have := List.count_le_length (a := true) (l := l)
    cases a <;> simp [List.count_cons, ih] <;> omega

theorem countT_eq {b : BitVector} {v : RawVec} (hdata : b.data = v) (hones : b.ones = v.bits.count true)
    (tr : Tr) : b.countT tr = (bitsT tr v.bits).count true := by
  cases tr
  · exact hones
  · show b.data.len - b.ones = (v.bits.map not).count true
    rw [count_true_map_not, length_bits, hdata, hones]

/-- `select` / `select_zero` through the wrapper, for any valid support: `None` exactly when the rank is at
least the number of (transformed) set bits, otherwise the specified position; no fault in either mode. -/
theorem selectT_ok {b : BitVector} {v : RawVec} {s : SelSup} {tr : Tr} (hv : v.WF) (hlen : v.len < 2 ^ 64)
    (hdata : b.data = v) (hones : b.ones = v.bits.count true) (hsup : b.supT tr = some s)
    (hs : s.Valid tr v) (m : Mode) (r : Nat) :
    b.selectT tr m r = ok (selectSpec (bitsT tr v.bits) r) := by
  unfold BitVector.selectT
  rw [countT_eq hdata hones tr]
  by_cases h : r ≥ (bitsT tr v.bits).count true
  · rw [if_pos h, selectSpec_eq_none _ _ h]
  · rw [if_neg h, hsup, hdata]
    obtain ⟨p, hp1, hp2⟩ := selectU_ok hv hlen hs m r (by omega)
    simp only [hp1, bind_ok, pure_eq, hp2]

theorem selectQ_ok {b : BitVector} {v : RawVec} {s : SelSup} (hv : v.WF) (hlen : v.len < 2 ^ 64)
    (hdata : b.data = v) (hones : b.ones = v.bits.count true) (hsup : b.select = some s)
    (hs : s.Valid .ident v) (m : Mode) (r : Nat) :
    b.selectQ m r = ok (selectSpec v.bits r) :=
  selectT_ok (tr := .ident) hv hlen hdata hones hsup hs m r

theorem selectZeroQ_ok {b : BitVector} {v : RawVec} {s : SelSup} (hv : v.WF) (hlen : v.len < 2 ^ 64)
    (hdata : b.data = v) (hones : b.ones = v.bits.count true) (hsup : b.selectZero = some s)
    (hs : s.Valid .compl v) (m : Mode) (r : Nat) :
    b.selectZeroQ m r = ok (selectZeroSpec v.bits r) :=
  selectT_ok (tr := .compl) hv hlen hdata hones hsup hs m r

/-- the wrappers with the built supports -/
theorem selectQ_build {b : BitVector} {v : RawVec} (hv : v.WF) (hlen : v.len < 2 ^ 64)
    (hdata : b.data = v) (hones : b.ones = v.bits.count true)
    (hsup : b.select = some (SelSup.build v.len (positionsT .ident v))) (m : Mode) (r : Nat) :
    b.selectQ m r = ok (selectSpec v.bits r) :=
  selectQ_ok hv hlen hdata hones hsup (SelSup.build_valid hv hlen .ident) m r

theorem selectZeroQ_build {b : BitVector} {v : RawVec} (hv : v.WF) (hlen : v.len < 2 ^ 64)
    (hdata : b.data = v) (hones : b.ones = v.bits.count true)
    (hsup : b.selectZero = some (SelSup.build v.len (positionsT .compl v))) (m : Mode) (r : Nat) :
    b.selectZeroQ m r = ok (selectZeroSpec v.bits r) :=
  selectZeroQ_ok hv hlen hdata hones hsup (SelSup.build_valid hv hlen .compl) m r

/-- `None` exactly when the rank is at least the count -/
theorem selectSpec_eq_none_iff (B : List Bool) (r : Nat) : selectSpec B r = none ↔ B.count true ≤ r := by
  constructor
  · intro h
    by_cases hlt : r < B.count true
    · obtain ⟨p, hp⟩ := selectSpec_isSome B r hlt
      rw [hp] at h; cases h
    · omega
  · exact selectSpec_eq_none B r

/-- `BitVector::from(raw)` followed by `enable_select` / `enable_select_zero`, no side hypothesis left -/
theorem selectQ_ofRaw {v : RawVec} (hv : v.WF) (hlen : v.len < 2 ^ 64) (m : Mode) (r : Nat) :
    (BitVector.ofRaw v).enableSelect.selectQ m r = ok (selectSpec v.bits r) :=
  selectQ_build hv hlen rfl (countOnes_eq v hv) rfl m r

theorem selectZeroQ_ofRaw {v : RawVec} (hv : v.WF) (hlen : v.len < 2 ^ 64) (m : Mode) (r : Nat) :
    (BitVector.ofRaw v).enableSelectZero.selectZeroQ m r = ok (selectZeroSpec v.bits r) :=
  selectZeroQ_build hv hlen rfl (countOnes_eq v hv) rfl m r

theorem selectQ_enableAll {v : RawVec} (hv : v.WF) (hlen : v.len < 2 ^ 64) (m : Mode) (r : Nat) :
    (BitVector.ofRaw v).enableAll.selectQ m r = ok (selectSpec v.bits r) :=
  selectQ_build hv hlen rfl (countOnes_eq v hv) rfl m r

theorem selectZeroQ_enableAll {v : RawVec} (hv : v.WF) (hlen : v.len < 2 ^ 64) (m : Mode) (r : Nat) :
    (BitVector.ofRaw v).enableAll.selectZeroQ m r = ok (selectZeroSpec v.bits r) :=
  selectZeroQ_build hv hlen rfl (countOnes_eq v hv) rfl m r


end Sds
