/-
Proofs/Format2: the format specification written from SERIALIZATION.md (`Spec/Format`, namespace `Doc`) against
the codecs of the model — continuation of Proofs/Format.lean.  Namespace `Sds.Format2`.

  1.  run-length encoded bitvector, (→): every vector produced by `From<RLBuilder>` from a builder reached by
      accepted calls has a block layout conforming to the document (`Doc.RLConf`), hence its serialization is a
      run-length encoded bitvector of the document that reads as `(len, maximal runs)`:
      `PInv` (data-level builder invariant incl. padding and the "next run does not fit" rule), `flush_pinv`,
      `runBCalls_pinv`, `conf_of_layout`, `ofBuilder_lay`, `minimalWidth_of_lay`, `rl_build_file_follows_format`.
  2a. run-length, (←), model side: the loader establishes `RLQ.GoodB` on a file with a given layout (`rlld_load_good`).
  2b. run-length, (←), document side: inversion of `Doc.rlInt` / `rlRun` / `rlBlockRuns` / `rlBlocks` under minimal
      encoding (`RLCanon`); `rl_doc_load`.
  2c. concrete files: `rlFileNonCanonical` (document-valid, library panics), `rlFileAdjacent` (not document-valid).
  3.  sparse bitvector, (←): `sp_high_eq`, `sparse_doc_load`, `sparse_doc_load_es`, `sparse_doc_load_supports`,
      `sparse_doc_load_any_supports`; files `sp_w64_file` (width 64), `sp_bad_file` (wrong select support).
  4.  plain wavelet matrix, (←): `wm_levels_eq_cols` (converse of `Doc.wmItems_cols`), `wm_doc_load`; files
      `wmFileGarbage`, `wmFileWrongRank` (present optional structures).
Not proven: see the list at the end of the file.
-/
import Sds.Proofs.Format
import Sds.Proofs.Codec2
import Sds.Proofs.RLQueries
import Sds.Proofs.Glue4
import Sds.Proofs.Glue2
set_option linter.unusedSimpArgs false
set_option linter.unusedVariables false

namespace Sds.Format2
open Sds Outcome RunIter RLBuilder

/-! ## 1. run-length encoded bitvector, direction (→)

### 1.1 the two copies of the list-level vocabulary coincide -/

theorem runUnits_eq (g l : Nat) : Doc.runUnits g l = runUnits g l := rfl

theorem unitsOf_eq : ∀ l : List (Nat × Nat), Doc.unitsOf l = unitsOf l
  | [] => rfl
  | p :: rs => by simp only [Doc.unitsOf, unitsOf, unitsOf_eq rs, runUnits_eq]

theorem lens_eq : ∀ l : List (Nat × Nat), Doc.lens l = lens l
  | [] => rfl
  | p :: rs => by simp only [Doc.lens, lens, lens_eq rs]

theorem span_eq : ∀ l : List (Nat × Nat), Doc.span l = span l
  | [] => rfl
  | p :: rs => by simp only [Doc.span, span, span_eq rs]

theorem absRuns_eq : ∀ (l : List (Nat × Nat)) (n : Nat), Doc.absRuns n l = absRuns n l
  | [], _ => rfl
  | p :: rs, n => by simp only [Doc.absRuns, absRuns, absRuns_eq rs]

/-! ### 1.2 a data-level invariant of the builder that also describes the padding

`done` = the completed blocks, `cur` = the block being filled (runs as `(gap, len)`, as in `RLBuilder.DInv`).
Beyond `DInv`: the data is EXACTLY the completed blocks, each padded with `0` units to 64 units, followed by the
codes of `cur`; and a new block was only started when the next run did not fit (`NoFit`). -/

abbrev Blocks := List (List (Nat × Nat))

/-- a completed block: its codes, padded with `0` to 64 units -/
def padBlk (blk : List (Nat × Nat)) : List Nat :=
  unitsOf blk ++ List.replicate (64 - (unitsOf blk).length) 0

def padAll : Blocks → List Nat
  | [] => []
  | blk :: more => padBlk blk ++ padAll more

/-- the first run of every block but the first did not fit into the preceding block -/
def NoFit : Blocks → Prop
  | [] => True
  | [_] => True
  | a :: b :: rest =>
    (∃ p rs, b = p :: rs ∧ 64 < (unitsOf a).length + (runUnits p.1 p.2).length) ∧ NoFit (b :: rest)

theorem padBlk_length {blk : List (Nat × Nat)} (h : (unitsOf blk).length ≤ 64) : (padBlk blk).length = 64 := by
  unfold padBlk; rw [List.length_append, List.length_replicate]; omega

theorem padAll_length : ∀ (done : Blocks), (∀ blk ∈ done, (unitsOf blk).length ≤ 64) →
    (padAll done).length = 64 * done.length
  | [], _ => rfl
  | blk :: more, h => by
    rw [padAll, List.length_append, padBlk_length (h blk (by simp)),
      padAll_length more (fun x hx => h x (by simp [hx])), List.length_cons]
    omega

theorem padAll_append (a b : Blocks) : padAll (a ++ b) = padAll a ++ padAll b := by
  induction a with
  | nil => rfl
  | cons x a ih => simp only [List.cons_append, padAll, ih, List.append_assoc]

theorem noFit_snoc : ∀ (l : Blocks) (a b : List (Nat × Nat)), NoFit (l ++ [a]) →
    (∃ p rs, b = p :: rs ∧ 64 < (unitsOf a).length + (runUnits p.1 p.2).length) → NoFit (l ++ [a] ++ [b])
  | [], a, b, _, hc => ⟨hc, trivial⟩
  | [x], a, b, h, hc => ⟨h.1, hc, trivial⟩
  | x :: y :: l, a, b, h, hc => ⟨h.1, noFit_snoc (y :: l) a b h.2 hc⟩

/-- appending a run to the last (non-empty) block keeps `NoFit`: only the head of the last block matters -/
theorem noFit_last : ∀ (l : Blocks) (p q : Nat × Nat) (rs : List (Nat × Nat)), NoFit (l ++ [p :: rs]) →
    NoFit (l ++ [p :: (rs ++ [q])])
  | [], _, _, _, _ => trivial
  | [x], p, q, rs, h => by
    obtain ⟨⟨p', rs', e, hlt⟩, _⟩ := h
    injection e with e1 e2
    exact ⟨⟨p, rs ++ [q], rfl, by rw [e1]; exact hlt⟩, trivial⟩
  | x :: y :: l, p, q, rs, h => ⟨h.1, noFit_last (y :: l) p q rs h.2⟩

structure PInv (b : RLBuilder) (done : Blocks) (cur : List (Nat × Nat)) : Prop where
  valid_done : ∀ blk ∈ done, blk ≠ [] ∧ BlockOK blk
  valid_cur : BlockOK cur
  start : cur = [] → done = []
  size : b.samples.size = done.length + (if cur = [] then 0 else 1)
  items : b.data.items = padAll done ++ unitsOf cur
  samples : ∀ i (h : i < b.samples.size),
    b.samples[i] = (lens (done.take i).flatten, span (done.take i).flatten)
  ones : b.ones - b.run.2 = lens done.flatten + lens cur
  tail : b.tail = span done.flatten + span cur
  nofit : NoFit (done ++ [cur])

theorem pinv_empty : PInv {} [] [] := by
  refine ⟨by simp, ⟨by simp, by simp [unitsOf]⟩, fun _ => rfl, rfl, by decide, ?_, rfl, rfl, trivial⟩
  intro i h; exact absurd h (Nat.not_lt_zero _)

theorem PInv.data_len {b : RLBuilder} {done : Blocks} {cur : List (Nat × Nat)} (h : PInv b done cur) :
    b.data.len = 64 * done.length + (unitsOf cur).length := by
  rw [← IntVec.items_length_rl, h.items, List.length_append,
    padAll_length done (fun blk hb => (h.valid_done blk hb).2.2)]

theorem pinv_congr {b b' : RLBuilder} {done : Blocks} {cur : List (Nat × Nat)}
    (h : PInv b done cur) (h1 : b'.samples = b.samples) (h2 : b'.data = b.data)
    (h3 : b'.ones - b'.run.2 = b.ones - b.run.2) (h4 : b'.tail = b.tail) : PInv b' done cur := by
  obtain ⟨d1, d2, d3, d4, d5, d6, d7, d8, d9⟩ := h
  refine ⟨d1, d2, d3, by rw [h1]; exact d4, by rw [h2]; exact d5, ?_, by rw [h3]; exact d7,
    by rw [h4]; exact d8, d9⟩
  intro i hi
  have hi' : i < b.samples.size := by rw [← h1]; exact hi
  rw [← d6 i hi']; simp [h1]

/-- `flush` keeps the invariant -/
theorem flush_pinv (m : Mode) {b : RLBuilder} {done : Blocks} {cur : List (Nat × Nat)}
    (h : b.Inv) (hd : PInv b done cur) :
    ∃ b' done' cur', b.flush m = ok b' ∧ PInv b' done' cur' ∧
      b'.len = b.len ∧ b'.ones = b.ones ∧ b'.run = (b.len, 0) := by
  have hol := h.ones_le
  by_cases hr : b.run.2 = 0
  · refine ⟨b, done, cur, by unfold flush; rw [if_pos hr], hd, rfl, rfl, ?_⟩
    have := h.run_end
    apply Prod.ext <;> simp <;> omega
  obtain ⟨b', e, l1, l2, l3, l4, wf, hcase⟩ := flush_eq m h hr
  have hdl := hd.data_len
  obtain ⟨i1, i2, i3, i4, i5, i6, i7, i8⟩ := h
  obtain ⟨d1, d2, d3, d4, d5, d6, d7, d8, d9⟩ := hd
  have hg : b.run.1 - b.tail < 2 ^ 64 := by rw [← U64_eq]; omega
  have hrup := runUnits_length_pos (b.run.1 - b.tail) b.run.2 hg
  have hrule : (runUnits (b.run.1 - b.tail) b.run.2).length ≤ 64 := by
    have := codeLen_le (b.run.1 - b.tail); have := codeLen_le (b.run.2 - 1)
    rw [runUnits, List.length_append, encodeUnits_length _ hg, encodeUnits_length _ (by rw [← U64_eq]; omega)]
    omega
  have hr2 : b'.run.2 = 0 := by rw [l3]
  generalize hp : (b.run.1 - b.tail, b.run.2) = p at *
  have hp1 : p.1 = b.run.1 - b.tail := by rw [← hp]
  have hp2 : p.2 = b.run.2 := by rw [← hp]
  rw [← hp1, ← hp2] at hcase hrup hrule
  have hpv : p.1 < 2 ^ 64 ∧ 1 ≤ p.2 := ⟨by omega, by omega⟩
  have hsingle : BlockOK [p] := by
    refine ⟨?_, by rw [unitsOf_single]; exact hrule⟩
    intro q hq
    have : q = p := by simpa using hq
    rw [this]; exact hpv
  rcases hcase with ⟨c1, c2, c3⟩ | ⟨c1, c2, c3⟩
  · -- the run fits into the current block
    have hcur : cur ≠ [] := by
      intro hc; rw [if_pos hc] at d4; rw [hc] at hdl; simp [unitsOf] at hdl; omega
    rw [if_neg hcur] at d4
    have hcne : cur ++ [p] ≠ [] := by simp
    refine ⟨b', done, cur ++ [p], e, ⟨d1, ?_, fun hc => absurd hc hcne, ?_, ?_, ?_, ?_, ?_, ?_⟩, l1, l2, l3⟩
    · refine ⟨?_, ?_⟩
      · intro q hq
        rcases List.mem_append.1 hq with hq | hq
        · exact d2.1 q hq
        · have : q = p := by simpa using hq
          rw [this]; exact hpv
      · rw [unitsOf_append, unitsOf_single, List.length_append]; omega
    · rw [c2, if_neg hcne]; exact d4
    · rw [c3, d5, unitsOf_append, unitsOf_single, List.append_assoc]
    · intro i hi
      have hi' : i < b.samples.size := by rw [← c2]; exact hi
      have := d6 i hi'
      rw [← this]; simp [c2]
    · rw [hr2, l2, lens_append]; simp only [lens]; omega
    · rw [l4, span_append]; simp only [span]; omega
    · cases cur with
      | nil => exact absurd rfl hcur
      | cons q rs => exact noFit_last done q p rs d9
  · -- a new block is started
    by_cases hcur : cur = []
    · have hdn := d3 hcur
      subst hcur; subst hdn
      simp only [if_true, List.length_nil, Nat.add_zero] at d4
      simp only [unitsOf, List.length_nil, Nat.mul_zero, Nat.add_zero] at hdl
      have hitems : b.data.items = [] := List.eq_nil_of_length_eq_zero (by rw [IntVec.items_length_rl]; omega)
      rw [d4, hdl, hitems] at c3
      simp only [Nat.zero_mul, Nat.sub_zero, List.replicate_zero, List.nil_append] at c3
      refine ⟨b', [], [p], e, ⟨by simp, hsingle, fun hc => by simp at hc, ?_, ?_, ?_, ?_, ?_, trivial⟩, l1, l2, l3⟩
      · rw [c2, Array.size_push, d4]; simp
      · rw [c3, unitsOf_single]; rfl
      · intro i hi
        have hi0 : i = 0 := by rw [c2, Array.size_push, d4] at hi; omega
        subst hi0
        simp only [c2]
        rw [Array.getElem_push, dif_neg (by omega)]
        simp only [lens, span, List.flatten_nil, Nat.add_zero] at d7 d8
        rw [hp2, d7, d8]; rfl
      · rw [hr2, l2]; simp only [lens, List.flatten_nil] at d7 ⊢; omega
      · rw [l4]; simp only [span, List.flatten_nil] at d8 ⊢; omega
    · rw [if_neg hcur] at d4
      have hzl : b.samples.size * 64 - b.data.len = 64 - (unitsOf cur).length := by omega
      refine ⟨b', done ++ [cur], [p], e, ⟨?_, hsingle, fun hc => by simp at hc, ?_, ?_, ?_, ?_, ?_, ?_⟩, l1, l2, l3⟩
      · intro blk hb
        rcases List.mem_append.1 hb with hb | hb
        · exact d1 blk hb
        · have : blk = cur := by simpa using hb
          rw [this]; exact ⟨hcur, d2⟩
      · rw [c2, Array.size_push, d4]; simp
      · rw [c3, d5, hzl, padAll_append, unitsOf_single]
        simp only [padAll, padBlk, List.append_nil, List.append_assoc]
      · intro i hi
        have hi' : i < b.samples.size + 1 := by rw [c2, Array.size_push] at hi; exact hi
        simp only [c2]
        rw [Array.getElem_push]
        by_cases hlt : i < b.samples.size
        · rw [dif_pos hlt, d6 i hlt, List.take_append_of_le_length (by omega)]
        · rw [dif_neg hlt]
          have hie : i = done.length + 1 := by omega
          subst hie
          rw [List.take_of_length_le (by simp), List.flatten_append, lens_append, span_append]
          simp only [List.flatten_cons, List.flatten_nil, List.append_nil]
          congr 1 <;> omega
      · rw [hr2, l2, List.flatten_append, lens_append]
        simp only [List.flatten_cons, List.flatten_nil, List.append_nil, lens]; omega
      · rw [l4, List.flatten_append, span_append]
        simp only [List.flatten_cons, List.flatten_nil, List.append_nil, span]; omega
      · exact noFit_snoc done cur [p] d9 ⟨p, [], rfl, by omega⟩

theorem trySet_pinv (m : Mode) {b b' : RLBuilder} {done : Blocks} {cur : List (Nat × Nat)}
    (hi : b.Inv) (hd : PInv b done cur) (start len : Nat) (hlen : len < U64)
    (hs : b.trySet m start len = ok b') : ∃ done' cur', PInv b' done' cur' := by
  have hol := hi.ones_le
  unfold trySet at hs
  by_cases c1 : start < b.len
  · rw [if_pos c1] at hs; cases hs
  rw [if_neg c1] at hs
  by_cases c2 : U64 - 1 - len < start
  · rw [if_pos c2] at hs; cases hs
  rw [if_neg c2] at hs
  unfold setRunUnchecked at hs
  by_cases hz : len = 0
  · rw [if_pos hz] at hs; injection hs with hs; subst hs
    exact ⟨done, cur, hd⟩
  rw [if_neg hz] at hs
  by_cases hst : start = b.len
  · rw [if_pos hst] at hs
    have i1 := hi.run_end; have i2 := hi.run_le_ones
    rw [addM_ok (by omega), bind_ok, addM_ok (by omega), bind_ok, addM_ok (by omega), bind_ok] at hs
    injection hs with hs; subst hs
    exact ⟨done, cur, pinv_congr hd rfl rfl (by show b.ones + len - (b.run.2 + len) = _; omega) rfl⟩
  · rw [if_neg hst] at hs
    obtain ⟨b1, done', cur', e, hd1, l1, l2, l3⟩ := flush_pinv m hi hd
    have hr2 : b1.run.2 = 0 := by rw [l3]
    rw [e, bind_ok, addM_ok (by omega), bind_ok, addM_ok (by omega), bind_ok] at hs
    injection hs with hs; subst hs
    exact ⟨done', cur', pinv_congr hd1 rfl rfl (by show b1.ones + len - len = _; omega) rfl⟩

theorem setLen_pinv (m : Mode) {b b' : RLBuilder} {done : Blocks} {cur : List (Nat × Nat)}
    (hi : b.Inv) (hd : PInv b done cur) (n : Nat) (hs : b.setLen m n = ok b') :
    ∃ done' cur', PInv b' done' cur' := by
  unfold setLen at hs
  by_cases hc : n > b.len
  · rw [if_pos hc] at hs
    obtain ⟨b1, done', cur', e, hd1, l1, l2, l3⟩ := flush_pinv m hi hd
    have hr2 : b1.run.2 = 0 := by rw [l3]
    rw [e, bind_ok] at hs
    injection hs with hs; subst hs
    exact ⟨done', cur', pinv_congr hd1 rfl rfl (by show b1.ones - 0 = b1.ones - b1.run.2; omega) rfl⟩
  · rw [if_neg hc] at hs; injection hs with hs; subst hs
    exact ⟨done, cur, hd⟩

open RL in
theorem applyCall_pinv (m : Mode) {b b' : RLBuilder} {done : Blocks} {cur : List (Nat × Nat)}
    (hi : b.Inv) (hd : PInv b done cur) (c : BCall) (hc : callArgsOk c) (h : applyCall m b c = ok b') :
    b'.Inv ∧ ∃ done' cur', PInv b' done' cur' := by
  cases c with
  | set start len => exact ⟨trySet_inv m hi start len hc h, trySet_pinv m hi hd start len hc h⟩
  | setLen n => exact ⟨setLen_inv m hi n hc h, setLen_pinv m hi hd n h⟩
  | bit i => exact ⟨trySet_inv m hi i 1 (by decide) h, trySet_pinv m hi hd i 1 (by decide) h⟩

open RL in
theorem runBCalls_pinv (m : Mode) : ∀ (calls : List BCall) (b b' : RLBuilder) (done : Blocks)
    (cur : List (Nat × Nat)), (∀ c ∈ calls, callArgsOk c) → b.Inv → PInv b done cur →
    runBCalls m calls b = ok b' → b'.Inv ∧ ∃ done' cur', PInv b' done' cur' := by
  intro calls
  induction calls with
  | nil =>
    intro b b' done cur _ hi hd h
    injection h with h; subst h; exact ⟨hi, done, cur, hd⟩
  | cons c cs ih =>
    intro b b' done cur hc hi hd h
    obtain ⟨b1, h1, h2⟩ := Outcome.bind_eq_ok h
    obtain ⟨hi1, done1, cur1, hd1⟩ := applyCall_pinv m hi hd c (hc c (by simp)) h1
    exact ih b1 b' done1 cur1 (fun c' hc' => hc c' (by simp [hc'])) hi1 hd1 h2

/-! ### 1.3 from the layout to the document's conformance predicate -/


/-- the data of a finished vector: every block but the last padded to 64 units, the last one not padded -/
def padLast : Blocks → List Nat
  | [] => []
  | [a] => unitsOf a
  | a :: b :: r => padBlk a ++ padLast (b :: r)

theorem padLast_snoc : ∀ (d : Blocks) (c : List (Nat × Nat)), padLast (d ++ [c]) = padAll d ++ unitsOf c
  | [], c => rfl
  | [a], c => by simp [padLast, padAll]
  | a :: b :: r, c => by
    have := padLast_snoc (b :: r) c
    simp only [List.cons_append, padLast, padAll, List.append_assoc] at this ⊢
    rw [this]

theorem padLast_cons_units (a : List (Nat × Nat)) (r : Blocks) : ∃ rest, padLast (a :: r) = unitsOf a ++ rest := by
  cases r with
  | nil => exact ⟨[], by simp [padLast]⟩
  | cons b r => exact ⟨_, by simp only [padLast, padBlk, List.append_assoc]; rfl⟩

theorem padLast_drop : ∀ (bl : Blocks) (i : Nat), (∀ blk ∈ bl, (unitsOf blk).length ≤ 64) → i ≤ bl.length →
    (padLast bl).drop (64 * i) = padLast (bl.drop i)
  | bl, 0, _, _ => by simp
  | [], i + 1, _, h => by simp at h
  | [a], i + 1, hv, h => by
    have hi : i = 0 := by simpa using h
    subst hi
    simp only [padLast, List.drop_succ_cons, List.drop_zero]
    exact List.drop_eq_nil_of_le (by have := hv a (by simp); omega)
  | a :: b :: r, i + 1, hv, h => by
    have hl := padBlk_length (hv a (by simp))
    simp only [padLast, List.drop_succ_cons]
    rw [show 64 * (i + 1) = 64 + 64 * i by omega, ← List.drop_drop, List.drop_left' hl]
    exact padLast_drop (b :: r) i (fun x hx => hv x (by simp [hx])) (by simpa using h)

theorem noFit_tail : ∀ (a : List (Nat × Nat)) (r : Blocks), NoFit (a :: r) → NoFit r
  | _, [], _ => trivial
  | _, _ :: _, h => h.2

theorem noFit_drop : ∀ (bl : Blocks) (i : Nat), NoFit bl → NoFit (bl.drop i)
  | bl, 0, h => by simpa using h
  | [], i + 1, _ => by simp [NoFit]
  | a :: r, i + 1, h => by
    rw [List.drop_succ_cons]; exact noFit_drop r i (noFit_tail a r h)

theorem gapsOk_append : ∀ (a b : List (Nat × Nat)) (n : Nat),
    Doc.GapsOk n (a ++ b) ↔ Doc.GapsOk n a ∧ Doc.GapsOk (n + span a) b
  | [], b, n => by simp [Doc.GapsOk, span]
  | p :: a, b, n => by
    simp only [List.cons_append, Doc.GapsOk, span, gapsOk_append a b]
    rw [show n + p.1 + p.2 + span a = n + (p.1 + p.2 + span a) by omega]
    exact and_assoc.symm

theorem gaps_block (bl : Blocks) (h : Doc.GapsOk 0 bl.flatten) (i : Nat) (hi : i < bl.length) :
    Doc.GapsOk (RLQ.cumS bl i) bl[i] := by
  have e : bl.flatten = (bl.take i).flatten ++ (bl[i] ++ (bl.drop (i + 1)).flatten) := by
    have h1 : bl = bl.take i ++ (bl[i] :: bl.drop (i + 1)) := by
      rw [← List.drop_eq_getElem_cons hi, List.take_append_drop]
    have h2 := congrArg List.flatten h1
    rw [List.flatten_append, List.flatten_cons] at h2
    exact h2
  rw [e, gapsOk_append, gapsOk_append] at h
  have := h.2.1
  rw [Nat.zero_add] at this
  exact this

/-- **the block layout of a finished vector conforms to the document** -/
theorem conf_of_layout (U S : List Nat) (ones : Nat) (bl : Blocks)
    (hU : U = padLast bl)
    (hS : ∀ i, i < bl.length → S[2 * i]? = some (RLQ.cumL bl i) ∧ S[2 * i + 1]? = some (RLQ.cumS bl i))
    (hv : ∀ blk ∈ bl, blk ≠ [] ∧ Doc.RunsOk blk ∧ (unitsOf blk).length ≤ 64)
    (hones : ones = lens bl.flatten) (hnf : NoFit bl) (hg : Doc.GapsOk 0 bl.flatten) :
    ∀ k, k ≤ bl.length → Doc.RLConf U.toArray S.toArray ones bl.length (bl.length - k)
      (RLQ.cumS bl (bl.length - k)) (RLQ.cumL bl (bl.length - k)) (bl.drop (bl.length - k)) := by
  intro k
  induction k with
  | zero =>
    intro _
    rw [Nat.sub_zero, List.drop_length]
    exact Nat.le_refl _
  | succ k ih =>
    intro hk
    have ih := ih (by omega)
    generalize hidef : bl.length - (k + 1) = i at *
    have hi : i < bl.length := by omega
    rw [show bl.length - k = i + 1 by omega] at ih
    have hblk := hv bl[i] (List.getElem_mem hi)
    have hup : 1 ≤ (unitsOf bl[i]).length :=
      unitsOf_length_pos hblk.1 (fun p hp => ⟨(hblk.2.1 p hp).1, (hblk.2.1 p hp).2.1⟩)
    have hd : U.drop (64 * i) = padLast (bl[i] :: bl.drop (i + 1)) := by
      rw [hU, padLast_drop bl i (fun b hb => (hv b hb).2.2) (by omega), List.drop_eq_getElem_cons hi]
    have hUl : 64 * i + (padLast (bl[i] :: bl.drop (i + 1))).length = U.length := by
      have := congrArg List.length hd
      rw [List.length_drop] at this
      obtain ⟨rest, hr⟩ := padLast_cons_units bl[i] (bl.drop (i + 1))
      rw [hr, List.length_append] at this ⊢
      omega
    rw [List.drop_eq_getElem_cons hi]
    refine ⟨hi, ?_, ?_, hblk.2.1, gaps_block bl hg i hi, ?_, ?_, ?_, ?_⟩
    · rw [List.getElem?_toArray, (hS i hi).1]; rfl
    · rw [List.getElem?_toArray, (hS i hi).2]; rfl
    · obtain ⟨rest, hr⟩ := padLast_cons_units bl[i] (bl.drop (i + 1))
      exact ⟨rest, by rw [List.toList_toArray, hd, hr, unitsOf_eq]⟩
    · obtain ⟨rest, hr⟩ := padLast_cons_units bl[i] (bl.drop (i + 1))
      rw [hr, List.length_append] at hUl
      rw [unitsOf_eq, List.size_toArray]
      omega
    · rw [unitsOf_eq, lens_eq, List.size_toArray]
      by_cases hlast : i + 1 ≥ bl.length
      · rw [if_pos hlast]
        have hdn : bl.drop (i + 1) = [] := List.drop_eq_nil_of_le hlast
        rw [hdn] at hUl
        simp only [padLast] at hUl
        refine ⟨?_, by omega⟩
        rw [hones, ← RLQ.cumL_length, show bl.length = i + 1 by omega, RLQ.cumL_succ bl i hi]
      · rw [if_neg hlast]
        have hi1 : i + 1 < bl.length := by omega
        have hdn : bl.drop (i + 1) = bl[i + 1] :: bl.drop (i + 2) := List.drop_eq_getElem_cons hi1
        rw [hdn] at hd hUl
        simp only [padLast, padBlk] at hd hUl
        have hnext := hv bl[i + 1] (List.getElem_mem hi1)
        have hnf' := noFit_drop bl i hnf
        rw [List.drop_eq_getElem_cons hi, hdn] at hnf'
        obtain ⟨⟨p, rs, hprs, hlt⟩, _⟩ := hnf'
        refine ⟨?_, ?_, Or.inr ⟨p, rs, bl.drop (i + 2), by rw [hdn, hprs], ?_⟩⟩
        · rw [List.getElem?_toArray, (hS (i + 1) hi1).1, RLQ.cumL_succ bl i hi]; rfl
        · intro j hj
          rw [List.getElem?_toArray, Nat.add_assoc, ← List.getElem?_drop, hd, List.append_assoc,
            List.getElem?_append_right (by omega), Nat.add_sub_cancel_left,
            List.getElem?_append_left (by rw [List.length_replicate]; omega), List.getElem?_replicate,
            if_pos (by omega)]
          rfl
        · rw [runUnits_eq]; omega
    · rw [span_eq, lens_eq, ← RLQ.cumS_succ bl i hi, ← RLQ.cumL_succ bl i hi]
      exact ih

/-! ### 1.4 what `From<RLBuilder>` produces -/

/-- the vector produced by `From<RLBuilder>` from a builder satisfying the invariants: its data is the padded
block sequence `bl`, its samples are the cumulative `(ones, bits)` of `bl`, stored with the bit length of the last
bits-sample as width -/
theorem ofBuilder_lay (m : Mode) {b : RLBuilder} {v : RL} {done : Blocks} {cur : List (Nat × Nat)}
    (hi : b.Inv) (hd : PInv b done cur) (h : RL.ofBuilder m b = ok v) :
    ∃ bl : Blocks, v.data.items = padLast bl ∧ v.samples.len = 2 * bl.length ∧
      (∀ i, i < bl.length → v.samples.items[2 * i]? = some (RLQ.cumL bl i) ∧
        v.samples.items[2 * i + 1]? = some (RLQ.cumS bl i)) ∧
      (∀ blk ∈ bl, blk ≠ [] ∧ BlockOK blk) ∧ v.ones = lens bl.flatten ∧ span bl.flatten ≤ v.len ∧
      NoFit bl ∧ v.len < U64 ∧ v.data.width = 4 ∧ v.samples.WF ∧
      v.samples.width = bitLen (BitVec.ofNat 64 (RLQ.cumS bl (bl.length - 1))) := by
  obtain ⟨b', w, zs, zeros, e', f1, f2, f3, w1, w2, wdef, f4, _⟩ := Codec2.ofBuilder_parts m h
  obtain ⟨b1, done', cur', e, hd1, l1, l2, l3⟩ := flush_pinv m hi hd
  rw [e] at e'; injection e' with e'; subst e'
  have hi1 := flush_inv m hi e
  have hr2 : b1.run.2 = 0 := by rw [l3]
  have hdl := hd1.data_len
  obtain ⟨d1, d2, d3, d4, d5, d6, d7, d8, d9⟩ := hd1
  have hslen : b1.samples.toList.length = b1.samples.size := Array.length_toList
  have hones : b1.ones = lens done'.flatten + lens cur' := by rw [hr2] at d7; omega
  have htl := hi1.tail_le
  have hre := hi1.run_end
  have hlt := hi1.len_lt
  have hsp : span done'.flatten + span cur' ≤ b1.len := by omega
  by_cases hcur : cur' = []
  · have hdn := d3 hcur
    subst hcur; subst hdn
    simp only [if_true, List.length_nil, Nat.add_zero] at d4
    have hsl : b1.samples.toList = [] := List.eq_nil_of_length_eq_zero (by rw [hslen, d4])
    rw [hsl] at f4 wdef
    simp only [List.foldl_nil] at f4
    refine ⟨[], by rw [f3, d5]; rfl, by rw [f4]; rfl, fun i hi => absurd hi (Nat.not_lt_zero _), by simp,
      by rw [f2, hones]; rfl, by simp [span], trivial, by rw [f1]; exact hlt, by rw [f3]; exact hi1.data_w,
      by rw [f4]; exact ⟨w1, w2, by simp [RawVec.empty], RawVec.empty_WF⟩, ?_⟩
    rw [f4]; exact wdef
  · rw [if_neg hcur] at d4
    have hbl : (done' ++ [cur']).length = done'.length + 1 := by simp
    have htake : ∀ j, j ≤ done'.length → (done' ++ [cur']).take j = done'.take j :=
      fun j hj => List.take_append_of_le_length hj
    have hmv : (b1.samples.toList.getLast?.map (·.2)).getD 0 = span done'.flatten := by
      rw [List.getLast?_eq_getElem?, hslen, d4, Nat.add_sub_cancel,
        List.getElem?_eq_getElem (by rw [hslen, d4]; omega), Array.getElem_toList]
      rw [d6 _ (by omega)]
      simp [List.take_length]
    have hmvlt : span done'.flatten < 2 ^ 64 := by rw [← U64_eq]; omega
    obtain ⟨_, _, hmvw, _⟩ := bitLen_spec_rl _ hmvlt
    rw [hmv] at wdef
    rw [← wdef] at hmvw
    generalize hbldef : done' ++ [cur'] = bl at *
    have hslbl : b1.samples.toList.length = bl.length := by rw [hslen, d4, hbl]
    have hslget : ∀ j (hj : j < b1.samples.toList.length),
        b1.samples.toList[j] = (RLQ.cumL bl j, RLQ.cumS bl j) := by
      intro j hj
      rw [Array.getElem_toList, d6 j (by omega)]
      unfold RLQ.cumL RLQ.cumS
      rw [htake j (by omega)]
    have hflat : bl.flatten = done'.flatten ++ cur' := by rw [← hbldef]; simp [List.flatten_append]
    have hblk : ∀ blk ∈ bl, blk ≠ [] ∧ BlockOK blk := by
      intro blk hb
      rw [← hbldef] at hb
      rcases List.mem_append.mp hb with hb | hb
      · exact d1 blk hb
      · rw [List.mem_singleton.mp hb]; exact ⟨hcur, d2⟩
    have hlast : RLQ.cumS bl done'.length = span done'.flatten := by
      unfold RLQ.cumS; rw [htake _ (Nat.le_refl _), List.take_length]
    have hbound : ∀ j, j < bl.length → RLQ.cumL bl j < 2 ^ w ∧ RLQ.cumS bl j < 2 ^ w := by
      intro j hj
      have a := RLQ.cumL_le_cumS bl j
      have c := RLQ.cumS_mono bl j done'.length (by omega)
      omega
    have hfit : ∀ p, p ∈ b1.samples.toList → p.1 < 2 ^ w ∧ p.2 < 2 ^ w := by
      intro p hp
      obtain ⟨j, hj, rfl⟩ := List.getElem_of_mem hp
      rw [hslget j hj]
      exact hbound j (by omega)
    obtain ⟨s1, s2, s3, s4, _⟩ := Codec2.samples_cols (sl := b1.samples.toList) w1 w2 hfit
    rw [← f4] at s1 s2 s3 s4
    refine ⟨bl, ?_, by rw [s3, hslbl], ?_, hblk, by rw [f2, hones, hflat, lens_append],
      by rw [f1, hflat, span_append]; exact hsp, d9, by rw [f1]; exact hlt,
      by rw [f3]; exact hi1.data_w, s1, ?_⟩
    · rw [f3, d5, ← hbldef, padLast_snoc]
    · intro i hib
      obtain ⟨g1, g2⟩ := s4 i (by omega)
      rw [IntVec.items_getElem?, IntVec.items_getElem?, if_pos (by rw [s3]; omega),
        if_pos (by rw [s3]; omega), g1, g2, hslget i (by omega)]
      exact ⟨rfl, rfl⟩
    · rw [s2, wdef, hbl, Nat.add_sub_cancel, hlast]

/-- "Samples as an integer vector with the minimal width necessary" -/
theorem minimalWidth_of_lay (S : List Nat) (bl : Blocks) (w : Nat) (hlen : S.length = 2 * bl.length)
    (hS : ∀ i, i < bl.length → S[2 * i]? = some (RLQ.cumL bl i) ∧ S[2 * i + 1]? = some (RLQ.cumS bl i))
    (hlt : RLQ.cumS bl (bl.length - 1) < 2 ^ 64)
    (hw : w = bitLen (BitVec.ofNat 64 (RLQ.cumS bl (bl.length - 1)))) : Doc.minimalWidth w S = true := by
  have hmax : S.foldl max 0 = RLQ.cumS bl (bl.length - 1) := by
    apply Nat.le_antisymm
    · apply Nat.le_of_lt_succ
      apply foldl_max_lt_wm S 0 _ (Nat.succ_pos _)
      intro x hx
      obtain ⟨k, hk, rfl⟩ := List.getElem_of_mem hx
      have hj : k / 2 < bl.length := by omega
      obtain ⟨g1, g2⟩ := hS (k / 2) hj
      have c := RLQ.cumS_mono bl (k / 2) (bl.length - 1) (by omega)
      have a := RLQ.cumL_le_cumS bl (k / 2)
      rcases Nat.mod_two_eq_zero_or_one k with hm | hm
      · rw [show 2 * (k / 2) = k by omega, List.getElem?_eq_getElem hk] at g1
        injection g1 with g1; omega
      · rw [show 2 * (k / 2) + 1 = k by omega, List.getElem?_eq_getElem hk] at g2
        injection g2 with g2; omega
    · by_cases h0 : bl.length = 0
      · have : bl = [] := List.eq_nil_of_length_eq_zero h0
        subst this
        simp [RLQ.cumS, span]
      · have := (hS (bl.length - 1) (by omega)).2
        exact (foldl_max_ge_wm S 0).2 _ (List.mem_of_getElem? this)
  unfold Doc.minimalWidth
  rw [hmax, hw, Doc.bitLength_eq_bitLen _ hlt]
  simp

/-! ### 1.5 the runs of the layout are the maximal runs of the described bit sequence -/

theorem collect_det (m : Mode) (v : RL) : ∀ (f f' : Nat) (it : RunIter)
    (out out' : List ((Nat × Nat) × (Nat × Nat))) (e e' : RunIter),
    collect m v f it = ok (out, e) → collect m v f' it = ok (out', e') → out = out' ∧ e = e' := by
  intro f
  induction f with
  | zero => intro f' it out out' e e' h; cases h
  | succ f ih =>
    intro f' it out out' e e' h h'
    cases f' with
    | zero => cases h'
    | succ f' =>
      rw [collect] at h h'
      cases hn : nextQ m v it with
      | fault x => rw [hn] at h; cases h
      | ok r =>
        obtain ⟨o, it'⟩ := r
        rw [hn, bind_ok] at h h'
        cases o with
        | none =>
          simp only [pure_eq] at h h'
          injection h with h; injection h' with h'
          injection h with a1 a2; injection h' with b1 b2
          exact ⟨a1.symm.trans b1, a2.symm.trans b2⟩
        | some r =>
          simp only at h h'
          obtain ⟨⟨rs, e1⟩, hc, h⟩ := Outcome.bind_eq_ok h
          obtain ⟨⟨rs', e1'⟩, hc', h'⟩ := Outcome.bind_eq_ok h'
          obtain ⟨q1, q2⟩ := ih f' it' rs rs' e1 e1' hc hc'
          simp only [pure_eq] at h h'
          injection h with h; injection h' with h'
          subst q1; subst q2
          injection h with a1 a2; injection h' with b1 b2
          exact ⟨a1.symm.trans b1, a2.symm.trans b2⟩

theorem padLast_length_le (bl : Blocks) (hv : ∀ blk ∈ bl, (unitsOf blk).length ≤ 64) :
    (padLast bl).length ≤ 64 * bl.length := by
  have := padLast_drop bl bl.length hv (Nat.le_refl _)
  rw [List.drop_length] at this
  exact List.drop_eq_nil_iff.mp this

/-- the iterator's view (`RunIter.Layout`) of the same layout -/
theorem layout_of_lay {v : RL} {bl : Blocks} (hU : v.data.items = padLast bl)
    (hlen : v.samples.len = 2 * bl.length)
    (hS : ∀ i, i < bl.length → v.samples.items[2 * i]? = some (RLQ.cumL bl i) ∧
        v.samples.items[2 * i + 1]? = some (RLQ.cumS bl i))
    (hv : ∀ blk ∈ bl, blk ≠ [] ∧ BlockOK blk) (hones : v.ones = lens bl.flatten) : Layout v 0 0 bl := by
  have hb : v.blocks = bl.length := by unfold RL.blocks; omega
  have := RL.layout_of_blocks v bl (RLQ.cumL bl) hb (by rw [hones, RLQ.cumL_length])
    (by rw [← IntVec.items_length_rl, hU]; exact padLast_length_le bl (fun b hb => (hv b hb).2.2))
    (by
      intro i hi
      have hm := hv bl[i] (List.getElem_mem hi)
      refine ⟨hm.1, hm.2, ?_, ?_, RLQ.cumL_succ bl i hi⟩
      · obtain ⟨rest, hr⟩ := padLast_cons_units bl[i] (bl.drop (i + 1))
        exact ⟨rest, by rw [hU, padLast_drop bl i (fun b hb => (hv b hb).2.2) (by omega),
          List.drop_eq_getElem_cons hi, hr]⟩
      · unfold RL.onesAfter
        rw [hb]
        by_cases hl : i + 1 < bl.length
        · rw [if_pos hl, IntVec.get_ok_rl (by omega)]
          simp only [bind_ok, pure_eq]
          have := (hS (i + 1) hl).1
          rw [IntVec.items_getElem?, if_pos (by omega)] at this
          injection this with this
          rw [this, RLQ.cumL_succ bl i hi]
        · rw [if_neg hl, hones, ← RLQ.cumL_length, ← RLQ.cumL_succ bl i hi,
            show i + 1 = bl.length by omega])
    bl.length (Nat.le_refl _)
  rw [Nat.sub_self, List.drop_zero] at this
  exact this

theorem mem_lens_le : ∀ (l : List (Nat × Nat)) (p : Nat × Nat), p ∈ l → p.2 ≤ lens l
  | q :: l, p, h => by
    rcases List.mem_cons.mp h with rfl | h
    · simp only [lens]; omega
    · have := mem_lens_le l p h; simp only [lens]; omega

theorem gapsOk_of_pos : ∀ (rs : List (Nat × Nat)) (n : Nat), (∀ q ∈ rs, 1 ≤ q.1) → Doc.GapsOk n rs
  | [], _, _ => trivial
  | q :: rs, n, h =>
    ⟨fun h0 => by have := h q (by simp); omega, gapsOk_of_pos rs _ (fun x hx => h x (by simp [hx]))⟩

/-- **(→, run-length encoded bitvector, unconditional).**  Every vector produced by `From<RLBuilder>` from a
builder reached by an accepted history of `try_set` / `set_len` / `set_bit` calls describing the bit sequence `B`
is written as a run-length encoded bitvector of the document, and the document reads its length and exactly the
maximal runs of `B` from it — in particular: width-4 data, two samples per 64-unit block with the minimal width,
each sample = (set bits, bits) before the block, whole runs per block, `0` padding only where the next run does not
fit, no padding in the final block, maximal runs.  In both modes.
(`hsize`: the two integer vectors fit a `usize`-addressed file, as in `Codec2.build_rlWF`.) -/
theorem rl_build_file_follows_format (m : Mode) (calls : List RL.BCall) (hc : ∀ c ∈ calls, RL.callArgsOk c)
    (b : RLBuilder) (hb : RL.runBCalls m calls {} = ok b) (v : RL) (hv : RL.ofBuilder m b = ok v)
    (hsize : 128 * v.samples.len < 2 ^ 64) (rest : Doc.File) :
    Doc.rl ((rlC m).ser v ++ rest) =
      some (((calls.foldl RL.specCall []).length, maximalRuns (calls.foldl RL.specCall [])), rest) ∧
    ∃ bl : Blocks, Doc.RLConf v.data.items.toArray v.samples.items.toArray v.ones ((v.data.len + 63) / 64) 0 0 0 bl ∧
      absRuns 0 bl.flatten = maximalRuns (calls.foldl RL.specCall []) := by
  obtain ⟨hi, done, cur, hd⟩ := runBCalls_pinv m calls {} b [] [] hc inv_empty pinv_empty hb
  obtain ⟨bl, g1, g2, g3, g4, g5, g6, g7, g8, g9, g10, g11⟩ := ofBuilder_lay m hi hd hv
  obtain ⟨k1, k2, k3, k4, k5, _⟩ := Codec2.build_rlWF m calls hc b hb v hv hsize
  obtain ⟨e1, e2, it0, e, endPos, r1, r2, _⟩ := RL.build_iterate_calls m calls hc b hb v hv
  generalize calls.foldl RL.specCall [] = B at *
  have hlens : lens bl.flatten < U64 := by have := lens_le_span bl.flatten; omega
  have hspan : span bl.flatten < U64 := by omega
  -- the runs
  have hL := layout_of_lay g1 g2 g3 g4 g5
  obtain ⟨it0', e', r1', r2', _⟩ := runIter_collect m v bl hL hlens hspan
  rw [r1] at r1'; injection r1' with r1'; subst r1'
  have hruns : absRuns 0 bl.flatten = maximalRuns B := by
    have := (collect_det m v _ _ _ _ _ _ _ r2' r2).1
    have := congrArg (List.map (·.1)) this
    rw [withPos_map_fst, withPos_map_fst] at this
    exact this
  -- maximal runs: every gap but the first is positive
  have hgaps : Doc.GapsOk 0 bl.flatten := by
    have hsep := RLQ.maximalRuns_sep B
    rw [← hruns] at hsep
    cases hfe : bl.flatten with
    | nil => trivial
    | cons p rs =>
      rw [hfe] at hsep
      exact ⟨fun _ => rfl, gapsOk_of_pos rs _ (RLQ.sep_gap_tail hsep)⟩
  have hvalid : ∀ blk ∈ bl, blk ≠ [] ∧ Doc.RunsOk blk ∧ (unitsOf blk).length ≤ 64 := by
    intro blk hb
    obtain ⟨a1, a2, a3⟩ := g4 blk hb
    refine ⟨a1, fun p hp => ⟨(a2 p hp).1, (a2 p hp).2, ?_⟩, a3⟩
    have := mem_lens_le bl.flatten p (List.mem_flatten.mpr ⟨blk, hb, hp⟩)
    rw [← U64_eq]; omega
  have hnb : (v.data.len + 63) / 64 = bl.length := by omega
  have hconf := conf_of_layout v.data.items v.samples.items v.ones bl g1 g3 hvalid g5 g7 hgaps bl.length
    (Nat.le_refl _)
  rw [Nat.sub_self, List.drop_zero, ← hnb] at hconf
  have hcs : RLQ.cumS bl 0 = 0 := rfl
  have hcl : RLQ.cumL bl 0 = 0 := rfl
  rw [hcs, hcl] at hconf
  have hmin := minimalWidth_of_lay v.samples.items bl v.samples.width
    (by rw [IntVec.items_length_rl]; exact g2) g3
    (by have := RLQ.cumS_le bl (bl.length - 1); rw [← U64_eq]; omega) g11
  have := Doc.rl_ser_of_conf m v k4 k5 k1 k2 g9 (by omega) hmin bl hconf
    (by rw [lens_eq]; exact g5.symm) (by rw [span_eq]; exact g6) rest
  rw [absRuns_eq, hruns, e1] at this
  exact ⟨this, bl, hconf, hruns⟩

end Sds.Format2

/-! ## 2a. run-length encoded bitvector: the loader establishes `RLQ.GoodB` on a file with a given block layout  (helper Q4r)

Proofs/Format2R: `RLVector::load` establishes the block-layout invariant `RLQ.GoodB` on a file whose two
integer vectors (`samples`, `data`) have a given block layout (both modes).
-/

namespace Sds.Format2
open Sds Outcome RunIter RLBuilder

/-- the three columns `load` reads back from a samples vector that stores `(cumL, cumS)` per block -/
theorem rlld_cols (vs : IntVec) (bl : List (List (Nat × Nat))) (hslen : vs.len = 2 * bl.length)
    (hsm : ∀ i, i < bl.length → (vs.getRaw (2 * i)).toNat = RLQ.cumL bl i ∧
                               (vs.getRaw (2 * i + 1)).toNat = RLQ.cumS bl i) :
    Codec2.bitsCol vs = RLQ.bitsCol bl ∧ Codec2.onesCol vs = RLQ.onesCol bl ∧
      Codec2.zerosCol vs = RLQ.zerosCol bl := by
  have hl2 : vs.len / 2 = bl.length := by omega
  refine ⟨?_, ?_, ?_⟩
  · unfold Codec2.bitsCol RLQ.bitsCol
    rw [hl2]
    exact List.map_congr_left (fun i hi => (hsm i (List.mem_range.mp hi)).2)
  · unfold Codec2.onesCol RLQ.onesCol
    rw [hl2]
    exact List.map_congr_left (fun i hi => (hsm i (List.mem_range.mp hi)).1)
  · unfold Codec2.zerosCol RLQ.zerosCol
    rw [hl2]
    exact List.map_congr_left (fun i hi => by
      have := hsm i (List.mem_range.mp hi)
      rw [this.1, this.2])

/-- strictly fewer zeros precede a block than the vector has, when the universe of zeros is not empty -/
theorem rlld_cumZ_lt (bl : List (List (Nat × Nat))) (hblk : ∀ blk ∈ bl, blk ≠ [] ∧ BlockOK blk)
    (hgap : ∀ p rest', bl.flatten = p :: rest' → ∀ q ∈ rest', 1 ≤ q.1)
    (z : Nat) (hz : span bl.flatten - lens bl.flatten ≤ z) (hz0 : z ≠ 0) (i : Nat) (hi : i < bl.length) :
    RLQ.cumS bl i - RLQ.cumL bl i < z := by
  by_cases hi0 : i = 0
  · subst hi0; rw [RLQ.cumS_zero, RLQ.cumL_zero]; omega
  · cases hfe : bl.flatten with
    | nil =>
      have := (RLQ.cumS_lt bl hblk i hi).1
      rw [hfe] at this; simp [lens] at this
    | cons p rest' =>
      have hg := hgap p rest' hfe
      have := RLQ.cumZ_lt bl hblk hfe hg i (by omega) hi
      omega

/-- the length of a loaded integer vector was read from one 64-bit element -/
theorem rlld_intVec_len_lt {es rest : Elems} {v : IntVec} (h : intVecC.load es = ok (v, rest)) :
    v.len < 2 ^ 64 := by
  cases es with
  | nil => cases h
  | cons w es' =>
    have e : intVecC.load (w :: es') = (do
        let (width, r) ← usizeC.load es'
        let (data, r) ← rawVecC.load r
        if w.toNat * width ≠ data.len then fault (.err .invalid) else return (⟨w.toNat, width, data⟩, r)) := rfl
    rw [e] at h
    obtain ⟨⟨width, r2⟩, _, h⟩ := Outcome.bind_eq_ok h
    obtain ⟨⟨data, r3⟩, _, h⟩ := Outcome.bind_eq_ok h
    dsimp only at h
    split at h
    · cases h
    · injection h with h
      injection h with h _
      rw [← h]
      exact w.isLt

theorem rlld_load_good (m : Mode) (lenE onesE : Word) (r r1 rest : Elems) (vs vd : IntVec)
    (bl : List (List (Nat × Nat)))
    (hs : intVecC.load r = ok (vs, r1)) (hd : intVecC.load r1 = ok (vd, rest))
    (hslen : vs.len = 2 * bl.length)
    (hdlen : (vd.len + 63) / 64 = bl.length)
    (hblk : ∀ blk ∈ bl, blk ≠ [] ∧ BlockOK blk)
    (hdata : ∀ i (h : i < bl.length), ∃ tail, vd.items.drop (64 * i) = unitsOf bl[i] ++ tail)
    (hsm : ∀ i, i < bl.length → (vs.getRaw (2 * i)).toNat = RLQ.cumL bl i ∧
                               (vs.getRaw (2 * i + 1)).toNat = RLQ.cumS bl i)
    (hones : onesE.toNat = lens bl.flatten) (hspan : span bl.flatten ≤ lenE.toNat)
    (hgap : ∀ p rest', bl.flatten = p :: rest' → ∀ q ∈ rest', 1 ≤ q.1) :
    ∃ v, (rlC m).load (lenE :: onesE :: r) = ok (v, rest) ∧ RLQ.GoodB v bl ∧
      v.len = lenE.toNat ∧ v.ones = onesE.toNat ∧ v.samples = vs ∧ v.data = vd := by
  have hlenlt : lenE.toNat < U64 := by rw [U64_eq]; exact lenE.isLt
  have honeslt : onesE.toNat < U64 := by rw [U64_eq]; exact onesE.isLt
  have hvsl := rlld_intVec_len_lt hs
  have hblen : bl.length + 8 < U64 := by rw [U64_eq]; omega
  have hl2 : vs.len / 2 = bl.length := by omega
  have hle : onesE.toNat ≤ lenE.toNat := by
    have := lens_le_span bl.flatten
    omega
  obtain ⟨c1, c2, c3⟩ := rlld_cols vs bl hslen hsm
  have hzq : Codec2.zerosColQ m vs (vs.len / 2) = ok (RLQ.zerosCol bl) := by
    rw [← c3]
    refine Codec2.zerosColQ_eq m vs (fun b hb => ?_)
    have := hsm b (by omega)
    rw [this.1, this.2]
    exact RLQ.cumL_le_cumS bl b
  -- the three indexes are built
  obtain ⟨ri, hri⟩ := RL.new_range_map_ok m (RLQ.cumS bl) bl.length lenE.toNat
    (fun i j hij _ => RLQ.cumS_mono bl i j hij) (fun _ => rfl)
    (fun _ i hi => by have := (RLQ.cumS_lt bl hblk i hi).2; omega) hblen hlenlt
  obtain ⟨si, hsi⟩ := RL.new_range_map_ok m (RLQ.cumL bl) bl.length onesE.toNat
    (fun i j hij _ => RLQ.cumL_mono bl i j hij) (fun _ => rfl)
    (fun _ i hi => by have := (RLQ.cumS_lt bl hblk i hi).1; omega) hblen honeslt
  obtain ⟨zi, hzi⟩ := RL.new_range_map_ok m (fun i => RLQ.cumS bl i - RLQ.cumL bl i) bl.length
    (lenE.toNat - onesE.toNat)
    (fun i j hij _ => RLQ.cumZ_mono bl i j hij) (fun _ => rfl)
    (fun hz0 i hi => rlld_cumZ_lt bl hblk hgap _ (by omega) hz0 i hi) hblen (by omega)
  have hri' : SampleIndex.new m (RLQ.bitsCol bl) lenE.toNat = ok ri := hri
  have hsi' : SampleIndex.new m (RLQ.onesCol bl) onesE.toNat = ok si := hsi
  have hzi' : SampleIndex.new m (RLQ.zerosCol bl) (lenE.toNat - onesE.toNat) = ok zi := hzi
  have e1 : usizeC.load (lenE :: onesE :: r) = ok (lenE.toNat, onesE :: r) := rfl
  have e2 : usizeC.load (onesE :: r) = ok (onesE.toNat, r) := rfl
  refine ⟨⟨lenE.toNat, onesE.toNat, ri, si, zi, vs, vd⟩, ?_, ?_, rfl, rfl, rfl, rfl⟩
  · rw [Codec2.rlC_load_eq, e1, bind_ok]
    dsimp only
    rw [e2, bind_ok]
    dsimp only
    rw [hs, bind_ok]
    dsimp only
    rw [hd, bind_ok]
    dsimp only
    rw [if_neg (by rw [hl2, hdlen]; exact fun h => h rfl), Codec2.bitsColQ_eq, bind_ok, Codec2.onesColQ_eq,
      bind_ok, hzq, bind_ok, c1, c2, hri', bind_ok, hsi', bind_ok, subM_ok hle, bind_ok, hzi', bind_ok]
    rfl
  · by_cases hnil : bl = []
    · subst hnil
      refine ⟨hlenlt, hslen, hblk, hdata, by show vd.len ≤ _; simp at hdlen ⊢; omega, fun i hi => (hsm i hi).1,
        fun i hi => (hsm i hi).2, hones, hspan, fun h => absurd rfl h, fun h => absurd rfl h,
        fun h => absurd rfl h, fun _ => ⟨RLQ.new_nil_trivial m _ hri', RLQ.new_nil_trivial m _ hzi'⟩⟩
    · have hbpos : 0 < bl.length := List.length_pos_iff.mpr hnil
      refine ⟨hlenlt, hslen, hblk, hdata, by show vd.len ≤ _; omega, fun i hi => (hsm i hi).1,
        fun i hi => (hsm i hi).2, hones, hspan, ?_, ?_, ?_, fun h => absurd h hnil⟩
      · intro _
        exact RLQ.new_valid_col m bl.length (RLQ.cumS bl) lenE.toNat hbpos rfl (RLQ.cumS_mono bl)
          (fun i hi => by have := (RLQ.cumS_lt bl hblk i hi).2; omega) hblen hlenlt hri
      · intro _
        exact RLQ.new_valid_col m bl.length (RLQ.cumL bl) onesE.toNat hbpos rfl (RLQ.cumL_mono bl)
          (fun i hi => by have := (RLQ.cumS_lt bl hblk i hi).1; omega) hblen honeslt hsi
      · intro _ hz
        show zi.Valid (RLQ.zerosCol bl) (lenE.toNat - onesE.toNat)
        exact RLQ.new_valid_col m bl.length (fun i => RLQ.cumS bl i - RLQ.cumL bl i)
          (lenE.toNat - onesE.toNat) hbpos rfl (RLQ.cumZ_mono bl)
          (fun i hi => rlld_cumZ_lt bl hblk hgap _ (by omega) (by
            have : 0 < lenE.toNat - onesE.toNat := hz
            omega) i hi) hblen (by omega) hzi

end Sds.Format2

namespace Sds.Format2
open Sds Outcome RunIter RLBuilder

/-! ## 2b. run-length encoded bitvector, direction (←): inversion of the document's decoder -/

/-- every integer of the data is minimally encoded: no continuation unit (`8..15`) is followed by a unit `0`
(a most significant group of data bits that is zero).  The document does not say so; see the finding
`rl_noncanonical_*` below. -/
def RLCanon (U : Array Nat) : Prop := ∀ i : Nat, 8 ≤ U[i]?.getD 0 → U[i + 1]?.getD 0 ≠ 0

theorem rlInt_inv (U : Array Nat) (stop : Nat) (hstop : stop ≤ U.size) (h16 : ∀ i : Nat, U[i]?.getD 0 < 16)
    (hc : RLCanon U) : ∀ (fuel pos shift acc val p : Nat),
    Doc.rlInt U stop fuel pos shift acc = some (val, p) →
    ∃ x, val = acc + x <<< shift ∧ pos < p ∧ p ≤ stop ∧ (U[pos]?.getD 0 ≠ 0 → x ≠ 0) ∧
      ∀ F, 1 ≤ F → x < 8 ^ F → U.toList.drop pos = encodeUnits F x ++ U.toList.drop p := by
  intro fuel
  induction fuel with
  | zero => intro pos shift acc val p h; simp [Doc.rlInt] at h
  | succ fuel ih =>
    intro pos shift acc val p h
    rw [Doc.rlInt] at h
    by_cases hps : pos ≥ stop
    · rw [if_pos hps] at h; cases h
    rw [if_neg hps] at h
    have hlt : pos < U.size := by omega
    have hu16 := h16 pos
    generalize hu : U[pos]?.getD 0 = u at h hu16
    have hdrop : U.toList.drop pos = u :: U.toList.drop (pos + 1) := by
      rw [List.drop_eq_getElem_cons (by simpa using hlt)]
      congr 1
      rw [← hu, Array.getElem?_eq_getElem hlt]; simp
    simp only [] at h
    by_cases hfl : u / 8 % 2 = 1
    · rw [if_pos hfl] at h
      obtain ⟨x', e1, e2, e3, e4, e5⟩ := ih _ _ _ _ _ h
      have hu8 : 8 ≤ u := by omega
      have hx' : x' ≠ 0 := e4 (hc pos (by rw [hu]; exact hu8))
      refine ⟨u % 8 + 8 * x', ?_, by omega, e3, fun _ => by omega, ?_⟩
      · rw [e1]
        simp only [Nat.shiftLeft_eq, Nat.pow_add]
        generalize 2 ^ shift = s
        rw [Nat.add_assoc]
        congr 1
        rw [Nat.add_mul, Nat.mul_comm 8 x', Nat.mul_assoc, Nat.mul_comm 8 s]
      · intro F hF hx
        cases F with
        | zero => omega
        | succ F' =>
          have hx'lt : x' < 8 ^ F' := by rw [Nat.pow_succ] at hx; omega
          have hF' : 1 ≤ F' := by
            cases F' with
            | zero => simp at hx'lt; omega
            | succ _ => omega
          rw [encodeUnits_succ, if_pos (by omega), hdrop, e5 F' hF' hx'lt]
          rw [show (u % 8 + 8 * x') % 8 = u % 8 by omega, show (u % 8 + 8 * x') / 8 = x' by omega,
            show u % 8 + 8 = u by omega]
          rfl
    · rw [if_neg hfl] at h
      simp only [Option.some.injEq, Prod.mk.injEq] at h
      obtain ⟨rfl, rfl⟩ := h
      have hu7 : u < 8 := by omega
      refine ⟨u, by rw [Nat.mod_eq_of_lt hu7], by omega, by omega, fun h0 => h0, ?_⟩
      intro F hF hx
      cases F with
      | zero => omega
      | succ F' => rw [encodeUnits_succ, if_neg (by omega), hdrop]; rfl

theorem rlRun_inv (U : Array Nat) (stop : Nat) (hstop : stop ≤ U.size) (h16 : ∀ i : Nat, U[i]?.getD 0 < 16)
    (hc : RLCanon U) (pos n0 l p : Nat) (h : Doc.rlRun U stop pos = some (n0, l, p)) :
    1 ≤ l ∧ pos < p ∧ p ≤ stop ∧ (n0 < 2 ^ 64 → l - 1 < 2 ^ 64 →
      U.toList.drop pos = runUnits n0 l ++ U.toList.drop p ∧ p = pos + (runUnits n0 l).length) := by
  unfold Doc.rlRun at h
  cases h1 : Doc.rlInt U stop 64 pos 0 0 with
  | none => rw [h1] at h; cases h
  | some r1 =>
    obtain ⟨v1, p1⟩ := r1
    rw [h1] at h
    simp only [Option.bind_eq_bind, Option.bind_some] at h
    cases h2 : Doc.rlInt U stop 64 p1 0 0 with
    | none => rw [h2] at h; cases h
    | some r2 =>
      obtain ⟨v2, p2⟩ := r2
      rw [h2] at h
      simp only [Option.bind_some, Option.some.injEq, Prod.mk.injEq] at h
      obtain ⟨rfl, rfl, rfl⟩ := h
      obtain ⟨x1, a1, a2, a3, _, a5⟩ := rlInt_inv U stop hstop h16 hc _ _ _ _ _ _ h1
      obtain ⟨x2, b1, b2, b3, _, b5⟩ := rlInt_inv U stop hstop h16 hc _ _ _ _ _ _ h2
      simp only [Nat.shiftLeft_zero, Nat.zero_add] at a1 b1
      subst a1; subst b1
      refine ⟨by omega, by omega, b3, fun hn hl => ?_⟩
      have h823 : (2 : Nat) ^ 64 ≤ 8 ^ 23 := by decide
      have e1 := a5 23 (by omega) (by omega)
      have e2 := b5 23 (by omega) (by rw [Nat.add_sub_cancel] at hl; omega)
      have hl1 := congrArg List.length e1
      have hl2 := congrArg List.length e2
      simp only [List.length_drop, List.length_append, Array.length_toList] at hl1 hl2
      unfold runUnits
      rw [Nat.add_sub_cancel, List.append_assoc, ← e2, List.length_append]
      exact ⟨e1, by omega⟩

theorem rlBlockRuns_inv (U : Array Nat) (stop : Nat) (hstop : stop ≤ U.size)
    (h16 : ∀ i : Nat, U[i]?.getD 0 < 16) (hc : RLCanon U) (target : Nat) :
    ∀ (fuel pos n n1 : Nat) (runs : List (Nat × Nat)) (p n' : Nat),
    Doc.rlBlockRuns U stop target fuel pos n n1 = some (runs, p, n') → n' < 2 ^ 64 →
    ∃ blk : List (Nat × Nat), runs = absRuns n blk ∧ n' = n + span blk ∧ target = n1 + lens blk ∧
      (∀ q ∈ blk, q.1 < 2 ^ 64 ∧ 1 ≤ q.2) ∧ Doc.GapsOk n blk ∧
      U.toList.drop pos = unitsOf blk ++ U.toList.drop p ∧ p = pos + (unitsOf blk).length ∧
      (blk ≠ [] → p ≤ stop) := by
  intro fuel
  induction fuel with
  | zero => intro pos n n1 runs p n' h; simp [Doc.rlBlockRuns] at h
  | succ fuel ih =>
    intro pos n n1 runs p n' h hn'
    rw [Doc.rlBlockRuns] at h
    by_cases ht : n1 = target
    · rw [if_pos ht] at h
      simp only [Option.some.injEq, Prod.mk.injEq] at h
      obtain ⟨rfl, rfl, rfl⟩ := h
      exact ⟨[], rfl, rfl, by simp [lens, ht], by simp, trivial, by simp [unitsOf], by simp [unitsOf],
        fun hne => absurd rfl hne⟩
    rw [if_neg ht] at h
    by_cases hgt : n1 > target
    · rw [if_pos hgt] at h; cases h
    rw [if_neg hgt] at h
    cases hr : Doc.rlRun U stop pos with
    | none => rw [hr] at h; cases h
    | some r =>
      obtain ⟨n0, l, p1⟩ := r
      rw [hr] at h
      simp only [Option.bind_eq_bind, Option.bind_some] at h
      by_cases hz : n0 = 0 ∧ n ≠ 0
      · rw [if_pos hz] at h; cases h
      rw [if_neg hz] at h
      cases hrec : Doc.rlBlockRuns U stop target fuel p1 (n + n0 + l) (n1 + l) with
      | none => rw [hrec] at h; cases h
      | some rr =>
        obtain ⟨runs', p', n''⟩ := rr
        rw [hrec] at h
        simp only [Option.bind_some, Option.some.injEq, Prod.mk.injEq] at h
        obtain ⟨rfl, rfl, rfl⟩ := h
        obtain ⟨blk', c1, c2, c3, c4, c5, c6, c7, c8⟩ := ih _ _ _ _ _ _ hrec hn'
        obtain ⟨d1, d2, d3, d4⟩ := rlRun_inv U stop hstop h16 hc _ _ _ _ hr
        obtain ⟨d5, d6⟩ := d4 (by omega) (by omega)
        refine ⟨(n0, l) :: blk', by simp only [absRuns, c1], by simp only [span]; omega,
          by simp only [lens]; omega, ?_, ⟨fun h0 => by
            by_cases hn : n = 0
            · exact hn
            · exact absurd ⟨h0, hn⟩ hz, c5⟩, ?_, ?_, fun _ => ?_⟩
        · intro q hq
          rcases List.mem_cons.mp hq with rfl | hq
          · exact ⟨by show n0 < 2 ^ 64; omega, d1⟩
          · exact c4 q hq
        · simp only [unitsOf]; rw [List.append_assoc, ← c6]; exact d5
        · simp only [unitsOf, List.length_append]; omega
        · by_cases hb : blk' = []
          · subst hb; simp only [unitsOf, List.length_nil, Nat.add_zero] at c7; omega
          · exact c8 hb

theorem ite_none_eq_some {c : Prop} [Decidable c] {α : Type} {e : Option α} {x : α}
    (h : (if c then none else e) = some x) : ¬ c ∧ e = some x := by
  by_cases hc : c
  · rw [if_pos hc] at h; cases h
  · rw [if_neg hc] at h; exact ⟨hc, h⟩

/-- what the acceptance of the blocks `b, b+1, …` by the document's decoder says about the file: the blocks
`suf` (runs relative to their predecessor), their samples, their codes -/
def SufOK (U S : Array Nat) : Nat → Nat → Nat → Blocks → Prop
  | _, _, _, [] => True
  | b, n, n1, blk :: more =>
    S[2 * b]?.getD 0 = n1 ∧ S[2 * b + 1]?.getD 0 = n ∧ blk ≠ [] ∧ (∀ q ∈ blk, q.1 < 2 ^ 64 ∧ 1 ≤ q.2) ∧
    Doc.GapsOk n blk ∧ (∃ tail, U.toList.drop (64 * b) = unitsOf blk ++ tail) ∧ (unitsOf blk).length ≤ 64 ∧
    SufOK U S (b + 1) (n + span blk) (n1 + lens blk) more

theorem rlBlocks_inv (U S : Array Nat) (ones nb : Nat) (hnb : nb = (U.size + 63) / 64)
    (h16 : ∀ i : Nat, U[i]?.getD 0 < 16) (hc : RLCanon U) :
    ∀ (fuel b n n1 : Nat) (runs : List (Nat × Nat)) (nEnd n1End : Nat),
    Doc.rlBlocks U S ones nb fuel b n n1 = some (runs, nEnd, n1End) → nEnd < 2 ^ 64 →
    ∃ suf : Blocks, suf.length = nb - b ∧ runs = absRuns n suf.flatten ∧ nEnd = n + span suf.flatten ∧
      n1End = n1 + lens suf.flatten ∧ (suf ≠ [] → n1End = ones) ∧ SufOK U S b n n1 suf := by
  intro fuel
  induction fuel with
  | zero => intro b n n1 runs nEnd n1End h; simp [Doc.rlBlocks] at h
  | succ fuel ih =>
    intro b n n1 runs nEnd n1End h hE
    rw [Doc.rlBlocks] at h
    by_cases hb : b ≥ nb
    · rw [if_pos hb] at h
      simp only [Option.some.injEq, Prod.mk.injEq] at h
      obtain ⟨rfl, rfl, rfl⟩ := h
      exact ⟨[], by simp; omega, rfl, rfl, rfl, fun hne => absurd rfl hne, trivial⟩
    rw [if_neg hb] at h
    by_cases hsm : S[2 * b]?.getD 0 ≠ n1 ∨ S[2 * b + 1]?.getD 0 ≠ n
    · rw [if_pos hsm] at h; cases h
    rw [if_neg hsm] at h
    simp only [] at h
    have hstop : min (64 * b + 64) U.size ≤ U.size := Nat.min_le_right _ _
    have hstart : 64 * b < U.size := by omega
    generalize htg : (if decide (b + 1 ≥ nb) = true then ones else S[2 * (b + 1)]?.getD 0) = target at h
    cases hbr : Doc.rlBlockRuns U (min (64 * b + 64) U.size) target 64 (64 * b) n n1 with
    | none => rw [hbr] at h; cases h
    | some rb =>
      obtain ⟨runsb, pos, n'⟩ := rb
      rw [hbr] at h
      simp only [] at h
      obtain ⟨hpad, h⟩ := ite_none_eq_some h
      · cases hrec : Doc.rlBlocks U S ones nb fuel (b + 1) n' target with
        | none => rw [hrec] at h; cases h
        | some rr =>
          obtain ⟨more, nE, n1E⟩ := rr
          rw [hrec] at h
          simp only [Option.some.injEq, Prod.mk.injEq] at h
          obtain ⟨rfl, rfl, rfl⟩ := h
          obtain ⟨suf', s1, s2, s3, s4, s5, s6⟩ := ih _ _ _ _ _ _ hrec hE
          obtain ⟨blk, c1, c2, c3, c4, c5, c6, c7, c8⟩ :=
            rlBlockRuns_inv U _ hstop h16 hc target _ _ _ _ _ _ _ hbr (by omega)
          -- the block is not empty: otherwise the padding rule is violated
          have hne : blk ≠ [] := by
            intro he
            subst he
            simp only [unitsOf, List.length_nil, Nat.add_zero] at c7
            subst c7
            apply hpad
            by_cases hfin : b + 1 ≥ nb
            · simp only [hfin, decide_true, if_true]
              simp only [Bool.not_eq_true', decide_eq_false_iff_not]
              omega
            · simp only [hfin, decide_false, Bool.false_eq_true, if_false]
              have hst : min (64 * b + 64) U.size = 64 * b + 64 := by omega
              rw [hst]
              have hbeq : (64 * b == 64 * b + 64) = false := by
                rw [beq_eq_false_iff_ne]; omega
              rw [hbeq, Bool.false_or]
              cases hrr : Doc.rlRun U (min (64 * b + 64 + 64) U.size) (64 * b + 64) with
              | none => simp
              | some t =>
                obtain ⟨t1, t2, t3⟩ := t
                obtain ⟨_, _, u3, _⟩ := rlRun_inv U _ (Nat.min_le_right _ _) h16 hc _ _ _ _ hrr
                simp only [Bool.and_eq_true, Bool.not_eq_true', Bool.and_eq_false_iff,
                  decide_eq_false_iff_not]
                right; omega
          have hp := c8 hne
          refine ⟨blk :: suf', by simp only [List.length_cons, s1]; omega, ?_, ?_, ?_, fun _ => ?_, ?_⟩
          · rw [List.flatten_cons, absRuns_append, c1, s2, c2]
          · rw [List.flatten_cons, span_append, s3, c2]; omega
          · rw [List.flatten_cons, lens_append, s4, c3]; omega
          · by_cases hs' : suf' = []
            · subst hs'
              have hfin : b + 1 ≥ nb := by simp at s1; omega
              simp only [hfin, decide_true, if_true] at htg
              rw [s4, ← htg]; simp [lens]
            · exact s5 hs'
          · refine ⟨by omega, by omega, hne, c4, c5, ⟨_, c6⟩, by omega, ?_⟩
            rw [← c2, ← c3]; exact s6

theorem sufOK_index (U S : Array Nat) : ∀ (suf : Blocks) (b n n1 : Nat), SufOK U S b n n1 suf →
    ∀ j (h : j < suf.length),
      S[2 * (b + j)]?.getD 0 = n1 + lens (suf.take j).flatten ∧
      S[2 * (b + j) + 1]?.getD 0 = n + span (suf.take j).flatten ∧
      suf[j] ≠ [] ∧ (∀ q ∈ suf[j], q.1 < 2 ^ 64 ∧ 1 ≤ q.2) ∧
      (∃ tail, U.toList.drop (64 * (b + j)) = unitsOf suf[j] ++ tail) ∧ (unitsOf suf[j]).length ≤ 64
  | [], _, _, _, _, j, h => by simp at h
  | blk :: more, b, n, n1, hs, 0, _ => by
    obtain ⟨a1, a2, a3, a4, _, a6, a7, _⟩ := hs
    exact ⟨by simpa [lens] using a1, by simpa [span] using a2, a3, a4, a6, a7⟩
  | blk :: more, b, n, n1, hs, j + 1, h => by
    obtain ⟨_, _, _, _, _, _, _, a8⟩ := hs
    have := sufOK_index U S more (b + 1) _ _ a8 j (by simpa using h)
    rw [show b + 1 + j = b + (j + 1) by omega] at this
    simp only [List.take_succ_cons, List.flatten_cons, lens_append, span_append, List.getElem_cons_succ]
    rw [← Nat.add_assoc n1, ← Nat.add_assoc n]
    exact this

theorem sufOK_gaps (U S : Array Nat) : ∀ (suf : Blocks) (b n n1 : Nat), SufOK U S b n n1 suf →
    Doc.GapsOk n suf.flatten
  | [], _, _, _, _ => trivial
  | blk :: more, b, n, n1, hs => by
    obtain ⟨_, _, _, _, a5, _, _, a8⟩ := hs
    rw [List.flatten_cons, gapsOk_append]
    exact ⟨a5, sufOK_gaps U S more _ _ _ a8⟩

theorem gaps_pos : ∀ (rs : List (Nat × Nat)) (n : Nat), Doc.GapsOk n rs → 0 < n → ∀ q ∈ rs, 1 ≤ q.1
  | [], _, _, _, q, hq => by cases hq
  | p :: rs, n, h, hn, q, hq => by
    rcases List.mem_cons.mp hq with rfl | hq
    · have := h.1; omega
    · exact gaps_pos rs _ h.2 (by omega) q hq

/-- the code units of the data vector of a run-length encoded bitvector file -/
def rlDataUnits (es : Doc.File) : Option (List Nat) := do
  let (_, r) ← Doc.elem es
  let (_, r) ← Doc.elem r
  let (_, r) ← Doc.intVector r
  let ((_, U), _) ← Doc.intVector r
  some U

/-- what `Doc.rl` accepts -/
theorem rl_eq_some {es rest : Doc.File} {len : Nat} {runs : List (Nat × Nat)}
    (h : Doc.rl es = some ((len, runs), rest)) :
    ∃ (lenE onesE : Word) (r r1 : Doc.File) (sw : Nat) (S U : List Nat) (n : Nat),
      es = lenE :: onesE :: r ∧ lenE.toNat = len ∧ Doc.intVector r = some ((sw, S), r1) ∧
      Doc.intVector r1 = some ((4, U), rest) ∧ S.length = 2 * ((U.length + 63) / 64) ∧
      Doc.minimalWidth sw S = true ∧
      Doc.rlBlocks U.toArray S.toArray onesE.toNat ((U.length + 63) / 64) ((U.length + 63) / 64 + 1) 0 0 0 =
        some (runs, n, onesE.toNat) ∧ n ≤ len := by
  match es, h with
  | [], h => cases h
  | [_], h => cases h
  | lenE :: onesE :: r, h =>
    unfold Doc.rl at h
    simp only [Doc.elem_cons, Option.bind_eq_bind, Option.bind_some] at h
    cases h1 : Doc.intVector r with
    | none => rw [h1] at h; cases h
    | some x1 =>
      obtain ⟨⟨sw, S⟩, r1⟩ := x1
      rw [h1] at h
      simp only [Option.bind_some] at h
      cases h2 : Doc.intVector r1 with
      | none => rw [h2] at h; cases h
      | some x2 =>
        obtain ⟨⟨uw, U⟩, r2⟩ := x2
        rw [h2] at h
        simp only [Option.bind_some] at h
        by_cases hck : uw ≠ 4 ∨ S.length ≠ 2 * ((U.length + 63) / 64) ∨ Doc.minimalWidth sw S = false
        · rw [if_pos hck] at h; cases h
        rw [if_neg hck] at h
        cases h3 : Doc.rlBlocks U.toArray S.toArray onesE.toNat ((U.length + 63) / 64)
            ((U.length + 63) / 64 + 1) 0 0 0 with
        | none => rw [h3] at h; cases h
        | some x3 =>
          obtain ⟨runs', n, n1⟩ := x3
          rw [h3] at h
          simp only [Option.bind_some] at h
          by_cases hfin : n1 = onesE.toNat ∧ n ≤ lenE.toNat
          · rw [if_pos hfin] at h
            simp only [Option.some.injEq, Prod.mk.injEq] at h
            obtain ⟨⟨rfl, rfl⟩, rfl⟩ := h
            have huw : uw = 4 := by
              apply Decidable.of_not_not; intro hne; exact hck (Or.inl hne)
            have hsl : S.length = 2 * ((U.length + 63) / 64) := by
              apply Decidable.of_not_not; intro hne; exact hck (Or.inr (Or.inl hne))
            have hmw : Doc.minimalWidth sw S = true := by
              cases hb : Doc.minimalWidth sw S with
              | true => rfl
              | false => exact absurd (Or.inr (Or.inr hb)) hck
            subst huw
            obtain ⟨rfl, hle⟩ := hfin
            exact ⟨lenE, onesE, r, r1, sw, S, U, n, rfl, rfl, h1, h2, hsl, hmw, h3, hle⟩
          · rw [if_neg hfin] at h; cases h

/-- **(←, run-length encoded bitvector).**  Every element list the document accepts as a run-length encoded
bitvector of length `len` with the runs `runs`, in which every integer is minimally encoded (`RLCanon`), is loaded
by the library (in both modes), leaving the same rest, into a vector that is `RLQ.Good` for `runs` — the hypothesis
of all query theorems of C03 (`RLQ.Good.get`, `.rank`, `.select`, `.selectZero`, `.successor`, `.predecessor`, the
iterators). -/
theorem rl_doc_load (m : Mode) (es rest : Doc.File) (len : Nat) (runs : List (Nat × Nat))
    (h : Doc.rl es = some ((len, runs), rest))
    (hcan : ∀ U, rlDataUnits es = some U → RLCanon U.toArray) :
    ∃ v, (rlC m).load es = ok (v, rest) ∧ RLQ.Good v runs ∧ v.len = len := by
  obtain ⟨lenE, onesE, r, r1, sw, S, U, n, rfl, hlen, h1, h2, hsl, _, hbl, hn⟩ := rl_eq_some h
  have hcanU : RLCanon U.toArray := hcan U (by
    simp only [rlDataUnits, Doc.elem_cons, Option.bind_eq_bind, Option.bind_some, h1, h2])
  obtain ⟨vs, ls, wfs, _, _, _, its⟩ := Doc.intVector_load h1
  obtain ⟨vd, ld, wfd, _, _, wd, itd⟩ := Doc.intVector_load h2
  have h16 : ∀ i : Nat, U.toArray[i]?.getD 0 < 16 := by
    intro i
    rw [List.getElem?_toArray]
    cases hi : U[i]? with
    | none => decide
    | some x =>
      have hx : x ∈ vd.items := by rw [itd]; exact List.mem_of_getElem? hi
      have := IntVec.items_lt wfd x hx
      rw [wd] at this
      exact this
  have hnlt : n < 2 ^ 64 := by have := lenE.isLt; omega
  obtain ⟨bl, b1, b2, b3, b4, _, b6⟩ := rlBlocks_inv U.toArray S.toArray onesE.toNat ((U.length + 63) / 64)
    (by rw [List.size_toArray]) h16 hcanU _ _ _ _ _ _ _ hbl hnlt
  rw [Nat.sub_zero] at b1
  rw [Nat.zero_add] at b3 b4
  have hidx := sufOK_index _ _ bl 0 0 0 b6
  have hgaps := sufOK_gaps _ _ bl 0 0 0 b6
  have hsl' : vs.len = 2 * bl.length := by rw [← IntVec.items_length, its, hsl, b1]
  have hdl' : vd.len = U.length := by rw [← IntVec.items_length, itd]
  obtain ⟨v, hv, g, e1, _⟩ := rlld_load_good m lenE onesE r r1 rest vs vd bl ls ld hsl'
    (by rw [hdl', b1])
    (by
      intro blk hb
      obtain ⟨j, hj, rfl⟩ := List.getElem_of_mem hb
      obtain ⟨_, _, a3, a4, _, a6⟩ := hidx j hj
      exact ⟨a3, a4, a6⟩)
    (by
      intro i hi
      obtain ⟨_, _, _, _, a5, _⟩ := hidx i hi
      rw [Nat.zero_add, List.toList_toArray, ← itd] at a5
      exact a5)
    (by
      intro i hi
      obtain ⟨a1, a2, _⟩ := hidx i hi
      rw [Nat.zero_add, Nat.zero_add, List.getElem?_toArray, ← its, IntVec.items_getElem?,
        if_pos (by omega)] at a1 a2
      exact ⟨a1, a2⟩)
    b4 (by rw [← b3, hlen]; exact hn)
    (by
      intro p rest' hfe q hq
      rw [hfe] at hgaps
      have hp2 : 1 ≤ p.2 := by
        have hp : p ∈ bl.flatten := by rw [hfe]; simp
        obtain ⟨blk, hb, hpb⟩ := List.mem_flatten.mp hp
        obtain ⟨j, hj, rfl⟩ := List.getElem_of_mem hb
        exact ((hidx j hj).2.2.2.1 p hpb).2
      exact gaps_pos rest' _ hgaps.2 (by omega) q hq)
  exact ⟨v, hv, ⟨bl, g, b2⟩, by rw [e1, hlen]⟩

end Sds.Format2

/-! ### 2c. concrete files: findings and non-vacuity -/

namespace Sds.Format2
open Sds Outcome

/-- **Finding (document silent on minimal encodings).**  The bit sequence `1` (one run `(n0, n1) = (0, 1)`, encoded as
the integers `(0, 0)`) written with the integer `n0 = 0` spread over 23 code units: 22 continuation units `8`
(flag set, data `000`) and a final `0`; then `n1 - 1 = 0` as one unit.  Elements: length 1, one set bit, samples
`[0, 0]` of width 1, 24 code units of width 4. -/
def rlFileNonCanonical : Doc.File :=
  [1, 1, 2, 1, 2, 1, 0, 24, 4, 96, 2, 0x8888888888888888, 0x888888]

/-- The document's rules ("4-bit code units, lowest 3 bits data, if the high bit is set the encoding continues in
the next unit") read it as the vector `1`: the document does not require the minimal number of units. -/
theorem rl_noncanonical_doc_valid : Doc.rl rlFileNonCanonical = some ((1, [(0, 1)]), []) := by decide +kernel

/-- … the library loads it, and `get(0)` then panics: the 23rd unit is shifted by 66 bits (`rl_vector.rs`, `decode`:
`(code & CODE_MASK) << shift` overflows in a debug build; the model marks the same point in wrapping mode, where
the real shift amount is masked, as outside its domain). -/
theorem rl_noncanonical_loads_then_panics :
    ((rlC .checked).load rlFileNonCanonical).isOk = true ∧
    ((rlC .checked).load rlFileNonCanonical >>= fun p => p.1.get .checked 0) = fault (.panic .overflow) ∧
    ((rlC .wrapping).load rlFileNonCanonical >>= fun p => p.1.get .wrapping 0) = fault (.panic .other) := by
  decide +kernel

/-- it is excluded from `rl_doc_load` by `RLCanon` only -/
theorem rl_noncanonical_not_canon :
    ∃ U, rlDataUnits rlFileNonCanonical = some U ∧ ¬ RLCanon U.toArray := by
  refine ⟨List.replicate 22 8 ++ [0, 0], by decide +kernel, fun h => ?_⟩
  exact h 21 (by decide) (by decide)

/-- a non-minimal encoding that stays within 22 units (`n0 = 0` as `8, 0`) is read correctly by both sides — `RLCanon`
is sufficient, not necessary, for a correct load; such a vector is not `RLQ.Good` (its data is not the
canonical code of its runs), so the query theorems do not apply to it -/
theorem rl_short_noncanonical_answers :
    Doc.rl [1, 1, 2, 1, 2, 1, 0, 3, 4, 12, 1, 0x008] = some ((1, [(0, 1)]), []) ∧
    ((rlC .checked).load [1, 1, 2, 1, 2, 1, 0, 3, 4, 12, 1, 0x008] >>= fun p => p.1.get .checked 0) = ok true := by
  decide +kernel

/-- **Adjacent runs.**  The bits `11` written as two runs `(0, 1), (0, 1)` (second gap 0): the document says "a
sequence of maximal runs", `Doc.rl` refuses the file; the loader, which does not decode the blocks, accepts it. -/
def rlFileAdjacent : Doc.File := [2, 2, 2, 1, 2, 1, 0, 4, 4, 16, 1, 0]

theorem rl_adjacent_runs_not_document_valid :
    Doc.rl rlFileAdjacent = none ∧ ((rlC .checked).load rlFileAdjacent).isOk = true := by decide +kernel

/-- non-vacuity of `rl_doc_load`: the vector `0110` (one run `(1, 2)`: integers `1, 1`) -/
def rlFileSmall : Doc.File := [4, 2, 2, 1, 2, 1, 0, 2, 4, 8, 1, 0x11]

theorem rl_small_doc_valid : Doc.rl rlFileSmall = some ((4, [(1, 2)]), []) := by decide +kernel

theorem rl_small_loads (m : Mode) :
    ∃ v, (rlC m).load rlFileSmall = ok (v, []) ∧ RLQ.Good v [(1, 2)] ∧ v.len = 4 := by
  refine rl_doc_load m _ _ _ _ rl_small_doc_valid ?_
  intro U hU
  have : U = [1, 1] := by
    have h2 : rlDataUnits rlFileSmall = some [1, 1] := by decide +kernel
    rw [h2] at hU; exact (Option.some.inj hU).symm
  subst this
  intro i h
  match i, h with
  | 0, h => simp at h
  | 1, h => simp at h
  | i + 2, h => simp at h

end Sds.Format2

/-! ## 3. sparse bitvector, direction (←)  (helper Q4s)

Proofs/Format2S: direction (←) of C07 for the sparse bitvector.  A file accepted by the document-level decoder
`Doc.sparse` (Spec/Format) whose `high` bitvector carries no optional support structures is loaded by the model's
`sparseC.load`, and the loaded structure `Encodes` exactly the universe size and the values the document reads.
-/

namespace Sds.Format2
open Sds Outcome SupportProofs

/-! ### 1. the document's value formula, entry by entry -/

theorem sp_values_length (w : Nat) : ∀ (sel low : List Nat) (i : Nat), sel.length = low.length →
    (Doc.sparseValues w i sel low).length = sel.length
  | [], _, _, _ => by
    rename_i low i
    cases low <;> simp [Doc.sparseValues]
  | p :: sel, [], _, h => by simp at h
  | p :: sel, l :: low, i, h => by
    simp only [Doc.sparseValues, List.length_cons]
    rw [sp_values_length w sel low (i + 1) (by simpa using h)]

theorem sp_values_length_le (w : Nat) : ∀ (sel low : List Nat) (i : Nat),
    (Doc.sparseValues w i sel low).length ≤ sel.length
  | [], low, i => by cases low <;> simp [Doc.sparseValues]
  | p :: sel, [], _ => by simp [Doc.sparseValues]
  | p :: sel, l :: low, i => by
    simp only [Doc.sparseValues, List.length_cons]
    exact Nat.succ_le_succ (sp_values_length_le w sel low (i + 1))

theorem sp_values_getElem (w : Nat) : ∀ (sel low : List Nat) (i j : Nat) (h : sel.length = low.length)
    (hj : j < sel.length),
    (Doc.sparseValues w i sel low)[j]? = some (low[j]'(h ▸ hj) + ((sel[j] - (i + j)) <<< w))
  | [], _, _, _, _, hj => by simp at hj
  | p :: sel, [], _, _, h, _ => by simp at h
  | p :: sel, l :: low, i, 0, h, hj => by simp [Doc.sparseValues]
  | p :: sel, l :: low, i, j + 1, h, hj => by
    simp only [Doc.sparseValues, List.getElem?_cons_succ, List.getElem_cons_succ]
    rw [sp_values_getElem w sel low (i + 1) j (by simpa using h) (by simpa using hj)]
    congr 3
    omega

/-- `low + (d << w)` with `low < 2^w` splits back into `d` and `low` -/
theorem sp_split_combine {w l d : Nat} (hl : l < 2 ^ w) :
    (l + (d <<< w)) >>> w = d ∧ (l + (d <<< w)) % 2 ^ w = l := by
  have hp : 0 < 2 ^ w := Nat.two_pow_pos w
  rw [Nat.shiftLeft_eq, Nat.shiftRight_eq_div_pow]
  constructor
  · rw [Nat.add_mul_div_right _ _ hp, Nat.div_eq_of_lt hl, Nat.zero_add]
  · rw [Nat.add_mul_mod_self_right, Nat.mod_eq_of_lt hl]

theorem sp_count_true_false (B : List Bool) : B.length = B.count true + B.count false := by
  induction B with
  | nil => rfl
  | cons b bs ih => cases b <;> simp [List.count_cons, ih] <;> omega

/-! ### 2. the mathematical heart: the decoded `high` IS the unary bucket sequence of the decoded values -/

/-- the facts about the decoded values `sparseValues w 0 (onesPos H) low` that follow from `low` being `w`-bit
numbers, one per set bit of `H` -/
theorem sp_values_facts {w : Nat} {H : List Bool} {low : List Nat}
    (hlen : (onesPos H).length = low.length) (hlow : ∀ x ∈ low, x < 2 ^ w) :
    (Doc.sparseValues w 0 (onesPos H) low).length = H.count true ∧
    ∀ j (hj : j < (Doc.sparseValues w 0 (onesPos H) low).length),
      ∃ (h1 : j < (onesPos H).length) (h2 : j < low.length),
        (Doc.sparseValues w 0 (onesPos H) low)[j] >>> w + j = (onesPos H)[j] ∧
        (Doc.sparseValues w 0 (onesPos H) low)[j] % 2 ^ w = low[j] := by
  have hl := sp_values_length w (onesPos H) low 0 hlen
  refine ⟨by rw [hl, length_onesPos], fun j hj => ?_⟩
  have h1 : j < (onesPos H).length := by omega
  have h2 : j < low.length := by omega
  refine ⟨h1, h2, ?_⟩
  have hv := sp_values_getElem w (onesPos H) low 0 j hlen h1
  rw [List.getElem?_eq_getElem hj, Nat.zero_add] at hv
  have hv := Option.some.inj hv
  have hge := strict_getElem_ge (onesPos_pairwise H) j h1
  obtain ⟨a, b⟩ := sp_split_combine (w := w) (l := low[j]) (d := (onesPos H)[j] - j) (hlow _ (List.getElem_mem h2))
  rw [hv, a, b]
  exact ⟨by omega, rfl⟩

/-- **uniqueness applied to the decoded file**: a bit list `H` with `⌈n / 2^w⌉` zeros whose decoded values
(`low[i] + ((select(i) - i) << w)`, `low[i] < 2^w`) are sorted and below `n` is the bucket sequence
`highBits w (getBuckets n w)` of those values -/
theorem sp_high_eq {w n : Nat} {H : List Bool} {low : List Nat} (hw : w ≤ 63)
    (hlen : (onesPos H).length = low.length) (hlow : ∀ x ∈ low, x < 2 ^ w)
    (hz : H.count false = Sparse.getBuckets n w)
    (hbound : ∀ p ∈ Doc.sparseValues w 0 (onesPos H) low, p < n)
    (hsorted : sortedLe (Doc.sparseValues w 0 (onesPos H) low) = true) :
    H = highBits w (Sparse.getBuckets n w) (Doc.sparseValues w 0 (onesPos H) low) := by
  obtain ⟨hvl, hv⟩ := sp_values_facts hlen hlow
  generalize hP : Doc.sparseValues w 0 (onesPos H) low = P at *
  have hpw := sortedLe_pairwise P hsorted
  have hbk : ∀ p ∈ P, p >>> w < Sparse.getBuckets n w := fun p hp => shr_lt_getBuckets hw (hbound p hp)
  apply highBits_unique hpw hbk H
  · rw [sp_count_true_false H, hvl, hz]
  · intro q
    rw [← Glue.mem_onesPos]
    constructor
    · intro hq
      obtain ⟨j, hj, e⟩ := List.getElem_of_mem hq
      have hjP : j < P.length := by rw [hvl, ← length_onesPos]; exact hj
      obtain ⟨_, _, e1, _⟩ := hv j hjP
      exact ⟨j, hjP, by rw [e1, e]⟩
    · rintro ⟨j, hj, rfl⟩
      obtain ⟨h1, _, e1, _⟩ := hv j hj
      rw [e1]
      exact List.getElem_mem h1

/-! ### 3. what the document-side acceptance gives -/

/-- the checks of `Doc.sparse`, spelled out, given what its `high` bitvector reads as -/
theorem sp_doc_decompose {lenE : Word} {t r' rest : Doc.File} {H : List Bool} {n : Nat} {P : List Nat}
    (h : Doc.sparse (lenE :: t) = some ((n, P), rest))
    (hbv : Doc.bitVector t = some (H, r')) :
    ∃ w low, Doc.intVector r' = some ((w, low), rest) ∧
      n = lenE.toNat ∧ P = Doc.sparseValues w 0 (onesPos H) low ∧
      (onesPos H).length = low.length ∧ H.count false = (n + 2 ^ w - 1) / 2 ^ w ∧
      (∀ p ∈ P, p < n) ∧ sortedLe P = true := by
  unfold Doc.sparse at h
  simp only [Doc.elem_cons, Option.bind_eq_bind, Option.bind_some, hbv] at h
  cases hiv : Doc.intVector r' with
  | none => rw [hiv] at h; cases h
  | some q =>
    obtain ⟨⟨w, low⟩, r''⟩ := q
    rw [hiv] at h
    simp only [Option.bind_some] at h
    split at h
    · rename_i hcond
      obtain ⟨c1, c2, _, c4, c5⟩ := hcond
      simp only [Option.some.injEq, Prod.mk.injEq] at h
      obtain ⟨⟨hn, hP⟩, hr⟩ := h
      subst hr hn hP
      refine ⟨w, low, rfl, rfl, rfl, c1, c2, ?_, c5⟩
      intro p hp
      have := List.all_eq_true.mp c4 p hp
      simpa using this
    · cases h

/-- on a file whose `high` has three absent optionals, acceptance by `Doc.sparse` implies that the stored number
of set bits is the actual one -/
theorem sp_plain_ones {lenE onesE : Word} {r r' rest : Doc.File} {H : List Bool} {n : Nat} {P : List Nat}
    (h : Doc.sparse (lenE :: onesE :: r) = some ((n, P), rest))
    (hraw : Doc.rawBits r = some (H, 0 :: 0 :: 0 :: r')) : H.count true = onesE.toNat := by
  apply Decidable.byContradiction
  intro hc
  unfold Doc.sparse at h
  have : Doc.bitVector (onesE :: r) = none := by
    rw [Doc.bitVector_cons, hraw]
    simp only [Option.bind_some]
    rw [if_pos (by simpa using hc)]
  simp only [Doc.elem_cons, Option.bind_eq_bind, Option.bind_some, this, Option.bind_none] at h
  cases h

/-! ### 4. the loader -/

/-- the supports the loader enables: a select / select_zero structure that is absent is built, one that is the
structure the library builds is kept -/
theorem sp_enabled_supports {b : BitVector}
    (hs : b.select = none ∨ b.select = some (SelSup.build b.data.len (positionsT .ident b.data)))
    (hz : b.selectZero = none ∨ b.selectZero = some (SelSup.build b.data.len (positionsT .compl b.data))) :
    b.enableSelect.enableSelectZero.select = some (SelSup.build b.data.len (positionsT .ident b.data)) ∧
    b.enableSelect.enableSelectZero.selectZero = some (SelSup.build b.data.len (positionsT .compl b.data)) := by
  rcases b with ⟨o, d, rk, s, z⟩
  simp only at hs hz
  rcases hs with hs | hs <;> rcases hz with hz | hz <;> subst hs hz <;> exact ⟨rfl, rfl⟩

/-- the common core: `t` is the part of the file holding `high`; the document reads the bits `H` from it, the
model loads `b` from it with exactly these bits, and after `enable_select` / `enable_select_zero` the two select
structures of `b` are the ones the library builds from `b.data` -/
theorem sp_load_core (lenE : Word) (t r' rest : Doc.File) (H : List Bool) (b : BitVector) (w : Nat)
    (low : List Nat) (n : Nat) (P : List Nat)
    (h : Doc.sparse (lenE :: t) = some ((n, P), rest))
    (hbv : Doc.bitVector t = some (H, r'))
    (hbload : bitVectorC.load t = ok (b, r'))
    (hbwf : b.data.WF) (hdlt : b.data.len < 2 ^ 64) (hbbits : b.data.bits = H) (hbones : b.ones = H.count true)
    (hsel : b.enableSelect.enableSelectZero.select = some (SelSup.build b.data.len (positionsT .ident b.data)))
    (hselz : b.enableSelect.enableSelectZero.selectZero =
      some (SelSup.build b.data.len (positionsT .compl b.data)))
    (hlow : Doc.intVector r' = some ((w, low), rest))
    (hw : w ≤ 63) (hm : P.length < 2 ^ 63) :
    ∃ v, intVecC.load r' = ok (v, rest) ∧ v.WF ∧ v.data.len < 2 ^ 64 ∧
      sparseC.load (lenE :: t) = ok (⟨lenE.toNat, b.enableSelect.enableSelectZero, v⟩, rest) ∧
      (⟨lenE.toNat, b.enableSelect.enableSelectZero, v⟩ : Sparse).Encodes n w P ∧
      v.items = low ∧ H = highBits w (Sparse.getBuckets n w) P := by
  obtain ⟨w', low', hiv, hn, hP, hsl, hzc, hbound, hsorted⟩ := sp_doc_decompose h hbv
  rw [hlow] at hiv
  simp only [Option.some.injEq, Prod.mk.injEq] at hiv
  obtain ⟨⟨hw', hl'⟩, _⟩ := hiv
  subst hw' hl'
  obtain ⟨v, hvload, hvwf, hvlen, hvdl, hvw, hvitems⟩ := Doc.intVector_load hlow
  have hlowlt : ∀ x ∈ low, x < 2 ^ w := by
    intro x hx
    have := IntVec.items_lt hvwf x (by rw [hvitems]; exact hx)
    rwa [hvw] at this
  have hvl : v.len = low.length := by rw [← IntVec.items_length, hvitems]
  -- the mathematical heart
  have hzb : H.count false = Sparse.getBuckets n w := by rw [hzc, Doc.getBuckets_eq_ceil n w hw]
  have hHeq : H = highBits w (Sparse.getBuckets n w) P := by
    rw [hP]; rw [hP] at hbound hsorted
    exact sp_high_eq hw hsl hlowlt hzb hbound hsorted
  obtain ⟨hPl, hPv⟩ := sp_values_facts hsl hlowlt
  rw [← hP] at hPl hPv
  have hcount : H.count true = low.length := by rw [← length_onesPos, hsl]
  have hHlen : H.length = P.length + Sparse.getBuckets n w := by
    rw [sp_count_true_false H, hPl, hzb]
  have hdlen : b.data.len = H.length := by rw [← RawVec.bits_length, hbbits]
  refine ⟨v, hvload, hvwf, hvdl, ?_, ?_, hvitems, hHeq⟩
  · -- the loader's two sanity checks pass
    have hbload' : bitVectorC.load t = ok (b, r') := hbload
    simp only [sparseC, usizeC, readElem, bind_ok, pure_eq, hbload', hvload]
    rw [if_neg, if_neg]
    · show ¬ (b.enableSelect.enableSelectZero.len ≠ v.len + Sparse.getBuckets lenE.toNat v.width)
      rw [enableSelectZero_len, enableSelect_len]
      show ¬ (b.data.len ≠ _)
      rw [hdlen, hvl, hvw, ← hn, hHlen, hPl, hcount]
      exact fun hne => hne rfl
    · show ¬ (v.len ≠ b.enableSelect.enableSelectZero.ones)
      rw [enableSelectZero_ones, enableSelect_ones, hbones, hvl, hcount]
      exact fun hne => hne rfl
  · -- the loaded vector encodes `(n, P)`
    refine ⟨hn.symm, ?_, hw, by rw [hn]; exact lenE.isLt, hvw, by rw [hvl, hPl, hcount], ?_, hsorted, hbound, hm,
      ?_, ?_, ?_, ?_⟩
    · rw [← hvw]; exact hvwf.1
    · intro i hi
      obtain ⟨_, h2, _, e⟩ := hPv i hi
      rw [e]
      have := IntVec.items_getElem? v i
      rw [hvitems, if_pos (by rw [hvl]; exact h2), List.getElem?_eq_getElem h2] at this
      exact (Option.some.inj this).symm
    · show b.enableSelect.enableSelectZero.len = _
      rw [enableSelectZero_len, enableSelect_len]
      show b.data.len = _
      rw [hdlen, hHlen]
    · intro i hi
      have hi' : i < b.data.len := by
        have : b.enableSelect.enableSelectZero.len = b.data.len := by
          rw [enableSelectZero_len, enableSelect_len]; rfl
        rw [← this]; exact hi
      show b.enableSelect.enableSelectZero.data.bitM i = _
      rw [enableSelectZero_data, enableSelect_data]
      unfold RawVec.bitM
      rw [if_pos (by rw [hbwf.size_eq]; omega), ← hHeq, ← hbbits, RawVec.bits_getElem?, if_pos hi']
      rfl
    · intro m q
      rw [← hHeq, ← hbbits]
      exact selectQ_build hbwf hdlt (by rw [enableSelectZero_data, enableSelect_data])
        (by rw [enableSelectZero_ones, enableSelect_ones, hbones, hbbits]) hsel m q
    · intro m q
      rw [← hHeq, ← hbbits]
      exact selectZeroQ_build hbwf hdlt (by rw [enableSelectZero_data, enableSelect_data])
        (by rw [enableSelectZero_ones, enableSelect_ones, hbones, hbbits]) hselz m q

/-- **(S1) (←, sparse bitvector, supports of `high` absent).**  `lenE :: onesE :: r` is a file that the
document-level decoder accepts as a sparse bitvector of length `n` with the values `P`; after the raw bitvector `H`
of `high` come three `0` length elements (no rank / select / select_zero structure) and then the integer vector of
the low parts, of width `w`.  If `w ≤ 63` and there are fewer than `2^63` values, the model's loader accepts the
file, leaves the same rest, and the loaded vector `Encodes n w P` — the hypothesis of every query theorem of
C02 / C15.  (Also: the loaded `high` has the bits `H`, which are the unary bucket sequence of `P`; the loaded `low`
has the items `low`.) -/
theorem sparse_doc_load (lenE onesE : Word) (r r' rest : Doc.File) (H : List Bool) (w : Nat) (low : List Nat)
    (n : Nat) (P : List Nat)
    (h : Doc.sparse (lenE :: onesE :: r) = some ((n, P), rest))
    (hraw : Doc.rawBits r = some (H, 0 :: 0 :: 0 :: r'))
    (hlow : Doc.intVector r' = some ((w, low), rest))
    (hw : w ≤ 63) (hm : P.length < 2 ^ 63) :
    ∃ s, sparseC.load (lenE :: onesE :: r) = ok (s, rest) ∧ s.Encodes n w P ∧
      s.high.data.bits = H ∧ s.low.items = low ∧ H = highBits w (Sparse.getBuckets n w) P := by
  have hones := sp_plain_ones h hraw
  obtain ⟨hbv, b, hbload, hbwf, hbbits, hbones, hbr, hbs, hbz, _⟩ := Doc.bitVector_load_plain hraw hones
  have hdlt : b.data.len < 2 ^ 64 := by
    obtain ⟨d, hd, _, hdlt', hdb⟩ := Doc.rawBits_load hraw
    rw [← RawVec.bits_length, hbbits, ← hdb, RawVec.bits_length]; exact hdlt'
  obtain ⟨hsel, hselz⟩ := sp_enabled_supports (Or.inl hbs) (Or.inl hbz)
  obtain ⟨v, _, _, _, hload, henc, hitems, hHeq⟩ :=
    sp_load_core lenE (onesE :: r) r' rest H b w low n P h hbv hbload hbwf hdlt hbbits hbones hsel hselz hlow hw hm
  refine ⟨_, hload, henc, ?_, hitems, hHeq⟩
  show b.enableSelect.enableSelectZero.data.bits = H
  rw [enableSelectZero_data, enableSelect_data, hbbits]

/-- (S1), in the form announced in Props/C07 (`sparse_document_file_loads_partial`): the width is read off the
file.  The decomposition hypotheses say "the three optional structures of `high` are absent". -/
theorem sparse_doc_load_es (es rest : Doc.File) (n : Nat) (P : List Nat)
    (h : Doc.sparse es = some ((n, P), rest))
    (lenE onesE : Word) (r r' : Doc.File) (H : List Bool) (hes : es = lenE :: onesE :: r)
    (hraw : Doc.rawBits r = some (H, 0 :: 0 :: 0 :: r')) :
    ∃ w low, Doc.intVector r' = some ((w, low), rest) ∧ 1 ≤ w ∧ w ≤ 64 ∧
      (w ≤ 63 → P.length < 2 ^ 63 → ∃ s, sparseC.load es = ok (s, rest) ∧ s.Encodes n w P) := by
  subst hes
  have hones := sp_plain_ones h hraw
  have hbv := (Doc.bitVector_load_plain hraw hones).1
  obtain ⟨w, low, hiv, _⟩ := sp_doc_decompose h hbv
  obtain ⟨v, _, hvwf, _, _, hvw, _⟩ := Doc.intVector_load hiv
  refine ⟨w, low, hiv, by rw [← hvw]; exact hvwf.1, by rw [← hvw]; exact hvwf.2.1, fun hw hm => ?_⟩
  obtain ⟨s, hs, henc, _⟩ := sparse_doc_load lenE onesE r r' rest H w low n P h hraw hiv hw hm
  exact ⟨s, hs, henc⟩

/-! ### 5. (S2) the optional structures of `high` present and valid -/

/-- **(S2) (←, sparse bitvector, `high` written by the library with any subset of its support structures).**
The `high` part of the file is the library's serialization of a bitvector `b` (serializable: `bitVectorWF`; stored
number of set bits correct) that carries any rank structure and whose select / select_zero structures, where
present, are the ones the library builds from the bits.  If the document-level decoder accepts the file, the
loader accepts it and the loaded vector `Encodes` what the document reads. -/
theorem sparse_doc_load_supports (lenE : Word) (b : BitVector) (r' rest : Doc.File) (w : Nat) (low : List Nat)
    (n : Nat) (P : List Nat)
    (h : Doc.sparse (lenE :: (bitVectorC.ser b ++ r')) = some ((n, P), rest))
    (hwf : bitVectorWF b) (hones : b.ones = b.data.bits.count true)
    (hsel : b.select = none ∨ b.select = some (SelSup.build b.data.len (positionsT .ident b.data)))
    (hselz : b.selectZero = none ∨ b.selectZero = some (SelSup.build b.data.len (positionsT .compl b.data)))
    (hlow : Doc.intVector r' = some ((w, low), rest))
    (hw : w ≤ 63) (hm : P.length < 2 ^ 63) :
    ∃ s, sparseC.load (lenE :: (bitVectorC.ser b ++ r')) = ok (s, rest) ∧ s.Encodes n w P ∧
      s.high = b.enableSelect.enableSelectZero ∧ s.low.items = low ∧
      b.data.bits = highBits w (Sparse.getBuckets n w) P := by
  have hbv := Doc.bitVector_ser hwf hones r'
  have hbload := (bitVectorC_loads isEof_eof hwf).1 r'
  obtain ⟨hs, hz⟩ := sp_enabled_supports hsel hselz
  obtain ⟨v, _, _, _, hload, henc, hitems, hHeq⟩ :=
    sp_load_core lenE (bitVectorC.ser b ++ r') r' rest b.data.bits b w low n P h hbv hbload hwf.1.1 hwf.1.2 rfl
      hones hs hz hlow hw hm
  exact ⟨_, hload, henc, rfl, hitems, hHeq⟩

/-- a bitvector over the raw vector `v` with a chosen subset of the three support structures, each built by the
library (`enable_rank`, `enable_select`, `enable_select_zero`) -/
def sp_withSupports (v : RawVec) (rk sl sz : Bool) : BitVector :=
  let b := BitVector.ofRaw v
  let b := if rk then b.enableRank else b
  let b := if sl then b.enableSelect else b
  if sz then b.enableSelectZero else b

theorem sp_withSupports_facts {v : RawVec} (hv : v.WF) (hlen : v.len < 2 ^ 63) (rk sl sz : Bool) :
    bitVectorWF (sp_withSupports v rk sl sz) ∧ (sp_withSupports v rk sl sz).data = v ∧
    (sp_withSupports v rk sl sz).ones = v.bits.count true ∧
    ((sp_withSupports v rk sl sz).select = none ∨
      (sp_withSupports v rk sl sz).select = some (SelSup.build v.len (positionsT .ident v))) ∧
    ((sp_withSupports v rk sl sz).selectZero = none ∨
      (sp_withSupports v rk sl sz).selectZero = some (SelSup.build v.len (positionsT .compl v))) := by
  have s0 := ofRaw_sound hv hlen
  have w0 := ofRaw_wf hv hlen
  have hc := countOnes_eq v hv
  cases rk <;> cases sl <;> cases sz <;>
    simp only [sp_withSupports, if_true, if_false, Bool.false_eq_true]
  · exact ⟨w0, rfl, hc, Or.inl rfl, Or.inl rfl⟩
  · exact ⟨enableSelectZero_wf s0 w0, rfl, hc, Or.inl rfl, Or.inr rfl⟩
  · exact ⟨enableSelect_wf s0 w0, rfl, hc, Or.inr rfl, Or.inl rfl⟩
  · exact ⟨enableSelectZero_wf s0.enableSelect (enableSelect_wf s0 w0), rfl, hc, Or.inr rfl, Or.inr rfl⟩
  · exact ⟨enableRank_wf s0 w0, rfl, hc, Or.inl rfl, Or.inl rfl⟩
  · exact ⟨enableSelectZero_wf s0.enableRank (enableRank_wf s0 w0), rfl, hc, Or.inl rfl, Or.inr rfl⟩
  · exact ⟨enableSelect_wf s0.enableRank (enableRank_wf s0 w0), rfl, hc, Or.inr rfl, Or.inl rfl⟩
  · exact ⟨enableSelectZero_wf s0.enableRank.enableSelect (enableSelect_wf s0.enableRank (enableRank_wf s0 w0)),
      rfl, hc, Or.inr rfl, Or.inr rfl⟩

/-- (S2), concretely: `high` = the library's serialization of the bits `H` (fewer than `2^63`) with ANY of the
eight subsets of support structures enabled before writing -/
theorem sparse_doc_load_any_supports (lenE : Word) (H : List Bool) (rk sl sz : Bool) (r' rest : Doc.File) (w : Nat)
    (low : List Nat) (n : Nat) (P : List Nat) (hH : H.length < 2 ^ 63)
    (h : Doc.sparse (lenE :: (bitVectorC.ser (sp_withSupports (RawVec.ofBits H) rk sl sz) ++ r')) =
      some ((n, P), rest))
    (hlow : Doc.intVector r' = some ((w, low), rest)) (hw : w ≤ 63) :
    ∃ s, sparseC.load (lenE :: (bitVectorC.ser (sp_withSupports (RawVec.ofBits H) rk sl sz) ++ r')) = ok (s, rest) ∧
      s.Encodes n w P ∧ H = highBits w (Sparse.getBuckets n w) P := by
  have hv := RawVec.ofBits_WF H
  have hl : (RawVec.ofBits H).len < 2 ^ 63 := by rw [← RawVec.bits_length, RawVec.bits_ofBits]; exact hH
  obtain ⟨hwf, hd, ho, hs, hz⟩ := sp_withSupports_facts hv hl rk sl sz
  have hbits : (sp_withSupports (RawVec.ofBits H) rk sl sz).data.bits = H := by rw [hd, RawVec.bits_ofBits]
  have hbv := Doc.bitVector_ser hwf (by rw [ho, hd]) r'
  obtain ⟨_, _, _, _, hP, _, _, _, _⟩ := sp_doc_decompose h hbv
  have hm : P.length < 2 ^ 63 := by
    have hsl : (onesPos H).length ≤ H.length := by rw [length_onesPos]; exact List.count_le_length
    have : P.length ≤ (onesPos H).length := by
      rw [hP, hbits]
      exact sp_values_length_le _ _ _ _
    omega
  obtain ⟨s, h1, h2, _, _, h3⟩ := sparse_doc_load_supports lenE _ r' rest w low n P h hwf (by rw [ho, hd])
    (by rw [hd]; exact hs) (by rw [hd]; exact hz) hlow hw hm
  exact ⟨s, h1, h2, by rw [← hbits]; exact h3⟩

/-! ### 6. (S3) are the hypotheses needed?

`w ≤ 63`.  The document allows `w = 64`: integer vectors have widths "from 1 to 64 bits" and the sparse section
only demands `w >= 1` (it says `w ≈ log2(n) - log2(m)`, which is not a bound).  The file below (n = 5, the single
value 3, low width 64) is accepted by `Doc.sparse` and by the loader — `get_buckets` has a special case for width
64, and `load` does not look at the width.
* `Sparse.Encodes` contains `w ≤ 63`, so without the hypothesis the conclusion of `sparse_doc_load` is false for
  this file (`sp_w64_not_encodes`).
* In the MODEL the loaded vector nevertheless answers every query correctly in both modes
  (`sp_w64_model_answers`), because `Sparse.split` of Model/Sparse.lean shifts with the unbounded `Nat` shift and
  `Sparse.combine` has high part 0 at width ≥ 64.
  The Rust code (as first written) shifts a `usize` by `self.low.width()` = 64 (sparse_vector.rs:234 `index >> width`,
  :241 `(high - low) << width`): a shift overflow.  Run on the library itself (scratch crate, this very file):
  debug build — `load` Ok, then `get(i)`, `rank(i)` for every `i < 5` and `select(0)` panic ("attempt to shift
  right/left with overflow"); release build — `get(2..4)`, `rank(1..4)` panic (`Option::unwrap()` on `None` in
  `lower_bound` / `upper_bound`, since `index >> 64` is `index`).  So the hypothesis is needed for the real code,
  the model does NOT show it: at `w = 64` the model is not faithful (observation O2 of DESIGN.md; for C07 (←) it is a
  document-valid file that loads and then cannot be queried).

`P.length < 2^63`.  A field of `Sparse.Encodes` (`m_lt`); it is used for `high.len < 2^64` — which holds for every
file — and for the fuel of the model's `find_zero_run`.  A file violating it has at least 2^57 elements; not testable.

`hsel` / `hselz` of (S2): a select structure that is present must be the one the library builds.  The document calls
the support structures implementation-dependent and lets a reader skip them; the loader parses them and only checks
the number of superblocks.  `sp_bad_select_support`: `high` = `100` with the select structure of `010`; the document
reads (8, [1]), the loader accepts, and `select(0)` answers 5 although `get(1)` is true (same on the library). -/

/-- n = 5; high: 1 set bit, 2 bits `10`, no optionals; low: 1 item of width 64 (raw bitvector of 64 bits), value 3 -/
def sp_w64_file : Doc.File := [5, 1, 2, 1, 1, 0, 0, 0, 1, 64, 64, 1, 3]

def sp_w64_vec : Sparse :=
  ⟨5, (BitVector.ofRaw (RawVec.ofBits [true, false])).enableSelect.enableSelectZero, IntVec.ofList 64 [3]⟩

/-- the document accepts the width-64 file: the set `{3}` in a universe of 5 -/
theorem sp_w64_doc_valid : Doc.sparse sp_w64_file = some ((5, [3]), []) := by decide +kernel

/-- the loader accepts it -/
theorem sp_w64_model_loads : sparseC.load sp_w64_file = ok (sp_w64_vec, []) := by decide +kernel

/-- no vector `Encodes` anything at width 64: the conclusion of `sparse_doc_load` fails for `sp_w64_file` -/
theorem sp_w64_not_encodes (s : Sparse) (n : Nat) (P : List Nat) : ¬ s.Encodes n 64 P :=
  fun h => absurd h.w_lt (by decide)

/-- … but the MODEL answers correctly on it (the Rust code does not: it shifts by 64, see above) -/
theorem sp_w64_model_answers :
    (∀ m ∈ [Mode.checked, Mode.wrapping], ∀ i ∈ List.range 7,
      sp_w64_vec.get m i = ok (i == 3) ∧ sp_w64_vec.rank m i = ok (if i ≤ 3 then 0 else 1)) ∧
    (∀ m ∈ [Mode.checked, Mode.wrapping], sp_w64_vec.select m 0 = ok (some 3)) := by decide +kernel

/-- `high` = bits `100` carrying the select structure built for `010` -/
def sp_bad_high : BitVector :=
  { BitVector.ofRaw (RawVec.ofBits [true, false, false]) with
    select := (BitVector.ofRaw (RawVec.ofBits [false, true, false])).enableSelect.select }

/-- the 27 elements `8, 1,3,1,1, 0, 14,(2,1,2,1,3,0,64,0,0,1,1,1,1,0), 0, 1,2,2,1,1` -/
def sp_bad_file : Doc.File := 8 :: (bitVectorC.ser sp_bad_high ++ intVecC.ser (IntVec.ofList 2 [1]))

/-- a present but wrong select structure: valid for the document (which skips it), accepted by the loader, and
`select` answers wrongly in both modes — `hsel` of `sparse_doc_load_supports` cannot be dropped -/
theorem sp_bad_select_support :
    Doc.sparse sp_bad_file = some ((8, [1]), []) ∧
    ∃ s, sparseC.load sp_bad_file = ok (s, []) ∧
      ∀ m ∈ [Mode.checked, Mode.wrapping], s.select m 0 = ok (some 5) ∧ s.get m 1 = ok true := by
  refine ⟨by decide +kernel, ⟨8, sp_bad_high.enableSelect.enableSelectZero, IntVec.ofList 2 [1]⟩,
    by decide +kernel, by decide +kernel⟩

/-- non-vacuity of (S1): a file with width 2 (n = 10, values 0, 5, 9: buckets `10`, `10`, `10`) -/
def sp_small_file : Doc.File := [10, 3, 6, 1, 0b010101, 0, 0, 0, 3, 2, 6, 1, 0b010100]

theorem sp_small_doc_valid : Doc.sparse sp_small_file = some ((10, [0, 5, 9]), []) := by decide +kernel

theorem sp_small_loads : ∃ s, sparseC.load sp_small_file = ok (s, []) ∧ s.Encodes 10 2 [0, 5, 9] := by
  obtain ⟨s, h1, h2, _⟩ := sparse_doc_load 10 3 [6, 1, 0b010101, 0, 0, 0, 3, 2, 6, 1, 0b010100]
    [3, 2, 6, 1, 0b010100] [] [true, false, true, false, true, false] 2 [0, 1, 1] 10 [0, 5, 9]
    sp_small_doc_valid (by decide +kernel) (by decide +kernel) (by decide) (by decide)
  exact ⟨s, h1, h2⟩

/-
Not proven here
* (←) with optional structures of `high` that are present but NOT the library's: false (`sp_bad_select_support`).
* (S2) is stated for select / select_zero structures equal to `SelSup.build …` (what `enable_select` /
  `enable_select_zero` produce) and for an arbitrary serializable rank structure (the sparse vector never uses the
  rank structure of `high`).

#print axioms sparse_doc_load            -- [propext, Classical.choice, Quot.sound]
#print axioms sparse_doc_load_es         -- [propext, Classical.choice, Quot.sound]
#print axioms sparse_doc_load_supports   -- [propext, Classical.choice, Quot.sound]
#print axioms sparse_doc_load_any_supports
-/

end Sds.Format2

/-! ## 4. plain wavelet matrix, direction (←)  (helper Q4w)

Proofs/Format2W: direction (←) of C07 for the plain wavelet matrix.

  (W1) `wm_levels_eq_cols`: a level list the document walks (`w` levels of one length `len`, `1 ≤ w`) IS the
       column decomposition `col w V` of the items `V := Doc.wmItems levels len` the document reads from it; the
       items are `len` numbers below `2 ^ w`.  (Converse of `Doc.wmItems_cols`.)
  (W2) `wm_doc_load`: a file the document accepts as a plain wavelet matrix with items `V`, in which the three
       optional structures of every level are absent (`wmFilePlain`, a condition on the file), is loaded by
       `WaveletMatrix::load` into a matrix `x` with `x.Ok V width` — the hypothesis of every query theorem of
       C04 / C06 — where `width` is the width element of the file.
       Hypotheses: `wmFilePlain es` (needed: see W3) and `V.length < 2 ^ 63` (`WMCore.Encodes.len_lt`, the bound
       under which the rank / select supports built by `init_support` are valid; a file violating it has
       levels of at least 2^57 elements, so it cannot be tested by running).
  (W3) the hypotheses on concrete files, closed examples at the end:
       `wm_example_loads` (non-vacuity); `wm_optional_garbage_accepted` / `_refused` and
       `wm_optional_wrong_rank_accepted` / `_loaded` / `_rank` / `_get`: document-valid files with a PRESENT optional
       structure on which the loader fails, resp. loads and answers `rank` wrongly / panics in `get`;
       `wm_width_zero`, `wm_empty_alphabet`: the CHOICE readings 2 and 3 of Spec/Format against the loader.
The loader `wmC.load` does not depend on the build mode; `WM.Ok` is the hypothesis of the query theorems of
Proofs/WM, which hold for every mode.
-/

namespace Sds
namespace Format2
open Outcome Doc Codec2

/-! ### (W1) the document's walk, offset by offset -/

/-- the map of one level as the walk uses it (`Doc.levelMap_eq`: this is `Doc.mapDown B p` for `p < B.length`) -/
def wmDown (B : List Bool) (p : Nat) : Nat := (levelMap B)[p]?.getD 0

/-- one offset walked down the levels `ls`: final position, accumulated value -/
def wmWalk1 : List (List Bool) → Nat × Nat → Nat × Nat
  | [], pv => pv
  | B :: ls, pv =>
    wmWalk1 ls (wmDown B pv.1, if B.toArray[pv.1]?.getD false then pv.2 + 2 ^ ls.length else pv.2)

theorem wmWalk_eq_map : ∀ (ls : List (List Bool)) (cur : List (Nat × Nat)),
    wmWalk ls cur = cur.map (wmWalk1 ls)
  | [], cur => by simp [wmWalk, wmWalk1]
  | B :: ls, cur => by
    rw [wmWalk, wmWalk_eq_map ls, List.map_map]
    apply List.map_congr_left
    intro pv _
    rfl

/-- position on level `l` of the offset that is at position `p` on the first level of `ls` -/
def wmPos : List (List Bool) → Nat → Nat → Nat
  | _, 0, p => p
  | [], _ + 1, p => p
  | B :: ls, l + 1, p => wmPos ls l (wmDown B p)

/-- the value the walk adds below position `p` of the first level of `ls` -/
def wmVal : List (List Bool) → Nat → Nat
  | [], _ => 0
  | B :: ls, p => 2 ^ ls.length * (B[p]?.getD false).toNat + wmVal ls (wmDown B p)

@[simp] theorem wmPos_zero (ls : List (List Bool)) (p : Nat) : wmPos ls 0 p = p := by
  cases ls <;> rfl

theorem wmWalk1_eq : ∀ (ls : List (List Bool)) (p v : Nat),
    wmWalk1 ls (p, v) = (wmPos ls ls.length p, v + wmVal ls p)
  | [], p, v => rfl
  | B :: ls, p, v => by
    rw [wmWalk1, wmWalk1_eq ls]
    simp only [List.length_cons, wmPos, wmVal, List.getElem?_toArray]
    cases B[p]?.getD false <;> simp <;> omega

theorem wmPos_succ : ∀ (ls : List (List Bool)) (l p : Nat) (hl : l < ls.length),
    wmPos ls (l + 1) p = wmDown ls[l] (wmPos ls l p)
  | B :: ls, 0, p, _ => by simp [wmPos]
  | B :: ls, l + 1, p, hl => by
    have hl' : l < ls.length := by simpa using hl
    rw [wmPos, wmPos_succ ls l _ hl']
    simp [wmPos]

theorem wmVal_lt : ∀ (ls : List (List Bool)) (p : Nat), wmVal ls p < 2 ^ ls.length
  | [], p => by simp [wmVal]
  | B :: ls, p => by
    have := wmVal_lt ls (wmDown B p)
    simp only [wmVal, List.length_cons, Nat.pow_succ]
    cases B[p]?.getD false <;> simp <;> omega

/-- the value of the walk has, at the bit tested by level `l`, the bit the walk met on level `l` -/
theorem wmVal_bitAt : ∀ (ls : List (List Bool)) (l p : Nat) (hl : l < ls.length),
    bitAt ls.length l (wmVal ls p) = ls[l][wmPos ls l p]?.getD false
  | B :: ls, l, p, hl => by
    have hr := wmVal_lt ls (wmDown B p)
    rw [bitAt_eq_testBit]
    simp only [wmVal, List.length_cons]
    rw [Nat.testBit_two_pow_mul_add _ hr]
    cases l with
    | zero =>
      rw [if_neg (by omega)]
      simp only [Nat.add_sub_cancel, Nat.sub_zero, Nat.sub_self, List.getElem_cons_zero, wmPos]
      cases B[p]?.getD false <;> rfl
    | succ l =>
      have hl' : l < ls.length := by simpa using hl
      rw [if_pos (by omega)]
      have := wmVal_bitAt ls l (wmDown B p) hl'
      rw [bitAt_eq_testBit] at this
      rw [show ls.length + 1 - 1 - (l + 1) = ls.length - 1 - l by omega, this]
      simp [wmPos]

/-! ### one level is a permutation of the positions -/

theorem wm_levelMapFrom_perm (z : Nat) : ∀ (B : List Bool) (r0 r1 : Nat),
    (levelMapFrom z B r0 r1).Perm (List.range' r0 (B.count false) ++ List.range' (z + r1) (B.count true))
  | [], _, _ => by simp [levelMapFrom]
  | true :: bs, r0, r1 => by
    simp only [levelMapFrom, List.count_cons_self, List.count_cons_of_ne (by decide : true ≠ false)]
    rw [List.range'_succ]
    exact ((wm_levelMapFrom_perm z bs r0 (r1 + 1)).cons _).trans List.perm_middle.symm
  | false :: bs, r0, r1 => by
    simp only [levelMapFrom, List.count_cons_self, List.count_cons_of_ne (by decide : false ≠ true)]
    rw [List.range'_succ, List.cons_append]
    exact (wm_levelMapFrom_perm z bs (r0 + 1) r1).cons _

/-- every position of the next level is reached from some position of this level -/
theorem wmDown_surj (B : List Bool) (q : Nat) (hq : q < B.length) : ∃ p, p < B.length ∧ wmDown B p = q := by
  have hperm := wm_levelMapFrom_perm (B.count false) B 0 0
  have hrange : List.range' 0 (B.count false) ++ List.range' (B.count false + 0) (B.count true) =
      List.range' 0 B.length := by
    have := @List.range'_append 0 (B.count false) (B.count true) 1
    simp only [Nat.zero_add, Nat.one_mul, Nat.add_zero] at this ⊢
    rw [this]
    congr 1
    have := Sds.count_false_eq B
    have := List.count_le_length (a := true) (l := B)
    omega
  rw [hrange] at hperm
  have hmem : q ∈ levelMapFrom (B.count false) B 0 0 := by
    rw [hperm.mem_iff]; simp [List.mem_range']; omega
  obtain ⟨p, hp⟩ := List.mem_iff_getElem?.mp hmem
  have hpl : p < B.length := by
    have := (List.getElem?_eq_some_iff.mp hp).1
    rwa [levelMapFrom_length] at this
  refine ⟨p, hpl, ?_⟩
  unfold wmDown levelMap
  rw [List.getElem?_toArray, hp]; rfl

theorem wmDown_eq (B : List Bool) (p : Nat) (hp : p < B.length) : wmDown B p = Doc.mapDown B p :=
  levelMap_eq B p hp

/-! ### the invariant of the walk: positions are `vpos`, levels are `col` -/

/-- the items the walk reads -/
def wmVals (levels : List (List Bool)) (len : Nat) : List Nat := (List.range len).map (wmVal levels)

theorem wmItems_eq_wmVals (levels : List (List Bool)) (len : Nat) : wmItems levels len = wmVals levels len := by
  unfold wmItems wmPlaces wmVals
  rw [wmWalk_eq_map, List.map_map, List.map_map]
  apply List.map_congr_left
  intro i _
  simp [wmWalk1_eq]

theorem wmPlaces_eq (levels : List (List Bool)) (len : Nat) :
    wmPlaces levels len = (List.range len).map fun i => (wmPos levels levels.length i, wmVal levels i) := by
  unfold wmPlaces
  rw [wmWalk_eq_map, List.map_map]
  apply List.map_congr_left
  intro i _
  simp [wmWalk1_eq]

theorem wm_walk_invariant (levels : List (List Bool)) (len : Nat)
    (hlen : ∀ B ∈ levels, B.length = len) : ∀ l, l ≤ levels.length →
    (∀ i, i < len → wmPos levels l i =
      vpos levels.length (wmVals levels len) l i (wmVal levels i)) ∧
    (∀ q, q < len → ∃ i, i < len ∧ wmPos levels l i = q) ∧
    (∀ k (hk : k < levels.length), k < l → col levels.length (wmVals levels len) k = levels[k]) := by
  have hVlen : (wmVals levels len).length = len := by simp [wmVals]
  have hVget : ∀ i, i < len → (wmVals levels len)[i]? = some (wmVal levels i) := by
    intro i hi; simp [wmVals, hi]
  intro l
  induction l with
  | zero =>
    intro _
    refine ⟨fun i hi => ?_, fun q hq => ⟨q, hq, wmPos_zero _ _⟩, fun k _ hk => absurd hk (Nat.not_lt_zero _)⟩
    simp only [wmPos_zero, vpos, hVlen]
    omega
  | succ l ih =>
    intro hl
    obtain ⟨h1, h2, h3⟩ := ih (by omega)
    have hl' : l < levels.length := hl
    have hBlen : levels[l].length = len := hlen _ (List.getElem_mem hl')
    -- level `l` is the column `l`
    have hcol : col levels.length (wmVals levels len) l = levels[l] := by
      apply List.ext_getElem?
      intro q
      by_cases hq : q < len
      · obtain ⟨i, hi, hiq⟩ := h2 q hq
        have hS := getElem?_S_vpos levels.length (wmVals levels len) l i _ (hVget i hi)
        rw [← h1 i hi, hiq] at hS
        simp only [col, List.getElem?_map, hS, Option.map_some]
        rw [wmVal_bitAt levels l i hl', hiq, List.getElem?_eq_getElem (by omega)]
        rfl
      · rw [List.getElem?_eq_none (by simp only [col, List.length_map, length_S, hVlen]; omega),
          List.getElem?_eq_none (by omega)]
    refine ⟨fun i hi => ?_, fun q hq => ?_, fun k hk hkl => ?_⟩
    · rw [wmPos_succ levels l i hl', h1 i hi]
      have hS := getElem?_S_vpos levels.length (wmVals levels len) l i _ (hVget i hi)
      have hlt : vpos levels.length (wmVals levels len) l i (wmVal levels i) < len := by
        have := (List.getElem?_eq_some_iff.mp hS).1
        rwa [length_S, hVlen] at this
      rw [wmDown_eq _ _ (by omega), ← hcol]
      unfold col
      rw [mapDown_map _ _ _ _ hS]
      rfl
    · obtain ⟨p, hp, hpq⟩ := wmDown_surj levels[l] q (by omega)
      obtain ⟨i, hi, hip⟩ := h2 p (by omega)
      exact ⟨i, hi, by rw [wmPos_succ levels l i hl', hip, hpq]⟩
    · by_cases hkl' : k < l
      · exact h3 k hk hkl'
      · have : k = l := by omega
        subst this; exact hcol

/-- **(W1)** a level list the document walks is the column decomposition of the items it reads from it -/
theorem wm_levels_eq_cols (levels : List (List Bool)) (len w : Nat) (hw : levels.length = w)
    (hlen : ∀ B ∈ levels, B.length = len) :
    (wmItems levels len).length = len ∧ (∀ v ∈ wmItems levels len, v < 2 ^ w) ∧
    levels = (List.range w).map (col w (wmItems levels len)) := by
  subst hw
  rw [wmItems_eq_wmVals]
  refine ⟨by simp [wmVals], ?_, ?_⟩
  · intro v hv
    obtain ⟨i, _, rfl⟩ := List.mem_map.mp hv
    exact wmVal_lt levels i
  · obtain ⟨_, _, h3⟩ := wm_walk_invariant levels len hlen levels.length (Nat.le_refl _)
    apply List.ext_getElem?
    intro k
    by_cases hk : k < levels.length
    · rw [List.getElem?_eq_getElem hk, List.getElem?_map, List.getElem?_range hk, Option.map_some,
        h3 k hk hk]
    · rw [List.getElem?_eq_none (by omega), List.getElem?_eq_none (by simp; omega)]

/-! ### (W2) what `Doc.wm` accepts -/

theorem wmLevels_succ (k : Nat) (es : File) : wmLevels (k + 1) es =
    (bitVector es).bind fun p => (wmLevels k p.2).bind fun q => some (p.1 :: q.1, q.2) := rfl

theorem wmLevels_length : ∀ (k : Nat) (es : File) (levels : List (List Bool)) (r : File),
    wmLevels k es = some (levels, r) → levels.length = k
  | 0, es, levels, r, h => by
    simp only [wmLevels, Option.some.injEq, Prod.mk.injEq] at h
    rw [← h.1]; rfl
  | k + 1, es, levels, r, h => by
    rw [wmLevels_succ] at h
    cases hb : bitVector es with
    | none => rw [hb] at h; cases h
    | some p =>
      rw [hb] at h
      simp only [Option.bind_some] at h
      cases hl : wmLevels k p.2 with
      | none => rw [hl] at h; cases h
      | some q =>
        rw [hl] at h
        simp only [Option.bind_some, Option.some.injEq, Prod.mk.injEq] at h
        rw [← h.1, List.length_cons, wmLevels_length k p.2 q.1 q.2 hl]

/-- what the document's acceptance of a wavelet matrix core consists of -/
theorem wmCore_eq_some {es : File} {levels : List (List Bool)} {r : File} (h : wmCore es = some (levels, r)) :
    ∃ (ww : Word) (r1 : File), es = ww :: r1 ∧ 1 ≤ ww.toNat ∧ ww.toNat ≤ 64 ∧
      wmLevels ww.toNat r1 = some (levels, r) := by
  cases es with
  | nil => cases h
  | cons ww r1 =>
    refine ⟨ww, r1, rfl, ?_⟩
    unfold wmCore at h
    simp only [elem_cons, Option.bind_eq_bind, Option.bind_some] at h
    by_cases hw : ww.toNat < 1 ∨ 64 < ww.toNat
    · rw [if_pos hw] at h; cases h
    · rw [if_neg hw] at h
      cases hl : wmLevels ww.toNat r1 with
      | none => rw [hl] at h; cases h
      | some p =>
        obtain ⟨lv, r'⟩ := p
        rw [hl] at h
        simp only [Option.bind_some] at h
        cases lv with
        | nil => cases h
        | cons B0 Bs =>
          simp only at h
          split at h
          · simp only [Option.some.injEq, Prod.mk.injEq] at h
            refine ⟨by omega, by omega, ?_⟩
            rw [← h.1, ← h.2]
          · cases h

/-- what the document's acceptance of a plain wavelet matrix consists of -/
theorem wm_eq_some {es : File} {V : List Nat} {rest : File} (h : wm es = some (V, rest)) :
    ∃ (lw ww : Word) (r1 r2 : File) (levels : List (List Bool)) (fw : Nat) (first : List Nat),
      es = lw :: ww :: r1 ∧ 1 ≤ ww.toNat ∧ ww.toNat ≤ 64 ∧ wmLevels ww.toNat r1 = some (levels, r2) ∧
      intVector r2 = some ((fw, first), rest) ∧ (∀ B ∈ levels, B.length = lw.toNat) ∧
      first = wmFirst (wmPlaces levels lw.toNat) lw.toNat ∧ V = wmItems levels lw.toNat := by
  cases es with
  | nil => cases h
  | cons lw r =>
    unfold wm at h
    simp only [elem_cons, Option.bind_eq_bind, Option.bind_some] at h
    cases hc : wmCore r with
    | none => rw [hc] at h; cases h
    | some p =>
      obtain ⟨levels, r2⟩ := p
      rw [hc] at h
      simp only [Option.bind_some] at h
      cases hi : intVector r2 with
      | none => rw [hi] at h; cases h
      | some q =>
        obtain ⟨⟨fw, first⟩, r3⟩ := q
        rw [hi] at h
        simp only [Option.bind_some] at h
        by_cases hany : (levels.any fun B => B.length != lw.toNat) = true
        · rw [if_pos hany] at h; cases h
        · rw [if_neg hany] at h
          split at h
          · rename_i hf
            simp only [Option.some.injEq, Prod.mk.injEq] at h
            obtain ⟨ww, r1, rfl, h1, h64, hl⟩ := wmCore_eq_some hc
            refine ⟨lw, ww, r1, r2, levels, fw, first, rfl, h1, h64, hl, ?_, ?_, hf.1, ?_⟩
            · rw [hi, h.2]
            · intro B hB
              have := hany
              simp only [List.any_eq_true, not_exists, not_and, bne_iff_ne, ne_eq, Decidable.not_not] at this
              exact this B hB
            · rw [← h.1]; rfl
          · cases h

/-! ### (W2) the condition on the file: the optional structures of the levels are absent -/

/-- the first `k` bitvectors of `es` are a number of set bits, a raw bitvector and three `0` elements (three
absent optional structures) -/
def wmPlain : Nat → File → Prop
  | 0, _ => True
  | k + 1, es => ∃ (w : Word) (r : File) (B : List Bool) (rest : File),
      es = w :: r ∧ rawBits r = some (B, 0 :: 0 :: 0 :: rest) ∧ wmPlain k rest

/-- a plain-wavelet-matrix file (`len`, `width`, levels, …) whose `width` level bitvectors carry no optional
structure -/
def wmFilePlain : File → Prop
  | _ :: ww :: r => wmPlain ww.toNat r
  | _ => False

/-- a bitvector of the document without optional structures is loaded as `BitVector::from` of THE raw vector
with its bits (as `C07.bit_vector_document_file_loads`) -/
theorem wm_bitVector_load (w : Word) (r : File) (B : List Bool) (rest : File)
    (hraw : rawBits r = some (B, 0 :: 0 :: 0 :: rest)) (hones : B.count true = w.toNat) :
    bitVectorC.load (w :: r) = ok (BitVector.ofRaw (RawVec.ofBits B), rest) := by
  obtain ⟨_, b, hb, hwf, hbits, ho, hr, hs, hz, _⟩ := bitVector_load_plain hraw hones
  have e : b.data = RawVec.ofBits B :=
    RawVec.canonical hwf (RawVec.ofBits_WF B) (hbits.trans (RawVec.bits_ofBits B).symm)
  have hb' : b = BitVector.ofRaw (RawVec.ofBits B) := by
    cases b with
    | mk ones data rank select selectZero =>
      simp only at e hr hs hz ho hbits
      subst e hr hs hz
      simp only [BitVector.ofRaw, BitVector.mk.injEq, and_true]
      rw [ho, countOnes_eq (RawVec.ofBits B) hwf, RawVec.bits_ofBits]
  rw [← hb']; exact hb

theorem wm_optionalSkip_zero (r : File) : optionalSkip ((0 : Word) :: r) = some r := by
  rw [optionalSkip_cons]; simp

/-- the level loop of `WMCore::load` on the levels of a document file without optional structures -/
theorem wm_levels_fold (len : Nat) : ∀ (k : Nat) (r : File) (levels : List (List Bool)) (r2 : File)
    (idx : List Nat) (acc : Array BitVector), idx.length = k → wmPlain k r →
    wmLevels k r = some (levels, r2) → (∀ B ∈ levels, B.length = len) →
    (∀ b0, acc[0]? = some b0 → b0.len = len) →
    idx.foldlM lvlStep (acc, r) =
      ok (acc ++ (levels.map fun B => BitVector.ofRaw (RawVec.ofBits B)).toArray, r2)
  | 0, r, levels, r2, idx, acc, hidx, _, hl, _, _ => by
    have : idx = [] := List.eq_nil_of_length_eq_zero hidx
    subst this
    simp only [wmLevels, Option.some.injEq, Prod.mk.injEq] at hl
    rw [← hl.1, ← hl.2]
    simp
  | k + 1, r, levels, r2, idx, acc, hidx, hp, hl, hlen, hacc => by
    obtain ⟨w, r', B, rest', rfl, hraw, hp'⟩ := hp
    cases idx with
    | nil => simp at hidx
    | cons i idx =>
      rw [wmLevels_succ] at hl
      cases hb : bitVector (w :: r') with
      | none => rw [hb] at hl; cases hl
      | some p =>
        obtain ⟨B', r3⟩ := p
        rw [hb] at hl
        simp only [Option.bind_some] at hl
        cases hl' : wmLevels k r3 with
        | none => rw [hl'] at hl; cases hl
        | some q =>
          obtain ⟨Bs, r4⟩ := q
          rw [hl'] at hl
          simp only [Option.bind_some, Option.some.injEq, Prod.mk.injEq] at hl
          obtain ⟨rfl, rfl⟩ := hl
          obtain ⟨w0, r0, x0, x1, x2, he, hraw0, hcount, hs0, hs1, hs2⟩ := bitVector_eq_some hb
          injection he with hw0 hr0
          subst hw0 hr0
          rw [hraw] at hraw0
          simp only [Option.some.injEq, Prod.mk.injEq] at hraw0
          obtain ⟨rfl, rfl⟩ := hraw0
          rw [wm_optionalSkip_zero] at hs0
          injection hs0 with hs0; subst hs0
          rw [wm_optionalSkip_zero] at hs1
          injection hs1 with hs1; subst hs1
          rw [wm_optionalSkip_zero] at hs2
          injection hs2 with hs2; subst hs2
          have hBlen : (BitVector.ofRaw (RawVec.ofBits B)).len = len := by
            show (RawVec.ofBits B).len = len
            rw [← RawVec.bits_length, RawVec.bits_ofBits]
            exact hlen B (List.mem_cons_self ..)
          have hstep : lvlStep (acc, w :: r') i = ok (acc.push (BitVector.ofRaw (RawVec.ofBits B)), rest') := by
            unfold lvlStep
            simp only [wm_bitVector_load w r' B rest' hraw hcount, bind_ok]
            cases h0 : acc[0]? with
            | none => rfl
            | some b0 =>
              have := hacc b0 h0
              simp only [hBlen, this, ne_eq, not_true_eq_false, if_false, pure_eq]
          rw [List.foldlM_cons, hstep, bind_ok,
            wm_levels_fold len k rest' Bs r4 idx _ (by simpa using hidx) hp' hl'
              (fun B' hB' => hlen B' (List.mem_cons_of_mem _ hB'))
              (push_head_len acc _ len hBlen hacc)]
          simp

/-! ### (W2) the main theorem -/

/-- the matrix `WaveletMatrix::load` returns on a document file: the length element, the level bit lists as
plain bitvectors with all supports enabled (`init_support`), the loaded `first` -/
def wmLoaded (len : Nat) (levels : List (List Bool)) (first : IntVec) : WM :=
  ⟨len, WMCore.initSupport ⟨(levels.map fun B => BitVector.ofRaw (RawVec.ofBits B)).toArray⟩, first⟩

/-- **(W2), explicit form.**  A file accepted by the document as a plain wavelet matrix with items `V`, whose level
bitvectors carry no optional structure, of fewer than 2^63 items: `WaveletMatrix::load` accepts it, consumes
exactly what the document consumes, and returns a matrix that satisfies `WM.Ok V width` for the `width`
element of the file. -/
theorem wm_doc_load_explicit (es rest : File) (V : List Nat) (h : wm es = some (V, rest))
    (hplain : wmFilePlain es) (hlen : V.length < 2 ^ 63) :
    ∃ (lw ww : Word) (r : File) (levels : List (List Bool)) (first : IntVec),
      es = lw :: ww :: r ∧ lw.toNat = V.length ∧ levels = (List.range ww.toNat).map (col ww.toNat V) ∧
      first.WF ∧ first.items = (List.range (V.foldl max 0 + 1)).map
        (fun v => if v ∈ V then firstPos ww.toNat V v else V.length) ∧
      wmC.load es = ok (wmLoaded lw.toNat levels first, rest) ∧
      (wmLoaded lw.toNat levels first).Ok V ww.toNat := by
  obtain ⟨lw, ww, r1, r2, levels, fw, first, rfl, h1, h64, hl, hi, hlens, hfirst, hV⟩ := wm_eq_some h
  have hplain' : wmPlain ww.toNat r1 := hplain
  have hw := wmLevels_length _ _ _ _ hl
  obtain ⟨hVlen, hVlt, hcols⟩ := wm_levels_eq_cols levels lw.toNat ww.toNat hw hlens
  rw [← hV] at hVlen hVlt hcols
  have hfold := wm_levels_fold lw.toNat ww.toNat r1 levels r2 (List.range ww.toNat) #[] (by simp) hplain' hl
    hlens (by simp)
  obtain ⟨fv, hfload, hfwf, _, _, _, hfitems⟩ := intVector_load hi
  -- the `first` vector
  have hfirst' : first = (List.range (V.foldl max 0 + 1)).map
      (fun v => if v ∈ V then firstPos ww.toNat V v else V.length) := by
    rw [hfirst]
    conv => lhs; rw [hcols, ← hVlen]
    exact wmFirst_cols _ V hVlt
  have hfvlen : fv.len = V.foldl max 0 + 1 := by
    rw [← IntVec.items_length, hfitems, hfirst']; simp
  -- the core
  have hlev : ∀ l, l < ww.toNat → ∃ (hll : l < levels.length), col ww.toNat V l = levels[l] := by
    intro l hlw
    have hll : l < levels.length := by omega
    refine ⟨hll, ?_⟩
    have := congrArg (fun L => L[l]?) hcols
    simp only [List.getElem?_eq_getElem hll, List.getElem?_map, List.getElem?_range hlw, Option.map_some,
      Option.some.injEq] at this
    exact this.symm
  have henc : (WMCore.initSupport
      ⟨(levels.map fun B => BitVector.ofRaw (RawVec.ofBits B)).toArray⟩).Encodes V ww.toNat :=
    { width_eq := by simp [WMCore.width, WMCore.initSupport, hw]
      width_pos := h1
      width_le := h64
      bound := hVlt
      len_lt := hlen
      level := by
        intro l hlw
        obtain ⟨hll, hc⟩ := hlev l hlw
        refine ⟨(BitVector.ofRaw (RawVec.ofBits levels[l])).enableAll, by simp [WMCore.initSupport, hll], ?_⟩
        rw [hc]
        exact levelOk_ofBits _ (by rw [hlens _ (List.getElem_mem hll), ← hVlen]; exact hlen) }
  refine ⟨lw, ww, r1, levels, fv, rfl, hVlen.symm, hcols, hfwf, by rw [hfitems, hfirst'], ?_, ?_⟩
  · -- the loader
    have hcore : wmCoreC.load (ww :: r1) = ok (WMCore.initSupport
        ⟨(levels.map fun B => BitVector.ofRaw (RawVec.ofBits B)).toArray⟩, r2) := by
      rw [wmCoreC_load_eq]
      simp only [usizeC, readElem, bind_ok, pure_eq]
      rw [if_neg (by omega), hfold]
      simp
    unfold wmLoaded
    simp only [wmC, usizeC, readElem, bind_ok, pure_eq, hcore, len_ok henc, hVlen]
    rw [if_neg (by simp), hfload]
    rfl
  · exact
      { core := henc
        len := hVlen.symm
        mem_lt := by
          intro v hv
          show v < fv.len
          rw [hfvlen]
          have := (foldl_max_ge_wm V 0).2 v hv
          omega
        first := by
          intro v hv
          have hv' : v < fv.len := hv
          refine ⟨fv.getRaw v, IntVec.get_ok fv v hv', ?_⟩
          have := IntVec.items_getElem? fv v
          rw [if_pos hv', hfitems, hfirst', List.getElem?_map, List.getElem?_range (by omega)] at this
          simp only [Option.map_some, Option.some.injEq] at this
          exact this.symm }

/-- **(W2).**  Direction (←) for the plain wavelet matrix: what the document accepts (optional structures of
the levels absent), the library loads, into a matrix on which every query theorem of C04 / C06 applies
(`WM.Ok`), with the items the document reads. -/
theorem wm_doc_load (es rest : File) (V : List Nat) (h : wm es = some (V, rest))
    (hplain : wmFilePlain es) (hlen : V.length < 2 ^ 63) :
    ∃ x width, wmC.load es = ok (x, rest) ∧ x.Ok V width := by
  obtain ⟨lw, ww, r, levels, first, _, _, _, _, _, hload, hok⟩ := wm_doc_load_explicit es rest V h hplain hlen
  exact ⟨_, _, hload, hok⟩

/-! ### (W3) the hypotheses on concrete files -/

/-- the items `[1, 0]` as a document file: `len` 2; core: `width` 1, level 0 = 1 set bit, raw bitvector of 2
bits in one element `0b01`, three absent optionals; `first` = `[0, 1]`: 2 items of width 1, raw bitvector of 2
bits in one element `0b10` -/
def wmFileOk : File := [2, 1, 1, 2, 1, 1, 0, 0, 0, 2, 1, 2, 1, 2]

theorem wm_example_accepted : wm wmFileOk = some ([1, 0], []) := by decide +kernel

theorem wm_example_plain : wmFilePlain wmFileOk :=
  ⟨1, _, [true, false], [2, 1, 2, 1, 2], rfl, by decide +kernel, trivial⟩

/-- non-vacuity of `wm_doc_load` -/
theorem wm_example_loads : ∃ x width, wmC.load wmFileOk = ok (x, []) ∧ x.Ok [1, 0] width :=
  wm_doc_load _ _ _ wm_example_accepted wm_example_plain (by decide)

/-- `wmFilePlain` cannot be dropped (1): the same file with a rank-support optional of announced length 1 and
content `77`.  The document's reader skips the optional by its length and reads the items `[1, 0]`;
`WaveletMatrix::load` parses the optional as a rank support and fails (unexpected end of file). -/
def wmFileGarbage : File := [2, 1, 1, 2, 1, 1, 1, 77, 0, 0, 2, 1, 2, 1, 2]

theorem wm_optional_garbage_accepted : wm wmFileGarbage = some ([1, 0], []) := by decide +kernel

theorem wm_optional_garbage_refused : wmC.load wmFileGarbage = fault (.err .eof) := by decide +kernel

/-- `wmFilePlain` cannot be dropped (2): the same file with a rank-support optional of the right SHAPE (a vector
of one sample pair, as `BitVector::load` checks) and the wrong CONTENT (`(5, 0)` instead of `(0, 1)`).  The
document's reader skips it and reads `[1, 0]`; `WaveletMatrix::load` accepts the file, keeps the stored rank
support (`enable_rank` does nothing when a support is present) and answers by it. -/
def wmFileWrongRank : File := [2, 1, 1, 2, 1, 1, 3, 1, 5, 0, 0, 0, 2, 1, 2, 1, 2]

theorem wm_optional_wrong_rank_accepted : wm wmFileWrongRank = some ([1, 0], []) := by decide +kernel

/-- the file is loaded completely … -/
theorem wm_optional_wrong_rank_loaded :
    (wmC.load wmFileWrongRank >>= fun p => pure (p.1.len, p.1.first.items, p.2)) = ok (2, [0, 1], []) := by
  decide +kernel

/-- … `rank(1, 1)` (occurrences of the value 1 before offset 1; the items are `[1, 0]`, so 1) answers 6 in both
builds … -/
theorem wm_optional_wrong_rank_rank (m : Mode) :
    (wmC.load wmFileWrongRank >>= fun p => p.1.rank m 1 1) = ok 6 := by
  cases m <;> decide +kernel

/-- … and `get(1)` (the item 0) panics on an arithmetic overflow in the checked build -/
theorem wm_optional_wrong_rank_get :
    (wmC.load wmFileWrongRank >>= fun p => p.1.get .checked 1) = fault (.panic .overflow) := by
  decide +kernel

/-- the reading of the width (CHOICE 2 of Spec/Format: 1 to 64) is the loader's: a core of width 0 is refused
by both -/
theorem wm_width_zero : wm [0, 0, 1, 1, 1, 1, 0] = none ∧
    wmC.load [0, 0, 1, 1, 1, 1, 0] = fault (.err .invalid) := by decide +kernel

/-- the reading of the alphabet of the empty vector (CHOICE 3: `0..=0`, so `first = [0]`) is not forced by the
loader: it also loads the empty vector with an empty `first`, which the document decoder (under CHOICE 3) does
not accept -/
theorem wm_empty_alphabet : wm [0, 1, 0, 0, 0, 0, 0, 0, 0, 1, 0, 0] = none ∧
    wm [0, 1, 0, 0, 0, 0, 0, 0, 1, 1, 1, 1, 0] = some ([], []) ∧
    (wmC.load [0, 1, 0, 0, 0, 0, 0, 0, 0, 1, 0, 0] >>= fun p => pure (p.1.len, p.1.first.items, p.2)) =
      ok (0, [], []) := by decide +kernel

end Format2
end Sds

/-! ### not proven

1. (→, run-length) is stated under `128 * v.samples.len < 2^64` (the two integer vectors fit a `usize`-addressed
   file; same condition as `Codec2.build_rlWF`).
2. (←, run-length) needs `RLCanon` (minimal integer encodings): without it the statement is false
   (`rl_noncanonical_*`).  Files with non-minimal encodings of at most 22 units are read correctly by the model
   (`rl_short_noncanonical_answers` is one instance) but are not `RLQ.Good`; no general theorem covers them.
   That every file WRITTEN by the library satisfies `RLCanon` is not stated separately (it loads back by the round
   trip of C06, `Codec2.build_roundtrip`).
3. (←, sparse / wavelet matrix) with present optional structures other than those the library writes is false
   (`sp_bad_select_support`, `wm_optional_wrong_rank_*`, `wm_optional_garbage_*`); for wavelet matrices no theorem
   covers levels carrying the library's own supports (`wmFilePlain` requires all optionals absent).
4. (←, sparse) at `w = 64`: false on the real library (shift by 64); the model does not reproduce it.
-/
