/-
Proofs/GenEqSkip: `skip_option` as translated from the source on this run (`Generated/FnsSkip.lean`) is the specified
skip — "move past the optional structure; a stream that ends inside it is an error" — on every stream whose length prefix
is below 2^61 elements (so that `elements * 8` is a `usize`).  Beyond that the source's multiplication overflows: a panic
in the checked build, and in the wrapping build a byte count that is too small, so that the function returns `Ok` without
having skipped anything (`skip_huge_prefix_checked`, `skip_huge_prefix_wrapping`: observation O19 — such a prefix is not a
prefix of the serialization of any structure, which would need 2^64 bytes, so C14 does not speak about it).
-/
import Sds.Generated.FnsSkip
namespace Sds.GenEq
open Sds Outcome Generated

/-- the specified result, in the shape the translated function returns it (`io::Result<()>` plus the reader) -/
def skipSpecR (es : Elems) : Outcome (Unit × Elems) :=
  match skipOptionSpec es with
  | .ok r => ok ((), r)
  | .fault e => fault e

theorem skip_option_eq (m : Mode) (es : Elems) (h : ∀ n r, es = n :: r → n.toNat < 2 ^ 61) :
    gen_skip_option m es = skipSpecR es := by
  cases es with
  | nil => rfl
  | cons n r =>
    have hn := h n r rfl
    unfold gen_skip_option skipSpecR skipOptionSpec
    simp only [usizeC, readElem, bind_ok, pure_eq]
    by_cases h0 : n.toNat = 0
    · simp [h0]
    · have hpos : n.toNat > 0 := Nat.pos_of_ne_zero h0
      have hmul : mulM m n.toNat 8 = ok (n.toNat * 8) := mulM_ok (by simp only [U64]; omega)
      simp only [hpos, decide_true, if_true, hmul, copyTakeSink, bind_ok]
      have hb : (BitVec.ofNat 64 (n.toNat * 8)).toNat = n.toNat * 8 := by
        simp only [BitVec.toNat_ofNat]; exact Nat.mod_eq_of_lt (by omega)
      simp only [hb, Nat.mul_div_cancel _ (by decide : 0 < 8)]
      by_cases hle : n.toNat ≤ r.length
      · have : min n.toNat r.length = n.toNat := Nat.min_eq_left hle
        simp [this, hle, Nat.mul_comm]
      · have hlt : r.length < n.toNat := Nat.lt_of_not_le hle
        have hmin : min n.toNat r.length = r.length := Nat.min_eq_right (Nat.le_of_lt hlt)
        have hne : BitVec.ofNat 64 (8 * r.length) ≠ BitVec.ofNat 64 (n.toNat * 8) := by
          intro heq
          have := congrArg BitVec.toNat heq
          simp only [BitVec.toNat_ofNat] at this
          rw [Nat.mod_eq_of_lt (by omega), Nat.mod_eq_of_lt (by omega)] at this
          omega
        simp [hmin, hle, hne]

/-- the prefix 2^61: the checked build panics on `elements * WORD_BYTES` -/
theorem skip_huge_prefix_checked :
    gen_skip_option .checked [BitVec.ofNat 64 (2 ^ 61), 7, 8] = fault (.panic .overflow) := by decide +kernel

/-- … and the wrapping build skips nothing and reports success, where the specification has an error -/
theorem skip_huge_prefix_wrapping :
    gen_skip_option .wrapping [BitVec.ofNat 64 (2 ^ 61), 7, 8] = ok ((), [7, 8]) ∧
    skipSpecR [BitVec.ofNat 64 (2 ^ 61), 7, 8] = fault (.err .eof) := by decide +kernel

/-- the hypothesis is satisfiable and both branches are reached -/
example : gen_skip_option .checked [2, 5, 6, 77] = ok ((), [77]) ∧ gen_skip_option .checked [3, 5, 6] = fault (.err .eof)
    ∧ gen_skip_option .wrapping [0, 9] = ok ((), [9]) ∧ gen_skip_option .checked [] = fault (.err .eof) := by decide +kernel

end Sds.GenEq
