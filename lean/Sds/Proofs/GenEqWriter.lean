/-
Proofs/GenEqWriter: the buffered file writers of `raw_vector.rs` / `int_vector.rs` as TRANSLATED statement by statement
from the source (Generated/FnsWriter.lean) are equal to the hand-written model of Model/Writer.lean, under hypotheses
that say "the buffer is a well-represented vector and no length in bits reaches 2^64".
-/
import Sds.Generated.FnsWriter
import Sds.Proofs.GenEqVec
import Sds.Proofs.Writer

namespace Sds.GenEq
open Sds Outcome Generated

/-! ### the common tail of `push_bit` / `push_int`: `if buf.len() >= buf_len { flush(Safe).unwrap() }` -/

theorem wr_tail (w1 : RawWriter) :
    ((if decide (w1.buf.len ≥ w1.bufLen) then do
        let t2 ← ok (RawWriter.flushG w1 FlushMode.safe)
        gUnwrap t2.1
        pure t2.2
      else pure w1) : Outcome RawWriter) = RawWriter.flushIf w1 := by
  unfold RawWriter.flushIf RawWriter.flushG gUnwrap
  by_cases h : w1.buf.len ≥ w1.bufLen
  · simp only [h, decide_true, if_true, bind_ok]
    generalize w1.flushSafe = r
    obtain ⟨r1, r2⟩ := r
    cases r2 <;> rfl
  · simp only [h, decide_false, if_false, Bool.false_eq_true, pure_eq]

/-! ### RawVectorWriter -/

/-- `push_bit`: buffer push, `len += 1`, flush when full. -/
theorem wr_push_bit_eq (m : Mode) (w : RawWriter) (b : Bool)
    (hs : w.buf.len / 64 ≤ w.buf.data.size) (hb : w.buf.len + 1 < U64) (hl : w.len + 1 < U64) :
    gen_RawVectorWriter_push_bit m w b = w.pushBit b := by
  rw [RawWriter.pushBit_eq, ← wr_tail]
  unfold gen_RawVectorWriter_push_bit
  simp only [raw_push_bit_eq m w.buf b hs hb, addM_ok hl, bind_ok]
  by_cases h : (w.buf.pushBit b).len ≥ w.bufLen
  · simp only [h, decide_true, if_true]
    cases (RawWriter.flushG _ FlushMode.safe).1 <;> rfl
  · simp only [h, decide_false, if_false, Bool.false_eq_true, pure_eq, bind_ok]

/-- `push_int` with width 0 returns early: no hypothesis at all. -/
theorem wr_push_int_zero (m : Mode) (w : RawWriter) (x : Word) :
    gen_RawVectorWriter_push_int m w x 0 = w.pushInt x 0 := rfl

/-- `push_int`, weakest form: the hypotheses are only needed for a positive width. -/
theorem wr_push_int_eq' (m : Mode) (w : RawWriter) (x : Word) (width : Nat)
    (H : width ≠ 0 → width ≤ 64 ∧ w.buf.len ≤ 64 * w.buf.data.size ∧ 64 * w.buf.data.size < U64 ∧
      w.buf.len + width < U64 ∧ w.len + width < U64) :
    gen_RawVectorWriter_push_int m w x width = w.pushInt x width := by
  by_cases h0 : width = 0
  · subst h0; rfl
  · obtain ⟨hw, hs, hc, hb, hl⟩ := H h0
    rw [RawWriter.pushInt_eq, if_neg h0, ← wr_tail]
    unfold gen_RawVectorWriter_push_int
    simp only [h0, decide_false, Bool.false_eq_true, if_false,
      raw_push_int_eq m w.buf x width hw hs hc hb, addM_ok hl, bind_ok]
    by_cases h : (w.buf.pushInt x width).len ≥ w.bufLen
    · simp only [h, decide_true, if_true]
      cases (RawWriter.flushG _ FlushMode.safe).1 <;> rfl
    · simp only [h, decide_false, if_false, Bool.false_eq_true, pure_eq, bind_ok]

/-- `push_int`: buffer push, `len += width`, flush when full. -/
theorem wr_push_int_eq (m : Mode) (w : RawWriter) (x : Word) (width : Nat) (hw : width ≤ 64)
    (hs : w.buf.len ≤ 64 * w.buf.data.size) (hc : 64 * w.buf.data.size < U64)
    (hb : w.buf.len + width < U64) (hl : w.len + width < U64) :
    gen_RawVectorWriter_push_int m w x width = w.pushInt x width :=
  wr_push_int_eq' m w x width fun _ => ⟨hw, hs, hc, hb, hl⟩

/-- `close_with_header`: no hypothesis.  A failing final flush is `Err` on both sides (`?` = `gTry`); `write_header`
never fails in the model. -/
theorem wr_close_with_header_eq (m : Mode) (w : RawWriter) (header : Array Word) :
    gen_RawVectorWriter_close_with_header m w header = w.closeWith header.toList := by
  unfold gen_RawVectorWriter_close_with_header RawWriter.closeWith RawWriter.flushG RawWriter.writeHeaderG gTry
  obtain ⟨len, bufLen, buf, isOpen, uh, hd, body, budget⟩ := w
  cases isOpen
  · rfl
  · simp only [if_true, bind_ok, Bool.not_true, Bool.false_eq_true, if_false]
    have ho : (RawWriter.flushFinal ⟨len, bufLen, buf, true, uh, hd, body, budget⟩).1.isOpen = true := by
      unfold RawWriter.flushFinal RawWriter.writeBody
      simp only [Bool.not_true, Bool.false_eq_true, if_false]
      cases budget with
      | none => rfl
      | some b => dsimp only; split <;> rfl
    generalize RawWriter.flushFinal ⟨len, bufLen, buf, true, uh, hd, body, budget⟩ = r at ho
    obtain ⟨r1, r2⟩ := r
    cases r2
    · rfl
    · dsimp only at ho
      simp [ho]

/-- the flag wrapper: `(true, new state)`, or `(false, old state)` on `Err`; `closeWith` has no other fault. -/
theorem wr_close_with_header_flag_eq (m : Mode) (w : RawWriter) (header : Array Word) :
    gen_RawVectorWriter_close_with_header_flag m w header =
      match w.closeWith header.toList with
      | .ok w' => ok (true, w')
      | .fault _ => ok (false, w) := by
  unfold gen_RawVectorWriter_close_with_header_flag
  rw [wr_close_with_header_eq]
  cases h : w.closeWith header.toList with
  | ok w' => rfl
  | fault f => rw [RawWriter.closeWith_fault w _ f h]

theorem wr_flag_try (m : Mode) (w : RawWriter) (header : Array Word) :
    (do let t1 ← gen_RawVectorWriter_close_with_header_flag m w header
        gTry t1.1
        pure t1.2) = w.closeWith header.toList := by
  rw [wr_close_with_header_flag_eq]
  cases h : w.closeWith header.toList with
  | ok w' => rfl
  | fault f => rw [RawWriter.closeWith_fault w _ f h]; rfl

/-- `close`: the Rust `close()` passes an EMPTY header to `close_with_header`. -/
theorem wr_close_eq (m : Mode) (w : RawWriter) : gen_RawVectorWriter_close m w = w.closeWith [] := by
  rw [← wr_flag_try m w #[]]
  unfold gen_RawVectorWriter_close
  obtain ⟨len, bufLen, buf, isOpen, uh, hd, body, budget⟩ := w
  rfl

/-- … which is the model's `close` for a writer whose user header is empty (every raw writer:
`RawVectorWriter::new / with_buf_len` = `RawWriter.withBufLen []`). -/
theorem wr_close_eq_close (m : Mode) (w : RawWriter) (hu : w.userHeader = []) :
    gen_RawVectorWriter_close m w = w.close := by
  rw [wr_close_eq, RawWriter.close, hu]

/-! ### IntVectorWriter -/

theorem iwr_push_eq' (m : Mode) (w : IntWriter) (x : Word)
    (H : w.width ≠ 0 → w.width ≤ 64 ∧ w.writer.buf.len ≤ 64 * w.writer.buf.data.size ∧
      64 * w.writer.buf.data.size < U64 ∧ w.writer.buf.len + w.width < U64 ∧ w.writer.len + w.width < U64)
    (hl : w.len + 1 < U64) :
    gen_IntVectorWriter_push m w x = w.push x := by
  unfold gen_IntVectorWriter_push IntWriter.push
  dsimp only
  rw [wr_push_int_eq' m w.writer x w.width H]
  cases w.writer.pushInt x w.width with
  | fault f => rfl
  | ok r => simp only [bind_ok, addM_ok hl]

theorem iwr_push_eq (m : Mode) (w : IntWriter) (x : Word) (hw : w.width ≤ 64)
    (hs : w.writer.buf.len ≤ 64 * w.writer.buf.data.size) (hc : 64 * w.writer.buf.data.size < U64)
    (hb : w.writer.buf.len + w.width < U64) (hwl : w.writer.len + w.width < U64) (hl : w.len + 1 < U64) :
    gen_IntVectorWriter_push m w x = w.push x :=
  iwr_push_eq' m w x (fun _ => ⟨hw, hs, hc, hb, hwl⟩) hl

/-- `close`: no hypothesis. -/
theorem iwr_close_eq (m : Mode) (w : IntWriter) : gen_IntVectorWriter_close m w = w.close := by
  unfold IntWriter.close
  rw [show [BitVec.ofNat 64 w.len, BitVec.ofNat 64 w.width] = #[BitVec.ofNat 64 w.len, BitVec.ofNat 64 w.width].toList
    from rfl, ← wr_flag_try m w.writer]
  unfold gen_IntVectorWriter_close
  dsimp only
  cases gen_RawVectorWriter_close_with_header_flag m w.writer _ with
  | fault f => rfl
  | ok t => obtain ⟨t1, t2⟩ := t; cases t1 <;> rfl

/-! ### corollaries under the writer invariant of Proofs/Writer.lean

`RawWriter.Good` (buffer well-formed, `64 ∣ bufLen`, `buf.len < bufLen`, `len` = bits pushed) gives every buffer
hypothesis once `buf_len` is a `usize`; what remains is "the total length stays below 2^64". -/

theorem good_buf_bounds {w : RawWriter} (hg : RawWriter.Good w) (hB : w.bufLen < U64) :
    w.buf.len ≤ 64 * w.buf.data.size ∧ 64 * w.buf.data.size < U64 ∧ w.buf.len + 64 < U64 ∧ w.buf.len ≤ w.len := by
  have h1 := hg.wf.1
  have h2 := hg.lt
  have h3 := hg.dvd
  have h4 := hg.len_eq'
  have hU : U64 = 18446744073709551616 := rfl
  omega

theorem wr_push_bit_eq_good (m : Mode) (w : RawWriter) (b : Bool) (hg : RawWriter.Good w) (hB : w.bufLen < U64)
    (hl : w.len + 1 < U64) : gen_RawVectorWriter_push_bit m w b = w.pushBit b := by
  obtain ⟨h1, h2, h3, h4⟩ := good_buf_bounds hg hB
  exact wr_push_bit_eq m w b (by omega) (by omega) hl

theorem wr_push_int_eq_good (m : Mode) (w : RawWriter) (x : Word) (width : Nat) (hw : width ≤ 64)
    (hg : RawWriter.Good w) (hB : w.bufLen < U64) (hl : w.len + width < U64) :
    gen_RawVectorWriter_push_int m w x width = w.pushInt x width := by
  obtain ⟨h1, h2, h3, h4⟩ := good_buf_bounds hg hB
  exact wr_push_int_eq m w x width hw h1 h2 (by omega) hl

/-- a raw writer as created by `RawVectorWriter::new / with_buf_len` with an empty parent header -/
theorem wr_close_eq_new (m : Mode) (bufLen : Nat) (bud : Option Nat) :
    gen_RawVectorWriter_close m (RawWriter.withBufLen [] bufLen bud) = (RawWriter.withBufLen [] bufLen bud).close :=
  wr_close_eq_close m _ rfl

theorem iwr_push_eq_good (m : Mode) (w : IntWriter) (x : Word) (hg : IntWriter.Good w)
    (hB : w.writer.bufLen < U64) (hwl : w.writer.len + w.width < U64) (hl : w.len + 1 < U64) :
    gen_IntVectorWriter_push m w x = w.push x := by
  obtain ⟨h1, h2, h3, h4⟩ := good_buf_bounds hg.good hB
  have := hg.w2
  exact iwr_push_eq m w x hg.w2 h1 h2 (by omega) hwl hl

/-! ### whole push histories (the invariant is kept by every push, `Proofs/Writer.lean`) -/

/-- a push of the writer API, run by the translated code -/
def genRun (m : Mode) : RawWriter.Push → RawWriter → Outcome RawWriter
  | .bit b, w => gen_RawVectorWriter_push_bit m w b
  | .int x k, w => gen_RawVectorWriter_push_int m w x k

theorem push_bits_length (p : RawWriter.Push) : p.bits.length = match p with | .bit _ => 1 | .int _ k => k := by
  cases p <;> simp [RawWriter.Push.bits]

theorem wr_run_eq (m : Mode) (p : RawWriter.Push) (hp : p.valid) (w : RawWriter) (hg : RawWriter.Good w)
    (hB : w.bufLen < U64) (hl : w.len + p.bits.length < U64) : genRun m p w = p.run w := by
  rw [push_bits_length] at hl
  cases p with
  | bit b => exact wr_push_bit_eq_good m w b hg hB hl
  | int x k => exact wr_push_int_eq_good m w x k hp hg hB hl

/-- any valid history from an open writer satisfying the invariant: the translated pushes and the model pushes give
the same outcome (the same final state, or the same `unwrap` panic at the same push), as long as the total number of
bits stays below 2^64. -/
theorem wr_pushAll_eq (m : Mode) (ps : List RawWriter.Push) (hps : ∀ p ∈ ps, p.valid) (w : RawWriter)
    (ho : w.isOpen = true) (hg : RawWriter.Good w) (hB : w.bufLen < U64)
    (hl : w.len + (RawWriter.allBits ps).length < U64) :
    ps.foldlM (fun w p => genRun m p w) w = RawWriter.pushAll ps w := by
  induction ps generalizing w with
  | nil => rfl
  | cons p ps ih =>
    have hlen : (RawWriter.allBits (p :: ps)).length = p.bits.length + (RawWriter.allBits ps).length := by
      simp [RawWriter.allBits]
    rw [hlen] at hl
    rw [List.foldlM_cons, RawWriter.pushAll_cons,
      wr_run_eq m p (hps p (by simp)) w hg hB (by omega)]
    rcases RawWriter.Push.step p (hps p (by simp)) w ho hg with ⟨w', h1, e⟩ | ⟨h1, _⟩
    · rw [h1, bind_ok, bind_ok]
      exact ih (fun q hq => hps q (by simp [hq])) w' e.isOpen e.good (by rw [e.bufLen_eq]; exact hB)
        (by rw [e.len_eq]; omega)
    · rw [h1]; rfl

/-- the same from a freshly created writer (`with_buf_len`), any sink -/
theorem wr_history_eq (m : Mode) (uh : List Word) (bufLen : Nat) (bud : Option Nat) (ps : List RawWriter.Push)
    (hps : ∀ p ∈ ps, p.valid) (hB : bufLen + 63 < U64) (hl : (RawWriter.allBits ps).length < U64) :
    ps.foldlM (fun w p => genRun m p w) (RawWriter.withBufLen uh bufLen bud) =
      RawWriter.pushAll ps (RawWriter.withBufLen uh bufLen bud) := by
  refine wr_pushAll_eq m ps hps _ rfl (RawWriter.withBufLen_Good uh bufLen bud) ?_ ?_
  · rw [RawWriter.withBufLen_bufLen]
    have hU : U64 = 18446744073709551616 := rfl
    omega
  · show 0 + _ < U64
    omega

/-- integer writer: a whole list of pushes -/
theorem iwr_pushAll_eq (m : Mode) (xs : List Word) (w : IntWriter) (hg : IntWriter.Good w)
    (hB : w.writer.bufLen < U64) (hwl : w.writer.len + xs.length * w.width < U64) (hl : w.len + xs.length < U64) :
    xs.foldlM (gen_IntVectorWriter_push m) w = IntWriter.pushAll xs w := by
  induction xs generalizing w with
  | nil => rfl
  | cons x xs ih =>
    rw [List.length_cons, Nat.succ_mul] at hwl
    rw [List.length_cons] at hl
    rw [List.foldlM_cons, IntWriter.pushAll_cons, iwr_push_eq_good m w x hg hB (by omega) (by omega)]
    rcases IntWriter.push_step w hg x with ⟨w', h1, g', hw', hl', e⟩ | ⟨h1, _⟩
    · rw [h1, bind_ok, bind_ok]
      refine ih w' g' (by rw [e.bufLen_eq]; exact hB) ?_ (by rw [hl']; omega)
      rw [e.len_eq, hw', RawWriter.intBits_length]; omega
    · rw [h1]; rfl

/-! ### the hypotheses are needed: outside them the code faults (or wraps) where the model returns a value.

None of these is reachable from `with_buf_len` by pushes of fewer than 2^64 bits in total (theorems above). -/

/-- `len += 1` at `usize::MAX`: overflow panic in a checked build … -/
example : gen_RawVectorWriter_push_bit .checked ⟨U64 - 1, 64, ⟨0, #[]⟩, true, [], [0, 0], [], none⟩ true
      = fault (.panic .overflow) ∧
    RawWriter.pushBit ⟨U64 - 1, 64, ⟨0, #[]⟩, true, [], [0, 0], [], none⟩ true
      = ok ⟨U64, 64, ⟨1, #[1]⟩, true, [], [0, 0], [], none⟩ := by decide
/-- … and a wrapped `len` in an unchecked build, where the model's `Nat` length is 2^64 -/
example : gen_RawVectorWriter_push_bit .wrapping ⟨U64 - 1, 64, ⟨0, #[]⟩, true, [], [0, 0], [], none⟩ true
      = ok ⟨0, 64, ⟨1, #[1]⟩, true, [], [0, 0], [], none⟩ := by decide
/-- the same for `push_int` (`len += width`) -/
example : gen_RawVectorWriter_push_int .wrapping ⟨U64 - 1, 64, ⟨0, #[]⟩, true, [], [0, 0], [], none⟩ 1 2
      = ok ⟨1, 64, ⟨2, #[1]⟩, true, [], [0, 0], [], none⟩ ∧
    RawWriter.pushInt ⟨U64 - 1, 64, ⟨0, #[]⟩, true, [], [0, 0], [], none⟩ 1 2
      = ok ⟨U64 + 1, 64, ⟨2, #[1]⟩, true, [], [0, 0], [], none⟩ := by decide
/-- a buffer with too few words for its length (not `RawVec.WF`): index panic in the buffer push -/
example : gen_RawVectorWriter_push_bit .checked ⟨64, 128, ⟨64, #[]⟩, true, [], [0, 0], [], none⟩ true
      = fault (.panic .index) ∧
    (RawWriter.pushBit ⟨64, 128, ⟨64, #[]⟩, true, [], [0, 0], [], none⟩ true).isOk = true := by decide
/-- a width above 64 (outside the documented domain of `push_int`) -/
example : gen_RawVectorWriter_push_int .checked ⟨0, 128, ⟨0, #[]⟩, true, [], [0, 0], [], none⟩ 0 65
      = fault (.panic .index) ∧
    (RawWriter.pushInt ⟨0, 128, ⟨0, #[]⟩, true, [], [0, 0], [], none⟩ 0 65).isOk = true := by decide
/-- the element count of the integer writer, `len += 1` -/
example : gen_IntVectorWriter_push .checked ⟨U64 - 1, 1, ⟨0, 64, ⟨0, #[]⟩, true, [0, 0], [0, 0, 0, 0], [], none⟩⟩ 1
      = fault (.panic .overflow) ∧
    (IntWriter.push ⟨U64 - 1, 1, ⟨0, 64, ⟨0, #[]⟩, true, [0, 0], [0, 0, 0, 0], [], none⟩⟩ 1).isOk = true := by decide

/-- `close()` ≠ the model's `close` when the model writer carries a non-empty user header: the Rust `close` writes
only its own two header words, the model's `close` re-writes `userHeader` in front of them.  (An integer writer never
calls the raw `close`, it calls `close_with_header`; its `Drop` does, after the file is already closed.) -/
example : gen_RawVectorWriter_close .checked ⟨0, 64, ⟨0, #[]⟩, true, [7], [7, 0, 0], [], none⟩
      = ok ⟨0, 64, ⟨0, #[]⟩, false, [7], [0, 0], [], none⟩ ∧
    RawWriter.close ⟨0, 64, ⟨0, #[]⟩, true, [7], [7, 0, 0], [], none⟩
      = ok ⟨0, 64, ⟨0, #[]⟩, false, [7], [7, 0, 0], [], none⟩ := by decide

/-- a failing sink: the same `Err` from the final flush on both sides -/
example : gen_RawVectorWriter_close .checked ⟨1, 64, ⟨1, #[1]⟩, true, [], [0, 0], [], some 0⟩ = fault (.err .other) ∧
    RawWriter.closeWith ⟨1, 64, ⟨1, #[1]⟩, true, [], [0, 0], [], some 0⟩ [] = fault (.err .other) := by decide
/-- … and the same `unwrap` panic from a flush inside a push -/
example : gen_RawVectorWriter_push_int .checked ⟨0, 64, ⟨0, #[]⟩, true, [], [0, 0], [], some 0⟩ 5 64
      = fault (.panic .unwrap) ∧
    RawWriter.pushInt ⟨0, 64, ⟨0, #[]⟩, true, [], [0, 0], [], some 0⟩ 5 64 = fault (.panic .unwrap) := by decide

end Sds.GenEq
