/-
Proofs/GenEqSpIter: the translated iterator over the set bits of the Elias–Fano vector (`Generated/FnsSpIter.lean`,
from `sparse_vector.rs`: `OneIter::next`, `size_hint`, `next_back`, `SparseVector::one_iter`, `select_iter`) computes
the hand-written model (`SpOneIter.nextQ`, `remaining`, `nextBackQ`, `SpOneIter.full`, `Sparse.selectIter`).

Where the two differ, and what is assumed:

* forward skip loop `while !high.get(next.high) { next.high += 1 }`: the code adds with the mode's arithmetic (`addM`),
  the model's `skipFwd` in `Nat`.  The addition is performed only after a *successful* read `high.get h`, and
  `BitVector.get` panics unless `h / 64 < data.size`; hence `h + 1 ≤ 64 * size`, and `64 * size < 2^64`
  (`hH`) makes the two agree.  The same bound covers the final `next.high + 1`.
* the final `next.low + 1`: performed after a successful `combine`, which reads `low.get next.low` and therefore
  asserts `next.low < low.len`; also `next.low < limit.low` on that path.  Either `low.len < 2^64` or
  `limit.low < 2^64` (both are `usize` fields in the code) is enough.
* `next_back`: the model subtracts with the mode's arithmetic as well — no hypothesis.
* `size_hint`: `limit.low - next.low` with `subM`; needs `next.low ≤ limit.low` (the iterator invariant).

Independently of the allocation of `high`: `sp_iter_next_eq_of_ok` (the model succeeds with a `usize` position ⇒ the
code returns the same) and `sp_iter_next_eq_enc_at` (`s.Encodes n w P`, iterator in a reachable state `IterAt`).

The hypotheses are necessary: `sp_iter_next_ne_low` (concrete, by `decide`), `sp_iter_size_hint_ne` (concrete),
`sp_iter_next_ne_high` (conditional: a counterexample needs `2^58` words and cannot be written down).
-/
import Sds.Generated.FnsSpIter
import Sds.Proofs.GenEqIdx
import Sds.Proofs.Sparse
set_option linter.unusedSimpArgs false
set_option linter.unusedVariables false

namespace Sds.GenEq
open Sds Outcome Generated

/-! ### constructors -/

/-- `SparseVector::one_iter` -/
theorem sp_one_iter_eq (m : Mode) (s : Sparse) : gen_SparseVector_one_iter m s = ok (SpOneIter.full s) := rfl

/-- `SparseVector::select_iter`: no hypothesis -/
theorem sp_select_iter_eq (m : Mode) (s : Sparse) (r : Nat) :
    gen_SparseVector_select_iter m s r = s.selectIter m r := by
  unfold gen_SparseVector_select_iter Sparse.selectIter
  by_cases h : r ≥ s.countOnes
  · simp only [h, decide_true, if_true]; rfl
  · simp only [h, decide_false, Bool.false_eq_true, if_false, pos_eq]

/-! ### reads of `high` -/

/-- a successful read of `high` is inside the allocated words -/
theorem high_get_ok_lt {s : Sparse} {h : Nat} {b : Bool} (hg : s.high.get h = ok b) :
    h < s.high.data.data.size * 64 := by
  unfold BitVector.get RawVec.bitM at hg
  by_cases hlt : h / 64 < s.high.data.data.size
  · have := (Nat.div_lt_iff_lt_mul (by decide : 0 < 64)).mp hlt
    exact this
  · rw [if_neg hlt] at hg; cases hg

/-! ### the forward skip loop -/

/-- the body of the loop of `next` -/
def stepSkipF (ρ : Type) (m : Mode) (s : Sparse) (pos : Pos) : Outcome (Ctl Pos ρ) := do
  let t1 ← BitVector.get s.high pos.high
  if (!t1) then do
    let t2 ← addM m pos.high 1
    let pos := { pos with high := t2 }
    pure (Ctl.next pos)
  else do
    pure (Ctl.brk pos)

/-- the loop of `next` is the model's `skipFwd`, as long as the allocated words of `high` hold fewer than `2^64` bits -/
theorem loop_skipF {ρ : Type} (m : Mode) (s : Sparse) (hH : s.high.data.data.size * 64 < U64) :
    ∀ (fuel : Nat) (p : Pos),
      loopM fuel (stepSkipF ρ m s) p =
        (SpOneIter.skipFwd s fuel p.high >>= fun h => pure (Ctl.brk ⟨h, p.low⟩)) := by
  intro fuel
  induction fuel with
  | zero => intro p; rfl
  | succ n ih =>
    intro p
    rw [loopM, SpOneIter.skipFwd]
    cases hb : s.high.get p.high with
    | fault f => simp [stepSkipF, hb]
    | ok b =>
      cases b with
      | true => simp [stepSkipF, hb]
      | false =>
        have hlt := high_get_ok_lt hb
        have ha : addM m p.high 1 = ok (p.high + 1) := addM_ok (by omega)
        simp only [stepSkipF, hb, ha, bind_ok, pure_eq, Bool.not_false, if_true, Bool.false_eq_true, if_false]
        exact ih _

/-- the position returned by `skipFwd` was read successfully -/
theorem skipFwd_ok_get (s : Sparse) :
    ∀ (fuel h h' : Nat), SpOneIter.skipFwd s fuel h = ok h' → s.high.get h' = ok true := by
  intro fuel
  induction fuel with
  | zero => intro h h' e; cases e
  | succ n ih =>
    intro h h' e
    rw [SpOneIter.skipFwd] at e
    cases hb : s.high.get h with
    | fault f => rw [hb] at e; cases e
    | ok b =>
      rw [hb] at e
      cases b with
      | true =>
        simp only [bind_ok, if_true, pure_eq] at e
        cases e; exact hb
      | false =>
        simp only [bind_ok, Bool.false_eq_true, if_false] at e
        exact ih _ _ e

/-- a successful `combine` has read `low` inside its length -/
theorem combine_ok_lt {m : Mode} {s : Sparse} {p : Pos} {r : Nat × Nat} (h : s.combine m p = ok r) :
    p.low < s.low.len := by
  unfold Sparse.combine at h
  by_cases hlt : p.low < s.low.len
  · exact hlt
  · exfalso
    have hg : s.low.get p.low = fault (.panic .assert) := by unfold IntVec.get; rw [if_neg hlt]
    rw [hg] at h
    cases hh : (if s.width < 64 then do let d ← subM m p.high p.low; pure ((d <<< s.width) % U64) else pure 0 :
      Outcome Nat) with
    | fault f => rw [hh] at h; cases h
    | ok v => rw [hh] at h; cases h

/-! ### `next` -/

theorem gen_next_unfold (m : Mode) (s : Sparse) (it : SpOneIter) :
    gen_SparseOneIter_next m s it =
      (if (decide (it.next.low ≥ it.limit.low)) then pure (none, (⟨it.next, it.limit⟩ : SpOneIter)) else do
        let lr1 ← loopM (s.high.len + 1) (stepSkipF ((Option (Nat × Nat)) × SpOneIter) m s) it.next
        match lr1 with
        | .ret _ => fault .fuel
        | .next _ => fault .fuel
        | .brk self_next => do
          let t3 ← gen_SparseVector_combine m s self_next
          let t4 ← addM m self_next.high 1
          let t5 ← addM m self_next.low 1
          pure ((some t3), (⟨⟨t4, t5⟩, it.limit⟩ : SpOneIter))) := rfl

/-- `OneIter::next`, weakest form.  `hH`: the allocated words of `high` hold fewer than `2^64` bits;
`hL`: the increment of `next.low` — performed only when `next.low < limit.low` and after `combine` has asserted
`next.low < low.len` — does not overflow. -/
theorem sp_iter_next_eq' (m : Mode) (s : Sparse) (it : SpOneIter)
    (hH : s.high.data.data.size * 64 < U64)
    (hL : it.next.low < it.limit.low → it.next.low < s.low.len → it.next.low + 1 < U64) :
    gen_SparseOneIter_next m s it = SpOneIter.nextQ m s it := by
  rw [gen_next_unfold]
  unfold SpOneIter.nextQ
  by_cases h : it.next.low ≥ it.limit.low
  · simp only [h, decide_true, if_true]; rfl
  · simp only [h, decide_false, Bool.false_eq_true, if_false, loop_skipF m s hH, combine_eq]
    cases hk : SpOneIter.skipFwd s (s.high.len + 1) it.next.high with
    | fault f => rfl
    | ok h' =>
      simp only [bind_ok, pure_eq]
      cases hc : s.combine m ⟨h', it.next.low⟩ with
      | fault f => rfl
      | ok r =>
        have hlt := high_get_ok_lt (skipFwd_ok_get s _ _ _ hk)
        have hlow := combine_ok_lt hc
        have e4 : addM m h' 1 = ok (h' + 1) := addM_ok (by omega)
        have e5 : addM m it.next.low 1 = ok (it.next.low + 1) := addM_ok (hL (by omega) hlow)
        simp only [bind_ok, pure_eq, e4, e5]

/-- `OneIter::next`, hypotheses on the vector only: the allocated words of `high` hold fewer than `2^64` bits and the
length of `low` is a `usize`. -/
theorem sp_iter_next_eq (m : Mode) (s : Sparse) (it : SpOneIter)
    (hH : s.high.data.data.size * 64 < U64) (hL : s.low.len < U64) :
    gen_SparseOneIter_next m s it = SpOneIter.nextQ m s it :=
  sp_iter_next_eq' m s it hH (fun _ h => by omega)

/-- the same with the bound on the iterator's limit instead of the length of `low` -/
theorem sp_iter_next_eq_of_limit (m : Mode) (s : Sparse) (it : SpOneIter)
    (hH : s.high.data.data.size * 64 < U64) (hL : it.limit.low < U64) :
    gen_SparseOneIter_next m s it = SpOneIter.nextQ m s it :=
  sp_iter_next_eq' m s it hH (fun h _ => by omega)

/-- for a well-formed `high` (exact word count) the bound on the words is a bound on its length -/
theorem high_size_of_wf {s : Sparse} (hwf : s.high.data.WF) (hlen : s.high.len + 63 < U64) :
    s.high.data.data.size * 64 < U64 := by
  have h1 := hwf.1
  have h2 : s.high.len = s.high.data.len := rfl
  rw [h1]; omega

theorem sp_iter_next_eq_wf (m : Mode) (s : Sparse) (it : SpOneIter)
    (hwf : s.high.data.WF) (hlen : s.high.len + 63 < U64) (hL : s.low.len < U64) :
    gen_SparseOneIter_next m s it = SpOneIter.nextQ m s it :=
  sp_iter_next_eq m s it (high_size_of_wf hwf hlen) hL

/-- for an encoding of `P`: `low.len = P.length < 2^63`; the bound on `high` is about the allocation, which
`Encodes` (an interface to `high` through `len` / `get` below `len` / `select`) does not speak about -/
theorem sp_iter_next_eq_enc (m : Mode) {s : Sparse} {n w : Nat} {P : List Nat} (hs : s.Encodes n w P)
    (it : SpOneIter) (hH : s.high.data.data.size * 64 < U64) :
    gen_SparseOneIter_next m s it = SpOneIter.nextQ m s it :=
  sp_iter_next_eq m s it hH (by have := hs.low_len; have := hs.m_lt; rw [U64_eq]; omega)

theorem sp_iter_next_eq_enc_wf (m : Mode) {s : Sparse} {n w : Nat} {P : List Nat} (hs : s.Encodes n w P)
    (it : SpOneIter) (hwf : s.high.data.WF) (hlen : s.high.len + 63 < U64) :
    gen_SparseOneIter_next m s it = SpOneIter.nextQ m s it :=
  sp_iter_next_eq_enc m hs it (high_size_of_wf hwf hlen)

/-! ### `next` whenever the model's result is representable

No assumption on the allocation of `high`: if the model returns an item and the new `next` fits in `usize`, the code
returns the same (the positions visited by the skip loop are below the one found). -/

theorem skipFwd_ge (s : Sparse) :
    ∀ (fuel h h' : Nat), SpOneIter.skipFwd s fuel h = ok h' → h ≤ h' := by
  intro fuel
  induction fuel with
  | zero => intro h h' e; cases e
  | succ n ih =>
    intro h h' e
    rw [SpOneIter.skipFwd] at e
    cases hb : s.high.get h with
    | fault f => rw [hb] at e; cases e
    | ok b =>
      rw [hb] at e
      cases b with
      | true => simp only [bind_ok, if_true, pure_eq] at e; cases e; exact Nat.le_refl _
      | false =>
        simp only [bind_ok, Bool.false_eq_true, if_false] at e
        have := ih _ _ e
        omega

theorem loop_skipF_of_ok {ρ : Type} (m : Mode) (s : Sparse) (h' : Nat) (hh : h' < U64) :
    ∀ (fuel : Nat) (p : Pos), SpOneIter.skipFwd s fuel p.high = ok h' →
      loopM fuel (stepSkipF ρ m s) p = ok (Ctl.brk ⟨h', p.low⟩) := by
  intro fuel
  induction fuel with
  | zero => intro p e; cases e
  | succ n ih =>
    intro p e
    rw [SpOneIter.skipFwd] at e
    rw [loopM]
    cases hb : s.high.get p.high with
    | fault f => rw [hb] at e; cases e
    | ok b =>
      rw [hb] at e
      cases b with
      | true =>
        simp only [bind_ok, if_true, pure_eq] at e
        cases e
        simp [stepSkipF, hb]
      | false =>
        simp only [bind_ok, Bool.false_eq_true, if_false] at e
        have hge := skipFwd_ge s _ _ _ e
        have ha : addM m p.high 1 = ok (p.high + 1) := addM_ok (by omega)
        simp only [stepSkipF, hb, ha, bind_ok, pure_eq, Bool.not_false, if_true, Bool.false_eq_true, if_false]
        exact ih ⟨p.high + 1, p.low⟩ e

/-- if the model's `next` succeeds and the advanced position fits in `usize`, the code returns the same -/
theorem sp_iter_next_eq_of_ok (m : Mode) (s : Sparse) (it it' : SpOneIter) (o : Option (Nat × Nat))
    (hq : SpOneIter.nextQ m s it = ok (o, it'))
    (hh : o ≠ none → it'.next.high < U64) (hl : o ≠ none → it'.next.low < U64) :
    gen_SparseOneIter_next m s it = ok (o, it') := by
  rw [gen_next_unfold]
  unfold SpOneIter.nextQ at hq
  by_cases h : it.next.low ≥ it.limit.low
  · rw [if_pos h] at hq
    simp only [h, decide_true, if_true]
    exact hq
  · rw [if_neg h] at hq
    simp only [h, decide_false, Bool.false_eq_true, if_false]
    cases hk : SpOneIter.skipFwd s (s.high.len + 1) it.next.high with
    | fault f => rw [hk] at hq; cases hq
    | ok h' =>
      rw [hk] at hq
      simp only [bind_ok] at hq
      cases hc : s.combine m ⟨h', it.next.low⟩ with
      | fault f => rw [hc] at hq; cases hq
      | ok r =>
        rw [hc] at hq
        simp only [bind_ok, pure_eq] at hq
        cases hq
        have hh' := hh (by simp)
        have hl' := hl (by simp)
        simp only at hh' hl'
        have e4 : addM m h' 1 = ok (h' + 1) := addM_ok hh'
        have e5 : addM m it.next.low 1 = ok (it.next.low + 1) := addM_ok hl'
        rw [loop_skipF_of_ok m s h' (by omega) _ _ hk]
        simp only [bind_ok, pure_eq, combine_eq, hc, e4, e5]

/-- for an encoding of `P` and an iterator in a reachable state (`IterAt`: standing between the ones of ranks `r - 1`
and `r`), `next` of the code is `next` of the model — nothing is assumed about the allocation of `high`, the skip loop
stops at the one of rank `r`, below `high.len < 2^64` -/
theorem sp_iter_next_eq_enc_at (m : Mode) {s : Sparse} {n w : Nat} {P : List Nat} (hs : s.Encodes n w P)
    (r : Nat) (it : SpOneIter) (hit : IterAt s w P r it) :
    gen_SparseOneIter_next m s it = SpOneIter.nextQ m s it := by
  by_cases hr : r < P.length
  · have hq := (nextQ_ok hs m r it hit hr).1
    rw [hq]
    have h1 := hs.pos_lt r hr
    have h2 := hs.high_lt
    have h3 := hs.m_lt
    have hU := U64_eq
    exact sp_iter_next_eq_of_ok m s it _ _ hq (fun _ => by simp only; omega) (fun _ => by simp only; omega)
  · have e : r = P.length := by have := hit.r_le; omega
    subst e
    have hq := nextQ_none hs m it hit
    rw [hq]
    exact sp_iter_next_eq_of_ok m s it _ _ hq (fun h => absurd rfl h) (fun h => absurd rfl h)

/-! ### `next_back` -/

/-- the body of the loop of `next_back` -/
def stepSkipB (ρ : Type) (m : Mode) (s : Sparse) (pos : Pos) : Outcome (Ctl Pos ρ) := do
  let t3 ← BitVector.get s.high pos.high
  if (!t3) then do
    let t4 ← subM m pos.high 1
    let pos := { pos with high := t4 }
    pure (Ctl.next pos)
  else do
    pure (Ctl.brk pos)

/-- the loop of `next_back` is the model's `skipBwd` (which subtracts with the mode's arithmetic as well) -/
theorem loop_skipB {ρ : Type} (m : Mode) (s : Sparse) :
    ∀ (fuel : Nat) (p : Pos),
      loopM fuel (stepSkipB ρ m s) p =
        (SpOneIter.skipBwd m s fuel p.high >>= fun h => pure (Ctl.brk ⟨h, p.low⟩)) := by
  intro fuel
  induction fuel with
  | zero => intro p; rfl
  | succ n ih =>
    intro p
    rw [loopM, SpOneIter.skipBwd]
    cases hb : s.high.get p.high with
    | fault f => simp [stepSkipB, hb]
    | ok b =>
      cases b with
      | true => simp [stepSkipB, hb]
      | false =>
        cases hs : subM m p.high 1 with
        | fault f => simp [stepSkipB, hb, hs]
        | ok h' =>
          simp only [stepSkipB, hb, hs, bind_ok, pure_eq, Bool.not_false, if_true, Bool.false_eq_true, if_false]
          exact ih _

theorem gen_next_back_unfold (m : Mode) (s : Sparse) (it : SpOneIter) :
    gen_SparseOneIter_next_back m s it =
      (if (decide (it.next.low ≥ it.limit.low)) then pure (none, (⟨it.next, it.limit⟩ : SpOneIter)) else do
        let t1 ← subM m it.limit.high 1
        let t2 ← subM m it.limit.low 1
        let lr1 ← loopM (s.high.len + 1) (stepSkipB ((Option (Nat × Nat)) × SpOneIter) m s) ⟨t1, t2⟩
        match lr1 with
        | .ret _ => fault .fuel
        | .next _ => fault .fuel
        | .brk self_limit => do
          let t5 ← gen_SparseVector_combine m s self_limit
          pure ((some t5), (⟨it.next, self_limit⟩ : SpOneIter))) := rfl

/-- `OneIter::next_back`: no hypothesis -/
theorem sp_iter_next_back_eq (m : Mode) (s : Sparse) (it : SpOneIter) :
    gen_SparseOneIter_next_back m s it = SpOneIter.nextBackQ m s it := by
  rw [gen_next_back_unfold]
  unfold SpOneIter.nextBackQ
  by_cases h : it.next.low ≥ it.limit.low
  · simp only [h, decide_true, if_true]; rfl
  · simp only [h, decide_false, Bool.false_eq_true, if_false, loop_skipB, combine_eq]
    cases h1 : subM m it.limit.high 1 with
    | fault f => rfl
    | ok h0 =>
      cases h2 : subM m it.limit.low 1 with
      | fault f => rfl
      | ok l0 =>
        simp only [bind_ok]
        cases hk : SpOneIter.skipBwd m s (s.high.len + 1) h0 with
        | fault f => rfl
        | ok h' =>
          simp only [bind_ok, pure_eq]

/-! ### `size_hint` -/

/-- `OneIter::size_hint` under the iterator invariant `next.low ≤ limit.low` -/
theorem sp_iter_size_hint_eq (m : Mode) (s : Sparse) (it : SpOneIter) (h : it.next.low ≤ it.limit.low) :
    gen_SparseOneIter_size_hint m s it = ok (it.remaining, some it.remaining) := by
  unfold gen_SparseOneIter_size_hint SpOneIter.remaining
  rw [subM_ok h]; rfl

/-! ### the hypotheses are necessary -/

/-- a vector whose `low` claims `2^64` elements (not a `usize`; width 64, so that `combine` does not subtract), and
the iterator standing at its last element -/
def cexS : Sparse := ⟨1, ⟨1, ⟨1, #[1#64]⟩, none, none, none⟩, ⟨U64, 64, ⟨0, #[]⟩⟩⟩
def cexIt : SpOneIter := ⟨⟨0, U64 - 1⟩, ⟨1, U64⟩⟩

/-- without the bound on `low.len` / `limit.low` the statement is false: the code's `next.low + 1` overflows
(panics, or wraps to 0), the model's does not.  The state is not representable in the code (`low.len = 2^64`). -/
theorem sp_iter_next_ne_low :
    cexS.high.data.data.size * 64 < U64 ∧
    gen_SparseOneIter_next .checked cexS cexIt = fault (.panic .overflow) ∧
    SpOneIter.nextQ .checked cexS cexIt = ok (some (U64 - 1, 0), ⟨⟨1, U64⟩, ⟨1, U64⟩⟩) ∧
    gen_SparseOneIter_next .wrapping cexS cexIt = ok (some (U64 - 1, 0), ⟨⟨1, 0⟩, ⟨1, U64⟩⟩) ∧
    SpOneIter.nextQ .wrapping cexS cexIt = ok (some (U64 - 1, 0), ⟨⟨1, U64⟩, ⟨1, U64⟩⟩) := by
  decide

/-- without `next.low ≤ limit.low` the subtraction of `size_hint` panics (wraps) -/
theorem sp_iter_size_hint_ne :
    gen_SparseOneIter_size_hint .checked cexS ⟨⟨0, 1⟩, ⟨0, 0⟩⟩ = fault (.panic .overflow) ∧
    gen_SparseOneIter_size_hint .wrapping cexS ⟨⟨0, 1⟩, ⟨0, 0⟩⟩ = ok (U64 - 1, some (U64 - 1)) ∧
    (⟨⟨0, 1⟩, ⟨0, 0⟩⟩ : SpOneIter).remaining = 0 := by
  decide

/-- `skipFwd` faults only by an index panic of `high.get` or by exhausting the fuel -/
theorem skipFwd_fault (s : Sparse) :
    ∀ (fuel h : Nat) (f : Fault), SpOneIter.skipFwd s fuel h = fault f → f = .fuel ∨ f = .panic .index := by
  intro fuel
  induction fuel with
  | zero => intro h f e; cases e; exact Or.inl rfl
  | succ n ih =>
    intro h f e
    rw [SpOneIter.skipFwd] at e
    cases hb : s.high.get h with
    | fault g =>
      rw [hb] at e
      unfold BitVector.get RawVec.bitM at hb
      by_cases hlt : h / 64 < s.high.data.data.size
      · rw [if_pos hlt] at hb; cases hb
      · rw [if_neg hlt] at hb; cases hb; cases e; exact Or.inr rfl
    | ok b =>
      rw [hb] at e
      cases b with
      | true => simp only [bind_ok, if_true, pure_eq] at e; cases e
      | false =>
        simp only [bind_ok, Bool.false_eq_true, if_false] at e
        exact ih _ _ e

/-- the bound on the words of `high` is necessary as well (a counterexample has `2^58` words and cannot be written
down): if the words of `high` hold exactly `2^64` bits, the last one clear, and the iterator stands on it, the code's
`high + 1` overflows — a panic with overflow checks — while the model goes on to position `2^64` and stops with
the index panic of `high.get` (or out of fuel). -/
theorem sp_iter_next_ne_high (s : Sparse) (it : SpOneIter)
    (hsz : s.high.data.data.size * 64 = U64) (hn : it.next.high = U64 - 1) (hlt : it.next.low < it.limit.low)
    (hbit : s.high.data.bit (U64 - 1) = false) :
    gen_SparseOneIter_next .checked s it = fault (.panic .overflow) ∧
    ∃ f, SpOneIter.nextQ .checked s it = fault f ∧ f ≠ .panic .overflow := by
  have hU : U64 = 18446744073709551616 := rfl
  have hg : s.high.get it.next.high = ok false := by
    unfold BitVector.get RawVec.bitM
    rw [hn, if_pos (by omega), hbit]
  have hg' : s.high.get (it.next.high + 1) = fault (.panic .index) := by
    unfold BitVector.get RawVec.bitM
    rw [hn, if_neg (by omega)]
  have ha : addM .checked it.next.high 1 = fault (.panic .overflow) := by rw [hn]; decide
  have hnl : ¬ it.next.low ≥ it.limit.low := by omega
  refine ⟨?_, ?_⟩
  · rw [gen_next_unfold]
    simp only [hnl, decide_false, Bool.false_eq_true, if_false]
    rw [loopM]
    simp [stepSkipF, hg, ha]
  · unfold SpOneIter.nextQ
    rw [if_neg hnl]
    cases hk : SpOneIter.skipFwd s (s.high.len + 1) it.next.high with
    | ok h' =>
      exfalso
      rw [SpOneIter.skipFwd, hg] at hk
      simp only [bind_ok, Bool.false_eq_true, if_false] at hk
      cases hl : s.high.len with
      | zero => rw [hl] at hk; cases hk
      | succ k =>
        rw [hl, SpOneIter.skipFwd, hg'] at hk
        cases hk
    | fault f =>
      refine ⟨f, rfl, ?_⟩
      rcases skipFwd_fault s _ _ _ hk with rfl | rfl <;> exact fun h => by cases h

end Sds.GenEq

