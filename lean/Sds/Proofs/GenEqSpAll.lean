/-
Proofs/GenEqSpAll: the translated two-ended iterator over all bits of the Elias–Fano vector (`Generated/FnsSpAll.lean`,
from `sparse_vector.rs`: `Iter::next`, `next_back`, `size_hint`, `SparseVector::iter`) computes the hand-written model
(`SpIter.nextQ` with `skipDupFwd`, `SpIter.nextBackQ` with `skipDupBwd`, `SpIter.remaining`, `Sparse.iter`).

* `next`: the duplicate-skipping loop runs first, `next + 1` afterwards, on both sides; a fault of the inner
  `OneIter::next` propagates from the loop on both sides.  The model increments in `Nat`: `hN` (`next < limit < 2^64`).
* `next_back`: `limit - 1` is computed only when `limit > next`, so the code's subtraction is the model's; the inner
  `OneIter::next_back` is the model's unconditionally — no hypothesis.
* `iter`: `one_iter`, `next`, `next_back` in this order on both sides.

No divergence between the code and the model; `sp_all_next_ne`, `sp_all_size_hint_ne` show that the hypotheses are needed
(states with `limit = 2^64`, which the code cannot represent).
-/
import Sds.Generated.FnsSpAll
import Sds.Proofs.GenEqSpIter
set_option linter.unusedSimpArgs false
set_option linter.unusedVariables false

namespace Sds.GenEq
open Sds Outcome Generated

/-! ### the duplicate-skipping loops -/

abbrev DupSt := (Option Nat) × SpOneIter

/-- the body of the loop of `Iter::next` (`for (_, index) in self.parent.by_ref()`) -/
def stepDupF (m : Mode) (s : Sparse) (self_next : Nat) : DupSt → Outcome (Ctl DupSt ((Option Bool) × SpIter)) :=
  fun (self_next_set, self_parent) => do
              let t1 ← gen_SparseOneIter_next m s self_parent
              let self_parent := t1.2
              match t1.1 with
              | none => pure (Ctl.brk (self_next_set, self_parent))
              | some some1 => do
                  let (_, index) := some1
                  if (decide (index > self_next)) then do
                    let self_next_set := (some index)
                    pure (Ctl.brk (self_next_set, self_parent))
                  else do
                    pure (Ctl.next (self_next_set, self_parent))

/-- the body of the loop of `Iter::next_back` (`while let Some((_, index)) = self.parent.next_back()`) -/
def stepDupB (m : Mode) (s : Sparse) (self_limit : Nat) : DupSt → Outcome (Ctl DupSt ((Option Bool) × SpIter)) :=
  fun (self_last_set, self_parent) => do
              let t2 ← gen_SparseOneIter_next_back m s self_parent
              let self_parent := t2.2
              match t2.1 with
              | none => pure (Ctl.brk (self_last_set, self_parent))
              | some some1 => do
                  let (_, index) := some1
                  if (decide (index < self_limit)) then do
                    let self_last_set := (some index)
                    pure (Ctl.brk (self_last_set, self_parent))
                  else do
                    pure (Ctl.next (self_last_set, self_parent))

def finDup : Ctl DupSt ((Option Bool) × SpIter) → Outcome (SpOneIter × Option Nat)
  | .brk (ns, p) => ok (p, ns)
  | _ => fault .fuel

theorem loop_dup_fwd (m : Mode) (s : Sparse) (cur : Nat)
    (hH : s.high.data.data.size * 64 < U64) (hL : s.low.len < U64) :
    ∀ (fuel : Nat) (it : SpOneIter) (ns : Option Nat),
      (loopM fuel (stepDupF m s cur) (ns, it) >>= finDup) = SpIter.skipDupFwd m s cur fuel it ns := by
  intro fuel
  induction fuel with
  | zero => intro it ns; rfl
  | succ n ih =>
    intro it ns
    rw [loopM, SpIter.skipDupFwd]
    simp only [stepDupF, sp_iter_next_eq m s _ hH hL]
    cases hq : SpOneIter.nextQ m s it with
    | fault f => rfl
    | ok r =>
      obtain ⟨o, it'⟩ := r
      simp only [bind_ok]
      cases o with
      | none => rfl
      | some ab =>
        obtain ⟨a, b⟩ := ab
        by_cases hc : b > cur
        · simp only [hc, decide_true, if_true, bind_ok, pure_eq]; rfl
        · simp only [hc, decide_false, Bool.false_eq_true, if_false, bind_ok, pure_eq]
          exact ih _ _

theorem loop_dup_bwd (m : Mode) (s : Sparse) (cur : Nat) :
    ∀ (fuel : Nat) (it : SpOneIter) (ls : Option Nat),
      (loopM fuel (stepDupB m s cur) (ls, it) >>= finDup) = SpIter.skipDupBwd m s cur fuel it ls := by
  intro fuel
  induction fuel with
  | zero => intro it ls; rfl
  | succ n ih =>
    intro it ls
    rw [loopM, SpIter.skipDupBwd]
    simp only [stepDupB, sp_iter_next_back_eq]
    cases hq : SpOneIter.nextBackQ m s it with
    | fault f => rfl
    | ok r =>
      obtain ⟨o, it'⟩ := r
      simp only [bind_ok]
      cases o with
      | none => rfl
      | some ab =>
        obtain ⟨a, b⟩ := ab
        by_cases hc : b < cur
        · simp only [hc, decide_true, if_true, bind_ok, pure_eq]; rfl
        · simp only [hc, decide_false, Bool.false_eq_true, if_false, bind_ok, pure_eq]
          exact ih _ _

/-! ### `Iter::next` -/

/-- `Iter::next`, weakest form.  `hH`, `hL`: for the calls of `OneIter::next`; `hN`: the increment of `next` —
performed only when `next < limit` — does not overflow (the model increments in `Nat`). -/
theorem sp_all_next_eq' (m : Mode) (s : Sparse) (it : SpIter)
    (hH : s.high.data.data.size * 64 < U64) (hL : s.low.len < U64)
    (hN : it.next < it.limit → it.next + 1 < U64) :
    gen_SparseIter_next m s it = SpIter.nextQ m s it := by
  obtain ⟨parent, next, nextSet, limit, lastSet⟩ := it
  unfold gen_SparseIter_next SpIter.nextQ
  simp only
  by_cases h : next ≥ limit
  · simp only [h, decide_true, if_true]; rfl
  · have e1 : addM m next 1 = ok (next + 1) := addM_ok (hN (by simp only at h ⊢; omega))
    simp only [h, decide_false, Bool.false_eq_true, if_false]
    cases nextSet with
    | none => simp only [e1, bind_ok, pure_eq]
    | some value =>
      simp only
      by_cases hv : value = next
      · simp only [hv, decide_true, if_true]
        rw [← loop_dup_fwd m s next hH hL]
        show (loopM (Sparse.countOnes s + 2) (stepDupF m s next) (lastSet, parent) >>= _) = _
        cases loopM (Sparse.countOnes s + 2) (stepDupF m s next) (lastSet, parent) with
        | fault f => rfl
        | ok c =>
          cases c with
          | ret r => rfl
          | next st => rfl
          | brk st =>
            obtain ⟨ns, p⟩ := st
            simp only [bind_ok, finDup, e1, pure_eq]
      · simp only [hv, decide_false, Bool.false_eq_true, if_false, e1, bind_ok, pure_eq]

/-- `Iter::next` with the limit in `usize` -/
theorem sp_all_next_eq (m : Mode) (s : Sparse) (it : SpIter)
    (hH : s.high.data.data.size * 64 < U64) (hL : s.low.len < U64) (hlim : it.limit < U64) :
    gen_SparseIter_next m s it = SpIter.nextQ m s it :=
  sp_all_next_eq' m s it hH hL (fun _ => by omega)

/-- `Iter::next` with `limit ≤ len` (the iterator invariant) on a vector whose length is a `usize` -/
theorem sp_all_next_eq_of_len (m : Mode) (s : Sparse) (it : SpIter)
    (hH : s.high.data.data.size * 64 < U64) (hL : s.low.len < U64) (hlen : s.len < U64) (hlim : it.limit ≤ s.len) :
    gen_SparseIter_next m s it = SpIter.nextQ m s it :=
  sp_all_next_eq m s it hH hL (by omega)

/-! ### `Iter::next_back` -/

/-- `Iter::next_back`: no hypothesis (`limit - 1` is computed only when `limit > next ≥ 0`, and `OneIter::next_back`
is the model's unconditionally) -/
theorem sp_all_next_back_eq (m : Mode) (s : Sparse) (it : SpIter) :
    gen_SparseIter_next_back m s it = SpIter.nextBackQ m s it := by
  obtain ⟨parent, next, nextSet, limit, lastSet⟩ := it
  unfold gen_SparseIter_next_back SpIter.nextBackQ
  simp only
  by_cases h : next ≥ limit
  · simp only [h, decide_true, if_true]; rfl
  · have e1 : subM m limit 1 = ok (limit - 1) := subM_ok (by omega)
    simp only [h, decide_false, Bool.false_eq_true, if_false, e1, bind_ok]
    cases lastSet with
    | none => rfl
    | some value =>
      simp only
      by_cases hv : value = limit - 1
      · simp only [hv, decide_true, if_true]
        rw [← loop_dup_bwd m s (limit - 1)]
        show (loopM (Sparse.countOnes s + 2) (stepDupB m s (limit - 1)) (nextSet, parent) >>= _) = _
        cases loopM (Sparse.countOnes s + 2) (stepDupB m s (limit - 1)) (nextSet, parent) with
        | fault f => rfl
        | ok c =>
          cases c with
          | ret r => rfl
          | next st => rfl
          | brk st =>
            obtain ⟨ls, p⟩ := st
            rfl
      · simp only [hv, decide_false, Bool.false_eq_true, if_false, bind_ok, pure_eq]

/-! ### `size_hint`, `SparseVector::iter` -/

/-- `Iter::size_hint` under the invariant `next ≤ limit` -/
theorem sp_all_size_hint_eq (m : Mode) (s : Sparse) (it : SpIter) (h : it.next ≤ it.limit) :
    gen_SparseIter_size_hint m s it = ok (it.remaining, some it.remaining) := by
  unfold gen_SparseIter_size_hint SpIter.remaining
  rw [subM_ok h]; rfl

/-- `SparseVector::iter` -/
theorem sp_all_iter_eq (m : Mode) (s : Sparse)
    (hH : s.high.data.data.size * 64 < U64) (hL : s.low.len < U64) :
    gen_SparseVector_iter m s = s.iter m := by
  unfold gen_SparseVector_iter Sparse.iter
  rw [sp_one_iter_eq]
  simp only [bind_ok, sp_iter_next_eq m s _ hH hL, sp_iter_next_back_eq]
  cases SpOneIter.nextQ m s (SpOneIter.full s) with
  | fault f => rfl
  | ok r =>
    obtain ⟨o1, it1⟩ := r
    cases o1 with
    | none =>
      simp only [bind_ok, pure_eq]
      cases SpOneIter.nextBackQ m s it1 with
      | fault f => rfl
      | ok r =>
        obtain ⟨o2, it2⟩ := r
        cases o2 with
        | none => rfl
        | some cd => obtain ⟨c, d⟩ := cd; rfl
    | some ab =>
      obtain ⟨a, b⟩ := ab
      simp only [bind_ok, pure_eq]
      cases SpOneIter.nextBackQ m s it1 with
      | fault f => rfl
      | ok r =>
        obtain ⟨o2, it2⟩ := r
        cases o2 with
        | none => rfl
        | some cd => obtain ⟨c, d⟩ := cd; rfl

/-! ### the extra hypotheses are necessary

The witnesses have `limit = 2^64` (not a `usize`): no divergence between the code and the model. -/

/-- the empty vector (`hH`, `hL` hold) -/
def cexA : Sparse := ⟨0, ⟨0, ⟨0, #[]⟩, none, none, none⟩, ⟨0, 1, ⟨0, #[]⟩⟩⟩

/-- `hN`: `next = 2^64 - 1` below `limit = 2^64` — the code's `next + 1` overflows, the model's does not -/
theorem sp_all_next_ne :
    cexA.high.data.data.size * 64 < U64 ∧ cexA.low.len < U64 ∧
    gen_SparseIter_next .checked cexA ⟨SpOneIter.emptyIter cexA, U64 - 1, none, U64, none⟩
      = fault (.panic .overflow) ∧
    gen_SparseIter_next .wrapping cexA ⟨SpOneIter.emptyIter cexA, U64 - 1, none, U64, none⟩
      = ok (some false, ⟨SpOneIter.emptyIter cexA, 0, none, U64, none⟩) ∧
    SpIter.nextQ .checked cexA ⟨SpOneIter.emptyIter cexA, U64 - 1, none, U64, none⟩
      = ok (some false, ⟨SpOneIter.emptyIter cexA, U64, none, U64, none⟩) ∧
    -- the same on the branch with the duplicate-skipping loop
    gen_SparseIter_next .checked cexA ⟨SpOneIter.emptyIter cexA, U64 - 1, some (U64 - 1), U64, some (U64 - 1)⟩
      = fault (.panic .overflow) ∧
    SpIter.nextQ .checked cexA ⟨SpOneIter.emptyIter cexA, U64 - 1, some (U64 - 1), U64, some (U64 - 1)⟩
      = ok (some true, ⟨SpOneIter.emptyIter cexA, U64, some (U64 - 1), U64, some (U64 - 1)⟩) := by
  decide

/-- without `next ≤ limit` the subtraction of `size_hint` panics (wraps) -/
theorem sp_all_size_hint_ne :
    gen_SparseIter_size_hint .checked cexA ⟨SpOneIter.emptyIter cexA, 1, none, 0, none⟩
      = fault (.panic .overflow) ∧
    gen_SparseIter_size_hint .wrapping cexA ⟨SpOneIter.emptyIter cexA, 1, none, 0, none⟩
      = ok (U64 - 1, some (U64 - 1)) ∧
    (⟨SpOneIter.emptyIter cexA, 1, none, 0, none⟩ : SpIter).remaining = 0 := by
  decide

end Sds.GenEq
