/-
Proofs/Iter: the iterators yield the reference sequence under any interleaving of
next / next_back / nth / nth_back / len.
-/
import Sds.Model.Iter
import Sds.Proofs.Select
import Sds.Proofs.BitsMore
set_option linter.unusedSimpArgs false
set_option linter.unusedVariables false

namespace Sds.IterProofs
open Sds Outcome

/-! ### 1. two-cursor iterators against the reference deque -/

/-- the segment `[a, b)` of the reference list -/
def seg {α} (xs : List α) (a b : Nat) : List α := (xs.take b).drop a

theorem seg_length {α} (xs : List α) (a b : Nat) (hb : b ≤ xs.length) : (seg xs a b).length = b - a := by
  unfold seg
  rw [List.length_drop, List.length_take, Nat.min_eq_left hb]

theorem seg_nil {α} (xs : List α) (a b : Nat) (h : b ≤ a) : seg xs a b = [] := by
  unfold seg
  apply List.drop_eq_nil_of_le
  rw [List.length_take]; omega

theorem seg_getElem? {α} (xs : List α) (a b i : Nat) :
    (seg xs a b)[i]? = if a + i < b then xs[a + i]? else none := by
  unfold seg
  rw [List.getElem?_drop, List.getElem?_take]

theorem seg_cons {α} (xs : List α) (get : Nat → α) (hx : ∀ i, i < xs.length → xs[i]? = some (get i))
    (a b : Nat) (hab : a < b) (hb : b ≤ xs.length) : seg xs a b = get a :: seg xs (a + 1) b := by
  apply List.ext_getElem?
  intro i
  cases i with
  | zero =>
    rw [seg_getElem?, if_pos (by omega), Nat.add_zero, hx a (by omega)]; rfl
  | succ i =>
    rw [List.getElem?_cons_succ, seg_getElem?, seg_getElem?]
    have e : a + (i + 1) = a + 1 + i := by omega
    rw [e]

theorem seg_drop {α} (xs : List α) (a b k : Nat) : (seg xs a b).drop k = seg xs (a + k) b := by
  unfold seg
  rw [List.drop_drop]

theorem seg_take {α} (xs : List α) (a b j : Nat) (hj : a + j ≤ b) : (seg xs a b).take j = seg xs a (a + j) := by
  apply List.ext_getElem?
  intro i
  rw [List.getElem?_take, seg_getElem?, seg_getElem?]
  by_cases h : i < j
  · rw [if_pos h, if_pos (by omega), if_pos (by omega)]
  · rw [if_neg h, if_neg (by omega)]

theorem seg_getLast? {α} (xs : List α) (get : Nat → α) (hx : ∀ i, i < xs.length → xs[i]? = some (get i))
    (a b : Nat) (hab : a < b) (hb : b ≤ xs.length) : (seg xs a b).getLast? = some (get (b - 1)) := by
  rw [List.getLast?_eq_getElem?, seg_length xs a b hb, seg_getElem?, if_pos (by omega)]
  have e : a + (b - a - 1) = b - 1 := by omega
  rw [e, hx _ (by omega)]

theorem seg_dropLast {α} (xs : List α) (a b : Nat) (hab : a < b) (hb : b ≤ xs.length) :
    (seg xs a b).dropLast = seg xs a (b - 1) := by
  rw [List.dropLast_eq_take, seg_length xs a b hb, seg_take xs a b _ (by omega)]
  congr 1; omega

/-- the simulation relation between the cursor pair and the deque -/
def R {α} (xs : List α) (c : Cursor) (d : List α) : Prop :=
  c.next ≤ c.limit ∧ c.limit ≤ xs.length ∧ d = seg xs c.next c.limit

theorem R_def {α} (xs : List α) (c : Cursor) (d : List α) :
    R xs c d ↔ (c.next ≤ c.limit ∧ c.limit ≤ xs.length ∧ d = (xs.take c.limit).drop c.next) := Iff.rfl

theorem R_init {α} (xs : List α) : R xs ⟨0, xs.length⟩ xs := by
  refine ⟨Nat.zero_le _, Nat.le_refl _, ?_⟩
  simp [seg]

/-- **One step.**  Every call (`nth k` / `nthBack k` with arbitrary `k : Nat`) gives the same answer on the
cursor machine as on the reference deque, and the relation is preserved. -/
theorem cursorStep_sim {α} (xs : List α) (get : Nat → α) (hx : ∀ i, i < xs.length → xs[i]? = some (get i))
    (c : Cursor) (d : List α) (hR : R xs c d) (call : ICall) :
    (dequeStep d call).1 = (cursorStep get c call).1 ∧
      R xs (cursorStep get c call).2 (dequeStep d call).2 := by
  obtain ⟨h1, h2, rfl⟩ := hR
  cases call with
  | next =>
    simp only [cursorStep, dequeStep]
    by_cases h : c.next ≥ c.limit
    · rw [if_pos h, seg_nil xs _ _ h]
      exact ⟨rfl, h1, h2, (seg_nil xs _ _ h).symm⟩
    · rw [if_neg h, seg_cons xs get hx _ _ (by omega) h2]
      exact ⟨rfl, by show c.next + 1 ≤ c.limit; omega, h2, rfl⟩
  | nextBack =>
    simp only [cursorStep, dequeStep]
    by_cases h : c.next ≥ c.limit
    · rw [if_pos h, seg_nil xs _ _ h]
      exact ⟨rfl, h1, h2, (seg_nil xs _ _ h).symm⟩
    · rw [if_neg h, seg_getLast? xs get hx _ _ (by omega) h2, seg_dropLast xs _ _ (by omega) h2]
      exact ⟨rfl, by show c.next ≤ c.limit - 1; omega, by show c.limit - 1 ≤ xs.length; omega, rfl⟩
  | nth k =>
    simp only [cursorStep, dequeStep]
    simp only [seg_drop]
    by_cases h : c.next + min k (c.limit - c.next) ≥ c.limit
    · rw [if_pos h]
      have e : c.next + min k (c.limit - c.next) = c.limit := by omega
      rw [seg_nil xs _ _ (show c.limit ≤ c.next + k by omega), e]
      exact ⟨rfl, Nat.le_refl _, h2, (seg_nil xs _ _ (Nat.le_refl _)).symm⟩
    · rw [if_neg h]
      have e : c.next + min k (c.limit - c.next) = c.next + k := by omega
      rw [e, seg_cons xs get hx _ _ (by omega) h2]
      exact ⟨rfl, by show c.next + k + 1 ≤ c.limit; omega, h2, rfl⟩
  | nthBack k =>
    simp only [cursorStep, dequeStep]
    simp only [seg_length xs _ _ h2]
    by_cases h : c.next ≥ c.limit - min k (c.limit - c.next)
    · rw [if_pos h]
      have e : c.limit - min k (c.limit - c.next) = c.next := by omega
      have e2 : c.limit - c.next - k = 0 := by omega
      rw [e, e2, List.take_zero]
      exact ⟨rfl, Nat.le_refl _, by show c.next ≤ xs.length; omega, (seg_nil xs _ _ (Nat.le_refl _)).symm⟩
    · rw [if_neg h]
      have e : c.limit - min k (c.limit - c.next) = c.limit - k := by omega
      rw [e, seg_take xs _ _ _ (by omega)]
      have e3 : c.next + (c.limit - c.next - k) = c.limit - k := by omega
      rw [e3, seg_getLast? xs get hx _ _ (by omega) (by omega), seg_dropLast xs _ _ (by omega) (by omega)]
      exact ⟨rfl, by show c.next ≤ c.limit - k - 1; omega, by show c.limit - k - 1 ≤ xs.length; omega, rfl⟩
  | len =>
    simp only [cursorStep, dequeStep]
    rw [seg_length xs _ _ h2]
    exact ⟨rfl, h1, h2, rfl⟩

/-- the step lemma in the `(o, c')` form of the task statement -/
theorem cursorStep_sim' {α} (xs : List α) (get : Nat → α) (hx : ∀ i, i < xs.length → xs[i]? = some (get i))
    (c c' : Cursor) (d : List α) (o : IOut α) (hR : R xs c d) (call : ICall)
    (h : cursorStep get c call = (o, c')) :
    ∃ d', dequeStep d call = (o, d') ∧ R xs c' d' := by
  have := cursorStep_sim xs get hx c d hR call
  rw [h] at this
  exact ⟨(dequeStep d call).2, Prod.ext this.1 rfl, this.2⟩

theorem cursorRun_sim {α} (xs : List α) (get : Nat → α) (hx : ∀ i, i < xs.length → xs[i]? = some (get i))
    (calls : List ICall) : ∀ (c : Cursor) (d : List α), R xs c d →
    cursorRun get c calls = dequeRunM d calls := by
  induction calls with
  | nil => intro c d _; rfl
  | cons k ks ih =>
    intro c d hR
    have := cursorStep_sim xs get hx c d hR k
    unfold cursorRun dequeRunM
    simp only []
    rw [this.1, ih _ _ this.2]

/-- **Two-cursor iterators yield the reference sequence under every finite call history.** -/
theorem cursorRun_eq {α} (xs : List α) (get : Nat → α) (hx : ∀ i, i < xs.length → xs[i]? = some (get i))
    (calls : List ICall) : cursorRun get ⟨0, xs.length⟩ calls = dequeRunM xs calls :=
  cursorRun_sim xs get hx calls _ _ (R_init xs)

/-! corollaries: exact `len`, absorbing `None` -/

/-- `len` answers are exact at every step: the cursor machine reports the length of the reference deque -/
theorem cursor_len_exact {α} (xs : List α) (get : Nat → α) (c : Cursor) (d : List α) (hR : R xs c d) :
    cursorStep get c .len = (.len d.length, c) := by
  obtain ⟨h1, h2, rfl⟩ := hR
  simp only [cursorStep, seg_length xs _ _ h2]

/-- an output is "no item": `None`, or a remaining length of zero -/
def IsEmptyOut {α} : IOut α → Prop
  | .none => True
  | .len n => n = 0
  | .item _ => False

def Exhausted (c : Cursor) : Prop := c.next ≥ c.limit

/-- whenever an item call answers `None`, the cursor pair is exhausted afterwards -/
theorem none_exhausted {α} (get : Nat → α) (c : Cursor) (call : ICall) (hcall : call ≠ .len)
    (h : (cursorStep get c call).1 = .none) : Exhausted (cursorStep get c call).2 := by
  unfold Exhausted
  cases call with
  | next =>
    simp only [cursorStep] at h ⊢
    by_cases hc : c.next ≥ c.limit
    · rw [if_pos hc]; exact hc
    · rw [if_neg hc] at h; cases h
  | nextBack =>
    simp only [cursorStep] at h ⊢
    by_cases hc : c.next ≥ c.limit
    · rw [if_pos hc]; exact hc
    · rw [if_neg hc] at h; cases h
  | nth k =>
    simp only [cursorStep] at h ⊢
    by_cases hc : c.next + min k (c.limit - c.next) ≥ c.limit
    · rw [if_pos hc]; exact hc
    · rw [if_neg hc] at h; cases h
  | nthBack k =>
    simp only [cursorStep] at h ⊢
    by_cases hc : c.next ≥ c.limit - min k (c.limit - c.next)
    · rw [if_pos hc]; exact hc
    · rw [if_neg hc] at h; cases h
  | len => exact absurd rfl hcall

/-- `None` is absorbing: an exhausted cursor pair answers `None` (resp. length 0) to every call and stays
exhausted -/
theorem exhausted_step {α} (get : Nat → α) (c : Cursor) (hc : Exhausted c) (call : ICall) :
    IsEmptyOut (cursorStep get c call).1 ∧ Exhausted (cursorStep get c call).2 := by
  unfold Exhausted at hc ⊢
  cases call with
  | next => simp only [cursorStep]; rw [if_pos hc]; exact ⟨trivial, hc⟩
  | nextBack => simp only [cursorStep]; rw [if_pos hc]; exact ⟨trivial, hc⟩
  | nth k =>
    simp only [cursorStep]
    rw [if_pos (show c.next + min k (c.limit - c.next) ≥ c.limit by omega)]
    exact ⟨trivial, by show c.next + min k (c.limit - c.next) ≥ c.limit; omega⟩
  | nthBack k =>
    simp only [cursorStep]
    rw [if_pos (show c.next ≥ c.limit - min k (c.limit - c.next) by omega)]
    exact ⟨trivial, by show c.next ≥ c.limit - min k (c.limit - c.next); omega⟩
  | len => simp only [cursorStep]; exact ⟨by show c.limit - c.next = 0; omega, hc⟩

theorem exhausted_run {α} (get : Nat → α) (calls : List ICall) : ∀ (c : Cursor), Exhausted c →
    ∀ o, o ∈ cursorRun get c calls → IsEmptyOut o := by
  induction calls with
  | nil => intro c _ o ho; cases ho
  | cons k ks ih =>
    intro c hc o ho
    have hs := exhausted_step get c hc k
    unfold cursorRun at ho
    simp only [List.mem_cons] at ho
    rcases ho with rfl | ho
    · exact hs.1
    · exact ih _ hs.2 o ho

/-- once an item call has answered `None`, every later call (any kind, any argument) answers `None` / length 0 -/
theorem none_absorbing {α} (get : Nat → α) (c : Cursor) (call : ICall) (hcall : call ≠ .len)
    (h : (cursorStep get c call).1 = .none) (calls : List ICall) :
    ∀ o, o ∈ cursorRun get (cursorStep get c call).2 calls → IsEmptyOut o :=
  exhausted_run get calls _ (none_exhausted get c call hcall h)

/-- the same on the reference side: when the deque answers `None` it is empty afterwards -/
theorem deque_none_empty {α} (d : List α) (call : ICall) (hcall : call ≠ .len)
    (h : (dequeStep d call).1 = .none) : (dequeStep d call).2 = [] := by
  cases call with
  | next => cases d <;> simp_all [dequeStep]
  | nextBack =>
    simp only [dequeStep] at h ⊢
    cases hl : d.getLast? <;> simp_all
  | nth k =>
    simp only [dequeStep] at h ⊢
    cases hl : d.drop k <;> simp_all
  | nthBack k =>
    simp only [dequeStep] at h ⊢
    cases hl : (d.take (d.length - k)).getLast? <;> simp_all
  | len => exact absurd rfl hcall

/-! ### 2. `OneIter<T>`: facts about the transformed bit sequence -/

theorem P_iff (tr : Tr) (v : RawVec) (r p : Nat) :
    (onesPos (bitsT tr v.bits))[r]? = some p ↔ bitT tr v p = true ∧ cnt (bitT tr v) p = r := by
  rw [← selectSpec_eq_onesPos, selectSpec_bitsT]

theorem P_length (tr : Tr) (v : RawVec) : (onesPos (bitsT tr v.bits)).length = cnt (bitT tr v) v.len := by
  rw [length_onesPos, count_bitsT]

theorem exists_pos (tr : Tr) (v : RawVec) (r : Nat) (h : r < cnt (bitT tr v) v.len) :
    ∃ p, bitT tr v p = true ∧ cnt (bitT tr v) p = r := by
  rw [← count_bitsT] at h
  obtain ⟨p, hp⟩ := selectSpec_isSome _ r h
  exact ⟨p, (selectSpec_bitsT tr v r p).mp hp⟩

theorem no_bit_between (f : Nat → Bool) {a p j : Nat} (h : cnt f p ≤ cnt f a) (h1 : a ≤ j) (h2 : j < p) :
    f j = false := by
  cases hf : f j with
  | false => rfl
  | true =>
    have := cnt_lt_of_true f hf h2
    have := cnt_mono f h1
    omega

theorem masked_bit {v : RawVec} (hv : v.WF) (tr : Tr) (k : Nat) (hk : k < v.data.size) (wo i : Nat) (hi : i < 64) :
    (wordTv tr v k &&& ~~~ lowSet wo).getLsbD i = (bitT tr v (64 * k + i) && !decide (i < wo)) := by
  rw [BitVec.getLsbD_and, BitVec.getLsbD_not, lowSet_getLsbD _ _ hi, wordTv_bit hv tr k hk i hi]
  simp [hi]

theorem and_not_lowSet_zero (w : Word) : w &&& ~~~ lowSet 0 = w := by
  rw [lowSet_zero, show ~~~ (0 : Word) = BitVec.allOnes 64 from by decide, BitVec.and_allOnes]

theorem word_lt_size {v : RawVec} (hv : v.WF) {p : Nat} (hp : p < v.len) : p / 64 < v.data.size := by
  rw [hv.1]; omega

/-- **Forward scan.**  Starting in word `word` with the bits below `wo` cleared, if the next set bit of the
transformed vector at or after `64*word+wo` is `p`, the scan stops in word `p/64` with a word whose lowest set
bit is `p % 64`; no word outside the buffer is read and the fuel suffices. -/
theorem fwd_ok {v : RawVec} (hv : v.WF) (tr : Tr) (p : Nat) (hp : bitT tr v p = true) :
    ∀ (fuel word wo : Nat), wo ≤ 64 → word < v.data.size → v.data.size ≤ fuel + word →
      64 * word + wo ≤ p → (∀ j, 64 * word + wo ≤ j → j < p → bitT tr v j = false) →
      ∃ W, OneIterSt.fwd tr v fuel word (wordTv tr v word &&& ~~~ lowSet wo) = ok (p / 64, W) ∧
        ctz W = p % 64 := by
  intro fuel
  induction fuel with
  | zero => intro word wo _ h1 h2; omega
  | succ fuel ih =>
    intro word wo hwo hword hfuel hle hno
    have hplen := bitT_lt hp
    unfold OneIterSt.fwd
    by_cases hz : wordTv tr v word &&& ~~~ lowSet wo = 0
    · rw [if_pos hz]
      have hge : 64 * (word + 1) ≤ p := by
        by_cases h : 64 * (word + 1) ≤ p
        · exact h
        · exfalso
          have hb := masked_bit hv tr word hword wo (p - 64 * word) (by omega)
          rw [hz] at hb
          have e : 64 * word + (p - 64 * word) = p := by omega
          rw [e, hp] at hb
          have : ¬ (p - 64 * word < wo) := by omega
          simp [this] at hb
      have hw1 : word + 1 < v.data.size := by
        have := word_lt_size hv hplen; omega
      rw [wordT_eq tr v _ hw1]
      simp only [bind_ok]
      have := ih (word + 1) 0 (by omega) hw1 (by omega) (by omega) (fun j h1 h2 => by
        by_cases hj : 64 * word + wo ≤ j
        · exact hno j hj h2
        · exact absurd h1 (by omega))
      rw [and_not_lowSet_zero] at this
      exact this
    · rw [if_neg hz]
      obtain ⟨c1, c2, c3⟩ := ctz_spec _ hz
      rw [masked_bit hv tr word hword wo _ c1] at c2
      simp only [Bool.and_eq_true, Bool.not_eq_true', decide_eq_false_iff_not] at c2
      have hle2 : p ≤ 64 * word + ctz (wordTv tr v word &&& ~~~ lowSet wo) := by
        by_cases h : p ≤ 64 * word + ctz (wordTv tr v word &&& ~~~ lowSet wo)
        · exact h
        · have := hno (64 * word + ctz (wordTv tr v word &&& ~~~ lowSet wo)) (by omega) (by omega)
          rw [c2.1] at this; cases this
      have hge2 : 64 * word + ctz (wordTv tr v word &&& ~~~ lowSet wo) ≤ p := by
        by_cases h : 64 * word + ctz (wordTv tr v word &&& ~~~ lowSet wo) ≤ p
        · exact h
        · exfalso
          have hb := c3 (p - 64 * word) (by omega)
          rw [masked_bit hv tr word hword wo _ (by omega)] at hb
          have e : 64 * word + (p - 64 * word) = p := by omega
          rw [e, hp] at hb
          have : ¬ (p - 64 * word < wo) := by omega
          simp [this] at hb
      have e1 : p / 64 = word := by omega
      have e2 : ctz (wordTv tr v word &&& ~~~ lowSet wo) = p % 64 := by omega
      exact ⟨_, by rw [e1], e2⟩

/-! ### the simulation relation for `OneIter<T>` -/

/-- the standing hypotheses: `b` is a bitvector over the well-formed raw vector `v` of length `< 2^64`
with a correct cached count of ones -/
structure Ctx (b : BitVector) (v : RawVec) : Prop where
  wf : v.WF
  len : v.len < 2 ^ 64
  data : b.data = v
  ones : b.ones = v.bits.count true

/-- `Rel tr v it r R`: the iterator state `it` stands for the ranks `[r, R)` of the set bits of the transformed
vector.  The rank components are `r` and `R`; the position component of each cursor has exactly that many set
bits strictly before it (equivalently, see `rank_eq_iff_sandwich`: it lies strictly after `P[r-1]` and at or
before `P[r]`), and both positions are at most `len`. -/
structure Rel (tr : Tr) (v : RawVec) (it : OneIterSt) (r R : Nat) : Prop where
  next_rank : it.next.1 = r
  limit_rank : it.limit.1 = R
  le : r ≤ R
  R_le : R ≤ (onesPos (bitsT tr v.bits)).length
  next_pos : rankSpec (bitsT tr v.bits) it.next.2 = r
  limit_pos : rankSpec (bitsT tr v.bits) it.limit.2 = R
  next_le : it.next.2 ≤ v.len
  limit_le : it.limit.2 ≤ v.len

theorem countT_eq_len {b : BitVector} {v : RawVec} (C : Ctx b v) (tr : Tr) :
    b.countT tr = (onesPos (bitsT tr v.bits)).length := by
  rw [countT_eq C.data C.ones tr, length_onesPos]

theorem rank_len (tr : Tr) (v : RawVec) :
    rankSpec (bitsT tr v.bits) v.len = (onesPos (bitsT tr v.bits)).length := by
  rw [rankSpec_bitsT, P_length]

theorem Rel_full {b : BitVector} {v : RawVec} (C : Ctx b v) (tr : Tr) :
    Rel tr v (OneIterSt.full tr b) 0 (onesPos (bitsT tr v.bits)).length := by
  unfold OneIterSt.full
  refine ⟨rfl, countT_eq_len C tr, Nat.zero_le _, Nat.le_refl _, ?_, ?_, Nat.zero_le _, ?_⟩
  · simp [rankSpec]
  · show rankSpec _ b.data.len = _
    rw [C.data]; exact rank_len tr v
  · show b.data.len ≤ v.len
    rw [C.data]; exact Nat.le_refl _

theorem Rel_empty {b : BitVector} {v : RawVec} (C : Ctx b v) (tr : Tr) :
    Rel tr v (OneIterSt.emptyIter tr b) (onesPos (bitsT tr v.bits)).length (onesPos (bitsT tr v.bits)).length := by
  unfold OneIterSt.emptyIter
  have e : b.len = v.len := by show b.data.len = v.len; rw [C.data]
  rw [e]
  exact ⟨countT_eq_len C tr, countT_eq_len C tr, Nat.le_refl _, Nat.le_refl _, rank_len tr v, rank_len tr v,
    Nat.le_refl _, Nat.le_refl _⟩

/-- facts about the position `p = P[r]` relative to a cursor position `x` with `rank x = r` -/
theorem pos_after_cursor (f : Nat → Bool) {x p : Nat} (hp : f p = true) (h : cnt f p = cnt f x) :
    x ≤ p ∧ ∀ j, x ≤ j → j < p → f j = false := by
  refine ⟨?_, fun j h1 h2 => no_bit_between f (by omega) h1 h2⟩
  by_cases hx : x ≤ p
  · exact hx
  · have := cnt_lt_of_true f hp (show p < x by omega); omega

theorem nextQ_none (tr : Tr) (m : Mode) (b : BitVector) (it : OneIterSt) (h : it.next.1 ≥ it.limit.1) :
    OneIterSt.nextQ tr m b it = ok (none, it) := by
  unfold OneIterSt.nextQ; rw [if_pos h]

/-- **`next`.**  With ranks `[r, R)` left and `r < R`, `next` returns `(r, P[r])` and leaves `[r+1, R)`;
no fault in either arithmetic mode. -/
theorem nextQ_some {b : BitVector} {v : RawVec} (C : Ctx b v) (tr : Tr) (m : Mode) {it : OneIterSt} {r R : Nat}
    (hrel : Rel tr v it r R) (h : r < R) :
    ∃ p, (onesPos (bitsT tr v.bits))[r]? = some p ∧
      OneIterSt.nextQ tr m b it = ok (some (r, p), { it with next := (r + 1, p + 1) }) ∧
      Rel tr v { it with next := (r + 1, p + 1) } (r + 1) R := by
  obtain ⟨hwf, hlen, hdata, hones⟩ := C
  subst hdata
  obtain ⟨h1, h2, h3, h4, h5, h6, h7, h8⟩ := hrel
  rw [P_length] at h4
  rw [rankSpec_bitsT] at h5 h6
  obtain ⟨p, hp, hpr⟩ := exists_pos tr b.data r (by omega)
  have hplen := bitT_lt hp
  have hcl := cnt_le (bitT tr b.data) b.data.len
  obtain ⟨hxp, hno⟩ := pos_after_cursor (bitT tr b.data) (x := it.next.2) hp (by rw [hpr, h5])
  refine ⟨p, (P_iff tr b.data r p).mpr ⟨hp, hpr⟩, ?_, ?_⟩
  · unfold OneIterSt.nextQ
    rw [if_neg (by omega)]
    have hidx : it.next.2 / 64 < b.data.data.size := word_lt_size hwf (show it.next.2 < b.data.len by omega)
    have e : 64 * (it.next.2 / 64) + it.next.2 % 64 = it.next.2 := by omega
    obtain ⟨W, hW, hctz⟩ := fwd_ok hwf tr p hp (b.data.data.size + 1) (it.next.2 / 64) (it.next.2 % 64)
      (by omega) hidx (by omega) (by rw [e]; exact hxp) (by rw [e]; exact hno)
    simp only []
    rw [wordT_eq tr b.data _ hidx]
    simp only [bind_ok, hW, hctz]
    rw [bitOffset_ok m _ _ (by rw [U64_eq]; omega)]
    simp only [bind_ok]
    rw [addM_ok (by rw [U64_eq]; omega), addM_ok (by rw [U64_eq]; omega)]
    simp only [bind_ok, pure_eq, h1]
    have e2 : p / 64 * 64 + p % 64 = p := by omega
    rw [e2]
  · refine ⟨rfl, h2, by omega, by rw [P_length]; exact h4, ?_, by rw [rankSpec_bitsT]; exact h6,
      by show p + 1 ≤ b.data.len; omega, h8⟩
    rw [rankSpec_bitsT]
    show cnt (bitT tr b.data) (p + 1) = r + 1
    rw [cnt_succ, hp, hpr]; rfl

/-- the state produced by `select_iter` / `select_zero_iter` (any valid select support) -/
theorem Rel_selectIter {b : BitVector} {v : RawVec} {s : SelSup} (C : Ctx b v) (tr : Tr) (m : Mode)
    (hsup : b.supT tr = some s) (hs : s.Valid tr v) (r : Nat) :
    (r < (onesPos (bitsT tr v.bits)).length →
      ∃ p, (onesPos (bitsT tr v.bits))[r]? = some p ∧
        b.selectIterT tr m r = ok ⟨(r, p), (b.countT tr, b.len)⟩ ∧
        Rel tr v ⟨(r, p), (b.countT tr, b.len)⟩ r (onesPos (bitsT tr v.bits)).length) ∧
    ((onesPos (bitsT tr v.bits)).length ≤ r → b.selectIterT tr m r = ok (OneIterSt.emptyIter tr b)) := by
  have hcount := countT_eq_len C tr
  have hblen : b.len = v.len := by show b.data.len = v.len; rw [C.data]
  constructor
  · intro hr
    obtain ⟨p, hp1, hp2⟩ := selectU_ok C.wf C.len hs m r (by rw [← length_onesPos]; exact hr)
    rw [selectSpec_eq_onesPos] at hp2
    have hp3 := (P_iff tr v r p).mp hp2
    refine ⟨p, hp2, ?_, ?_⟩
    · unfold BitVector.selectIterT
      rw [if_neg (by omega), hsup, C.data]
      simp only [hp1, bind_ok, pure_eq]
    · refine ⟨rfl, hcount, Nat.le_of_lt hr, Nat.le_refl _, ?_, ?_, ?_, ?_⟩
      · rw [rankSpec_bitsT]; exact hp3.2
      · show rankSpec _ b.len = _
        rw [hblen]; exact rank_len tr v
      · exact Nat.le_of_lt (bitT_lt hp3.1)
      · show b.len ≤ v.len
        omega
  · intro hr
    unfold BitVector.selectIterT
    rw [if_pos (by omega)]

/-! ### 3. `nth` -/

/-- the counted scan of `nth` followed by in-word select is the word scan of `select` -/
theorem fwdN_of_scan (tr : Tr) (m : Mode) (v : RawVec) : ∀ (fuel word : Nat) (value : Word) (rr p : Nat),
    SelSup.scan tr m v fuel word value rr = ok p →
    ∃ i W q o, OneIterSt.fwdN tr v fuel word value rr = ok (i, W, q) ∧ selWord W q = ok o ∧
      bitOffset m i o = ok p := by
  intro fuel
  induction fuel with
  | zero => intro word value rr p h; simp [SelSup.scan] at h
  | succ fuel ih =>
    intro word value rr p h
    unfold SelSup.scan at h
    unfold OneIterSt.fwdN
    simp only [] at h ⊢
    by_cases hones : popcount value > rr
    · rw [if_pos hones] at h
      rw [if_neg (by omega)]
      cases hs : selWord value rr with
      | fault e => rw [hs] at h; cases h
      | ok o =>
        rw [hs] at h
        exact ⟨word, value, rr, o, rfl, hs, h⟩
    · rw [if_neg hones] at h
      rw [if_pos (by omega)]
      cases hw : wordT tr v (word + 1) with
      | fault e => rw [hw] at h; cases h
      | ok nv =>
        rw [hw] at h
        simp only [bind_ok] at h ⊢
        exact ih _ _ _ _ h

theorem cursor_lt_len (f : Nat → Bool) {x n : Nat} (h : cnt f x < cnt f n) : x < n := by
  by_cases hx : x < n
  · exact hx
  · have := cnt_mono f (show n ≤ x by omega); omega

/-- **`nth(n)` inside the range** (any `n : Nat`; the repaired `nth` compares `n` with `limit - next`, so no rank
sum can overflow). -/
theorem nthQ_some {b : BitVector} {v : RawVec} (C : Ctx b v) (tr : Tr) (m : Mode) {it : OneIterSt} {r R : Nat}
    (hrel : Rel tr v it r R) (n : Nat) (h : r + n < R) :
    ∃ p, (onesPos (bitsT tr v.bits))[r + n]? = some p ∧
      OneIterSt.nthQ tr m b it n = ok (some (r + n, p), { it with next := (r + n + 1, p + 1) }) ∧
      Rel tr v { it with next := (r + n + 1, p + 1) } (r + n + 1) R := by
  obtain ⟨hwf, hlen, hdata, hones⟩ := C
  subst hdata
  obtain ⟨h1, h2, h3, h4, h5, h6, h7, h8⟩ := hrel
  rw [P_length] at h4
  rw [rankSpec_bitsT] at h5 h6
  obtain ⟨p, hp, hpr⟩ := exists_pos tr b.data (r + n) (by omega)
  have hplen := bitT_lt hp
  have hcl := cnt_le (bitT tr b.data) b.data.len
  have hxl : it.next.2 < b.data.len := cursor_lt_len (bitT tr b.data) (by omega)
  refine ⟨p, (P_iff tr b.data _ p).mpr ⟨hp, hpr⟩, ?_, ?_⟩
  · unfold OneIterSt.nthQ
    rw [h1, h2, subM_ok h3]
    simp only [bind_ok]
    rw [if_neg (by omega), addM_ok (by rw [U64_eq]; omega)]
    simp only [bind_ok]
    have hidx : it.next.2 / 64 < b.data.data.size := word_lt_size hwf hxl
    have e : 64 * (it.next.2 / 64) + it.next.2 % 64 = it.next.2 := by omega
    have hscan := scan_ok_cnt hwf tr m p hp (by omega) (b.data.data.size + 1) (it.next.2 / 64) (it.next.2 % 64) n
      (by omega) hidx (by omega) (by rw [e, hpr, h5])
    obtain ⟨i, W, q, o, hf, hsel, hbo⟩ := fwdN_of_scan tr m b.data _ _ _ _ _ hscan
    rw [wordT_eq tr b.data _ hidx]
    simp only [bind_ok, hf, hsel, hbo]
    rw [addM_ok (by rw [U64_eq]; omega), addM_ok (by rw [U64_eq]; omega)]
    simp only [bind_ok, pure_eq]
  · refine ⟨rfl, h2, by omega, by rw [P_length]; exact h4, ?_, by rw [rankSpec_bitsT]; exact h6,
      by show p + 1 ≤ b.data.len; omega, h8⟩
    rw [rankSpec_bitsT]
    show cnt (bitT tr b.data) (p + 1) = r + n + 1
    rw [cnt_succ, hp, hpr]; rfl

/-- **`nth(n)` past the range** (EVERY `n : Nat`, however large): `None`, and the iterator is exhausted
(`next := limit`); no fault in either arithmetic mode. -/
theorem nthQ_none {b : BitVector} {v : RawVec} (tr : Tr) (m : Mode) {it : OneIterSt} {r R : Nat}
    (hrel : Rel tr v it r R) (n : Nat) (h : R ≤ r + n) :
    OneIterSt.nthQ tr m b it n = ok (none, { it with next := it.limit }) ∧
      Rel tr v { it with next := it.limit } R R := by
  obtain ⟨h1, h2, h3, h4, h5, h6, h7, h8⟩ := hrel
  constructor
  · unfold OneIterSt.nthQ
    rw [h1, h2, subM_ok h3]
    simp only [bind_ok]
    rw [if_pos (by omega)]
    rfl
  · exact ⟨h2, h2, Nat.le_refl _, h4, h6, h6, h8, h8⟩

/-! ### 4. `next_back` -/

theorem clz_eq_of (w : Word) (j : Nat) (hj : j < 64) (hb : w.getLsbD j = true)
    (hhigh : ∀ i, j < i → i < 64 → w.getLsbD i = false) : 63 - clz w = j := by
  have hne : w ≠ 0 := by
    intro h; subst h; simp at hb
  obtain ⟨h1, h2, h3⟩ := clz_spec w hne
  by_cases hlt : 63 - clz w < j
  · have := h3 j hlt hj
    rw [hb] at this; cases this
  · by_cases hgt : j < 63 - clz w
    · have := hhigh _ hgt (by omega)
      rw [h2] at this; cases this
    · omega

theorem lowmasked_bit {v : RawVec} (hv : v.WF) (tr : Tr) (k : Nat) (hk : k < v.data.size) (hi i : Nat)
    (h : i < 64) :
    (wordTv tr v k &&& lowSet hi).getLsbD i = (bitT tr v (64 * k + i) && decide (i < hi)) := by
  rw [BitVec.getLsbD_and, lowSet_getLsbD _ _ h, wordTv_bit hv tr k hk i h]

/-- **Backward scan.**  Starting in word `word` with only the bits below `hi` kept, if the last set bit of the
transformed vector before `64*word+hi` is `p`, the scan stops in word `p/64` with a word whose highest set bit
is `p % 64`; the index subtraction never underflows and no word outside the buffer is read. -/
theorem bwd_ok {v : RawVec} (hv : v.WF) (tr : Tr) (m : Mode) (p : Nat) (hp : bitT tr v p = true) :
    ∀ (fuel word hi : Nat), hi ≤ 64 → word < v.data.size → word < fuel →
      p < 64 * word + hi → (∀ j, p < j → j < 64 * word + hi → bitT tr v j = false) →
      ∃ W, OneIterSt.bwd tr m v fuel word (wordTv tr v word &&& lowSet hi) = ok (p / 64, W) ∧
        63 - clz W = p % 64 := by
  intro fuel
  induction fuel with
  | zero => intro word hi _ _ h2; omega
  | succ fuel ih =>
    intro word hi hhi hword hfuel hlt hno
    unfold OneIterSt.bwd
    by_cases hz : wordTv tr v word &&& lowSet hi = 0
    · rw [if_pos hz]
      have hlt2 : p < 64 * word := by
        by_cases h : p < 64 * word
        · exact h
        · exfalso
          have hb := lowmasked_bit hv tr word hword hi (p - 64 * word) (by omega)
          rw [hz] at hb
          have e : 64 * word + (p - 64 * word) = p := by omega
          rw [e, hp] at hb
          have : p - 64 * word < hi := by omega
          simp [this] at hb
      have hw1 : word - 1 < v.data.size := by omega
      rw [subM_ok (show 1 ≤ word by omega)]
      simp only [bind_ok]
      rw [wordT_eq tr v _ hw1]
      simp only [bind_ok]
      have := ih (word - 1) 64 (by omega) hw1 (by omega) (by omega) (fun j h1 h2 => hno j h1 (by omega))
      rw [lowSet_64, BitVec.and_allOnes] at this
      exact this
    · rw [if_neg hz]
      obtain ⟨c1, c2, c3⟩ := clz_spec _ hz
      rw [lowmasked_bit hv tr word hword hi _ (by omega)] at c2
      simp only [Bool.and_eq_true, decide_eq_true_eq] at c2
      have hge2 : 64 * word + (63 - clz (wordTv tr v word &&& lowSet hi)) ≤ p := by
        by_cases h : 64 * word + (63 - clz (wordTv tr v word &&& lowSet hi)) ≤ p
        · exact h
        · have := hno (64 * word + (63 - clz (wordTv tr v word &&& lowSet hi))) (by omega) (by omega)
          rw [c2.1] at this; cases this
      have hle2 : p ≤ 64 * word + (63 - clz (wordTv tr v word &&& lowSet hi)) := by
        by_cases h : p ≤ 64 * word + (63 - clz (wordTv tr v word &&& lowSet hi))
        · exact h
        · exfalso
          have hb := c3 (p - 64 * word) (by omega) (by omega)
          rw [lowmasked_bit hv tr word hword hi _ (by omega)] at hb
          have e : 64 * word + (p - 64 * word) = p := by omega
          rw [e, hp] at hb
          have : p - 64 * word < hi := by omega
          simp [this] at hb
      have e1 : p / 64 = word := by omega
      have e2 : 63 - clz (wordTv tr v word &&& lowSet hi) = p % 64 := by omega
      exact ⟨_, by rw [e1], e2⟩

theorem pos_before_cursor (f : Nat → Bool) {x p : Nat} (hp : f p = true) (h : cnt f x = cnt f p + 1) :
    p < x ∧ ∀ j, p < j → j < x → f j = false := by
  constructor
  · by_cases hx : p < x
    · exact hx
    · have := cnt_mono f (show x ≤ p by omega); omega
  · intro j h1 h2
    cases hf : f j with
    | false => rfl
    | true =>
      have a1 := cnt_lt_of_true f hp h1
      have a2 := cnt_succ f j
      rw [hf] at a2
      have a3 := cnt_mono f (show j + 1 ≤ x from h2)
      simp at a2
      omega

theorem nextBackQ_none (tr : Tr) (m : Mode) (b : BitVector) (it : OneIterSt) (h : it.next.1 ≥ it.limit.1) :
    OneIterSt.nextBackQ tr m b it = ok (none, it) := by
  unfold OneIterSt.nextBackQ; rw [if_pos h]

/-- **`next_back`.**  With ranks `[r, R)` left and `r < R`, `next_back` returns `(R-1, P[R-1])` and leaves
`[r, R-1)`; no fault in either arithmetic mode. -/
theorem nextBackQ_some {b : BitVector} {v : RawVec} (C : Ctx b v) (tr : Tr) (m : Mode) {it : OneIterSt}
    {r R : Nat} (hrel : Rel tr v it r R) (h : r < R) :
    ∃ p, (onesPos (bitsT tr v.bits))[R - 1]? = some p ∧
      OneIterSt.nextBackQ tr m b it = ok (some (R - 1, p), { it with limit := (R - 1, p) }) ∧
      Rel tr v { it with limit := (R - 1, p) } r (R - 1) := by
  obtain ⟨hwf, hlen, hdata, hones⟩ := C
  subst hdata
  obtain ⟨h1, h2, h3, h4, h5, h6, h7, h8⟩ := hrel
  rw [P_length] at h4
  rw [rankSpec_bitsT] at h5 h6
  obtain ⟨p, hp, hpr⟩ := exists_pos tr b.data (R - 1) (by omega)
  have hplen := bitT_lt hp
  obtain ⟨hpx, hno⟩ := pos_before_cursor (bitT tr b.data) (x := it.limit.2) hp (by rw [hpr, h6]; omega)
  refine ⟨p, (P_iff tr b.data _ p).mpr ⟨hp, hpr⟩, ?_, ?_⟩
  · unfold OneIterSt.nextBackQ
    rw [if_neg (by omega), h2, subM_ok (show 1 ≤ R by omega), subM_ok (show 1 ≤ it.limit.2 by omega)]
    simp only [bind_ok]
    have hidx : (it.limit.2 - 1) / 64 < b.data.data.size :=
      word_lt_size hwf (show it.limit.2 - 1 < b.data.len by omega)
    have e : 64 * ((it.limit.2 - 1) / 64) + ((it.limit.2 - 1) % 64 + 1) = it.limit.2 := by omega
    obtain ⟨W, hW, hclz⟩ := bwd_ok hwf tr m p hp (b.data.data.size + 1) ((it.limit.2 - 1) / 64)
      ((it.limit.2 - 1) % 64 + 1) (by omega) hidx (by omega) (by rw [e]; exact hpx) (by rw [e]; exact hno)
    rw [wordT_eq tr b.data _ hidx]
    simp only [bind_ok, hW, hclz]
    rw [bitOffset_ok m _ _ (by rw [U64_eq]; omega)]
    simp only [bind_ok, pure_eq]
    have e2 : p / 64 * 64 + p % 64 = p := by omega
    rw [e2]
  · exact ⟨h1, rfl, by omega, by rw [P_length]; omega, by rw [rankSpec_bitsT]; exact h5,
      by rw [rankSpec_bitsT]; exact hpr, h7, by show p ≤ b.data.len; omega⟩

/-- `len` (`ExactSizeIterator`): the remaining count is exact -/
theorem remaining_eq {tr : Tr} {v : RawVec} {it : OneIterSt} {r R : Nat} (hrel : Rel tr v it r R) :
    it.remaining = R - r := by
  unfold OneIterSt.remaining; rw [hrel.next_rank, hrel.limit_rank]

/-! ### `nth_back` (not specialised by `OneIter`: the `DoubleEndedIterator` default) -/

/-- the default `nth_back(k)`: `k` times `next_back`, stopping with `None` at the first `None`, then one more
`next_back` -/
def nthBackQ (tr : Tr) (m : Mode) (b : BitVector) : Nat → OneIterSt → Outcome (Option (Nat × Nat) × OneIterSt)
  | 0, it => OneIterSt.nextBackQ tr m b it
  | k + 1, it => do
    let r ← OneIterSt.nextBackQ tr m b it
    match r.1 with
    | none => return (none, r.2)
    | some _ => nthBackQ tr m b k r.2

/-- **`nth_back(k)` inside the range**: returns `(R-k-1, P[R-k-1])` and leaves `[r, R-k-1)`. -/
theorem nthBackQ_some {b : BitVector} {v : RawVec} (C : Ctx b v) (tr : Tr) (m : Mode) :
    ∀ (k : Nat) {it : OneIterSt} {r R : Nat}, Rel tr v it r R → r + k < R →
    ∃ p, (onesPos (bitsT tr v.bits))[R - k - 1]? = some p ∧
      nthBackQ tr m b k it = ok (some (R - k - 1, p), { it with limit := (R - k - 1, p) }) ∧
      Rel tr v { it with limit := (R - k - 1, p) } r (R - k - 1) := by
  intro k
  induction k with
  | zero =>
    intro it r R hrel h
    unfold nthBackQ
    exact nextBackQ_some C tr m hrel (by omega)
  | succ k ih =>
    intro it r R hrel h
    obtain ⟨q, hq1, hq2, hq3⟩ := nextBackQ_some C tr m hrel (by omega)
    obtain ⟨p, hp1, hp2, hp3⟩ := ih hq3 (by omega)
    have e : R - 1 - k - 1 = R - (k + 1) - 1 := by omega
    rw [e] at hp1 hp2 hp3
    refine ⟨p, hp1, ?_, hp3⟩
    unfold nthBackQ
    rw [hq2]
    simp only [bind_ok]
    exact hp2

/-- **`nth_back(k)` past the range**: `None`, and the iterator is exhausted. -/
theorem nthBackQ_none {b : BitVector} {v : RawVec} (C : Ctx b v) (tr : Tr) (m : Mode) :
    ∀ (k : Nat) {it : OneIterSt} {r R : Nat}, Rel tr v it r R → R ≤ r + k →
    ∃ it', nthBackQ tr m b k it = ok (none, it') ∧ Rel tr v it' r r := by
  intro k
  induction k with
  | zero =>
    intro it r R hrel h
    have hle := hrel.le
    have e : R = r := by omega
    subst e
    refine ⟨it, ?_, hrel⟩
    unfold nthBackQ
    exact nextBackQ_none tr m b it (by rw [hrel.next_rank, hrel.limit_rank]; omega)
  | succ k ih =>
    intro it r R hrel h
    have hle := hrel.le
    by_cases hlt : r < R
    · obtain ⟨q, hq1, hq2, hq3⟩ := nextBackQ_some C tr m hrel hlt
      obtain ⟨it', hp1, hp2⟩ := ih hq3 (by omega)
      refine ⟨it', ?_, hp2⟩
      unfold nthBackQ
      rw [hq2]
      simp only [bind_ok]
      exact hp1
    · have e : R = r := by omega
      subst e
      refine ⟨it, ?_, hrel⟩
      unfold nthBackQ
      rw [nextBackQ_none tr m b it (by rw [hrel.next_rank, hrel.limit_rank]; omega)]
      rfl

/-! ### the combined simulation for `OneIter<T>` -/

/-- the reference sequence of the set-bit iterator: `(rank, position)` pairs -/
def pairs (P : List Nat) : List (Nat × Nat) := (List.range P.length).map fun i => (i, P[i]?.getD 0)

theorem pairs_length (P : List Nat) : (pairs P).length = P.length := by simp [pairs]

theorem pairs_get (P : List Nat) (i : Nat) (h : i < (pairs P).length) :
    (pairs P)[i]? = some ((fun i => (i, P[i]?.getD 0)) i) := by
  rw [pairs_length] at h
  simp [pairs, h]

theorem pairs_eq_zip (P : List Nat) : pairs P = (List.range P.length).zip P := by
  apply List.ext_getElem?
  intro i
  by_cases h : i < P.length
  · simp [pairs, h, List.getElem?_zip_eq_some]
  · simp [pairs, h, List.getElem?_eq_none]

def optOut {α} : Option α → IOut α
  | none => .none
  | some a => .item a

/-- one call of `OneIter<T>` in the call alphabet (`nth_back` is not specialised by `OneIter`: it is the default
iteration of `next_back`, `nthBackQ`) -/
def oneStep (tr : Tr) (m : Mode) (b : BitVector) (it : OneIterSt) : ICall → Outcome (IOut (Nat × Nat) × OneIterSt)
  | .next => do let r ← OneIterSt.nextQ tr m b it; return (optOut r.1, r.2)
  | .nextBack => do let r ← OneIterSt.nextBackQ tr m b it; return (optOut r.1, r.2)
  | .nth k => do let r ← OneIterSt.nthQ tr m b it k; return (optOut r.1, r.2)
  | .nthBack k => do let r ← nthBackQ tr m b k it; return (optOut r.1, r.2)
  | .len => ok (.len it.remaining, it)

def oneRun (tr : Tr) (m : Mode) (b : BitVector) : OneIterSt → List ICall → Outcome (List (IOut (Nat × Nat)))
  | _, [] => ok []
  | it, c :: cs => do
    let r ← oneStep tr m b it c
    let os ← oneRun tr m b r.2 cs
    return r.1 :: os

/-- **One step of `OneIter<T>` against the reference deque** on the `(rank, position)` pairs restricted to
`[r, R)`: same answer, no fault in either arithmetic mode, relation preserved.  Call alphabet: all of
`next`, `next_back`, `nth k`, `nth_back k` (every `k : Nat`), `len`. -/
theorem oneStep_sim {b : BitVector} {v : RawVec} (C : Ctx b v) (tr : Tr) (m : Mode) {it : OneIterSt} {r R : Nat}
    (hrel : Rel tr v it r R) (call : ICall) :
    ∃ it' r' R', oneStep tr m b it call =
        ok ((dequeStep (seg (pairs (onesPos (bitsT tr v.bits))) r R) call).1, it') ∧
      (dequeStep (seg (pairs (onesPos (bitsT tr v.bits))) r R) call).2 =
        seg (pairs (onesPos (bitsT tr v.bits))) r' R' ∧
      Rel tr v it' r' R' := by
  have hx := pairs_get (onesPos (bitsT tr v.bits))
  have hRl : R ≤ (pairs (onesPos (bitsT tr v.bits))).length := by rw [pairs_length]; exact hrel.R_le
  have hrR := hrel.le
  cases call with
  | next =>
    simp only [oneStep, dequeStep]
    by_cases h : r < R
    · obtain ⟨p, hp1, hp2, hp3⟩ := nextQ_some C tr m hrel h
      rw [seg_cons _ _ hx r R h hRl, hp2]
      simp only [bind_ok, pure_eq, optOut, hp1, Option.getD_some]
      exact ⟨_, r + 1, R, rfl, rfl, hp3⟩
    · rw [seg_nil _ _ _ (by omega), nextQ_none tr m b it (by rw [hrel.next_rank, hrel.limit_rank]; omega)]
      exact ⟨it, r, R, rfl, (seg_nil _ _ _ (by omega)).symm, hrel⟩
  | nextBack =>
    simp only [oneStep, dequeStep]
    by_cases h : r < R
    · obtain ⟨p, hp1, hp2, hp3⟩ := nextBackQ_some C tr m hrel h
      rw [seg_getLast? _ _ hx r R h hRl, seg_dropLast _ r R h hRl, hp2]
      simp only [bind_ok, pure_eq, optOut, hp1, Option.getD_some]
      exact ⟨_, r, R - 1, rfl, rfl, hp3⟩
    · rw [seg_nil _ _ _ (by omega), nextBackQ_none tr m b it (by rw [hrel.next_rank, hrel.limit_rank]; omega)]
      exact ⟨it, r, R, rfl, (seg_nil _ _ _ (by omega)).symm, hrel⟩
  | nth k =>
    simp only [oneStep, dequeStep, seg_drop]
    by_cases h : r + k < R
    · obtain ⟨p, hp1, hp2, hp3⟩ := nthQ_some C tr m hrel k h
      rw [seg_cons _ _ hx (r + k) R h hRl, hp2]
      simp only [bind_ok, pure_eq, optOut, hp1, Option.getD_some]
      exact ⟨_, r + k + 1, R, rfl, rfl, hp3⟩
    · obtain ⟨hp2, hp3⟩ := nthQ_none (b := b) tr m hrel k (by omega)
      rw [seg_nil _ _ _ (by omega), hp2]
      exact ⟨_, R, R, rfl, (seg_nil _ _ _ (Nat.le_refl _)).symm, hp3⟩
  | nthBack k =>
    simp only [oneStep, dequeStep]
    simp only [seg_length _ r R hRl]
    by_cases h : r + k < R
    · obtain ⟨p, hp1, hp2, hp3⟩ := nthBackQ_some C tr m k hrel h
      have e3 : r + (R - r - k) = R - k := by omega
      rw [seg_take _ r R _ (by omega), e3, seg_getLast? _ _ hx r (R - k) (by omega) (by omega),
        seg_dropLast _ r (R - k) (by omega) (by omega), hp2]
      simp only [bind_ok, pure_eq, optOut, hp1, Option.getD_some]
      exact ⟨_, r, R - k - 1, rfl, rfl, hp3⟩
    · obtain ⟨it', hq1, hq2⟩ := nthBackQ_none C tr m k hrel (by omega)
      have e2 : R - r - k = 0 := by omega
      rw [e2, List.take_zero, hq1]
      exact ⟨it', r, r, rfl, (seg_nil _ _ _ (Nat.le_refl _)).symm, hq2⟩
  | len =>
    simp only [oneStep, dequeStep]
    rw [seg_length _ r R hRl, remaining_eq hrel]
    exact ⟨it, r, R, rfl, rfl, hrel⟩

/-- **Every finite call history** (`next` / `next_back` / `nth k` / `nth_back k` with arbitrary `k : Nat` / `len`,
in any interleaving) on a set-bit iterator standing for the ranks `[r, R)` yields exactly what the reference deque
yields, with no fault in either arithmetic mode. -/
theorem oneRun_sim {b : BitVector} {v : RawVec} (C : Ctx b v) (tr : Tr) (m : Mode) (calls : List ICall) :
    ∀ {it : OneIterSt} {r R : Nat}, Rel tr v it r R →
      oneRun tr m b it calls = ok (dequeRunM (seg (pairs (onesPos (bitsT tr v.bits))) r R) calls) := by
  induction calls with
  | nil => intro it r R _; rfl
  | cons c cs ih =>
    intro it r R hrel
    obtain ⟨it', r', R', h1, h2, h3⟩ := oneStep_sim C tr m hrel c
    unfold oneRun dequeRunM
    rw [h1]
    simp only [bind_ok, h2]
    rw [ih h3]
    rfl

/-- the full iterator (`one_iter` / `zero_iter`) yields the `(rank, position)` pairs of all set bits -/
theorem oneRun_full {b : BitVector} {v : RawVec} (C : Ctx b v) (tr : Tr) (m : Mode) (calls : List ICall) :
    oneRun tr m b (OneIterSt.full tr b) calls = ok (dequeRunM (pairs (onesPos (bitsT tr v.bits))) calls) := by
  rw [oneRun_sim C tr m calls (Rel_full C tr)]
  congr 2
  unfold seg
  rw [← pairs_length, List.take_length, List.drop_zero]

/-! ### 5. the defect F1 of `nth` as first written (`OneIterSt.nthQOld`): it adds `n` to the rank without clamping;
the repaired `nth` (`OneIterSt.nthQ`) answers `None` on the same inputs -/

/-- in a checked build the ORIGINAL `nth(n)` panics as soon as `rank + n` overflows (any vector, any state) -/
theorem nthQ_checked_overflow (tr : Tr) (b : BitVector) (it : OneIterSt) (n : Nat) (h : 2 ^ 64 ≤ it.next.1 + n) :
    OneIterSt.nthQOld tr .checked b it n = fault (.panic .overflow) := by
  unfold OneIterSt.nthQOld addM
  rw [if_neg (by rw [U64_eq]; omega)]
  rfl

/-- the two-bit vector `11` with all supports enabled -/
def bEx : BitVector := (BitVector.ofRaw (RawVec.ofBits [true, true])).enableAll

/-- the same vector without supports -/
def bEx0 : BitVector := { ones := 2, data := RawVec.ofBits [true, true] }

theorem bEx_ctx : Ctx bEx (RawVec.ofBits [true, true]) := by
  refine ⟨by decide +kernel, by decide +kernel, by decide +kernel, by decide +kernel⟩

/-- one `next` from the full iterator over `11`: yields `(0, 0)`, the state is `⟨(1,1),(2,2)⟩` -/
theorem F1_setup : OneIterSt.nextQ .ident .checked bEx (OneIterSt.full .ident bEx) =
    ok (some (0, 0), ⟨(1, 1), (2, 2)⟩) := by decide +kernel

/-- **F1, checked build** (original code): `nth(2^64 - 1)` after one `next` panics on `next.0 + n` (the reference
answer is `None`) -/
theorem F1_checked : OneIterSt.nthQOld .ident .checked bEx ⟨(1, 1), (2, 2)⟩ (2 ^ 64 - 1) = fault (.panic .overflow) := by
  decide +kernel

/-- **F1, release build** (original code): the sum wraps to `0 < limit`, the counted scan runs past the single data word and
reads out of bounds -/
theorem F1_wrapping : OneIterSt.nthQOld .ident .wrapping bEx ⟨(1, 1), (2, 2)⟩ (2 ^ 64 - 1) = fault .oob := by
  decide +kernel

theorem F1_checked0 : OneIterSt.nthQOld .ident .checked bEx0 ⟨(1, 1), (2, 2)⟩ (2 ^ 64 - 1) = fault (.panic .overflow) := by
  decide +kernel

theorem F1_wrapping0 : OneIterSt.nthQOld .ident .wrapping bEx0 ⟨(1, 1), (2, 2)⟩ (2 ^ 64 - 1) = fault .oob := by
  decide +kernel

/-- **F1 repaired, checked build**: the repaired `nth(2^64 - 1)` on the same state answers `None` and exhausts the
iterator, as the reference does (`F1_reference`) -/
theorem F1_fixed_checked :
    OneIterSt.nthQ .ident .checked bEx ⟨(1, 1), (2, 2)⟩ (2 ^ 64 - 1) = ok (none, ⟨(2, 2), (2, 2)⟩) := by
  decide +kernel

/-- **F1 repaired, release build**: the same answer -/
theorem F1_fixed_wrapping :
    OneIterSt.nthQ .ident .wrapping bEx ⟨(1, 1), (2, 2)⟩ (2 ^ 64 - 1) = ok (none, ⟨(2, 2), (2, 2)⟩) := by
  decide +kernel

theorem F1_fixed_checked0 :
    OneIterSt.nthQ .ident .checked bEx0 ⟨(1, 1), (2, 2)⟩ (2 ^ 64 - 1) = ok (none, ⟨(2, 2), (2, 2)⟩) := by
  decide +kernel

theorem F1_fixed_wrapping0 :
    OneIterSt.nthQ .ident .wrapping bEx0 ⟨(1, 1), (2, 2)⟩ (2 ^ 64 - 1) = ok (none, ⟨(2, 2), (2, 2)⟩) := by
  decide +kernel

/-- what the reference deque answers to the same call: `None` -/
theorem F1_reference :
    (dequeStep (seg (pairs (onesPos (bitsT .ident (RawVec.ofBits [true, true]).bits))) 1 2) (.nth (2 ^ 64 - 1))).1
      = .none := by
  simp only [dequeStep, seg_drop]
  rw [seg_nil _ _ _ (by omega)]

/-- the state used in F1 is a legitimate one: it stands for the ranks `[1, 2)` of the vector `11` -/
theorem F1_state_rel : Rel .ident (RawVec.ofBits [true, true]) ⟨(1, 1), (2, 2)⟩ 1 2 := by
  have hl : (onesPos (bitsT .ident (RawVec.ofBits [true, true]).bits)).length = 2 := by decide +kernel
  have hfull := Rel_full bEx_ctx .ident
  rw [hl] at hfull
  obtain ⟨p, _, hp2, hp3⟩ := nextQ_some bEx_ctx .ident .checked hfull (by omega)
  rw [F1_setup] at hp2
  have hp : p = 0 := by
    have := congrArg (fun o => match o with | ok (some (_, q), _) => q | _ => 0) hp2
    exact this.symm
  subst hp
  exact hp3

/-! ### 6. predecessor / successor -/

theorem filter_onesFrom_length (B : List Bool) : ∀ (s y : Nat),
    ((onesFrom B s).filter (· < y)).length = (B.take (y - s)).count true := by
  induction B with
  | nil => intro s y; simp [onesFrom]
  | cons a bs ih =>
    intro s y
    cases a with
    | true =>
      simp only [onesFrom]
      by_cases h : s < y
      · have e : y - s = (y - (s + 1)) + 1 := by omega
        rw [List.filter_cons_of_pos (by simpa using h), List.length_cons, ih (s + 1) y, e, List.take_succ_cons,
          List.count_cons]
        simp
      · have e : y - s = 0 := by omega
        have e2 : y - (s + 1) = 0 := by omega
        rw [List.filter_cons_of_neg (by simpa using h), ih (s + 1) y, e2, e]
        rfl
    | false =>
      simp only [onesFrom]
      by_cases h : s < y
      · have e : y - s = (y - (s + 1)) + 1 := by omega
        rw [e, List.take_succ_cons, List.count_cons, ih (s + 1) y]
        simp
      · have e : y - s = 0 := by omega
        have e2 : y - (s + 1) = 0 := by omega
        rw [e, List.take_zero, ih (s + 1) y, e2]
        simp

theorem filter_lt_length (B : List Bool) (y : Nat) :
    ((onesPos B).filter (· < y)).length = rankSpec B y := by
  unfold onesPos rankSpec
  rw [filter_onesFrom_length B 0 y]; rfl

/-- the elements below a bound form a prefix of a strictly increasing list -/
theorem filter_lt_eq_take (P : List Nat) (hs : P.Pairwise (· < ·)) (y : Nat) :
    P.filter (· < y) = P.take (P.filter (· < y)).length := by
  induction P with
  | nil => rfl
  | cons a t ih =>
    rw [List.pairwise_cons] at hs
    by_cases h : a < y
    · rw [List.filter_cons_of_pos (by simpa using h), List.length_cons, List.take_succ_cons, ← ih hs.2]
    · have : t.filter (· < y) = [] := by
        rw [List.filter_eq_nil_iff]
        intro b hb
        have := hs.1 b hb
        simp only [decide_eq_true_eq]; omega
      rw [List.filter_cons_of_neg (by simpa using h), this]
      rfl

theorem filter_le_eq_lt (P : List Nat) (x : Nat) : P.filter (· ≤ x) = P.filter (· < x + 1) := by
  apply List.filter_congr
  intro a _
  by_cases h : a ≤ x
  · simp [h, Nat.lt_succ_of_le h]
  · have : ¬ a < x + 1 := by omega
    simp [h, this]

/-- `predSpec` in terms of rank and the position list -/
theorem predSpec_eq (tr : Tr) (v : RawVec) (x : Nat) :
    predSpec (bitsT tr v.bits) x =
      if rankSpec (bitsT tr v.bits) (x + 1) = 0 then none
      else some (rankSpec (bitsT tr v.bits) (x + 1) - 1,
        (onesPos (bitsT tr v.bits))[rankSpec (bitsT tr v.bits) (x + 1) - 1]?.getD 0) := by
  have hlen := filter_lt_length (bitsT tr v.bits) (x + 1)
  have htake := filter_lt_eq_take _ (onesPos_sorted tr v) (x + 1)
  have hle : rankSpec (bitsT tr v.bits) (x + 1) ≤ (onesPos (bitsT tr v.bits)).length := by
    rw [← hlen]; exact List.length_filter_le _ _
  unfold predSpec
  simp only [filter_le_eq_lt]
  rw [hlen]
  rw [hlen] at htake
  generalize rankSpec (bitsT tr v.bits) (x + 1) = k at *
  by_cases hk : k = 0
  · subst hk
    rw [htake]; rfl
  · rw [if_neg hk, htake, List.getLast?_eq_getElem?, List.length_take, Nat.min_eq_left hle,
      List.getElem?_take, if_pos (by omega)]
    have : k - 1 < (onesPos (bitsT tr v.bits)).length := by omega
    rw [List.getElem?_eq_getElem this]
    rfl

/-- `succSpec` in terms of rank and the position list -/
theorem succSpec_eq (B : List Bool) (x : Nat) :
    succSpec B x = match (onesPos B)[rankSpec B x]? with
      | none => none
      | some p => some (rankSpec B x, p) := by
  unfold succSpec
  simp only [filter_lt_length, List.head?_drop]
  cases (onesPos B)[rankSpec B x]? <;> rfl

theorem bitsT_ident (B : List Bool) : bitsT .ident B = B := rfl

theorem rankSpec_le_P (B : List Bool) (y : Nat) : rankSpec B y ≤ (onesPos B).length := by
  rw [← filter_lt_length B y]; exact List.length_filter_le _ _

/-- the saturated `x + 1` has the same rank as `x + 1`: when it is clamped to `2^64 - 1` both are past the end of
the vector (`len < 2^64`) -/
theorem rankSpec_satAdd {v : RawVec} (hlen : v.len < 2 ^ 64) (x : Nat) :
    rankSpec v.bits (BitVector.satAdd x 1) = rankSpec v.bits (x + 1) := by
  unfold BitVector.satAdd
  by_cases h : x + 1 ≤ U64 - 1
  · rw [Nat.min_eq_left h]
  · rw [Nat.min_eq_right (by omega), rankSpec_of_ge _ _ (by rw [length_bits, U64_eq]; omega),
      rankSpec_of_ge _ _ (by rw [length_bits]; rw [U64_eq] at h; omega)]

/-- **`predecessor(x)` for EVERY `x : Nat`** (valid rank and select supports): the empty iterator when no set bit
is `≤ x`, otherwise the iterator state `(k, P[k])` with `predSpec = some (k, P[k])`, which stands for the ranks
`[k, |P|)`; no fault in either arithmetic mode. -/
theorem predecessorQ_ok {b : BitVector} {v : RawVec} {rs : RankSup} {s : SelSup} (C : Ctx b v)
    (hrank : b.rank = some rs) (hrs : rs.Valid v) (hsel : b.select = some s) (hs : s.Valid .ident v)
    (m : Mode) (x : Nat) :
    match predSpec v.bits x with
    | none => b.predecessorQ m x = ok (OneIterSt.emptyIter .ident b)
    | some (k, p) =>
      (onesPos v.bits)[k]? = some p ∧
      b.predecessorQ m x = ok ⟨(k, p), (b.countT .ident, b.len)⟩ ∧
      Rel .ident v ⟨(k, p), (b.countT .ident, b.len)⟩ k (onesPos v.bits).length := by
  have hpe : predSpec v.bits x =
      if rankSpec v.bits (x + 1) = 0 then none
      else some (rankSpec v.bits (x + 1) - 1, (onesPos v.bits)[rankSpec v.bits (x + 1) - 1]?.getD 0) :=
    predSpec_eq .ident v x
  have hq : b.predecessorQ m x =
      if rankSpec v.bits (x + 1) = 0 then ok (OneIterSt.emptyIter .ident b)
      else b.selectIterT .ident m (rankSpec v.bits (x + 1) - 1) := by
    unfold BitVector.predecessorQ
    simp only []
    rw [rankQ_ok C.wf C.data hrank hrs C.ones (BitVector.satAdd x 1), rankSpec_satAdd C.len x]
    simp only [bind_ok, pure_eq]
  have hle := rankSpec_le_P v.bits (x + 1)
  by_cases hk : rankSpec v.bits (x + 1) = 0
  · rw [if_pos hk] at hpe hq
    rw [hpe]; exact hq
  · rw [if_neg hk] at hpe hq
    rw [hpe]
    obtain ⟨p, hp1, hp2, hp3⟩ := (Rel_selectIter C .ident m hsel hs (rankSpec v.bits (x + 1) - 1)).1
      (by show _ < (onesPos v.bits).length; omega)
    replace hp1 : (onesPos v.bits)[rankSpec v.bits (x + 1) - 1]? = some p := hp1
    rw [hp1, Option.getD_some]
    exact ⟨hp1, by rw [hq]; exact hp2, hp3⟩

/-- **`successor(x)` for every `x`.** -/
theorem successorQ_ok {b : BitVector} {v : RawVec} {rs : RankSup} {s : SelSup} (C : Ctx b v)
    (hrank : b.rank = some rs) (hrs : rs.Valid v) (hsel : b.select = some s) (hs : s.Valid .ident v)
    (m : Mode) (x : Nat) :
    match succSpec v.bits x with
    | none => b.successorQ m x = ok (OneIterSt.emptyIter .ident b)
    | some (k, p) =>
      (onesPos v.bits)[k]? = some p ∧
      b.successorQ m x = ok ⟨(k, p), (b.countT .ident, b.len)⟩ ∧
      Rel .ident v ⟨(k, p), (b.countT .ident, b.len)⟩ k (onesPos v.bits).length := by
  have hse := succSpec_eq v.bits x
  have hcount : b.countOnes = (onesPos v.bits).length := countT_eq_len C .ident
  have hq : b.successorQ m x =
      if rankSpec v.bits x ≥ (onesPos v.bits).length then ok (OneIterSt.emptyIter .ident b)
      else b.selectIterT .ident m (rankSpec v.bits x) := by
    unfold BitVector.successorQ
    rw [rankQ_ok C.wf C.data hrank hrs C.ones x]
    simp only [bind_ok, pure_eq, hcount]
  by_cases hk : rankSpec v.bits x ≥ (onesPos v.bits).length
  · rw [if_pos hk] at hq
    rw [List.getElem?_eq_none hk] at hse
    rw [hse]; exact hq
  · rw [if_neg hk] at hq
    obtain ⟨p, hp1, hp2, hp3⟩ := (Rel_selectIter C .ident m hsel hs (rankSpec v.bits x)).1
      (by show _ < (onesPos v.bits).length; omega)
    replace hp1 : (onesPos v.bits)[rankSpec v.bits x]? = some p := hp1
    rw [hp1] at hse
    rw [hse]
    exact ⟨hp1, by rw [hq]; exact hp2, hp3⟩

/-! the defect F2 of `predecessor` as first written (`BitVector.predecessorQOld`): it adds 1 to the value without
clamping; the repaired `predecessor` (`BitVector.predecessorQ`, `saturating_add`) agrees with the reference -/

/-- **F2, checked build** (original code): `predecessor(2^64 - 1)` panics, whatever the vector -/
theorem F2_checked (b : BitVector) : b.predecessorQOld .checked (2 ^ 64 - 1) = fault (.panic .overflow) := by
  unfold BitVector.predecessorQOld addM
  rw [if_neg (by rw [U64_eq]; omega)]
  rfl

/-- **F2, release build** (original code): the value wraps to 0, `rank(0) = 0`, and the result is the EMPTY iterator although the
vector `11` has set bits `≤ 2^64 - 1` (the reference answer is rank 1 at position 1) -/
theorem F2_wrapping : bEx.predecessorQOld .wrapping (2 ^ 64 - 1) = ok (OneIterSt.emptyIter .ident bEx) := by
  decide +kernel

theorem F2_reference : predSpec (RawVec.ofBits [true, true]).bits (2 ^ 64 - 1) = some (1, 1) := by
  decide +kernel

/-- **F2 repaired** (both builds): `predecessor(2^64 - 1)` on `11` is the iterator at rank 1, position 1, as the
reference says (`F2_reference`) -/
theorem F2_fixed (m : Mode) : bEx.predecessorQ m (2 ^ 64 - 1) = ok ⟨(1, 1), (2, 2)⟩ := by
  cases m <;> decide +kernel

/-! ### the relation in terms of the position list, and absorbing `None` for `OneIter<T>` -/

/-- the positional reading of `Rel`: a cursor position `x` has rank `r` exactly when it lies strictly after
`P[r-1]` (if `r > 0`) and at or before `P[r]` (if `r < |P|`) -/
theorem rank_eq_iff_sandwich (tr : Tr) (v : RawVec) (x r : Nat) (hr : r ≤ (onesPos (bitsT tr v.bits)).length) :
    rankSpec (bitsT tr v.bits) x = r ↔
      (∀ p, 0 < r → (onesPos (bitsT tr v.bits))[r - 1]? = some p → p < x) ∧
      (∀ p, (onesPos (bitsT tr v.bits))[r]? = some p → x ≤ p) := by
  have htot := rankSpec_le_P (bitsT tr v.bits) x
  rw [P_length] at hr htot
  rw [rankSpec_bitsT] at htot ⊢
  constructor
  · intro hx
    constructor
    · intro p h0 hp
      obtain ⟨hp1, hp2⟩ := (P_iff tr v _ p).mp hp
      by_cases h : p < x
      · exact h
      · have := cnt_mono (bitT tr v) (show x ≤ p by omega); omega
    · intro p hp
      obtain ⟨hp1, hp2⟩ := (P_iff tr v _ p).mp hp
      exact (pos_after_cursor (bitT tr v) (x := x) hp1 (by omega)).1
  · rintro ⟨h1, h2⟩
    by_cases hlt : cnt (bitT tr v) x < r
    · exfalso
      obtain ⟨p, hp1, hp2⟩ := exists_pos tr v (r - 1) (by omega)
      have hpx := h1 p (by omega) ((P_iff tr v _ p).mpr ⟨hp1, hp2⟩)
      have a1 := cnt_succ (bitT tr v) p
      rw [hp1] at a1
      have a2 := cnt_mono (bitT tr v) (show p + 1 ≤ x from hpx)
      simp at a1
      omega
    · by_cases hgt : r < cnt (bitT tr v) x
      · exfalso
        obtain ⟨p, hp1, hp2⟩ := exists_pos tr v r (by omega)
        have hxp := h2 p ((P_iff tr v _ p).mpr ⟨hp1, hp2⟩)
        have := cnt_mono (bitT tr v) hxp
        omega
      · omega

theorem deque_nil_step {α} (call : ICall) :
    IsEmptyOut (dequeStep ([] : List α) call).1 ∧ (dequeStep ([] : List α) call).2 = [] := by
  cases call <;> simp [dequeStep, IsEmptyOut]

theorem dequeRun_nil {α} (calls : List ICall) : ∀ o, o ∈ dequeRunM ([] : List α) calls → IsEmptyOut o := by
  induction calls with
  | nil => intro o ho; cases ho
  | cons c cs ih =>
    intro o ho
    have hs := deque_nil_step (α := α) c
    unfold dequeRunM at ho
    simp only [List.mem_cons] at ho
    rcases ho with rfl | ho
    · exact hs.1
    · rw [hs.2] at ho; exact ih o ho

/-- **`None` is absorbing for `OneIter<T>`**: once the ranks are used up (`R ≤ r`, which is the state after any
call that answered `None`), every call history answers only `None` / length 0, without fault -/
theorem oneRun_exhausted {b : BitVector} {v : RawVec} (C : Ctx b v) (tr : Tr) (m : Mode) (calls : List ICall)
    {it : OneIterSt} {r R : Nat} (hrel : Rel tr v it r R) (h : R ≤ r) :
    ∃ os, oneRun tr m b it calls = ok os ∧ ∀ o, o ∈ os → IsEmptyOut o := by
  refine ⟨_, oneRun_sim C tr m calls hrel, ?_⟩
  rw [seg_nil _ _ _ h]
  exact dequeRun_nil calls

/-- an item call that answers `None` leaves the iterator exhausted (`r' = R'`) -/
theorem oneStep_none_exhausted {b : BitVector} {v : RawVec} (C : Ctx b v) (tr : Tr) (m : Mode) {it : OneIterSt}
    {r R : Nat} (hrel : Rel tr v it r R) (call : ICall) (hlen : call ≠ .len)
    (hnone : (dequeStep (seg (pairs (onesPos (bitsT tr v.bits))) r R) call).1 = .none) :
    ∃ it' r', oneStep tr m b it call = ok (.none, it') ∧ Rel tr v it' r' r' := by
  obtain ⟨it', r', R', h1, h2, h3⟩ := oneStep_sim C tr m hrel call
  rw [hnone] at h1
  have hnil := deque_none_empty _ call hlen hnone
  rw [hnil] at h2
  have hl := congrArg List.length h2
  rw [seg_length _ _ _ (by rw [pairs_length]; exact h3.R_le)] at hl
  have : R' = r' := by have := h3.le; simp at hl; omega
  subst this
  exact ⟨it', R', h1, h3⟩

/-! ### the statements with `P[r]` spelled out, and the instances without side hypotheses -/

theorem nextQ_spec {b : BitVector} {v : RawVec} (C : Ctx b v) (tr : Tr) (m : Mode) {it : OneIterSt} {r R : Nat}
    (hrel : Rel tr v it r R) (h : r < R) :
    OneIterSt.nextQ tr m b it =
      ok (some (r, (onesPos (bitsT tr v.bits))[r]'(Nat.lt_of_lt_of_le h hrel.R_le)),
        { it with next := (r + 1, (onesPos (bitsT tr v.bits))[r]'(Nat.lt_of_lt_of_le h hrel.R_le) + 1) }) := by
  obtain ⟨p, hp1, hp2, _⟩ := nextQ_some C tr m hrel h
  rw [List.getElem?_eq_getElem (Nat.lt_of_lt_of_le h hrel.R_le)] at hp1
  rw [Option.some.inj hp1]; exact hp2

theorem nthQ_spec {b : BitVector} {v : RawVec} (C : Ctx b v) (tr : Tr) (m : Mode) {it : OneIterSt} {r R : Nat}
    (hrel : Rel tr v it r R) (n : Nat) (h : r + n < R) :
    OneIterSt.nthQ tr m b it n =
      ok (some (r + n, (onesPos (bitsT tr v.bits))[r + n]'(Nat.lt_of_lt_of_le h hrel.R_le)),
        { it with next := (r + n + 1, (onesPos (bitsT tr v.bits))[r + n]'(Nat.lt_of_lt_of_le h hrel.R_le) + 1) }) := by
  obtain ⟨p, hp1, hp2, _⟩ := nthQ_some C tr m hrel n h
  rw [List.getElem?_eq_getElem (Nat.lt_of_lt_of_le h hrel.R_le)] at hp1
  rw [Option.some.inj hp1]; exact hp2

theorem nextBackQ_spec {b : BitVector} {v : RawVec} (C : Ctx b v) (tr : Tr) (m : Mode) {it : OneIterSt}
    {r R : Nat} (hrel : Rel tr v it r R) (h : r < R) :
    OneIterSt.nextBackQ tr m b it =
      ok (some (R - 1, (onesPos (bitsT tr v.bits))[R - 1]'(by have := hrel.R_le; omega)),
        { it with limit := (R - 1, (onesPos (bitsT tr v.bits))[R - 1]'(by have := hrel.R_le; omega)) }) := by
  obtain ⟨p, hp1, hp2, _⟩ := nextBackQ_some C tr m hrel h
  rw [List.getElem?_eq_getElem (by have := hrel.R_le; omega)] at hp1
  rw [Option.some.inj hp1]; exact hp2

/-- `BitVector::from(raw)` with all supports enabled satisfies the standing hypotheses -/
theorem ctx_enableAll {v : RawVec} (hv : v.WF) (hlen : v.len < 2 ^ 64) : Ctx (BitVector.ofRaw v).enableAll v :=
  ⟨hv, hlen, rfl, countOnes_eq v hv⟩

theorem ctx_ofRaw {v : RawVec} (hv : v.WF) (hlen : v.len < 2 ^ 64) : Ctx (BitVector.ofRaw v) v :=
  ⟨hv, hlen, rfl, countOnes_eq v hv⟩

/-- `one_iter` / `zero_iter` of `BitVector::from(raw)` (no support needed): the reference sequence, no fault -/
theorem oneRun_full_ofRaw {v : RawVec} (hv : v.WF) (hlen : v.len < 2 ^ 64) (tr : Tr) (m : Mode)
    (calls : List ICall) :
    oneRun tr m (BitVector.ofRaw v) (OneIterSt.full tr (BitVector.ofRaw v)) calls =
      ok (dequeRunM (pairs (onesPos (bitsT tr v.bits))) calls) :=
  oneRun_full (ctx_ofRaw hv hlen) tr m calls

theorem predecessorQ_enableAll {v : RawVec} (hv : v.WF) (hlen : v.len < 2 ^ 64) (m : Mode) (x : Nat) :
    match predSpec v.bits x with
    | none => (BitVector.ofRaw v).enableAll.predecessorQ m x =
        ok (OneIterSt.emptyIter .ident (BitVector.ofRaw v).enableAll)
    | some (k, p) =>
      (onesPos v.bits)[k]? = some p ∧
      (BitVector.ofRaw v).enableAll.predecessorQ m x =
        ok ⟨(k, p), ((BitVector.ofRaw v).enableAll.countT .ident, (BitVector.ofRaw v).enableAll.len)⟩ ∧
      Rel .ident v ⟨(k, p), ((BitVector.ofRaw v).enableAll.countT .ident, (BitVector.ofRaw v).enableAll.len)⟩ k
        (onesPos v.bits).length :=
  predecessorQ_ok (ctx_enableAll hv hlen) rfl (build_valid hv hlen) rfl (SelSup.build_valid hv hlen .ident) m x

theorem successorQ_enableAll {v : RawVec} (hv : v.WF) (hlen : v.len < 2 ^ 64) (m : Mode) (x : Nat) :
    match succSpec v.bits x with
    | none => (BitVector.ofRaw v).enableAll.successorQ m x =
        ok (OneIterSt.emptyIter .ident (BitVector.ofRaw v).enableAll)
    | some (k, p) =>
      (onesPos v.bits)[k]? = some p ∧
      (BitVector.ofRaw v).enableAll.successorQ m x =
        ok ⟨(k, p), ((BitVector.ofRaw v).enableAll.countT .ident, (BitVector.ofRaw v).enableAll.len)⟩ ∧
      Rel .ident v ⟨(k, p), ((BitVector.ofRaw v).enableAll.countT .ident, (BitVector.ofRaw v).enableAll.len)⟩ k
        (onesPos v.bits).length :=
  successorQ_ok (ctx_enableAll hv hlen) rfl (build_valid hv hlen) rfl (SelSup.build_valid hv hlen .ident) m x

/-! ### `IntoIter` (forward only) -/

theorem intoIterStep_sim {α} (xs : List α) (get : Nat → α) (hx : ∀ i, i < xs.length → xs[i]? = some (get i))
    (i : Nat) (hi : i ≤ xs.length) :
    (dequeStep (xs.drop i) .next).1 = (intoIterStep get xs.length i).1 ∧
      (dequeStep (xs.drop i) .next).2 = xs.drop (intoIterStep get xs.length i).2 ∧
      (intoIterStep get xs.length i).2 ≤ xs.length := by
  have hd : ∀ j, xs.drop j = seg xs j xs.length := by intro j; simp [seg]
  simp only [intoIterStep, dequeStep, hd]
  by_cases h : i ≥ xs.length
  · rw [if_pos h, seg_nil xs _ _ h]
    exact ⟨rfl, rfl, hi⟩
  · rw [if_neg h, seg_cons xs get hx _ _ (by omega) (Nat.le_refl _)]
    exact ⟨rfl, rfl, by show i + 1 ≤ xs.length; omega⟩

end Sds.IterProofs
