/-
Proofs/Codec: every codec of `Model/Ser` is lawful — loading a serialization followed by anything returns
the value and exactly the rest, and every strict prefix of a serialization is refused.
-/
import Sds.Model.Ser

namespace Sds
open Outcome

/-! ### the law -/

structure Lawful {α} (c : Codec α) (WF : α → Prop) : Prop where
  /-- loading what was serialized, followed by anything, returns the value and exactly the rest -/
  roundtrip : ∀ x r, WF x → c.load (c.ser x ++ r) = .ok (x, r)
  /-- every strict prefix of a serialization is refused (never `ok`) -/
  pfx : ∀ x k, WF x → k < (c.ser x).length → ∀ y r, c.load ((c.ser x).take k) ≠ .ok (y, r)

/-- The only fault a primitive reader produces on a short stream. -/
abbrev IsEof : Fault → Prop := fun e => e = .err .eof

/-- Any fault. -/
abbrev AnyFault : Fault → Prop := fun _ => True

/-- `Loads P L s x`: the loader `L` reads the value `x` off the front of `s ++ r` leaving `r`, and refuses every
strict prefix of `s` with a fault satisfying `P`. -/
def Loads {α} (P : Fault → Prop) (L : Elems → Outcome (α × Elems)) (s : Elems) (x : α) : Prop :=
  (∀ r, L (s ++ r) = ok (x, r)) ∧ (∀ k, k < s.length → ∃ e, P e ∧ L (s.take k) = fault e)

/-- Lawfulness with a described prefix fault. `LawfulP IsEof` is the strong form (prefixes fail with `eof`),
`LawfulP AnyFault` is equivalent to `Lawful`. -/
structure LawfulP {α} (P : Fault → Prop) (c : Codec α) (WF : α → Prop) : Prop where
  loads : ∀ x, WF x → Loads P c.load (c.ser x) x

theorem Loads.mono {α} {P Q : Fault → Prop} {L : Elems → Outcome (α × Elems)} {s x}
    (hPQ : ∀ e, P e → Q e) (h : Loads P L s x) : Loads Q L s x :=
  ⟨h.1, fun k hk => let ⟨e, he, h'⟩ := h.2 k hk; ⟨e, hPQ e he, h'⟩⟩

theorem LawfulP.mono {α} {P Q : Fault → Prop} {c : Codec α} {WF} (hPQ : ∀ e, P e → Q e)
    (h : LawfulP P c WF) : LawfulP Q c WF := ⟨fun x hx => (h.loads x hx).mono hPQ⟩

theorem LawfulP.weaken {α} {P : Fault → Prop} {c : Codec α} {WF WF' : α → Prop} (hW : ∀ x, WF' x → WF x)
    (h : LawfulP P c WF) : LawfulP P c WF' := ⟨fun x hx => h.loads x (hW x hx)⟩

theorem LawfulP.lawful {α} {P : Fault → Prop} {c : Codec α} {WF} (h : LawfulP P c WF) : Lawful c WF where
  roundtrip x r hx := (h.loads x hx).1 r
  pfx x k hx hk y r heq := by
    obtain ⟨e, _, he⟩ := (h.loads x hx).2 k hk
    rw [he] at heq; cases heq

theorem Lawful.lawfulP {α} {c : Codec α} {WF} (h : Lawful c WF) : LawfulP AnyFault c WF where
  loads x hx := by
    refine ⟨fun r => h.roundtrip x r hx, fun k hk => ?_⟩
    cases hl : c.load ((c.ser x).take k) with
    | ok p => exact absurd hl (h.pfx x k hx hk p.1 p.2)
    | fault e => exact ⟨e, trivial, rfl⟩

theorem lawful_iff_lawfulP {α} {c : Codec α} {WF} : Lawful c WF ↔ LawfulP AnyFault c WF :=
  ⟨Lawful.lawfulP, LawfulP.lawful⟩

/-- strong prefix law, as an equation -/
theorem LawfulP.pfx_eof {α} {c : Codec α} {WF} (h : LawfulP IsEof c WF) (x : α) (k : Nat) (hx : WF x)
    (hk : k < (c.ser x).length) : c.load ((c.ser x).take k) = fault (.err .eof) := by
  obtain ⟨e, he, h'⟩ := (h.loads x hx).2 k hk
  rw [h', he]

/-! ### sequencing -/

theorem Loads.cast {α} {P} {L : Elems → Outcome (α × Elems)} {s s' : Elems} {x x' : α}
    (h : Loads P L s x) (hs : s' = s) (hx : x' = x) : Loads P L s' x' := by subst hs; subst hx; exact h

/-- the sequencing principle: a loader that runs `L1` and continues with `f` reads `s1 ++ s2`. -/
theorem Loads.bind {α β} {P} {L1 : Elems → Outcome (α × Elems)} {f : α × Elems → Outcome (β × Elems)}
    {s1 s2 : Elems} {a : α} {b : β}
    (h1 : Loads P L1 s1 a) (h2 : Loads P (fun r => f (a, r)) s2 b) :
    Loads P (fun es => L1 es >>= f) (s1 ++ s2) b := by
  constructor
  · intro r
    show L1 (s1 ++ s2 ++ r) >>= f = _
    rw [List.append_assoc, h1.1, bind_ok]; exact h2.1 r
  · intro k hk
    rw [List.length_append] at hk
    show ∃ e, P e ∧ (L1 ((s1 ++ s2).take k) >>= f) = fault e
    by_cases hlt : k < s1.length
    · obtain ⟨e, he, h⟩ := h1.2 k hlt
      refine ⟨e, he, ?_⟩
      rw [List.take_append_of_le_length (Nat.le_of_lt hlt), h, bind_fault]
    · obtain ⟨e, he, h⟩ := h2.2 (k - s1.length) (by omega)
      refine ⟨e, he, ?_⟩
      rw [List.take_append, List.take_of_length_le (by omega), h1.1, bind_ok]; exact h

/-- the end of a sequence: return the value, consume nothing -/
theorem Loads.ret {α} {P} (v : α) : Loads P (fun r => (pure (v, r) : Outcome (α × Elems))) [] v :=
  ⟨fun _ => rfl, fun k hk => absurd hk (Nat.not_lt_zero k)⟩

/-- a test (e.g. a validation) that takes the `else` branch -/
theorem Loads.ite_neg {α} {P} {c : Prop} [Decidable c] {L1 L2 : Elems → Outcome (α × Elems)} {s x}
    (hc : ¬ c) (h : Loads P L2 s x) : Loads P (fun r => if c then L1 r else L2 r) s x := by
  simp only [if_neg hc]; exact h

/-- a test that takes the `then` branch -/
theorem Loads.ite_pos {α} {P} {c : Prop} [Decidable c] {L1 L2 : Elems → Outcome (α × Elems)} {s x}
    (hc : c) (h : Loads P L1 s x) : Loads P (fun r => if c then L1 r else L2 r) s x := by
  simp only [if_pos hc]; exact h

/-- the end of a sequence, with the returned value stated up to an equation -/
theorem Loads.ret' {α} {P} {v x : α} (h : v = x) : Loads P (fun r => (pure (v, r) : Outcome (α × Elems))) [] x :=
  h ▸ Loads.ret v

/-- codec-level form of the sequencing principle: two fields back to back -/
def seqC {α β} (c1 : Codec α) (c2 : Codec β) : Codec (α × β) where
  ser p := c1.ser p.1 ++ c2.ser p.2
  load es := do let (a, r) ← c1.load es; let (b, r) ← c2.load r; return ((a, b), r)

theorem seqC_lawfulP {α β} {P} {c1 : Codec α} {c2 : Codec β} {W1 : α → Prop} {W2 : β → Prop}
    (h1 : LawfulP P c1 W1) (h2 : LawfulP P c2 W2) : LawfulP P (seqC c1 c2) (fun p => W1 p.1 ∧ W2 p.2) := by
  refine ⟨fun p hp => ?_⟩
  refine Loads.cast (s := c1.ser p.1 ++ (c2.ser p.2 ++ [])) ?_ (by simp [seqC]) rfl
  refine Loads.bind (h1.loads _ hp.1) ?_
  refine Loads.bind (h2.loads _ hp.2) ?_
  exact Loads.ret' rfl

theorem seqC_lawful {α β} {c1 : Codec α} {c2 : Codec β} {W1 : α → Prop} {W2 : β → Prop}
    (h1 : Lawful c1 W1) (h2 : Lawful c2 W2) : Lawful (seqC c1 c2) (fun p => W1 p.1 ∧ W2 p.2) :=
  (seqC_lawfulP h1.lawfulP h2.lawfulP).lawful

/-! ### primitive readers -/

theorem Loads.readElem {P} (hP : P (.err .eof)) (w : Word) : Loads P readElem [w] w := by
  refine ⟨fun _ => rfl, fun k hk => ⟨_, hP, ?_⟩⟩
  have : k = 0 := by simpa using hk
  subst this; rfl

theorem readN_append {n : Nat} {ws : List Word} (h : ws.length = n) (r : Elems) :
    readN n (ws ++ r) = ok (ws, r) := by
  subst h
  simp [readN]

theorem readN_short {n : Nat} {es : Elems} (h : es.length < n) : readN n es = fault (.err .eof) := by
  simp [readN]; omega

theorem Loads.readN {P} (hP : P (.err .eof)) {n : Nat} {ws : List Word} (h : ws.length = n) :
    Loads P (readN n) ws ws := by
  refine ⟨readN_append h, fun k hk => ⟨_, hP, readN_short ?_⟩⟩
  rw [List.length_take]; omega

theorem toNat_ofNat64 {n : Nat} (h : n < 2 ^ 64) : (BitVec.ofNat 64 n).toNat = n := by
  rw [BitVec.toNat_ofNat, Nat.mod_eq_of_lt h]

theorem isEof_eof : IsEof (.err .eof) := rfl

/-! ### 1. items -/

theorem u64C_loads {P} (hP : P (.err .eof)) (w : Word) : Loads P u64C.load (u64C.ser w) w :=
  Loads.readElem hP w

theorem usizeC_loads {P} (hP : P (.err .eof)) {n : Nat} (h : n < 2 ^ 64) :
    Loads P usizeC.load [BitVec.ofNat 64 n] n := by
  refine Loads.cast (s := [BitVec.ofNat 64 n] ++ []) ?_ rfl rfl
  refine Loads.bind (Loads.readElem hP _) ?_
  exact Loads.ret' (toNat_ofNat64 h)

theorem pairC_loads {P} (hP : P (.err .eof)) (p : Word × Word) : Loads P pairC.load (pairC.ser p) p := by
  refine Loads.cast (s := [p.1] ++ ([p.2] ++ [])) ?_ rfl rfl
  refine Loads.bind (Loads.readElem hP _) ?_
  refine Loads.bind (Loads.readElem hP _) ?_
  exact Loads.ret' rfl

theorem u64C_lawfulEof : LawfulP IsEof u64C (fun _ => True) := ⟨fun w _ => u64C_loads isEof_eof w⟩
theorem usizeC_lawfulEof : LawfulP IsEof usizeC (fun n => n < 2 ^ 64) := ⟨fun _ h => usizeC_loads isEof_eof h⟩
theorem pairC_lawfulEof : LawfulP IsEof pairC (fun _ => True) := ⟨fun p _ => pairC_loads isEof_eof p⟩

theorem u64C_lawful : Lawful u64C (fun _ => True) := u64C_lawfulEof.lawful
theorem usizeC_lawful : Lawful usizeC (fun n => n < 2 ^ 64) := usizeC_lawfulEof.lawful
theorem pairC_lawful : Lawful pairC (fun _ => True) := pairC_lawfulEof.lawful

/-! ### 2. vectors of items -/

theorem vecU64C_loads {P} (hP : P (.err .eof)) {a : Array Word} (h : a.size < 2 ^ 64) :
    Loads P vecU64C.load (vecU64C.ser a) a := by
  refine Loads.cast (s := [BitVec.ofNat 64 a.size] ++ (a.toList ++ [])) ?_ (by simp [vecU64C]) rfl
  refine Loads.bind (Loads.readElem hP _) ?_
  refine Loads.bind (Loads.readN hP ?_) ?_
  · rw [toNat_ofNat64 h]; simp
  · exact Loads.ret' (by simp)

theorem pairsOf_flatMap (l : List (Word × Word)) : pairsOf (l.flatMap fun p => [p.1, p.2]) = l := by
  induction l with
  | nil => rfl
  | cons p l ih => simp [List.flatMap_cons, pairsOf, ih]

theorem length_flatMap_pair (l : List (Word × Word)) :
    (l.flatMap fun p => [p.1, p.2]).length = 2 * l.length := by
  induction l with
  | nil => rfl
  | cons p l ih => simp [List.flatMap_cons, ih]; omega

theorem vecPairC_loads {P} (hP : P (.err .eof)) {a : Array (Word × Word)} (h : a.size < 2 ^ 64) :
    Loads P vecPairC.load (vecPairC.ser a) a := by
  refine Loads.cast (s := [BitVec.ofNat 64 a.size] ++ ((a.toList.flatMap fun p => [p.1, p.2]) ++ [])) ?_
    (by simp [vecPairC]) rfl
  refine Loads.bind (Loads.readElem hP _) ?_
  refine Loads.bind (Loads.readN hP ?_) ?_
  · rw [toNat_ofNat64 h, length_flatMap_pair]; simp
  · exact Loads.ret' (by simp [pairsOf_flatMap])

theorem vecU64C_lawfulEof : LawfulP IsEof vecU64C (fun a => a.size < 2 ^ 64) :=
  ⟨fun _ h => vecU64C_loads isEof_eof h⟩
theorem vecPairC_lawfulEof : LawfulP IsEof vecPairC (fun a => a.size < 2 ^ 64) :=
  ⟨fun _ h => vecPairC_loads isEof_eof h⟩
theorem vecU64C_lawful : Lawful vecU64C (fun a => a.size < 2 ^ 64) := vecU64C_lawfulEof.lawful
theorem vecPairC_lawful : Lawful vecPairC (fun a => a.size < 2 ^ 64) := vecPairC_lawfulEof.lawful

/-! ### 4. Option -/

/-- a present value is valid, and its serialization is non-empty and its length fits the length prefix -/
def optWF {α} (c : Codec α) (W : α → Prop) : Option α → Prop
  | none => True
  | some x => W x ∧ 0 < (c.ser x).length ∧ (c.ser x).length < 2 ^ 64

theorem optionC_loads {α} {P} (hP : P (.err .eof)) {c : Codec α} {W : α → Prop}
    (hc : ∀ x, W x → Loads P c.load (c.ser x) x) {o : Option α} (ho : optWF c W o) :
    Loads P (optionC c).load ((optionC c).ser o) o := by
  cases o with
  | none =>
    refine Loads.cast (s := [0] ++ []) ?_ rfl rfl
    refine Loads.bind (Loads.readElem hP _) ?_
    exact Loads.ite_pos rfl (Loads.ret _)
  | some x =>
    obtain ⟨hx, hpos, hlt⟩ := ho
    refine Loads.cast (s := [BitVec.ofNat 64 (c.ser x).length] ++ (c.ser x ++ [])) ?_ (by simp [optionC]) rfl
    refine Loads.bind (Loads.readElem hP _) ?_
    refine Loads.ite_neg (by rw [toNat_ofNat64 hlt]; omega) ?_
    refine Loads.bind (hc x hx) ?_
    exact Loads.ret _

theorem optionC_lawfulP {α} {P} (hP : P (.err .eof)) {c : Codec α} {W : α → Prop} (h : LawfulP P c W) :
    LawfulP P (optionC c) (optWF c W) := ⟨fun _ ho => optionC_loads hP h.loads ho⟩

theorem optionC_lawful {α} {c : Codec α} {W : α → Prop} (h : Lawful c W) :
    Lawful (optionC c) (fun o => match o with
      | none => True
      | some x => W x ∧ 0 < (c.ser x).length ∧ (c.ser x).length < 2 ^ 64) := by
  refine ((optionC_lawfulP (P := AnyFault) trivial h.lawfulP).weaken ?_).lawful
  intro o ho; cases o <;> exact ho

theorem skipOptionSpec_ser {α} (c : Codec α) (W : α → Prop) (o : Option α) (r : Elems) (ho : optWF c W o) :
    skipOptionSpec ((optionC c).ser o ++ r) = ok r := by
  cases o with
  | none => rfl
  | some x =>
    obtain ⟨_, _, hlt⟩ := ho
    simp [skipOptionSpec, optionC, readElem, toNat_ofNat64 hlt]

theorem skipOptionSpec_pfx {α} (c : Codec α) (W : α → Prop) (o : Option α) (ho : optWF c W o) (k : Nat)
    (hk : k < ((optionC c).ser o).length) :
    skipOptionSpec (((optionC c).ser o).take k) = fault (.err .eof) := by
  cases k with
  | zero => rfl
  | succ k =>
    cases o with
    | none => simp [optionC] at hk
    | some x =>
      obtain ⟨_, _, hlt⟩ := ho
      simp [optionC] at hk
      simp [skipOptionSpec, optionC, readElem, toNat_ofNat64 hlt, List.length_take]
      omega

theorem skipOptionSpec_pfx' {α} (c : Codec α) (W : α → Prop) (o : Option α) (ho : optWF c W o) (k : Nat)
    (hk : k < ((optionC c).ser o).length) :
    ∃ e, skipOptionSpec (((optionC c).ser o).take k) = fault e := ⟨_, skipOptionSpec_pfx c W o ho k hk⟩

/-- the as-coded `skip_option` accepts a truncated stream: the prefix says 3 elements follow, only 1 does -/
theorem skipOptionImpl_truncated : skipOptionImpl [3, 7] = ok [] := by decide

/-- ... which the specified version refuses -/
theorem skipOptionSpec_truncated : skipOptionSpec [3, 7] = fault (.err .eof) := by decide

/-! ### 5–9. structures -/

def rawVecWF (v : RawVec) : Prop := v.WF ∧ v.len < 2 ^ 64

def intVecWF (v : IntVec) : Prop := v.WF ∧ v.len < 2 ^ 64 ∧ v.width < 2 ^ 64 ∧ v.data.len < 2 ^ 64

def rankSupWF (s : RankSup) : Prop := s.samples.size < 2 ^ 64

def selSupWF (s : SelSup) : Prop :=
  intVecWF s.samples ∧ intVecWF s.long ∧ intVecWF s.short ∧
  s.superblocks = s.longSuperblocks + s.shortSuperblocks

theorem rawVecC_loads {P} (hP : P (.err .eof)) {v : RawVec} (h : rawVecWF v) :
    Loads P rawVecC.load (rawVecC.ser v) v := by
  obtain ⟨⟨hsz, _⟩, hlen⟩ := h
  refine Loads.cast (s := [BitVec.ofNat 64 v.len] ++ (vecU64C.ser v.data ++ [])) ?_ (by simp [rawVecC]) rfl
  refine Loads.bind (usizeC_loads hP hlen) ?_
  refine Loads.bind (vecU64C_loads hP (by omega)) ?_
  refine Loads.ite_neg (by omega) ?_
  exact Loads.ret' rfl

theorem intVecC_loads {P} (hP : P (.err .eof)) {v : IntVec} (h : intVecWF v) :
    Loads P intVecC.load (intVecC.ser v) v := by
  obtain ⟨⟨_, _, hdl, hd⟩, hlen, hw, hdlen⟩ := h
  refine Loads.cast (s := [BitVec.ofNat 64 v.len] ++ ([BitVec.ofNat 64 v.width] ++ (rawVecC.ser v.data ++ [])))
    ?_ (by simp [intVecC]) rfl
  refine Loads.bind (usizeC_loads hP hlen) ?_
  refine Loads.bind (usizeC_loads hP hw) ?_
  refine Loads.bind (rawVecC_loads hP ⟨hd, hdlen⟩) ?_
  refine Loads.ite_neg (by omega) ?_
  exact Loads.ret' rfl

theorem rankSupC_loads {P} (hP : P (.err .eof)) {s : RankSup} (h : rankSupWF s) :
    Loads P rankSupC.load (rankSupC.ser s) s := by
  refine Loads.cast (s := vecPairC.ser s.samples ++ []) ?_ (by simp [rankSupC]) rfl
  refine Loads.bind (vecPairC_loads hP h) ?_
  exact Loads.ret' rfl

theorem selSupC_loads {P} (hP : P (.err .eof)) {s : SelSup} (h : selSupWF s) :
    Loads P selSupC.load (selSupC.ser s) s := by
  obtain ⟨h1, h2, h3, hsb⟩ := h
  refine Loads.cast (s := intVecC.ser s.samples ++ (intVecC.ser s.long ++ (intVecC.ser s.short ++ [])))
    ?_ (by simp [selSupC]) rfl
  refine Loads.bind (intVecC_loads hP h1) ?_
  refine Loads.bind (intVecC_loads hP h2) ?_
  refine Loads.bind (intVecC_loads hP h3) ?_
  refine Loads.ite_neg (fun hne => hne hsb) ?_
  exact Loads.ret' rfl

theorem rawVecC_lawfulEof : LawfulP IsEof rawVecC rawVecWF := ⟨fun _ h => rawVecC_loads isEof_eof h⟩
theorem intVecC_lawfulEof : LawfulP IsEof intVecC intVecWF := ⟨fun _ h => intVecC_loads isEof_eof h⟩
theorem rankSupC_lawfulEof : LawfulP IsEof rankSupC rankSupWF := ⟨fun _ h => rankSupC_loads isEof_eof h⟩
theorem selSupC_lawfulEof : LawfulP IsEof selSupC selSupWF := ⟨fun _ h => selSupC_loads isEof_eof h⟩

theorem rawVecC_lawful : Lawful rawVecC (fun v => v.WF ∧ v.len < 2 ^ 64) := rawVecC_lawfulEof.lawful
theorem intVecC_lawful :
    Lawful intVecC (fun v => v.WF ∧ v.len < 2 ^ 64 ∧ v.width < 2 ^ 64 ∧ v.data.len < 2 ^ 64) :=
  intVecC_lawfulEof.lawful
theorem rankSupC_lawful : Lawful rankSupC (fun s => s.samples.size < 2 ^ 64) := rankSupC_lawfulEof.lawful
theorem selSupC_lawful : Lawful selSupC selSupWF := selSupC_lawfulEof.lawful

/-- The serialization invariant of a `BitVector`, for all 8 combinations of present supports at once.
The serialization of a present support is never empty (see `rankSupC_ser_pos`, `selSupC_ser_pos`), so only the
upper length bound (the length prefix of the option must fit a `usize`) is required. -/
def bitVectorWF (b : BitVector) : Prop :=
  rawVecWF b.data ∧ b.ones ≤ b.data.len ∧ b.ones < 2 ^ 64 ∧
  (∀ s, b.rank = some s →
    rankSupWF s ∧ s.samples.size = (b.data.len + 511) / 512 ∧ (rankSupC.ser s).length < 2 ^ 64) ∧
  (∀ s, b.select = some s →
    selSupWF s ∧ s.superblocks = (b.ones + 4095) / 4096 ∧ (selSupC.ser s).length < 2 ^ 64) ∧
  (∀ s, b.selectZero = some s →
    selSupWF s ∧ s.superblocks = (b.data.len - b.ones + 4095) / 4096 ∧ (selSupC.ser s).length < 2 ^ 64)

theorem rankSupC_ser_pos (s : RankSup) : 0 < (rankSupC.ser s).length := by simp [rankSupC, vecPairC]
theorem selSupC_ser_pos (s : SelSup) : 0 < (selSupC.ser s).length := by simp [selSupC, intVecC]

theorem bitVectorC_loads {P} (hP : P (.err .eof)) {b : BitVector} (h : bitVectorWF b) :
    Loads P bitVectorC.load (bitVectorC.ser b) b := by
  obtain ⟨hd, hle, hones, hr, hs, hz⟩ := h
  have hr' : optWF rankSupC rankSupWF b.rank := by
    cases hb : b.rank with
    | none => trivial
    | some s => exact ⟨(hr s hb).1, rankSupC_ser_pos s, (hr s hb).2.2⟩
  have hs' : optWF selSupC selSupWF b.select := by
    cases hb : b.select with
    | none => trivial
    | some s => exact ⟨(hs s hb).1, selSupC_ser_pos s, (hs s hb).2.2⟩
  have hz' : optWF selSupC selSupWF b.selectZero := by
    cases hb : b.selectZero with
    | none => trivial
    | some s => exact ⟨(hz s hb).1, selSupC_ser_pos s, (hz s hb).2.2⟩
  refine Loads.cast (s := [BitVec.ofNat 64 b.ones] ++ (rawVecC.ser b.data ++ ((optionC rankSupC).ser b.rank ++
    ((optionC selSupC).ser b.select ++ ((optionC selSupC).ser b.selectZero ++ [])))))
    ?_ (by simp [bitVectorC]) rfl
  refine Loads.bind (usizeC_loads hP hones) ?_
  refine Loads.bind (rawVecC_loads hP hd) ?_
  refine Loads.ite_neg (by omega) ?_
  refine Loads.bind (optionC_loads hP (fun _ => rankSupC_loads hP) hr') ?_
  refine Loads.ite_neg ?_ ?_
  · cases hb : b.rank with
    | none => simp
    | some s => simp [(hr s hb).2.1]
  refine Loads.bind (optionC_loads hP (fun _ => selSupC_loads hP) hs') ?_
  refine Loads.ite_neg ?_ ?_
  · cases hb : b.select with
    | none => simp
    | some s => simp [(hs s hb).2.1]
  refine Loads.bind (optionC_loads hP (fun _ => selSupC_loads hP) hz') ?_
  refine Loads.ite_neg ?_ ?_
  · cases hb : b.selectZero with
    | none => simp
    | some s => simp [(hz s hb).2.1]
  exact Loads.ret' rfl

theorem bitVectorC_lawfulEof : LawfulP IsEof bitVectorC bitVectorWF := ⟨fun _ h => bitVectorC_loads isEof_eof h⟩
theorem bitVectorC_lawful : Lawful bitVectorC bitVectorWF := bitVectorC_lawfulEof.lawful

/-! ### the byte view -/

theorem wordToBytes_eq (w : Word) : wordToBytes w =
    [UInt8.ofNat (w.toNat % 256), UInt8.ofNat (w.toNat / 2 ^ 8 % 256), UInt8.ofNat (w.toNat / 2 ^ 16 % 256),
     UInt8.ofNat (w.toNat / 2 ^ 24 % 256), UInt8.ofNat (w.toNat / 2 ^ 32 % 256),
     UInt8.ofNat (w.toNat / 2 ^ 40 % 256), UInt8.ofNat (w.toNat / 2 ^ 48 % 256),
     UInt8.ofNat (w.toNat / 2 ^ 56 % 256)] := by
  simp [wordToBytes, List.range, List.range.loop, Nat.shiftRight_eq_div_pow]

theorem length_wordToBytes (w : Word) : (wordToBytes w).length = 8 := by simp [wordToBytes]

theorem bytesToNat_wordToBytes (w : Word) : bytesToNat (wordToBytes w) = w.toNat := by
  have h := w.isLt
  rw [wordToBytes_eq]
  simp only [bytesToNat, UInt8.toNat_ofNat']
  omega

theorem exists_of_length_eq_8 {β} {l : List β} (h : l.length = 8) :
    ∃ b0 b1 b2 b3 b4 b5 b6 b7, l = [b0, b1, b2, b3, b4, b5, b6, b7] := by
  match l, h with
  | [b0, b1, b2, b3, b4, b5, b6, b7], _ => exact ⟨b0, b1, b2, b3, b4, b5, b6, b7, rfl⟩

theorem ofBytes_append8 {bs : List UInt8} (h : bs.length = 8) (rest : List UInt8) :
    ofBytes (bs ++ rest) = BitVec.ofNat 64 (bytesToNat bs) :: ofBytes rest := by
  obtain ⟨b0, b1, b2, b3, b4, b5, b6, b7, rfl⟩ := exists_of_length_eq_8 h
  rfl

theorem ofBytes_short {bs : List UInt8} (h : bs.length < 8) : ofBytes bs = [] := by
  match bs, h with
  | [], _ => rfl
  | [_], _ => rfl
  | [_, _], _ => rfl
  | [_, _, _], _ => rfl
  | [_, _, _, _], _ => rfl
  | [_, _, _, _, _], _ => rfl
  | [_, _, _, _, _, _], _ => rfl
  | [_, _, _, _, _, _, _], _ => rfl
  | _ :: _ :: _ :: _ :: _ :: _ :: _ :: _ :: _, h => simp at h; omega

theorem ofBytes_wordToBytes_append (w : Word) (rest : List UInt8) :
    ofBytes (wordToBytes w ++ rest) = w :: ofBytes rest := by
  rw [ofBytes_append8 (length_wordToBytes w), bytesToNat_wordToBytes]
  simp

theorem toBytes_cons (w : Word) (es : Elems) : toBytes (w :: es) = wordToBytes w ++ toBytes es := rfl

theorem length_toBytes (es : Elems) : (toBytes es).length = 8 * es.length := by
  induction es with
  | nil => rfl
  | cons w es ih => rw [toBytes_cons, List.length_append, length_wordToBytes, ih, List.length_cons]; omega

theorem ofBytes_take (es : Elems) (k : Nat) : ofBytes ((toBytes es).take k) = es.take (k / 8) := by
  induction es generalizing k with
  | nil => simp [toBytes, ofBytes]
  | cons w es ih =>
    rw [toBytes_cons, List.take_append, length_wordToBytes]
    by_cases hk : k < 8
    · have h0 : k - 8 = 0 := by omega
      have h1 : k / 8 = 0 := by omega
      rw [h0, h1, List.take_zero, List.append_nil, List.take_zero]
      exact ofBytes_short (by rw [List.length_take, length_wordToBytes]; omega)
    · have h1 : k / 8 = (k - 8) / 8 + 1 := by omega
      rw [List.take_of_length_le (by rw [length_wordToBytes]; omega), ofBytes_wordToBytes_append, ih, h1,
        List.take_succ_cons]

theorem ofBytes_toBytes (es : Elems) : ofBytes (toBytes es) = es := by
  have h := ofBytes_take es (8 * es.length)
  rw [List.take_of_length_le (by rw [length_toBytes]; omega)] at h
  rw [h, List.take_of_length_le (by omega)]

/-! ### 10. byte vectors and strings -/

/-- little-endian digits, structurally -/
def natToBytes : Nat → Nat → List UInt8
  | 0, _ => []
  | k + 1, n => UInt8.ofNat (n % 256) :: natToBytes k (n / 256)

theorem wordToBytes_eq_natToBytes (w : Word) : wordToBytes w = natToBytes 8 w.toNat := by
  rw [wordToBytes_eq]
  simp [natToBytes, Nat.div_div_eq_div_mul]

theorem bytesToNat_lt (l : List UInt8) : bytesToNat l < 256 ^ l.length := by
  induction l with
  | nil => simp [bytesToNat]
  | cons b l ih =>
    have hb := b.toNat_lt
    simp only [bytesToNat, List.length_cons, Nat.pow_succ]
    generalize bytesToNat l = X at *
    generalize 256 ^ l.length = p at *
    generalize b.toNat = n at *
    omega

theorem natToBytes_bytesToNat (l : List UInt8) : natToBytes l.length (bytesToNat l) = l := by
  induction l with
  | nil => rfl
  | cons b l ih =>
    have hb := b.toNat_lt
    have h1 : (b.toNat + 256 * bytesToNat l) % 256 = b.toNat := by
      generalize bytesToNat l = X at *
      generalize b.toNat = n at *
      omega
    have h2 : (b.toNat + 256 * bytesToNat l) / 256 = bytesToNat l := by
      generalize bytesToNat l = X at *
      generalize b.toNat = n at *
      omega
    simp only [List.length_cons, bytesToNat, natToBytes, h1, h2, ih, UInt8.ofNat_toNat]

theorem wordToBytes_bytesToNat8 {l : List UInt8} (h : l.length = 8) :
    wordToBytes (BitVec.ofNat 64 (bytesToNat l)) = l := by
  have hlt : bytesToNat l < 2 ^ 64 := by
    have := bytesToNat_lt l
    rw [h] at this; exact this
  rw [wordToBytes_eq_natToBytes, toNat_ofNat64 hlt, ← h]
  exact natToBytes_bytesToNat l

theorem bytesToNat_append_zeros (l : List UInt8) (n : Nat) :
    bytesToNat (l ++ List.replicate n 0) = bytesToNat l := by
  induction l with
  | nil =>
    induction n with
    | zero => rfl
    | succ n ih => simp only [List.nil_append] at ih; simp [List.replicate_succ, bytesToNat, ih]
  | cons b l ih => simp only [List.cons_append, bytesToNat, ih]

/-- a word packed from at most 8 bytes unpacks to those bytes followed by zero padding -/
theorem wordToBytes_bytesToNat {l : List UInt8} (h : l.length ≤ 8) :
    wordToBytes (BitVec.ofNat 64 (bytesToNat l)) = l ++ List.replicate (8 - l.length) 0 := by
  rw [← bytesToNat_append_zeros l (8 - l.length)]
  exact wordToBytes_bytesToNat8 (by rw [List.length_append, List.length_replicate]; omega)

theorem length_packBytesAux (fuel : Nat) (bs : List UInt8) (h : bs.length ≤ fuel) :
    (packBytesAux fuel bs).length = (bs.length + 7) / 8 := by
  induction fuel generalizing bs with
  | zero =>
    have : bs = [] := List.eq_nil_of_length_eq_zero (by omega)
    subst this; rfl
  | succ fuel ih =>
    cases bs with
    | nil => rfl
    | cons b bs =>
      rw [packBytesAux.eq_3 _ _ (by simp), List.length_cons, ih _ (by rw [List.length_drop]; simp at h ⊢; omega), List.length_drop]
      simp only [List.length_cons]; omega

theorem length_packBytes (bs : List UInt8) : (packBytes bs).length = (bs.length + 7) / 8 :=
  length_packBytesAux _ bs (Nat.le_refl _)

theorem toBytes_packBytesAux_take (fuel : Nat) (bs : List UInt8) (h : bs.length ≤ fuel) :
    (toBytes (packBytesAux fuel bs)).take bs.length = bs := by
  induction fuel generalizing bs with
  | zero =>
    have : bs = [] := List.eq_nil_of_length_eq_zero (by omega)
    subst this; rfl
  | succ fuel ih =>
    cases bs with
    | nil => rfl
    | cons b bs =>
      have ih' := ih ((b :: bs).drop 8) (by rw [List.length_drop]; simp at h ⊢; omega)
      rw [packBytesAux.eq_3 _ _ (by simp), toBytes_cons, List.take_append, length_wordToBytes]
      by_cases hle : (b :: bs).length ≤ 8
      · rw [wordToBytes_bytesToNat (by rw [List.length_take]; omega), List.take_of_length_le hle,
          List.take_append_of_le_length (Nat.le_refl _), List.take_length,
          show (b :: bs).length - 8 = 0 by omega, List.take_zero, List.append_nil]
      · rw [List.length_drop] at ih'
        rw [wordToBytes_bytesToNat8 (by rw [List.length_take]; omega), ih',
          List.take_of_length_le (by rw [List.length_take]; omega), List.take_append_drop]

/-- the fact the byte-vector loader relies on: the content is the first `n` bytes of the packed elements -/
theorem toBytes_packBytes_take (bs : List UInt8) : (toBytes (packBytes bs)).take bs.length = bs :=
  toBytes_packBytesAux_take _ bs (Nat.le_refl _)

theorem bytesC_loads {P} (hP : P (.err .eof)) {bs : List UInt8} (h : bs.length < 2 ^ 64) :
    Loads P bytesC.load (bytesC.ser bs) bs := by
  refine Loads.cast (s := [BitVec.ofNat 64 bs.length] ++ (packBytes bs ++ [])) ?_ (by simp [bytesC]) rfl
  refine Loads.bind (Loads.readElem hP _) ?_
  refine Loads.bind (Loads.readN hP ?_) ?_
  · rw [toNat_ofNat64 h, length_packBytes]
  · refine Loads.ret' ?_
    rw [toNat_ofNat64 h]; exact toBytes_packBytes_take bs

theorem stringC_loads {P} (hP : P (.err .eof)) (valid : List UInt8 → Bool) {bs : List UInt8}
    (h : bs.length < 2 ^ 64) (hv : valid bs = true) :
    Loads P (stringC valid).load ((stringC valid).ser bs) bs := by
  refine Loads.cast (s := bytesC.ser bs ++ []) ?_ (by simp [stringC]) rfl
  refine Loads.bind (bytesC_loads hP h) ?_
  exact Loads.ite_pos hv (Loads.ret _)

theorem bytesC_lawfulEof : LawfulP IsEof bytesC (fun bs => bs.length < 2 ^ 64) :=
  ⟨fun _ h => bytesC_loads isEof_eof h⟩
theorem stringC_lawfulEof (valid : List UInt8 → Bool) :
    LawfulP IsEof (stringC valid) (fun bs => bs.length < 2 ^ 64 ∧ valid bs = true) :=
  ⟨fun _ h => stringC_loads isEof_eof valid h.1 h.2⟩
theorem bytesC_lawful : Lawful bytesC (fun bs => bs.length < 2 ^ 64) := bytesC_lawfulEof.lawful
theorem stringC_lawful (valid : List UInt8 → Bool) :
    Lawful (stringC valid) (fun bs => bs.length < 2 ^ 64 ∧ valid bs = true) := (stringC_lawfulEof valid).lawful

/-! ### 11. corollaries: concatenation and the byte view -/

/-- two values written back to back: the first loads and leaves exactly the second's serialization -/
theorem load_concat {α β} {c1 : Codec α} {W1 : α → Prop} (h1 : Lawful c1 W1) (c2 : Codec β)
    (x : α) (y : β) (r : Elems) (hx : W1 x) :
    c1.load (c1.ser x ++ c2.ser y ++ r) = ok (x, c2.ser y ++ r) := by
  rw [List.append_assoc]; exact h1.roundtrip x _ hx

/-- ... and loading both in sequence returns both values and the rest -/
theorem load_concat_seq {α β} {c1 : Codec α} {c2 : Codec β} {W1 : α → Prop} {W2 : β → Prop}
    (h1 : Lawful c1 W1) (h2 : Lawful c2 W2) (x : α) (y : β) (r : Elems) (hx : W1 x) (hy : W2 y) :
    (do let (a, r1) ← c1.load (c1.ser x ++ c2.ser y ++ r)
        let (b, r2) ← c2.load r1
        pure ((a, b), r2)) = ok ((x, y), r) := by
  rw [load_concat h1 c2 x y r hx, bind_ok]
  show (c2.load (c2.ser y ++ r) >>= _) = _
  rw [h2.roundtrip y r hy]; rfl

/-- the byte-level roundtrip: loading the bytes of a serialization followed by the bytes of anything -/
theorem roundtrip_bytes {α} {c : Codec α} {W : α → Prop} (h : Lawful c W) (x : α) (hx : W x) (r : Elems) :
    c.load (ofBytes (toBytes (c.ser x ++ r))) = ok (x, r) := by
  rw [ofBytes_toBytes]; exact h.roundtrip x r hx

/-- the byte-level prefix law: every strict byte prefix of a serialization is refused -/
theorem pfx_bytes {α} {c : Codec α} {W : α → Prop} (h : Lawful c W) (x : α) (hx : W x) (k : Nat)
    (hk : k < 8 * (c.ser x).length) (y : α) (r : Elems) :
    c.load (ofBytes ((toBytes (c.ser x)).take k)) ≠ ok (y, r) := by
  rw [ofBytes_take]
  exact h.pfx x (k / 8) hx (by omega) y r

theorem pfx_bytes_eof {α} {c : Codec α} {W : α → Prop} (h : LawfulP IsEof c W) (x : α) (hx : W x) (k : Nat)
    (hk : k < 8 * (c.ser x).length) :
    c.load (ofBytes ((toBytes (c.ser x)).take k)) = fault (.err .eof) := by
  rw [ofBytes_take]
  exact h.pfx_eof x (k / 8) hx (by omega)

end Sds
