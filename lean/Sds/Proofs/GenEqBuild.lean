/-
Proofs/GenEqBuild: the two builders (`RLBuilder` of rl_vector.rs, `SparseBuilder` of sparse_vector.rs) and
`SparseVector::select` as TRANSLATED statement by statement from the source (Generated/FnsBuild.lean) are equal to the
hand-written model definitions (Model/RL.lean, Model/Sparse.lean) — under explicit hypotheses.  The model computes in
`Nat` where the code computes in `usize`, so every hypothesis is either a "no overflow" bound on builder fields (each
follows from the builder invariant plus "all lengths < 2^64") or is shown to be necessary by a concrete counterexample.
-/
import Sds.Generated.FnsBuild
import Sds.Proofs.GenFns
import Sds.Proofs.GenEqBits
import Sds.Proofs.GenEqVec
import Sds.Proofs.GenEqIdx
import Sds.Proofs.RL
import Sds.Proofs.Builders

namespace Sds.GenEq
open Sds Outcome Generated

/-! ### rl_vector.rs : RLBuilder -/

theorem rlb_count_zeros_eq (m : Mode) (b : RLBuilder) :
    gen_RLBuilder_count_zeros m b = b.countZeros m := by
  unfold gen_RLBuilder_count_zeros RLBuilder.countZeros
  cases subM m b.len b.ones <;> rfl

/-- `code_len`: `bit_len ≤ 64`, so `div_round_up(bit_len, 3)` cannot overflow -/
theorem rlb_code_len_eq (m : Mode) (v : Nat) :
    gen_RLBuilder_code_len m v = ok (RLBuilder.codeLen v) := by
  unfold gen_RLBuilder_code_len RLBuilder.codeLen
  have hb : bitLen (BitVec.ofNat 64 v) ≤ 64 := by unfold bitLen; omega
  have h1 : addM m (bitLen (BitVec.ofNat 64 v)) 3 = ok (bitLen (BitVec.ofNat 64 v) + 3) :=
    addM_ok (by rw [U64_eq]; omega)
  have h2 : subM m (bitLen (BitVec.ofNat 64 v) + 3) 1 = ok (bitLen (BitVec.ofNat 64 v) + 3 - 1) :=
    subM_ok (by omega)
  simp [bit_len_eq, GenFns.div_round_up_eq, divRoundUp, h1, h2, Bind.bind, Outcome.bind, Pure.pure]

/-- The "no overflow" conditions of a `flush` with a pending run: what the model computes in `Nat` and the code in
`usize`.  (`b.tail ≤ b.run.1` is NOT among them: both sides compute the gap with the mode's subtraction.) -/
structure FlushBounds (b : RLBuilder) : Prop where
  /-- `self.data.len() + units_needed`, `units_needed ≤ 44` -/
  data_lt : b.data.len + 44 < U64
  /-- `self.samples.len() * 64` -/
  samples_lt : b.samples.size * 64 < U64
  /-- `self.ones - self.run.1` for the sample -/
  run_le_ones : b.run.2 ≤ b.ones
  /-- `self.tail = self.run.0 + self.run.1` -/
  run_end_lt : b.run.1 + b.run.2 < U64

/-- the bounds follow from the invariant of reachable builder states and one representation bound on the number of
samples (each sample stands for a block of 64 code units; `Inv` bounds `data.len` by `64 * samples.size`) -/
theorem FlushBounds.of_inv {b : RLBuilder} (h : b.Inv) (hs : 64 * b.samples.size + 44 < U64) : FlushBounds b := by
  have := h.data_le; have := h.run_end; have := h.len_lt
  exact ⟨by omega, by omega, h.run_le_ones, by omega⟩

/-- … and, for the states reachable through `try_set` / `set_len` (`RLBuilder.Abs` bundles `Inv` with the data-level
invariant `DInv`), the bound on the number of samples is itself a consequence of "all lengths < 2^64": `DInv` gives
`64 * (samples.size - 1) ≤ data.len`, and the bit length `4 * data.len` of the code units is a `usize` -/
theorem FlushBounds.of_dinv {b : RLBuilder} {done : List (List (Nat × Nat))} {cur : List (Nat × Nat)}
    (h : b.Inv) (hd : RLBuilder.DInv b done cur) (hraw : b.data.data.len < U64) : FlushBounds b := by
  apply FlushBounds.of_inv h
  have h1 := hd.size
  have h2 := hd.data_len
  have h3 : b.data.data.len = b.data.len * b.data.width := h.data_wf.2.2.1
  rw [h.data_w] at h3
  rw [U64_eq] at hraw ⊢
  split at h1 <;> omega

/-- `flush`, weakest form: the bounds are only needed when there is a pending run -/
theorem rlb_flush_eq' (m : Mode) (b : RLBuilder) (h : b.run.2 ≠ 0 → FlushBounds b) :
    gen_RLBuilder_flush m b = b.flush m := by
  obtain ⟨len, ones, tail, ⟨r1, r2⟩, samples, data⟩ := b
  unfold gen_RLBuilder_flush RLBuilder.flush
  by_cases hr : r2 = 0
  · simp [hr, Pure.pure]
  · obtain ⟨hd, hs, ho, he⟩ := h hr
    simp only at hd hs ho he
    have hr' : ¬ r2 ≤ 0 := by omega
    simp only [hr, hr', decide_false, if_false, Bool.false_eq_true, Bind.bind, Outcome.bind, Pure.pure]
    cases hg : subM m r1 tail with
    | fault f => rfl
    | ok g =>
      have hc1 := RLBuilder.codeLen_le g
      have hc2 := RLBuilder.codeLen_le (r2 - 1)
      have e1 : subM m r2 1 = ok (r2 - 1) := subM_ok (by omega)
      have e2 : addM m (RLBuilder.codeLen g) (RLBuilder.codeLen (r2 - 1)) = ok _ :=
        addM_ok (by rw [U64_eq]; omega)
      have e3 : addM m data.len (RLBuilder.codeLen g + RLBuilder.codeLen (r2 - 1)) = ok _ := addM_ok (by omega)
      have e4 : mulM m samples.size 64 = ok _ := mulM_ok hs
      have e5 : subM m ones r2 = ok (ones - r2) := subM_ok ho
      have e6 : addM m r1 r2 = ok (r1 + r2) := addM_ok he
      simp only [rlb_code_len_eq, e1, e2, e3, e4]
      by_cases hc : data.len + (RLBuilder.codeLen g + RLBuilder.codeLen (r2 - 1)) > samples.size * 64
      · simp only [hc, decide_true, if_true, e5, e6]
      · simp only [hc, decide_false, if_false, Bool.false_eq_true, e6]

/-- `flush` under the explicit bounds -/
theorem rlb_flush_eq (m : Mode) (b : RLBuilder) (hd : b.data.len + 44 < U64) (hs : b.samples.size * 64 < U64)
    (ho : b.run.2 ≤ b.ones) (he : b.run.1 + b.run.2 < U64) :
    gen_RLBuilder_flush m b = b.flush m :=
  rlb_flush_eq' m b fun _ => ⟨hd, hs, ho, he⟩

/-- `flush` on reachable builder states -/
theorem rlb_flush_eq_of_inv (m : Mode) (b : RLBuilder) (h : b.Inv) (hs : 64 * b.samples.size + 44 < U64) :
    gen_RLBuilder_flush m b = b.flush m :=
  rlb_flush_eq' m b fun _ => FlushBounds.of_inv h hs

/-- `flush` on reachable builder states, with ghost block structure: only representation bounds are left -/
theorem rlb_flush_eq_of_dinv (m : Mode) (b : RLBuilder) {done : List (List (Nat × Nat))} {cur : List (Nat × Nat)}
    (h : b.Inv) (hd : RLBuilder.DInv b done cur) (hraw : b.data.data.len < U64) :
    gen_RLBuilder_flush m b = b.flush m :=
  rlb_flush_eq' m b fun _ => FlushBounds.of_dinv h hd hraw

/-- the fields of `FlushBounds` are necessary (all three states violate `RLBuilder.Inv` or a representation bound):
`run.2 > ones` — the code underflows in `self.ones - self.run.1`, the model records the truncated difference; -/
theorem rlb_flush_ne_ones :
    let b : RLBuilder := { len := 1, ones := 0, tail := 0, run := (0, 1) }
    gen_RLBuilder_flush .checked b = fault (.panic .overflow) ∧
    (b.flush .checked).toOption.map (·.samples) = some #[(0, 0)] := by
  decide

/-- … `run.1 + run.2 = 2^64` — the code overflows in the new `tail`, the model sets `tail = 2^64`; -/
theorem rlb_flush_ne_end :
    let b : RLBuilder := { len := U64, ones := 1, tail := 0, run := (U64 - 1, 1) }
    gen_RLBuilder_flush .checked b = fault (.panic .overflow) ∧
    (b.flush .checked).toOption.map (·.tail) = some U64 := by
  decide

/-- … `data.len = 2^64 - 1` — the code overflows in `self.data.len() + units_needed` -/
theorem rlb_flush_ne_data :
    let b : RLBuilder := { len := 1, ones := 1, tail := 0, run := (0, 1), data := ⟨U64 - 1, 4, RawVec.empty⟩ }
    gen_RLBuilder_flush .checked b = fault (.panic .overflow) ∧
    (b.flush .checked).isOk = true := by
  decide

/-- `set_run_unchecked`, weakest form: the only place where the model leaves `usize` arithmetic is the `flush` of a
pending run, which happens when a non-empty run is set that is not adjacent to `len` -/
theorem rlb_set_run_unchecked_eq' (m : Mode) (b : RLBuilder) (start len : Nat)
    (h : len ≠ 0 → start ≠ b.len → b.run.2 ≠ 0 → FlushBounds b) :
    gen_RLBuilder_set_run_unchecked m b start len = b.setRunUnchecked m start len := by
  unfold gen_RLBuilder_set_run_unchecked RLBuilder.setRunUnchecked
  by_cases hl : len = 0
  · obtain ⟨blen, ones, tail, run, samples, data⟩ := b
    simp [hl, Pure.pure]
  · have hl' : ¬ len ≤ 0 := by omega
    by_cases hs : start = b.len
    · obtain ⟨blen, ones, tail, ⟨r1, r2⟩, samples, data⟩ := b
      simp only at hs
      simp only [hl, hl', hs, decide_true, decide_false, if_true, if_false, Bool.false_eq_true,
        Bind.bind, Outcome.bind, Pure.pure]
      cases addM m blen len with
      | fault f => rfl
      | ok a =>
        cases addM m ones len with
        | fault f => rfl
        | ok c => cases addM m r2 len <;> rfl
    · have hfl := rlb_flush_eq' m b (h hl hs)
      have eta : (⟨b.len, b.ones, b.tail, b.run, b.samples, b.data⟩ : RLBuilder) = b := by cases b; rfl
      simp only [hl, hl', hs, decide_false, if_false, Bool.false_eq_true, Bind.bind, Outcome.bind, Pure.pure,
        eta, hfl]
      cases b.flush m with
      | fault f => rfl
      | ok b' =>
        obtain ⟨blen, ones, tail, run, samples, data⟩ := b'
        simp only
        cases addM m start len with
        | fault f => rfl
        | ok a => cases addM m ones len <;> rfl

theorem rlb_set_run_unchecked_eq (m : Mode) (b : RLBuilder) (start len : Nat)
    (hd : b.data.len + 44 < U64) (hs : b.samples.size * 64 < U64)
    (ho : b.run.2 ≤ b.ones) (he : b.run.1 + b.run.2 < U64) :
    gen_RLBuilder_set_run_unchecked m b start len = b.setRunUnchecked m start len :=
  rlb_set_run_unchecked_eq' m b start len fun _ _ _ => ⟨hd, hs, ho, he⟩

theorem rlb_set_run_unchecked_eq_of_inv (m : Mode) (b : RLBuilder) (start len : Nat) (h : b.Inv)
    (hs : 64 * b.samples.size + 44 < U64) :
    gen_RLBuilder_set_run_unchecked m b start len = b.setRunUnchecked m start len :=
  rlb_set_run_unchecked_eq' m b start len fun _ _ _ => FlushBounds.of_inv h hs

theorem rlb_set_run_unchecked_eq_of_dinv (m : Mode) (b : RLBuilder) (start len : Nat)
    {done : List (List (Nat × Nat))} {cur : List (Nat × Nat)}
    (h : b.Inv) (hd : RLBuilder.DInv b done cur) (hraw : b.data.data.len < U64) :
    gen_RLBuilder_set_run_unchecked m b start len = b.setRunUnchecked m start len :=
  rlb_set_run_unchecked_eq' m b start len fun _ _ _ => FlushBounds.of_dinv h hd hraw

/-- `set_bit_unchecked` = `set_run_unchecked(index, 1)` -/
theorem rlb_set_bit_unchecked_eq' (m : Mode) (b : RLBuilder) (i : Nat)
    (h : i ≠ b.len → b.run.2 ≠ 0 → FlushBounds b) :
    gen_RLBuilder_set_bit_unchecked m b i = b.setRunUnchecked m i 1 := by
  unfold gen_RLBuilder_set_bit_unchecked
  have eta : (⟨b.len, b.ones, b.tail, b.run, b.samples, b.data⟩ : RLBuilder) = b := by cases b; rfl
  simp only [eta, rlb_set_run_unchecked_eq' m b i 1 (fun _ => h), Bind.bind, Outcome.bind, Pure.pure]
  cases b.setRunUnchecked m i 1 with
  | fault f => rfl
  | ok b' => cases b'; rfl

theorem rlb_set_bit_unchecked_eq (m : Mode) (b : RLBuilder) (i : Nat)
    (hd : b.data.len + 44 < U64) (hs : b.samples.size * 64 < U64)
    (ho : b.run.2 ≤ b.ones) (he : b.run.1 + b.run.2 < U64) :
    gen_RLBuilder_set_bit_unchecked m b i = b.setRunUnchecked m i 1 :=
  rlb_set_bit_unchecked_eq' m b i fun _ _ => ⟨hd, hs, ho, he⟩

theorem rlb_set_bit_unchecked_eq_of_inv (m : Mode) (b : RLBuilder) (i : Nat) (h : b.Inv)
    (hs : 64 * b.samples.size + 44 < U64) :
    gen_RLBuilder_set_bit_unchecked m b i = b.setRunUnchecked m i 1 :=
  rlb_set_bit_unchecked_eq' m b i fun _ _ => FlushBounds.of_inv h hs

theorem rlb_set_bit_unchecked_eq_of_dinv (m : Mode) (b : RLBuilder) (i : Nat)
    {done : List (List (Nat × Nat))} {cur : List (Nat × Nat)}
    (h : b.Inv) (hd : RLBuilder.DInv b done cur) (hraw : b.data.data.len < U64) :
    gen_RLBuilder_set_bit_unchecked m b i = b.setRunUnchecked m i 1 :=
  rlb_set_bit_unchecked_eq' m b i fun _ _ => FlushBounds.of_dinv h hd hraw

/-- `try_set`.  `hlen` (the argument is a `usize`): the code computes `usize::MAX - len` with the mode's subtraction,
the model in `Nat`. -/
theorem rlb_try_set_eq' (m : Mode) (b : RLBuilder) (start len : Nat) (hlen : len < U64)
    (h : len ≠ 0 → start ≠ b.len → b.run.2 ≠ 0 → FlushBounds b) :
    gen_RLBuilder_try_set m b start len = b.trySet m start len := by
  unfold gen_RLBuilder_try_set RLBuilder.trySet
  have eta : (⟨b.len, b.ones, b.tail, b.run, b.samples, b.data⟩ : RLBuilder) = b := by cases b; rfl
  have e1 : subM m (U64 - 1) len = ok (U64 - 1 - len) := subM_ok (by omega)
  by_cases h1 : start < b.len
  · simp [h1]
  · by_cases h2 : U64 - 1 - len < start
    · simp [h1, h2, e1, Bind.bind, Outcome.bind]
    · simp only [h1, h2, e1, eta, rlb_set_run_unchecked_eq' m b start len h, decide_false, if_false,
        Bool.false_eq_true, Bind.bind, Outcome.bind, Pure.pure]
      cases b.setRunUnchecked m start len with
      | fault f => rfl
      | ok b' => cases b'; rfl

/-- `hlen` is necessary, but only violated by a `len` that is not a `usize` -/
theorem rlb_try_set_ne :
    gen_RLBuilder_try_set .checked {} 1 U64 = fault (.panic .overflow) ∧
    RLBuilder.trySet .checked {} 1 U64 = fault (.err .other) := by
  decide

theorem rlb_try_set_eq (m : Mode) (b : RLBuilder) (start len : Nat) (hlen : len < U64)
    (hd : b.data.len + 44 < U64) (hs : b.samples.size * 64 < U64)
    (ho : b.run.2 ≤ b.ones) (he : b.run.1 + b.run.2 < U64) :
    gen_RLBuilder_try_set m b start len = b.trySet m start len :=
  rlb_try_set_eq' m b start len hlen fun _ _ _ => ⟨hd, hs, ho, he⟩

theorem rlb_try_set_eq_of_inv (m : Mode) (b : RLBuilder) (start len : Nat) (hlen : len < U64) (h : b.Inv)
    (hs : 64 * b.samples.size + 44 < U64) :
    gen_RLBuilder_try_set m b start len = b.trySet m start len :=
  rlb_try_set_eq' m b start len hlen fun _ _ _ => FlushBounds.of_inv h hs

/-- `try_set` on the states reachable from the empty builder (`RLBuilder.Abs`): only "lengths are `usize`" is left -/
theorem rlb_try_set_eq_of_dinv (m : Mode) (b : RLBuilder) (start len : Nat) (hlen : len < U64)
    {done : List (List (Nat × Nat))} {cur : List (Nat × Nat)}
    (h : b.Inv) (hd : RLBuilder.DInv b done cur) (hraw : b.data.data.len < U64) :
    gen_RLBuilder_try_set m b start len = b.trySet m start len :=
  rlb_try_set_eq' m b start len hlen fun _ _ _ => FlushBounds.of_dinv h hd hraw

/-- `set_len` (the repaired one): flushes only when the vector grows -/
theorem rlb_set_len_eq' (m : Mode) (b : RLBuilder) (len : Nat)
    (h : len > b.len → b.run.2 ≠ 0 → FlushBounds b) :
    gen_RLBuilder_set_len m b len = b.setLen m len := by
  unfold gen_RLBuilder_set_len RLBuilder.setLen
  have eta : (⟨b.len, b.ones, b.tail, b.run, b.samples, b.data⟩ : RLBuilder) = b := by cases b; rfl
  by_cases hc : len > b.len
  · simp only [hc, eta, rlb_flush_eq' m b (h hc), decide_true, if_true, Bind.bind, Outcome.bind, Pure.pure]
    cases b.flush m with
    | fault f => rfl
    | ok b' => cases b'; rfl
  · simp only [hc, eta, decide_false, if_false, Bool.false_eq_true, Bind.bind, Outcome.bind, Pure.pure]

theorem rlb_set_len_eq (m : Mode) (b : RLBuilder) (len : Nat)
    (hd : b.data.len + 44 < U64) (hs : b.samples.size * 64 < U64)
    (ho : b.run.2 ≤ b.ones) (he : b.run.1 + b.run.2 < U64) :
    gen_RLBuilder_set_len m b len = b.setLen m len :=
  rlb_set_len_eq' m b len fun _ _ => ⟨hd, hs, ho, he⟩

theorem rlb_set_len_eq_of_inv (m : Mode) (b : RLBuilder) (len : Nat) (h : b.Inv)
    (hs : 64 * b.samples.size + 44 < U64) :
    gen_RLBuilder_set_len m b len = b.setLen m len :=
  rlb_set_len_eq' m b len fun _ _ => FlushBounds.of_inv h hs

theorem rlb_set_len_eq_of_dinv (m : Mode) (b : RLBuilder) (len : Nat)
    {done : List (List (Nat × Nat))} {cur : List (Nat × Nat)}
    (h : b.Inv) (hd : RLBuilder.DInv b done cur) (hraw : b.data.data.len < U64) :
    gen_RLBuilder_set_len m b len = b.setLen m len :=
  rlb_set_len_eq' m b len fun _ _ => FlushBounds.of_dinv h hd hraw

/-! ### sparse_vector.rs : SparseBuilder, `select` -/

theorem spb_is_multiset_eq (m : Mode) (b : SparseBuilder) :
    gen_SparseBuilder_is_multiset m b = ok (decide (b.increment = 0)) := rfl

theorem spb_capacity_eq (m : Mode) (b : SparseBuilder) : gen_SparseBuilder_capacity m b = ok b.capacity := rfl

theorem spb_universe_eq (m : Mode) (b : SparseBuilder) : gen_SparseBuilder_universe m b = ok b.univ := rfl

theorem spb_next_index_eq (m : Mode) (b : SparseBuilder) : gen_SparseBuilder_next_index m b = ok b.next := rfl

theorem spb_is_empty_eq (m : Mode) (b : SparseBuilder) :
    gen_SparseBuilder_is_empty m b = ok (decide (b.len = 0)) := rfl

theorem spb_is_full_eq (m : Mode) (b : SparseBuilder) : gen_SparseBuilder_is_full m b = ok b.isFull := by
  unfold gen_SparseBuilder_is_full SparseBuilder.isFull
  by_cases h : b.len = b.low.len <;>
    simp [spb_capacity_eq, SparseBuilder.capacity, Bind.bind, Outcome.bind, Pure.pure, h]

/-- `RawVector::set_bit` with the word out of range: the checked word read panics -/
theorem raw_set_bit_out (m : Mode) (v : RawVec) (i : Nat) (b : Bool) (hi : ¬ i / 64 < v.data.size) :
    gen_RawVector_set_bit m v i b = fault (.panic .index) := by
  unfold gen_RawVector_set_bit
  dsimp only
  rw [vsplit_eq]
  have ho : i % 64 < 64 := Nat.mod_lt i (by decide)
  simp [vshlW_lt m _ _ ho, vgetC_fail hi, Bind.bind, Outcome.bind]

/-- `set_unchecked`.
* `hwf`, `hb`: the low vector is well formed and its bit length is a `usize`;
* `hh`: `parts.high + self.len` does not overflow (on reachable states it is a position in `high`);
* `hn`: `index + self.increment` does not overflow (this also makes `index` a `usize`, used by `split` at width 64);
* `hord`: the code writes the high bit BEFORE the low part, the model checks the low index first.  When the builder is
  full (`len ≥ low.len`, excluded by the safety contract of `set_unchecked`) AND the high position is outside `high`,
  the code panics on the word index and the model on the assertion of `IntVector::set` (`spb_set_unchecked_ne`); in
  all other cases they agree. -/
theorem spb_set_unchecked_eq (m : Mode) (b : SparseBuilder) (i : Nat)
    (hwf : b.low.WF) (hb : b.low.len * b.low.width < U64)
    (hh : i >>> b.low.width + b.len < U64) (hn : i + b.increment < U64)
    (hord : b.len < b.low.len ∨ (i >>> b.low.width + b.len) / 64 < b.high.data.size) :
    gen_SparseBuilder_set_unchecked m b i = b.setUnchecked i := by
  obtain ⟨univ, low, high, len, next, inc⟩ := b
  simp only at hwf hb hh hn hord
  unfold gen_SparseBuilder_set_unchecked SparseBuilder.setUnchecked
  have hsp := split_eq m (⟨univ, default, low⟩ : Sparse) i hwf.2.1 (fun _ => by omega)
  simp only [Sparse.split, Sparse.width] at hsp
  simp only [hsp, addM_ok hh, int_set_eq m low len _ hwf hb, Bind.bind, Outcome.bind, Pure.pure]
  by_cases hl : len < low.len
  · have hw1 : 1 ≤ low.width := hwf.1
    have hlen : len + 1 < U64 := by
      have : low.len * 1 ≤ low.len * low.width := Nat.mul_le_mul_left _ hw1
      omega
    rw [IntVec.set_ok _ _ _ hl]
    by_cases hx : (i >>> low.width + len) / 64 < high.data.size
    · simp only [raw_set_bit_eq m high _ true hx, addM_ok hlen, addM_ok hn, hx, if_true]
    · simp only [raw_set_bit_out m high _ true hx, hx, if_false]
  · have hx : (i >>> low.width + len) / 64 < high.data.size := by
      rcases hord with h | h
      · exact absurd h hl
      · exact h
    rw [IntVec.set_fault _ _ _ (by omega)]
    simp only [raw_set_bit_eq m high _ true hx]

/-- `hord` is necessary: on a full builder whose `high` is too short the two panics differ in kind -/
theorem spb_set_unchecked_ne :
    let b : SparseBuilder := ⟨10, ⟨0, 1, RawVec.empty⟩, ⟨0, #[]⟩, 0, 0, 1⟩
    gen_SparseBuilder_set_unchecked .checked b 0 = fault (.panic .index) ∧
    b.setUnchecked 0 = fault (.panic .assert) := by
  decide

/-- `hn` is necessary: with `index = usize::MAX` in a non-multiset builder (outside the safety contract unless the
universe is `2^64`, which is not a `usize`) the code overflows in `index + self.increment`, the model stores `2^64` -/
theorem spb_set_unchecked_ne_next :
    let b : SparseBuilder := ⟨U64 - 1, ⟨1, 64, ⟨64, #[0]⟩⟩, ⟨2, #[0]⟩, 0, 0, 1⟩
    gen_SparseBuilder_set_unchecked .checked b (U64 - 1) = fault (.panic .overflow) ∧
    (b.setUnchecked (U64 - 1)).toOption.map (·.next) = some U64 := by
  decide

/-- `set_unchecked` on reachable builder states within the safety contract (not full, index in the universe) -/
theorem spb_set_unchecked_eq_of_inv (m : Mode) (b : SparseBuilder) (i : Nat) (h : BuildersProofs.SbInv b)
    (hl : b.len < b.low.len) (hi : i < b.univ) (hu : b.univ + b.increment ≤ U64)
    (hb : b.low.len * b.low.width < U64) (hhl : b.high.len < U64) :
    gen_SparseBuilder_set_unchecked m b i = b.setUnchecked i := by
  have := BuildersProofs.hi_lt_high_len h hi hl
  exact spb_set_unchecked_eq m b i h.low_wf hb (by omega) (by omega) (Or.inl hl)

/-- `try_set`.  The checks are the same on both sides; `set_unchecked` is reached with `len ≠ low.len` and
`next ≤ index < univ`, so the hypotheses of `spb_set_unchecked_eq` are only needed there. -/
theorem spb_try_set_eq (m : Mode) (b : SparseBuilder) (i : Nat)
    (hwf : b.low.WF) (hb : b.low.len * b.low.width < U64)
    (hh : i >>> b.low.width + b.len < U64) (hu : b.univ + b.increment ≤ U64)
    (hord : b.len ≤ b.low.len ∨ (i >>> b.low.width + b.len) / 64 < b.high.data.size) :
    gen_SparseBuilder_try_set m b i = b.trySet i := by
  unfold gen_SparseBuilder_try_set SparseBuilder.trySet
  have eta : (⟨b.univ, b.low, b.high, b.len, b.next, b.increment⟩ : SparseBuilder) = b := by cases b; rfl
  simp only [eta, spb_is_full_eq, Bind.bind, Outcome.bind, Pure.pure]
  by_cases hf : b.isFull = true
  · simp [hf]
  · by_cases h1 : i < b.next
    · by_cases h0 : b.increment = 0 <;> simp [hf, h1, h0]
    · by_cases h2 : i ≥ b.univ
      · simp [hf, h1, h2]
      · have hne : b.len ≠ b.low.len := by
          simpa [SparseBuilder.isFull, SparseBuilder.capacity] using hf
        have hord' : b.len < b.low.len ∨ (i >>> b.low.width + b.len) / 64 < b.high.data.size := by
          rcases hord with h | h
          · exact Or.inl (by omega)
          · exact Or.inr h
        simp only [hf, h1, h2, decide_false, if_false, Bool.false_eq_true,
          spb_set_unchecked_eq m b i hwf hb hh (by omega) hord']
        cases b.setUnchecked i with
        | fault f => rfl
        | ok b' => cases b'; rfl

/-- `try_set` on reachable builder states: no condition on the index -/
theorem spb_try_set_eq_of_inv (m : Mode) (b : SparseBuilder) (i : Nat) (h : BuildersProofs.SbInv b)
    (hu : b.univ + b.increment ≤ U64) (hb : b.low.len * b.low.width < U64) (hhl : b.high.len < U64) :
    gen_SparseBuilder_try_set m b i = b.trySet i := by
  by_cases hc : b.isFull = true ∨ i < b.next ∨ i ≥ b.univ
  · rw [BuildersProofs.trySet_reject_of b i hc]
    unfold gen_SparseBuilder_try_set
    have eta : (⟨b.univ, b.low, b.high, b.len, b.next, b.increment⟩ : SparseBuilder) = b := by cases b; rfl
    simp only [eta, spb_is_full_eq, Bind.bind, Outcome.bind, Pure.pure]
    by_cases hf : b.isFull = true
    · simp [hf]
    · by_cases h1 : i < b.next
      · by_cases h0 : b.increment = 0 <;> simp [hf, h1, h0]
      · have h2 : i ≥ b.univ := by
          rcases hc with h | h | h
          · exact absurd h hf
          · exact absurd h h1
          · exact h
        simp [hf, h1, h2]
  · have hf : b.isFull = false := by
      cases hb' : b.isFull
      · rfl
      · exact absurd (Or.inl hb') hc
    have hl : b.len < b.low.len := (BuildersProofs.not_isFull_iff h).mp hf
    have hi : i < b.univ := by omega
    have := BuildersProofs.hi_lt_high_len h hi hl
    exact spb_try_set_eq m b i h.low_wf hb (by omega) hu (Or.inl (by omega))

/-- `select`: unconditional (the model's `combine` follows the code at width 64 as well) -/
theorem sparse_select_eq (m : Mode) (s : Sparse) (r : Nat) :
    gen_SparseVector_select m s r = s.select m r := by
  unfold gen_SparseVector_select Sparse.select
  by_cases hr : r ≥ s.countOnes
  · simp [hr, Pure.pure]
  · simp only [hr, decide_false, if_false, Bool.false_eq_true, pos_eq, Bind.bind, Outcome.bind, Pure.pure]
    cases hp : s.pos m r with
    | fault f => rfl
    | ok p => simp only [combine_eq m s p]

/-- `select` on a vector that encodes a sorted list (`Sparse.Encodes`, low width ≤ 63): no side condition, and the
result is the specified one -/
theorem sparse_select_eq_of_encodes (m : Mode) {s : Sparse} {n w : Nat} {P : List Nat} (hs : s.Encodes n w P)
    (r : Nat) : gen_SparseVector_select m s r = s.select m r :=
  sparse_select_eq m s r

theorem sparse_select_spec (m : Mode) {s : Sparse} {n w : Nat} {P : List Nat} (hs : s.Encodes n w P) (r : Nat) :
    gen_SparseVector_select m s r = ok (selectSet P r) := by
  rw [sparse_select_eq_of_encodes m hs r, select_ok hs m r]

end Sds.GenEq
