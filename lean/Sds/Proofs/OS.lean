/-
Proofs/OS: the address-space effect of `MemoryMap::new` followed by `drop`.
With the length passed to `munmap` in BYTES (multiplier 8) every mapping is released, for every file
size and any number of cycles; with the length in ELEMENTS (multiplier 1, the code as first written)
pages are leaked exactly when the file is larger than one page.
-/
import Sds.Model.Mapper

namespace Sds
open Outcome

/-- existing mappings lie below the next page the kernel hands out -/
def AddrSpace.WF (s : AddrSpace) : Prop := ∀ pk ∈ s.mapped, pk.1 + pk.2 ≤ s.nextPage

theorem AddrSpace.WF_of_nil {s : AddrSpace} (h : s.mapped = []) : s.WF := by
  intro pk hpk; rw [h] at hpk; cases hpk

/-- what `munmap(page, n pages)` does to one mapping -/
def cut (page n : Nat) (pk : Nat × Nat) : List (Nat × Nat) :=
  let lo := max pk.1 page
  let hi := min (pk.1 + pk.2) (page + n)
  if lo ≥ hi then [pk] else
    (if pk.1 < lo then [(pk.1, lo - pk.1)] else []) ++
      (if hi < pk.1 + pk.2 then [(hi, pk.1 + pk.2 - hi)] else [])

theorem sysMunmap_eq (s : AddrSpace) (page lenBytes : Nat) (h : lenBytes ≠ 0) :
    sysMunmap s page lenBytes =
      { s with mapped := s.mapped.flatMap (cut page ((lenBytes + PAGE - 1) / PAGE)) } := by
  simp only [sysMunmap, h, if_false]
  rfl

theorem cut_below (page n : Nat) (pk : Nat × Nat) (h : pk.1 + pk.2 ≤ page) : cut page n pk = [pk] := by
  unfold cut
  have : max pk.1 page ≥ min (pk.1 + pk.2) (page + n) := by omega
  simp only [this, if_true]

theorem flatMap_cut_below (page n : Nat) (l : List (Nat × Nat)) (h : ∀ pk ∈ l, pk.1 + pk.2 ≤ page) :
    l.flatMap (cut page n) = l := by
  induction l with
  | nil => rfl
  | cons a l ih =>
    rw [List.flatMap_cons, cut_below page n a (h a (List.mem_cons_self ..)),
      ih (fun pk hpk => h pk (List.mem_cons_of_mem _ hpk))]
    rfl

/-- unmapping at least the whole mapping, from its start, removes it -/
theorem cut_all (page n k : Nat) (hk : 0 < k) (hn : k ≤ n) : cut page n (page, k) = [] := by
  unfold cut
  have h1 : ¬ (max page page ≥ min (page + k) (page + n)) := by omega
  have h2 : ¬ (page < max page page) := by omega
  have h3 : ¬ (min (page + k) (page + n) < page + k) := by omega
  simp only [h1, h2, h3, if_false, List.append_nil]

/-- unmapping a proper prefix leaves the rest mapped -/
theorem cut_prefix (page n k : Nat) (hn : 0 < n) (hk : n < k) :
    cut page n (page, k) = [(page + n, k - n)] := by
  unfold cut
  have h1 : ¬ (max page page ≥ min (page + k) (page + n)) := by omega
  have h2 : ¬ (page < max page page) := by omega
  have h3 : min (page + k) (page + n) < page + k := by omega
  have h4 : min (page + k) (page + n) = page + n := by omega
  have h5 : page + k - (page + n) = k - n := by omega
  simp only [h1, h2, h3, if_false, if_true, List.nil_append]
  rw [h4, h5]

/-! ### `new` -/

theorem mmapNewSpec_zero (s : AddrSpace) : mmapNewSpec s 0 = (s, fault (.err .other)) := by
  simp [mmapNewSpec, sysMmap]

theorem mmapNewImpl_zero (s : AddrSpace) : mmapNewImpl s 0 = (s, ok ⟨.failed, 0⟩) := by
  simp [mmapNewImpl, sysMmap]

/-- the as-coded constructor accepts the empty file with the MAP_FAILED sentinel as its pointer -/
theorem mmapNewImpl_zero_ptr (s : AddrSpace) :
    ∃ mm, (mmapNewImpl s 0).2 = ok mm ∧ mm.ptr = .failed ∧ mm.lenElems = 0 :=
  ⟨⟨.failed, 0⟩, by rw [mmapNewImpl_zero], rfl, rfl⟩

theorem mmapNew_zero_default :
    mmapNewSpec {} 0 = ({}, fault (.err .other)) ∧ mmapNewImpl {} 0 = ({}, ok ⟨.failed, 0⟩) := by
  decide

theorem mmapNewSpec_unaligned (s : AddrSpace) (fileBytes : Nat) (h : fileBytes % 8 ≠ 0) :
    mmapNewSpec s fileBytes = (s, fault (.err .other)) := by
  simp [mmapNewSpec, h]

theorem mmapNewImpl_unaligned (s : AddrSpace) (fileBytes : Nat) (h : fileBytes % 8 ≠ 0) :
    mmapNewImpl s fileBytes = (s, fault (.err .other)) := by
  simp [mmapNewImpl, h]

/-- the address space after a successful `mmap` of `fileBytes` bytes -/
def afterMap (s : AddrSpace) (fileBytes : Nat) : AddrSpace :=
  { mapped := (s.nextPage, (fileBytes + PAGE - 1) / PAGE) :: s.mapped
    nextPage := s.nextPage + (fileBytes + PAGE - 1) / PAGE + 1 }

theorem mmapNewSpec_ok (s : AddrSpace) (fileBytes : Nat) (h8 : fileBytes % 8 = 0) (hpos : 0 < fileBytes) :
    mmapNewSpec s fileBytes = (afterMap s fileBytes, ok ⟨.addr s.nextPage, fileBytes / 8⟩) := by
  have h0 : fileBytes ≠ 0 := by omega
  simp [mmapNewSpec, sysMmap, h8, h0, afterMap]

theorem mmapNewImpl_ok (s : AddrSpace) (fileBytes : Nat) (h8 : fileBytes % 8 = 0) (hpos : 0 < fileBytes) :
    mmapNewImpl s fileBytes = (afterMap s fileBytes, ok ⟨.addr s.nextPage, fileBytes / 8⟩) := by
  have h0 : fileBytes ≠ 0 := by omega
  simp [mmapNewImpl, sysMmap, h8, h0, afterMap]

/-- on non-empty files of whole elements the as-coded and the specified constructor agree -/
theorem mmapNewImpl_eq_spec (s : AddrSpace) (fileBytes : Nat) (h : fileBytes ≠ 0) :
    mmapNewImpl s fileBytes = mmapNewSpec s fileBytes := by
  by_cases h8 : fileBytes % 8 = 0
  · rw [mmapNewImpl_ok s _ h8 (by omega), mmapNewSpec_ok s _ h8 (by omega)]
  · rw [mmapNewImpl_unaligned s _ h8, mmapNewSpec_unaligned s _ h8]

theorem mmapNewSpec_ok_lenElems (s : AddrSpace) (fileBytes : Nat) (h8 : fileBytes % 8 = 0)
    (hpos : 0 < fileBytes) :
    ∃ mm, (mmapNewSpec s fileBytes).2 = ok mm ∧ (mmapNewImpl s fileBytes).2 = ok mm ∧
      mm.lenElems = fileBytes / 8 ∧ mm.ptr = .addr s.nextPage :=
  ⟨_, by rw [mmapNewSpec_ok s _ h8 hpos], by rw [mmapNewImpl_ok s _ h8 hpos], rfl, rfl⟩

/-- inversion: a successful specified `new` -/
theorem mmapNewSpec_inv {s s' : AddrSpace} {fileBytes : Nat} {mm : MMap}
    (h : mmapNewSpec s fileBytes = (s', ok mm)) :
    fileBytes % 8 = 0 ∧ 0 < fileBytes ∧ s' = afterMap s fileBytes ∧
      mm = ⟨.addr s.nextPage, fileBytes / 8⟩ := by
  by_cases h8 : fileBytes % 8 = 0
  · by_cases h0 : fileBytes = 0
    · subst h0; rw [mmapNewSpec_zero] at h; simp at h
    · rw [mmapNewSpec_ok s _ h8 (by omega)] at h
      simp only [Prod.mk.injEq, ok.injEq] at h
      exact ⟨h8, by omega, h.1.symm, h.2.symm⟩
  · rw [mmapNewSpec_unaligned s _ h8] at h; simp at h

/-! ### map, then drop with the length in bytes -/

theorem drop8_afterMap (s : AddrSpace) (fileBytes : Nat) (h8 : fileBytes % 8 = 0) (hpos : 0 < fileBytes)
    (hwf : s.WF) :
    mmapDrop 8 (afterMap s fileBytes) ⟨.addr s.nextPage, fileBytes / 8⟩ =
      { mapped := s.mapped, nextPage := s.nextPage + (fileBytes + PAGE - 1) / PAGE + 1 } := by
  have hlen : fileBytes / 8 * 8 = fileBytes := by omega
  have hne : fileBytes / 8 * 8 ≠ 0 := by omega
  simp only [mmapDrop]
  rw [sysMunmap_eq _ _ _ hne, hlen]
  have hp : 0 < (fileBytes + PAGE - 1) / PAGE := by unfold PAGE; omega
  simp only [afterMap, List.flatMap_cons, cut_all _ _ _ hp (Nat.le_refl _), List.nil_append,
    flatMap_cut_below _ _ _ hwf]

/-- (a), general form: map-then-drop restores `mapped` exactly and keeps well-formedness -/
theorem drop_restores (s s' : AddrSpace) (fileBytes : Nat) (mm : MMap) (hwf : s.WF)
    (hnew : mmapNewSpec s fileBytes = (s', ok mm)) :
    (mmapDrop 8 s' mm).mapped = s.mapped ∧ (mmapDrop 8 s' mm).WF ∧
      s.nextPage ≤ (mmapDrop 8 s' mm).nextPage := by
  obtain ⟨h8, hpos, rfl, rfl⟩ := mmapNewSpec_inv hnew
  rw [drop8_afterMap s _ h8 hpos hwf]
  refine ⟨rfl, ?_, by simp only [PAGE]; omega⟩
  intro pk hpk
  have := hwf pk hpk
  simp only [PAGE] at hpk ⊢
  omega

theorem drop_restores_pages (s s' : AddrSpace) (fileBytes : Nat) (mm : MMap) (hwf : s.WF)
    (hnew : mmapNewSpec s fileBytes = (s', ok mm)) :
    pagesMapped (mmapDrop 8 s' mm) = pagesMapped s := by
  unfold pagesMapped; rw [(drop_restores s s' fileBytes mm hwf hnew).1]

/-- (a): from an address space with nothing mapped, `new` then `drop` leaves nothing mapped,
for every file size -/
theorem drop_releases_all (s : AddrSpace) (fileBytes : Nat) (_h8 : fileBytes % 8 = 0) (hs : s.mapped = [])
    (s' : AddrSpace) (mm : MMap) (hnew : mmapNewSpec s fileBytes = (s', ok mm)) :
    pagesMapped (mmapDrop 8 s' mm) = 0 := by
  rw [drop_restores_pages s s' fileBytes mm (AddrSpace.WF_of_nil hs) hnew]
  simp [pagesMapped, hs]

/-- while the map is alive, exactly ⌈fileBytes / 4096⌉ more pages are mapped -/
theorem new_maps_pages (s s' : AddrSpace) (fileBytes : Nat) (mm : MMap)
    (hnew : mmapNewSpec s fileBytes = (s', ok mm)) :
    pagesMapped s' = (fileBytes + 4095) / 4096 + pagesMapped s := by
  obtain ⟨_, _, rfl, rfl⟩ := mmapNewSpec_inv hnew
  simp [pagesMapped, afterMap, PAGE]

/-! ### (b) any number of cycles -/

/-- one `new; drop` cycle (a refused `new` leaves the address space as the kernel left it) -/
def mapCycle (bytesPerElem : Nat) (s : AddrSpace) (fileBytes : Nat) : AddrSpace :=
  match mmapNewSpec s fileBytes with
  | (s', ok mm) => mmapDrop bytesPerElem s' mm
  | (s', fault _) => s'

theorem mapCycle8_restores (s : AddrSpace) (fileBytes : Nat) (hwf : s.WF) :
    (mapCycle 8 s fileBytes).mapped = s.mapped ∧ (mapCycle 8 s fileBytes).WF := by
  unfold mapCycle
  by_cases h8 : fileBytes % 8 = 0
  · by_cases h0 : fileBytes = 0
    · subst h0; rw [mmapNewSpec_zero]; exact ⟨rfl, hwf⟩
    · have hnew := mmapNewSpec_ok s _ h8 (by omega)
      rw [hnew]
      have := drop_restores s _ fileBytes _ hwf hnew
      exact ⟨this.1, this.2.1⟩
  · rw [mmapNewSpec_unaligned s _ h8]; exact ⟨rfl, hwf⟩

/-- cycles over an arbitrary sequence of file sizes -/
theorem cycles_restore (sizes : List Nat) (s : AddrSpace) (hwf : s.WF) :
    (sizes.foldl (mapCycle 8) s).mapped = s.mapped ∧ (sizes.foldl (mapCycle 8) s).WF := by
  induction sizes generalizing s with
  | nil => exact ⟨rfl, hwf⟩
  | cons f fs ih =>
    have h1 := mapCycle8_restores s f hwf
    have h2 := ih (mapCycle 8 s f) h1.2
    rw [List.foldl_cons]
    exact ⟨h2.1.trans h1.1, h2.2⟩

theorem cycles_release_all (sizes : List Nat) :
    pagesMapped (sizes.foldl (mapCycle 8) {}) = 0 := by
  have := (cycles_restore sizes {} (AddrSpace.WF_of_nil rfl)).1
  unfold pagesMapped; rw [this]; rfl

/-- `n` cycles with the same file -/
def iterCycle (bytesPerElem fileBytes : Nat) : Nat → AddrSpace → AddrSpace
  | 0, s => s
  | n + 1, s => iterCycle bytesPerElem fileBytes n (mapCycle bytesPerElem s fileBytes)

theorem iterCycle_eq_foldl (b f n : Nat) (s : AddrSpace) :
    iterCycle b f n s = (List.replicate n f).foldl (mapCycle b) s := by
  induction n generalizing s with
  | zero => rfl
  | succ n ih => rw [iterCycle, ih, List.replicate_succ, List.foldl_cons]

/-- (b): `n` cycles from the empty address space leave nothing mapped -/
theorem iter_cycles_release_all (fileBytes n : Nat) :
    pagesMapped (iterCycle 8 fileBytes n {}) = 0 := by
  rw [iterCycle_eq_foldl]; exact cycles_release_all _

/-! ### (c) drop with the length in elements -/

theorem drop1_afterMap_big (s : AddrSpace) (fileBytes : Nat) (h8 : fileBytes % 8 = 0)
    (hbig : 4096 < fileBytes) (hwf : s.WF) :
    (mmapDrop 1 (afterMap s fileBytes) ⟨.addr s.nextPage, fileBytes / 8⟩).mapped =
      (s.nextPage + (fileBytes / 8 + 4095) / 4096,
        (fileBytes + 4095) / 4096 - (fileBytes / 8 + 4095) / 4096) :: s.mapped := by
  have hne : fileBytes / 8 * 1 ≠ 0 := by omega
  simp only [mmapDrop]
  rw [sysMunmap_eq _ _ _ hne]
  have hn : 0 < (fileBytes / 8 * 1 + PAGE - 1) / PAGE := by unfold PAGE; omega
  have hk : (fileBytes / 8 * 1 + PAGE - 1) / PAGE < (fileBytes + PAGE - 1) / PAGE := by
    unfold PAGE; omega
  simp only [afterMap, List.flatMap_cons, cut_prefix _ _ _ hn hk, flatMap_cut_below _ _ _ hwf]
  have e1 : (fileBytes / 8 * 1 + PAGE - 1) / PAGE = (fileBytes / 8 + 4095) / 4096 := by
    unfold PAGE; omega
  have e2 : (fileBytes + PAGE - 1) / PAGE = (fileBytes + 4095) / 4096 := by unfold PAGE; omega
  rw [e1, e2]; rfl

theorem drop1_afterMap_small (s : AddrSpace) (fileBytes : Nat) (h8 : fileBytes % 8 = 0)
    (hpos : 0 < fileBytes) (hsmall : fileBytes ≤ 4096) (hwf : s.WF) :
    (mmapDrop 1 (afterMap s fileBytes) ⟨.addr s.nextPage, fileBytes / 8⟩).mapped = s.mapped := by
  have hne : fileBytes / 8 * 1 ≠ 0 := by omega
  simp only [mmapDrop]
  rw [sysMunmap_eq _ _ _ hne]
  have hp : 0 < (fileBytes + PAGE - 1) / PAGE := by unfold PAGE; omega
  have hk : (fileBytes + PAGE - 1) / PAGE ≤ (fileBytes / 8 * 1 + PAGE - 1) / PAGE := by
    unfold PAGE; omega
  simp only [afterMap, List.flatMap_cons, cut_all _ _ _ hp hk, List.nil_append,
    flatMap_cut_below _ _ _ hwf]

/-- (c): with the length in elements, pages of every file larger than one page stay mapped … -/
theorem drop_elements_leaks (fileBytes : Nat) (h8 : fileBytes % 8 = 0) (hbig : 4096 < fileBytes)
    (s' : AddrSpace) (mm : MMap) (hnew : mmapNewSpec {} fileBytes = (s', ok mm)) :
    pagesMapped (mmapDrop 1 s' mm) > 0 := by
  obtain ⟨_, _, rfl, rfl⟩ := mmapNewSpec_inv hnew
  unfold pagesMapped
  rw [drop1_afterMap_big {} fileBytes h8 hbig (AddrSpace.WF_of_nil rfl)]
  simp only [List.map_cons, List.sum_cons]
  omega

/-- … exactly this many -/
theorem drop_elements_leak_count (fileBytes : Nat) (h8 : fileBytes % 8 = 0) (hbig : 4096 < fileBytes)
    (s' : AddrSpace) (mm : MMap) (hnew : mmapNewSpec {} fileBytes = (s', ok mm)) :
    pagesMapped (mmapDrop 1 s' mm) = (fileBytes + 4095) / 4096 - (fileBytes / 8 + 4095) / 4096 := by
  obtain ⟨_, _, rfl, rfl⟩ := mmapNewSpec_inv hnew
  unfold pagesMapped
  rw [drop1_afterMap_big {} fileBytes h8 hbig (AddrSpace.WF_of_nil rfl)]
  simp

/-- … and nothing leaks for files of at most one page -/
theorem drop_elements_small_ok (fileBytes : Nat) (h8 : fileBytes % 8 = 0) (hpos : 0 < fileBytes)
    (hsmall : fileBytes ≤ 4096)
    (s' : AddrSpace) (mm : MMap) (hnew : mmapNewSpec {} fileBytes = (s', ok mm)) :
    pagesMapped (mmapDrop 1 s' mm) = 0 := by
  obtain ⟨_, _, rfl, rfl⟩ := mmapNewSpec_inv hnew
  unfold pagesMapped
  rw [drop1_afterMap_small {} fileBytes h8 hpos hsmall (AddrSpace.WF_of_nil rfl)]
  rfl

/-- the leak is the same with the as-coded constructor (it agrees with the spec on non-empty files) -/
theorem drop_elements_leaks_impl (fileBytes : Nat) (h8 : fileBytes % 8 = 0) (hbig : 4096 < fileBytes)
    (s' : AddrSpace) (mm : MMap) (hnew : mmapNewImpl {} fileBytes = (s', ok mm)) :
    pagesMapped (mmapDrop 1 s' mm) > 0 := by
  rw [mmapNewImpl_eq_spec _ _ (by omega)] at hnew
  exact drop_elements_leaks fileBytes h8 hbig s' mm hnew

/-- repeated cycles with the length in elements accumulate leaked pages -/
theorem iter_cycles_elements_leak_8192 :
    pagesMapped (iterCycle 1 8192 3 {}) = 3 := by decide

/-- concrete instance: a two-page file, one page is never released -/
theorem drop_elements_leaks_8192 :
    (match mmapNewSpec {} 8192 with
      | (s', ok mm) => pagesMapped (mmapDrop 1 s' mm)
      | (_, fault _) => 0) = 1 := by decide

theorem drop_bytes_ok_8192 :
    (match mmapNewSpec {} 8192 with
      | (s', ok mm) => pagesMapped (mmapDrop 8 s' mm)
      | (_, fault _) => 1) = 0 := by decide

theorem mapCycle_8192 : pagesMapped (mapCycle 1 {} 8192) = 1 ∧ pagesMapped (mapCycle 8 {} 8192) = 0 := by
  decide

/-- dropping the as-coded result for the empty file does nothing (`munmap` is never reached with a
valid address) -/
theorem drop_failed (b : Nat) (s : AddrSpace) (n : Nat) : mmapDrop b s ⟨.failed, n⟩ = s := rfl

end Sds
