/-
Proofs/Rank: the rank9-style rank support (`RankSup`) answers `rank` correctly.
Word-level counting, the `Valid` predicate on samples, correctness of the query for every valid
support, validity of the built support, and the corollaries for the public wrapper.
-/
import Sds.Proofs.Bits
import Sds.Model.BitVector
import Sds.Spec.Bits
set_option linter.unusedSimpArgs false
set_option linter.unusedVariables false

namespace Sds
open Outcome

/-! ### counting over `List.range` -/

/-- number of `i < n` with `f i = true` -/
def cnt (f : Nat → Bool) (n : Nat) : Nat := ((List.range n).map f).count true

theorem cnt_zero (f : Nat → Bool) : cnt f 0 = 0 := by simp [cnt]

theorem cnt_add (f : Nat → Bool) (a b : Nat) : cnt f (a + b) = cnt f a + cnt (fun i => f (a + i)) b := by
  unfold cnt
  rw [List.range_add, List.map_append, List.count_append, List.map_map]
  rfl

theorem cnt_le (f : Nat → Bool) (n : Nat) : cnt f n ≤ n := by
  unfold cnt
  have := List.count_le_length (a := true) (l := (List.range n).map f)
  simpa using this

theorem cnt_congr {f g : Nat → Bool} (n : Nat) (h : ∀ i, i < n → f i = g i) : cnt f n = cnt g n := by
  unfold cnt
  congr 1
  apply List.map_congr_left
  intro i hi
  exact h i (List.mem_range.mp hi)

theorem cnt_false (f : Nat → Bool) (n : Nat) (h : ∀ i, i < n → f i = false) : cnt f n = 0 := by
  rw [cnt_congr n (g := fun _ => false) h]
  unfold cnt
  rw [List.count_eq_zero]
  simp

/-- `take` of a mapped range, counted -/
theorem count_take_map_range (f : Nat → Bool) (n i : Nat) (h : i ≤ n) :
    (((List.range n).map f).take i).count true = cnt f i := by
  unfold cnt
  rw [← List.map_take, List.take_range, Nat.min_eq_left h]

/-! ### word-level counting -/

theorem popcount_eq_cnt (w : Word) : popcount w = cnt (fun i => w.getLsbD i) 64 := rfl

theorem popcount_le_ran (w : Word) : popcount w ≤ 64 := by
  rw [popcount_eq_cnt]; exact cnt_le _ _

theorem popcount_zero : popcount (0 : Word) = 0 := by
  rw [popcount_eq_cnt]; apply cnt_false; intro i _; simp

theorem popcount_and_lowSet_cnt (w : Word) (o : Nat) (ho : o ≤ 64) :
    popcount (w &&& lowSet o) = cnt (fun i => w.getLsbD i) o := by
  rw [popcount_eq_cnt]
  have e : o + (64 - o) = 64 := by omega
  have h := cnt_add (fun i => (w &&& lowSet o).getLsbD i) o (64 - o)
  rw [e] at h
  rw [h, cnt_false (fun i => (w &&& lowSet o).getLsbD (o + i)), Nat.add_zero]
  · apply cnt_congr
    intro i hi
    have : i < 64 := by omega
    simp [BitVec.getLsbD_and, lowSet_getLsbD _ _ this, hi]
  · intro i hi
    have : o + i < 64 := by omega
    simp [BitVec.getLsbD_and, lowSet_getLsbD _ _ this]

/-- ones of a word below bit `o` = ones of the first `o` entries of its bit list -/
theorem popcount_and_lowSet_ran (w : Word) (o : Nat) (ho : o ≤ 64) :
    popcount (w &&& lowSet o) = ((bitsOfWord w).take o).count true := by
  rw [popcount_and_lowSet_cnt w o ho]
  unfold bitsOfWord
  rw [count_take_map_range _ _ _ ho]

/-! ### words versus the bit list of a vector -/

/-- ones in the words `s, s+1, .., s+n-1` (words beyond the array read as 0) -/
def wordOnes (data : Array Word) (s : Nat) : Nat → Nat
  | 0 => 0
  | n + 1 => wordOnes data s n + popcount (rd data (s + n))

/-- ones in the first `k` words -/
def onesBefore (data : Array Word) (k : Nat) : Nat := wordOnes data 0 k

theorem wordOnes_add (data : Array Word) (s a b : Nat) :
    wordOnes data s (a + b) = wordOnes data s a + wordOnes data (s + a) b := by
  induction b with
  | zero => simp [wordOnes]
  | succ b ih => rw [← Nat.add_assoc, wordOnes, wordOnes, ih, Nat.add_assoc s a b]; omega

theorem onesBefore_add (data : Array Word) (s n : Nat) :
    onesBefore data (s + n) = onesBefore data s + wordOnes data s n := by
  unfold onesBefore; rw [wordOnes_add]; simp

theorem wordOnes_le (data : Array Word) (s n : Nat) : wordOnes data s n ≤ 64 * n := by
  induction n with
  | zero => simp [wordOnes]
  | succ n ih => have := popcount_le_ran (rd data (s + n)); simp only [wordOnes]; omega

theorem wordOnes_mono (data : Array Word) (s : Nat) {a b : Nat} (h : a ≤ b) :
    wordOnes data s a ≤ wordOnes data s b := by
  obtain ⟨c, rfl⟩ : ∃ c, b = a + c := ⟨b - a, by omega⟩
  rw [wordOnes_add]; omega

/-- words past the end of the array contribute nothing -/
theorem wordOnes_of_ge (data : Array Word) (s n : Nat) (h : data.size ≤ s) : wordOnes data s n = 0 := by
  induction n with
  | zero => rfl
  | succ n ih => rw [wordOnes, ih, rd_of_ge _ _ (by omega), popcount_zero]

theorem wordOnes_min (data : Array Word) (s n : Nat) :
    wordOnes data s (min n (data.size - s)) = wordOnes data s n := by
  by_cases h : n ≤ data.size - s
  · rw [Nat.min_eq_left h]
  · have h' : data.size - s ≤ n := by omega
    rw [Nat.min_eq_right h']
    obtain ⟨c, hc⟩ : ∃ c, n = (data.size - s) + c := ⟨n - (data.size - s), by omega⟩
    rw [hc, wordOnes_add, wordOnes_of_ge data (s + (data.size - s)) c (by omega)]; simp

theorem getBit_word (data : Array Word) (k i : Nat) (hi : i < 64) :
    getBit data (64 * k + i) = (rd data k).getLsbD i := by
  unfold getBit
  have e1 : (64 * k + i) / 64 = k := by omega
  have e2 : (64 * k + i) % 64 = i := by omega
  rw [e1, e2]

theorem cnt_getBit_split (data : Array Word) (k o : Nat) (ho : o ≤ 64) :
    cnt (getBit data) (64 * k + o) = cnt (getBit data) (64 * k) + popcount (rd data k &&& lowSet o) := by
  rw [cnt_add, popcount_and_lowSet_cnt _ _ ho]
  congr 1
  apply cnt_congr
  intro i hi
  exact getBit_word data k i (by omega)

theorem lowSet_64 : lowSet 64 = BitVec.allOnes 64 := by decide

theorem cnt_getBit_words (data : Array Word) (k : Nat) :
    cnt (getBit data) (64 * k) = onesBefore data k := by
  induction k with
  | zero => simp [cnt_zero, onesBefore, wordOnes]
  | succ k ih =>
    have e : 64 * (k + 1) = 64 * k + 64 := by omega
    rw [e, cnt_getBit_split data k 64 (Nat.le_refl _), ih, lowSet_64, BitVec.and_allOnes]
    simp [onesBefore, wordOnes]

theorem rankSpec_bits_eq_cnt (v : RawVec) (i : Nat) (hi : i ≤ v.len) :
    rankSpec v.bits i = cnt (getBit v.data) i := by
  unfold rankSpec RawVec.bits
  exact count_take_map_range _ _ _ hi

/-- The link between the words and the bit list: the rank at position `64*k + o` is the number of ones in
the first `k` words plus the ones of word `k` below bit `o`. -/
theorem rankSpec_words (v : RawVec) (k o : Nat) (ho : o ≤ 64) (h : 64 * k + o ≤ v.len) :
    rankSpec v.bits (64 * k + o) = onesBefore v.data k + popcount (rd v.data k &&& lowSet o) := by
  rw [rankSpec_bits_eq_cnt v _ h, cnt_getBit_split _ _ _ ho, cnt_getBit_words]

theorem rankSpec_words0 (v : RawVec) (k : Nat) (h : 64 * k ≤ v.len) :
    rankSpec v.bits (64 * k) = onesBefore v.data k := by
  rw [rankSpec_bits_eq_cnt v _ h, cnt_getBit_words]

theorem rankSpec_le (B : List Bool) (i : Nat) : rankSpec B i ≤ i := by
  unfold rankSpec
  have := List.count_le_length (a := true) (l := B.take i)
  have h2 := List.length_take_le i B
  omega

theorem rankSpec_le_length (B : List Bool) (i : Nat) : rankSpec B i ≤ B.length := by
  unfold rankSpec
  have := List.count_le_length (a := true) (l := B.take i)
  have h2 := List.length_take_le' i B
  omega

theorem rankSpec_of_ge (B : List Bool) (i : Nat) (h : B.length ≤ i) : rankSpec B i = B.count true := by
  unfold rankSpec; rw [List.take_of_length_le h]

theorem length_bits (v : RawVec) : v.bits.length = v.len := by simp [RawVec.bits]

/-! ### valid rank supports and the correctness of the query -/

/-- What the query needs from the samples (and what `build` produces).  For block `b`:
the first component is the rank at the block start; the 9-bit field `j ≤ 6` of the second component is the
number of ones in words `8b .. 8b+j` of the block, whenever word `8b+j` exists (fields of missing words in a
partial last block are unconstrained here; `build` leaves them 0, see `build_missing_field`); the 9-bit value
read at bit 63 (what the query reads for the first word of a block) is 0. -/
structure RankSup.Valid (s : RankSup) (v : RawVec) : Prop where
  size : s.samples.size = (v.len + 511) / 512
  abs : ∀ b (h : b < s.samples.size), (s.samples[b]).1.toNat = rankSpec v.bits (512 * b)
  rel : ∀ b (h : b < s.samples.size) j, j < 7 → 8 * b + j < v.data.size →
    ((s.samples[b]).2 >>> (9 * j)).toNat % 512 = wordOnes v.data (8 * b) (j + 1)
  top : ∀ b (h : b < s.samples.size), ((s.samples[b]).2 >>> 63).toNat % 512 = 0

/-- The query is correct for every valid support, and performs no out-of-bounds read. -/
theorem rankU_ok {s : RankSup} {v : RawVec} (hv : v.WF) (hs : s.Valid v) (i : Nat) (hi : i < v.len) :
    s.rankU v i = .ok (rankSpec v.bits i) := by
  have hblock : i / 512 < s.samples.size := by rw [hs.size]; omega
  have hword : i / 64 < v.data.size := by rw [hv.1]; omega
  have habs := hs.abs (i / 512) hblock
  have hsplit : i = 64 * (i / 64) + i % 64 := by omega
  have hspec : rankSpec v.bits i =
      onesBefore v.data (i / 64) + popcount (rd v.data (i / 64) &&& lowSet (i % 64)) := by
    have := rankSpec_words v (i / 64) (i % 64) (by omega) (by omega)
    rw [← hsplit] at this; exact this
  have hb0 : rankSpec v.bits (512 * (i / 512)) = onesBefore v.data (8 * (i / 512)) := by
    have := rankSpec_words0 v (8 * (i / 512)) (by omega)
    rw [← this]; congr 1; omega
  unfold RankSup.rankU
  simp only [dif_pos hblock, bind_ok, getW_ok hword, pure_eq]
  congr 1
  rw [hspec, habs, hb0]
  congr 1
  by_cases h0 : i / 64 % 8 = 0
  · have e : (i / 64 % 8 + 7) % 8 * 9 = 63 := by rw [h0]
    rw [e, hs.top _ hblock]
    have : i / 64 = 8 * (i / 512) := by omega
    rw [this]; rfl
  · have e : (i / 64 % 8 + 7) % 8 * 9 = 9 * (i / 64 % 8 - 1) := by omega
    rw [e, hs.rel _ hblock (i / 64 % 8 - 1) (by omega) (by omega)]
    have e2 : i / 64 % 8 - 1 + 1 = i / 64 % 8 := by omega
    rw [e2, ← onesBefore_add]
    congr 1; omega

/-! ### one block of the construction -/

/-- the loop of `blockSample` -/
def relFold (data : Array Word) (block : Nat) (n : Nat) : Nat × Word :=
  (List.range n).foldl (fun (acc : Nat × Word) word =>
      let ones := acc.1 + popcount (rd data (block * 8 + word))
      (ones, acc.2 ||| ((BitVec.ofNat 64 ones) <<< (word * 9)))) (0, 0)

theorem blockSample_eq (data : Array Word) (block bw : Nat) :
    RankSup.blockSample data block bw = ((relFold data block bw).1, (relFold data block bw).2 &&& lowSet 63) := rfl

theorem relFold_succ (data : Array Word) (block n : Nat) :
    relFold data block (n + 1) =
      ((relFold data block n).1 + popcount (rd data (block * 8 + n)),
       (relFold data block n).2 |||
        ((BitVec.ofNat 64 ((relFold data block n).1 + popcount (rd data (block * 8 + n)))) <<< (n * 9))) := by
  unfold relFold
  rw [List.range_succ, List.foldl_append]
  rfl

theorem relFold_fst (data : Array Word) (block n : Nat) :
    (relFold data block n).1 = wordOnes data (block * 8) n := by
  induction n with
  | zero => rfl
  | succ n ih => rw [relFold_succ, wordOnes, ih]

/-- bit `p` of the accumulated word: bit `p % 9` of the cumulative count of field `p / 9`, if already written -/
theorem relFold_snd_bit (data : Array Word) (block n : Nat) (hn : n ≤ 8) (p : Nat) (hp : p < 64) :
    (relFold data block n).2.getLsbD p =
      (decide (p / 9 < n) && (wordOnes data (block * 8) (p / 9 + 1)).testBit (p % 9)) := by
  induction n with
  | zero => simp [relFold]
  | succ n ih =>
    have ih := ih (by omega)
    rw [relFold_succ]
    simp only [BitVec.getLsbD_or, ih, BitVec.getLsbD_shiftLeft, BitVec.getLsbD_ofNat, relFold_fst]
    have hc : wordOnes data (block * 8) n + popcount (rd data (block * 8 + n)) =
        wordOnes data (block * 8) (n + 1) := rfl
    rw [hc]
    by_cases h1 : p / 9 < n
    · have h2 : p < n * 9 := by omega
      have h3 : p / 9 < n + 1 := by omega
      simp [h1, h2, h3]
    · by_cases h2 : p / 9 = n
      · have h3 : ¬ (p < n * 9) := by omega
        have h4 : p - n * 9 = p % 9 := by omega
        have h5 : p % 9 < 64 := by omega
        simp [h1, h3, h4, hp, h5]
        simp [h2]
      · have h3 : ¬ (p < n * 9) := by omega
        have h4 : ¬ (p / 9 < n + 1) := by omega
        have h5 : n < 7 := by omega
        have h6 : wordOnes data (block * 8) (n + 1) < 2 ^ (p - n * 9) := by
          have a := wordOnes_le data (block * 8) (n + 1)
          have b : 2 ^ 9 ≤ 2 ^ (p - n * 9) := Nat.pow_le_pow_right (by decide) (by omega)
          omega
        simp [h1, h3, h4, Nat.testBit_lt_two_pow h6]

/-- reading a 9-bit value bit by bit -/
theorem toNat_mod_512_of_bits (x : Word) (c : Nat) (hc : c < 512)
    (h : ∀ i, i < 9 → x.getLsbD i = c.testBit i) : x.toNat % 512 = c := by
  have e : x.setWidth 9 = BitVec.ofNat 9 c := by
    apply BitVec.eq_of_getLsbD_eq
    intro i hi
    rw [BitVec.getLsbD_setWidth, BitVec.getLsbD_ofNat, h i hi]
  have := congrArg BitVec.toNat e
  rw [BitVec.toNat_setWidth, BitVec.toNat_ofNat] at this
  have h2 : c % 2 ^ 9 = c := Nat.mod_eq_of_lt hc
  rw [h2] at this
  exact this

/-- field `j ≤ 6` of a block sample: the cumulative count of words `0..j` of the block, if written -/
theorem blockSample_field (data : Array Word) (block bw : Nat) (hbw : bw ≤ 8) (j : Nat) (hj : j < 7)
    (hjb : j < bw) :
    ((RankSup.blockSample data block bw).2 >>> (9 * j)).toNat % 512 = wordOnes data (block * 8) (j + 1) := by
  rw [blockSample_eq]
  apply toNat_mod_512_of_bits
  · have := wordOnes_le data (block * 8) (j + 1); omega
  · intro i hi
    have h1 : 9 * j + i < 64 := by omega
    have h2 : (9 * j + i) / 9 = j := by omega
    have h3 : (9 * j + i) % 9 = i := by omega
    have h4 : 9 * j + i < 63 := by omega
    simp only [BitVec.getLsbD_ushiftRight, BitVec.getLsbD_and, relFold_snd_bit data block bw hbw _ h1,
      lowSet_getLsbD _ _ h1, h2, h3]
    simp [hjb, h4]

/-- fields of words that are not there stay 0 -/
theorem blockSample_field_missing (data : Array Word) (block bw : Nat) (hbw : bw ≤ 8) (j : Nat) (hj : j < 7)
    (hjb : bw ≤ j) :
    ((RankSup.blockSample data block bw).2 >>> (9 * j)).toNat % 512 = 0 := by
  rw [blockSample_eq]
  apply toNat_mod_512_of_bits _ 0 (by decide)
  intro i hi
  have h1 : 9 * j + i < 64 := by omega
  have h2 : (9 * j + i) / 9 = j := by omega
  have h5 : ¬ (j < bw) := by omega
  simp only [BitVec.getLsbD_ushiftRight, BitVec.getLsbD_and, relFold_snd_bit data block bw hbw _ h1, h2]
  simp [h5]

/-- the value the query reads for the first word of a block is 0 -/
theorem blockSample_top (data : Array Word) (block bw : Nat) :
    ((RankSup.blockSample data block bw).2 >>> 63).toNat % 512 = 0 := by
  rw [blockSample_eq]
  have : ((relFold data block bw).2 &&& lowSet 63) >>> 63 = 0 := by
    apply BitVec.eq_of_getLsbD_eq
    intro i hi
    simp only [BitVec.getLsbD_ushiftRight, BitVec.getLsbD_and]
    by_cases h0 : i = 0
    · subst h0; simp [lowSet_getLsbD 63 63 (by decide)]
    · rw [getLsbD_ge64 (lowSet 63) (63 + i) (by omega)]; simp
  rw [this]; rfl

theorem blockSample_fst (data : Array Word) (block bw : Nat) :
    (RankSup.blockSample data block bw).1 = wordOnes data (block * 8) bw := by
  rw [blockSample_eq]; exact relFold_fst data block bw

/-! ### the construction produces a valid support -/

/-- the loop of `build` -/
def buildFold (v : RawVec) (n : Nat) : Array (Word × Word) × Nat :=
  (List.range n).foldl (fun (acc : Array (Word × Word) × Nat) block =>
      let bw := min 8 (v.data.size - block * 8)
      let (bo, rel) := RankSup.blockSample v.data block bw
      (acc.1.push (BitVec.ofNat 64 acc.2, rel), acc.2 + bo)) (#[], 0)

theorem build_eq (v : RawVec) : RankSup.build v = ⟨(buildFold v ((v.len + 511) / 512)).1⟩ := rfl

theorem buildFold_succ (v : RawVec) (n : Nat) :
    buildFold v (n + 1) =
      ((buildFold v n).1.push (BitVec.ofNat 64 (buildFold v n).2,
          (RankSup.blockSample v.data n (min 8 (v.data.size - n * 8))).2),
       (buildFold v n).2 + (RankSup.blockSample v.data n (min 8 (v.data.size - n * 8))).1) := by
  unfold buildFold
  rw [List.range_succ, List.foldl_append]
  rfl

theorem buildFold_inv (v : RawVec) (n : Nat) :
    (buildFold v n).1.size = n ∧ (buildFold v n).2 = onesBefore v.data (8 * n) ∧
    ∀ b, b < n → (buildFold v n).1[b]? =
      some (BitVec.ofNat 64 (onesBefore v.data (8 * b)),
            (RankSup.blockSample v.data b (min 8 (v.data.size - b * 8))).2) := by
  induction n with
  | zero => exact ⟨rfl, rfl, fun b hb => absurd hb (Nat.not_lt_zero _)⟩
  | succ n ih =>
    obtain ⟨h1, h2, h3⟩ := ih
    rw [buildFold_succ]
    refine ⟨by simp [h1], ?_, ?_⟩
    · simp only [h2, blockSample_fst, wordOnes_min]
      have e : 8 * (n + 1) = 8 * n + 8 := by omega
      rw [e, onesBefore_add, Nat.mul_comm n 8]
    · intro b hb
      simp only []
      by_cases hbn : b < n
      · rw [Array.getElem?_push_lt (by omega)]
        have := h3 b hbn
        rw [Array.getElem?_eq_getElem (by omega)] at this
        exact this
      · have : b = n := by omega
        subst this
        rw [Array.getElem?_push, if_pos h1.symm, h2]

/-- The built support is valid. -/
theorem build_valid {v : RawVec} (hv : v.WF) (hlen : v.len < 2 ^ 64) : (RankSup.build v).Valid v := by
  obtain ⟨h1, _, h3⟩ := buildFold_inv v ((v.len + 511) / 512)
  have hsize : (RankSup.build v).samples.size = (v.len + 511) / 512 := by rw [build_eq]; exact h1
  have hget : ∀ b (h : b < (RankSup.build v).samples.size),
      (RankSup.build v).samples[b] = (BitVec.ofNat 64 (onesBefore v.data (8 * b)),
            (RankSup.blockSample v.data b (min 8 (v.data.size - b * 8))).2) := by
    intro b h
    have h' : b < (v.len + 511) / 512 := by rw [← hsize]; exact h
    have : (RankSup.build v).samples[b]? = _ := h3 b h'
    rw [Array.getElem?_eq_getElem h] at this
    exact Option.some.inj this
  refine ⟨hsize, ?_, ?_, ?_⟩
  · intro b h
    have hb : 512 * b ≤ v.len := by rw [hsize] at h; omega
    have e : rankSpec v.bits (512 * b) = onesBefore v.data (8 * b) := by
      have := rankSpec_words0 v (8 * b) (by omega)
      rw [← this]; congr 1; omega
    rw [hget b h, e]
    simp only [BitVec.toNat_ofNat]
    apply Nat.mod_eq_of_lt
    have := wordOnes_le v.data 0 (8 * b)
    unfold onesBefore
    omega
  · intro b h j hj hjw
    rw [hget b h]
    simp only []
    rw [blockSample_field _ _ _ (Nat.min_le_left _ _) j hj (by omega), Nat.mul_comm b 8]
  · intro b h
    rw [hget b h]
    exact blockSample_top _ _ _

/-- `build` leaves the fields of the missing words of a partial last block 0 -/
theorem build_missing_field (v : RawVec) (b : Nat) (h : b < (RankSup.build v).samples.size) (j : Nat)
    (hj : j < 7) (hjw : v.data.size ≤ 8 * b + j) :
    (((RankSup.build v).samples[b]).2 >>> (9 * j)).toNat % 512 = 0 := by
  obtain ⟨h1, _, h3⟩ := buildFold_inv v ((v.len + 511) / 512)
  have hsize : (RankSup.build v).samples.size = (v.len + 511) / 512 := by rw [build_eq]; exact h1
  have h' : b < (v.len + 511) / 512 := by rw [← hsize]; exact h
  have : (RankSup.build v).samples[b]? = _ := h3 b h'
  rw [Array.getElem?_eq_getElem h] at this
  rw [Option.some.inj this]
  exact blockSample_field_missing _ _ _ (Nat.min_le_left _ _) j hj (by omega)

/-! ### the total number of ones -/

theorem toList_eq_map_rd (data : Array Word) : data.toList = (List.range data.size).map (rd data) := by
  apply List.ext_getElem
  · simp
  · intro i h1 h2
    have : i < data.size := by simpa using h1
    simp [rd, this]

theorem foldl_popcount_range (data : Array Word) (n : Nat) :
    ((List.range n).map (rd data)).foldl (fun acc w => acc + popcount w) 0 = onesBefore data n := by
  induction n with
  | zero => rfl
  | succ n ih =>
    rw [List.range_succ, List.map_append, List.foldl_append, ih]
    simp [onesBefore, wordOnes]

theorem countOnes_eq_onesBefore (v : RawVec) : v.countOnes = onesBefore v.data v.data.size := by
  unfold RawVec.countOnes
  rw [← Array.foldl_toList, toList_eq_map_rd, foldl_popcount_range]

theorem and_lowSet_of_tail_zero (w : Word) (o : Nat) (h : w &&& ~~~ lowSet o = 0) : w &&& lowSet o = w := by
  apply BitVec.eq_of_getLsbD_eq
  intro i hi
  have := congrArg (fun x => BitVec.getLsbD x i) h
  simp only [BitVec.getLsbD_and, BitVec.getLsbD_not, lowSet_getLsbD _ _ hi, BitVec.getLsbD_zero] at this
  rw [BitVec.getLsbD_and, lowSet_getLsbD _ _ hi]
  by_cases hio : i < o
  · simp [hio]
  · simp [hio, hi] at this
    rw [BitVec.getLsbD_eq_getElem hi, this]; simp

/-- for a well-formed vector the stored count of ones is the count of the bit list -/
theorem countOnes_eq (v : RawVec) (hv : v.WF) : v.countOnes = v.bits.count true := by
  have hb : v.bits.count true = cnt (getBit v.data) v.len := by
    rw [← rankSpec_of_ge v.bits v.len (by rw [length_bits]; exact Nat.le_refl _)]
    exact rankSpec_bits_eq_cnt v v.len (Nat.le_refl _)
  rw [countOnes_eq_onesBefore, hb, hv.1]
  by_cases h0 : v.len % 64 = 0
  · have e1 : (v.len + 63) / 64 = v.len / 64 := by omega
    have e2 : v.len = 64 * (v.len / 64) := by omega
    rw [e1]
    conv => rhs; rw [e2]
    rw [cnt_getBit_words]
  · have e1 : (v.len + 63) / 64 = v.len / 64 + 1 := by omega
    have e2 : v.len = 64 * (v.len / 64) + v.len % 64 := by omega
    rw [e1]
    conv => rhs; rw [e2]
    rw [cnt_getBit_split _ _ _ (by omega), cnt_getBit_words, and_lowSet_of_tail_zero _ _ (hv.2 h0)]
    simp [onesBefore, wordOnes]

/-! ### the public wrapper -/

/-- `rank` through the wrapper, for any valid support: correct at every index (clamped past the end) -/
theorem rankQ_ok {b : BitVector} {v : RawVec} {s : RankSup} (hv : v.WF) (hdata : b.data = v)
    (hrank : b.rank = some s) (hs : s.Valid v) (hones : b.ones = v.bits.count true) (i : Nat) :
    b.rankQ i = .ok (rankSpec v.bits i) := by
  unfold BitVector.rankQ BitVector.len BitVector.countOnes
  rw [hdata, hrank]
  by_cases h : i ≥ v.len
  · rw [if_pos h, hones, rankSpec_of_ge _ _ (by rw [length_bits]; exact h)]
  · rw [if_neg h]
    exact rankU_ok hv hs i (by omega)

/-- `rank_zero` through the wrapper: `i - rank i`, no underflow in either arithmetic mode -/
theorem rankZeroQ_ok {b : BitVector} {v : RawVec} {s : RankSup} (hv : v.WF) (hdata : b.data = v)
    (hrank : b.rank = some s) (hs : s.Valid v) (hones : b.ones = v.bits.count true) (m : Mode) (i : Nat) :
    b.rankZeroQ m i = .ok (i - rankSpec v.bits i) := by
  unfold BitVector.rankZeroQ
  rw [rankQ_ok hv hdata hrank hs hones i]
  simp only [bind_ok]
  exact subM_ok (rankSpec_le _ _)

/-- the wrapper with the built support -/
theorem rankQ_build {b : BitVector} {v : RawVec} (hv : v.WF) (hlen : v.len < 2 ^ 64) (hdata : b.data = v)
    (hrank : b.rank = some (RankSup.build v)) (hones : b.ones = v.bits.count true) (i : Nat) :
    b.rankQ i = .ok (rankSpec v.bits i) :=
  rankQ_ok hv hdata hrank (build_valid hv hlen) hones i

theorem rankZeroQ_build {b : BitVector} {v : RawVec} (hv : v.WF) (hlen : v.len < 2 ^ 64) (hdata : b.data = v)
    (hrank : b.rank = some (RankSup.build v)) (hones : b.ones = v.bits.count true) (m : Mode) (i : Nat) :
    b.rankZeroQ m i = .ok (i - rankSpec v.bits i) :=
  rankZeroQ_ok hv hdata hrank (build_valid hv hlen) hones m i

/-- `BitVector::from(raw)` followed by `enable_rank`, with no side hypothesis left -/
theorem rankQ_ofRaw {v : RawVec} (hv : v.WF) (hlen : v.len < 2 ^ 64) (i : Nat) :
    (BitVector.ofRaw v).enableRank.rankQ i = .ok (rankSpec v.bits i) :=
  rankQ_build hv hlen rfl rfl (countOnes_eq v hv) i

theorem rankZeroQ_ofRaw {v : RawVec} (hv : v.WF) (hlen : v.len < 2 ^ 64) (m : Mode) (i : Nat) :
    (BitVector.ofRaw v).enableRank.rankZeroQ m i = .ok (i - rankSpec v.bits i) :=
  rankZeroQ_build hv hlen rfl rfl (countOnes_eq v hv) m i

/-- `rank_zero` agrees with the zero-rank of the specification up to the length -/
theorem sub_rankSpec_eq_rankZeroSpec (B : List Bool) (i : Nat) (hi : i ≤ B.length) :
    i - rankSpec B i = rankZeroSpec B i := by
  unfold rankSpec rankZeroSpec
  have h1 : (B.take i).length = i := List.length_take_of_le hi
  have h2 : ∀ l : List Bool, l.count true + l.count false = l.length := by
    intro l
    induction l with
    | nil => rfl
    | cons a l ih => cases a <;> simp [List.count_cons] <;> omega
  have := h2 (B.take i)
  omega

end Sds
