/-
Proofs/Supports: the rank / select / select_zero support structures of `BitVector` are optional,
rebuildable and never change answers.
-/
import Sds.Model.Ser
import Sds.Proofs.IntVec
import Sds.Proofs.Rank
import Sds.Proofs.Select
import Sds.Proofs.Codec
set_option linter.unusedSimpArgs false
set_option linter.unusedVariables false

namespace Sds.SupportProofs
open Sds Outcome

/-! ## (a) enabling is idempotent -/

theorem enableRank_idem (b : BitVector) : b.enableRank.enableRank = b.enableRank := by
  rcases b with ⟨o, d, r, s, z⟩; cases r <;> rfl

theorem enableSelect_idem (b : BitVector) : b.enableSelect.enableSelect = b.enableSelect := by
  rcases b with ⟨o, d, r, s, z⟩; cases s <;> rfl

theorem enableSelectZero_idem (b : BitVector) :
    b.enableSelectZero.enableSelectZero = b.enableSelectZero := by
  rcases b with ⟨o, d, r, s, z⟩; cases z <;> rfl

/-! ## (b) enabling commutes and never touches `data`, `ones`, `len` -/

theorem enableRank_enableSelect (b : BitVector) :
    b.enableRank.enableSelect = b.enableSelect.enableRank := by
  rcases b with ⟨o, d, r, s, z⟩; cases r <;> cases s <;> rfl

theorem enableRank_enableSelectZero (b : BitVector) :
    b.enableRank.enableSelectZero = b.enableSelectZero.enableRank := by
  rcases b with ⟨o, d, r, s, z⟩; cases r <;> cases z <;> rfl

theorem enableSelect_enableSelectZero (b : BitVector) :
    b.enableSelect.enableSelectZero = b.enableSelectZero.enableSelect := by
  rcases b with ⟨o, d, r, s, z⟩; cases s <;> cases z <;> rfl

/-- the six orders of the three `enable_*` calls all give `enableAll` -/
theorem order_rsz (b : BitVector) : b.enableRank.enableSelect.enableSelectZero = b.enableAll := rfl

theorem order_rzs (b : BitVector) : b.enableRank.enableSelectZero.enableSelect = b.enableAll := by
  rw [← enableSelect_enableSelectZero]; rfl

theorem order_srz (b : BitVector) : b.enableSelect.enableRank.enableSelectZero = b.enableAll := by
  rw [← enableRank_enableSelect]; rfl

theorem order_szr (b : BitVector) : b.enableSelect.enableSelectZero.enableRank = b.enableAll := by
  rw [← enableRank_enableSelectZero, ← enableRank_enableSelect]; rfl

theorem order_zrs (b : BitVector) : b.enableSelectZero.enableRank.enableSelect = b.enableAll := by
  rw [← enableRank_enableSelectZero, ← enableSelect_enableSelectZero]; rfl

theorem order_zsr (b : BitVector) : b.enableSelectZero.enableSelect.enableRank = b.enableAll := by
  rw [← enableSelect_enableSelectZero, ← enableRank_enableSelectZero, ← enableRank_enableSelect]; rfl

theorem enableAll_idem (b : BitVector) : b.enableAll.enableAll = b.enableAll := by
  rcases b with ⟨o, d, r, s, z⟩; cases r <;> cases s <;> cases z <;> rfl

/-- enabling one more support after `enableAll` changes nothing -/
theorem enableAll_enableRank (b : BitVector) : b.enableAll.enableRank = b.enableAll := by
  rcases b with ⟨o, d, r, s, z⟩; cases r <;> cases s <;> cases z <;> rfl
theorem enableAll_enableSelect (b : BitVector) : b.enableAll.enableSelect = b.enableAll := by
  rcases b with ⟨o, d, r, s, z⟩; cases r <;> cases s <;> cases z <;> rfl
theorem enableAll_enableSelectZero (b : BitVector) : b.enableAll.enableSelectZero = b.enableAll := by
  rcases b with ⟨o, d, r, s, z⟩; cases r <;> cases s <;> cases z <;> rfl

/-- … and `enableAll` absorbs a support enabled before it -/
theorem enableRank_enableAll (b : BitVector) : b.enableRank.enableAll = b.enableAll := by
  rcases b with ⟨o, d, r, s, z⟩; cases r <;> cases s <;> cases z <;> rfl
theorem enableSelect_enableAll (b : BitVector) : b.enableSelect.enableAll = b.enableAll := by
  rcases b with ⟨o, d, r, s, z⟩; cases r <;> cases s <;> cases z <;> rfl
theorem enableSelectZero_enableAll (b : BitVector) : b.enableSelectZero.enableAll = b.enableAll := by
  rcases b with ⟨o, d, r, s, z⟩; cases r <;> cases s <;> cases z <;> rfl

/-! the data is never touched -/

@[simp] theorem enableRank_data (b : BitVector) : b.enableRank.data = b.data := by
  rcases b with ⟨o, d, r, s, z⟩; cases r <;> rfl
@[simp] theorem enableRank_ones (b : BitVector) : b.enableRank.ones = b.ones := by
  rcases b with ⟨o, d, r, s, z⟩; cases r <;> rfl
@[simp] theorem enableRank_select (b : BitVector) : b.enableRank.select = b.select := by
  rcases b with ⟨o, d, r, s, z⟩; cases r <;> rfl
@[simp] theorem enableRank_selectZero (b : BitVector) : b.enableRank.selectZero = b.selectZero := by
  rcases b with ⟨o, d, r, s, z⟩; cases r <;> rfl

@[simp] theorem enableSelect_data (b : BitVector) : b.enableSelect.data = b.data := by
  rcases b with ⟨o, d, r, s, z⟩; cases s <;> rfl
@[simp] theorem enableSelect_ones (b : BitVector) : b.enableSelect.ones = b.ones := by
  rcases b with ⟨o, d, r, s, z⟩; cases s <;> rfl
@[simp] theorem enableSelect_rank (b : BitVector) : b.enableSelect.rank = b.rank := by
  rcases b with ⟨o, d, r, s, z⟩; cases s <;> rfl
@[simp] theorem enableSelect_selectZero (b : BitVector) : b.enableSelect.selectZero = b.selectZero := by
  rcases b with ⟨o, d, r, s, z⟩; cases s <;> rfl

@[simp] theorem enableSelectZero_data (b : BitVector) : b.enableSelectZero.data = b.data := by
  rcases b with ⟨o, d, r, s, z⟩; cases z <;> rfl
@[simp] theorem enableSelectZero_ones (b : BitVector) : b.enableSelectZero.ones = b.ones := by
  rcases b with ⟨o, d, r, s, z⟩; cases z <;> rfl
@[simp] theorem enableSelectZero_rank (b : BitVector) : b.enableSelectZero.rank = b.rank := by
  rcases b with ⟨o, d, r, s, z⟩; cases z <;> rfl
@[simp] theorem enableSelectZero_select (b : BitVector) : b.enableSelectZero.select = b.select := by
  rcases b with ⟨o, d, r, s, z⟩; cases z <;> rfl

@[simp] theorem enableRank_len (b : BitVector) : b.enableRank.len = b.len := by
  unfold BitVector.len; rw [enableRank_data]
@[simp] theorem enableSelect_len (b : BitVector) : b.enableSelect.len = b.len := by
  unfold BitVector.len; rw [enableSelect_data]
@[simp] theorem enableSelectZero_len (b : BitVector) : b.enableSelectZero.len = b.len := by
  unfold BitVector.len; rw [enableSelectZero_data]

theorem enableAll_data (b : BitVector) : b.enableAll.data = b.data := by simp [BitVector.enableAll]
theorem enableAll_ones (b : BitVector) : b.enableAll.ones = b.ones := by simp [BitVector.enableAll]
theorem enableAll_len (b : BitVector) : b.enableAll.len = b.len := by simp [BitVector.enableAll]

/-- what is enabled afterwards: a present support is kept, an absent one is built from the data -/
theorem enableRank_rank (b : BitVector) :
    b.enableRank.rank = some (b.rank.getD (RankSup.build b.data)) := by
  rcases b with ⟨o, d, r, s, z⟩; cases r <;> rfl
theorem enableSelect_select (b : BitVector) :
    b.enableSelect.select = some (b.select.getD (SelSup.build b.len (positionsT .ident b.data))) := by
  rcases b with ⟨o, d, r, s, z⟩; cases s <;> rfl
theorem enableSelectZero_selectZero (b : BitVector) :
    b.enableSelectZero.selectZero =
      some (b.selectZero.getD (SelSup.build b.len (positionsT .compl b.data))) := by
  rcases b with ⟨o, d, r, s, z⟩; cases z <;> rfl

/-! ## the shape of the built supports

Sizes and well-formedness of what `RankSup.build` / `SelSup.build` produce — the facts the loader of
`BitVector` checks, plus the `usize` bounds serialization needs. -/

theorem rankBuild_size (v : RawVec) : (RankSup.build v).samples.size = (v.len + 511) / 512 := by
  rw [build_eq]; exact (buildFold_inv v _).1

theorem foldl_push_WF {α : Type} (f : α → Word) (l : List α) : ∀ (v : IntVec), v.WF →
    (l.foldl (fun (lv : IntVec) j => lv.push (f j)) v).WF := by
  induction l with
  | nil => intro v h; exact h
  | cons a l ih => intro v h; exact ih _ (IntVec.push_WF h _)

theorem foldl_push_len {α : Type} (f : α → Word) (l : List α) : ∀ (v : IntVec),
    (l.foldl (fun (lv : IntVec) j => lv.push (f j)) v).len = v.len + l.length := by
  induction l with
  | nil => intro v; rfl
  | cons a l ih => intro v; rw [List.foldl_cons, ih]; simp; omega

/-- one superblock of the construction: two samples, and either `cnt` long entries or `⌈cnt/64⌉`
short entries -/
theorem buildStep_facts (len : Nat) (pos : Array Nat) (r : SelSup) (k : Nat) :
    (SelSup.buildStep len pos r k).samples.len = r.samples.len + 2 ∧
    (r.samples.WF → (SelSup.buildStep len pos r k).samples.WF) ∧
    (r.long.WF → (SelSup.buildStep len pos r k).long.WF) ∧
    (r.short.WF → (SelSup.buildStep len pos r k).short.WF) ∧
    (((SelSup.buildStep len pos r k).long.len = r.long.len + min 4096 (pos.size - 4096 * k) ∧
      (SelSup.buildStep len pos r k).short.len = r.short.len) ∨
     ((SelSup.buildStep len pos r k).long.len = r.long.len ∧
      (SelSup.buildStep len pos r k).short.len =
        r.short.len + (min 4096 (pos.size - 4096 * k) + 63) / 64)) := by
  unfold SelSup.buildStep
  simp only []
  split <;> split
  all_goals first
    | (refine ⟨rfl, fun h => IntVec.push_WF (IntVec.push_WF h _) _, fun h => foldl_push_WF _ _ _ h,
        fun h => h, Or.inl ⟨?_, rfl⟩⟩
       simp only []
       rw [foldl_push_len]; simp)
    | (refine ⟨rfl, fun h => IntVec.push_WF (IntVec.push_WF h _) _, fun h => h,
        fun h => foldl_push_WF _ _ _ h, Or.inr ⟨rfl, ?_⟩⟩
       simp only []
       rw [foldl_push_len]; simp)

/-- loop invariant of the construction (shape only) -/
structure ShapeInv (m : Nat) (r : SelSup) (n : Nat) : Prop where
  sWF : r.samples.WF
  lWF : r.long.WF
  hWF : r.short.WF
  sLen : r.samples.len = 2 * n
  split : ∃ nl ns, nl + ns = n ∧ (r.long.len + 4095) / 4096 = nl ∧ (r.short.len + 63) / 64 = ns ∧
    (4096 * n ≤ m → r.long.len = 4096 * nl ∧ r.short.len = 64 * ns)
  lLe : r.long.len ≤ min (4096 * n) m
  hLe : r.short.len ≤ 64 * n

theorem shapeInv_loop (len : Nat) (pos : Array Nat) :
    ∀ n, 4096 * n < pos.size + 4096 → ShapeInv pos.size (SelSup.buildLoop len pos n) n := by
  intro n
  induction n with
  | zero =>
    intro _
    have hd : IntVec.default.WF := IntVec.default_spec.1
    exact ⟨hd, hd, hd, rfl, ⟨0, 0, rfl, by show (0 + 4095) / 4096 = 0; omega, by show (0 + 63) / 64 = 0; omega,
      fun _ => ⟨rfl, rfl⟩⟩, Nat.zero_le _, Nat.zero_le _⟩
  | succ n ih =>
    intro hn
    have hi := ih (by omega)
    rw [SelSup.buildLoop_succ]
    obtain ⟨f1, f2, f3, f4, f5⟩ := buildStep_facts len pos (SelSup.buildLoop len pos n) n
    obtain ⟨nl, ns, e1, e2, e3, e4⟩ := hi.split
    obtain ⟨e5, e6⟩ := e4 (by omega)
    have hl := hi.lLe
    have hh := hi.hLe
    refine ⟨f2 hi.sWF, f3 hi.lWF, f4 hi.hWF, by rw [f1, hi.sLen]; omega, ?_, ?_, ?_⟩
    · rcases f5 with ⟨g1, g2⟩ | ⟨g1, g2⟩
      · refine ⟨nl + 1, ns, by omega, by rw [g1]; omega, by rw [g2]; exact e3, fun hle => ?_⟩
        rw [g1, g2]; omega
      · refine ⟨nl, ns + 1, by omega, by rw [g1]; exact e2, by rw [g2]; omega, fun hle => ?_⟩
        rw [g1, g2]; omega
    · rcases f5 with ⟨g1, g2⟩ | ⟨g1, g2⟩ <;> rw [g1] <;> omega
    · rcases f5 with ⟨g1, g2⟩ | ⟨g1, g2⟩ <;> rw [g2] <;> omega

/-- the shape of `SelSup.build`: `2⌈m/4096⌉` samples, and the superblock count splits into long and
short superblocks (what `selSupC.load` and `bitVectorC.load` check) -/
theorem selBuild_shape (len : Nat) (pos : Array Nat) :
    (SelSup.build len pos).samples.WF ∧ (SelSup.build len pos).long.WF ∧
    (SelSup.build len pos).short.WF ∧
    (SelSup.build len pos).samples.len = 2 * ((pos.size + 4095) / 4096) ∧
    (SelSup.build len pos).superblocks = (pos.size + 4095) / 4096 ∧
    (SelSup.build len pos).superblocks =
      (SelSup.build len pos).longSuperblocks + (SelSup.build len pos).shortSuperblocks ∧
    (SelSup.build len pos).long.len ≤ pos.size ∧
    (SelSup.build len pos).short.len ≤ 64 * ((pos.size + 4095) / 4096) := by
  have h := shapeInv_loop len pos ((pos.size + 4095) / 4096) (by omega)
  obtain ⟨nl, ns, e1, e2, e3, _⟩ := h.split
  have hl := h.lLe
  rw [SelSup.build_eq]
  refine ⟨(IntVec.pack_spec h.sWF).1, (IntVec.pack_spec h.lWF).1, (IntVec.pack_spec h.hWF).1, ?_, ?_, ?_,
    ?_, ?_⟩
  · show (IntVec.pack _).len = _
    rw [IntVec.pack_len, h.sLen]
  · show (IntVec.pack _).len / 2 = _
    rw [IntVec.pack_len, h.sLen]; omega
  · show (IntVec.pack _).len / 2 = ((IntVec.pack _).len + 4095) / 4096 + ((IntVec.pack _).len + 63) / 64
    rw [IntVec.pack_len, IntVec.pack_len, IntVec.pack_len, h.sLen, e2, e3]; omega
  · show (IntVec.pack _).len ≤ _
    rw [IntVec.pack_len]; omega
  · show (IntVec.pack _).len ≤ _
    rw [IntVec.pack_len]; exact h.hLe

/-! ### serialized sizes -/

theorem rankSupC_ser_length (s : RankSup) : (rankSupC.ser s).length = 1 + 2 * s.samples.size := by
  show (BitVec.ofNat 64 s.samples.size :: s.samples.toList.flatMap fun p => [p.1, p.2]).length = _
  rw [List.length_cons, length_flatMap_pair, Array.length_toList]; omega

theorem intVecC_ser_length (v : IntVec) : (intVecC.ser v).length = 4 + v.data.data.size := by
  show (BitVec.ofNat 64 v.len :: BitVec.ofNat 64 v.width :: BitVec.ofNat 64 v.data.len ::
    BitVec.ofNat 64 v.data.data.size :: v.data.data.toList).length = _
  simp only [List.length_cons, Array.length_toList]; omega

theorem selSupC_ser_length (s : SelSup) : (selSupC.ser s).length =
    (4 + s.samples.data.data.size) + (4 + s.long.data.data.size) + (4 + s.short.data.data.size) := by
  show (intVecC.ser s.samples ++ intVecC.ser s.long ++ intVecC.ser s.short).length = _
  rw [List.length_append, List.length_append, intVecC_ser_length, intVecC_ser_length,
    intVecC_ser_length]

/-- a well-formed integer vector of fewer than 2^58 items meets the `usize` bounds of its codec -/
theorem intVecWF_of_lt {v : IntVec} (h : v.WF) (hl : v.len < 2 ^ 58) :
    intVecWF v ∧ v.data.data.size ≤ 2 ^ 58 := by
  obtain ⟨h1, h2, h3, h4⟩ := h
  have hm : v.len * v.width ≤ v.len * 64 := Nat.mul_le_mul_left _ h2
  have hs := h4.1
  refine ⟨⟨⟨h1, h2, h3, h4⟩, by omega, by omega, by omega⟩, by omega⟩

/-- the number of long entries stays below 2^58 even for the largest vectors, because a long superblock
spans at least `bit_len(len)^4` positions: `long.len * bit_len(len)^4 ≤ 4096 * len` -/
theorem selBuild_long_lt (len : Nat) (pos : Array Nat) (hlen : len < 2 ^ 64)
    (hs : pos.toList.Pairwise (· < ·)) (hlt : ∀ x, x ∈ pos.toList → x < len) :
    (SelSup.build len pos).long.len < 2 ^ 58 := by
  have hn : pos.toList.length = pos.size := Array.length_toList
  have hm := sorted_length_le hs len hlt
  have hle := (selBuild_shape len pos).2.2.2.2.2.2.1
  by_cases hsmall : len < 2 ^ 58
  · omega
  · have h := buildLoop_inv len pos hlen hs hlt ((pos.size + 4095) / 4096) (by omega)
    have hspan := h.lSpan
    have hb : sbBound len pos.toList ((pos.size + 4095) / 4096) = len := by
      unfold sbBound; rw [if_neg (by omega)]
    rw [hb, IntVec.length_items] at hspan
    have hlen' : (SelSup.build len pos).long.len =
        (SelSup.buildLoop len pos ((pos.size + 4095) / 4096)).long.len := by
      rw [SelSup.build_eq]; exact IntVec.pack_len _
    rw [hlen']
    generalize (SelSup.buildLoop len pos ((pos.size + 4095) / 4096)).long.len = L at hspan
    have hl : 59 ≤ bitLen (BitVec.ofNat 64 len) := by
      have b := toNat_lt_bitLen (BitVec.ofNat 64 len)
      rw [BitVec.toNat_ofNat, Nat.mod_eq_of_lt hlen] at b
      by_cases hc : bitLen (BitVec.ofNat 64 len) ≤ 58
      · have : 2 ^ bitLen (BitVec.ofNat 64 len) ≤ 2 ^ 58 := Nat.pow_le_pow_right (by decide) hc
        omega
      · omega
    unfold log4 at hspan
    generalize bitLen (BitVec.ofNat 64 len) = l at hspan hl
    have h2 : 59 * 59 ≤ l * l := Nat.mul_le_mul hl hl
    have h4 : (59 * 59) * (59 * 59) ≤ (l * l) * (l * l) := Nat.mul_le_mul h2 h2
    have h5 : L * ((59 * 59) * (59 * 59)) ≤ L * ((l * l) * (l * l)) := Nat.mul_le_mul_left _ h4
    omega

/-- **the built select support is serializable** -/
theorem selBuild_wf (len : Nat) (pos : Array Nat) (hlen : len < 2 ^ 63)
    (hs : pos.toList.Pairwise (· < ·)) (hlt : ∀ x, x ∈ pos.toList → x < len) :
    selSupWF (SelSup.build len pos) ∧
    (SelSup.build len pos).superblocks = (pos.size + 4095) / 4096 ∧
    (selSupC.ser (SelSup.build len pos)).length < 2 ^ 64 := by
  have hn : pos.toList.length = pos.size := Array.length_toList
  have hm := sorted_length_le hs len hlt
  obtain ⟨w1, w2, w3, l1, sb1, sb2, l2, l3⟩ := selBuild_shape len pos
  have hlong := selBuild_long_lt len pos (by omega) hs hlt
  obtain ⟨a1, a2⟩ := intVecWF_of_lt w1 (by omega)
  obtain ⟨b1, b2⟩ := intVecWF_of_lt w2 hlong
  obtain ⟨c1, c2⟩ := intVecWF_of_lt w3 (by omega)
  refine ⟨⟨a1, b1, c1, sb2⟩, sb1, ?_⟩
  rw [selSupC_ser_length]; omega

theorem rankBuild_wf (v : RawVec) (hlen : v.len < 2 ^ 64) :
    rankSupWF (RankSup.build v) ∧ (RankSup.build v).samples.size = (v.len + 511) / 512 ∧
    (rankSupC.ser (RankSup.build v)).length < 2 ^ 64 := by
  have h := rankBuild_size v
  refine ⟨?_, h, ?_⟩
  · unfold rankSupWF; omega
  · rw [rankSupC_ser_length]; omega

theorem positionsT_size (tr : Tr) (v : RawVec) :
    (positionsT tr v).size = (bitsT tr v.bits).count true := by
  rw [← Array.length_toList, positionsT_toList, length_onesPos]

theorem positionsT_size_ident (v : RawVec) : (positionsT .ident v).size = v.bits.count true :=
  positionsT_size .ident v

theorem positionsT_size_compl (v : RawVec) :
    (positionsT .compl v).size = v.len - v.bits.count true := by
  rw [positionsT_size]
  show (v.bits.map not).count true = _
  rw [count_true_map_not, length_bits]

theorem selBuild_wf_T (tr : Tr) (v : RawVec) (hlen : v.len < 2 ^ 63) :
    selSupWF (SelSup.build v.len (positionsT tr v)) ∧
    (SelSup.build v.len (positionsT tr v)).superblocks = ((bitsT tr v.bits).count true + 4095) / 4096 ∧
    (selSupC.ser (SelSup.build v.len (positionsT tr v))).length < 2 ^ 64 := by
  have := selBuild_wf v.len (positionsT tr v) hlen
    (by rw [positionsT_toList]; exact onesPos_sorted tr v)
    (by rw [positionsT_toList]; exact onesPos_mem_lt tr v)
  rw [positionsT_size] at this
  exact this

/-! ## (c) every subset of supports can be serialized and loaded back -/

/-- what is assumed of a bitvector before supports are added: well-formed data of fewer than 2^63
bits and a correct `ones` counter -/
structure Sound (b : BitVector) : Prop where
  wf : b.data.WF
  len_lt : b.data.len < 2 ^ 63
  ones_eq : b.ones = b.data.bits.count true

theorem ofRaw_sound {v : RawVec} (hv : v.WF) (hlen : v.len < 2 ^ 63) : Sound (BitVector.ofRaw v) :=
  ⟨hv, hlen, countOnes_eq v hv⟩

theorem Sound.enableRank {b : BitVector} (h : Sound b) : Sound b.enableRank :=
  ⟨by rw [enableRank_data]; exact h.wf, by rw [enableRank_data]; exact h.len_lt,
   by rw [enableRank_data, enableRank_ones]; exact h.ones_eq⟩
theorem Sound.enableSelect {b : BitVector} (h : Sound b) : Sound b.enableSelect :=
  ⟨by rw [enableSelect_data]; exact h.wf, by rw [enableSelect_data]; exact h.len_lt,
   by rw [enableSelect_data, enableSelect_ones]; exact h.ones_eq⟩
theorem Sound.enableSelectZero {b : BitVector} (h : Sound b) : Sound b.enableSelectZero :=
  ⟨by rw [enableSelectZero_data]; exact h.wf, by rw [enableSelectZero_data]; exact h.len_lt,
   by rw [enableSelectZero_data, enableSelectZero_ones]; exact h.ones_eq⟩

theorem Sound.ones_le {b : BitVector} (h : Sound b) : b.ones ≤ b.data.len := by
  rw [h.ones_eq, ← length_bits]; exact List.count_le_length

/-- a bitvector without supports is serializable -/
theorem wf_of_no_supports {b : BitVector} (h : Sound b) (hr : b.rank = none) (hs : b.select = none)
    (hz : b.selectZero = none) : bitVectorWF b := by
  have := h.len_lt
  have := h.ones_le
  refine ⟨⟨h.wf, by omega⟩, h.ones_le, by omega, ?_, ?_, ?_⟩
  · intro s e; rw [hr] at e; cases e
  · intro s e; rw [hs] at e; cases e
  · intro s e; rw [hz] at e; cases e

theorem ofRaw_wf {v : RawVec} (hv : v.WF) (hlen : v.len < 2 ^ 63) : bitVectorWF (BitVector.ofRaw v) :=
  wf_of_no_supports (ofRaw_sound hv hlen) rfl rfl rfl

/-- **enabling a support keeps the vector serializable** -/
theorem enableRank_wf {b : BitVector} (hs : Sound b) (h : bitVectorWF b) : bitVectorWF b.enableRank := by
  obtain ⟨h1, h2, h3, h4, h5, h6⟩ := h
  unfold bitVectorWF
  simp only [enableRank_data, enableRank_ones, enableRank_select, enableRank_selectZero]
  refine ⟨h1, h2, h3, ?_, h5, h6⟩
  intro s e
  rw [enableRank_rank] at e
  cases hr : b.rank with
  | some s0 =>
    rw [hr] at e
    have : s0 = s := by simpa using e
    subst this
    exact h4 s0 hr
  | none =>
    rw [hr] at e
    have : RankSup.build b.data = s := by simpa using e
    subst this
    exact rankBuild_wf b.data (by have := hs.len_lt; omega)

theorem enableSelect_wf {b : BitVector} (hs : Sound b) (h : bitVectorWF b) :
    bitVectorWF b.enableSelect := by
  obtain ⟨h1, h2, h3, h4, h5, h6⟩ := h
  unfold bitVectorWF
  simp only [enableSelect_data, enableSelect_ones, enableSelect_rank, enableSelect_selectZero]
  refine ⟨h1, h2, h3, h4, ?_, h6⟩
  intro s e
  rw [enableSelect_select] at e
  cases hr : b.select with
  | some s0 =>
    rw [hr] at e
    have : s0 = s := by simpa using e
    subst this
    exact h5 s0 hr
  | none =>
    rw [hr] at e
    have : SelSup.build b.len (positionsT .ident b.data) = s := by simpa using e
    subst this
    have := selBuild_wf_T .ident b.data hs.len_lt
    rw [hs.ones_eq]
    exact this

theorem enableSelectZero_wf {b : BitVector} (hs : Sound b) (h : bitVectorWF b) :
    bitVectorWF b.enableSelectZero := by
  obtain ⟨h1, h2, h3, h4, h5, h6⟩ := h
  unfold bitVectorWF
  simp only [enableSelectZero_data, enableSelectZero_ones, enableSelectZero_rank,
    enableSelectZero_select]
  refine ⟨h1, h2, h3, h4, h5, ?_⟩
  intro s e
  rw [enableSelectZero_selectZero] at e
  cases hr : b.selectZero with
  | some s0 =>
    rw [hr] at e
    have : s0 = s := by simpa using e
    subst this
    exact h6 s0 hr
  | none =>
    rw [hr] at e
    have : SelSup.build b.len (positionsT .compl b.data) = s := by simpa using e
    subst this
    have := selBuild_wf_T .compl b.data hs.len_lt
    have hc : (bitsT .compl b.data.bits).count true = b.data.len - b.ones := by
      show (b.data.bits.map not).count true = _
      rw [count_true_map_not, length_bits, hs.ones_eq]
    rw [hc] at this
    exact this

theorem enableAll_wf {b : BitVector} (hs : Sound b) (h : bitVectorWF b) : bitVectorWF b.enableAll :=
  enableSelectZero_wf hs.enableRank.enableSelect
    (enableSelect_wf hs.enableRank (enableRank_wf hs h))

/-- enable the subset of supports selected by the three flags -/
def enableSome (r s z : Bool) (b : BitVector) : BitVector :=
  let b := if r then b.enableRank else b
  let b := if s then b.enableSelect else b
  if z then b.enableSelectZero else b

theorem enableSome_sound (r s z : Bool) {b : BitVector} (h : Sound b) : Sound (enableSome r s z b) := by
  cases r <;> cases s <;> cases z
  · exact h
  · exact h.enableSelectZero
  · exact h.enableSelect
  · exact h.enableSelect.enableSelectZero
  · exact h.enableRank
  · exact h.enableRank.enableSelectZero
  · exact h.enableRank.enableSelect
  · exact h.enableRank.enableSelect.enableSelectZero

theorem enableSome_wf (r s z : Bool) {b : BitVector} (hs : Sound b) (h : bitVectorWF b) :
    bitVectorWF (enableSome r s z b) := by
  cases r <;> cases s <;> cases z
  · exact h
  · exact enableSelectZero_wf hs h
  · exact enableSelect_wf hs h
  · exact enableSelectZero_wf hs.enableSelect (enableSelect_wf hs h)
  · exact enableRank_wf hs h
  · exact enableSelectZero_wf hs.enableRank (enableRank_wf hs h)
  · exact enableSelect_wf hs.enableRank (enableRank_wf hs h)
  · exact enableAll_wf hs h

theorem enableSome_data (r s z : Bool) (b : BitVector) : (enableSome r s z b).data = b.data := by
  cases r <;> cases s <;> cases z <;> simp [enableSome]
theorem enableSome_ones (r s z : Bool) (b : BitVector) : (enableSome r s z b).ones = b.ones := by
  cases r <;> cases s <;> cases z <;> simp [enableSome]

/-- from a vector without supports, exactly the selected subset is present afterwards -/
theorem enableSome_present (r s z : Bool) (v : RawVec) :
    (enableSome r s z (BitVector.ofRaw v)).rank.isSome = r ∧
    (enableSome r s z (BitVector.ofRaw v)).select.isSome = s ∧
    (enableSome r s z (BitVector.ofRaw v)).selectZero.isSome = z := by
  cases r <;> cases s <;> cases z <;> exact ⟨rfl, rfl, rfl⟩

/-- whatever subset was enabled first, enabling everything gives the same value -/
theorem enableSome_enableAll (r s z : Bool) (b : BitVector) :
    (enableSome r s z b).enableAll = b.enableAll := by
  rcases b with ⟨o, d, br, bs, bz⟩
  cases r <;> cases s <;> cases z <;> cases br <;> cases bs <;> cases bz <;> rfl

/-- **(c), well-formedness**: `BitVector::from(raw)` with any subset of the supports enabled
satisfies the serialization invariant of `Proofs/Codec`. -/
theorem ofRaw_enableSome_wf {v : RawVec} (hv : v.WF) (hlen : v.len < 2 ^ 62) (r s z : Bool) :
    bitVectorWF (enableSome r s z (BitVector.ofRaw v)) :=
  enableSome_wf r s z (ofRaw_sound hv (by omega)) (ofRaw_wf hv (by omega))

/-- **(c), round trip** for all 8 subsets: the loader returns the very same value (so the same
subset of supports, with identical contents) and exactly the rest of the input. -/
theorem ofRaw_enableSome_roundtrip {v : RawVec} (hv : v.WF) (hlen : v.len < 2 ^ 62) (r s z : Bool)
    (rest : Elems) :
    bitVectorC.load (bitVectorC.ser (enableSome r s z (BitVector.ofRaw v)) ++ rest) =
      ok (enableSome r s z (BitVector.ofRaw v), rest) :=
  bitVectorC_lawful.roundtrip _ rest (ofRaw_enableSome_wf hv hlen r s z)

/-- the same, reading off what the caller observes: the loaded value reports exactly the subset
that was enabled, its data and count are those of the original, and enabling everything on it gives
the same value as enabling everything on the original. -/
theorem ofRaw_enableSome_load {v : RawVec} (hv : v.WF) (hlen : v.len < 2 ^ 62) (r s z : Bool)
    (rest : Elems) :
    ∃ b', bitVectorC.load (bitVectorC.ser (enableSome r s z (BitVector.ofRaw v)) ++ rest) = ok (b', rest) ∧
      b'.rank.isSome = r ∧ b'.select.isSome = s ∧ b'.selectZero.isSome = z ∧
      b'.data = v ∧ b'.ones = v.countOnes ∧
      b'.enableAll = (BitVector.ofRaw v).enableAll ∧
      b'.enableAll = (enableSome r s z (BitVector.ofRaw v)).enableAll := by
  obtain ⟨p1, p2, p3⟩ := enableSome_present r s z v
  exact ⟨_, ofRaw_enableSome_roundtrip hv hlen r s z rest, p1, p2, p3, enableSome_data r s z _,
    enableSome_ones r s z _, enableSome_enableAll r s z _, rfl⟩

/-- every strict prefix of the serialization (of any of the 8 variants) is refused -/
theorem ofRaw_enableSome_prefix {v : RawVec} (hv : v.WF) (hlen : v.len < 2 ^ 62) (r s z : Bool)
    (k : Nat) (hk : k < (bitVectorC.ser (enableSome r s z (BitVector.ofRaw v))).length)
    (y : BitVector) (rest : Elems) :
    bitVectorC.load ((bitVectorC.ser (enableSome r s z (BitVector.ofRaw v))).take k) ≠ ok (y, rest) :=
  bitVectorC_lawful.pfx _ k (ofRaw_enableSome_wf hv hlen r s z) hk y rest

/-- **rebuildable**, general form: any sound, serializable bitvector stays serializable under any
sequence of `enable_*` calls; in particular a loaded vector can get its missing supports rebuilt and
be written again. -/
theorem roundtrip_after_enable {b : BitVector} (hs : Sound b) (h : bitVectorWF b) (r s z : Bool)
    (rest : Elems) :
    bitVectorC.load (bitVectorC.ser (enableSome r s z b) ++ rest) = ok (enableSome r s z b, rest) :=
  bitVectorC_lawful.roundtrip _ rest (enableSome_wf r s z hs h)

/-! ## (d) supports never change answers -/

/-! ### frame: a query only looks at its own support -/

theorem enableSelect_rankQ (b : BitVector) (i : Nat) : b.enableSelect.rankQ i = b.rankQ i := by
  unfold BitVector.rankQ BitVector.countOnes
  rw [enableSelect_len, enableSelect_ones, enableSelect_rank, enableSelect_data]

theorem enableSelectZero_rankQ (b : BitVector) (i : Nat) : b.enableSelectZero.rankQ i = b.rankQ i := by
  unfold BitVector.rankQ BitVector.countOnes
  rw [enableSelectZero_len, enableSelectZero_ones, enableSelectZero_rank, enableSelectZero_data]

theorem enableRank_selectQ (m : Mode) (b : BitVector) (r : Nat) :
    b.enableRank.selectQ m r = b.selectQ m r := by
  unfold BitVector.selectQ BitVector.selectT BitVector.countT BitVector.supT BitVector.countOnes
  simp only [enableRank_ones, enableRank_select, enableRank_data]

theorem enableSelectZero_selectQ (m : Mode) (b : BitVector) (r : Nat) :
    b.enableSelectZero.selectQ m r = b.selectQ m r := by
  unfold BitVector.selectQ BitVector.selectT BitVector.countT BitVector.supT BitVector.countOnes
  simp only [enableSelectZero_ones, enableSelectZero_select, enableSelectZero_data]

theorem enableRank_selectZeroQ (m : Mode) (b : BitVector) (r : Nat) :
    b.enableRank.selectZeroQ m r = b.selectZeroQ m r := by
  unfold BitVector.selectZeroQ BitVector.selectT BitVector.countT BitVector.supT BitVector.countZeros
  simp only [enableRank_ones, enableRank_selectZero, enableRank_data, enableRank_len]

theorem enableSelect_selectZeroQ (m : Mode) (b : BitVector) (r : Nat) :
    b.enableSelect.selectZeroQ m r = b.selectZeroQ m r := by
  unfold BitVector.selectZeroQ BitVector.selectT BitVector.countT BitVector.supT BitVector.countZeros
  simp only [enableSelect_ones, enableSelect_selectZero, enableSelect_data, enableSelect_len]

/-- re-enabling a support that is present is the identity (so it cannot change an answer either) -/
theorem enableRank_of_some {b : BitVector} (h : b.rank.isSome) : b.enableRank = b := by
  rcases b with ⟨o, d, r, s, z⟩; cases r
  · cases h
  · rfl
theorem enableSelect_of_some {b : BitVector} (h : b.select.isSome) : b.enableSelect = b := by
  rcases b with ⟨o, d, r, s, z⟩; cases s
  · cases h
  · rfl
theorem enableSelectZero_of_some {b : BitVector} (h : b.selectZero.isSome) :
    b.enableSelectZero = b := by
  rcases b with ⟨o, d, r, s, z⟩; cases z
  · cases h
  · rfl

/-- `get` never looks at a support -/
theorem enableSome_get (r s z : Bool) (b : BitVector) (i : Nat) :
    (enableSome r s z b).get i = b.get i := by
  unfold BitVector.get; rw [enableSome_data]

/-! ### optional: what a query does without its support -/

theorem rankQ_absent {b : BitVector} (h : b.rank = none) (i : Nat) :
    b.rankQ i = if i ≥ b.len then ok b.ones else fault (.panic .unwrap) := by
  unfold BitVector.rankQ BitVector.countOnes; rw [h]

theorem selectQ_absent {b : BitVector} (h : b.select = none) (m : Mode) (r : Nat) :
    b.selectQ m r = if r ≥ b.ones then ok none else fault (.panic .unwrap) := by
  unfold BitVector.selectQ BitVector.selectT BitVector.supT BitVector.countT BitVector.countOnes
  simp only [h]

theorem selectZeroQ_absent {b : BitVector} (h : b.selectZero = none) (m : Mode) (r : Nat) :
    b.selectZeroQ m r = if r ≥ b.len - b.ones then ok none else fault (.panic .unwrap) := by
  unfold BitVector.selectZeroQ BitVector.selectT BitVector.supT BitVector.countT BitVector.countZeros
  simp only [h]

/-! ### valid supports answer by the specification -/

/-- every support that is present describes the data -/
structure SupValid (b : BitVector) : Prop where
  rank : ∀ s, b.rank = some s → s.Valid b.data
  select : ∀ s, b.select = some s → s.Valid .ident b.data
  selectZero : ∀ s, b.selectZero = some s → s.Valid .compl b.data

theorem supValid_of_no_supports {b : BitVector} (hr : b.rank = none) (hs : b.select = none)
    (hz : b.selectZero = none) : SupValid b :=
  ⟨fun s e => (by rw [hr] at e; cases e), fun s e => (by rw [hs] at e; cases e),
   fun s e => (by rw [hz] at e; cases e)⟩

theorem ofRaw_supValid (v : RawVec) : SupValid (BitVector.ofRaw v) :=
  supValid_of_no_supports rfl rfl rfl

theorem SupValid.enableRank {b : BitVector} (hs : Sound b) (h : SupValid b) : SupValid b.enableRank := by
  refine ⟨?_, by simpa using h.select, by simpa using h.selectZero⟩
  intro s e
  rw [enableRank_rank] at e
  rw [enableRank_data]
  cases hr : b.rank with
  | some s0 =>
    rw [hr] at e
    have : s0 = s := by simpa using e
    subst this; exact h.rank s0 hr
  | none =>
    rw [hr] at e
    have : RankSup.build b.data = s := by simpa using e
    subst this; exact build_valid hs.wf (by have := hs.len_lt; omega)

theorem SupValid.enableSelect {b : BitVector} (hs : Sound b) (h : SupValid b) :
    SupValid b.enableSelect := by
  refine ⟨by simpa using h.rank, ?_, by simpa using h.selectZero⟩
  intro s e
  rw [enableSelect_select] at e
  rw [enableSelect_data]
  cases hr : b.select with
  | some s0 =>
    rw [hr] at e
    have : s0 = s := by simpa using e
    subst this; exact h.select s0 hr
  | none =>
    rw [hr] at e
    have : SelSup.build b.len (positionsT .ident b.data) = s := by simpa using e
    subst this; exact SelSup.build_valid hs.wf (by have := hs.len_lt; omega) .ident

theorem SupValid.enableSelectZero {b : BitVector} (hs : Sound b) (h : SupValid b) :
    SupValid b.enableSelectZero := by
  refine ⟨by simpa using h.rank, by simpa using h.select, ?_⟩
  intro s e
  rw [enableSelectZero_selectZero] at e
  rw [enableSelectZero_data]
  cases hr : b.selectZero with
  | some s0 =>
    rw [hr] at e
    have : s0 = s := by simpa using e
    subst this; exact h.selectZero s0 hr
  | none =>
    rw [hr] at e
    have : SelSup.build b.len (positionsT .compl b.data) = s := by simpa using e
    subst this; exact SelSup.build_valid hs.wf (by have := hs.len_lt; omega) .compl

theorem enableSome_supValid (r s z : Bool) {b : BitVector} (hs : Sound b) (h : SupValid b) :
    SupValid (enableSome r s z b) := by
  cases r <;> cases s <;> cases z
  · exact h
  · exact h.enableSelectZero hs
  · exact h.enableSelect hs
  · exact (h.enableSelect hs).enableSelectZero hs.enableSelect
  · exact h.enableRank hs
  · exact (h.enableRank hs).enableSelectZero hs.enableRank
  · exact (h.enableRank hs).enableSelect hs.enableRank
  · exact ((h.enableRank hs).enableSelect hs.enableRank).enableSelectZero hs.enableRank.enableSelect

/-- the answers with valid supports are those of the specification (re-export of `rankQ_ok`,
`rankZeroQ_ok`, `selectQ_ok`, `selectZeroQ_ok`) -/
theorem rankQ_spec {b : BitVector} (hs : Sound b) (h : SupValid b) (hp : b.rank.isSome) (i : Nat) :
    b.rankQ i = ok (rankSpec b.data.bits i) := by
  obtain ⟨s, e⟩ := Option.isSome_iff_exists.mp hp
  exact rankQ_ok hs.wf rfl e (h.rank s e) hs.ones_eq i

theorem rankZeroQ_spec {b : BitVector} (hs : Sound b) (h : SupValid b) (hp : b.rank.isSome)
    (m : Mode) (i : Nat) : b.rankZeroQ m i = ok (i - rankSpec b.data.bits i) := by
  obtain ⟨s, e⟩ := Option.isSome_iff_exists.mp hp
  exact rankZeroQ_ok hs.wf rfl e (h.rank s e) hs.ones_eq m i

theorem selectQ_spec {b : BitVector} (hs : Sound b) (h : SupValid b) (hp : b.select.isSome)
    (m : Mode) (r : Nat) : b.selectQ m r = ok (selectSpec b.data.bits r) := by
  obtain ⟨s, e⟩ := Option.isSome_iff_exists.mp hp
  exact selectQ_ok hs.wf (by have := hs.len_lt; omega) rfl hs.ones_eq e (h.select s e) m r

theorem selectZeroQ_spec {b : BitVector} (hs : Sound b) (h : SupValid b) (hp : b.selectZero.isSome)
    (m : Mode) (r : Nat) : b.selectZeroQ m r = ok (selectZeroSpec b.data.bits r) := by
  obtain ⟨s, e⟩ := Option.isSome_iff_exists.mp hp
  exact selectZeroQ_ok hs.wf (by have := hs.len_lt; omega) rfl hs.ones_eq e (h.selectZero s e) m r

/-- **never change answers**: two bitvectors over the same data — whatever other supports each of them
carries, however the supports were obtained (built, loaded, …) as long as they are valid — give
the same answers. -/
theorem rankQ_coincide {b1 b2 : BitVector} (hd : b1.data = b2.data)
    (s1 : Sound b1) (s2 : Sound b2) (v1 : SupValid b1) (v2 : SupValid b2)
    (p1 : b1.rank.isSome) (p2 : b2.rank.isSome) (i : Nat) : b1.rankQ i = b2.rankQ i := by
  rw [rankQ_spec s1 v1 p1, rankQ_spec s2 v2 p2, hd]

theorem rankZeroQ_coincide {b1 b2 : BitVector} (hd : b1.data = b2.data)
    (s1 : Sound b1) (s2 : Sound b2) (v1 : SupValid b1) (v2 : SupValid b2)
    (p1 : b1.rank.isSome) (p2 : b2.rank.isSome) (m1 m2 : Mode) (i : Nat) :
    b1.rankZeroQ m1 i = b2.rankZeroQ m2 i := by
  rw [rankZeroQ_spec s1 v1 p1, rankZeroQ_spec s2 v2 p2, hd]

theorem selectQ_coincide {b1 b2 : BitVector} (hd : b1.data = b2.data)
    (s1 : Sound b1) (s2 : Sound b2) (v1 : SupValid b1) (v2 : SupValid b2)
    (p1 : b1.select.isSome) (p2 : b2.select.isSome) (m1 m2 : Mode) (r : Nat) :
    b1.selectQ m1 r = b2.selectQ m2 r := by
  rw [selectQ_spec s1 v1 p1, selectQ_spec s2 v2 p2, hd]

theorem selectZeroQ_coincide {b1 b2 : BitVector} (hd : b1.data = b2.data)
    (s1 : Sound b1) (s2 : Sound b2) (v1 : SupValid b1) (v2 : SupValid b2)
    (p1 : b1.selectZero.isSome) (p2 : b2.selectZero.isSome) (m1 m2 : Mode) (r : Nat) :
    b1.selectZeroQ m1 r = b2.selectZeroQ m2 r := by
  rw [selectZeroQ_spec s1 v1 p1, selectZeroQ_spec s2 v2 p2, hd]

/-- the concrete instance: for `BitVector::from(raw)` the answer of a query is the specification's for
*every* subset of enabled supports containing the one the query needs -/
theorem ofRaw_rankQ {v : RawVec} (hv : v.WF) (hlen : v.len < 2 ^ 63) (s z : Bool) (i : Nat) :
    (enableSome true s z (BitVector.ofRaw v)).rankQ i = ok (rankSpec v.bits i) := by
  have h := rankQ_spec (enableSome_sound true s z (ofRaw_sound hv hlen))
    (enableSome_supValid true s z (ofRaw_sound hv hlen) (ofRaw_supValid v))
    (by rw [(enableSome_present true s z v).1]) i
  rw [enableSome_data] at h; exact h

theorem ofRaw_selectQ {v : RawVec} (hv : v.WF) (hlen : v.len < 2 ^ 63) (r z : Bool) (m : Mode) (k : Nat) :
    (enableSome r true z (BitVector.ofRaw v)).selectQ m k = ok (selectSpec v.bits k) := by
  have h := selectQ_spec (enableSome_sound r true z (ofRaw_sound hv hlen))
    (enableSome_supValid r true z (ofRaw_sound hv hlen) (ofRaw_supValid v))
    (by rw [(enableSome_present r true z v).2.1]) m k
  rw [enableSome_data] at h; exact h

theorem ofRaw_selectZeroQ {v : RawVec} (hv : v.WF) (hlen : v.len < 2 ^ 63) (r s : Bool) (m : Mode)
    (k : Nat) :
    (enableSome r s true (BitVector.ofRaw v)).selectZeroQ m k = ok (selectZeroSpec v.bits k) := by
  have h := selectZeroQ_spec (enableSome_sound r s true (ofRaw_sound hv hlen))
    (enableSome_supValid r s true (ofRaw_sound hv hlen) (ofRaw_supValid v))
    (by rw [(enableSome_present r s true v).2.2]) m k
  rw [enableSome_data] at h; exact h

/-- … and it survives a save / load cycle: the loaded vector answers as the original does -/
theorem loaded_answers {v : RawVec} (hv : v.WF) (hlen : v.len < 2 ^ 62) (r s z : Bool) (rest : Elems) :
    ∃ b', bitVectorC.load (bitVectorC.ser (enableSome r s z (BitVector.ofRaw v)) ++ rest) = ok (b', rest) ∧
      Sound b' ∧ SupValid b' ∧
      (r = true → ∀ i, b'.rankQ i = ok (rankSpec v.bits i)) ∧
      (s = true → ∀ m k, b'.selectQ m k = ok (selectSpec v.bits k)) ∧
      (z = true → ∀ m k, b'.selectZeroQ m k = ok (selectZeroSpec v.bits k)) := by
  have hl : v.len < 2 ^ 63 := by omega
  refine ⟨_, ofRaw_enableSome_roundtrip hv hlen r s z rest,
    enableSome_sound r s z (ofRaw_sound hv hl),
    enableSome_supValid r s z (ofRaw_sound hv hl) (ofRaw_supValid v), ?_, ?_, ?_⟩
  · intro e i; subst e; exact ofRaw_rankQ hv hl s z i
  · intro e m k; subst e; exact ofRaw_selectQ hv hl r z m k
  · intro e m k; subst e; exact ofRaw_selectZeroQ hv hl r s m k

end Sds.SupportProofs
