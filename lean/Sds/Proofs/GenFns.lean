/-
Proofs/GenFns: the arithmetic helpers of `bits.rs` as TRANSLATED from the source on every run
(Generated/BitsFns.lean, produced expression by expression by tools/gen_lean.py) are equal to the hand-written
model definitions of Model/Bits.lean that all other theorems are about.  If the source of one of these helpers
changes, the generated definition changes with it and the corresponding equation either still holds (the model
follows the code) or stops checking — a named broken obligation, after which the correspondence check supplies
the failing argument.
-/
import Sds.Model.Bits
import Sds.Generated.BitsFns

namespace Sds.GenFns
open Sds Outcome Generated

theorem gDiv_pos (a b : Nat) (h : b ≠ 0) : gDiv a b = ok (a / b) := by
  simp [gDiv, h]

theorem words_to_bytes_eq (m : Mode) (n : Nat) : gen_words_to_bytes m n = wordsToBytes m n := by
  unfold gen_words_to_bytes wordsToBytes
  cases h : mulM m n 8 <;> simp [Bind.bind, Outcome.bind, Pure.pure]

theorem words_to_bits_eq (m : Mode) (n : Nat) : gen_words_to_bits m n = wordsToBits m n := by
  unfold gen_words_to_bits wordsToBits
  cases h : mulM m n 64 <;> simp [Bind.bind, Outcome.bind, Pure.pure]

theorem bytes_to_words_eq (m : Mode) (n : Nat) : gen_bytes_to_words m n = bytesToWords m n := by
  unfold gen_bytes_to_words bytesToWords
  cases h : addM m n 7 <;> simp [Bind.bind, Outcome.bind, Pure.pure, gDiv]

theorem bits_to_words_eq (m : Mode) (n : Nat) : gen_bits_to_words m n = bitsToWords m n := by
  unfold gen_bits_to_words bitsToWords
  cases h : addM m n 63 <;> simp [Bind.bind, Outcome.bind, Pure.pure, gDiv]

theorem round_up_to_word_bytes_eq (m : Mode) (n : Nat) :
    gen_round_up_to_word_bytes m n = roundUpToWordBytes m n := by
  unfold gen_round_up_to_word_bytes roundUpToWordBytes
  rw [bytes_to_words_eq]
  cases h : bytesToWords m n with
  | fault e => simp [Bind.bind, Outcome.bind]
  | ok w =>
    simp only [Bind.bind, Outcome.bind, words_to_bytes_eq]
    first | done | (cases h2 : wordsToBytes m w <;> simp [Pure.pure, Outcome.bind])

theorem round_up_to_word_bits_eq (m : Mode) (n : Nat) :
    gen_round_up_to_word_bits m n = roundUpToWordBits m n := by
  unfold gen_round_up_to_word_bits roundUpToWordBits
  rw [bits_to_words_eq]
  cases h : bitsToWords m n with
  | fault e => simp [Bind.bind, Outcome.bind]
  | ok w =>
    simp only [Bind.bind, Outcome.bind, words_to_bits_eq]
    first | done | (cases h2 : wordsToBits m w <;> simp [Pure.pure, Outcome.bind])

theorem div_round_up_eq (m : Mode) (value n : Nat) : gen_div_round_up m value n = divRoundUp m value n := by
  unfold gen_div_round_up divRoundUp
  cases h : addM m value n with
  | fault e => simp [Bind.bind, Outcome.bind]
  | ok a =>
    simp only [Bind.bind, Outcome.bind]
    cases h2 : subM m a 1 with
    | fault e => simp
    | ok b =>
      simp only []
      by_cases hn : n = 0 <;> simp [gDiv, hn, Pure.pure]

theorem split_offset_eq (m : Mode) (b : Nat) : gen_split_offset m b = ok (splitOffset b) := by
  simp [gen_split_offset, splitOffset, Pure.pure, Bind.bind, Outcome.bind]

theorem bit_offset_eq (m : Mode) (index offset : Nat) : gen_bit_offset m index offset = bitOffset m index offset := by
  unfold gen_bit_offset bitOffset
  cases h : addM m (index <<< 6 % U64) offset <;> simp [Bind.bind, Outcome.bind, Pure.pure]

end Sds.GenFns
